/-
  Step-level "never rewrites" theorems (C02: init() of a valid job touches nothing; C04: a
  collision raises DestinationExistsError and leaves both jobs byte-identical on disk).
  These are about the recorded trace `Outcome.acc.trace` (every step announced to the file
  system — performed, failed by itself, or faulted — newest first) and about EXACT equality of
  worlds, not equality up to the abstraction `absW`.
-/
import Signac.Proofs.LifeRefine
namespace Signac.Life
variable {Sp : Type}

/- ================================================================ init of a valid job -/
/-- `init()` of a job whose directory validates: under EVERY event schedule the program announces
    no step at all — nothing is written, no event can fire — and returns ok.  (`v` and `force`
    play no role; the other directories are arbitrary.) -/
theorem init_valid_no_step (C : Codec Sp) (ev : Nat → Option Ev) (k : Key) (v : Sp) (force : Bool)
    (w : World Sp) (hk : validAt C w k = true) :
    run C ev (initProg C k v force) w = ⟨w, .ok, {}⟩ := by
  simp [run, initProg, exec, hk]

theorem validAt_of_settled (C : Codec Sp) {w : World Sp} {k : Key} {d : JobDir Sp} (hw : w k = some d)
    (hd : Settled C k.2 d) : validAt C w k = true := by
  simp [validAt, hw, settled_valid C hd]

/- ================================================================ collisions -/
/-- re-key `x → y` onto a non-empty directory: exact outcome of the event-free run.  Three steps
    are announced: the state-point file of `x` is parked as backup, the rename fails by itself
    (ENOTEMPTY), the rollback puts the file back.  The world is the initial one except that a
    stale backup file of `x` (if there was one) is gone. -/
theorem rekey_collision_run (C : Codec Sp) (x y : Key) (v v0 : Sp) (w : World Sp) (D D' : JobDir Sp)
    (hxy : x ≠ y) (hx : w x = some D) (hsp : D.sp = some (.ok v0)) (hh : C.hash v0 = x.2)
    (hy : w y = some D') (hD' : D'.isEmpty = false) :
    run C noEv (rekeyProg C x y v) w =
      ⟨upd w x (some { D with bak := none }), destExists,
       ⟨3, [.bakToSp x, .renameDir x y, .spToBak x], false⟩⟩ := by
  have hyx : y ≠ x := fun h => hxy h.symm
  simp [run, rekeyProg, exec, noEv, apply, validAt, hx, hy, hsp, upd_other, hyx, JobDir.valid,
    Content.validFor, hh, hD', destExists, Acc.ok]

theorem upd_self_dir (w : World Sp) (x : Key) (D : JobDir Sp) (hx : w x = some D) (hb : D.bak = none) :
    upd w x (some { D with bak := none }) = w := by
  apply upd_self
  rw [hx]
  obtain ⟨sp, bak, strays, entries⟩ := D
  simp only at hb
  subst hb
  rfl

/-- … hence with no stale backup at `x`: DestinationExistsError and the world is EXACTLY the
    initial one — both jobs byte-identical, every other directory too -/
theorem rekey_collision_exact (C : Codec Sp) (x y : Key) (v v0 : Sp) (w : World Sp) (D D' : JobDir Sp)
    (hxy : x ≠ y) (hx : w x = some D) (hsp : D.sp = some (.ok v0)) (hh : C.hash v0 = x.2)
    (hb : D.bak = none) (hy : w y = some D') (hD' : D'.isEmpty = false) :
    run C noEv (rekeyProg C x y v) w =
      ⟨w, destExists, ⟨3, [.bakToSp x, .renameDir x y, .spToBak x], false⟩⟩ := by
  rw [rekey_collision_run C x y v v0 w D D' hxy hx hsp hh hy hD', upd_self_dir w x D hx hb]

/-- the three steps one by one: park (changes `x`), rename (fails by itself, changes nothing),
    roll back (restores `x`) -/
theorem rekey_collision_steps (C : Codec Sp) (x y : Key) (w : World Sp) (D D' : JobDir Sp) (c : Content Sp)
    (hxy : x ≠ y) (hx : w x = some D) (hsp : D.sp = some c) (hb : D.bak = none)
    (hy : w y = some D') (hD' : D'.isEmpty = false) :
    let w1 := upd w x (some { D with sp := none, bak := some c })
    apply C w (.spToBak x) = .ok w1 ∧ apply C w1 (.renameDir x y) = .error .ENOTEMPTY ∧
      apply C w1 (.bakToSp x) = .ok w := by
  have hyx : y ≠ x := fun h => hxy h.symm
  refine ⟨by simp [apply, hx, hsp], by simp [apply, upd_other, hyx, hy, hD'], ?_⟩
  simp only [apply, upd_same, upd_upd_same]
  congr 1
  apply upd_self
  rw [hx]
  obtain ⟨sp, bak, strays, entries⟩ := D
  simp only at hb hsp
  subst hb hsp
  rfl

/-- `move a → b` onto a non-empty directory: one step (the rename, which fails by itself),
    DestinationExistsError, world untouched -/
theorem move_collision_exact (C : Codec Sp) (a b : Key) (w : World Sp) (D D' : JobDir Sp)
    (ha : w a = some D) (hb : w b = some D') (hD' : D'.isEmpty = false) :
    run C noEv (moveProg a b) w = ⟨w, destExists, ⟨1, [.renameDir a b], false⟩⟩ := by
  simp [run, moveProg, exec, noEv, apply, ha, hb, hD', destExists, Acc.ok]

/-- `clone src → dst` onto an existing directory (even an empty one): one step (the `mkdir` of the
    destination, which fails by itself with EEXIST), DestinationExistsError, world untouched -/
theorem clone_collision_exact (C : Codec Sp) (src dst : Key) (order : List Ref) (w : World Sp)
    (D D' : JobDir Sp) (hs : w src = some D) (hd : w dst = some D') :
    run C noEv (cloneProg src dst order) w = ⟨w, destExists, ⟨1, [.cpMkdir dst ""], false⟩⟩ := by
  simp [run, cloneProg, exec, noEv, apply, hs, hd, destExists, Acc.ok]

/- ================================================================ first and second init -/
/-- `init()` of an absent job: exactly four steps — mkdir, open the temp file, write it, rename it
    onto the state-point file — and the new directory holds nothing but the state point -/
theorem init_fresh_run (C : Codec Sp) (k : Key) (v : Sp) (force : Bool) (w : World Sp) (hk : w k = none)
    (hv : C.hash v = k.2) :
    run C noEv (initProg C k v force) w =
      ⟨upd w k (some { sp := some (.ok v) }), .ok,
       ⟨4, [.tmpCommit k spName, .tmpWrite k spName (.ok v), .tmpOpen k spName, .mkdir k], false⟩⟩ := by
  simp [run, initProg, saveProg, loadProg, exec, noEv, apply, validAt, hasSpFile, hk, setStray, getStray,
    eraseStray, JobDir.valid, Content.validFor, hv, Acc.ok]

/-- a second `init()` (any state point argument, any `force`, ANY event schedule) after a successful
    first one announces no step -/
theorem init_twice_no_step (C : Codec Sp) (ev : Nat → Option Ev) (k : Key) (v v' : Sp) (f f' : Bool)
    (w : World Sp) (hk : w k = none) (hv : C.hash v = k.2) :
    let w1 := (run C noEv (initProg C k v f) w).w
    run C ev (initProg C k v' f') w1 = ⟨w1, .ok, {}⟩ := by
  intro w1
  apply init_valid_no_step
  simp [w1, init_fresh_run C k v f w hk hv, validAt, JobDir.valid, Content.validFor, hv]

/- ================================================================ a fault inside the collision -/
/-- re-key collision with the PARKING step faulted (`e ≠ ENOENT`): the error is raised, world untouched -/
theorem rekey_collision_fault0 (C : Codec Sp) (x y : Key) (v : Sp) (w : World Sp) (e : Errno) (he : e ≠ .ENOENT) :
    run C (faultAt 0 e) (rekeyProg C x y v) w = ⟨w, osExc e, ⟨1, [.spToBak x], true⟩⟩ := by
  simp [run, rekeyProg, exec, faultAt, he, Acc.flt]

/-- re-key collision with the RENAME faulted (`e ≠ ENOENT`): rollback runs, the world is exactly the
    initial one; the exception is DestinationExistsError for EEXIST/ENOTEMPTY/EACCES, else the OSError -/
theorem rekey_collision_fault1 (C : Codec Sp) (x y : Key) (v v0 : Sp) (w : World Sp) (D : JobDir Sp)
    (e : Errno) (he : e ≠ .ENOENT) (hx : w x = some D) (hsp : D.sp = some (.ok v0)) (hh : C.hash v0 = x.2)
    (hb : D.bak = none) :
    run C (faultAt 1 e) (rekeyProg C x y v) w =
      ⟨w, if e = .EEXIST ∨ e = .ENOTEMPTY ∨ e = .EACCES then destExists else osExc e,
       ⟨3, [.bakToSp x, .renameDir x y, .spToBak x], true⟩⟩ := by
  have := upd_self_dir w x D hx hb
  by_cases h1 : e = .EEXIST ∨ e = .ENOTEMPTY ∨ e = .EACCES <;>
  · simp [run, rekeyProg, exec, faultAt, apply, validAt, hx, hsp, JobDir.valid, Content.validFor, hh, he, h1,
      destExists, Acc.ok, Acc.flt]
    rw [← hsp]; exact this

/-- re-key collision with the ROLLBACK faulted (`e ≠ ENOENT`): the world is NOT restored — the
    state-point file of `x` stays parked as `signac_statepoint.json~`.  Exactly that differs:
    payload, strays and every other directory (the destination included) are as before, `x` is
    reported by `check()`, and the OSError is raised. -/
theorem rekey_collision_fault2 (C : Codec Sp) (x y : Key) (v : Sp) (w : World Sp) (D D' : JobDir Sp)
    (c : Content Sp) (e : Errno) (he : e ≠ .ENOENT) (hxy : x ≠ y) (hx : w x = some D) (hsp : D.sp = some c)
    (hy : w y = some D') (hD' : D'.isEmpty = false) :
    run C (faultAt 2 e) (rekeyProg C x y v) w =
      ⟨upd w x (some { D with sp := none, bak := some c }), osExc e,
       ⟨3, [.bakToSp x, .renameDir x y, .spToBak x], true⟩⟩ ∧
    corruptAt C (upd w x (some { D with sp := none, bak := some c })) x = true := by
  have hyx : y ≠ x := fun h => hxy h.symm
  constructor
  · simp [run, rekeyProg, exec, faultAt, apply, hx, hy, hsp, upd_other, hyx, hD', he, Acc.ok, Acc.flt]
  · simp [corruptAt, JobDir.valid]

end Signac.Life

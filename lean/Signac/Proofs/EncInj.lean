/-
  Helper lemmas for C01: the text `json.dumps` prints determines the value
  (`encChars` is injective, even followed by a continuation), provided the float
  tokens are well formed.  `canon` preserves that proviso.
-/
import Signac.Proofs.EncStr
import Signac.Proofs.EncTok
namespace Signac

def floatTokChars : List Char := "0123456789+-.eNaIfinty".toList

/-- a float token: non-empty, only float-token characters, and at least one character that
    cannot occur in an integer token -/
def FloatTok (r : String) : Prop :=
  r.toList ≠ [] ∧ (∀ c ∈ r.toList, c ∈ floatTokChars) ∧ (∃ c ∈ r.toList, c ∉ "0123456789-".toList)

mutual
  /-- every float leaf of v (at any depth) is a float token whose repr determines its value
      through fv -/
  def FloatsOk (fv : String → Int × Nat) : JVal → Prop
    | .flt n e r => FloatTok r ∧ fv r = (n, e)
    | .arr xs => FloatsOkList fv xs
    | .obj kvs => FloatsOkObj fv kvs
    | .null => True
    | .bool _ => True
    | .int _ => True
    | .str _ => True
  def FloatsOkList (fv : String → Int × Nat) : List JVal → Prop
    | [] => True
    | x :: xs => FloatsOk fv x ∧ FloatsOkList fv xs
  def FloatsOkObj (fv : String → Int × Nat) : List (String × JVal) → Prop
    | [] => True
    | (_, v) :: r => FloatsOk fv v ∧ FloatsOkObj fv r
end

/-! ### atoms: null, true, false, numbers -/

def isAtom : JVal → Bool
  | .null => true
  | .bool _ => true
  | .int _ => true
  | .flt _ _ _ => true
  | _ => false

/-- every character an atom can print -/
def atomChars : List Char := "0123456789+-.eNaIfintyulrs".toList

theorem atomChars_props : ∀ c ∈ atomChars,
    c ∉ delims ∧ c ≠ '"' ∧ c ≠ '[' ∧ c ≠ '{' ∧ c ≠ ' ' := by decide

theorem intTok_sub_atom : ∀ c ∈ intTokChars, c ∈ atomChars := by decide
theorem floatTok_sub_atom : ∀ c ∈ floatTokChars, c ∈ atomChars := by decide

theorem atom_chars (fv : String → Int × Nat) : (v : JVal) → isAtom v = true → FloatsOk fv v →
    ∀ c ∈ encChars v, c ∈ atomChars
  | .null, _, _ => by simp only [encChars]; decide
  | .bool true, _, _ => by simp only [encChars]; decide
  | .bool false, _, _ => by simp only [encChars]; decide
  | .int i, _, _ => by
    intro c hc; simp only [encChars] at hc
    exact intTok_sub_atom c (intChars_mem i c hc)
  | .flt _ _ r, _, hv => by
    intro c hc; simp only [encChars] at hc
    simp only [FloatsOk] at hv
    exact floatTok_sub_atom c (hv.1.2.1 c hc)
  | .str _, h, _ => by simp [isAtom] at h
  | .arr _, h, _ => by simp [isAtom] at h
  | .obj _, h, _ => by simp [isAtom] at h

theorem atom_ne_nil (fv : String → Int × Nat) : (v : JVal) → isAtom v = true → FloatsOk fv v →
    encChars v ≠ []
  | .null, _, _ => by simp only [encChars]; decide
  | .bool true, _, _ => by simp only [encChars]; decide
  | .bool false, _, _ => by simp only [encChars]; decide
  | .int i, _, _ => by simp only [encChars]; exact intChars_ne_nil i
  | .flt _ _ r, _, hv => by
    simp only [FloatsOk] at hv
    simp only [encChars]; exact hv.1.1
  | .str _, h, _ => by simp [isAtom] at h
  | .arr _, h, _ => by simp [isAtom] at h
  | .obj _, h, _ => by simp [isAtom] at h

theorem kw_ne_int {kw : List Char} {i : Int} (c : Char) (hc : c ∈ kw) (hn : c ∉ intTokChars) :
    kw ≠ intChars i := fun h => hn (intChars_mem i c (h ▸ hc))

theorem kw_ne_flt {kw : List Char} {r : String} (hr : FloatTok r) (c : Char) (hc : c ∈ kw)
    (hn : c ∉ floatTokChars) : kw ≠ r.toList := fun h => hn (hr.2.1 c (h ▸ hc))

theorem int_ne_flt {i : Int} {r : String} (hr : FloatTok r) : intChars i ≠ r.toList := by
  intro h
  obtain ⟨c, hc, hn⟩ := hr.2.2
  exact hn (intChars_mem i c (h ▸ hc))

/-- equal atom tokens, equal atoms -/
theorem atom_inj (fv : String → Int × Nat) : (v w : JVal) → isAtom v = true → isAtom w = true →
    FloatsOk fv v → FloatsOk fv w → encChars v = encChars w → v = w
  | .null, .null, _, _, _, _, _ => rfl
  | .null, .bool true, _, _, _, _, h => by simp only [encChars] at h; exact absurd h (by decide)
  | .null, .bool false, _, _, _, _, h => by simp only [encChars] at h; exact absurd h (by decide)
  | .null, .int i, _, _, _, _, h => by
    simp only [encChars] at h; exact absurd h (kw_ne_int 'u' (by decide) (by decide))
  | .null, .flt _ _ r, _, _, _, hw, h => by
    simp only [encChars] at h; simp only [FloatsOk] at hw
    exact absurd h (kw_ne_flt hw.1 'u' (by decide) (by decide))
  | .bool true, .null, _, _, _, _, h => by simp only [encChars] at h; exact absurd h (by decide)
  | .bool true, .bool true, _, _, _, _, _ => rfl
  | .bool true, .bool false, _, _, _, _, h => by
    simp only [encChars] at h; exact absurd h (by decide)
  | .bool true, .int i, _, _, _, _, h => by
    simp only [encChars] at h; exact absurd h (kw_ne_int 'u' (by decide) (by decide))
  | .bool true, .flt _ _ r, _, _, _, hw, h => by
    simp only [encChars] at h; simp only [FloatsOk] at hw
    exact absurd h (kw_ne_flt hw.1 'u' (by decide) (by decide))
  | .bool false, .null, _, _, _, _, h => by simp only [encChars] at h; exact absurd h (by decide)
  | .bool false, .bool true, _, _, _, _, h => by
    simp only [encChars] at h; exact absurd h (by decide)
  | .bool false, .bool false, _, _, _, _, _ => rfl
  | .bool false, .int i, _, _, _, _, h => by
    simp only [encChars] at h; exact absurd h (kw_ne_int 'l' (by decide) (by decide))
  | .bool false, .flt _ _ r, _, _, _, hw, h => by
    simp only [encChars] at h; simp only [FloatsOk] at hw
    exact absurd h (kw_ne_flt hw.1 'l' (by decide) (by decide))
  | .int i, .null, _, _, _, _, h => by
    simp only [encChars] at h; exact absurd h.symm (kw_ne_int 'u' (by decide) (by decide))
  | .int i, .bool true, _, _, _, _, h => by
    simp only [encChars] at h; exact absurd h.symm (kw_ne_int 'u' (by decide) (by decide))
  | .int i, .bool false, _, _, _, _, h => by
    simp only [encChars] at h; exact absurd h.symm (kw_ne_int 'l' (by decide) (by decide))
  | .int i, .int j, _, _, _, _, h => by
    simp only [encChars] at h; rw [intChars_inj h]
  | .int i, .flt _ _ r, _, _, _, hw, h => by
    simp only [encChars] at h; simp only [FloatsOk] at hw
    exact absurd h (int_ne_flt hw.1)
  | .flt _ _ r, .null, _, _, hv, _, h => by
    simp only [encChars] at h; simp only [FloatsOk] at hv
    exact absurd h.symm (kw_ne_flt hv.1 'u' (by decide) (by decide))
  | .flt _ _ r, .bool true, _, _, hv, _, h => by
    simp only [encChars] at h; simp only [FloatsOk] at hv
    exact absurd h.symm (kw_ne_flt hv.1 'u' (by decide) (by decide))
  | .flt _ _ r, .bool false, _, _, hv, _, h => by
    simp only [encChars] at h; simp only [FloatsOk] at hv
    exact absurd h.symm (kw_ne_flt hv.1 'l' (by decide) (by decide))
  | .flt _ _ r, .int i, _, _, hv, _, h => by
    simp only [encChars] at h; simp only [FloatsOk] at hv
    exact absurd h.symm (int_ne_flt hv.1)
  | .flt n e r, .flt n' e' r', _, _, hv, hw, h => by
    simp only [encChars] at h; simp only [FloatsOk] at hv hw
    have hr : r = r' := String.toList_injective h
    subst hr
    have := hv.2.symm.trans hw.2
    simp only [Prod.mk.injEq] at this
    rw [this.1, this.2]
  | .str _, _, h, _, _, _, _ => by simp [isAtom] at h
  | .arr _, _, h, _, _, _, _ => by simp [isAtom] at h
  | .obj _, _, h, _, _, _, _ => by simp [isAtom] at h
  | _, .str _, _, h, _, _, _ => by simp [isAtom] at h
  | _, .arr _, _, h, _, _, _ => by simp [isAtom] at h
  | _, .obj _, _, h, _, _, _ => by simp [isAtom] at h

/-- a string, array or object starts with its opening character -/
theorem nonatom_head : (w : JVal) → isAtom w = false →
    ∃ d ds, encChars w = d :: ds ∧ (d = '"' ∨ d = '[' ∨ d = '{')
  | .str s, _ => ⟨'"', escapeChars s.toList ++ ['"'], by simp only [encChars, encStrChars],
      Or.inl rfl⟩
  | .arr xs, _ => ⟨'[', encListChars xs ++ [']'], by simp only [encChars], Or.inr (Or.inl rfl)⟩
  | .obj kvs, _ => ⟨'{', encObjChars kvs ++ ['}'], by simp only [encChars],
      Or.inr (Or.inr rfl)⟩
  | .null, h => by simp [isAtom] at h
  | .bool _, h => by simp [isAtom] at h
  | .int _, h => by simp [isAtom] at h
  | .flt _ _ _, h => by simp [isAtom] at h

/-- (a) of the brief: an atom and a non-atom never print the same text. -/
theorem atom_vs_nonatom (fv : String → Int × Nat) {v w : JVal} (hv : isAtom v = true)
    (hw : isAtom w = false) (fvv : FloatsOk fv v) {r1 r2 : List Char} :
    encChars v ++ r1 ≠ encChars w ++ r2 := by
  intro h
  obtain ⟨d, ds, hd, hd'⟩ := nonatom_head w hw
  have hne := atom_ne_nil fv v hv fvv
  have hch := atom_chars fv v hv fvv
  rw [hd] at h
  cases hcs : encChars v with
  | nil => exact hne hcs
  | cons c cs =>
    rw [hcs] at h hch
    simp only [List.cons_append, List.cons.injEq] at h
    have := atomChars_props c (hch c List.mem_cons_self)
    rw [h.1] at this
    rcases hd' with e | e | e <;> simp [e] at this

/-- an atom followed by a continuation determines the atom and the continuation -/
theorem atom_case (fv : String → Int × Nat) {v w : JVal} (hv : isAtom v = true)
    (fvv : FloatsOk fv v) (fvw : FloatsOk fv w) {r1 r2 : List Char} (h1 : RestOk r1)
    (h2 : RestOk r2) (h : encChars v ++ r1 = encChars w ++ r2) : v = w ∧ r1 = r2 := by
  cases hw : isAtom w with
  | false => exact absurd h (atom_vs_nonatom fv hv hw fvv)
  | true =>
    obtain ⟨e, er⟩ := token_append_inj _ _ _ _
      (fun c hc => (atomChars_props c (atom_chars fv v hv fvv c hc)).1)
      (fun c hc => (atomChars_props c (atom_chars fv w hw fvw c hc)).1) h1 h2 h
    exact ⟨atom_inj fv v w hv hw fvv fvw e, er⟩

/-- every value prints at least one character, and the first one is neither a delimiter
    nor a space -/
theorem encChars_head (fv : String → Int × Nat) (v : JVal) (fvv : FloatsOk fv v) :
    ∃ c cs, encChars v = c :: cs ∧ c ∉ delims ∧ c ≠ ' ' := by
  cases hv : isAtom v with
  | false =>
    obtain ⟨d, ds, hd, hd'⟩ := nonatom_head v hv
    refine ⟨d, ds, hd, ?_⟩
    rcases hd' with e | e | e <;> (subst e; decide)
  | true =>
    have hne := atom_ne_nil fv v hv fvv
    have hch := atom_chars fv v hv fvv
    cases hcs : encChars v with
    | nil => exact absurd hcs hne
    | cons c cs =>
      rw [hcs] at hch
      have := atomChars_props c (hch c List.mem_cons_self)
      exact ⟨c, cs, rfl, this.1, this.2.2.2.2⟩

/-! ### arrays and objects: what follows the first element -/

/-- what is printed after the first element of an array body, given what follows the body -/
def listTail (xs : List JVal) (r : List Char) : List Char :=
  match xs with
  | [] => r
  | _ :: _ => ',' :: ' ' :: (encListChars xs ++ r)

def objTail (kvs : List (String × JVal)) (r : List Char) : List Char :=
  match kvs with
  | [] => r
  | _ :: _ => ',' :: ' ' :: (encObjChars kvs ++ r)

theorem encListChars_cons_append (x : JVal) (xs : List JVal) (r : List Char) :
    encListChars (x :: xs) ++ r = encChars x ++ listTail xs r := by
  cases xs with
  | nil => simp only [encListChars, listTail]
  | cons y ys => simp only [encListChars, listTail, List.append_assoc, List.cons_append]

theorem encObjChars_cons_append (k : String) (v : JVal) (kvs : List (String × JVal))
    (r : List Char) :
    encObjChars ((k, v) :: kvs) ++ r
      = encStrChars k ++ (':' :: ' ' :: (encChars v ++ objTail kvs r)) := by
  cases kvs with
  | nil => simp only [encObjChars, objTail, List.append_assoc, List.cons_append]
  | cons y ys => simp only [encObjChars, objTail, List.append_assoc, List.cons_append]

theorem listTail_restOk (xs : List JVal) {r : List Char} (h : RestOk r) : RestOk (listTail xs r) := by
  cases xs with
  | nil => exact h
  | cons _ _ => exact restOk_comma _

theorem objTail_restOk (kvs : List (String × JVal)) {r : List Char} (h : RestOk r) :
    RestOk (objTail kvs r) := by
  cases kvs with
  | nil => exact h
  | cons _ _ => exact restOk_comma _

/-! ### the main induction -/

mutual
  /-- A printed value followed by a continuation (nothing, or text starting with one of
      `,` `]` `}`) determines the value and the continuation. -/
  theorem encChars_append_inj (fv : String → Int × Nat) : (v w : JVal) → (r1 r2 : List Char) →
      FloatsOk fv v → FloatsOk fv w → RestOk r1 → RestOk r2 →
      encChars v ++ r1 = encChars w ++ r2 → v = w ∧ r1 = r2
    | .null, w, _, _, hv, hw, h1, h2, h => atom_case fv rfl hv hw h1 h2 h
    | .bool _, w, _, _, hv, hw, h1, h2, h => atom_case fv rfl hv hw h1 h2 h
    | .int _, w, _, _, hv, hw, h1, h2, h => atom_case fv rfl hv hw h1 h2 h
    | .flt _ _ _, w, _, _, hv, hw, h1, h2, h => atom_case fv rfl hv hw h1 h2 h
    | .str s, w, r1, r2, hv, hw, h1, h2, h => by
      cases hwa : isAtom w with
      | true => exact absurd h.symm (atom_vs_nonatom fv hwa rfl hw)
      | false =>
        cases w with
        | str t =>
          simp only [encChars] at h
          obtain ⟨e, er⟩ := encStrChars_append_inj h
          exact ⟨by rw [e], er⟩
        | arr ys => simp [encChars, encStrChars] at h
        | obj kvs => simp [encChars, encStrChars] at h
        | null => simp [isAtom] at hwa
        | bool _ => simp [isAtom] at hwa
        | int _ => simp [isAtom] at hwa
        | flt _ _ _ => simp [isAtom] at hwa
    | .arr xs, w, r1, r2, hv, hw, h1, h2, h => by
      cases hwa : isAtom w with
      | true => exact absurd h.symm (atom_vs_nonatom fv hwa rfl hw)
      | false =>
        cases w with
        | arr ys =>
          simp only [encChars, List.cons_append, List.append_assoc, List.nil_append,
            List.cons.injEq, true_and] at h
          simp only [FloatsOk] at hv hw
          obtain ⟨e, er⟩ := encListChars_inj fv xs ys r1 r2 hv hw h
          exact ⟨by rw [e], er⟩
        | str t => simp [encChars, encStrChars] at h
        | obj kvs => simp [encChars] at h
        | null => simp [isAtom] at hwa
        | bool _ => simp [isAtom] at hwa
        | int _ => simp [isAtom] at hwa
        | flt _ _ _ => simp [isAtom] at hwa
    | .obj kvs, w, r1, r2, hv, hw, h1, h2, h => by
      cases hwa : isAtom w with
      | true => exact absurd h.symm (atom_vs_nonatom fv hwa rfl hw)
      | false =>
        cases w with
        | obj kvs' =>
          simp only [encChars, List.cons_append, List.append_assoc, List.nil_append,
            List.cons.injEq, true_and] at h
          simp only [FloatsOk] at hv hw
          obtain ⟨e, er⟩ := encObjChars_inj fv kvs kvs' r1 r2 hv hw h
          exact ⟨by rw [e], er⟩
        | str t => simp [encChars, encStrChars] at h
        | arr ys => simp [encChars] at h
        | null => simp [isAtom] at hwa
        | bool _ => simp [isAtom] at hwa
        | int _ => simp [isAtom] at hwa
        | flt _ _ _ => simp [isAtom] at hwa
  theorem encListChars_inj (fv : String → Int × Nat) : (xs ys : List JVal) →
      (r1 r2 : List Char) → FloatsOkList fv xs → FloatsOkList fv ys →
      encListChars xs ++ ']' :: r1 = encListChars ys ++ ']' :: r2 → xs = ys ∧ r1 = r2
    | [], [], r1, r2, _, _, h => by
      simp only [encListChars, List.nil_append, List.cons.injEq, true_and] at h
      exact ⟨rfl, h⟩
    | [], y :: ys, r1, r2, _, hys, h => by
      simp only [FloatsOkList] at hys
      rw [encListChars_cons_append] at h
      obtain ⟨c, cs, hc, hnd, _⟩ := encChars_head fv y hys.1
      rw [hc] at h
      simp only [encListChars, List.nil_append, List.cons_append, List.cons.injEq] at h
      rw [← h.1] at hnd
      exact absurd (by decide) hnd
    | x :: xs, [], r1, r2, hxs, _, h => by
      simp only [FloatsOkList] at hxs
      rw [encListChars_cons_append] at h
      obtain ⟨c, cs, hc, hnd, _⟩ := encChars_head fv x hxs.1
      rw [hc] at h
      simp only [encListChars, List.nil_append, List.cons_append, List.cons.injEq] at h
      rw [h.1] at hnd
      exact absurd (by decide) hnd
    | x :: xs, y :: ys, r1, r2, hxs, hys, h => by
      simp only [FloatsOkList] at hxs hys
      have ih := encListChars_inj fv xs ys r1 r2 hxs.2 hys.2
      rw [encListChars_cons_append, encListChars_cons_append] at h
      obtain ⟨e, et⟩ := encChars_append_inj fv x y _ _ hxs.1 hys.1
        (listTail_restOk xs (restOk_brack r1)) (listTail_restOk ys (restOk_brack r2)) h
      subst e
      cases xs with
      | nil =>
        cases ys with
        | nil =>
          simp only [listTail, List.cons.injEq, true_and] at et
          exact ⟨rfl, et⟩
        | cons y' ys' => simp [listTail] at et
      | cons x' xs' =>
        cases ys with
        | nil => simp [listTail] at et
        | cons y' ys' =>
          simp only [listTail, List.cons.injEq, true_and] at et
          obtain ⟨e, er⟩ := ih et
          exact ⟨by rw [e], er⟩
  theorem encObjChars_inj (fv : String → Int × Nat) : (kvs kvs' : List (String × JVal)) →
      (r1 r2 : List Char) → FloatsOkObj fv kvs → FloatsOkObj fv kvs' →
      encObjChars kvs ++ '}' :: r1 = encObjChars kvs' ++ '}' :: r2 → kvs = kvs' ∧ r1 = r2
    | [], [], r1, r2, _, _, h => by
      simp only [encObjChars, List.nil_append, List.cons.injEq, true_and] at h
      exact ⟨rfl, h⟩
    | [], (k, v) :: kvs', r1, r2, _, _, h => by
      rw [encObjChars_cons_append] at h
      simp [encObjChars, encStrChars] at h
    | (k, v) :: kvs, [], r1, r2, _, _, h => by
      rw [encObjChars_cons_append] at h
      simp [encObjChars, encStrChars] at h
    | (k, v) :: kvs, (k', v') :: kvs', r1, r2, hxs, hys, h => by
      simp only [FloatsOkObj] at hxs hys
      have ih := encObjChars_inj fv kvs kvs' r1 r2 hxs.2 hys.2
      rw [encObjChars_cons_append, encObjChars_cons_append] at h
      obtain ⟨ek, h'⟩ := encStrChars_append_inj h
      subst ek
      simp only [List.cons.injEq, true_and] at h'
      obtain ⟨e, et⟩ := encChars_append_inj fv v v' _ _ hxs.1 hys.1
        (objTail_restOk kvs (restOk_brace r1)) (objTail_restOk kvs' (restOk_brace r2)) h'
      subst e
      cases kvs with
      | nil =>
        cases kvs' with
        | nil =>
          simp only [objTail, List.cons.injEq, true_and] at et
          exact ⟨rfl, et⟩
        | cons y' ys' => simp [objTail] at et
      | cons x' xs' =>
        cases kvs' with
        | nil => simp [objTail] at et
        | cons y' ys' =>
          simp only [objTail, List.cons.injEq, true_and] at et
          obtain ⟨e, er⟩ := ih et
          exact ⟨by rw [e], er⟩
end

/-- The printed text determines the value. -/
theorem encChars_inj (fv : String → Int × Nat) {v w : JVal} (hv : FloatsOk fv v)
    (hw : FloatsOk fv w) (h : encChars v = encChars w) : v = w := by
  have h' : encChars v ++ [] = encChars w ++ [] := by rw [h]
  exact (encChars_append_inj fv v w [] [] hv hw restOk_nil restOk_nil h').1

/-! ### `canon` keeps float leaves as they are -/

theorem insertKV_floatsOk (fv : String → Int × Nat) (k : String) (v : JVal)
    (l : List (String × JVal)) (hv : FloatsOk fv v) (h : FloatsOkObj fv l) :
    FloatsOkObj fv (insertKV k v l) := by
  induction l with
  | nil => simp [insertKV, FloatsOkObj, hv]
  | cons hd tl ih =>
    obtain ⟨k', v'⟩ := hd
    simp only [FloatsOkObj] at h
    simp only [insertKV]
    split
    · simp [FloatsOkObj, hv, h]
    · split
      · simp [FloatsOkObj, hv, h]
      · simp [FloatsOkObj, h, ih h.2]

mutual
  theorem canon_floatsOk (fv : String → Int × Nat) : (v : JVal) → FloatsOk fv v →
      FloatsOk fv (canon v)
    | .arr xs, h => by
      simp only [FloatsOk] at h; simp only [canon, FloatsOk]; exact canonList_floatsOk fv xs h
    | .obj kvs, h => by
      simp only [FloatsOk] at h; simp only [canon, FloatsOk]; exact canonObj_floatsOk fv kvs h
    | .null, h => by simpa [canon] using h
    | .bool _, h => by simpa [canon] using h
    | .int _, h => by simpa [canon] using h
    | .flt _ _ _, h => by simpa [canon] using h
    | .str _, h => by simpa [canon] using h
  theorem canonList_floatsOk (fv : String → Int × Nat) : (xs : List JVal) → FloatsOkList fv xs →
      FloatsOkList fv (canonList xs)
    | [], _ => by simp [canonList, FloatsOkList]
    | x :: xs, h => by
      simp only [FloatsOkList] at h
      simp only [canonList, FloatsOkList]
      exact ⟨canon_floatsOk fv x h.1, canonList_floatsOk fv xs h.2⟩
  theorem canonObj_floatsOk (fv : String → Int × Nat) : (kvs : List (String × JVal)) →
      FloatsOkObj fv kvs → FloatsOkObj fv (canonObj kvs)
    | [], _ => by simp [canonObj, FloatsOkObj]
    | (k, v) :: r, h => by
      simp only [FloatsOkObj] at h
      simp only [canonObj]
      exact insertKV_floatsOk fv k _ _ (canon_floatsOk fv v h.1) (canonObj_floatsOk fv r h.2)
end

end Signac

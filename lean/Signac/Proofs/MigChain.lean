/- Helper lemmas for C20: the gate, and what the migration chain does to a well-formed legacy
   project, to a colliding one, to an up-to-date one and to a too-new one. -/
import Signac.Migration
namespace Signac.Mig
open Signac

theorem schema_eq : SCHEMA = 2 := rfl

theorem gate_ok_iff (v : Nat) : gate v = .ok ↔ v = SCHEMA := by
  unfold gate
  by_cases h1 : v > SCHEMA
  · simp [h1]; omega
  · by_cases h2 : v < SCHEMA
    · simp [h1, h2]; omega
    · simp [h1, h2]; omega

theorem gate_refuses_iff (v : Nat) : gate v = .incompatible ↔ v ≠ SCHEMA := by
  rw [ne_eq, ← gate_ok_iff]
  cases gate v <;> simp

/-! ### entry table -/

theorem lookup_renameEnt_dst (src dst : String) (ents : List (String × Blob))
    (hd : ents.lookup dst = none) :
    (renameEnt src dst ents).lookup dst = ents.lookup src := by
  induction ents with
  | nil => simp [renameEnt]
  | cons kv rest ih =>
    obtain ⟨k, b⟩ := kv
    have hkd : (dst == k) = false := by
      cases h : dst == k
      · rfl
      · simp [List.lookup, h] at hd
    have hrest : rest.lookup dst = none := by
      simpa [List.lookup, hkd] using hd
    simp only [renameEnt]
    by_cases hks : k = src
    · subst hks
      simp [List.lookup]
    · simp only [hks, if_false]
      have hsk : (src == k) = false := by
        simp only [beq_eq_false_iff_ne, ne_eq]
        exact fun h => hks h.symm
      simp [List.lookup, hkd, hsk, ih hrest]

theorem lookup_renameEnt_other (src dst k : String) (ents : List (String × Blob))
    (h1 : k ≠ src) (h2 : k ≠ dst) :
    (renameEnt src dst ents).lookup k = ents.lookup k := by
  induction ents with
  | nil => simp [renameEnt]
  | cons kv rest ih =>
    obtain ⟨k', b⟩ := kv
    simp only [renameEnt]
    by_cases hks : k' = src
    · subst hks
      have a1 : (k == dst) = false := by simpa using h2
      have a2 : (k == k') = false := by simpa using h1
      simp [List.lookup, a1, a2]
    · simp only [hks, if_false]
      cases hk : k == k'
      · simp [List.lookup, hk, ih]
      · simp [List.lookup, hk]

theorem lookup_docSet_self (k : String) (v : JVal) (d : List (String × JVal)) :
    (docSet k v d).lookup k = some v := by
  induction d with
  | nil => simp [docSet]
  | cons kv rest ih =>
    obtain ⟨k', v'⟩ := kv
    simp only [docSet]
    by_cases h : k' = k
    · simp [h]
    · have : (k == k') = false := by
        simp only [beq_eq_false_iff_ne, ne_eq]; exact fun e => h e.symm
      simp [h, List.lookup, this, ih]

theorem lookup_docSet_other (k k0 : String) (v : JVal) (d : List (String × JVal)) (h : k0 ≠ k) :
    (docSet k v d).lookup k0 = d.lookup k0 := by
  induction d with
  | nil =>
    have : (k0 == k) = false := by simpa using h
    simp [docSet, List.lookup, this]
  | cons kv rest ih =>
    obtain ⟨k', v'⟩ := kv
    simp only [docSet]
    by_cases hk : k' = k
    · subst hk
      have : (k0 == k') = false := by simpa using h
      simp [List.lookup, this]
    · simp only [hk, if_false]
      cases h0 : k0 == k'
      · simp [List.lookup, h0, ih]
      · simp [List.lookup, h0]

/-! ### the chain -/

/-- A legacy (v0 / v1) project as old signac left it: a loadable `signac.rc` declaring version
    0 or 1, no `.signac` directory, and — if a custom workspace directory is configured — that
    directory present. -/
structure WellFormed (L : Proj) (c : Conf) (name : String) : Prop where
  rc : L.rc = some c
  project : c.project = some name
  version : c.version.getD 0 ≤ 1
  cfg : L.cfg = none
  dot : L.dotSignac = false
  src : wsName c ≠ "workspace" → hasEnt L (wsName c) = true

/-- the configured workspace would have to replace something that is already called `workspace` -/
def Collides (L : Proj) (c : Conf) : Prop := wsName c ≠ "workspace" ∧ hasEnt L "workspace" = true

/-- what a successful migration of `L` looks like -/
def migrated (L : Proj) (c : Conf) (name : String) : Proj :=
  { rc := none
    cfg := some { version := some 2, project := none, wsDir := none }
    dotSignac := true
    ents := if wsName c ≠ "workspace" then renameEnt (wsName c) "workspace" L.ents else L.ents
    doc := if name ≠ "None" then some (docSet "signac_project_name" (.str name) (L.doc.getD []))
           else L.doc
    cacheOld := none
    histOld := none
    cacheNew := if L.cacheOld.isSome then L.cacheOld else L.cacheNew
    histNew := if L.histOld.isSome then L.histOld else L.histNew
    lock := false
    rest := L.rest }

theorem detect_legacy (Q : Proj) (c : Conf) (g : Nat) (hrc : Q.rc = some c)
    (hp : c.project.isSome = true) (hcfg : Q.cfg = none) :
    detect Q g = some (c.version.getD 0) := by
  have h1 : loadV1 Q = some c := by simp [loadV1, hrc, hp]
  have h2 : loadV2 Q = none := by simp [loadV2, hcfg]
  unfold detect
  by_cases hg : g = 1 ∨ g = 2
  · rcases hg with rfl | rfl <;> simp [firstLoad, loader, h1, h2]
  · simp [hg, firstLoad, loader, h1, h2]

/-! one round of the loop, by what is found on disk -/

theorem loop_v0 (f g : Nat) (P P' : Proj) (hd : detect P g = some 0) (hb : bump 1 P = some P') :
    loop (f + 1) g P = loop f 1 P' := by
  simp only [loop, hd, hb, show (0 : Nat) < SCHEMA by decide, if_true]

theorem loop_v1_ok (f g : Nat) (P P' P'' : Proj) (hd : detect P g = some 1)
    (hm : migrate12 P = (P', true)) (hb : bump 2 P' = some P'') :
    loop (f + 1) g P = loop f 2 P'' := by
  simp only [loop, hd, hm, hb, show (1 : Nat) < SCHEMA by decide, if_true,
    show ¬ ((1 : Nat) = 0) by decide, if_false]

theorem loop_v1_fail (f g : Nat) (P P' : Proj) (hd : detect P g = some 1)
    (hm : migrate12 P = (P', false)) :
    loop (f + 1) g P = (P', .failed 2) := by
  simp only [loop, hd, hm, show (1 : Nat) < SCHEMA by decide, if_true,
    show ¬ ((1 : Nat) = 0) by decide, if_false]

theorem loop_done (f g v : Nat) (P : Proj) (hd : detect P g = some v) (hv : ¬ v < SCHEMA) :
    loop (f + 1) g P = (P, .ok) := by
  simp only [loop, hd, hv, if_false]

theorem detect_current (Q : Proj) (c : Conf) (hcfg : Q.cfg = some c) :
    detect Q 2 = some (c.version.getD 0) := by
  simp [detect, firstLoad, loader, loadV2, hcfg]

/-- from version 1 on: `_migrate_v1_to_v2`, the bump, and the final re-detection -/
theorem loop_from_v1 (Q : Proj) (c : Conf) (name : String) (fuel : Nat)
    (hrc : Q.rc = some c) (hp : c.project = some name) (hv : c.version = some 1)
    (hcfg : Q.cfg = none) (hdot : Q.dotSignac = false)
    (hsrc : wsName c ≠ "workspace" → hasEnt Q (wsName c) = true)
    (hcol : ¬ (wsName c ≠ "workspace" ∧ hasEnt Q "workspace" = true)) :
    loop (fuel + 2) 1 Q = ({ migrated Q c name with lock := Q.lock }, .ok) := by
  have hd : detect Q 1 = some 1 := by
    rw [detect_legacy Q c 1 hrc (by simp [hp]) hcfg, hv]; rfl
  have h1 : loadV1 Q = some c := by simp [loadV1, hrc, hp]
  have hcol2 : ¬ (wsName c ≠ "workspace" ∧ ¬ hasEnt Q (wsName c) = true) := by
    intro ⟨a, b⟩; exact b (hsrc a)
  have hname : (c.project ≠ some "None") ↔ name ≠ "None" := by simp [hp]
  have hm : migrate12 Q =
      ({ Q with
          ents := if wsName c ≠ "workspace" then renameEnt (wsName c) "workspace" Q.ents else Q.ents
          doc := if name ≠ "None"
                 then some (docSet "signac_project_name" (.str name) (Q.doc.getD []))
                 else Q.doc
          rc := none
          cfg := some { c with project := none, wsDir := none }
          dotSignac := true
          histOld := none
          histNew := if Q.histOld.isSome then Q.histOld else Q.histNew
          cacheOld := none
          cacheNew := if Q.cacheOld.isSome then Q.cacheOld else Q.cacheNew }, true) := by
    unfold migrate12
    rw [h1]
    simp only [hcol, hcol2, if_false, hdot, Bool.false_eq_true, hp, Option.getD_some]
    simp
  rw [loop_v1_ok (fuel + 1) 1 Q _ _ hd hm (by simp only [bump, loadV2,
    show ¬ ((2 : Nat) = 1) by decide, if_false, if_true, Option.map_some]; rfl)]
  rw [loop_done fuel 2 2 _ (by rw [detect_current _ _ rfl]; rfl) (by decide)]
  simp [migrated]

theorem version_cases (c : Conf) (hv : c.version.getD 0 ≤ 1) :
    c.version.getD 0 = 0 ∨ c.version = some 1 := by
  cases hcv : c.version with
  | none => left; rfl
  | some n =>
    rw [hcv] at hv
    simp only [Option.getD_some] at hv ⊢
    rcases Nat.le_one_iff_eq_zero_or_eq_one.mp hv with h | h
    · left; exact h
    · right; rw [h]

theorem applyMigrations_wf (L : Proj) (c : Conf) (name : String) (wf : WellFormed L c name)
    (hcol : ¬ Collides L c) : applyMigrations L = (migrated L c name, .ok) := by
  obtain ⟨hrc, hp, hv, hcfg, hdot, hsrc⟩ := wf
  unfold applyMigrations
  have hd : ∀ g, detect { L with lock := true } g = some (c.version.getD 0) :=
    fun g => detect_legacy { L with lock := true } c g hrc (by simp [hp]) hcfg
  have hnew : ¬ (c.version.getD 0 > SCHEMA) := by rw [schema_eq]; omega
  simp only [hd, hnew, if_false]
  rw [show SCHEMA + 1 = 1 + 2 from rfl]
  rcases version_cases c hv with h0 | h1
  · -- version 0: the empty migration, the bump to 1, then as from version 1
    rw [h0]
    have hd0 : detect { L with lock := true } 0 = some 0 := by rw [hd 0, h0]
    have hb : bump 1 { L with lock := true } =
        some { L with lock := true, rc := some { c with version := some 1 } } := by
      simp [bump, loadV1, hrc, hp]
    rw [loop_v0 2 0 _ _ hd0 hb]
    have := loop_from_v1 { L with lock := true, rc := some { c with version := some 1 } }
      { c with version := some 1 } name 0 rfl hp rfl hcfg hdot hsrc hcol
    simp only [Nat.zero_add] at this
    rw [this]
    simp only [migrated]
    rfl
  · have hv1 : c.version.getD 0 = 1 := by rw [h1]; rfl
    rw [hv1]
    have := loop_from_v1 { L with lock := true } c name 1 hrc hp h1 hcfg hdot hsrc hcol
    rw [this]
    simp [migrated]

/-- collision: the chain stops in `_migrate_v1_to_v2` before anything is moved; the only
    thing that may have changed is the version written into `signac.rc` by the 0 → 1 bump. -/
theorem applyMigrations_collision (L : Proj) (c : Conf) (name : String) (hrc : L.rc = some c)
    (hp : c.project = some name) (hv : c.version.getD 0 ≤ 1) (hcfg : L.cfg = none)
    (hcol : Collides L c) :
    applyMigrations L =
      ({ L with lock := false, rc := some { c with version := some 1 } }, .failed 2) := by
  unfold applyMigrations
  have hd : ∀ g, detect { L with lock := true } g = some (c.version.getD 0) :=
    fun g => detect_legacy { L with lock := true } c g hrc (by simp [hp]) hcfg
  have hnew : ¬ (c.version.getD 0 > SCHEMA) := by rw [schema_eq]; omega
  simp only [hd, hnew, if_false]
  rw [show SCHEMA + 1 = 1 + 2 from rfl]
  have hfail : ∀ (Q : Proj) (c' : Conf), Q.rc = some c' → c'.project = some name →
      wsName c' = wsName c → hasEnt Q "workspace" = true → migrate12 Q = (Q, false) := by
    intro Q c' h1 h2 h3 h4
    unfold migrate12
    simp [loadV1, h1, h2, h3, hcol.1, h4]
  rcases version_cases c hv with h0 | h1
  · rw [h0]
    have hd0 : detect { L with lock := true } 0 = some 0 := by rw [hd 0, h0]
    have hb : bump 1 { L with lock := true } =
        some { L with lock := true, rc := some { c with version := some 1 } } := by
      simp [bump, loadV1, hrc, hp]
    have hd1 : detect { L with lock := true, rc := some { c with version := some 1 } } 1 = some 1 :=
      detect_legacy { L with lock := true, rc := some { c with version := some 1 } }
        { c with version := some 1 } 1 rfl (by simp [hp]) hcfg
    have hm := hfail { L with lock := true, rc := some { c with version := some 1 } }
      { c with version := some 1 } rfl hp rfl hcol.2
    rw [loop_v0 2 0 _ _ hd0 hb, loop_v1_fail 1 1 _ _ hd1 hm]
  · have hv1 : c.version.getD 0 = 1 := by rw [h1]; rfl
    rw [hv1]
    have hd1 : detect { L with lock := true } 1 = some 1 := by rw [hd 1, hv1]
    have hm := hfail { L with lock := true } c hrc hp rfl hcol.2
    rw [loop_v1_fail 2 1 _ _ hd1 hm]
    have : c = { c with version := some 1 } := by
      cases c; simp only [Conf.mk.injEq, and_true]; exact h1
    rw [← this, ← hrc]

/-- an up-to-date project: nothing happens (the lock file comes and goes) -/
theorem applyMigrations_uptodate (L : Proj) (c : Conf) (hcfg : L.cfg = some c)
    (hv : c.version = some SCHEMA) : applyMigrations L = ({ L with lock := false }, .ok) := by
  unfold applyMigrations
  have hd : detect { L with lock := true } SCHEMA = some SCHEMA := by
    rw [schema_eq, detect_current { L with lock := true } c hcfg, hv]; rfl
  simp only [hd, Nat.lt_irrefl, gt_iff_lt, if_false]
  rw [loop_done SCHEMA SCHEMA SCHEMA _ hd (Nat.lt_irrefl _)]

/-- a project newer than this signac: refused, nothing touched -/
theorem applyMigrations_tooNew (L : Proj) (v : Nat) (hd : detect { L with lock := true } SCHEMA = some v)
    (hv : v > SCHEMA) : applyMigrations L = ({ L with lock := false }, .tooNew) := by
  unfold applyMigrations
  simp [hd, hv]

end Signac.Mig

/-
  Helper lemmas for C06, value layer, unrestricted: Python `==` / ordering on JSON-born values is
  compatible with itself (`a == a`, `a == b → b == a`, `a == b → (a == c) = (b == c)`,
  `a == b → cmp a c = cmp b c`) for ALL values — mappings inside lists at any depth included —
  provided every mapping has distinct keys (`keysOK`), which every Python dict has.
  (`QueryVal.lean` has the same facts for lists without mappings only.)

  Without distinct keys `pyEq` on association lists is neither reflexive nor symmetric:
  `[(x,1),(x,2)]` is not `==` to itself, and `[(x,1),(x,1)] == [(x,1),(y,2)]` but not conversely.
-/
import Signac.Proofs.QueryVal
namespace Signac.Query
open Signac

mutual
  /-- every mapping anywhere in the value has pairwise distinct keys (an invariant of Python dicts) -/
  def keysOK : JVal → Bool
    | .arr xs => keysOKList xs
    | .obj kvs => decide ((kvs.map (·.1)).Nodup) && keysOKKVs kvs
    | _ => true
  def keysOKList : List JVal → Bool
    | [] => true
    | x :: xs => keysOK x && keysOKList xs
  def keysOKKVs : List (String × JVal) → Bool
    | [] => true
    | (_, v) :: rest => keysOK v && keysOKKVs rest
end

theorem keysOKList_iff : ∀ (xs : List JVal), keysOKList xs = true ↔ ∀ x ∈ xs, keysOK x = true
  | [] => by simp [keysOKList]
  | x :: xs => by simp [keysOKList, keysOKList_iff xs]

theorem keysOKKVs_iff : ∀ (kvs : List (String × JVal)),
    keysOKKVs kvs = true ↔ ∀ k v, (k, v) ∈ kvs → keysOK v = true
  | [] => by simp [keysOKKVs]
  | (k, v) :: rest => by
    simp only [keysOKKVs, Bool.and_eq_true, keysOKKVs_iff rest, List.mem_cons, Prod.mk.injEq]
    constructor
    · rintro ⟨h1, h2⟩ k' v' (⟨_, rfl⟩ | h)
      · exact h1
      · exact h2 k' v' h
    · intro h
      exact ⟨h k v (Or.inl ⟨rfl, rfl⟩), fun k' v' h' => h k' v' (Or.inr h')⟩

theorem keysOK_arr {xs : List JVal} : keysOK (.arr xs) = true ↔ ∀ x ∈ xs, keysOK x = true := by
  simp only [keysOK]; exact keysOKList_iff xs

theorem keysOK_obj {kvs : List (String × JVal)} :
    keysOK (.obj kvs) = true ↔ (kvs.map (·.1)).Nodup ∧ ∀ k v, (k, v) ∈ kvs → keysOK v = true := by
  simp only [keysOK, Bool.and_eq_true, decide_eq_true_eq, keysOKKVs_iff]

mutual
  /-- values without mappings are trivially well-formed -/
  theorem keysOK_of_flat : ∀ (a : JVal), flatVal a = true → keysOK a = true
    | .null, _ => rfl
    | .bool _, _ => rfl
    | .int _, _ => rfl
    | .flt _ _ _, _ => rfl
    | .str _, _ => rfl
    | .arr xs, h => by
      simp only [flatVal] at h; simp only [keysOK]; exact keysOKList_of_flat xs h
    | .obj _, h => by simp [flatVal] at h
  theorem keysOKList_of_flat : ∀ (xs : List JVal), flatList xs = true → keysOKList xs = true
    | [], _ => rfl
    | x :: xs, h => by
      simp only [flatList, Bool.and_eq_true] at h
      simp only [keysOKList, Bool.and_eq_true]
      exact ⟨keysOK_of_flat x h.1, keysOKList_of_flat xs h.2⟩
end

/-! ### induction over well-formed values -/

section induct
variable {P : JVal → Prop}
  (hnull : P .null) (hbool : ∀ b, P (.bool b)) (hint : ∀ i, P (.int i))
  (hflt : ∀ n e r, P (.flt n e r)) (hstr : ∀ s, P (.str s))
  (harr : ∀ xs, (∀ x ∈ xs, keysOK x = true) → (∀ x ∈ xs, P x) → P (.arr xs))
  (hobj : ∀ kvs, (kvs.map (·.1)).Nodup → (∀ k v, (k, v) ∈ kvs → keysOK v = true) →
    (∀ k v, (k, v) ∈ kvs → P v) → P (.obj kvs))
include hnull hbool hint hflt hstr harr hobj

set_option linter.unusedSectionVars false in
mutual
  /-- structural induction over a well-formed value, with membership-style hypotheses for the
      elements of a list and the values of a mapping -/
  theorem keysOK_induct : ∀ (a : JVal), keysOK a = true → P a
    | .null, _ => hnull
    | .bool b, _ => hbool b
    | .int i, _ => hint i
    | .flt n e r, _ => hflt n e r
    | .str s, _ => hstr s
    | .arr xs, h => by
      have h' : keysOKList xs = true := by simpa [keysOK] using h
      exact harr xs ((keysOKList_iff xs).mp h') (keysOK_induct_list xs h')
    | .obj kvs, h => by
      obtain ⟨h1, h2⟩ := keysOK_obj.mp h
      exact hobj kvs h1 h2 (keysOK_induct_kvs kvs ((keysOKKVs_iff kvs).mpr h2))
  theorem keysOK_induct_list : ∀ (xs : List JVal), keysOKList xs = true → ∀ x ∈ xs, P x
    | [], _, x, hx => by cases hx
    | y :: ys, h, x, hx => by
      simp only [keysOKList, Bool.and_eq_true] at h
      rcases List.mem_cons.mp hx with e | hx
      · rw [e]; exact keysOK_induct y h.1
      · exact keysOK_induct_list ys h.2 x hx
  theorem keysOK_induct_kvs : ∀ (kvs : List (String × JVal)), keysOKKVs kvs = true →
      ∀ k v, (k, v) ∈ kvs → P v
    | [], _, k, v, hx => by cases hx
    | (k', v') :: rest, h, k, v, hx => by
      simp only [keysOKKVs, Bool.and_eq_true] at h
      rcases List.mem_cons.mp hx with e | hx
      · simp only [Prod.mk.injEq] at e
        rw [e.2]; exact keysOK_induct v' h.1
      · exact keysOK_induct_kvs rest h.2 k v hx
end
end induct

/-! ### association lists -/

theorem lookupKV_mem : ∀ {kvs : List (String × JVal)} {k : String} {v : JVal},
    lookupKV k kvs = some v → (k, v) ∈ kvs
  | [], _, _, h => by simp [lookupKV] at h
  | (k', v') :: rest, k, v, h => by
    simp only [lookupKV] at h
    by_cases hk : k = k'
    · rw [if_pos hk] at h; cases h; rw [hk]; exact List.mem_cons_self
    · rw [if_neg hk] at h; exact List.mem_cons_of_mem _ (lookupKV_mem h)

theorem lookupKV_of_mem : ∀ {kvs : List (String × JVal)} {k : String} {v : JVal},
    (kvs.map (·.1)).Nodup → (k, v) ∈ kvs → lookupKV k kvs = some v
  | [], _, _, _, h => by cases h
  | (k', v') :: rest, k, v, hn, h => by
    simp only [List.map_cons, List.nodup_cons, List.mem_map, not_exists, not_and] at hn
    simp only [lookupKV]
    rcases List.mem_cons.mp h with e | h
    · simp only [Prod.mk.injEq] at e
      rw [if_pos e.1, e.2]
    · have : k ≠ k' := fun e => hn.1 (k, v) h e
      rw [if_neg this]
      exact lookupKV_of_mem hn.2 h

theorem lookupKV_of_key : ∀ {kvs : List (String × JVal)} {k : String},
    k ∈ kvs.map (·.1) → ∃ v, lookupKV k kvs = some v
  | [], _, h => by cases h
  | (k', v') :: rest, k, h => by
    simp only [lookupKV]
    by_cases hk : k = k'
    · rw [if_pos hk]; exact ⟨v', rfl⟩
    · rw [if_neg hk]
      simp only [List.map_cons, List.mem_cons] at h
      rcases h with h | h
      · exact absurd h hk
      · exact lookupKV_of_key h

theorem pyEqEntries_iff : ∀ (a b : List (String × JVal)),
    pyEqEntries a b = true ↔ ∀ k v, (k, v) ∈ a → ∃ w, lookupKV k b = some w ∧ pyEq v w = true
  | [], b => by simp [pyEqEntries]
  | (k, v) :: rest, b => by
    simp only [pyEqEntries, Bool.and_eq_true, pyEqEntries_iff rest b, List.mem_cons, Prod.mk.injEq]
    constructor
    · rintro ⟨h1, h2⟩ k' v' (⟨rfl, rfl⟩ | h)
      · cases hl : lookupKV k' b with
        | none => rw [hl] at h1; cases h1
        | some w => rw [hl] at h1; exact ⟨w, rfl, h1⟩
      · exact h2 k' v' h
    · intro h
      refine ⟨?_, fun k' v' h' => h k' v' (Or.inr h')⟩
      obtain ⟨w, hw, he⟩ := h k v (Or.inl ⟨rfl, rfl⟩)
      rw [hw]; exact he

/-- pigeonhole: a duplicate-free list inside a list that is not longer fills it -/
theorem nodup_subset_fill {α : Type} [DecidableEq α] : ∀ (l₁ l₂ : List α), l₁.Nodup → l₁ ⊆ l₂ →
    l₂.length ≤ l₁.length → l₂ ⊆ l₁ ∧ l₂.Nodup
  | [], l₂, _, _, hl => by
    have : l₂ = [] := List.eq_nil_of_length_eq_zero (by simpa using hl)
    subst this
    exact ⟨fun _ h => h, List.nodup_nil⟩
  | a :: t, l₂, hn, hs, hl => by
    rw [List.nodup_cons] at hn
    have ha : a ∈ l₂ := hs List.mem_cons_self
    have hts : t ⊆ l₂.erase a := by
      intro x hx
      have hxa : x ≠ a := fun e => hn.1 (e ▸ hx)
      exact (List.mem_erase_of_ne hxa).mpr (hs (List.mem_cons_of_mem _ hx))
    have hlen : (l₂.erase a).length ≤ t.length := by
      rw [List.length_erase_of_mem ha]
      simp only [List.length_cons] at hl
      omega
    obtain ⟨ih1, ih2⟩ := nodup_subset_fill t (l₂.erase a) hn.2 hts hlen
    constructor
    · intro x hx
      by_cases hxa : x = a
      · rw [hxa]; exact List.mem_cons_self
      · exact List.mem_cons_of_mem _ (ih1 ((List.mem_erase_of_ne hxa).mpr hx))
    · have hp := List.perm_cons_erase ha
      rw [hp.nodup_iff, List.nodup_cons]
      exact ⟨fun h => hn.1 (ih1 h), ih2⟩

theorem pyEq_obj_true {a : List (String × JVal)} {b : JVal} (h : pyEq (.obj a) b = true) :
    ∃ b', b = .obj b' ∧ a.length = b'.length ∧ pyEqEntries a b' = true := by
  cases b with
  | obj b' =>
    simp only [pyEq, Bool.and_eq_true, beq_iff_eq] at h
    exact ⟨b', rfl, h.1, h.2⟩
  | _ => simp [pyEq] at h

/-- two `==` mappings, the first with distinct keys: same keys, `==` values under each key, and
    the second has distinct keys too -/
theorem obj_corr {a b : List (String × JVal)} (hn : (a.map (·.1)).Nodup) (hl : a.length = b.length)
    (he : pyEqEntries a b = true) :
    (b.map (·.1)).Nodup
    ∧ (∀ k v, (k, v) ∈ a → ∃ v', (k, v') ∈ b ∧ pyEq v v' = true)
    ∧ (∀ k v', (k, v') ∈ b → ∃ v, (k, v) ∈ a ∧ pyEq v v' = true) := by
  rw [pyEqEntries_iff] at he
  have hsub : a.map (·.1) ⊆ b.map (·.1) := by
    intro k hk
    obtain ⟨⟨k', v⟩, hm, rfl⟩ := List.mem_map.mp hk
    obtain ⟨w, hw, _⟩ := he k' v hm
    exact List.mem_map.mpr ⟨(k', w), lookupKV_mem hw, rfl⟩
  obtain ⟨hback, hnb⟩ := nodup_subset_fill _ _ hn hsub (by simp [hl])
  refine ⟨hnb, ?_, ?_⟩
  · intro k v hm
    obtain ⟨w, hw, e⟩ := he k v hm
    exact ⟨w, lookupKV_mem hw, e⟩
  · intro k v' hm
    have hk : k ∈ a.map (·.1) := hback (List.mem_map.mpr ⟨(k, v'), hm, rfl⟩)
    obtain ⟨v, hv⟩ := lookupKV_of_key hk
    obtain ⟨w, hw, e⟩ := he k v (lookupKV_mem hv)
    have : lookupKV k b = some v' := lookupKV_of_mem hnb hm
    rw [this] at hw
    cases hw
    exact ⟨v, lookupKV_mem hv, e⟩

/-! ### lists, from pointwise facts -/

theorem pyEqList_refl_of : ∀ (xs : List JVal), (∀ x ∈ xs, pyEq x x = true) → pyEqList xs xs = true
  | [], _ => rfl
  | x :: xs, h => by
    simp only [pyEqList, Bool.and_eq_true]
    exact ⟨h x List.mem_cons_self, pyEqList_refl_of xs (fun y hy => h y (List.mem_cons_of_mem _ hy))⟩

theorem pyEqList_symm_of : ∀ (xs ys : List JVal),
    (∀ x ∈ xs, ∀ y ∈ ys, pyEq x y = true → pyEq y x = true) →
    pyEqList xs ys = true → pyEqList ys xs = true
  | [], ys, _, h => by
    cases ys with
    | nil => rfl
    | cons y ys => simp [pyEqList] at h
  | x :: xs, ys, hp, h => by
    cases ys with
    | nil => simp [pyEqList] at h
    | cons y ys =>
      simp only [pyEqList, Bool.and_eq_true] at h ⊢
      exact ⟨hp x List.mem_cons_self y List.mem_cons_self h.1,
        pyEqList_symm_of xs ys
          (fun x' hx y' hy => hp x' (List.mem_cons_of_mem _ hx) y' (List.mem_cons_of_mem _ hy)) h.2⟩

theorem pyEqList_eucl_of : ∀ (xs ys zs : List JVal),
    (∀ x ∈ xs, ∀ b c, pyEq x b = true → pyEq x c = pyEq b c) →
    pyEqList xs ys = true → pyEqList xs zs = pyEqList ys zs
  | [], ys, zs, _, h => by
    cases ys with
    | nil => rfl
    | cons y ys => simp [pyEqList] at h
  | x :: xs, ys, zs, hp, h => by
    cases ys with
    | nil => simp [pyEqList] at h
    | cons y ys =>
      simp only [pyEqList, Bool.and_eq_true] at h
      cases zs with
      | nil => rfl
      | cons z zs =>
        simp only [pyEqList]
        rw [hp x List.mem_cons_self y z h.1,
          pyEqList_eucl_of xs ys zs (fun x' hx => hp x' (List.mem_cons_of_mem _ hx)) h.2]

theorem pyCmpList_congr_of : ∀ (xs ys zs : List JVal),
    (∀ x ∈ xs, ∀ b c, pyEq x b = true → pyEq x c = pyEq b c) →
    (∀ x ∈ xs, ∀ b c, pyEq x b = true → pyCmp x c = pyCmp b c) →
    pyEqList xs ys = true → pyCmpList xs zs = pyCmpList ys zs
  | [], ys, zs, _, _, h => by
    cases ys with
    | nil => rfl
    | cons y ys => simp [pyEqList] at h
  | x :: xs, ys, zs, hp, hc, h => by
    cases ys with
    | nil => simp [pyEqList] at h
    | cons y ys =>
      simp only [pyEqList, Bool.and_eq_true] at h
      cases zs with
      | nil => rfl
      | cons z zs =>
        simp only [pyCmpList]
        rw [hp x List.mem_cons_self y z h.1, hc x List.mem_cons_self y z h.1,
          pyCmpList_congr_of xs ys zs (fun x' hx => hp x' (List.mem_cons_of_mem _ hx))
            (fun x' hx => hc x' (List.mem_cons_of_mem _ hx)) h.2]

theorem pyEqList_mem_right : ∀ {xs ys : List JVal}, pyEqList xs ys = true → xs.length = ys.length
  | [], ys, h => by
    cases ys with
    | nil => rfl
    | cons y ys => simp [pyEqList] at h
  | x :: xs, ys, h => by
    cases ys with
    | nil => simp [pyEqList] at h
    | cons y ys =>
      simp only [pyEqList, Bool.and_eq_true] at h
      simp only [List.length_cons, pyEqList_mem_right h.2]

/-! ### the four facts for well-formed values -/

/-- `a == a` -/
theorem pyEq_refl_wf : ∀ (a : JVal), keysOK a = true → pyEq a a = true := by
  refine keysOK_induct rfl ?_ ?_ ?_ ?_ ?_ ?_
  · intro b; rw [pyEq_of_numVal (numVal_bool b), numVal_bool]; exact numEq_refl _
  · intro i; rw [pyEq_of_numVal (p := (i, 0)) rfl]; exact numEq_refl _
  · intro n e r; rw [pyEq_of_numVal (p := (n, e)) rfl]; exact numEq_refl _
  · intro s; simp [pyEq]
  · intro xs _ ih; simp only [pyEq]; exact pyEqList_refl_of xs ih
  · intro kvs hn _ ih
    simp only [pyEq, Bool.and_eq_true, beq_self_eq_true, true_and]
    rw [pyEqEntries_iff]
    intro k v hm
    exact ⟨v, lookupKV_of_mem hn hm, ih k v hm⟩

/-- `a == b → b == a` (one direction; both values well-formed) -/
theorem pyEq_symm_imp : ∀ (a : JVal), keysOK a = true →
    ∀ b, keysOK b = true → pyEq a b = true → pyEq b a = true := by
  refine keysOK_induct ?_ ?_ ?_ ?_ ?_ ?_ ?_
  · intro b _ h; rw [pyEq_null_true h]; rfl
  · intro x b _ h; rw [← pyEq_num_symm (numVal_bool x) b]; exact h
  · intro i b _ h; rw [← pyEq_num_symm (p := (i, 0)) rfl b]; exact h
  · intro n e r b _ h; rw [← pyEq_num_symm (p := (n, e)) rfl b]; exact h
  · intro s b _ h; rw [pyEq_str_true h]; simp [pyEq]
  · intro xs _ ih b hb h
    obtain ⟨ys, rfl, hl⟩ := pyEq_arr_true h
    simp only [pyEq]
    have hys := keysOK_arr.mp hb
    exact pyEqList_symm_of xs ys (fun x hx y hy => ih x hx y (hys y hy)) hl
  · intro kvs hn _ ih b hb h
    obtain ⟨kvs', rfl, hl, he⟩ := pyEq_obj_true h
    obtain ⟨_, hvb⟩ := keysOK_obj.mp hb
    obtain ⟨_, _, hback⟩ := obj_corr hn hl he
    simp only [pyEq, Bool.and_eq_true, beq_iff_eq]
    refine ⟨hl.symm, ?_⟩
    rw [pyEqEntries_iff]
    intro k v' hm
    obtain ⟨v, hv, e⟩ := hback k v' hm
    exact ⟨v, lookupKV_of_mem hn hv, ih k v hv v' (hvb k v' hm) e⟩

/-- Python `==` is symmetric on well-formed values -/
theorem pyEq_symm_wf (a b : JVal) (ha : keysOK a = true) (hb : keysOK b = true) :
    pyEq a b = pyEq b a := by
  rw [Bool.eq_iff_iff]
  exact ⟨pyEq_symm_imp a ha b hb, pyEq_symm_imp b hb a ha⟩

/-- `a == b → (a == c) = (b == c)`: only `a` needs to be well-formed -/
theorem pyEq_eucl_wf : ∀ (a : JVal), keysOK a = true →
    ∀ b c, pyEq a b = true → pyEq a c = pyEq b c := by
  refine keysOK_induct ?_ ?_ ?_ ?_ ?_ ?_ ?_
  · intro b c h; rw [pyEq_null_true h]
  · intro x b c h; exact pyEq_num_eucl (numVal_bool x) h c
  · intro i b c h; exact pyEq_num_eucl (p := (i, 0)) rfl h c
  · intro n e r b c h; exact pyEq_num_eucl (p := (n, e)) rfl h c
  · intro s b c h; rw [pyEq_str_true h]
  · intro xs _ ih b c h
    obtain ⟨ys, rfl, hl⟩ := pyEq_arr_true h
    cases c with
    | arr zs => simp only [pyEq]; exact pyEqList_eucl_of xs ys zs ih hl
    | _ => rfl
  · intro kvs hn _ ih b c h
    obtain ⟨kvs', rfl, hl, he⟩ := pyEq_obj_true h
    obtain ⟨hnb, hfwd, hback⟩ := obj_corr hn hl he
    cases c with
    | obj cs =>
      simp only [pyEq]
      rw [hl]
      congr 1
      rw [Bool.eq_iff_iff, pyEqEntries_iff, pyEqEntries_iff]
      constructor
      · intro hac k v' hm
        obtain ⟨v, hv, e⟩ := hback k v' hm
        obtain ⟨w, hw, e'⟩ := hac k v hv
        exact ⟨w, hw, by rw [← ih k v hv v' w e]; exact e'⟩
      · intro hbc k v hm
        obtain ⟨v', hv', e⟩ := hfwd k v hm
        obtain ⟨w, hw, e'⟩ := hbc k v' hv'
        exact ⟨w, hw, by rw [ih k v hm v' w e]; exact e'⟩
    | _ => rfl

/-- `a == b → cmp a c = cmp b c` (including "unorderable"): only `a` needs to be well-formed -/
theorem pyCmp_congr_wf : ∀ (a : JVal), keysOK a = true →
    ∀ b c, pyEq a b = true → pyCmp a c = pyCmp b c := by
  refine keysOK_induct ?_ ?_ ?_ ?_ ?_ ?_ ?_
  · intro b c h; rw [pyEq_null_true h]
  · intro x b c h; exact pyCmp_num_congr (numVal_bool x) h c
  · intro i b c h; exact pyCmp_num_congr (p := (i, 0)) rfl h c
  · intro n e r b c h; exact pyCmp_num_congr (p := (n, e)) rfl h c
  · intro s b c h; rw [pyEq_str_true h]
  · intro xs hxs ih b c h
    obtain ⟨ys, rfl, hl⟩ := pyEq_arr_true h
    cases c with
    | arr zs =>
      simp only [pyCmp]
      exact pyCmpList_congr_of xs ys zs (fun x hx => pyEq_eucl_wf x (hxs x hx)) ih hl
    | _ => rfl
  · intro kvs _ _ _ b c h
    obtain ⟨kvs', rfl, _, _⟩ := pyEq_obj_true h
    cases c <;> rfl

/-- a value `==` to a string is that string (no well-formedness needed) -/
theorem pyEq_str_left' {v : JVal} {t : String} (h : pyEq v (.str t) = true) : v = .str t := by
  cases v with
  | str s => simp only [pyEq, beq_iff_eq] at h; rw [h]
  | bool b => cases b <;> simp [pyEq, numVal] at h
  | _ => simp [pyEq, numVal] at h

/-- `w == c` for a number `c` is `c == w`, whatever `w` is -/
theorem pyEq_num_symm_right {c : JVal} {p : Int × Nat} (hc : numVal c = some p) (w : JVal) :
    pyEq w c = pyEq c w := (pyEq_num_symm hc w).symm

theorem pyEqList_mem_back : ∀ {xs ys : List JVal}, pyEqList xs ys = true →
    ∀ y ∈ ys, ∃ x ∈ xs, pyEq x y = true
  | [], ys, h, y, hy => by
    cases ys with
    | nil => cases hy
    | cons y ys => simp [pyEqList] at h
  | x :: xs, ys, h, y, hy => by
    cases ys with
    | nil => cases hy
    | cons y' ys =>
      simp only [pyEqList, Bool.and_eq_true] at h
      rcases List.mem_cons.mp hy with e | hy
      · exact ⟨x, List.mem_cons_self, by rw [e]; exact h.1⟩
      · obtain ⟨x', hx', e⟩ := pyEqList_mem_back h.2 y hy
        exact ⟨x', List.mem_cons_of_mem _ hx', e⟩

theorem keysOK_of_numVal {b : JVal} {q : Int × Nat} (h : numVal b = some q) : keysOK b = true := by
  cases b <;> first | rfl | (simp [numVal] at h)

/-- whatever is `==` to a well-formed value is well-formed: `==` forces the same keys -/
theorem keysOK_of_pyEq : ∀ (a : JVal), keysOK a = true → ∀ b, pyEq a b = true → keysOK b = true := by
  refine keysOK_induct ?_ ?_ ?_ ?_ ?_ ?_ ?_
  · intro b h; rw [pyEq_null_true h]; rfl
  · intro x b h
    obtain ⟨q, hq, _⟩ := pyEq_num_true (numVal_bool x) h
    exact keysOK_of_numVal hq
  · intro i b h
    obtain ⟨q, hq, _⟩ := pyEq_num_true (p := (i, 0)) rfl h
    exact keysOK_of_numVal hq
  · intro n e r b h
    obtain ⟨q, hq, _⟩ := pyEq_num_true (p := (n, e)) rfl h
    exact keysOK_of_numVal hq
  · intro s b h; rw [pyEq_str_true h]; rfl
  · intro xs _ ih b h
    obtain ⟨ys, rfl, hl⟩ := pyEq_arr_true h
    rw [keysOK_arr]
    intro y hy
    obtain ⟨x, hx, e⟩ := pyEqList_mem_back hl y hy
    exact ih x hx y e
  · intro kvs hn _ ih b h
    obtain ⟨kvs', rfl, hl, he⟩ := pyEq_obj_true h
    obtain ⟨hnb, _, hback⟩ := obj_corr hn hl he
    rw [keysOK_obj]
    refine ⟨hnb, ?_⟩
    intro k v' hm
    obtain ⟨v, hv, e⟩ := hback k v' hm
    exact ih k v hv v' e

end Signac.Query

/-
  Helper lemmas for C01: sorted insertion commutes, `canon` is invariant under
  re-ordering of object entries at any depth.  Core only.
-/
import Signac.Json
namespace Signac

theorem str_trichotomy (a b : String) : a < b ∨ a = b ∨ b < a := by
  by_cases h1 : a < b
  · exact Or.inl h1
  · by_cases h2 : b < a
    · exact Or.inr (Or.inr h2)
    · exact Or.inr (Or.inl (String.le_antisymm (String.not_lt.mp h2) (String.not_lt.mp h1)))

theorem insertKV_nil (k : String) (v : JVal) : insertKV k v [] = [(k, v)] := rfl

theorem insertKV_lt {k k' : String} (h : k < k') (v v' : JVal) (r : List (String × JVal)) :
    insertKV k v ((k', v') :: r) = (k, v) :: (k', v') :: r := by
  simp only [insertKV, if_pos h]

theorem insertKV_eq (k : String) (v v' : JVal) (r : List (String × JVal)) :
    insertKV k v ((k, v') :: r) = (k, v) :: r := by
  simp only [insertKV, if_neg (String.lt_irrefl k), if_true]

theorem insertKV_gt {k k' : String} (h : k' < k) (v v' : JVal) (r : List (String × JVal)) :
    insertKV k v ((k', v') :: r) = (k', v') :: insertKV k v r := by
  simp only [insertKV, if_neg (String.lt_asymm h), if_neg (String.ne_of_lt h).symm]

theorem insertKV_comm (k1 k2 : String) (v1 v2 : JVal) (h : k1 ≠ k2) (l : List (String × JVal)) :
    insertKV k1 v1 (insertKV k2 v2 l) = insertKV k2 v2 (insertKV k1 v1 l) := by
  induction l with
  | nil =>
    rcases str_trichotomy k1 k2 with h12 | h12 | h12
    · rw [insertKV_nil, insertKV_nil, insertKV_lt h12, insertKV_gt h12, insertKV_nil]
    · exact absurd h12 h
    · rw [insertKV_nil, insertKV_nil, insertKV_lt h12, insertKV_gt h12, insertKV_nil]
  | cons hd tl ih =>
    obtain ⟨k, v⟩ := hd
    rcases str_trichotomy k1 k with h1 | h1 | h1
    · rcases str_trichotomy k2 k with h2 | h2 | h2
      · rw [insertKV_lt h2, insertKV_lt h1]
        rcases str_trichotomy k1 k2 with h12 | h12 | h12
        · rw [insertKV_lt h12, insertKV_gt h12, insertKV_lt h2]
        · exact absurd h12 h
        · rw [insertKV_gt h12, insertKV_lt h12, insertKV_lt h1]
      · subst h2
        rw [insertKV_eq, insertKV_lt h1, insertKV_lt h1, insertKV_gt h1, insertKV_eq]
      · have h12 : k1 < k2 := String.lt_trans h1 h2
        rw [insertKV_gt h2, insertKV_lt h1, insertKV_lt h1, insertKV_gt h12, insertKV_gt h2]
    · subst h1
      rcases str_trichotomy k2 k1 with h2 | h2 | h2
      · rw [insertKV_lt h2, insertKV_eq, insertKV_gt h2, insertKV_eq, insertKV_lt h2]
      · exact absurd h2.symm h
      · rw [insertKV_gt h2, insertKV_eq, insertKV_eq, insertKV_gt h2]
    · rcases str_trichotomy k2 k with h2 | h2 | h2
      · have h21 : k2 < k1 := String.lt_trans h2 h1
        rw [insertKV_lt h2, insertKV_gt h1, insertKV_gt h21, insertKV_gt h1, insertKV_lt h2]
      · subst h2
        rw [insertKV_eq, insertKV_gt h1, insertKV_gt h1, insertKV_eq]
      · rw [insertKV_gt h2, insertKV_gt h1, insertKV_gt h1, insertKV_gt h2, ih]

theorem canonList_append (xs ys : List JVal) :
    canonList (xs ++ ys) = canonList xs ++ canonList ys := by
  induction xs with
  | nil => simp [canonList]
  | cons x xs ih => simp [canonList, ih]

/-- `canonObj` of an append only depends on the canonical form of the suffix. -/
theorem canonObj_append_congr (pre : List (String × JVal)) {a b : List (String × JVal)}
    (h : canonObj a = canonObj b) : canonObj (pre ++ a) = canonObj (pre ++ b) := by
  induction pre with
  | nil => simpa using h
  | cons hd tl ih =>
    obtain ⟨k, v⟩ := hd
    simp [canonObj, ih]

theorem canonObj_swap (k1 k2 : String) (v1 v2 : JVal) (h : k1 ≠ k2) (post : List (String × JVal)) :
    canonObj ((k1, v1) :: (k2, v2) :: post) = canonObj ((k2, v2) :: (k1, v1) :: post) := by
  simp only [canonObj]
  exact insertKV_comm k1 k2 _ _ h _

/-- Re-spelling of a JSON value: the equivalence closure of "swap two adjacent
    entries with distinct keys of some object, anywhere inside the value".
    Defined without reference to `canon`. -/
inductive JEquiv : JVal → JVal → Prop
  | refl (v : JVal) : JEquiv v v
  | symm {v w : JVal} : JEquiv v w → JEquiv w v
  | trans {u v w : JVal} : JEquiv u v → JEquiv v w → JEquiv u w
  | swap (pre post : List (String × JVal)) (k1 k2 : String) (v1 v2 : JVal) (h : k1 ≠ k2) :
      JEquiv (.obj (pre ++ (k1, v1) :: (k2, v2) :: post)) (.obj (pre ++ (k2, v2) :: (k1, v1) :: post))
  | inArr (pre post : List JVal) {x y : JVal} :
      JEquiv x y → JEquiv (.arr (pre ++ x :: post)) (.arr (pre ++ y :: post))
  | inObj (pre post : List (String × JVal)) (k : String) {x y : JVal} :
      JEquiv x y → JEquiv (.obj (pre ++ (k, x) :: post)) (.obj (pre ++ (k, y) :: post))

theorem equiv_canon {v w : JVal} (h : JEquiv v w) : canon v = canon w := by
  induction h with
  | refl => rfl
  | symm _ ih => exact ih.symm
  | trans _ _ ih1 ih2 => exact ih1.trans ih2
  | swap pre post k1 k2 v1 v2 h =>
    simp only [canon]
    congr 1
    exact canonObj_append_congr pre (canonObj_swap k1 k2 v1 v2 h post)
  | inArr pre post _ ih =>
    simp only [canon, canonList_append, canonList, ih]
  | inObj pre post k _ ih =>
    simp only [canon]
    congr 1
    apply canonObj_append_congr
    simp only [canonObj, ih]

/-- Any permutation of the entries of an object with pairwise distinct keys
    (what a Python dict is) has the same canonical form. -/
theorem canonObj_perm {a b : List (String × JVal)} (hp : a.Perm b)
    (hn : (a.map Prod.fst).Nodup) : canonObj a = canonObj b := by
  induction hp with
  | nil => rfl
  | cons x _ ih =>
    obtain ⟨k, v⟩ := x
    simp only [List.map_cons, List.nodup_cons] at hn
    simp only [canonObj, ih hn.2]
  | swap x y l =>
    obtain ⟨k1, v1⟩ := x
    obtain ⟨k2, v2⟩ := y
    simp only [List.map_cons, List.nodup_cons, List.mem_cons, not_or] at hn
    exact canonObj_swap k2 k1 v2 v1 (fun h => hn.1.1 h) l
  | trans h1 _ ih1 ih2 =>
    have hn2 := (h1.map Prod.fst).nodup_iff.mp hn
    exact (ih1 hn).trans (ih2 hn2)

end Signac

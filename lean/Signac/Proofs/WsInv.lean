/-
  Invariant of the workspace model: every job is stored under the hash of its state
  point, ids are unique.  Preserved by every operation.  Core only.
-/
import Signac.Proofs.WsAssoc
namespace Signac.Ws
open Signac

section
variable (hash : JVal → String)

def JobsInv (js : Jobs) : Prop :=
  (∀ id jd, (id, jd) ∈ js → hash jd.sp = id) ∧ (js.map Prod.fst).Nodup

def WsInv (w : World) : Prop := JobsInv hash w.p0 ∧ JobsInv hash w.p1

theorem jobsInv_nil : JobsInv hash [] := ⟨by simp, by simp⟩

theorem wsInv_empty : WsInv hash World.empty := ⟨jobsInv_nil hash, jobsInv_nil hash⟩

variable {hash}

theorem wsInv_jobs {w : World} (h : WsInv hash w) (p : Nat) : JobsInv hash (w.jobs p) := by
  unfold World.jobs; split
  · exact h.1
  · exact h.2

theorem wsInv_setJobs {w : World} (h : WsInv hash w) (p : Nat) {j : Jobs} (hj : JobsInv hash j) :
    WsInv hash (w.setJobs p j) := by
  unfold World.setJobs; split
  · exact ⟨hj, h.2⟩
  · exact ⟨h.1, hj⟩

theorem jobs_setJobs_same (w : World) (p : Nat) (j : Jobs) : (w.setJobs p j).jobs p = j := by
  unfold World.setJobs World.jobs; split <;> simp_all

theorem jobs_setJobs_other (w : World) {p q : Nat} (j : Jobs) (h : (p = 0) ≠ (q = 0)) :
    (w.setJobs p j).jobs q = w.jobs q := by
  unfold World.setJobs World.jobs
  by_cases hp : p = 0 <;> by_cases hq : q = 0 <;> simp_all

theorem jobsInv_erase {js : Jobs} (h : JobsInv hash js) (k : String) : JobsInv hash (aerase k js) :=
  ⟨fun id jd hm => h.1 id jd (mem_aerase hm).1, aerase_nodup h.2⟩

theorem jobsInv_append {js : Jobs} (h : JobsInv hash js) {id : String} {jd : JobData}
    (hnew : alookup id js = none) (hid : hash jd.sp = id) : JobsInv hash (js ++ [(id, jd)]) := by
  refine ⟨?_, ?_⟩
  · intro i d hm
    rcases List.mem_append.mp hm with hm | hm
    · exact h.1 i d hm
    · simp only [List.mem_singleton, Prod.mk.injEq] at hm
      obtain ⟨rfl, rfl⟩ := hm
      exact hid
  · rw [List.map_append, List.nodup_append]
    refine ⟨h.2, by simp, ?_⟩
    intro a ha b hb
    simp only [List.map_cons, List.map_nil, List.mem_singleton] at hb
    subst hb
    intro e; subst e
    exact alookup_none_not_mem hnew ha

theorem jobsInv_aset {js : Jobs} (h : JobsInv hash js) {id : String} {jd jd' : JobData}
    (hl : alookup id js = some jd) (hsp : jd'.sp = jd.sp) : JobsInv hash (aset id jd' js) := by
  have hmem := alookup_some_mem hl
  refine ⟨?_, ?_⟩
  · intro i d hm
    rcases mem_aset hm with hm | hm
    · simp only [Prod.mk.injEq] at hm
      obtain ⟨rfl, rfl⟩ := hm
      rw [hsp]; exact h.1 _ _ hmem
    · exact h.1 i d hm
  · rw [aset_keys_of_mem (List.mem_map.mpr ⟨(id, jd), hmem, rfl⟩)]
    exact h.2

theorem ensure_inv {w : World} (h : WsInv hash w) (hd : Handle) : WsInv hash (ensure hash w hd) := by
  simp only [ensure]
  split
  · exact h
  · rename_i hn
    exact wsInv_setJobs h _ (jobsInv_append (wsInv_jobs h _) hn rfl)

theorem modJob_inv {w : World} (h : WsInv hash w) (hd : Handle) (f : JobData → JobData)
    (hf : ∀ jd, (f jd).sp = jd.sp) : WsInv hash (modJob hash w hd f) := by
  simp only [modJob]
  have h1 := ensure_inv h hd
  split
  · rename_i jd hl
    exact wsInv_setJobs h1 _ (jobsInv_aset (wsInv_jobs h1 _) hl (hf jd))
  · exact h1

theorem rekey_inv {w : World} (h : WsInv hash w) (hd : Handle) (newSp : JVal) :
    WsInv hash (rekey hash w hd newSp).1 := by
  simp only [rekey]
  split
  · exact h
  · rename_i hne
    split
    · rename_i jd hl
      split
      · exact h
      · rename_i hnone
        have hj := wsInv_jobs h hd.proj
        have hnew : alookup (hash newSp) (aerase (hash hd.sp) (w.jobs hd.proj)) = none := by
          rw [alookup_aerase_ne (fun e => hne e.symm)]
          cases hx : alookup (hash newSp) (w.jobs hd.proj) with
          | none => rfl
          | some v => simp [hx] at hnone
        have := wsInv_setJobs (w := w) h hd.proj
          (jobsInv_append (jd := { jd with sp := newSp }) (jobsInv_erase hj (hash hd.sp)) hnew rfl)
        exact this
    · exact h

theorem newHandle_inv {w : World} (h : WsInv hash w) (n : String) (p : Nat) (sp : JVal) :
    WsInv hash (newHandle w n p sp) := h

/-- Every public operation preserves the invariant. -/
theorem step_inv {w : World} (h : WsInv hash w) (op : Op) : WsInv hash (step hash w op).1 := by
  cases op with
  | openSp hn p sp => exact h
  | openId hn p pre cached =>
    simp only [step]
    have h0 : WsInv hash { w with handles := aerase hn w.handles } := h
    split
    · split
      · exact h0
      · exact h0
    · exact h0
    · split
      · split
        · exact h0
        · exact h0
      · exact h0
  | init hn =>
    simp only [step]; split
    · exact ensure_inv h _
    · exact h
  | dset hn k v =>
    simp only [step]; split
    · exact modJob_inv h _ _ (fun _ => rfl)
    · exact h
  | ddel hn k =>
    simp only [step]; split
    · split
      · split
        · exact modJob_inv h _ _ (fun _ => rfl)
        · exact ensure_inv h _
      · exact ensure_inv h _
    · exact h
  | dclear hn =>
    simp only [step]; split
    · exact modJob_inv h _ _ (fun _ => rfl)
    · exact h
  | dreset hn d =>
    simp only [step]; split
    · exact modJob_inv h _ _ (fun _ => rfl)
    · exact h
  | put hn name content =>
    simp only [step]; split
    · exact modJob_inv h _ _ (fun _ => rfl)
    · exact h
  | clear hn =>
    simp only [step]; split
    · split
      · exact modJob_inv h _ _ (fun _ => rfl)
      · exact h
    · exact h
  | reset hn =>
    simp only [step]; split
    · exact modJob_inv h _ _ (fun _ => rfl)
    · exact h
  | remove hn =>
    simp only [step]; split
    · exact wsInv_setJobs h _ (jobsInv_erase (wsInv_jobs h _) _)
    · exact h
  | spset hn k v =>
    simp only [step]; split
    · exact rekey_inv h _ _
    · exact h
  | spdel hn k =>
    simp only [step]; split
    · split
      · exact rekey_inv h _ _
      · exact h
    · exact h
  | spnest hn k k2 v =>
    simp only [step]; split
    · split
      · exact rekey_inv h _ _
      · exact h
      · exact h
    · exact h
  | spassign hn sp =>
    simp only [step]; split
    · exact rekey_inv h _ _
    · exact h
  | update hn upd ow =>
    simp only [step]; split
    · split
      · exact h
      · exact rekey_inv h _ _
    · exact h
  | move hn p =>
    simp only [step]; split
    · rename_i hd _
      split
      · exact h
      · rename_i jd hl
        split
        · exact h
        · split
          · exact h
          · rename_i hpne hnone
            have hsrc := wsInv_jobs h hd.proj
            have hid : hash jd.sp = hash hd.sp := hsrc.1 _ _ (alookup_some_mem hl)
            have h1 : WsInv hash (w.setJobs hd.proj (aerase (hash hd.sp) (w.jobs hd.proj))) :=
              wsInv_setJobs h _ (jobsInv_erase hsrc _)
            have hdst := wsInv_jobs h1 p
            by_cases hsame : (hd.proj = 0) = (p = 0)
            · -- both indices address the same project slot: the destination lookup was on the source
              have hj : (w.setJobs hd.proj (aerase (hash hd.sp) (w.jobs hd.proj))).jobs p
                  = aerase (hash hd.sp) (w.jobs hd.proj) := by
                unfold World.setJobs World.jobs
                by_cases hp : hd.proj = 0 <;> by_cases hq : p = 0 <;> simp_all
              have hn : alookup (hash hd.sp)
                  ((w.setJobs hd.proj (aerase (hash hd.sp) (w.jobs hd.proj))).jobs p) = none := by
                rw [hj]; exact alookup_aerase_self _ _
              exact wsInv_setJobs h1 p (jobsInv_append hdst hn hid)
            · have hj := jobs_setJobs_other w (p := hd.proj) (q := p)
                (aerase (hash hd.sp) (w.jobs hd.proj)) hsame
              have hn : alookup (hash hd.sp)
                  ((w.setJobs hd.proj (aerase (hash hd.sp) (w.jobs hd.proj))).jobs p) = none := by
                rw [hj]
                cases hx : alookup (hash hd.sp) (w.jobs p) with
                | none => rfl
                | some v => simp [hx] at hnone
              exact wsInv_setJobs h1 p (jobsInv_append hdst hn hid)
    · exact h
  | clone hn p h2 =>
    simp only [step]; split
    · rename_i hd _
      split
      · exact h
      · rename_i jd hl
        split
        · exact h
        · rename_i hnone
          have hsrc := wsInv_jobs h hd.proj
          have hid : hash jd.sp = hash hd.sp := hsrc.1 _ _ (alookup_some_mem hl)
          have h0 : WsInv hash { w with handles := aerase h2 w.handles } := h
          have hn : alookup (hash hd.sp) (World.jobs { w with handles := aerase h2 w.handles } p) = none := by
            have : World.jobs { w with handles := aerase h2 w.handles } p = w.jobs p := rfl
            rw [this]
            cases hx : alookup (hash hd.sp) (w.jobs p) with
            | none => rfl
            | some v => simp [hx] at hnone
          exact wsInv_setJobs h0 p (jobsInv_append (wsInv_jobs h0 p) hn hid)
    · exact h
  | ucache p => exact h
  | rmcache p => exact h
  | session p => exact h
  | copy hn h2 =>
    simp only [step]; split
    · exact h
    · exact h
  | deepcopy hn h2 =>
    simp only [step]; split
    · exact h
    · exact h
  | pickle hn h2 =>
    simp only [step]; split
    · split
      · exact h
      · exact h
    · exact h
  | drop hn => exact h
  | plant p name =>
    simp only [step]; split
    · exact h
    · exact h

/-- ... hence every finite history does. -/
theorem run_inv {w : World} (h : WsInv hash w) (ops : List Op) : WsInv hash (run hash w ops) := by
  induction ops generalizing w with
  | nil => exact h
  | cons op ops ih => exact ih (step_inv h op)

/-- Under the invariant `check()` reports nothing. -/
theorem check_nil_of_inv {js : Jobs} (h : JobsInv hash js) : check hash js = [] := by
  unfold check
  have : js.filter (fun e => hash e.2.sp != e.1) = [] := by
    apply List.filter_eq_nil_iff.mpr
    intro e he
    have := h.1 e.1 e.2 he
    simp [this]
  simp [this]

end
end Signac.Ws

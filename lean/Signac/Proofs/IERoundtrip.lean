/-
  Helper lemmas for C16: importing the member list of an export whose paths are injective and
  prefix-free gives back the exported jobs (zip, tar and directory analysers).
-/
import Signac.ImportExport
import Signac.Proofs.IEChecks
namespace Signac.IE
open Signac

/-! ### generic list facts -/

theorem pairwise_cases {α : Type} {R : α → α → Prop} {l : List α} (h : l.Pairwise R) {a b : α}
    (ha : a ∈ l) (hb : b ∈ l) : a = b ∨ R a b ∨ R b a := by
  induction h with
  | nil => cases ha
  | cons hx _ ih =>
    rcases List.mem_cons.mp ha with rfl | ha'
    · rcases List.mem_cons.mp hb with rfl | hb'
      · exact Or.inl rfl
      · exact Or.inr (Or.inl (hx _ hb'))
    · rcases List.mem_cons.mp hb with rfl | hb'
      · exact Or.inr (Or.inr (hx _ ha'))
      · exact ih ha' hb'

theorem mem_insertBy {α : Type} (le : α → α → Bool) (x a : α) (l : List α) :
    a ∈ insertBy le x l ↔ a = x ∨ a ∈ l := by
  induction l with
  | nil => simp [insertBy]
  | cons y ys ih =>
    simp only [insertBy]
    split
    · simp
    · simp only [List.mem_cons, ih]
      constructor
      · rintro (h | h | h)
        · exact Or.inr (Or.inl h)
        · exact Or.inl h
        · exact Or.inr (Or.inr h)
      · rintro (h | h | h)
        · exact Or.inr (Or.inl h)
        · exact Or.inl h
        · exact Or.inr (Or.inr h)

theorem nodup_insertBy {α : Type} (le : α → α → Bool) (x : α) (l : List α)
    (hx : x ∉ l) (hl : l.Nodup) : (insertBy le x l).Nodup := by
  induction l with
  | nil => simp [insertBy]
  | cons y ys ih =>
    simp only [insertBy]
    split
    · exact List.nodup_cons.mpr ⟨hx, hl⟩
    · have hy := List.nodup_cons.mp hl
      refine List.nodup_cons.mpr ⟨?_, ih (fun h => hx (List.mem_cons_of_mem _ h)) hy.2⟩
      intro hm
      rcases (mem_insertBy le x y ys).mp hm with h | h
      · exact hx (h ▸ List.mem_cons_self)
      · exact hy.1 h

theorem mem_sortBy {α : Type} (le : α → α → Bool) (a : α) (l : List α) : a ∈ sortBy le l ↔ a ∈ l := by
  induction l with
  | nil => simp [sortBy]
  | cons x xs ih => simp only [sortBy, mem_insertBy, ih, List.mem_cons]

theorem nodup_sortBy {α : Type} (le : α → α → Bool) (l : List α) (h : l.Nodup) : (sortBy le l).Nodup := by
  induction l with
  | nil => simp [sortBy]
  | cons x xs ih =>
    have hx := List.nodup_cons.mp h
    simp only [sortBy]
    exact nodup_insertBy le x _ (fun hm => hx.1 ((mem_sortBy le x xs).mp hm)) (ih hx.2)

theorem mem_dedup {α : Type} [DecidableEq α] (a : α) (l : List α) : a ∈ dedup l ↔ a ∈ l := by
  induction l with
  | nil => simp [dedup]
  | cons x xs ih =>
    simp only [dedup]
    split
    · rename_i h
      simp only [ih, List.mem_cons]
      constructor
      · exact Or.inr
      · rintro (rfl | h')
        · exact ih.mp h
        · exact h'
    · simp only [List.mem_cons, ih]

theorem nodup_dedup {α : Type} [DecidableEq α] (l : List α) : (dedup l).Nodup := by
  induction l with
  | nil => simp [dedup]
  | cons x xs ih =>
    simp only [dedup]
    split
    · exact ih
    · rename_i h
      exact List.nodup_cons.mpr ⟨h, ih⟩

theorem idsNodup_iff (l : List String) : idsNodup l = true ↔ l.Nodup := by
  induction l with
  | nil => simp [idsNodup]
  | cons x xs ih =>
    simp only [idsNodup, Bool.and_eq_true, Bool.not_eq_eq_eq_not, Bool.not_true, List.nodup_cons, ih]
    constructor
    · rintro ⟨h1, h2⟩
      refine ⟨?_, h2⟩
      intro hm
      rw [List.contains_iff_mem.mpr hm] at h1
      exact absurd h1 (by decide)
    · rintro ⟨h1, h2⟩
      refine ⟨?_, h2⟩
      cases hc : xs.contains x with
      | false => rfl
      | true => exact absurd (List.contains_iff_mem.mp hc) h1

/-! ### the exported member list -/

/-- neither path is a component-wise prefix of the other -/
def Incomp (a b : Comps) : Prop := ¬ a <+: b ∧ ¬ b <+: a

theorem Incomp.symm {a b : Comps} (h : Incomp a b) : Incomp b a := ⟨h.2, h.1⟩

def members (E : List (Job × Comps)) : List (Comps × Content) := E.flatMap exportBlock

/-- what the round trip needs of an export: distinct ids, injective and prefix-free places, every job
    has its state point file with the content that hashes to its id, files have names, and no job holds a
    nested file called `signac_statepoint.json` -/
structure GoodExport (hash : JVal → String) (E : List (Job × Comps)) : Prop where
  ids : E.Pairwise (fun a b => a.1.id ≠ b.1.id)
  pf : E.Pairwise (fun a b => Incomp a.2 b.2)
  sp : ∀ e ∈ E, ∃ v, lookupFile [fnSp] e.1.files = some (.sp v) ∧ hash v = e.1.id
  nonempty : ∀ e ∈ E, ∀ fc ∈ e.1.files, fc.1 ≠ []
  nonested : ∀ e ∈ E, ∀ fc ∈ e.1.files, ∀ g, fc.1 = g ++ [fnSp] → g = []

theorem GoodExport.eq_of_prefix {hash : JVal → String} {E : List (Job × Comps)} (G : GoodExport hash E)
    {a b : Job × Comps} (ha : a ∈ E) (hb : b ∈ E) (h : a.2 <+: b.2) : a = b := by
  rcases pairwise_cases G.pf ha hb with h' | h' | h'
  · exact h'
  · exact absurd h h'.1
  · exact absurd h h'.2

theorem GoodExport.eq_of_id {hash : JVal → String} {E : List (Job × Comps)} (G : GoodExport hash E)
    {a b : Job × Comps} (ha : a ∈ E) (hb : b ∈ E) (h : a.1.id = b.1.id) : a = b := by
  rcases pairwise_cases G.ids ha hb with h' | h' | h'
  · exact h'
  · exact absurd h h'
  · exact absurd h.symm h'

theorem GoodExport.tail {hash : JVal → String} {e : Job × Comps} {E : List (Job × Comps)}
    (G : GoodExport hash (e :: E)) : GoodExport hash E where
  ids := (List.pairwise_cons.mp G.ids).2
  pf := (List.pairwise_cons.mp G.pf).2
  sp := fun x hx => G.sp x (List.mem_cons_of_mem _ hx)
  nonempty := fun x hx => G.nonempty x (List.mem_cons_of_mem _ hx)
  nonested := fun x hx => G.nonested x (List.mem_cons_of_mem _ hx)

theorem lookupFile_append (p : Comps) (A B : List (Comps × Content)) :
    lookupFile p (A ++ B) = match lookupFile p A with
      | some c => some c
      | none => lookupFile p B := by
  induction A with
  | nil => simp [lookupFile]
  | cons x xs ih =>
    obtain ⟨q, c⟩ := x
    simp only [List.cons_append, lookupFile]
    split
    · rfl
    · exact ih

theorem lookupFile_none_iff (p : Comps) (A : List (Comps × Content)) :
    lookupFile p A = none ↔ ∀ fc ∈ A, fc.1 ≠ p := by
  induction A with
  | nil => simp [lookupFile]
  | cons x xs ih =>
    obtain ⟨q, c⟩ := x
    simp only [lookupFile]
    split
    · rename_i h
      simp only [reduceCtorEq, List.mem_cons, ne_eq, forall_eq_or_imp, false_iff, not_and]
      intro h'
      exact absurd h h'
    · rename_i h
      simp only [ih, List.mem_cons, ne_eq, forall_eq_or_imp]
      exact ⟨fun h' => ⟨h, h'⟩, fun h' => h'.2⟩

theorem lookupFile_block (e : Job × Comps) (p : Comps) :
    lookupFile (e.2 ++ p) (exportBlock e) = lookupFile p e.1.files := by
  unfold exportBlock
  induction e.1.files with
  | nil => simp [lookupFile]
  | cons x xs ih =>
    obtain ⟨q, c⟩ := x
    simp only [List.map_cons, lookupFile, List.append_cancel_left_eq, ih]

theorem block_path {e : Job × Comps} {fc : Comps × Content} (h : fc ∈ exportBlock e) :
    ∃ f c, (f, c) ∈ e.1.files ∧ fc = (e.2 ++ f, c) := by
  unfold exportBlock at h
  rcases List.mem_map.mp h with ⟨⟨f, c⟩, hf, rfl⟩
  exact ⟨f, c, hf, rfl⟩

theorem members_path {E : List (Job × Comps)} {fc : Comps × Content} (h : fc ∈ members E) :
    ∃ e ∈ E, ∃ f c, (f, c) ∈ e.1.files ∧ fc = (e.2 ++ f, c) := by
  unfold members at h
  rcases List.mem_flatMap.mp h with ⟨e, he, hb⟩
  exact ⟨e, he, block_path hb⟩

theorem comparable_of_append_eq {d d' f p : Comps} (h : d' ++ f = d ++ p) : d <+: d' ∨ d' <+: d :=
  List.prefix_or_prefix_of_prefix (l₃ := d ++ p) (List.prefix_append d p) (h ▸ List.prefix_append d' f)

theorem lookup_members_none (d p : Comps) (E : List (Job × Comps)) (h : ∀ e ∈ E, Incomp d e.2) :
    lookupFile (d ++ p) (members E) = none := by
  rw [lookupFile_none_iff]
  intro fc hfc heq
  rcases members_path hfc with ⟨e, he, f, c, _, rfl⟩
  rcases comparable_of_append_eq heq with h' | h'
  · exact (h e he).1 h'
  · exact (h e he).2 h'

theorem lookup_members_root {hash : JVal → String} {E : List (Job × Comps)} (G : GoodExport hash E)
    {e : Job × Comps} (he : e ∈ E) (p : Comps) :
    lookupFile (e.2 ++ p) (members E) = lookupFile p e.1.files := by
  induction E with
  | nil => cases he
  | cons e0 E' ih =>
    have hpf := List.pairwise_cons.mp G.pf
    have hsplit : members (e0 :: E') = exportBlock e0 ++ members E' := by
      simp [members, List.flatMap_cons]
    rw [hsplit, lookupFile_append]
    rcases List.mem_cons.mp he with rfl | he'
    · rw [lookupFile_block]
      cases hl : lookupFile p e.1.files with
      | some c => rfl
      | none => exact lookup_members_none e.2 p E' (fun x hx => hpf.1 x hx)
    · have hinc : Incomp e.2 e0.2 := (hpf.1 e he').symm
      have : lookupFile (e.2 ++ p) (exportBlock e0) = none := by
        have := lookup_members_none e.2 p [e0] (by simpa using hinc)
        simpa [members, List.flatMap_cons] using this
      rw [this]
      exact ih G.tail he'

theorem readSp_root {hash : JVal → String} {E : List (Job × Comps)} (G : GoodExport hash E)
    {e : Job × Comps} (he : e ∈ E) {v : JVal} (hv : lookupFile [fnSp] e.1.files = some (.sp v)) :
    readSp (members E) e.2 = .ok (some v) := by
  unfold readSp
  rw [lookup_members_root G he, hv]

theorem append_singleton_eq {d f x : Comps} {s : String} (hf : f ≠ []) (h : d ++ f = x ++ [s]) :
    ∃ g, f = g ++ [s] ∧ x = d ++ g := by
  have hf' : f = f.dropLast ++ [f.getLast hf] := (List.dropLast_concat_getLast hf).symm
  rw [hf', ← List.append_assoc] at h
  have := List.append_inj' h (by simp)
  refine ⟨f.dropLast, ?_, this.1.symm⟩
  rw [hf']
  simp only [List.cons.injEq, and_true] at this
  simp [this.2]

theorem readSp_nonroot {hash : JVal → String} {E : List (Job × Comps)} (G : GoodExport hash E)
    {x : Comps} (hx : ∀ e ∈ E, e.2 ≠ x) : readSp (members E) x = .ok none := by
  unfold readSp
  have : lookupFile (x ++ [fnSp]) (members E) = none := by
    rw [lookupFile_none_iff]
    intro fc hfc heq
    rcases members_path hfc with ⟨e, he, f, c, hf, rfl⟩
    have hne := G.nonempty e he (f, c) hf
    rcases append_singleton_eq hne heq with ⟨g, hg, hxg⟩
    have := G.nonested e he (f, c) hf g hg
    subst this
    exact hx e he (by simpa using hxg.symm)
  rw [this]

theorem filesUnder_append (d : Comps) (A B : List (Comps × Content)) :
    filesUnder d (A ++ B) = filesUnder d A ++ filesUnder d B := by
  simp [filesUnder, List.filter_append]

theorem filesUnder_block_self (e : Job × Comps) : filesUnder e.2 (exportBlock e) = e.1.files := by
  unfold filesUnder exportBlock
  induction e.1.files with
  | nil => simp
  | cons x xs ih =>
    obtain ⟨f, c⟩ := x
    simp only [List.map_cons, List.filter_cons, isPrefixB, List.prefix_append, decide_true, if_true,
      List.drop_left, List.cons.injEq, true_and]
    exact ih

theorem filesUnder_members_none (d : Comps) (E : List (Job × Comps)) (h : ∀ e ∈ E, Incomp d e.2) :
    filesUnder d (members E) = [] := by
  unfold filesUnder
  rw [List.map_eq_nil_iff, List.filter_eq_nil_iff]
  intro fc hfc
  rcases members_path hfc with ⟨e, he, f, c, _, rfl⟩
  simp only [isPrefixB, decide_eq_true_eq]
  intro hp
  rcases List.prefix_or_prefix_of_prefix hp (List.prefix_append e.2 f) with h' | h'
  · exact (h e he).1 h'
  · exact (h e he).2 h'

theorem filesUnder_root {hash : JVal → String} {E : List (Job × Comps)} (G : GoodExport hash E)
    {e : Job × Comps} (he : e ∈ E) : filesUnder e.2 (members E) = e.1.files := by
  induction E with
  | nil => cases he
  | cons e0 E' ih =>
    have hpf := List.pairwise_cons.mp G.pf
    have hsplit : members (e0 :: E') = exportBlock e0 ++ members E' := by
      simp [members, List.flatMap_cons]
    rw [hsplit, filesUnder_append]
    rcases List.mem_cons.mp he with rfl | he'
    · rw [filesUnder_block_self, filesUnder_members_none e.2 E' (fun x hx => hpf.1 x hx), List.append_nil]
    · have hinc : Incomp e.2 e0.2 := (hpf.1 e he').symm
      have : filesUnder e.2 (exportBlock e0) = [] := by
        have := filesUnder_members_none e.2 [e0] (by simpa using hinc)
        simpa [members, List.flatMap_cons] using this
      rw [this, List.nil_append]
      exact ih G.tail he'

/-! ### what the analysers find -/

/-- the mapping entry an analyser creates for directory `d` (if it holds a state point file) -/
def mapOf (hash : JVal → String) (A : List (Comps × Content)) (d : Comps) : Option (Comps × String × JVal) :=
  match readSp A d with
  | .ok (some v) => some (d, hash v, v)
  | _ => none

def toJob (A : List (Comps × Content)) (m : Comps × String × JVal) : Job := ⟨m.2.1, filesUnder m.1 A⟩

theorem mapOf_root {hash : JVal → String} {E : List (Job × Comps)} (G : GoodExport hash E)
    {e : Job × Comps} (he : e ∈ E) :
    ∃ v, mapOf hash (members E) e.2 = some (e.2, e.1.id, v) ∧ lookupFile [fnSp] e.1.files = some (.sp v) := by
  rcases G.sp e he with ⟨v, hv, hh⟩
  refine ⟨v, ?_, hv⟩
  simp only [mapOf, readSp_root G he hv, hh]

theorem mapOf_nonroot {hash : JVal → String} {E : List (Job × Comps)} (G : GoodExport hash E)
    {x : Comps} (hx : ∀ e ∈ E, e.2 ≠ x) : mapOf hash (members E) x = none := by
  simp only [mapOf, readSp_nonroot G hx]

theorem mapOf_some {hash : JVal → String} {E : List (Job × Comps)} (G : GoodExport hash E)
    {x : Comps} {m : Comps × String × JVal} (h : mapOf hash (members E) x = some m) :
    ∃ e ∈ E, e.2 = x ∧ m.1 = x ∧ m.2.1 = e.1.id ∧ toJob (members E) m = e.1 := by
  by_cases hex : ∃ e ∈ E, e.2 = x
  · rcases hex with ⟨e, he, rfl⟩
    rcases mapOf_root G he with ⟨v, hm, _⟩
    rw [hm] at h
    cases h
    refine ⟨e, he, rfl, rfl, rfl, ?_⟩
    simp only [toJob, filesUnder_root G he]
  · have : mapOf hash (members E) x = none :=
      mapOf_nonroot G (fun e he heq => hex ⟨e, he, heq⟩)
    rw [this] at h
    cases h

/-- the loop of the zip / tar analyser finds exactly the directories that hold a state point file,
    for every policy whose test only fires on directories below a remembered one -/
theorem scan_eq {hash : JVal → String} {E : List (Job × Comps)} (G : GoodExport hash E) (pol : Policy)
    (hpol : ∀ skip x, pol.test skip x = true → ∃ s ∈ skip, s <+: x) :
    ∀ (dirs skip : List Comps) (maps : List (Comps × String × JVal)), dirs.Nodup →
      (∀ s ∈ skip, (∃ e ∈ E, e.2 <+: s) ∧ s ∉ dirs) →
      scan pol hash (readSp (members E)) [] dirs skip maps
        = .ok (maps ++ dirs.filterMap (mapOf hash (members E))) := by
  intro dirs
  induction dirs with
  | nil => intro skip maps _ _; simp [scan]
  | cons d rest ih =>
    intro skip maps hnd hskip
    have hnd' := List.nodup_cons.mp hnd
    simp only [scan]
    split
    · rename_i htest
      rcases hpol skip d htest with ⟨s, hs, hsd⟩
      rcases (hskip s hs).1 with ⟨r, hr, hrs⟩
      have hnot : ∀ e ∈ E, e.2 ≠ d := by
        intro e he heq
        have hre : r = e := G.eq_of_prefix hr he (heq ▸ hrs.trans hsd)
        subst hre
        have hsd' : s = d := by
          apply hsd.eq_of_length_le
          have := hrs.length_le
          rw [heq] at this
          exact this
        exact (hskip s hs).2 (hsd' ▸ List.mem_cons_self)
      rw [List.filterMap_cons, mapOf_nonroot G hnot]
      apply ih _ _ hnd'.2
      intro s' hs'
      split at hs'
      · rcases List.mem_cons.mp hs' with rfl | hs''
        · exact ⟨⟨r, hr, hrs.trans hsd⟩, hnd'.1⟩
        · exact ⟨(hskip s' hs'').1, fun hm => (hskip s' hs'').2 (List.mem_cons_of_mem _ hm)⟩
      · exact ⟨(hskip s' hs').1, fun hm => (hskip s' hs').2 (List.mem_cons_of_mem _ hm)⟩
    · by_cases hex : ∃ e ∈ E, e.2 = d
      · rcases hex with ⟨e, he, rfl⟩
        rcases G.sp e he with ⟨v, hv, hh⟩
        rw [readSp_root G he hv]
        simp only [List.contains_nil, Bool.false_eq_true, if_false]
        rw [List.filterMap_cons]
        have hm : mapOf hash (members E) e.2 = some (e.2, hash v, v) := by
          simp only [mapOf, readSp_root G he hv]
        rw [hm]
        rw [ih (e.2 :: skip) (maps ++ [(e.2, hash v, v)]) hnd'.2]
        · simp
        · intro s' hs'
          rcases List.mem_cons.mp hs' with rfl | hs''
          · exact ⟨⟨e, he, List.prefix_refl _⟩, hnd'.1⟩
          · exact ⟨(hskip s' hs'').1, fun hm => (hskip s' hs'').2 (List.mem_cons_of_mem _ hm)⟩
      · have hnot : ∀ e ∈ E, e.2 ≠ d := fun e he heq => hex ⟨e, he, heq⟩
        rw [readSp_nonroot G hnot, List.filterMap_cons, mapOf_nonroot G hnot]
        apply ih _ _ hnd'.2
        intro s' hs'
        exact ⟨(hskip s' hs').1, fun hm => (hskip s' hs').2 (List.mem_cons_of_mem _ hm)⟩

/-- the jobs rebuilt from the found directories are exactly the exported jobs -/
theorem found_jobs {hash : JVal → String} {E : List (Job × Comps)} (G : GoodExport hash E)
    (dirs : List Comps) (hnd : dirs.Nodup) (hall : ∀ e ∈ E, e.2 ∈ dirs) :
    let R := (dirs.filterMap (mapOf hash (members E))).map (toJob (members E))
    (∀ j, j ∈ R ↔ j ∈ E.map (·.1)) ∧ (R.map (·.id)).Nodup := by
  intro R
  constructor
  · intro j
    simp only [R, List.mem_map, List.mem_filterMap]
    constructor
    · rintro ⟨m, ⟨d, _, hm⟩, rfl⟩
      rcases mapOf_some G hm with ⟨e, he, _, _, _, hj⟩
      exact ⟨e, he, hj.symm⟩
    · rintro ⟨e, he, rfl⟩
      rcases mapOf_root G he with ⟨v, hm, _⟩
      refine ⟨(e.2, e.1.id, v), ⟨e.2, hall e he, hm⟩, ?_⟩
      simp only [toJob, filesUnder_root G he]
  · simp only [R, List.map_map]
    unfold List.Nodup
    rw [List.pairwise_map, List.pairwise_filterMap]
    refine List.Pairwise.imp_of_mem ?_ hnd
    intro d d' _ _ hne m hm m' hm'
    simp only [Function.comp, toJob]
    rcases mapOf_some G hm with ⟨e, he, hed, _, hid, _⟩
    rcases mapOf_some G hm' with ⟨e', he', hed', _, hid', _⟩
    rw [hid, hid']
    intro heq
    have := G.eq_of_id he he' heq
    subst this
    exact hne (hed.symm.trans hed')

/-! ### copy phases -/

theorem zipCopy_spec (A : List (Comps × Content)) :
    ∀ (maps : List (Comps × String × JVal)) (r : ImportResult),
      (zipCopy A maps r).proj = r.proj ++ maps.map (toJob A) ∧ (zipCopy A maps r).err = r.err := by
  intro maps
  induction maps with
  | nil => intro r; simp [zipCopy]
  | cons m rest ih =>
    intro r
    obtain ⟨d, id, sp⟩ := m
    simp only [zipCopy]
    rcases ih { r with proj := r.proj ++ [⟨id, filesUnder d A⟩], writes := r.writes ++ writesOf id (filesUnder d A) } with ⟨h1, h2⟩
    rw [h1, h2]
    simp [toJob]

theorem hasId_false_iff (id : String) (p : Project) : hasId id p = false ↔ ∀ j ∈ p, j.id ≠ id := by
  simp [hasId]

/-- copying the found directories one by one with `copytree` + `init()` -/
theorem tarCopy_spec (hash : JVal → String) (A : List (Comps × Content)) :
    ∀ (maps : List (Comps × String × JVal)) (r : ImportResult), r.err = none →
      (∀ m ∈ maps, ∃ w, lookupFile [fnSp] (filesUnder m.1 A) = some (.sp w) ∧ hash w = m.2.1) →
      ((r.proj.map (·.id)) ++ maps.map (·.2.1)).Nodup →
      (tarCopy hash A maps r).proj = r.proj ++ maps.map (toJob A) ∧ (tarCopy hash A maps r).err = none := by
  intro maps
  induction maps with
  | nil => intro r hr _ _; simp [tarCopy, hr]
  | cons m rest ih =>
    intro r hr hinit hnd
    obtain ⟨d, id, sp⟩ := m
    rcases hinit (d, id, sp) List.mem_cons_self with ⟨w, hw, hh⟩
    have hfresh : hasId id r.proj = false := by
      rw [hasId_false_iff]
      intro j hj heq
      have hnd' := List.nodup_append.mp hnd
      exact hnd'.2.2 j.id (List.mem_map.mpr ⟨j, hj, rfl⟩) id (by simp) heq
    simp only [tarCopy, copyInit, hfresh, Bool.false_eq_true, if_false, initJob, hw, hh, if_true]
    simp only [hr, Option.isSome_none, Bool.false_eq_true, if_false]
    have := ih { proj := r.proj ++ [⟨id, filesUnder d A⟩], err := none,
                 writes := r.writes ++ writesOf id (filesUnder d A) ++ [] } rfl
      (fun m hm => hinit m (List.mem_cons_of_mem _ hm))
      (by
        simp only [List.map_append, List.map_cons, List.map_nil, List.append_assoc, List.cons_append,
          List.nil_append] at hnd ⊢
        exact hnd)
    rcases this with ⟨h1, h2⟩
    rw [h1, h2]
    simp [toJob]

theorem lookupFile_mem {p : Comps} {c : Content} {A : List (Comps × Content)}
    (h : lookupFile p A = some c) : (p, c) ∈ A := by
  induction A with
  | nil => simp [lookupFile] at h
  | cons x xs ih =>
    obtain ⟨q, c'⟩ := x
    simp only [lookupFile] at h
    split at h
    · rename_i hq
      cases h
      rw [hq]
      exact List.mem_cons_self
    · exact List.mem_cons_of_mem _ (ih h)

theorem spfile_mem_members {hash : JVal → String} {E : List (Job × Comps)} (G : GoodExport hash E)
    {e : Job × Comps} (he : e ∈ E) : ∃ c, (e.2 ++ [fnSp], c) ∈ members E := by
  rcases G.sp e he with ⟨v, hv, _⟩
  refine ⟨.sp v, ?_⟩
  unfold members
  refine List.mem_flatMap.mpr ⟨e, he, ?_⟩
  unfold exportBlock
  exact List.mem_map.mpr ⟨([fnSp], .sp v), lookupFile_mem hv, rfl⟩

theorem schemaFn_none (hash : JVal → String) (A : List (Comps × Content)) : schemaFn hash A .none = readSp A := by
  funext d
  rfl

/-- all three analysers produce the same job list once the mapping is known -/
theorem maps_ids (A : List (Comps × Content)) (maps : List (Comps × String × JVal)) :
    (maps.map (toJob A)).map (·.id) = maps.map (·.2.1) := by
  simp [List.map_map, Function.comp_def, toJob]

/-! ### zip -/

theorem zipPolicy_ok : ∀ skip x, zipPolicy.test skip x = true → ∃ s ∈ skip, s <+: x := by
  intro skip x h
  simp only [zipPolicy, List.any_eq_true, isPrefixB, decide_eq_true_eq] at h
  exact h

theorem zip_dirs_ok {hash : JVal → String} {E : List (Job × Comps)} (G : GoodExport hash E) :
    let dirs := sortDirs (dedup ((members E).map (fun fc => dirnameC fc.1)))
    dirs.Nodup ∧ ∀ e ∈ E, e.2 ∈ dirs := by
  intro dirs
  refine ⟨nodup_sortBy _ _ (nodup_dedup _), ?_⟩
  intro e he
  rcases spfile_mem_members G he with ⟨c, hc⟩
  simp only [dirs, sortDirs, mem_sortBy, mem_dedup, List.mem_map]
  exact ⟨(e.2 ++ [fnSp], c), hc, by simp [dirnameC]⟩

theorem zip_roundtrip {hash : JVal → String} {E : List (Job × Comps)} (G : GoodExport hash E) :
    (importZip hash .none [] (members E)).err = none
    ∧ (∀ j, j ∈ (importZip hash .none [] (members E)).proj ↔ j ∈ E.map (·.1))
    ∧ ((importZip hash .none [] (members E)).proj.map (·.id)).Nodup := by
  have hd := zip_dirs_ok G
  have hscan := scan_eq G zipPolicy zipPolicy_ok _ [] [] hd.1 (by intro s hs; cases hs)
  have hf := found_jobs G _ hd.1 hd.2
  simp only [List.nil_append] at hscan
  have hids : idsNodup ((List.filterMap (mapOf hash (members E))
      (sortDirs (dedup ((members E).map (fun fc => dirnameC fc.1))))).map (·.2.1)) = true := by
    rw [idsNodup_iff, ← maps_ids (members E)]
    exact hf.2
  unfold importZip
  simp only [schemaFn_none, List.map_nil, hscan, hids, Bool.not_true, Bool.false_eq_true, if_false]
  rcases zipCopy_spec (members E) (List.filterMap (mapOf hash (members E))
      (sortDirs (dedup ((members E).map (fun fc => dirnameC fc.1))))) ⟨[], none, []⟩ with ⟨h1, h2⟩
  rw [h1, h2]
  exact ⟨rfl, hf.1, hf.2⟩

/-! ### tar -/

def dirMembers (E : List (Job × Comps)) : List Comps := E.flatMap dirBlock

theorem tarPolicy_ok : ∀ skip x, tarPolicy.test skip x = true → ∃ s ∈ skip, s <+: x := by
  intro skip x h
  simp only [tarPolicy] at h
  exact ⟨x.dropLast, List.contains_iff_mem.mp h, List.dropLast_prefix x⟩

theorem mem_dirBlock {e : Job × Comps} {x : Comps} (h : x ∈ dirBlock e) : e.2 <+: x := by
  simp only [dirBlock, mem_dedup, List.mem_cons, List.mem_map] at h
  rcases h with rfl | ⟨s, _, rfl⟩
  · exact List.prefix_refl _
  · exact List.prefix_append _ _

theorem root_mem_dirBlock (e : Job × Comps) : e.2 ∈ dirBlock e := by
  simp [dirBlock, mem_dedup]

theorem nodup_dirMembers {E : List (Job × Comps)} (hpf : E.Pairwise (fun a b => Incomp a.2 b.2)) :
    (dirMembers E).Nodup := by
  induction E with
  | nil => simp [dirMembers]
  | cons e0 E' ih =>
    have h := List.pairwise_cons.mp hpf
    have hsplit : dirMembers (e0 :: E') = dirBlock e0 ++ dirMembers E' := by
      simp [dirMembers, List.flatMap_cons]
    rw [hsplit, List.nodup_append]
    refine ⟨nodup_dedup _, ih h.2, ?_⟩
    intro a ha b hb hab
    subst hab
    simp only [dirMembers, List.mem_flatMap] at hb
    rcases hb with ⟨e, he, hb⟩
    rcases List.prefix_or_prefix_of_prefix (mem_dirBlock ha) (mem_dirBlock hb) with h' | h'
    · exact (h.1 e he).1 h'
    · exact (h.1 e he).2 h'

theorem tar_dirs_ok {hash : JVal → String} {E : List (Job × Comps)} (G : GoodExport hash E) :
    (sortDirs (dirMembers E)).Nodup ∧ ∀ e ∈ E, e.2 ∈ sortDirs (dirMembers E) := by
  refine ⟨nodup_sortBy _ _ (nodup_dirMembers G.pf), ?_⟩
  intro e he
  simp only [sortDirs, mem_sortBy, dirMembers, List.mem_flatMap]
  exact ⟨e, he, root_mem_dirBlock e⟩

theorem tar_roundtrip {hash : JVal → String} {E : List (Job × Comps)} (G : GoodExport hash E) :
    (importTar hash .none [] (members E) (dirMembers E)).err = none
    ∧ (∀ j, j ∈ (importTar hash .none [] (members E) (dirMembers E)).proj ↔ j ∈ E.map (·.1))
    ∧ ((importTar hash .none [] (members E) (dirMembers E)).proj.map (·.id)).Nodup := by
  have hd := tar_dirs_ok G
  have hscan := scan_eq G tarPolicy tarPolicy_ok _ [] [] hd.1 (by intro s hs; cases hs)
  have hf := found_jobs G _ hd.1 hd.2
  simp only [List.nil_append] at hscan
  have hnd : ((List.filterMap (mapOf hash (members E)) (sortDirs (dirMembers E))).map (·.2.1)).Nodup := by
    rw [← maps_ids (members E)]
    exact hf.2
  have hids := (idsNodup_iff _).mpr hnd
  unfold importTar
  simp only [schemaFn_none, List.map_nil, hscan, hids, Bool.not_true, Bool.false_eq_true, if_false]
  have hcopy := tarCopy_spec hash (members E)
    (List.filterMap (mapOf hash (members E)) (sortDirs (dirMembers E))) ⟨[], none, []⟩ rfl
    (by
      intro m hm
      rcases List.mem_filterMap.mp hm with ⟨d, _, hmd⟩
      rcases mapOf_some G hmd with ⟨e, he, hed, hm1, hid, _⟩
      rcases G.sp e he with ⟨v, hv, hh⟩
      refine ⟨v, ?_, by rw [hh, hid]⟩
      rw [hm1, ← hed, filesUnder_root G he]
      exact hv)
    (by simpa using hnd)
  rcases hcopy with ⟨h1, h2⟩
  rw [h1, h2]
  exact ⟨rfl, hf.1, hf.2⟩

/-! ### directory -/

theorem crawl_spec {hash : JVal → String} {E : List (Job × Comps)} (G : GoodExport hash E) :
    ∀ (dirs found : List Comps) (seen : List String) (r : ImportResult), dirs.Nodup → r.err = none →
      (∀ f ∈ found, (∃ e ∈ E, e.2 = f) ∧ f ∉ dirs) →
      (∀ s ∈ seen, ∃ e ∈ E, e.1.id = s ∧ e.2 ∈ found) →
      (∀ j ∈ r.proj, ∃ e ∈ E, e.1.id = j.id ∧ e.2 ∈ found) →
      (crawl hash (readSp (members E)) (members E) dirs found seen r).proj
          = r.proj ++ (dirs.filterMap (mapOf hash (members E))).map (toJob (members E))
        ∧ (crawl hash (readSp (members E)) (members E) dirs found seen r).err = none := by
  intro dirs
  induction dirs with
  | nil => intro found seen r _ hr _ _ _; simp [crawl, hr]
  | cons d rest ih =>
    intro found seen r hnd hr hfound hseen hproj
    have hnd' := List.nodup_cons.mp hnd
    have hfound' : ∀ f ∈ found, (∃ e ∈ E, e.2 = f) ∧ f ∉ rest :=
      fun f hf => ⟨(hfound f hf).1, fun hm => (hfound f hf).2 (List.mem_cons_of_mem _ hm)⟩
    -- a root that is still to be visited is not below a found one
    have hroot_fresh : ∀ e ∈ E, e.2 = d → ∀ e' ∈ E, e'.2 ∈ found → e'.1.id ≠ e.1.id := by
      intro e he hed e' he' hf' hid
      have := G.eq_of_id he' he hid
      subst this
      exact (hfound _ hf').2 (hed ▸ List.mem_cons_self)
    simp only [crawl]
    split
    · rename_i htest
      simp only [List.any_eq_true, isPrefixB, decide_eq_true_eq] at htest
      rcases htest with ⟨s, hs, hsd⟩
      rcases (hfound s hs).1 with ⟨es, hes, hess⟩
      have hnot : ∀ e ∈ E, e.2 ≠ d := by
        intro e he heq
        have : es = e := G.eq_of_prefix hes he (by rw [hess, heq]; exact hsd)
        subst this
        exact (hfound s hs).2 (by rw [← hess, heq]; exact List.mem_cons_self)
      rw [List.filterMap_cons, mapOf_nonroot G hnot]
      exact ih found seen r hnd'.2 hr hfound' hseen hproj
    · by_cases hex : ∃ e ∈ E, e.2 = d
      · rcases hex with ⟨e, he, hed⟩
        rcases G.sp e he with ⟨v, hv, hh⟩
        have hread : readSp (members E) d = .ok (some v) := hed ▸ readSp_root G he hv
        have hm : mapOf hash (members E) d = some (d, e.1.id, v) := by
          simp only [mapOf, hread, hh]
        have hseenF : seen.contains e.1.id = false := by
          cases hc : seen.contains e.1.id with
          | false => rfl
          | true =>
            rcases hseen _ (List.contains_iff_mem.mp hc) with ⟨e', he', hid', hf'⟩
            exact absurd hid' (hroot_fresh e he hed e' he' hf')
        have hfresh : hasId e.1.id r.proj = false := by
          rw [hasId_false_iff]
          intro j hj heq
          rcases hproj j hj with ⟨e', he', hid', hf'⟩
          exact hroot_fresh e he hed e' he' hf' (hid'.trans heq)
        have hfiles : filesUnder d (members E) = e.1.files := hed ▸ filesUnder_root G he
        rw [hread]
        simp only [hh, hseenF, Bool.false_eq_true, if_false, copyInit, hfresh, initJob, hfiles, hv, if_true]
        simp only [hr, Option.isSome_none, Bool.false_eq_true, if_false]
        have := ih (d :: found) (e.1.id :: seen)
          { proj := r.proj ++ [⟨e.1.id, e.1.files⟩], err := none,
            writes := r.writes ++ writesOf e.1.id e.1.files ++ [] } hnd'.2 rfl
          (by
            intro f hf
            rcases List.mem_cons.mp hf with rfl | hf'
            · exact ⟨⟨e, he, hed⟩, hnd'.1⟩
            · exact hfound' f hf')
          (by
            intro s hs
            rcases List.mem_cons.mp hs with rfl | hs'
            · exact ⟨e, he, rfl, by rw [hed]; exact List.mem_cons_self⟩
            · rcases hseen s hs' with ⟨e', he', hid', hf'⟩
              exact ⟨e', he', hid', List.mem_cons_of_mem _ hf'⟩)
          (by
            intro j hj
            rcases List.mem_append.mp hj with hj' | hj'
            · rcases hproj j hj' with ⟨e', he', hid', hf'⟩
              exact ⟨e', he', hid', List.mem_cons_of_mem _ hf'⟩
            · simp only [List.mem_singleton] at hj'
              subst hj'
              exact ⟨e, he, rfl, by rw [hed]; exact List.mem_cons_self⟩)
        rcases this with ⟨h1, h2⟩
        rw [h1, h2, List.filterMap_cons, hm]
        simp [toJob, hfiles]
      · have hnot : ∀ e ∈ E, e.2 ≠ d := fun e he heq => hex ⟨e, he, heq⟩
        rw [readSp_nonroot G hnot, List.filterMap_cons, mapOf_nonroot G hnot]
        exact ih found seen r hnd'.2 hr hfound' hseen hproj

theorem dir_roundtrip {hash : JVal → String} {E : List (Job × Comps)} (G : GoodExport hash E)
    (order : List Comps) (hnd : order.Nodup) (hall : ∀ e ∈ E, e.2 ∈ order) :
    (importDir hash .none [] (members E) order).err = none
    ∧ (∀ j, j ∈ (importDir hash .none [] (members E) order).proj ↔ j ∈ E.map (·.1))
    ∧ ((importDir hash .none [] (members E) order).proj.map (·.id)).Nodup := by
  have hf := found_jobs G order hnd hall
  have hc := crawl_spec G order [] [] ⟨[], none, []⟩ hnd rfl
    (by intro f hf; cases hf) (by intro s hs; cases hs) (by intro j hj; cases hj)
  unfold importDir
  rw [schemaFn_none, hc.1, hc.2]
  exact ⟨rfl, hf.1, hf.2⟩

/-- the visiting order the model uses by default is an admissible `os.walk` order -/
theorem walkOrder_ok {hash : JVal → String} {E : List (Job × Comps)} (G : GoodExport hash E) :
    (walkOrder (members E)).Nodup ∧ ∀ e ∈ E, e.2 ∈ walkOrder (members E) := by
  refine ⟨nodup_sortBy _ _ (nodup_dedup _), ?_⟩
  intro e he
  rcases spfile_mem_members G he with ⟨c, hc⟩
  simp only [walkOrder, sortDirs, mem_sortBy, allDirs, mem_dedup, List.mem_cons, List.mem_flatMap]
  refine Or.inr ⟨(e.2 ++ [fnSp], c), hc, List.mem_append_left _ ?_⟩
  exact List.mem_map.mpr ⟨e.2.length, by simp, by simp⟩

/-! ### from a project and a path list to `GoodExport` -/

theorem pairwise_zip_left {α β : Type} {R : α → α → Prop} :
    ∀ {l₁ : List α} (l₂ : List β), l₁.Pairwise R → (l₁.zip l₂).Pairwise (fun a b => R a.1 b.1)
  | [], _, _ => by simp
  | _ :: _, [], _ => by simp
  | x :: xs, y :: ys, h => by
    have h' := List.pairwise_cons.mp h
    simp only [List.zip_cons_cons, List.pairwise_cons]
    exact ⟨fun a ha => h'.1 a.1 (List.of_mem_zip (a := a.1) (b := a.2) ha).1, pairwise_zip_left ys h'.2⟩

theorem pairwise_zip_right {α β : Type} {R : β → β → Prop} :
    ∀ (l₁ : List α) {l₂ : List β}, l₂.Pairwise R → (l₁.zip l₂).Pairwise (fun a b => R a.2 b.2)
  | [], _, _ => by simp
  | _ :: _, [], _ => by simp
  | x :: xs, y :: ys, h => by
    have h' := List.pairwise_cons.mp h
    simp only [List.zip_cons_cons, List.pairwise_cons]
    exact ⟨fun a ha => h'.1 a.2 (List.of_mem_zip (a := a.1) (b := a.2) ha).2, pairwise_zip_right xs h'.2⟩

/-- a well-formed source project: distinct ids, every job directory holds its state point file
    (whose value hashes to the id), files have non-empty relative names -/
structure WF (hash : JVal → String) (P : Project) : Prop where
  ids : (P.map (·.id)).Nodup
  sp : ∀ j ∈ P, ∃ v, lookupFile [fnSp] j.files = some (.sp v) ∧ hash v = j.id
  nonempty : ∀ j ∈ P, ∀ fc ∈ j.files, fc.1 ≠ []

/-- no job holds a nested file called `signac_statepoint.json` -/
def NoNestedSp (P : Project) : Prop :=
  ∀ j ∈ P, ∀ fc ∈ j.files, ∀ g, fc.1 = g ++ [fnSp] → g = []

/-- same jobs (id, state point file, document file, every other file), no id twice -/
def ProjEquiv (P' P : Project) : Prop := (∀ j, j ∈ P' ↔ j ∈ P) ∧ (P'.map (·.id)).Nodup

theorem goodExport_of {hash : JVal → String} {P : Project} {ds : List Comps}
    (hwf : WF hash P) (hnn : NoNestedSp P) (hpf : PrefixFree ds) : GoodExport hash (P.zip ds) where
  ids := by
    have : P.Pairwise (fun a b => a.id ≠ b.id) := by
      have := hwf.ids
      unfold List.Nodup at this
      rwa [List.pairwise_map] at this
    exact pairwise_zip_left ds this
  pf := pairwise_zip_right P hpf
  sp := fun e he => hwf.sp e.1 (List.of_mem_zip (a := e.1) (b := e.2) he).1
  nonempty := fun e he => hwf.nonempty e.1 (List.of_mem_zip (a := e.1) (b := e.2) he).1
  nonested := fun e he => hnn e.1 (List.of_mem_zip (a := e.1) (b := e.2) he).1

/-- no job holds an empty sub-directory (zip archives written by signac do not store them, F-16e) -/
def NoEmptyDirs (P : Project) : Prop := ∀ j ∈ P, ∀ fc ∈ j.files, isDirEntry fc.2 = false

theorem zipMembers_eq {P : Project} (ds : List Comps) (h : NoEmptyDirs P) :
    zipMembers P ds = exportMembers P ds := by
  unfold zipMembers
  rw [List.filter_eq_self]
  intro fc hfc
  rcases members_path (E := P.zip ds) hfc with ⟨e, he, f, c, hf, rfl⟩
  have := h e.1 (List.of_mem_zip (a := e.1) (b := e.2) he).1 (f, c) hf
  simp only at this
  simp [this]

theorem zip_fst_eq {P : Project} {ds : List Comps} (hlen : P.length = ds.length) :
    (P.zip ds).map (·.1) = P := by
  have := List.map_fst_zip (l₁ := P) (l₂ := ds) (by omega)
  simpa using this

end Signac.IE

/- Helper lemmas for the string-typed discovery layer (Signac/DiscoveryS.lean): refinement of the
   numeric model under `Denotes`, refusal of every string that `int()` does not read as the
   supported version, and what an accepted project's config looks like.  Property theorems:
   end of Signac/Properties/C20.lean (and C19.lean). -/
import Signac.DiscoveryS
import Signac.Proofs.MigGate
import Signac.Proofs.PyIntLemmas
namespace Signac.DiscS
open Signac Signac.Disc Signac.PyInt

/-! ### denotation, pointwise -/

theorem CfgDen.isSome_eq {c : Option (Option String)} {d : Option (Option Nat)} (h : CfgDen c d) :
    c.isSome = d.isSome := by
  rcases c with _ | _ | s <;> rcases d with _ | _ | n <;> simp_all [CfgDen]

theorem CfgDen.unique {c : Option (Option String)} {d d' : Option (Option Nat)}
    (h : CfgDen c d) (h' : CfgDen c d') : d = d' := by
  rcases c with _ | _ | s <;> rcases d with _ | _ | n <;> rcases d' with _ | _ | n' <;>
    simp_all [CfgDen]

theorem RcDen.unique {c : Option (Option String)} {d d' : Option Nat}
    (h : RcDen c d) (h' : RcDen c d') : d = d' := by
  rcases c with _ | _ | s <;> rcases d with _ | n <;> rcases d' with _ | n' <;>
    simp_all [RcDen]

theorem gateStr_one :
    gateStr "1" = (match Mig.gate 1 with | .ok => .ok | .incompatible => .incompatible) :=
  gateStr_of_declared "1" 1 (by decide)

theorem CfgDen.gate {v : Option String} {w : Option Nat} (h : CfgDen (some v) (some w)) :
    gateStr (v.getD "1") =
      (match Mig.gate (w.getD 1) with | .ok => .ok | .incompatible => .incompatible) := by
  rcases v with _ | s <;> rcases w with _ | n
  · exact gateStr_one
  · simp [CfgDen] at h
  · simp [CfgDen] at h
  · simp only [CfgDen] at h
    exact gateStr_of_declared s n h

theorem legacyVersion_of_den {v : Option String} {n : Nat} (h : RcDen (some v) (some n)) :
    legacyVersion v = some (Int.ofNat n) := by
  rcases v with _ | s
  · simp only [RcDen] at h; subst h; rfl
  · simp only [RcDen] at h
    exact (declared_eq_some s n).mp h

/-! ### refinement: under `Denotes` every function is the numeric one -/

section refine
variable {ts : TreeS} {t : Tree}

theorem isProjectS_eq (h : Denotes ts t) (p : Path) : isProjectS ts p = isProject t p :=
  (h.cfg p).isSome_eq

theorem hasWorkspaceS_eq (h : Denotes ts t) (p : Path) : hasWorkspaceS ts p = hasWorkspace t p := by
  simp only [hasWorkspaceS, hasWorkspace, h.kind]

theorem findProjectS_eq (h : Denotes ts t) : ∀ p, findProjectS ts p = findProject t p
  | [] => by simp only [findProjectS, findProject, isProjectS_eq h]
  | c :: rest => by
    simp only [findProjectS, findProject, isProjectS_eq h, findProjectS_eq h rest]

theorem olderErrS_eq (h : Denotes ts t) (p : Path) :
    olderErrS ts p = (olderErr t p).map ErrS.base := by
  have hr := h.rc p
  unfold olderErrS olderErr Mig.raiseIfOlder
  rcases hs : ts.rcS p with _ | v <;> rcases hn : t.rc p with _ | n <;> rw [hs, hn] at hr
  · rfl
  · simp [RcDen] at hr
  · rcases v with _ | s <;> simp [RcDen] at hr
  · simp only [legacyVersion_of_den hr]
    by_cases e : n = Mig.SCHEMA
    · subst e; simp
    · have : ¬ ((n : Int) = (Mig.SCHEMA : Int)) := fun h' => e (Int.ofNat.inj h')
      simp [e, this]

theorem findOlderS_eq (h : Denotes ts t) : ∀ p, findOlderS ts p = (findOlder t p).map ErrS.base
  | [] => by simp only [findOlderS, findOlder, olderErrS_eq h]
  | c :: rest => by
    simp only [findOlderS, findOlder, olderErrS_eq h, findOlderS_eq h rest]
    cases olderErr t (c :: rest) <;> rfl

theorem locateConfigDirS_eq (h : Denotes ts t) (p : Path) :
    locateConfigDirS ts p = liftE (locateConfigDir t p) := by
  unfold locateConfigDirS locateConfigDir
  rw [findProjectS_eq h, findOlderS_eq h]
  cases findProject t p with
  | some q => rfl
  | none => cases findOlder t p <;> rfl

theorem openProjectS_eq (h : Denotes ts t) (p : Path) :
    openProjectS ts p = liftR (openProject t p) := by
  have hc := h.cfg p
  unfold openProjectS openProject
  rw [olderErrS_eq h, hasWorkspaceS_eq h]
  rcases hs : ts.cfgS p with _ | v <;> rcases hn : t.cfg p with _ | w <;> rw [hs, hn] at hc
  · cases olderErr t p <;> rfl
  · simp [CfgDen] at hc
  · rcases v with _ | s <;> simp [CfgDen] at hc
  · simp only [hc.gate]
    cases Mig.gate (w.getD 1) with
    | ok => by_cases hw : hasWorkspace t p = true <;> simp [hw, liftR, liftE]
    | incompatible => simp [liftR, liftE]

theorem getProjectFromS_eq (h : Denotes ts t) (p : Path) :
    getProjectFromS ts p = liftR (getProjectFrom t p) := by
  unfold getProjectFromS getProjectFrom
  rw [locateConfigDirS_eq h]
  rcases locateConfigDir t p with e | _ | q
  · rfl
  · rfl
  · exact openProjectS_eq h q

theorem getProjectS_eq (h : Denotes ts t) (p : Path) (s : Bool) :
    getProjectS ts p s = liftR (getProject t p s) := by
  unfold getProjectS getProject
  rw [h.kind, isProjectS_eq h, getProjectFromS_eq h]
  split
  · rfl
  · split <;> rfl

theorem getJobS_eq (h : Denotes ts t) (p : Path) : getJobS ts p = liftR (getJob t p) := by
  unfold getJobS getJob
  rw [h.kind]
  split
  · rfl
  · cases lastJob p with
    | none => rfl
    | some jp =>
      obtain ⟨jid, jp⟩ := jp
      simp only [h.kind, getProjectFromS_eq h]
      split
      · rcases getProjectFrom t jp.tail with ⟨r, s⟩
        cases r <;> rfl
      · rfl

theorem mkdirPS_eq (h : Denotes ts t) : ∀ p, mkdirPS ts p = mkdirP t p
  | [] => rfl
  | c :: rest => by simp only [mkdirPS, mkdirP, h.kind, mkdirPS_eq h rest]

theorem denotes_afterInit (h : Denotes ts t) (p : Path) :
    Denotes (afterInitS ts p) (afterInit t p) where
  kind := fun x => by simp only [afterInitS, afterInit, h.kind]
  cfg := fun x => by
    simp only [afterInitS, afterInit]
    split
    · simp only [CfgDen]; exact declared_toString _
    · exact h.cfg x
  rc := h.rc

theorem initProjectS_eq (h : Denotes ts t) (p : Path) :
    initProjectS ts p = liftR (initProject t p) := by
  unfold initProjectS initProject
  rw [getProjectS_eq h, olderErrS_eq h, mkdirPS_eq h, getProjectS_eq (denotes_afterInit h p)]
  rcases getProject t p false with ⟨r, s⟩
  rcases r with e | q
  · cases e with
    | lookup =>
      simp only [liftR, liftE]
      cases olderErr t p with
      | some e => rfl
      | none => rfl
    | incompatible => rfl
    | assertion => rfl
  · rfl

end refine

/-! ### which string trees denote a numeric tree -/

theorem denotes_toTree (ts : TreeS) (h : IntLiterals ts) : Denotes ts ts.toTree where
  kind := fun _ => rfl
  cfg := fun p => by
    simp only [TreeS.toTree]
    rcases hc : ts.cfgS p with _ | _ | s
    · simp [CfgDen]
    · simp [CfgDen]
    · have := h.1 p s hc
      cases hd : declared s with
      | none => rw [hd] at this; cases this
      | some n => simp [CfgDen, hd]
  rc := fun p => by
    simp only [TreeS.toTree]
    rcases hc : ts.rcS p with _ | _ | s
    · simp [RcDen]
    · simp [RcDen]
    · have := h.2 p s hc
      cases hd : declared s with
      | none => rw [hd] at this; cases this
      | some n => simp [RcDen, hd]

theorem intLiterals_of_denotes {ts : TreeS} {t : Tree} (h : Denotes ts t) : IntLiterals ts := by
  constructor
  · intro p s hc
    have := h.cfg p
    rw [hc] at this
    rcases hn : t.cfg p with _ | _ | n <;> rw [hn] at this <;> simp_all [CfgDen]
  · intro p s hc
    have := h.rc p
    rw [hc] at this
    rcases hn : t.rc p with _ | n <;> rw [hn] at this <;> simp_all [RcDen]

theorem denotes_ofTree (t : Tree) : Denotes (ofTree t) t where
  kind := fun _ => rfl
  cfg := fun p => by
    simp only [ofTree]
    rcases t.cfg p with _ | _ | n
    · simp [CfgDen]
    · simp [CfgDen]
    · simp only [Option.map_some, CfgDen]; exact declared_toString n
  rc := fun p => by
    simp only [ofTree]
    rcases t.rc p with _ | n
    · simp [RcDen]
    · simp only [Option.map_some, RcDen]; exact declared_toString n

/-- the numeric tree is determined by the string tree -/
theorem denotes_unique {ts : TreeS} {t t' : Tree} (h : Denotes ts t) (h' : Denotes ts t') : t = t' := by
  have hk : t.kind = t'.kind := funext fun p => by rw [← h.kind, ← h'.kind]
  have hc : t.cfg = t'.cfg := funext fun p => (h.cfg p).unique (h'.cfg p)
  have hr : t.rc = t'.rc := funext fun p => (h.rc p).unique (h'.rc p)
  cases t; cases t'; simp_all

/-! ### every string tree: the upward search -/

/-- `q` is the nearest project at or above `p` -/
def NearestS (ts : TreeS) (p q : Path) : Prop :=
  q <:+ p ∧ isProjectS ts q = true ∧ ∀ r, r <:+ p → isProjectS ts r = true → r <:+ q

theorem isProject_toTree (ts : TreeS) (p : Path) : isProject ts.toTree p = isProjectS ts p := by
  simp [isProject, isProjectS, TreeS.toTree]

theorem findProjectS_toTree (ts : TreeS) : ∀ p, findProjectS ts p = findProject ts.toTree p
  | [] => by simp only [findProjectS, findProject, isProject_toTree]
  | c :: rest => by
    simp only [findProjectS, findProject, isProject_toTree, findProjectS_toTree ts rest]

theorem findProjectS_nearest (ts : TreeS) (p q : Path) :
    findProjectS ts p = some q ↔ NearestS ts p q := by
  rw [findProjectS_toTree, findProject_nearest]
  simp only [Nearest, NearestS, isProject_toTree]

theorem findProjectS_self {ts : TreeS} {p : Path} (h : isProjectS ts p = true) :
    findProjectS ts p = some p := by
  cases p <;> simp [findProjectS, h]

theorem nearestS_self {ts : TreeS} {p : Path} (h : isProjectS ts p = true) : NearestS ts p p :=
  (findProjectS_nearest ts p p).mp (findProjectS_self h)

/-! ### every string tree: refusal -/

/-- what `_check_schema_compatibility` raises on a string that `int()` does not read as the
    supported version: ValueError if it is no integer literal, else IncompatibleSchemaVersion -/
def refusal (s : String) : ErrS := if pyInt s = none then .valueError else .base .incompatible

theorem refusal_ne_lookup (s : String) : refusal s ≠ .base .lookup := by
  unfold refusal; split <;> simp

theorem openProjectS_refused (ts : TreeS) (p : Path) (v : Option String)
    (hc : ts.cfgS p = some v) (hv : pyInt (v.getD "1") ≠ some (Mig.SCHEMA : Int)) :
    openProjectS ts p = (.error (refusal (v.getD "1")), []) := by
  unfold openProjectS refusal
  rw [hc]
  simp only []
  cases hg : gateStr (v.getD "1") with
  | ok => exact absurd ((gateStr_ok_iff _).mp hg) hv
  | incompatible =>
    have : pyInt (v.getD "1") ≠ none := by
      intro hn; unfold gateStr at hg; rw [hn] at hg; cases hg
    simp [this]
  | valueError =>
    have : pyInt (v.getD "1") = none := by
      unfold gateStr at hg
      cases hp : pyInt (v.getD "1") with
      | none => rfl
      | some n =>
        rw [hp] at hg
        simp only [] at hg
        split at hg
        · cases hg
        · split at hg <;> cases hg
    simp [this]

/-- the upward search from `p'` stops at the nearest project `p`, and that one is refused -/
theorem getProjectFromS_refused (ts : TreeS) (p' p : Path) (v : Option String)
    (hn : NearestS ts p' p) (hc : ts.cfgS p = some v)
    (hv : pyInt (v.getD "1") ≠ some (Mig.SCHEMA : Int)) :
    getProjectFromS ts p' = (.error (refusal (v.getD "1")), []) := by
  unfold getProjectFromS locateConfigDirS
  rw [(findProjectS_nearest ts p' p).mpr hn]
  exact openProjectS_refused ts p v hc hv

theorem getProjectS_refused_below (ts : TreeS) (p' p : Path) (v : Option String)
    (hn : NearestS ts p' p) (hc : ts.cfgS p = some v)
    (hv : pyInt (v.getD "1") ≠ some (Mig.SCHEMA : Int)) (hk : ts.kind p' ≠ .absent) :
    getProjectS ts p' true = (.error (refusal (v.getD "1")), []) := by
  unfold getProjectS
  simp [hk, getProjectFromS_refused ts p' p v hn hc hv]

theorem getProjectS_refused (ts : TreeS) (p : Path) (v : Option String)
    (hc : ts.cfgS p = some v) (hv : pyInt (v.getD "1") ≠ some (Mig.SCHEMA : Int))
    (hk : ts.kind p ≠ .absent) (s : Bool) :
    getProjectS ts p s = (.error (refusal (v.getD "1")), []) := by
  have hp : isProjectS ts p = true := by simp [isProjectS, hc]
  unfold getProjectS
  simp [hk, hp, getProjectFromS_refused ts p p v (nearestS_self hp) hc hv]

theorem initProjectS_refused (ts : TreeS) (p : Path) (v : Option String)
    (hc : ts.cfgS p = some v) (hv : pyInt (v.getD "1") ≠ some (Mig.SCHEMA : Int))
    (hk : ts.kind p ≠ .absent) :
    initProjectS ts p = (.error (refusal (v.getD "1")), []) := by
  unfold initProjectS
  rw [getProjectS_refused ts p v hc hv hk false]
  unfold refusal
  by_cases hn : pyInt (v.getD "1") = none
  · simp only [hn, if_true]
  · simp only [hn, if_false]

/-- `get_job` of a path whose innermost id-named component is a directory the nearest project
    above which is refused -/
theorem getJobS_refused (ts : TreeS) (p' p jp : Path) (j : String) (v : Option String)
    (hk : ts.kind p' ≠ .absent) (hl : lastJob p' = some (j, jp)) (hd : ts.kind jp = .dir)
    (hn : NearestS ts jp.tail p) (hc : ts.cfgS p = some v)
    (hv : pyInt (v.getD "1") ≠ some (Mig.SCHEMA : Int)) :
    getJobS ts p' = (.error (refusal (v.getD "1")), []) := by
  unfold getJobS
  simp [hk, hl, hd, getProjectFromS_refused ts jp.tail p v hn hc hv]

/-! ### every string tree: what is accepted -/

/-- the config of `q` declares a string that `int()` reads as the supported version -/
def Accepted (ts : TreeS) (q : Path) : Prop :=
  ∃ s, ts.cfgS q = some (some s) ∧ pyInt s = some (Mig.SCHEMA : Int)

/-- an absent key stands for "1", which is not the supported version (SCHEMA = 2) -/
theorem default_refused : pyInt "1" ≠ some (Mig.SCHEMA : Int) := by decide

theorem openProjectS_ok_iff (ts : TreeS) (p q : Path) :
    (openProjectS ts p).1 = .ok q ↔ q = p ∧ Accepted ts p := by
  constructor
  · intro h
    cases hc : ts.cfgS p with
    | none =>
      unfold openProjectS at h
      rw [hc] at h
      simp only [] at h
      cases ho : olderErrS ts p <;> rw [ho] at h <;> cases h
    | some v =>
      by_cases hv : pyInt (v.getD "1") = some (Mig.SCHEMA : Int)
      · cases v with
        | none => exact absurd hv default_refused
        | some s =>
          refine ⟨?_, s, hc, hv⟩
          unfold openProjectS at h
          simp only [Option.getD_some] at hv
          rw [hc] at h
          simp only [Option.getD_some, (gateStr_ok_iff _).mpr hv] at h
          split at h <;> cases h <;> rfl
      · rw [openProjectS_refused ts p v hc hv] at h; cases h
  · intro ⟨hq, s, hc, hv⟩
    subst hq
    unfold openProjectS
    rw [hc]
    simp only [Option.getD_some, (gateStr_ok_iff _).mpr hv]
    split <;> rfl

theorem getProjectFromS_ok_iff (ts : TreeS) (p q : Path) :
    (getProjectFromS ts p).1 = .ok q ↔ NearestS ts p q ∧ Accepted ts q := by
  unfold getProjectFromS locateConfigDirS
  rw [← findProjectS_nearest]
  cases hf : findProjectS ts p with
  | some q' =>
    simp only [openProjectS_ok_iff, Option.some.injEq]
    constructor
    · intro ⟨h1, h2⟩; subst h1; exact ⟨rfl, h2⟩
    · intro ⟨h1, h2⟩; subst h1; exact ⟨rfl, h2⟩
  | none => cases findOlderS ts p <;> simp

theorem getProjectS_search_ok_iff (ts : TreeS) (p q : Path) :
    (getProjectS ts p true).1 = .ok q ↔ ts.kind p ≠ .absent ∧ NearestS ts p q ∧ Accepted ts q := by
  unfold getProjectS
  by_cases hk : ts.kind p = .absent
  · simp [hk]
  · simp [hk, getProjectFromS_ok_iff]

theorem getProjectS_nosearch_ok_iff (ts : TreeS) (p q : Path) :
    (getProjectS ts p false).1 = .ok q ↔
      q = p ∧ ts.kind p ≠ .absent ∧ isProjectS ts p = true ∧ Accepted ts p := by
  unfold getProjectS
  by_cases hk : ts.kind p = .absent
  · simp [hk]
  · by_cases hp : isProjectS ts p = true
    · simp only [hk, if_false, hp, Bool.not_false, Bool.not_true, Bool.and_false, Bool.false_eq_true]
      rw [getProjectFromS_ok_iff]
      constructor
      · intro ⟨hn, ha⟩
        have : q = p := by
          have h1 := (findProjectS_nearest ts p q).mpr hn
          rw [findProjectS_self hp] at h1; cases h1; rfl
        subst this
        exact ⟨rfl, hk, trivial, ha⟩
      · intro ⟨h1, _, _, ha⟩
        subst h1
        exact ⟨nearestS_self hp, ha⟩
    · have hp' : isProjectS ts p = false := by simpa using hp
      simp [hk, hp']

theorem getProjectS_accepts (ts : TreeS) (p q : Path) (s : Bool)
    (h : (getProjectS ts p s).1 = .ok q) : q <:+ p ∧ Accepted ts q := by
  cases s
  · have := (getProjectS_nosearch_ok_iff ts p q).mp h
    rw [this.1]; exact ⟨List.suffix_refl _, this.2.2.2⟩
  · have := (getProjectS_search_ok_iff ts p q).mp h
    exact ⟨this.2.1.1, this.2.2⟩

theorem getJobS_accepts (ts : TreeS) (p : Path) (j : String) (q : Path)
    (h : (getJobS ts p).1 = .ok (j, q)) : Accepted ts q := by
  unfold getJobS at h
  split at h
  · cases h
  · split at h
    · cases h
    · split at h
      · split at h
        · rename_i q' s' hq
          simp only [Except.ok.injEq, Prod.mk.injEq] at h
          rename_i jp _ _ _
          have h' : (getProjectFromS ts jp.tail).1 = .ok q' := by rw [hq]
          rw [h.2] at h'
          exact ((getProjectFromS_ok_iff ts _ q).mp h').2
        · cases h
      · cases h

/-- `init_project` returns `p` itself, and either its config was there and is accepted, or the
    config has been written by this very call (with `str(SCHEMA_VERSION)`). -/
theorem initProjectS_accepts (ts : TreeS) (p q : Path) (h : (initProjectS ts p).1 = .ok q) :
    q = p ∧ (Accepted ts p ∨ Step.writeConfig p ∈ (initProjectS ts p).2) := by
  unfold initProjectS at h ⊢
  rcases hgp : getProjectS ts p false with ⟨r, s⟩
  rw [hgp] at h
  rcases r with e | q'
  · cases e with
    | valueError => cases h
    | base e =>
      cases e with
      | incompatible => cases h
      | assertion => cases h
      | lookup =>
        simp only [] at h ⊢
        cases ho : olderErrS ts p with
        | some e => rw [ho] at h; cases h
        | none =>
          rw [ho] at h
          simp only [] at h ⊢
          have hp : isProjectS (afterInitS ts p) p = true := by simp [isProjectS, afterInitS]
          have hn := ((getProjectS_search_ok_iff (afterInitS ts p) p q).mp h).2.1
          have hq : q = p := by
            have h1 := (findProjectS_nearest _ p q).mpr hn
            rw [findProjectS_self hp] at h1; cases h1; rfl
          exact ⟨hq, Or.inr (by simp)⟩
  · simp only [Except.ok.injEq] at h
    subst h
    have h' : (getProjectS ts p false).1 = .ok q' := by rw [hgp]
    have := (getProjectS_nosearch_ok_iff ts p q').mp h'
    exact ⟨this.1, Or.inl this.2.2.2⟩

/-! ### transfer of `ok` results, listed trees -/

theorem liftE_ok_iff {α : Type} (r : Except Err α) (a : α) : liftE r = .ok a ↔ r = .ok a := by
  cases r <;> simp [liftE]

theorem liftE_base_iff {α : Type} (r : Except Err α) (e : Err) :
    liftE r = .error (.base e) ↔ r = .error e := by
  cases r <;> simp [liftE]

/-- a numeric result never turns into a ValueError -/
theorem liftE_ne_valueError {α : Type} (r : Except Err α) : liftE r ≠ .error .valueError := by
  cases r <;> simp [liftE]

def litOk : Option (Option String) → Bool
  | some (some s) => (declared s).isSome
  | _ => true

/-- a decidable sufficient condition for `IntLiterals` on a listed tree -/
theorem intLiterals_ofNodes (ns : List NodeS)
    (h : ns.all (fun n => litOk n.cfgS && litOk n.rcS) = true) : IntLiterals (TreeS.ofNodes ns) := by
  have key : ∀ p n, findNodeS ns p = some n → litOk n.cfgS = true ∧ litOk n.rcS = true := by
    intro p n hf
    have := (List.all_eq_true.mp h) n (List.mem_of_find?_eq_some hf)
    simpa using this
  constructor
  · intro p s hc
    simp only [TreeS.ofNodes] at hc
    cases hf : findNodeS ns p with
    | none => rw [hf] at hc; cases hc
    | some n =>
      rw [hf] at hc
      simp only [] at hc
      have := (key p n hf).1
      rw [hc] at this; exact this
  · intro p s hc
    simp only [TreeS.ofNodes] at hc
    cases hf : findNodeS ns p with
    | none => rw [hf] at hc; cases hc
    | some n =>
      rw [hf] at hc
      simp only [] at hc
      have := (key p n hf).2
      rw [hc] at this; exact this

end Signac.DiscS

/-
  Helper lemmas for the sync model: association-list directories, path operations,
  and the refinement "replaying the logged steps gives the result".  Core only.
-/
import Signac.Sync
namespace Signac.Sync

/-! ### getE / setE / delE -/

theorem getE_setE_same (n : Name) (c : Node) (es : Entries) : getE n (setE n c es) = some c := by
  induction es with
  | nil => simp [setE, getE]
  | cons hd tl ih =>
    obtain ⟨k, v⟩ := hd
    by_cases h : k = n
    · simp [setE, getE, h]
    · simp [setE, getE, h, ih]

theorem getE_setE_other {m n : Name} (h : m ≠ n) (c : Node) (es : Entries) :
    getE m (setE n c es) = getE m es := by
  induction es with
  | nil => simp [setE, getE, Ne.symm h]
  | cons hd tl ih =>
    obtain ⟨k, v⟩ := hd
    by_cases hk : k = n
    · subst hk
      simp [setE, getE, Ne.symm h]
    · by_cases hm : k = m
      · subst hm
        simp [setE, getE, hk]
      · simp [setE, getE, hk, hm, ih]

theorem getE_setE (m n : Name) (c : Node) (es : Entries) :
    getE m (setE n c es) = if m = n then some c else getE m es := by
  by_cases h : m = n
  · subst h; simp [getE_setE_same]
  · simp [h, getE_setE_other h]

theorem setE_getE {n : Name} {c : Node} {es : Entries} (h : getE n es = some c) : setE n c es = es := by
  induction es with
  | nil => simp [getE] at h
  | cons hd tl ih =>
    obtain ⟨k, v⟩ := hd
    by_cases hk : k = n
    · subst hk
      simp [getE] at h
      simp [setE, h]
    · simp [getE, hk] at h
      simp [setE, hk, ih h]

theorem setE_setE (n : Name) (c c' : Node) (es : Entries) : setE n c (setE n c' es) = setE n c es := by
  induction es with
  | nil => simp [setE]
  | cons hd tl ih =>
    obtain ⟨k, v⟩ := hd
    by_cases hk : k = n
    · simp [setE, hk]
    · simp [setE, hk, ih]

theorem getE_delE_same (n : Name) (es : Entries) : getE n (delE n es) = none := by
  induction es with
  | nil => simp [delE, getE]
  | cons hd tl ih =>
    obtain ⟨k, v⟩ := hd
    by_cases hk : k = n
    · simp [delE, hk, ih]
    · simp [delE, getE, hk, ih]

theorem getE_delE_other {m n : Name} (h : m ≠ n) (es : Entries) : getE m (delE n es) = getE m es := by
  induction es with
  | nil => simp [delE]
  | cons hd tl ih =>
    obtain ⟨k, v⟩ := hd
    by_cases hk : k = n
    · subst hk
      simp [delE, getE, Ne.symm h, ih]
    · by_cases hm : k = m
      · subst hm
        simp [delE, getE, hk]
      · simp [delE, getE, hk, hm, ih]

theorem delE_absent {n : Name} {es : Entries} (h : getE n es = none) : delE n es = es := by
  induction es with
  | nil => simp [delE]
  | cons hd tl ih =>
    obtain ⟨k, v⟩ := hd
    by_cases hk : k = n
    · simp [getE, hk] at h
    · simp [getE, hk] at h
      simp [delE, hk, ih h]

theorem delE_setE_absent {n : Name} {es : Entries} (c : Node) (h : getE n es = none) :
    delE n (setE n c es) = es := by
  induction es with
  | nil => simp [setE, delE]
  | cons hd tl ih =>
    obtain ⟨k, v⟩ := hd
    by_cases hk : k = n
    · simp [getE, hk] at h
    · simp [getE, hk] at h
      simp [setE, delE, hk, ih h]

/-! ### steps under a directory -/

theorem apply_under {n : Name} {es ch : Entries} (h : getE n es = some (.dir ch)) (s : Step) :
    Step.apply es (s.under n) = setE n (.dir (Step.apply ch s)) es := by
  cases s with
  | put m p c => simp [Step.under, Step.apply, putP, h]
  | del m p => simp [Step.under, Step.apply, delP, h]

theorem applyAll_under (n : Name) (ss : List Step) :
    ∀ (es ch : Entries), getE n es = some (.dir ch) →
      applyAll es (ss.map (Step.under n)) = setE n (.dir (applyAll ch ss)) es := by
  induction ss with
  | nil => intro es ch h; simp [applyAll, setE_getE h]
  | cons s tl ih =>
    intro es ch h
    simp only [applyAll, List.map, List.foldl] at *
    rw [apply_under h s]
    rw [ih (setE n (.dir (Step.apply ch s)) es) (Step.apply ch s) (getE_setE_same _ _ _)]
    rw [setE_setE]

theorem applyAll_append (es : Entries) (a b : List Step) :
    applyAll es (a ++ b) = applyAll (applyAll es a) b := by
  simp [applyAll, List.foldl_append]

/-! ### refinement: the log replays to the result -/

/-- the accumulator's directory is what its log makes of `a0` -/
def Refines (a0 : Entries) (a : Acc) : Prop := applyAll a0 a.log = a.d

theorem refines_pPut {a0 : Entries} {a : Acc} (h : Refines a0 a) (dry : Bool) (n : Name) (c : Node) :
    Refines a0 (pPut dry n c a) := by
  unfold pPut
  split
  · exact h
  · simp only [Refines] at *
    rw [applyAll_append, h]
    simp [applyAll, Step.apply, putP]

theorem refines_pDel {a0 : Entries} {a : Acc} (h : Refines a0 a) (dry : Bool) (n : Name) :
    Refines a0 (pDel dry n a) := by
  unfold pDel
  split
  · exact h
  · simp only [Refines] at *
    rw [applyAll_append, h]
    simp [applyAll, Step.apply, delP]

theorem refines_phase1 (o : Opts) (dst0 a0 : Entries) (l : Entries) :
    ∀ a, Refines a0 a → Refines a0 (phase1 o dst0 l a) := by
  induction l with
  | nil => intro a h; simpa [phase1] using h
  | cons hd tl ih =>
    intro a h
    obtain ⟨n, sn⟩ := hd
    simp only [phase1]
    split
    · exact ih a h
    · split
      · exact ih _ (refines_pPut h _ _ _)
      · exact ih a h

theorem refines_phase2 (o : Opts) (sub : Path) (dst0 a0 : Entries) (l : Entries) :
    ∀ a, Refines a0 a → Refines a0 (phase2 o sub dst0 l a).1 := by
  induction l with
  | nil => intro a h; simpa [phase2] using h
  | cons hd tl ih =>
    intro a h
    obtain ⟨n, sn⟩ := hd
    simp only [phase2]
    split
    · split
      · split
        · exact h
        · exact ih _ (refines_pPut h _ _ _)
        · exact ih a h
      · exact ih a h
    · exact ih a h

mutual
  theorem walkDir_refines (o : Opts) (sub : Path) : (sn : Node) → (des : Entries) →
      applyAll des (walkDir o sub sn des).log = (walkDir o sub sn des).d
    | .file _, des => by simp [walkDir, applyAll]
    | .dir ses, des => by
      have h1 : Refines des (phase1 o des ses ⟨des, []⟩) :=
        refines_phase1 o des des ses _ (by simp [Refines, applyAll])
      have h2 := refines_phase2 o sub des des ses _ h1
      simp only [walkDir]
      split
      · exact h2
      · split
        · exact walkSubs_refines o sub des des ses _ h2
        · exact h2
  theorem walkSubs_refines (o : Opts) (sub : Path) (dst0 a0 : Entries) : (l : List (Name × Node)) →
      (a : Acc) → Refines a0 a →
      applyAll a0 (walkSubs o sub dst0 l a).log = (walkSubs o sub dst0 l a).d
    | [], a, h => by simpa [walkSubs, Refines] using h
    | (n, .file m) :: tl, a, h => by
      simp only [walkSubs]
      exact walkSubs_refines o sub dst0 a0 tl a h
    | (n, .dir ses) :: tl, a, h => by
      simp only [walkSubs]
      split
      · rename_i dch _ _ hd
        have hr := walkDir_refines o (sub ++ [n]) (.dir ses) dch
        have h' : Refines a0 ⟨setE n (.dir (walkDir o (sub ++ [n]) (.dir ses) dch).d) a.d,
            a.log ++ (walkDir o (sub ++ [n]) (.dir ses) dch).log.map (Step.under n)⟩ := by
          simp only [Refines] at *
          rw [applyAll_append, h, applyAll_under n _ a.d _ hd, hr]
        split
        · exact h'
        · exact walkSubs_refines o sub dst0 a0 tl _ h'
      · exact walkSubs_refines o sub dst0 a0 tl a h
end

theorem refines_mk {a0 d : Entries} {log : List Step} (h : applyAll a0 log = d) : Refines a0 ⟨d, log⟩ := h

theorem withBackup_refines (o : Opts) (fn : Name) (orig : Node) (r : DocRes) (a0 : Entries) (a : Acc)
    (h : Refines a0 a) : applyAll a0 (withBackup o fn orig r a).log = (withBackup o fn orig r a).d := by
  unfold withBackup
  dsimp only
  split <;> split
  · exact refines_pDel (refines_pPut (refines_pPut (refines_pPut h _ _ _) _ _ _) _ _ _) _ _
  · exact refines_pDel (refines_pPut (refines_pPut h _ _ _) _ _ _) _ _
  · exact refines_pDel (refines_pPut (refines_pPut h _ _ _) _ _ _) _ _
  · exact refines_pDel (refines_pPut h _ _ _) _ _

theorem inMemory_refines (o : Opts) (fn : Name) (d : Doc) (r : DocRes) (a0 : Entries) (a : Acc)
    (h : Refines a0 a) : applyAll a0 (inMemory o fn d r a).log = (inMemory o fn d r a).d := by
  unfold inMemory
  split <;> dsimp only <;> split
  · exact refines_pPut h _ _ _
  · exact h
  · exact refines_pPut h _ _ _
  · exact h

theorem mergeDocs_refines (o : Opts) (ds : DocSync) (fn : Name) (src a0 : Entries) (a : Acc) (h : Refines a0 a) :
    applyAll a0 (mergeDocs o ds fn src a).log = (mergeDocs o ds fn src a).d := by
  unfold mergeDocs
  dsimp only
  split
  · exact h
  · split
    · exact inMemory_refines o fn _ _ a0 a h
    · split
      · exact h
      · split
        · exact h
        · exact withBackup_refines o fn _ _ a0 a h

theorem syncDoc_refines (o : Opts) (fn : Name) (src a0 : Entries) (a : Acc) (h : Refines a0 a) :
    applyAll a0 (syncDoc o fn src a).log = (syncDoc o fn src a).d := by
  unfold syncDoc
  split
  · exact h
  · exact h
  · exact mergeDocs_refines o _ fn src a0 a h

theorem syncJobDirs_refines (o : Opts) (src dst : Entries) :
    applyAll dst (syncJobDirs o src dst).log = (syncJobDirs o src dst).d := by
  have hw := walkDir_refines o [] (.dir src) dst
  unfold syncJobDirs
  dsimp only
  split
  · exact hw
  · exact syncDoc_refines o _ src dst ⟨_, _⟩ hw

theorem map_inJob (id : Name) (ss : List Step) :
    ss.map (Step.inJob id) = (ss.map (Step.under id)).map (Step.under WS) := by
  simp [Step.inJob, List.map_map, Function.comp_def]

theorem applyAll_inJob {id : Name} {root ws djob : Entries} (hw : getE WS root = some (.dir ws))
    (hj : getE id ws = some (.dir djob)) (ss : List Step) :
    applyAll root (ss.map (Step.inJob id)) = setE WS (.dir (setE id (.dir (applyAll djob ss)) ws)) root := by
  rw [map_inJob, applyAll_under WS _ root ws hw, applyAll_under id _ ws djob hj]

theorem syncJobs_refines (o : Opts) (a0 : Entries) (l : List (Name × Node)) :
    ∀ a, Refines a0 a → applyAll a0 (syncJobs o l a).log = (syncJobs o l a).d := by
  induction l with
  | nil => intro a h; simpa [syncJobs, Refines] using h
  | cons hd tl ih =>
    intro a h
    obtain ⟨id, sn⟩ := hd
    cases sn with
    | file m => simp only [syncJobs]; exact ih a h
    | dir sjob =>
      simp only [syncJobs]
      cases hws : getE WS a.d with
      | none => exact ih a h
      | some wsn =>
        cases wsn with
        | file m => exact ih a h
        | dir ws =>
          dsimp only
          split
          · cases hj : getE id ws with
            | none =>
              dsimp only
              split
              · exact ih a h
              · apply ih
                simp only [Refines] at *
                rw [applyAll_append, h]
                simp [applyAll, Step.apply, putP, hws]
            | some dn =>
              cases dn with
              | file m => exact ih a h
              | dir djob =>
                dsimp only
                have h' : Refines a0 ⟨setE WS (.dir (setE id (.dir (syncJobDirs o sjob djob).d) ws)) a.d,
                    a.log ++ (syncJobDirs o sjob djob).log.map (Step.inJob id)⟩ := by
                  simp only [Refines] at *
                  rw [applyAll_append, h, applyAll_inJob hws hj, syncJobDirs_refines]
                split
                · exact h'
                · exact ih _ h'
          · exact ih a h

theorem syncProjects_refines (o : Opts) (src dst : Entries) :
    applyAll dst (syncProjects o src dst).log = (syncProjects o src dst).d := by
  unfold syncProjects
  split
  · simp [applyAll]
  · have hd := syncDoc_refines o Extracted.FN_PROJECT_DOCUMENT src dst ⟨dst, []⟩ (by simp [Refines, applyAll])
    dsimp only
    split
    · exact hd
    · exact syncJobs_refines o dst _ ⟨_, _⟩ hd

theorem syncJobEntry_refines (o : Opts) (s d : Name) (c : Nat) (src dst : Entries) :
    applyAll dst (syncJobEntry o s d c src dst).log = (syncJobEntry o s d c src dst).d := by
  unfold syncJobEntry
  cases hs : getE s (wsOf src) with
  | none => simp [applyAll]
  | some sn =>
    cases sn with
    | file m => simp [applyAll]
    | dir sjob =>
      cases hws : getE WS dst with
      | none => simp [applyAll]
      | some wsn =>
        cases wsn with
        | file m => simp [applyAll]
        | dir ws =>
          dsimp only
          cases hj : getE d ws with
          | none =>
            dsimp only
            split
            · simp [applyAll]
            · have e1 : applyAll dst (Step.put WS [d] (.dir (initJob o.now c)) ::
                  (syncJobDirs o sjob (initJob o.now c)).log.map (Step.inJob d)) =
                  applyAll (setE WS (.dir (setE d (.dir (initJob o.now c)) ws)) dst)
                    ((syncJobDirs o sjob (initJob o.now c)).log.map (Step.inJob d)) := by
                simp [applyAll, Step.apply, putP, hws]
              rw [e1, applyAll_inJob (getE_setE_same _ _ _) (getE_setE_same _ _ _), syncJobDirs_refines,
                setE_setE, setE_setE]
          | some dn =>
            cases dn with
            | file m => simp [applyAll]
            | dir djob =>
              dsimp only
              rw [applyAll_inJob hws hj, syncJobDirs_refines]

/-- every mutation of the model is a logged step on the destination tree -/
theorem run_refines (o : Opts) (e : Entry) (w : World) :
    applyAll w.dst (run o e w).log = (run o e w).d := by
  cases e with
  | project => exact syncProjects_refines o w.src w.dst
  | job s d c => exact syncJobEntry_refines o s d c w.src w.dst

end Signac.Sync

/-
  `Sim a b` — "equal as Python values, apart from the number type of numeric leaves and the
  order of dict entries": the comparison C05 is stated with.  Type-exact in everything else:
  same keys, same list lengths, same strings, `None` only with `None`, numbers only with
  numbers of the same value (`True == 1 == 1.0`).
  Facts: equivalence relation; Python equality `pyEq` on well-formed values (no duplicate
  keys) implies it.
-/
import Signac.Doc
import Mathlib.Tactic.LinearCombination
import Mathlib.Tactic.Ring
import Mathlib.Data.List.Perm.Subperm
namespace Signac.Doc
open Signac

inductive Sim : JVal → JVal → Prop
  | null : Sim .null .null
  | str (s : String) : Sim (.str s) (.str s)
  | num {a b : JVal} {p q : Int × Nat} :
      numVal a = some p → numVal b = some q → numEq p q = true → Sim a b
  | arr {xs ys : List JVal} : xs.length = ys.length →
      (∀ (i : Nat) x y, xs[i]? = some x → ys[i]? = some y → Sim x y) → Sim (.arr xs) (.arr ys)
  | obj {a b : Entries} : (∀ k, lookupKV k a = none ↔ lookupKV k b = none) →
      (∀ k v w, lookupKV k a = some v → lookupKV k b = some w → Sim v w) → Sim (.obj a) (.obj b)

/-! ### numbers -/
theorem numEq_refl (p : Int × Nat) : numEq p p = true := by simp [numEq]

theorem numEq_symm {p q : Int × Nat} (h : numEq p q = true) : numEq q p = true := by
  simp only [numEq, beq_iff_eq] at *; omega

theorem numEq_trans {p q r : Int × Nat} (h1 : numEq p q = true) (h2 : numEq q r = true) :
    numEq p r = true := by
  simp only [numEq, beq_iff_eq] at *
  have hq : (2:Int) ^ q.2 ≠ 0 := pow_ne_zero _ (by decide)
  apply mul_right_cancel₀ hq
  linear_combination (2:Int)^r.2 * h1 + (2:Int)^p.2 * h2

/-! ### reflexivity (structural over the nested value type) -/
mutual
  theorem Sim.refl : (v : JVal) → Sim v v
    | .null => .null
    | .str s => .str s
    | .bool b => .num (p := if b then (1, 0) else (0, 0)) (by cases b <;> rfl) (by cases b <;> rfl) (numEq_refl _)
    | .int i => .num (p := (i, 0)) rfl rfl (numEq_refl _)
    | .flt n e r => .num (p := (n, e)) rfl rfl (numEq_refl _)
    | .arr xs => .arr rfl (fun i x y hx hy => by
        rw [hx] at hy; cases hy; exact Sim.reflList xs i x hx)
    | .obj a => .obj (fun _ => Iff.rfl) (fun k v w hv hw => by
        rw [hv] at hw; cases hw; exact Sim.reflObj a k v hv)
  theorem Sim.reflList : (xs : List JVal) → ∀ (i : Nat) x, xs[i]? = some x → Sim x x
    | [], i, x, h => by simp at h
    | y :: ys, 0, x, h => by
        simp at h; subst h; exact Sim.refl y
    | y :: ys, i+1, x, h => by
        simp at h; exact Sim.reflList ys i x h
  theorem Sim.reflObj : (a : Entries) → ∀ k v, lookupKV k a = some v → Sim v v
    | [], k, v, h => by simp [lookupKV] at h
    | (k', v') :: r, k, v, h => by
        simp only [lookupKV] at h
        split at h
        · cases h; exact Sim.refl v'
        · exact Sim.reflObj r k v h
end

theorem Sim.symm {a b : JVal} (h : Sim a b) : Sim b a := by
  induction h with
  | null => exact .null
  | str s => exact .str s
  | num ha hb he => exact .num hb ha (numEq_symm he)
  | arr hl _ ih => exact .arr hl.symm (fun i x y hx hy => ih i y x hy hx)
  | obj hn _ ih => exact .obj (fun k => (hn k).symm) (fun k v w hv hw => ih k w v hw hv)

theorem Sim.trans {a b c : JVal} (h1 : Sim a b) (h2 : Sim b c) : Sim a c := by
  induction h1 generalizing c with
  | null => exact h2
  | str s => exact h2
  | num ha hb he =>
    cases h2 with
    | null => simp [numVal] at hb
    | str s => simp [numVal] at hb
    | num hb' hc he' =>
      rw [hb] at hb'; cases hb'
      exact .num ha hc (numEq_trans he he')
    | arr _ _ => simp [numVal] at hb
    | obj _ _ => simp [numVal] at hb
  | @arr xs ys hl _ ih =>
    cases h2 with
    | num hb _ _ => simp [numVal] at hb
    | @arr _ zs hl' hz =>
      refine .arr (hl.trans hl') (fun i x z hx hz' => ?_)
      have hi : i < ys.length := by
        have := (List.getElem?_eq_some_iff.mp hx).1; omega
      exact ih i x ys[i] hx (List.getElem?_eq_getElem hi) (hz i _ z (List.getElem?_eq_getElem hi) hz')
  | @obj a b hn _ ih =>
    cases h2 with
    | num hb _ _ => simp [numVal] at hb
    | @obj _ c hn' hc =>
      refine .obj (fun k => (hn k).trans (hn' k)) (fun k v w hv hw => ?_)
      cases hb : lookupKV k b with
      | none => have := (hn k).mpr hb; rw [hv] at this; cases this
      | some u => exact ih k v u hv hb (hc k u w hb hw)

/-! ### shape facts -/
theorem Sim.obj_left {a : Entries} {y : JVal} (h : Sim (.obj a) y) : ∃ b, y = .obj b := by
  cases h with
  | num ha _ _ => simp [numVal] at ha
  | obj _ _ => exact ⟨_, rfl⟩

theorem Sim.obj_right {x : JVal} {b : Entries} (h : Sim x (.obj b)) : ∃ a, x = .obj a :=
  h.symm.obj_left

theorem Sim.arr_left {xs : List JVal} {y : JVal} (h : Sim (.arr xs) y) : ∃ ys, y = .arr ys := by
  cases h with
  | num ha _ _ => simp [numVal] at ha
  | arr _ _ => exact ⟨_, rfl⟩

theorem Sim.obj_inv {a b : Entries} (h : Sim (.obj a) (.obj b)) :
    (∀ k, lookupKV k a = none ↔ lookupKV k b = none) ∧
    (∀ k v w, lookupKV k a = some v → lookupKV k b = some w → Sim v w) := by
  cases h with
  | num ha _ _ => simp [numVal] at ha
  | obj h1 h2 => exact ⟨h1, h2⟩

theorem Sim.arr_inv {xs ys : List JVal} (h : Sim (.arr xs) (.arr ys)) :
    xs.length = ys.length ∧ (∀ (i : Nat) x y, xs[i]? = some x → ys[i]? = some y → Sim x y) := by
  cases h with
  | num ha _ _ => simp [numVal] at ha
  | arr h1 h2 => exact ⟨h1, h2⟩

/-- relation on optional values (results of lookups) -/
def OSim : Option JVal → Option JVal → Prop
  | none, none => True
  | some a, some b => Sim a b
  | _, _ => False

theorem sim_obj_iff {a b : Entries} :
    Sim (.obj a) (.obj b) ↔ ∀ k, OSim (lookupKV k a) (lookupKV k b) := by
  constructor
  · intro h k
    obtain ⟨h1, h2⟩ := h.obj_inv
    cases ha : lookupKV k a with
    | none => rw [(h1 k).mp ha]; trivial
    | some v =>
      cases hb : lookupKV k b with
      | none => have := (h1 k).mpr hb; rw [ha] at this; cases this
      | some w => exact h2 k v w ha hb
  · intro h
    refine .obj (fun k => ?_) (fun k v w hv hw => ?_)
    · have := h k
      cases ha : lookupKV k a <;> cases hb : lookupKV k b <;> simp_all [OSim]
    · have := h k
      rw [hv, hw] at this; exact this

theorem OSim.refl : ∀ x, OSim x x
  | none => trivial
  | some v => Sim.refl v

theorem sim_empty_obj {a : Entries} (h : Sim (.obj a) (.obj [])) : a = [] := by
  cases a with
  | nil => rfl
  | cons hd tl =>
    obtain ⟨k, v⟩ := hd
    have := (h.obj_inv.1 k).mpr rfl
    simp [lookupKV] at this

/-! ### well-formed values: no duplicate keys, at any depth -/
mutual
  def WF : JVal → Prop
    | .obj kvs => (kvs.map Prod.fst).Nodup ∧ WFObj kvs
    | .arr xs => WFList xs
    | .null => True
    | .bool _ => True
    | .int _ => True
    | .flt _ _ _ => True
    | .str _ => True
  def WFList : List JVal → Prop
    | [] => True
    | x :: xs => WF x ∧ WFList xs
  def WFObj : Entries → Prop
    | [] => True
    | (_, v) :: r => WF v ∧ WFObj r
end

theorem wfList_iff {xs : List JVal} : WFList xs ↔ ∀ x ∈ xs, WF x := by
  induction xs with
  | nil => simp [WFList]
  | cons y ys ih => simp [WFList, ih]

theorem wfObj_iff {a : Entries} : WFObj a ↔ ∀ kv ∈ a, WF kv.2 := by
  induction a with
  | nil => simp [WFObj]
  | cons hd tl ih => obtain ⟨k, v⟩ := hd; simp [WFObj, ih]

theorem lookupKV_mem {k : String} {a : Entries} {v : JVal} (h : lookupKV k a = some v) : (k, v) ∈ a := by
  induction a with
  | nil => simp [lookupKV] at h
  | cons hd tl ih =>
    obtain ⟨k', v'⟩ := hd
    simp only [lookupKV] at h
    split at h
    · cases h; subst_vars; simp
    · exact List.mem_cons_of_mem _ (ih h)

theorem lookupKV_of_mem {k : String} {a : Entries} {v : JVal} (hn : (a.map Prod.fst).Nodup)
    (h : (k, v) ∈ a) : lookupKV k a = some v := by
  induction a with
  | nil => simp at h
  | cons hd tl ih =>
    obtain ⟨k', v'⟩ := hd
    simp only [List.map_cons, List.nodup_cons] at hn
    simp only [lookupKV]
    rcases List.mem_cons.mp h with h | h
    · cases h; simp
    · have hk' : k ∈ tl.map Prod.fst := List.mem_map.mpr ⟨(k, v), h, rfl⟩
      split
      · next hk => exact absurd (hk ▸ hk') hn.1
      · exact ih hn.2 h

theorem lookupKV_none_iff {k : String} {a : Entries} : lookupKV k a = none ↔ k ∉ a.map Prod.fst := by
  induction a with
  | nil => simp [lookupKV]
  | cons hd tl ih =>
    obtain ⟨k', v'⟩ := hd
    simp only [lookupKV, List.map_cons, List.mem_cons, not_or]
    split
    · next hk => simp [hk]
    · next hk => simp [ih, hk]

theorem wf_lookup {k : String} {a : Entries} {v : JVal} (hw : WFObj a) (h : lookupKV k a = some v) : WF v :=
  wfObj_iff.mp hw _ (lookupKV_mem h)

theorem wf_getElem? {xs : List JVal} {i : Nat} {x : JVal} (hw : WFList xs) (h : xs[i]? = some x) : WF x :=
  wfList_iff.mp hw _ (List.mem_of_getElem? h)

/-! ### Python equality implies `Sim` on well-formed values -/
theorem pyEq_num_sim {a b : JVal} {p : Int × Nat} (ha : numVal a = some p)
    (h : (match numVal b with | some q => numEq p q | none => false) = true) : Sim a b := by
  cases hb : numVal b with
  | none => simp [hb] at h
  | some q => simp [hb] at h; exact .num ha hb h

mutual
  theorem pyEq_sim : (a b : JVal) → WF a → WF b → pyEq a b = true → Sim a b
    | .null, b, _, _, h => by cases b <;> simp [pyEq] at h; exact .null
    | .str s, b, _, _, h => by
        cases b <;> simp [pyEq] at h
        subst h; exact .str _
    | .bool x, b, _, _, h => by
        simp only [pyEq] at h
        exact pyEq_num_sim (a := .bool x) (p := if x then (1, 0) else (0, 0)) (by cases x <;> rfl) h
    | .int i, b, _, _, h => by
        simp only [pyEq] at h
        exact pyEq_num_sim (a := .int i) (p := (i, 0)) rfl h
    | .flt n e r, b, _, _, h => by
        simp only [pyEq] at h
        exact pyEq_num_sim (a := .flt n e r) (p := (n, e)) rfl h
    | .arr xs, b, wa, wb, h => by
        cases b <;> simp [pyEq] at h
        rename_i ys
        simp only [WF] at wa wb
        obtain ⟨h1, h2⟩ := pyEqList_sim xs ys wa wb h
        exact .arr h1 h2
    | .obj a, b, wa, wb, h => by
        cases b <;> simp [pyEq] at h
        rename_i b
        simp only [WF] at wa wb
        obtain ⟨hl, he⟩ := h
        have hfwd := pyEqEntries_sim a b wa.2 wb.2 he
        -- keys of a ⊆ keys of b, both duplicate free, same length: same key sets
        have hsub : a.map Prod.fst ⊆ b.map Prod.fst := by
          intro k hk
          obtain ⟨⟨k', v⟩, hm, rfl⟩ := List.mem_map.mp hk
          obtain ⟨w, hw, _⟩ := hfwd k' v hm
          exact List.mem_map.mpr ⟨(k', w), lookupKV_mem hw, rfl⟩
        have hperm : (a.map Prod.fst).Perm (b.map Prod.fst) :=
          (wa.1.subperm hsub).perm_of_length_le (by simp [hl])
        refine .obj (fun k => ?_) (fun k v w hv hw => ?_)
        · rw [lookupKV_none_iff, lookupKV_none_iff, hperm.mem_iff]
        · obtain ⟨w', hw', hs⟩ := hfwd k v (lookupKV_mem hv)
          rw [hw] at hw'; cases hw'; exact hs
  theorem pyEqList_sim : (xs ys : List JVal) → WFList xs → WFList ys → pyEqList xs ys = true →
      xs.length = ys.length ∧ ∀ (i : Nat) x y, xs[i]? = some x → ys[i]? = some y → Sim x y
    | [], ys, _, _, h => by
        cases ys <;> simp [pyEqList] at h
        exact ⟨rfl, fun i x y hx => by simp at hx⟩
    | x :: xs, ys, wa, wb, h => by
        cases ys with
        | nil => simp [pyEqList] at h
        | cons y ys =>
          simp only [pyEqList, Bool.and_eq_true] at h
          simp only [WFList] at wa wb
          obtain ⟨h1, h2⟩ := pyEqList_sim xs ys wa.2 wb.2 h.2
          refine ⟨by simp [h1], fun i x' y' hx hy => ?_⟩
          cases i with
          | zero => simp at hx hy; subst hx hy; exact pyEq_sim x y wa.1 wb.1 h.1
          | succ i => simp at hx hy; exact h2 i x' y' hx hy
  theorem pyEqEntries_sim : (a b : Entries) → WFObj a → WFObj b → pyEqEntries a b = true →
      ∀ k v, (k, v) ∈ a → ∃ w, lookupKV k b = some w ∧ Sim v w
    | [], _, _, _, _ => by intro k v h; simp at h
    | (k', v') :: r, b, wa, wb, h => by
        intro k v hm
        simp only [pyEqEntries, Bool.and_eq_true] at h
        simp only [WFObj] at wa
        rcases List.mem_cons.mp hm with hm | hm
        · obtain ⟨rfl, rfl⟩ := Prod.mk.inj hm
          cases hb : lookupKV k b with
          | none => simp [hb] at h
          | some w =>
            simp only [hb] at h
            exact ⟨w, rfl, pyEq_sim v w wa.1 (wf_lookup wb hb) h.1⟩
        · exact pyEqEntries_sim r b wa.2 wb h.2 k v hm
end

end Signac.Doc

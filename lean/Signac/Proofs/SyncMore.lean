/-
  Remaining helper lemmas for the sync properties: kinds of walk errors, the comparison rule,
  destination-only document keys at any depth, project-level unfolding.  Core only.
-/
import Signac.Proofs.SyncProject
namespace Signac.Sync

/-! ### every error of the file walk is a FileSyncConflict -/

mutual
  theorem walkDir_err_kind (o : Opts) (sub : Path) : (sn : Node) → (des : Entries) → (e : Err) →
      (walkDir o sub sn des).err = some e → ∃ fn, e = .fileConflict fn
    | .file _, des, e, h => by simp [walkDir] at h
    | .dir ses, des, e, h => by
      rw [walkDir_dir'] at h
      cases he : err2 o sub ses des with
      | some e' =>
        simp only [he, Option.some.injEq] at h
        obtain ⟨fn, _, _, hfn, _⟩ := phase2_err o sub des ses _ e' he
        subst h
        exact ⟨fn, hfn⟩
      | none =>
        simp only [he] at h
        split at h
        · exact walkSubs_err_kind o sub des ses _ e h
        · cases h
  theorem walkSubs_err_kind (o : Opts) (sub : Path) (dst0 : Entries) : (l : List (Name × Node)) → (a : Acc) →
      (e : Err) → (walkSubs o sub dst0 l a).err = some e → ∃ fn, e = .fileConflict fn
    | [], a, e, h => by simp [walkSubs] at h
    | (n, .file m) :: tl, a, e, h => by
      simp only [walkSubs] at h
      exact walkSubs_err_kind o sub dst0 tl a e h
    | (n, .dir ses) :: tl, a, e, h => by
      simp only [walkSubs] at h
      split at h
      · rename_i dch _ _ _
        cases hc : (walkDir o (sub ++ [n]) (.dir ses) dch).err with
        | some e' =>
          simp only [hc, Option.some.injEq] at h
          subst h
          exact walkDir_err_kind o (sub ++ [n]) (.dir ses) dch e' hc
        | none =>
          simp only [hc] at h
          exact walkSubs_err_kind o sub dst0 tl _ e h
      · exact walkSubs_err_kind o sub dst0 tl a e h
end

/-! ### the comparison rule -/

/-- equal bytes have equal length -/
def SizeOfCid (a b : FMeta) : Prop := a.cid = b.cid → a.size = b.size

/-- `deep_by_content`: under `deep=True` two files differ iff their bytes differ -/
theorem differs_deep_iff (a b : FMeta) (h : SizeOfCid a b) : differs true a b = true ↔ a.cid ≠ b.cid := by
  unfold differs
  simp only [Bool.not_true, Bool.false_and, Bool.false_eq_true, if_false]
  constructor
  · intro hd hc
    have hs := h hc
    simp [hs, hc] at hd
  · intro hc
    by_cases hs : a.size = b.size
    · simp [hs, hc]
    · simp [hs]

/-- the shallow rule of `filecmp`: same (size, mtime) ⇒ same; else different size ⇒ different;
    else by content -/
theorem differs_shallow (a b : FMeta) :
    differs false a b = true ↔ ¬ (a.size = b.size ∧ a.mtime = b.mtime) ∧ (a.size ≠ b.size ∨ a.cid ≠ b.cid) := by
  unfold differs sameSig
  by_cases hs : a.size = b.size <;> by_cases hm : a.mtime = b.mtime <;> by_cases hc : a.cid = b.cid <;>
    simp [hs, hm, hc]

/-- a file that differs from the source file is not the (freshly written) source file -/
theorem differs_ne_touch (deep : Bool) (now : Nat) (ms md : FMeta) (h : differs deep ms md = true) :
    (Node.file md) ≠ Node.file (touch now ms) := by
  intro e
  have e' : md = touch now ms := by injection e
  have h1 : md.size = ms.size := by rw [e']; rfl
  have h2 : md.cid = ms.cid := by rw [e']; rfl
  unfold differs at h
  split at h
  · cases h
  · simp [h1, h2] at h

/-! ### destination-only document keys, at any depth -/

/-- `p` names a key the source document does not have, below mappings present on both sides -/
inductive DocOnly : Doc → Doc → List String → Prop
  | top {s d k} : k ∉ keys s → DocOnly s d [k]
  | sub {s d k sv dw k' p} : (keys s).Nodup → lookupKV k s = some (.obj sv) → lookupKV k d = some (.obj dw) →
      DocOnly sv dw (k' :: p) → DocOnly s d (k :: k' :: p)

theorem docGet_congr_head {k : String} {d d' : Doc} (h : lookupKV k d' = lookupKV k d) (p : List String) :
    docGet d' (k :: p) = docGet d (k :: p) := by
  cases p with
  | nil => simpa [docGet] using h
  | cons k' q => simp only [docGet, h]

/-- ByKey never touches a key that only the destination has (`sync_dst_only_untouched`, documents) -/
theorem byKeyItems_dst_only (ks : Option (String → Bool)) {s d : Doc} {p : List String} (h : DocOnly s d p) :
    ∀ (root : String) (st : ByKeySt), st.dst = d → (byKeyItems ks root s st).typeErr = false →
    docGet (byKeyItems ks root s st).dst p = docGet d p := by
  induction h with
  | top hk =>
    intro root st hst _
    subst hst
    simp only [docGet]
    exact byKeyItems_other ks root _ _ st hk
  | @sub s d k sv dw k' p hnd hs hd _ ih =>
    intro root st hst hte
    subst hst
    obtain ⟨stj, h1, h2, h3, h4, _⟩ := byKeyItems_at ks root k (.obj sv) s st hnd hs hte
    by_cases hpe : pyEq (.obj dw) (.obj sv) = true
    · -- equal sub-documents: skipped as a whole
      have hstep : byKeyStep ks root k (.obj sv) stj = stj := by
        simp only [byKeyStep, h1, hd, hpe, if_true]
      rw [hstep] at h4
      exact docGet_congr_head (by rw [h4, h1]) _
    · have hstep : byKeyStep ks root k (.obj sv) stj =
          { (byKeyItems ks (root ++ k ++ ".") sv { stj with dst := dw }) with
            dst := setKV k (.obj (byKeyItems ks (root ++ k ++ ".") sv { stj with dst := dw }).dst) stj.dst } := by
        simp only [byKeyStep, h1, hd, hpe, Bool.false_eq_true, if_false, byKeyValue]
      rw [hstep] at h3 h4
      simp only at h3
      have := ih (root ++ k ++ ".") { stj with dst := dw } rfl h3
      simp only [docGet, h4, lookupKV_setKV_same, hd]
      exact this

/-! ### unfolding a successful project sync -/

theorem syncProjects_ok (o : Opts) (src dst : Entries) (h : (syncProjects o src dst).err = none) :
    (syncDoc o Extracted.FN_PROJECT_DOCUMENT src ⟨dst, []⟩).err = none ∧
    syncProjects o src dst =
      syncJobs o (wsOf src) ⟨(syncDoc o Extracted.FN_PROJECT_DOCUMENT src ⟨dst, []⟩).d,
                            (syncDoc o Extracted.FN_PROJECT_DOCUMENT src ⟨dst, []⟩).log⟩ := by
  unfold syncProjects at h ⊢
  by_cases hg : (o.checkSchema && o.gate) = true
  · simp [hg] at h
  · simp only [hg, Bool.false_eq_true, if_false] at h ⊢
    cases he : (syncDoc o Extracted.FN_PROJECT_DOCUMENT src ⟨dst, []⟩).err with
    | some e => simp [he] at h
    | none => simp

/-- the job directories of the destination after a project sync, in any case (also on failure):
    the job loop's result, or — when it was not reached — the old ones -/
theorem syncProjects_ws (o : Opts) (src dst : Entries) :
    wsOf (syncProjects o src dst).d = wsOf dst ∨
    wsOf (syncProjects o src dst).d =
      wsOf (syncJobs o (wsOf src) ⟨(syncDoc o Extracted.FN_PROJECT_DOCUMENT src ⟨dst, []⟩).d,
                                  (syncDoc o Extracted.FN_PROJECT_DOCUMENT src ⟨dst, []⟩).log⟩).d := by
  unfold syncProjects
  by_cases hg : (o.checkSchema && o.gate) = true
  · left; simp [hg]
  · simp only [hg, Bool.false_eq_true, if_false]
    cases he : (syncDoc o Extracted.FN_PROJECT_DOCUMENT src ⟨dst, []⟩).err with
    | some e =>
      left
      simp only [wsOf]
      rw [getE_syncDoc_other o _ src ⟨dst, []⟩ WS pdoc_ne_ws pdoc_bak_ne_ws]
    | none => right; rfl

theorem wsOf_syncDoc (o : Opts) (src dst : Entries) :
    wsOf (syncDoc o Extracted.FN_PROJECT_DOCUMENT src ⟨dst, []⟩).d = wsOf dst := by
  simp only [wsOf]
  rw [getE_syncDoc_other o _ src ⟨dst, []⟩ WS pdoc_ne_ws pdoc_bak_ne_ws]

end Signac.Sync

/-
  Helper lemmas for C01: the UTF-8 bytes determine the characters, the hex digest
  text determines the digest bytes.  Core only.
-/
import Signac.Md5
import Signac.Proofs.EncStr
namespace Signac

theorem byteArray_size_eq (bs : ByteArray) : bs.size = bs.data.toList.length := by
  cases bs; simp [ByteArray.size]

theorem byteArray_get!_eq (bs : ByteArray) (i : Nat) (h : i < bs.data.toList.length) :
    bs.get! i = bs.data.toList[i] := by
  cases bs with
  | mk d =>
    have h' : i < d.size := by simpa using h
    simp only [ByteArray.get!, getElem!_pos d i h', Array.getElem_toList]

theorem byteArray_toList_loop (bs : ByteArray) : ∀ (k i : Nat) (r : List UInt8),
    k = bs.size - i → ByteArray.toList.loop bs i r = r.reverse ++ bs.data.toList.drop i
  | 0, i, r, hk => by
    have hsz := byteArray_size_eq bs
    rw [ByteArray.toList.loop, if_neg (by omega), List.drop_eq_nil_of_le (by omega)]
    simp
  | k + 1, i, r, hk => by
    have hsz := byteArray_size_eq bs
    have hi : i < bs.size := by omega
    rw [ByteArray.toList.loop, if_pos hi, byteArray_toList_loop bs k (i + 1) _ (by omega)]
    rw [List.reverse_cons, List.append_assoc, List.singleton_append,
      byteArray_get!_eq bs i (by omega)]
    rw [List.drop_eq_getElem_cons (i := i) (by omega)]

theorem byteArray_toList_eq (bs : ByteArray) : bs.toList = bs.data.toList := by
  rw [ByteArray.toList, byteArray_toList_loop bs (bs.size - 0) 0 [] rfl]
  simp

theorem byteArray_toList_inj {a b : ByteArray} (h : a.toList = b.toList) : a = b := by
  rw [byteArray_toList_eq, byteArray_toList_eq] at h
  cases a; cases b
  simp only [ByteArray.mk.injEq]
  exact Array.toList_inj.mp h

/-- different texts are hashed from different byte strings -/
theorem utf8_inj {cs ds : List Char} (h : utf8 cs = utf8 ds) : cs = ds := by
  simp only [utf8, String.toUTF8_eq_toByteArray] at h
  exact String.ofList_injective (String.toByteArray_inj.mp (byteArray_toList_inj h))

theorem byteHex_inj {a b : UInt8} (h : byteHex a = byteHex b) : a = b := by
  simp only [byteHex, List.cons.injEq, and_true] at h
  have ha := a.toNat_lt
  have hb := b.toNat_lt
  have e1 := hexDigit_inj (by omega) (by omega) h.1
  have e2 := hexDigit_inj (Nat.mod_lt _ (by omega)) (Nat.mod_lt _ (by omega)) h.2
  exact UInt8.toNat_inj.mp (by omega)

theorem hexOfBytes_inj : ∀ (xs ys : List UInt8), hexOfBytes xs = hexOfBytes ys → xs = ys
  | [], [], _ => rfl
  | [], y :: ys, h => by simp [hexOfBytes, byteHex] at h
  | x :: xs, [], h => by simp [hexOfBytes, byteHex] at h
  | x :: xs, y :: ys, h => by
    simp only [hexOfBytes, byteHex, List.cons_append, List.nil_append, List.cons.injEq] at h
    obtain ⟨h1, h2, h3⟩ := h
    have e : x = y := byteHex_inj (by simp only [byteHex, h1, h2])
    rw [e, hexOfBytes_inj xs ys h3]

end Signac

/-
  Proofs/ConcTrans — which operation a program counter belongs to (`HeadOk`, a property of the
  actor machine alone) and the exact transition of the phases that create directories and
  publish files (under the invariants).  Used for the statements about final states.
-/
import Signac.Proofs.ConcFinal
namespace Signac.Conc
variable {SP DV : Type} {hash : SP → JobId}

def docFor (v : SP) (s : List (Op SP DV)) : Prop :=
  (∃ k x r, s = .docSet v k x :: r) ∨ (∃ r, s = .docGet v :: r)

/-- the operation in progress is the whole-document assignment `open_job(v).doc = d` -/
def asgFor (v : SP) (s : List (Op SP DV)) : Prop :=
  ∃ d r, s = .docAssign v d :: r

def jobOp (v : SP) (s : List (Op SP DV)) : Prop :=
  docFor v s ∨ (∃ r, s = .init v :: r) ∨ asgFor v s

/-- the operation in progress (head of the script) fits the program counter -/
def HeadOk (hash : SP → JobId) : Phase SP DV → List (Op SP DV) → Prop
  | .fin, _ => True
  | .proj _, s => ∃ r, s = .project :: r
  | .len, s => ∃ r, s = .len :: r
  | .lite v, s => docFor v s ∨ asgFor v s
  | .dload v, s => docFor v s
  | .ini _ v, s => jobOp v s
  | .save _ i .sp c, s => ∃ v, c = .spc v ∧ hash v = i ∧ jobOp v s
  | .save _ i .doc c, s => (∃ v k x r, s = .docSet v k x :: r ∧ hash v = i) ∨
      (∃ v d r, s = .docAssign v d :: r ∧ hash v = i ∧ c = .docc d)

theorem headOk_start (sc : List (Op SP DV)) :
    HeadOk hash (AState.start sc).phase (AState.start sc).script := ⟨sc, rfl⟩

theorem headOk_startNext (st : AState SP DV) : HeadOk hash (startNext st).phase (startNext st).script := by
  unfold startNext
  split
  · trivial
  · rename_i op rest heq
    cases op with
    | project => exact ⟨rest, heq⟩
    | len => exact ⟨rest, heq⟩
    | init v => exact Or.inr (Or.inl ⟨rest, heq⟩)
    | docSet v k x => exact Or.inl (Or.inl ⟨k, x, rest, heq⟩)
    | docGet v => exact Or.inl (Or.inr ⟨rest, heq⟩)
    | docAssign v d => exact Or.inr ⟨d, rest, heq⟩

theorem headOk_finishOp (st : AState SP DV) : HeadOk hash (finishOp st).phase (finishOp st).script :=
  headOk_startNext _

theorem headOk_fail (st : AState SP DV) (w : String) : HeadOk hash (st.fail w).phase (st.fail w).script :=
  trivial

theorem headOk_afterInit {st : AState SP DV} {v : SP} (h : jobOp v st.script) :
    HeadOk hash (afterInit hash st v).phase (afterInit hash st v).script := by
  unfold afterInit
  split
  · rename_i w k x r heq
    rcases h with (⟨k', x', r', h⟩ | ⟨r', h⟩) | ⟨r', h⟩ | ⟨d', r', h⟩ <;> rw [heq] at h <;> cases h
    exact Or.inl ⟨k, x, r, heq⟩
  · rename_i w r heq
    rcases h with (⟨k', x', r', h⟩ | ⟨r', h⟩) | ⟨r', h⟩ | ⟨d', r', h⟩ <;> rw [heq] at h <;> cases h
    exact Or.inr ⟨r, heq⟩
  · rename_i w d r heq
    rcases h with (⟨k', x', r', h⟩ | ⟨r', h⟩) | ⟨r', h⟩ | ⟨d', r', h⟩ <;> rw [heq] at h <;> cases h
    exact Or.inr ⟨v, d, r, heq, rfl, rfl⟩
  · exact headOk_finishOp _

theorem headOk_docStart {st : AState SP DV} {v : SP} (h : docFor v st.script ∨ asgFor v st.script) :
    HeadOk hash (docStart hash st v).phase (docStart hash st v).script := by
  unfold docStart
  split
  · rename_i w d r heq
    rcases h with (⟨k', x', r', h⟩ | ⟨r', h⟩) | ⟨d', r', h⟩ <;> rw [heq] at h <;> cases h
    exact Or.inr ⟨v, d, r, heq, rfl, rfl⟩
  · rename_i hna
    rcases h with h | ⟨d', r', h⟩
    · exact h
    · exact absurd h (hna v d' r')

/-- `HeadOk` is preserved by every transition, whatever the primitive answered -/
theorem headOk_resume {st : AState SP DV} (h : HeadOk hash st.phase st.script) (r : Res SP DV) :
    HeadOk hash (resume hash st r).phase (resume hash st r).script := by
  cases hph : st.phase with
  | fin => simp only [resume, hph]; rw [hph] at h; exact hph ▸ h
  | proj n =>
    rw [hph] at h
    simp only [resume, hph, resumeProj]
    cases n <;> simp only <;> repeat' split
    all_goals first | exact headOk_finishOp _ | exact headOk_fail _ _ | exact h
  | lite v =>
    rw [hph] at h
    simp only [resume, hph]
    split
    · exact headOk_docStart h
    · exact h.elim Or.inl (fun h => Or.inr (Or.inr h))
  | ini n v =>
    rw [hph] at h
    simp only [resume, hph, resumeIni]
    cases n <;> simp only <;> repeat' split
    all_goals first
      | exact headOk_afterInit h | exact headOk_fail _ _ | exact h
      | exact ⟨v, rfl, rfl, h⟩
  | save n i k c =>
    rw [hph] at h
    simp only [resume, hph, resumeSave]
    cases k with
    | sp =>
      obtain ⟨v', hc, hi, hj⟩ := h
      subst hc
      cases n <;> simp only <;> repeat' split
      all_goals first
        | exact headOk_fail _ _ | exact ⟨v', rfl, hi, hj⟩ | exact hj
        | (rename_i heq; cases heq; exact hj)
        | (rename_i heq; cases heq)
    | doc =>
      cases n <;> simp only <;> repeat' split
      all_goals first
        | exact headOk_finishOp _ | exact headOk_fail _ _ | exact h
        | (rename_i heq _; cases heq)
        | (rename_i heq; cases heq)
  | dload v =>
    rw [hph] at h
    simp only [resume, hph]
    repeat' split
    all_goals first
      | exact headOk_fail _ _
      | (unfold resumeDload; repeat' split)
    all_goals first
      | exact headOk_finishOp _ | exact headOk_fail _ _
      | (rename_i w k x r heq
         rcases h with ⟨k', x', r', h⟩ | ⟨r', h⟩ <;> rw [heq] at h <;> cases h
         exact Or.inl ⟨v, k, x, r, heq, rfl⟩)
  | len =>
    simp only [resume, hph]
    split
    · exact headOk_finishOp _
    · exact headOk_fail _ _


/-! ### exact transitions (under the invariants) -/

theorem nextOf {st : AState SP DV} {ph : Phase SP DV} (a : Nat) (hph : st.phase = ph) :
    next hash a st = next hash a { st with phase := ph } := by
  cases st; simp only at hph; subst hph; rfl

theorem tr_ini_mkdir_new {fs : FS SP DV} {a : Nat} {st : AState SP DV} {v : SP}
    (hinv : AInv hash fs a st) (hph : st.phase = .ini .mkdir v)
    (hg : fs.get (.jobdir (hash v)) = none) :
    exec fs (.mkdir (.jobdir (hash v))) = (fs.set (.jobdir (hash v)) .dir, .ok) ∧
    resume hash st .ok = st.goto (.ini .isfile v) := by
  have hws : IsDir fs .ws := hinv.ws (by simp [hph, isProj])
  have hp : parentOk fs (.jobdir (hash v)) = true := by
    rw [parentOk_iff]; intro q hq; cases hq; exact hws
  exact ⟨exec_mkdir_none hg hp, by simp only [resume, hph, resumeIni]⟩

theorem tr_ini_mkdir_old {fs : FS SP DV} {st : AState SP DV} {v : SP} {n : Node SP DV}
    (hph : st.phase = .ini .mkdir v) (hg : fs.get (.jobdir (hash v)) = some n) :
    exec fs (.mkdir (.jobdir (hash v))) = (fs, .err .eexist) ∧
    resume hash st (.err .eexist) = st.goto (.ini .isdir2 v) :=
  ⟨exec_mkdir_some hg, by simp only [resume, hph, resumeIni]⟩

theorem tr_ini_isdir2 {fs : FS SP DV} {a : Nat} {st : AState SP DV} {v : SP}
    (hinv : AInv hash fs a st) (hph : st.phase = .ini .isdir2 v) :
    exec fs (.isdir (.jobdir (hash v))) = (fs, .bool true) ∧
    resume hash st (.bool true) = st.goto (.ini .isfile v) := by
  have hd : IsDir fs (.jobdir (hash v)) := by simpa [hph, PhaseInv] using hinv.phase
  exact ⟨exec_isdir_T hd, by simp only [resume, hph, resumeIni]⟩

theorem tr_ini_isfile_T {fs : FS SP DV} {st : AState SP DV} {v : SP}
    (hph : st.phase = .ini .isfile v) (hf : IsFile fs (.file (hash v) .sp)) :
    exec fs (.isfile (.file (hash v) .sp)) = (fs, .bool true) ∧
    resume hash st (.bool true) = st.goto (.ini .load2 v) :=
  ⟨exec_isfile_T hf, by simp only [resume, hph, resumeIni]⟩

theorem tr_ini_isfile_F {fs : FS SP DV} {st : AState SP DV} {v : SP}
    (hph : st.phase = .ini .isfile v) (hf : ¬ IsFile fs (.file (hash v) .sp)) :
    exec fs (.isfile (.file (hash v) .sp)) = (fs, .bool false) ∧
    resume hash st (.bool false) = st.goto (.save .openw (hash v) .sp (.spc v)) :=
  ⟨exec_isfile_F hf, by simp only [resume, hph, resumeIni]⟩

theorem tr_save_openw {fs : FS SP DV} {a : Nat} {st : AState SP DV} {i : JobId} {k : Kind}
    {c : Content SP DV} (hfs : FsInv hash fs) (hinv : AInv hash fs a st)
    (hph : st.phase = .save .openw i k c) :
    exec fs (.openw (.tmp i k a)) = (fs.set (.tmp i k a) (.file .torn), .ok) ∧
    resume hash st .ok = st.goto (.save .write i k c) := by
  obtain ⟨hd, _⟩ : IsDir fs (.jobdir i) ∧ GoodC hash i k c := by simpa [hph, PhaseInv] using hinv.phase
  have hp : parentOk fs (.tmp i k a) = true := by
    rw [parentOk_iff]; intro q hq; cases hq; exact hd
  exact ⟨exec_openw (tmp_not_dir hfs i k a) hp, by simp only [resume, hph, resumeSave]⟩

theorem tr_save_write {fs : FS SP DV} {a : Nat} {st : AState SP DV} {i : JobId} {k : Kind}
    {c : Content SP DV} (hinv : AInv hash fs a st) (hph : st.phase = .save .write i k c) :
    exec fs (.write (.tmp i k a) c) = (fs.set (.tmp i k a) (.file c), .ok) ∧
    resume hash st .ok = st.goto (.save .close i k c) := by
  obtain ⟨hf, _⟩ : IsFile fs (.tmp i k a) ∧ GoodC hash i k c := by simpa [hph, PhaseInv] using hinv.phase
  exact ⟨exec_write hf, by simp only [resume, hph, resumeSave]⟩

theorem tr_save_close {fs : FS SP DV} {a : Nat} {st : AState SP DV} {i : JobId} {k : Kind}
    {c : Content SP DV} (hph : st.phase = .save .close i k c) :
    exec fs (.close (.tmp i k a)) = (fs, .ok) ∧
    resume hash st .ok = st.goto (.save .rename i k c) :=
  ⟨rfl, by simp only [resume, hph, resumeSave]⟩

theorem tr_save_rename {fs : FS SP DV} {a : Nat} {st : AState SP DV} {i : JobId} {k : Kind}
    {c : Content SP DV} (hfs : FsInv hash fs) (hinv : AInv hash fs a st)
    (hph : st.phase = .save .rename i k c) :
    exec fs (.rename (.tmp i k a) (.file i k)) = ((fs.del (.tmp i k a)).set (.file i k) (.file c), .ok) := by
  obtain ⟨hc, _⟩ : fs.get (.tmp i k a) = some (.file c) ∧ GoodC hash i k c := by
    simpa [hph, PhaseInv] using hinv.phase
  have hjd : IsDir fs (.jobdir i) := parent_dir hfs hc rfl
  have hp : parentOk fs (.file i k) = true := by
    rw [parentOk_iff]; intro q hq; cases hq; exact hjd
  exact exec_rename hc (file_not_dir hfs i k) hp

theorem tr_save_rename_doc {st : AState SP DV} {i : JobId} {c : Content SP DV}
    (hph : st.phase = .save .rename i .doc c) : resume hash st .ok = finishOp st := by
  simp only [resume, hph, resumeSave]

/-- the document currently published for job `i` (a missing file is the empty document) -/
def docNow (fs : FS SP DV) (i : JobId) : Doc DV :=
  match fs.get (.file i .doc) with
  | some (.file (.docc d)) => d
  | _ => []

theorem tr_dload {fs : FS SP DV} {a : Nat} {st : AState SP DV} {v : SP}
    (hfs : FsInv hash fs) (_hinv : AInv hash fs a st) (hph : st.phase = .dload v) :
    (exec fs (.read (.file (hash v) .doc))).1 = fs ∧
    resume hash st (exec fs (.read (.file (hash v) .doc))).2 = resumeDload hash st v (docNow fs (hash v)) := by
  cases hg : fs.get (.file (hash v) .doc) with
  | none =>
    rw [exec_read_none hg]
    exact ⟨rfl, by simp only [resume, hph, docNow, hg]⟩
  | some nd =>
    obtain ⟨c, rfl, hgood⟩ := hfs.fileT hg
    rw [exec_read_file hg]
    cases c with
    | docc d => exact ⟨rfl, by simp only [resume, hph, docNow, hg]⟩
    | torn => simp [GoodC] at hgood
    | spc w => simp [GoodC] at hgood

end Signac.Conc

/-
  Well-formedness (no duplicate keys at any depth) is preserved by the merge and by every
  dict / list primitive the document operations are built from.
-/
import Signac.Proofs.DocMerge
namespace Signac.Doc
open Signac

abbrev keys (l : Entries) : List String := l.map Prod.fst

theorem keys_mergeKeep_sublist (o n : Entries) : (keys (mergeKeep o n)).Sublist (keys o) := by
  induction o with
  | nil => simp [mergeKeep]
  | cons hd tl ih =>
    obtain ⟨k₀, v₀⟩ := hd
    simp only [mergeKeep]
    cases lookupKV k₀ n with
    | some nv => simpa using ih
    | none => exact (ih.trans (List.sublist_cons_self _ _))

theorem wf_obj_mk {l : Entries} (h1 : (keys l).Nodup) (h2 : ∀ kv ∈ l, WF kv.2) : WF (.obj l) := by
  simp only [WF]; exact ⟨h1, wfObj_iff.mpr h2⟩

theorem wf_obj_inv {l : Entries} (h : WF (.obj l)) : (keys l).Nodup ∧ ∀ kv ∈ l, WF kv.2 := by
  simp only [WF] at h; exact ⟨h.1, wfObj_iff.mp h.2⟩

theorem wf_arr_iff {xs : List JVal} : WF (.arr xs) ↔ ∀ x ∈ xs, WF x := by
  simp only [WF]; exact wfList_iff

theorem wf_empty : WF (.obj []) := by simp [WF, WFObj]

mutual
  theorem wf_merge : (old new : JVal) → WF old → WF new → WF (mergeVal old new)
    | .obj o, new, wo, wn => by
        cases new with
        | obj n =>
          simp only [mergeVal]
          obtain ⟨ho1, ho2⟩ := wf_obj_inv wo
          obtain ⟨hn1, hn2⟩ := wf_obj_inv wn
          apply wf_obj_mk
          · simp only [keys, List.map_append]
            rw [List.nodup_append]
            refine ⟨(keys_mergeKeep_sublist o n).nodup ho1, ?_, ?_⟩
            · exact (List.Sublist.map _ List.filter_sublist).nodup hn1
            · intro a ha b hb hab
              subst hab
              have ha' : a ∈ keys o := (keys_mergeKeep_sublist o n).subset ha
              obtain ⟨kv, hkv, rfl⟩ := List.mem_map.mp hb
              have := (List.mem_filter.mp hkv).2
              simp only [hasKey_eq, Bool.not_eq_true', Option.isSome_eq_false_iff,
                Option.isNone_iff_eq_none] at this
              exact (lookupKV_none_iff.mp this) ha'
          · intro kv hkv
            rcases List.mem_append.mp hkv with h | h
            · exact wf_mergeKeep o n (wfObj_iff.mpr ho2) (wfObj_iff.mpr hn2) kv h
            · exact hn2 kv (List.mem_filter.mp h).1
        | null => simpa [mergeVal] using wo
        | bool _ => simpa [mergeVal] using wn
        | int _ => simpa [mergeVal] using wn
        | flt _ _ _ => simpa [mergeVal] using wn
        | str _ => simpa [mergeVal] using wn
        | arr _ => simpa [mergeVal] using wn
    | .arr o, new, wo, wn => by
        cases new with
        | arr n =>
          simp only [mergeVal]
          simp only [WF] at wo wn ⊢
          exact wf_mergeArr o n wo wn
        | null => simpa [mergeVal] using wo
        | bool _ => simpa [mergeVal] using wn
        | int _ => simpa [mergeVal] using wn
        | flt _ _ _ => simpa [mergeVal] using wn
        | str _ => simpa [mergeVal] using wn
        | obj _ => simpa [mergeVal] using wn
    | .null, new, _, wn => by
        rw [mergeVal_other (by simp) (by simp) (by simp) (by simp)]; exact wn
    | .bool _, new, _, wn => by
        rw [mergeVal_other (by simp) (by simp) (by simp) (by simp)]; exact wn
    | .int _, new, _, wn => by
        rw [mergeVal_other (by simp) (by simp) (by simp) (by simp)]; exact wn
    | .flt _ _ _, new, _, wn => by
        rw [mergeVal_other (by simp) (by simp) (by simp) (by simp)]; exact wn
    | .str _, new, _, wn => by
        rw [mergeVal_other (by simp) (by simp) (by simp) (by simp)]; exact wn
  theorem wf_mergeKeep : (o n : Entries) → WFObj o → WFObj n → ∀ kv ∈ mergeKeep o n, WF kv.2
    | [], _, _, _ => by intro kv h; simp [mergeKeep] at h
    | (k₀, v₀) :: r, n, wo, wn => by
        intro kv h
        simp only [WFObj] at wo
        simp only [mergeKeep] at h
        cases hn : lookupKV k₀ n with
        | none => rw [hn] at h; exact wf_mergeKeep r n wo.2 wn kv h
        | some nv =>
          rw [hn] at h
          rcases List.mem_cons.mp h with h | h
          · subst h
            show WF (if pyEq nv v₀ then v₀ else mergeVal v₀ nv)
            split
            · exact wo.1
            · exact wf_merge v₀ nv wo.1 (wf_lookup wn hn)
          · exact wf_mergeKeep r n wo.2 wn kv h
  theorem wf_mergeArr : (o n : List JVal) → WFList o → WFList n → WFList (mergeArr o n)
    | [], n, _, wn => by simpa [mergeArr] using wn
    | x :: xs, n, wo, wn => by
        cases n with
        | nil => simp [mergeArr, WFList]
        | cons y ys =>
          simp only [WFList] at wo wn
          simp only [mergeArr, WFList]
          refine ⟨?_, wf_mergeArr xs ys wo.2 wn.2⟩
          split
          · exact wo.1
          · exact wf_merge x y wo.1 wn.1
end

/-! ### dict / list primitives -/
theorem keys_setKV (k : String) (v : JVal) (l : Entries) :
    keys (setKV k v l) = if k ∈ keys l then keys l else keys l ++ [k] := by
  induction l with
  | nil => simp [setKV]
  | cons hd tl ih =>
    obtain ⟨k₀, v₀⟩ := hd
    simp only [setKV]
    split
    · next hk => simp [hk]
    · next hk =>
      simp only [keys, List.map_cons, List.mem_cons, hk, false_or] at ih ⊢
      rw [ih]; split <;> simp

theorem mem_setKV {k : String} {v : JVal} {l : Entries} {kv : String × JVal}
    (h : kv ∈ setKV k v l) : kv = (k, v) ∨ kv ∈ l := by
  induction l with
  | nil => simp [setKV] at h; exact Or.inl h
  | cons hd tl ih =>
    obtain ⟨k₀, v₀⟩ := hd
    simp only [setKV] at h
    split at h
    · rcases List.mem_cons.mp h with h | h
      · exact Or.inl h
      · exact Or.inr (List.mem_cons_of_mem _ h)
    · rcases List.mem_cons.mp h with h | h
      · exact Or.inr (h ▸ List.mem_cons_self)
      · rcases ih h with h | h
        · exact Or.inl h
        · exact Or.inr (List.mem_cons_of_mem _ h)

theorem wf_setKV {k : String} {v : JVal} {l : Entries} (hl : WF (.obj l)) (hv : WF v) :
    WF (.obj (setKV k v l)) := by
  obtain ⟨h1, h2⟩ := wf_obj_inv hl
  apply wf_obj_mk
  · rw [keys_setKV]
    split
    · exact h1
    · next hk =>
      rw [List.nodup_append]
      exact ⟨h1, by simp, by intro a ha b hb; simp at hb; subst hb; intro e; exact hk (e ▸ ha)⟩
  · intro kv hkv
    rcases mem_setKV hkv with h | h
    · subst h; exact hv
    · exact h2 kv h

theorem eraseKV_sublist (k : String) (l : Entries) : (eraseKV k l).Sublist l := by
  induction l with
  | nil => simp [eraseKV]
  | cons hd tl ih =>
    obtain ⟨k₀, v₀⟩ := hd
    simp only [eraseKV]
    split
    · exact ih.trans (List.sublist_cons_self _ _)
    · exact ih.cons_cons _

theorem wf_eraseKV {k : String} {l : Entries} (hl : WF (.obj l)) : WF (.obj (eraseKV k l)) := by
  obtain ⟨h1, h2⟩ := wf_obj_inv hl
  exact wf_obj_mk ((List.Sublist.map _ (eraseKV_sublist k l)).nodup h1)
    (fun kv hkv => h2 kv ((eraseKV_sublist k l).subset hkv))

theorem wf_overlay {d other : Entries} (hd : WF (.obj d)) (ho : ∀ kv ∈ other, WF kv.2) :
    WF (.obj (overlay d other)) := by
  unfold overlay
  induction other generalizing d with
  | nil => simpa using hd
  | cons hd' tl ih =>
    simp only [List.foldl_cons]
    exact ih (wf_setKV hd (ho hd' List.mem_cons_self)) (fun kv h => ho kv (List.mem_cons_of_mem _ h))

theorem wf_entriesOf {d : JVal} (h : WF d) : WF (.obj (entriesOf d)) := by
  cases d <;> simp only [entriesOf] <;> first | exact h | exact wf_empty

theorem wf_set {xs : List JVal} {j : Nat} {x : JVal} (h : WF (.arr xs)) (hx : WF x) :
    WF (.arr (xs.set j x)) := by
  rw [wf_arr_iff] at h ⊢
  intro y hy
  rcases List.mem_or_eq_of_mem_set hy with h' | h'
  · exact h y h'
  · exact h' ▸ hx

theorem wf_append {xs ys : List JVal} (h : WF (.arr xs)) (hy : ∀ y ∈ ys, WF y) :
    WF (.arr (xs ++ ys)) := by
  rw [wf_arr_iff] at h ⊢
  intro y hy'
  rcases List.mem_append.mp hy' with h' | h'
  · exact h y h'
  · exact hy y h'

end Signac.Doc

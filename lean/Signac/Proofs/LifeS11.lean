/- S-11 in the model: the full statement for clone is false.  Witness: job `j` with one data
   file `f`; the copy order is state-point file first; the process dies (or the `open` of `f`
   fails with EIO) right after the state-point file was copied. -/
import Signac.Proofs.LifeClone
namespace Signac.Life

def cexCodec : Codec Nat := ⟨fun n => if n = 1 then "j" else "x", fun _ => "{}"⟩
def cexS : JobDir Nat := { sp := some (.ok 1), entries := [("f", some "data")] }
def cexW : World Nat := fun k => if k = (0, "j") then some cexS else none
def cexOrder : List Ref := [.sp, .file "f"]
def cexSrc : Key := (0, "j")
def cexDst : Key := (1, "j")

/-- steps: 0 mkdir dst, 1 open sp, 2 write sp, 3 open f, 4 write f.  Death before step 3. -/
theorem s11_crash :
    let o := run cexCodec (crashAt 3) (cloneProg cexSrc cexDst cexOrder) cexW
    o.res = .crashed ∧ validAt cexCodec o.w cexDst = true ∧ corruptAt cexCodec o.w cexDst = false ∧
    ∃ d, o.w cexDst = some d ∧ hasItem d (.file "f") = false := by
  refine ⟨by decide, by decide, by decide, ?_⟩
  exact ⟨_, rfl, by decide⟩

/-- the same with an I/O error instead of a death: `open` of `f` fails with EIO; clone raises
    `shutil.Error`, the destination passes check() and lacks `f` -/
theorem s11_fault :
    let o := run cexCodec (faultAt 3 .EIO) (cloneProg cexSrc cexDst cexOrder) cexW
    o.res = .exc "Error" ∧ o.faulted = true ∧ validAt cexCodec o.w cexDst = true ∧
    corruptAt cexCodec o.w cexDst = false ∧ ∃ d, o.w cexDst = some d ∧ hasItem d (.file "f") = false := by
  refine ⟨by decide, by decide, by decide, by decide, ?_⟩
  exact ⟨_, rfl, by decide⟩

theorem noENOENT_crashAt (k : Nat) : NoENOENT (crashAt k) := by
  intro n; simp only [crashAt]; split <;> simp

theorem clone_safe_full_false : ¬ clone_safe_full := by
  intro h
  have h1 := h Nat cexCodec cexSrc cexDst cexOrder cexW (crashAt 3) (by decide) (by decide) (noENOENT_crashAt 3)
  obtain ⟨_, _, hc, d0, hd0, hno⟩ := s11_crash
  rcases h1 with h1 | h1 | ⟨d, hd, hall⟩
  · rw [hd0] at h1; have hw : cexW cexDst = none := by decide
    rw [hw] at h1; cases h1
  · rw [hc] at h1; cases h1
  · rw [hd0] at hd
    injection hd with hd
    subst hd
    have := hall (.file "f") (by simp [cexOrder])
    rw [hno] at this; cases this

end Signac.Life

/-
  Helper lemmas for the JSON round trip (C01 / C02), part 1: reading back an escaped string.
  Core only.
-/
import Signac.JsonParse
import Signac.Proofs.EncStr
namespace Signac

theorem hexNib_hexDigit {k : Nat} (h : k < 16) : hexNib (hexDigit k) = some k := by
  have key : ∀ x : Fin 16, hexNib (hexDigit x.val) = some x.val := by decide
  exact key ⟨k, h⟩

theorem readU4_hex4 {n : Nat} (hn : n < 65536) (R : List Char) :
    readU4 (hex4 n ++ R) = some (n, R) := by
  simp only [hex4, List.cons_append, List.nil_append, readU4,
    hexNib_hexDigit (Nat.mod_lt _ (by omega : 0 < 16))]
  congr 2
  omega

theorem readUEsc_bmp {n : Nat} (hn : n < 65536) (hs : n < 55296 ∨ 57343 < n) (R : List Char) :
    readUEsc (hex4 n ++ R) = some (Char.ofNat n, R) := by
  simp only [readUEsc, readU4_hex4 hn]
  rw [if_neg (by omega), if_neg (by omega)]

theorem readUEsc_astral {hi lo : Nat} (h1 : 55296 ≤ hi) (h2 : hi < 56320) (h3 : 56320 ≤ lo)
    (h4 : lo < 57344) (R : List Char) :
    readUEsc (hex4 hi ++ (uEsc lo ++ R))
      = some (Char.ofNat (65536 + (hi - 55296) * 1024 + (lo - 56320)), R) := by
  simp only [readUEsc, readU4_hex4 (by omega : hi < 65536), uEsc, List.cons_append]
  rw [if_pos ⟨h1, h2⟩]
  simp only [and_self, if_true, readU4_hex4 (by omega : lo < 65536)]
  rw [if_pos ⟨h3, h4⟩]

/-- reading one escaped character gives the character back -/
theorem readChar1_escapeChar (c : Char) (R : List Char) :
    readChar1 (escapeChar c ++ R) = some (c, R) := by
  simp only [escapeChar]
  split
  · next h => subst h; simp [readChar1, unescShort]
  split
  · next h => subst h; simp [readChar1, unescShort]
  split
  · next h => subst h; simp [readChar1, unescShort]
  split
  · next h => subst h; simp [readChar1, unescShort]
  split
  · next h => subst h; simp [readChar1, unescShort]
  split
  · next h => rw [char_eq_of_toNat h]; simp [readChar1, unescShort]
  split
  · next h => rw [char_eq_of_toNat h]; simp [readChar1, unescShort]
  split
  · next h1 h2 _ _ _ _ _ h =>
    simp only [List.cons_append, List.nil_append, readChar1, if_neg h2]
    rw [if_neg (by omega)]
  split
  · next h =>
    simp only [uEsc, List.cons_append, readChar1, if_true]
    rw [readUEsc_bmp h (char_not_surrogate c), Char.ofNat_toNat]
  · next hge =>
    have hv : c.toNat < 1114112 := by
      have := c.valid
      simp only [Char.toNat, UInt32.isValidChar, Nat.isValidChar] at this ⊢
      omega
    have hm := Nat.mod_lt ((c.toNat - 65536) / 1024) (by omega : 0 < 1024)
    have hm' := Nat.mod_lt (c.toNat - 65536) (by omega : 0 < 1024)
    rw [List.append_assoc]
    simp only [uEsc, List.cons_append, readChar1, if_true]
    have := readUEsc_astral (hi := 55296 + (c.toNat - 65536) / 1024 % 1024)
      (lo := 56320 + (c.toNat - 65536) % 1024) (by omega) (by omega) (by omega) (by omega) R
    simp only [uEsc, List.cons_append] at this
    rw [this]
    have e : 65536 + (55296 + (c.toNat - 65536) / 1024 % 1024 - 55296) * 1024
        + (56320 + (c.toNat - 65536) % 1024 - 56320) = c.toNat := by omega
    rw [e, Char.ofNat_toNat]

theorem escapeChar_ne_nil (c : Char) : escapeChar c ≠ [] := by
  intro h
  have := readChar1_escapeChar c []
  rw [h] at this
  simp [readChar1] at this

theorem escapeChar_cons (c : Char) (R : List Char) :
    ∃ d ds, escapeChar c ++ R = d :: ds ∧ d ≠ '"' := by
  cases h : escapeChar c ++ R with
  | nil =>
    have := escapeChar_ne_nil c
    simp only [List.append_eq_nil_iff] at h
    exact absurd h.1 this
  | cons d ds =>
    refine ⟨d, ds, rfl, ?_⟩
    intro hd
    subst hd
    exact escapeChar_head_ne_quote c R ds h

/-- reading the body of a string literal gives the string back -/
theorem readStrBody_escapeChars : ∀ (s : List Char) (fuel : Nat) (R : List Char),
    (escapeChars s).length + 1 ≤ fuel →
    readStrBody fuel (escapeChars s ++ '"' :: R) = some (s, R)
  | [], fuel, R, hf => by
    obtain ⟨f, rfl⟩ : ∃ f, fuel = f + 1 := ⟨fuel - 1, by omega⟩
    simp [escapeChars, readStrBody]
  | c :: cs, fuel, R, hf => by
    obtain ⟨f, rfl⟩ : ∃ f, fuel = f + 1 := ⟨fuel - 1, by omega⟩
    have hne := escapeChar_ne_nil c
    have hlen : 0 < (escapeChar c).length := List.length_pos_iff.mpr hne
    simp only [escapeChars, List.length_append] at hf
    simp only [escapeChars, List.append_assoc]
    obtain ⟨d, ds, hd, hq⟩ := escapeChar_cons c (escapeChars cs ++ '"' :: R)
    have h1 := readChar1_escapeChar c (escapeChars cs ++ '"' :: R)
    rw [hd] at h1 ⊢
    simp only [readStrBody, if_neg hq, h1,
      readStrBody_escapeChars cs f R (by omega)]

/-- reading a string literal (after its opening quote) with the fuel `readVal` uses -/
theorem readStrBody_enc (s : String) (R : List Char) :
    readStrBody (escapeChars s.toList ++ '"' :: R).length (escapeChars s.toList ++ '"' :: R)
      = some (s.toList, R) := by
  apply readStrBody_escapeChars
  simp only [List.length_append, List.length_cons]
  omega

end Signac

/-
  Every document operation respects `Sim` (congruence), preserves well-formedness, and an
  operation that is not followed by a save leaves the value unchanged.  `memOp` (what the synced
  dict does) against `plainOp` (plain `dict` semantics): related results, unless `None` meets a
  dict / list inside `update` / `reset` (F-5d).
-/
import Signac.Proofs.DocWF
namespace Signac.Doc
open Signac

inductive OutSim : Out → Out → Prop
  | none : OutSim .none .none
  | val {v w : JVal} : Sim v w → OutSim (.val v) (.val w)
  | err (e : Err) : OutSim (.err e) (.err e)

structure ResSim (r r' : Res) : Prop where
  out : OutSim r.out r'.out
  val : Sim r.val r'.val
  saved : r.saved = r'.saved

theorem OutSim.refl : ∀ o, OutSim o o
  | .none => .none
  | .val v => .val (Sim.refl v)
  | .err e => .err e

theorem OutSim.symm {a b : Out} (h : OutSim a b) : OutSim b a := by
  cases h with
  | none => exact .none
  | val h => exact .val h.symm
  | err e => exact .err e

theorem OutSim.trans {a b c : Out} (h1 : OutSim a b) (h2 : OutSim b c) : OutSim a c := by
  cases h1 with
  | none => exact h2
  | val h => cases h2 with | val h' => exact .val (h.trans h')
  | err e => exact h2

theorem ResSim.symm {a b : Res} (h : ResSim a b) : ResSim b a := ⟨h.out.symm, h.val.symm, h.saved.symm⟩
theorem ResSim.trans {a b c : Res} (h1 : ResSim a b) (h2 : ResSim b c) : ResSim a c :=
  ⟨h1.out.trans h2.out, h1.val.trans h2.val, h1.saved.trans h2.saved⟩

/-! ### congruence of the primitives -/
theorem osim_of_sim {a b : Entries} (h : Sim (.obj a) (.obj b)) (k : String) :
    OSim (lookupKV k a) (lookupKV k b) := sim_obj_iff.mp h k

theorem sim_setKV {a b : Entries} {v w : JVal} (k : String) (h : Sim (.obj a) (.obj b)) (hv : Sim v w) :
    Sim (.obj (setKV k v a)) (.obj (setKV k w b)) := by
  rw [sim_obj_iff] at h ⊢
  intro k'
  rw [lookupKV_setKV, lookupKV_setKV]
  split
  · exact hv
  · exact h k'

theorem sim_eraseKV {a b : Entries} (k : String) (h : Sim (.obj a) (.obj b)) :
    Sim (.obj (eraseKV k a)) (.obj (eraseKV k b)) := by
  rw [sim_obj_iff] at h ⊢
  intro k'
  rw [lookupKV_eraseKV, lookupKV_eraseKV]
  split
  · trivial
  · exact h k'

theorem sim_overlay {a b : Entries} (other : Entries) (h : Sim (.obj a) (.obj b)) :
    Sim (.obj (overlay a other)) (.obj (overlay b other)) := by
  unfold overlay
  induction other generalizing a b with
  | nil => simpa using h
  | cons hd tl ih => simp only [List.foldl_cons]; exact ih (sim_setKV _ h (Sim.refl _))

theorem hasKey_congr {a b : Entries} (k : String) (h : Sim (.obj a) (.obj b)) : hasKey k a = hasKey k b := by
  have := osim_of_sim h k
  simp only [hasKey_eq]
  cases ha : lookupKV k a <;> cases hb : lookupKV k b <;> simp_all [OSim]

theorem sim_list_set {xs ys : List JVal} {x y : JVal} (j : Nat) (h : Sim (.arr xs) (.arr ys)) (hx : Sim x y) :
    Sim (.arr (xs.set j x)) (.arr (ys.set j y)) := by
  obtain ⟨hl, he⟩ := h.arr_inv
  refine .arr (by simp [hl]) (fun i a b ha hb => ?_)
  rw [List.getElem?_set] at ha hb
  by_cases hji : j = i
  · subst hji
    simp only [if_true] at ha hb
    split at ha
    · split at hb
      · cases ha; cases hb; exact hx
      · cases hb
    · cases ha
  · simp only [if_neg hji] at ha hb
    exact he i a b ha hb

theorem sim_list_append {xs ys : List JVal} (zs : List JVal) (h : Sim (.arr xs) (.arr ys)) :
    Sim (.arr (xs ++ zs)) (.arr (ys ++ zs)) := by
  obtain ⟨hl, he⟩ := h.arr_inv
  refine .arr (by simp [hl]) (fun i a b ha hb => ?_)
  rw [List.getElem?_append] at ha hb
  by_cases hi : i < xs.length
  · have hi' : i < ys.length := hl ▸ hi
    simp only [hi, hi', if_true] at ha hb
    exact he i a b (by simpa using ha) (by simpa using hb)
  · have hi' : ¬ i < ys.length := hl ▸ hi
    simp only [hi, hi', if_false] at ha hb
    rw [hl] at ha
    rw [ha] at hb; cases hb; exact Sim.refl _

/-- the five shapes a `Sim` pair can have -/
theorem sim_cases {v w : JVal} (h : Sim v w) :
    (v = .null ∧ w = .null) ∨ (∃ s, v = .str s ∧ w = .str s) ∨
    ((∃ p, numVal v = some p) ∧ (∃ q, numVal w = some q)) ∨
    (∃ xs ys, v = .arr xs ∧ w = .arr ys) ∨ (∃ a b, v = .obj a ∧ w = .obj b) := by
  cases h with
  | null => exact Or.inl ⟨rfl, rfl⟩
  | str s => exact Or.inr (Or.inl ⟨s, rfl, rfl⟩)
  | num ha hb _ => exact Or.inr (Or.inr (Or.inl ⟨⟨_, ha⟩, ⟨_, hb⟩⟩))
  | arr _ _ => exact Or.inr (Or.inr (Or.inr (Or.inl ⟨_, _, rfl, rfl⟩)))
  | obj _ _ => exact Or.inr (Or.inr (Or.inr (Or.inr ⟨_, _, rfl, rfl⟩)))

theorem numVal_some_cases {v : JVal} {p : Int × Nat} (h : numVal v = some p) :
    (∃ b, v = .bool b) ∨ (∃ i, v = .int i) ∨ (∃ n e r, v = .flt n e r) := by
  cases v <;> simp [numVal] at h <;> simp

/-- relation between the outcomes of one path step -/
def StepSim : Except Err JVal → Except Err JVal → Prop
  | .ok c, .ok c' => Sim c c'
  | .error e, .error e' => e = e'
  | _, _ => False

theorem StepSim.refl : ∀ x, StepSim x x
  | .ok c => Sim.refl c
  | .error _ => rfl

theorem stepInto_num {v : JVal} {p : Int × Nat} (h : numVal v = some p) (s : Seg) :
    stepInto v s = .error .typeError := by
  rcases numVal_some_cases h with ⟨b, rfl⟩ | ⟨i, rfl⟩ | ⟨n, e, r, rfl⟩ <;> cases s <;> rfl

theorem stepInto_sim {v w : JVal} (h : Sim v w) (s : Seg) : StepSim (stepInto v s) (stepInto w s) := by
  rcases sim_cases h with ⟨rfl, rfl⟩ | ⟨t, rfl, rfl⟩ | ⟨⟨p, hp⟩, ⟨q, hq⟩⟩ | ⟨xs, ys, rfl, rfl⟩ | ⟨a, b, rfl, rfl⟩
  · cases s <;> simp [stepInto, StepSim]
  · exact StepSim.refl _
  · rw [stepInto_num hp, stepInto_num hq]; simp [StepSim]
  · obtain ⟨hl, he⟩ := h.arr_inv
    cases s with
    | key k => simp [stepInto, StepSim]
    | idx i =>
      simp only [stepInto, hl]
      cases normIdx i ys.length with
      | none => simp [StepSim]
      | some j =>
        simp only
        cases hx : xs[j]? with
        | none =>
          have : ys[j]? = none := by
            rw [List.getElem?_eq_none_iff] at hx ⊢; omega
          simp [this, StepSim]
        | some x =>
          have hj : j < ys.length := by
            have := (List.getElem?_eq_some_iff.mp hx).1; omega
          simp only [List.getElem?_eq_getElem hj, StepSim]
          exact he j x _ hx (List.getElem?_eq_getElem hj)
  · cases s with
    | idx i => simp [stepInto, StepSim]
    | key k =>
      simp only [stepInto]
      have := osim_of_sim h k
      cases ha : lookupKV k a <;> cases hb : lookupKV k b <;> simp_all [OSim, StepSim]

theorem putBack_num {v : JVal} {p : Int × Nat} (h : numVal v = some p) (s : Seg) (c : JVal) :
    putBack v s c = v := by
  rcases numVal_some_cases h with ⟨b, rfl⟩ | ⟨i, rfl⟩ | ⟨n, e, r, rfl⟩ <;> cases s <;> rfl

theorem putBack_sim {v w c c' : JVal} (h : Sim v w) (hc : Sim c c') (s : Seg) :
    Sim (putBack v s c) (putBack w s c') := by
  rcases sim_cases h with ⟨rfl, rfl⟩ | ⟨t, rfl, rfl⟩ | ⟨⟨p, hp⟩, ⟨q, hq⟩⟩ | ⟨xs, ys, rfl, rfl⟩ | ⟨a, b, rfl, rfl⟩
  · cases s <;> exact h
  · cases s <;> exact h
  · rw [putBack_num hp, putBack_num hq]; exact h
  · cases s with
    | key k => exact h
    | idx i =>
      simp only [putBack, h.arr_inv.1]
      cases normIdx i ys.length with
      | none => exact h
      | some j => exact sim_list_set j h hc
  · cases s with
    | idx i => exact h
    | key k => exact sim_setKV k h hc

/-- a function on values that respects `Sim` -/
def Congr (f : JVal → Res) : Prop := ∀ v w, Sim v w → ResSim (f v) (f w)

theorem modAt_sim {f : JVal → Res} (hf : Congr f) (p : List Seg) {v w : JVal} (h : Sim v w) :
    ResSim (modAt f p v) (modAt f p w) := by
  induction p generalizing v w with
  | nil => exact hf v w h
  | cons s rest ih =>
    simp only [modAt]
    have hs := stepInto_sim h s
    cases hv : stepInto v s with
    | error e =>
      cases hw : stepInto w s with
      | error e' =>
        rw [hv, hw] at hs
        simp only [StepSim] at hs
        subst hs
        exact ⟨.err e, h, rfl⟩
      | ok c' => rw [hv, hw] at hs; exact hs.elim
    | ok c =>
      cases hw : stepInto w s with
      | error e' => rw [hv, hw] at hs; exact hs.elim
      | ok c' =>
        rw [hv, hw] at hs
        have r := ih (v := c) (w := c') hs
        exact ⟨r.out, putBack_sim h r.val s, r.saved⟩

theorem leaf_num {v : JVal} {p : Int × Nat} (h : numVal v = some p) :
    (∀ k x, leafSet k x v = ⟨.err .typeError, v, false⟩) ∧ (∀ k, leafDel k v = ⟨.err .typeError, v, false⟩) ∧
    (∀ vs, leafExtend vs v = ⟨.err .attributeError, v, false⟩) ∧
    (∀ i x, leafIdx i x v = ⟨.err .typeError, v, false⟩) := by
  rcases numVal_some_cases h with ⟨b, rfl⟩ | ⟨i, rfl⟩ | ⟨n, e, r, rfl⟩ <;> exact ⟨fun _ _ => rfl, fun _ => rfl, fun _ => rfl, fun _ _ => rfl⟩

theorem leafSet_congr (k : String) (x : JVal) : Congr (leafSet k x) := by
  intro v w h
  rcases sim_cases h with ⟨rfl, rfl⟩ | ⟨t, rfl, rfl⟩ | ⟨⟨p, hp⟩, ⟨q, hq⟩⟩ | ⟨xs, ys, rfl, rfl⟩ | ⟨a, b, rfl, rfl⟩
  · exact ⟨.err _, h, rfl⟩
  · exact ⟨.err _, h, rfl⟩
  · rw [(leaf_num hp).1, (leaf_num hq).1]; exact ⟨.err _, h, rfl⟩
  · exact ⟨.err _, h, rfl⟩
  · exact ⟨.none, sim_setKV k h (Sim.refl x), rfl⟩

theorem leafDel_congr (k : String) : Congr (leafDel k) := by
  intro v w h
  rcases sim_cases h with ⟨rfl, rfl⟩ | ⟨t, rfl, rfl⟩ | ⟨⟨p, hp⟩, ⟨q, hq⟩⟩ | ⟨xs, ys, rfl, rfl⟩ | ⟨a, b, rfl, rfl⟩
  · exact ⟨.err _, h, rfl⟩
  · exact ⟨.err _, h, rfl⟩
  · rw [(leaf_num hp).2.1, (leaf_num hq).2.1]; exact ⟨.err _, h, rfl⟩
  · exact ⟨.err _, h, rfl⟩
  · simp only [leafDel, hasKey_congr k h]
    split
    · exact ⟨.none, sim_eraseKV k h, rfl⟩
    · exact ⟨.err _, h, rfl⟩

theorem leafExtend_congr (vs : List JVal) : Congr (leafExtend vs) := by
  intro v w h
  rcases sim_cases h with ⟨rfl, rfl⟩ | ⟨t, rfl, rfl⟩ | ⟨⟨p, hp⟩, ⟨q, hq⟩⟩ | ⟨xs, ys, rfl, rfl⟩ | ⟨a, b, rfl, rfl⟩
  · exact ⟨.err _, h, rfl⟩
  · exact ⟨.err _, h, rfl⟩
  · rw [(leaf_num hp).2.2.1, (leaf_num hq).2.2.1]; exact ⟨.err _, h, rfl⟩
  · exact ⟨.none, sim_list_append vs h, rfl⟩
  · exact ⟨.err _, h, rfl⟩

theorem leafIdx_congr (i : Int) (x : JVal) : Congr (leafIdx i x) := by
  intro v w h
  rcases sim_cases h with ⟨rfl, rfl⟩ | ⟨t, rfl, rfl⟩ | ⟨⟨p, hp⟩, ⟨q, hq⟩⟩ | ⟨xs, ys, rfl, rfl⟩ | ⟨a, b, rfl, rfl⟩
  · exact ⟨.err _, h, rfl⟩
  · exact ⟨.err _, h, rfl⟩
  · rw [(leaf_num hp).2.2.2, (leaf_num hq).2.2.2]; exact ⟨.err _, h, rfl⟩
  · simp only [leafIdx, h.arr_inv.1]
    cases normIdx i ys.length with
    | none => exact ⟨.err _, h, rfl⟩
    | some j => exact ⟨.none, sim_list_set j h (Sim.refl x), rfl⟩
  · exact ⟨.err _, h, rfl⟩

theorem sim_entriesOf {v w : JVal} (h : Sim v w) : Sim (.obj (entriesOf v)) (.obj (entriesOf w)) := by
  rcases sim_cases h with ⟨rfl, rfl⟩ | ⟨t, rfl, rfl⟩ | ⟨⟨p, hp⟩, ⟨q, hq⟩⟩ | ⟨xs, ys, rfl, rfl⟩ | ⟨a, b, rfl, rfl⟩
  · exact Sim.refl _
  · exact Sim.refl _
  · rcases numVal_some_cases hp with ⟨b, rfl⟩ | ⟨i, rfl⟩ | ⟨n, e, r, rfl⟩ <;>
      rcases numVal_some_cases hq with ⟨b', rfl⟩ | ⟨i', rfl⟩ | ⟨n', e', r', rfl⟩ <;> exact Sim.refl _
  · exact Sim.refl _
  · exact h

/-- plain-dict operations respect `Sim` -/
theorem plainOp_sim (op : DictOp) {d s : JVal} (h : Sim d s) : ResSim (plainOp op d) (plainOp op s) := by
  have he := sim_entriesOf h
  cases op with
  | nset p k x => exact modAt_sim (leafSet_congr k x) p h
  | ndel p k => exact modAt_sim (leafDel_congr k) p h
  | napp p x => exact modAt_sim (leafExtend_congr [x]) p h
  | next p vs => exact modAt_sim (leafExtend_congr vs) p h
  | nidx p i x => exact modAt_sim (leafIdx_congr i x) p h
  | pop k dflt =>
    simp only [plainOp]
    have := osim_of_sim he k
    cases ha : lookupKV k (entriesOf d) <;> cases hb : lookupKV k (entriesOf s) <;> simp_all [OSim]
    · exact ⟨.val (Sim.refl _), h, rfl⟩
    · exact ⟨.val this, sim_eraseKV k he, rfl⟩
  | setdefault k x =>
    simp only [plainOp]
    have := osim_of_sim he k
    cases ha : lookupKV k (entriesOf d) <;> cases hb : lookupKV k (entriesOf s) <;> simp_all [OSim]
    · exact ⟨.val (Sim.refl _), sim_setKV k he (Sim.refl _), rfl⟩
    · exact ⟨.val this, h, rfl⟩
  | update other => exact ⟨.none, sim_overlay other he, rfl⟩
  | clear => exact ⟨.none, Sim.refl _, rfl⟩
  | reset new => exact ⟨.none, Sim.refl _, rfl⟩
  | get k =>
    simp only [plainOp]
    have := osim_of_sim he k
    cases ha : lookupKV k (entriesOf d) <;> cases hb : lookupKV k (entriesOf s) <;> simp_all [OSim]
    · exact ⟨.val .null, h, rfl⟩
    · exact ⟨.val this, h, rfl⟩
  | read => exact ⟨.val h, h, rfl⟩

/-! ### well-formedness is preserved -/
def WFOp : DictOp → Prop
  | .nset _ _ v => WF v
  | .ndel _ _ => True
  | .napp _ v => WF v
  | .next _ vs => ∀ x ∈ vs, WF x
  | .nidx _ _ v => WF v
  | .pop _ _ => True
  | .setdefault _ v => WF v
  | .update other => WF (.obj other)
  | .clear => True
  | .reset new => WF (.obj new)
  | .get _ => True
  | .read => True

theorem wf_stepInto {v c : JVal} {s : Seg} (hv : WF v) (h : stepInto v s = .ok c) : WF c := by
  cases s with
  | key k =>
    cases v <;> simp only [stepInto] at h <;> try (cases h)
    rename_i o
    cases hl : lookupKV k o with
    | none => simp [hl] at h
    | some x => simp [hl] at h; subst h; exact wf_lookup (by simp only [WF] at hv; exact hv.2) hl
  | idx i =>
    cases v <;> simp only [stepInto] at h <;> try (cases h)
    · rename_i t
      cases hn : normIdx i t.length with
      | none => simp [hn] at h
      | some j =>
        simp only [hn] at h
        cases hc : t.toList[j]? with
        | none => simp [hc] at h
        | some ch => simp [hc] at h; subst h; simp [WF]
    · rename_i xs
      cases hn : normIdx i xs.length with
      | none => simp [hn] at h
      | some j =>
        simp only [hn] at h
        cases hx : xs[j]? with
        | none => simp [hx] at h
        | some x => simp [hx] at h; subst h; exact wf_getElem? (by simpa [WF] using hv) hx

theorem wf_putBack {v c : JVal} (s : Seg) (hv : WF v) (hc : WF c) : WF (putBack v s c) := by
  cases s with
  | key k => cases v <;> simp only [putBack] <;> first | exact hv | exact wf_setKV hv hc
  | idx i =>
    cases v <;> simp only [putBack] <;> try exact hv
    rename_i xs
    cases normIdx i xs.length with
    | none => exact hv
    | some j => exact wf_set hv hc

theorem wf_modAt {f : JVal → Res} (hf : ∀ c, WF c → WF (f c).val) (p : List Seg) {v : JVal} (hv : WF v) :
    WF (modAt f p v).val := by
  induction p generalizing v with
  | nil => exact hf v hv
  | cons s rest ih =>
    simp only [modAt]
    cases hs : stepInto v s with
    | error e => exact hv
    | ok c => exact wf_putBack s hv (ih (wf_stepInto hv hs))

theorem wf_leafSet {k : String} {x c : JVal} (hx : WF x) (hc : WF c) : WF (leafSet k x c).val := by
  cases c <;> simp only [leafSet] <;> first | exact hc | exact wf_setKV hc hx

theorem wf_leafDel {k : String} {c : JVal} (hc : WF c) : WF (leafDel k c).val := by
  cases c <;> simp only [leafDel] <;> try exact hc
  split
  · exact wf_eraseKV hc
  · exact hc

theorem wf_leafExtend {vs : List JVal} {c : JVal} (hvs : ∀ x ∈ vs, WF x) (hc : WF c) :
    WF (leafExtend vs c).val := by
  cases c <;> simp only [leafExtend] <;> first | exact hc | exact wf_append hc hvs

theorem wf_leafIdx {i : Int} {x c : JVal} (hx : WF x) (hc : WF c) : WF (leafIdx i x c).val := by
  cases c <;> simp only [leafIdx] <;> try exact hc
  rename_i xs
  cases normIdx i xs.length with
  | none => exact hc
  | some j => exact wf_set hc hx

theorem wf_plainOp (op : DictOp) {d : JVal} (hd : WF d) (hop : WFOp op) : WF (plainOp op d).val := by
  cases op with
  | nset p k x => exact wf_modAt (fun c hc => wf_leafSet hop hc) p hd
  | ndel p k => exact wf_modAt (fun c hc => wf_leafDel hc) p hd
  | napp p x =>
    exact wf_modAt (fun c hc => wf_leafExtend (fun y hy => by
      simp only [List.mem_singleton] at hy; subst hy; exact hop) hc) p hd
  | next p vs => exact wf_modAt (fun c hc => wf_leafExtend hop hc) p hd
  | nidx p i x => exact wf_modAt (fun c hc => wf_leafIdx hop hc) p hd
  | pop k dflt =>
    simp only [plainOp]
    cases lookupKV k (entriesOf d) with
    | none => exact hd
    | some v => exact wf_eraseKV (wf_entriesOf hd)
  | setdefault k x =>
    simp only [plainOp]
    cases lookupKV k (entriesOf d) with
    | none => exact wf_setKV (wf_entriesOf hd) hop
    | some v => exact hd
  | update other => exact wf_overlay (wf_entriesOf hd) (wf_obj_inv hop).2
  | clear => exact wf_empty
  | reset new => exact hop
  | get k => exact hd
  | read => exact hd

theorem wf_memOp (op : DictOp) {d : JVal} (hd : WF d) (hop : WFOp op) : WF (memOp op d).val := by
  cases op with
  | update other =>
    exact wf_merge _ _ hd (wf_overlay (wf_entriesOf hd) (wf_obj_inv hop).2)
  | reset new => exact wf_merge _ _ hd hop
  | nset p k x => exact wf_plainOp (.nset p k x) hd hop
  | ndel p k => exact wf_plainOp (.ndel p k) hd hop
  | napp p x => exact wf_plainOp (.napp p x) hd hop
  | next p vs => exact wf_plainOp (.next p vs) hd hop
  | nidx p i x => exact wf_plainOp (.nidx p i x) hd hop
  | pop k dflt => exact wf_plainOp (.pop k dflt) hd hop
  | setdefault k x => exact wf_plainOp (.setdefault k x) hd hop
  | clear => exact wf_plainOp .clear hd hop
  | get k => exact wf_plainOp (.get k) hd hop
  | read => exact wf_plainOp .read hd hop

/-! ### the synced dict against the plain dict -/
theorem memOp_plain_sim (op : DictOp) {d s : JVal} (h : Sim d s) (hd : WF d) (hop : WFOp op)
    (hh : opHit op d = false) : ResSim (memOp op d) (plainOp op s) := by
  cases op with
  | update other =>
    have hX : WF (.obj (overlay (entriesOf d) other)) := wf_overlay (wf_entriesOf hd) (wf_obj_inv hop).2
    exact ⟨.none, (merge_sim _ _ hd hX hh).trans (sim_overlay other (sim_entriesOf h)), rfl⟩
  | reset new => exact ⟨.none, merge_sim _ _ hd hop hh, rfl⟩
  | nset p k x => exact plainOp_sim (.nset p k x) h
  | ndel p k => exact plainOp_sim (.ndel p k) h
  | napp p x => exact plainOp_sim (.napp p x) h
  | next p vs => exact plainOp_sim (.next p vs) h
  | nidx p i x => exact plainOp_sim (.nidx p i x) h
  | pop k dflt => exact plainOp_sim (.pop k dflt) h
  | setdefault k x => exact plainOp_sim (.setdefault k x) h
  | clear => exact plainOp_sim .clear h
  | get k => exact plainOp_sim (.get k) h
  | read => exact plainOp_sim .read h

theorem memOp_sim2 (op : DictOp) {d d' : JVal} (h : Sim d d') (hd : WF d) (hd' : WF d') (hop : WFOp op)
    (hh : opHit op d = false) (hh' : opHit op d' = false) : ResSim (memOp op d) (memOp op d') :=
  (memOp_plain_sim op h hd hop hh).trans (memOp_plain_sim op (Sim.refl d') hd' hop hh').symm

/-! ### an operation that is not followed by a save leaves the value as it was -/
theorem setKV_self {k : String} {c : JVal} {o : Entries} (h : lookupKV k o = some c) : setKV k c o = o := by
  induction o with
  | nil => simp [lookupKV] at h
  | cons hd tl ih =>
    obtain ⟨k₀, v₀⟩ := hd
    simp only [lookupKV] at h
    simp only [setKV]
    split at h
    · next hk => cases h; simp [hk]
    · next hk => simp [hk, ih h]

theorem putBack_stepInto {v c : JVal} {s : Seg} (h : stepInto v s = .ok c) : putBack v s c = v := by
  cases s with
  | key k =>
    cases v <;> simp only [stepInto] at h <;> try (cases h)
    rename_i o
    cases hl : lookupKV k o with
    | none => simp [hl] at h
    | some x => simp [hl] at h; subst h; simp [putBack, setKV_self hl]
  | idx i =>
    cases v <;> simp only [putBack] <;> try rfl
    rename_i xs
    simp only [stepInto] at h
    cases hn : normIdx i xs.length with
    | none => rfl
    | some j =>
      simp only [hn] at h ⊢
      cases hx : xs[j]? with
      | none => simp [hx] at h
      | some x =>
        simp [hx] at h; subst h
        obtain ⟨hj, rfl⟩ := List.getElem?_eq_some_iff.mp hx
        rw [List.set_getElem_self hj]

theorem modAt_unsaved {f : JVal → Res} (hf : ∀ c, (f c).saved = false → (f c).val = c) (p : List Seg) (v : JVal)
    (h : (modAt f p v).saved = false) : (modAt f p v).val = v := by
  induction p generalizing v with
  | nil => exact hf v h
  | cons s rest ih =>
    simp only [modAt] at h ⊢
    cases hs : stepInto v s with
    | error e => rfl
    | ok c =>
      simp only [hs] at h ⊢
      rw [ih c h]; exact putBack_stepInto hs

theorem plainOp_unsaved (op : DictOp) (d : JVal) (h : (plainOp op d).saved = false) : (plainOp op d).val = d := by
  cases op with
  | nset p k x =>
    refine modAt_unsaved (fun c hc => ?_) p d h
    cases c <;> simp_all [leafSet]
  | ndel p k =>
    refine modAt_unsaved (fun c hc => ?_) p d h
    cases c <;> simp only [leafDel] at hc ⊢ <;> try rfl
    all_goals (split at hc <;> simp_all)
  | napp p x =>
    refine modAt_unsaved (fun c hc => ?_) p d h
    cases c <;> simp_all [leafExtend]
  | next p vs =>
    refine modAt_unsaved (fun c hc => ?_) p d h
    cases c <;> simp_all [leafExtend]
  | nidx p i x =>
    refine modAt_unsaved (fun c hc => ?_) p d h
    cases c <;> simp only [leafIdx] at hc ⊢ <;> try rfl
    rename_i xs
    cases hn : normIdx i xs.length <;> simp_all
  | pop k dflt => simp only [plainOp] at h; split at h <;> simp at h
  | setdefault k x => simp only [plainOp] at h; split at h <;> simp at h
  | update other => simp [plainOp] at h
  | clear => simp [plainOp] at h
  | reset new => simp [plainOp] at h
  | get k => rfl
  | read => rfl

theorem memOp_unsaved (op : DictOp) (d : JVal) (h : (memOp op d).saved = false) : (memOp op d).val = d := by
  cases op with
  | update other => simp [memOp] at h
  | reset new => simp [memOp] at h
  | nset p k x => exact plainOp_unsaved (.nset p k x) d h
  | ndel p k => exact plainOp_unsaved (.ndel p k) d h
  | napp p x => exact plainOp_unsaved (.napp p x) d h
  | next p vs => exact plainOp_unsaved (.next p vs) d h
  | nidx p i x => exact plainOp_unsaved (.nidx p i x) d h
  | pop k dflt => exact plainOp_unsaved (.pop k dflt) d h
  | setdefault k x => exact plainOp_unsaved (.setdefault k x) d h
  | clear => exact plainOp_unsaved .clear d h
  | get k => exact plainOp_unsaved (.get k) d h
  | read => exact plainOp_unsaved .read d h

end Signac.Doc

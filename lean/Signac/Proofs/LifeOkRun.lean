/-
  "A run that returns normally is the event-free run."

  Part 1 (all programs): a run under an arbitrary schedule that consumed no fault
  (`faulted = false`) and did not die (`res ≠ crashed`) met only `none` events and IS the
  event-free run — the whole `Outcome` (world, result, step count, trace, flag) is equal
  (`run_eq_noEv_of_quiet`).  The two hypotheses are exactly quietness, for every event kind:
    * `crash` and `torn t` end the run at once with `res = crashed` (nothing runs after a death,
      so no program can turn it into another result),
    * `fault e` sets the sticky flag `faulted` (`exec_faulted_mono`).
  Events placed at or after the number of steps the run announces are never looked at
  (`run_eq_noEv_of_prefix`).

  Part 2 (per operation): `res = ok` ⇒ no fault consumed ⇒ the event-free run.
    * init (any `force`), move (any keys), clone (any keys): unconditionally.
    * re-key, remove, clear: only when ENOENT is not injected — the code reads ENOENT as
      "not there" and goes on, so an INJECTED ENOENT is swallowed and the call returns normally
      with work left undone (`rekey_enoent_swallowed`, `remove_enoent_swallowed`,
      `clear_enoent_swallowed`: concrete schedules).  `…_partial` = with `NoENOENT ev`.
-/
import Signac.Proofs.LifeGood
namespace Signac.Life
variable {Sp : Type}

/- ================================================================ part 1: all programs -/

/-- the flag `faulted` is sticky -/
theorem exec_faulted_mono (C : Codec Sp) (ev : Nat → Option Ev) (p : Prog Sp) :
    ∀ (a : Acc Sp) (w : World Sp), a.faulted = true → (exec C ev p a w).acc.faulted = true := by
  induction p with
  | done r => intro a w h; simpa [exec] using h
  | look f ih => intro a w h; simp only [exec]; exact ih w a w h
  | step s k ih =>
    intro a w h
    simp only [exec]
    split
    · exact h
    · exact h
    · exact ih _ _ _ rfl
    · split
      · exact ih _ _ _ (by simpa [Acc.ok] using h)
      · exact ih _ _ _ (by simpa [Acc.ok] using h)

/-- the step counter only grows -/
theorem exec_n_mono (C : Codec Sp) (ev : Nat → Option Ev) (p : Prog Sp) :
    ∀ (a : Acc Sp) (w : World Sp), a.n ≤ (exec C ev p a w).acc.n := by
  induction p with
  | done r => intro a w; simp [exec]
  | look f ih => intro a w; simp only [exec]; exact ih w a w
  | step s k ih =>
    intro a w
    simp only [exec]
    split
    · exact Nat.le_refl _
    · exact Nat.le_refl _
    · exact Nat.le_trans (by simp [Acc.flt]) (ih _ _ _)
    · split
      · exact Nat.le_trans (by simp [Acc.ok]) (ih _ _ _)
      · exact Nat.le_trans (by simp [Acc.ok]) (ih _ _ _)

theorem exec_step_none (C : Codec Sp) (ev : Nat → Option Ev) (s : Step Sp) (k : Option Errno → Prog Sp)
    (a : Acc Sp) (w : World Sp) (h : ev a.n = none) :
    exec C ev (.step s k) a w =
      match apply C w s with
      | .ok w' => exec C ev (k none) (a.ok s) w'
      | .error e => exec C ev (k (some e)) (a.ok s) w := by
  rw [exec]; simp only [h]
  cases apply C w s <;> rfl

/-- no fault consumed and no death ⇒ the run is the event-free run (from any accumulator) -/
theorem exec_eq_noEv_of_quiet (C : Codec Sp) (ev : Nat → Option Ev) (p : Prog Sp) :
    ∀ (a : Acc Sp) (w : World Sp), (exec C ev p a w).acc.faulted = false →
      (exec C ev p a w).res ≠ .crashed → exec C ev p a w = exec C noEv p a w := by
  induction p with
  | done r => intro a w _ _; simp only [exec]
  | look f ih => intro a w h1 h2; simp only [exec] at h1 h2 ⊢; exact ih w a w h1 h2
  | step s k ih =>
    intro a w h1 h2
    cases hev : ev a.n with
    | some e =>
      exfalso
      rw [exec] at h1 h2
      simp only [hev] at h1 h2
      cases e with
      | crash => exact h2 rfl
      | torn t => exact h2 rfl
      | fault e =>
        rw [exec_faulted_mono C ev _ _ _ rfl] at h1; cases h1
    | none =>
      rw [exec_step_none C ev s k a w hev] at h1 h2 ⊢
      rw [exec_step_none C noEv s k a w rfl]
      cases happ : apply C w s with
      | ok w' => simp only [happ] at h1 h2 ⊢; exact ih _ _ _ h1 h2
      | error e => simp only [happ] at h1 h2 ⊢; exact ih _ _ _ h1 h2

/-- … and every event the run looked at was `none` -/
theorem exec_quiet_events_none (C : Codec Sp) (ev : Nat → Option Ev) (p : Prog Sp) :
    ∀ (a : Acc Sp) (w : World Sp), (exec C ev p a w).acc.faulted = false →
      (exec C ev p a w).res ≠ .crashed →
      ∀ i, a.n ≤ i → i < (exec C ev p a w).acc.n → ev i = none := by
  induction p with
  | done r => intro a w _ _ i h1 h2; simp only [exec] at h2; omega
  | look f ih => intro a w h1 h2; simp only [exec] at h1 h2 ⊢; exact ih w a w h1 h2
  | step s k ih =>
    intro a w h1 h2
    cases hev : ev a.n with
    | some e =>
      exfalso
      rw [exec] at h1 h2
      simp only [hev] at h1 h2
      cases e with
      | crash => exact h2 rfl
      | torn t => exact h2 rfl
      | fault e =>
        rw [exec_faulted_mono C ev _ _ _ rfl] at h1; cases h1
    | none =>
      rw [exec_step_none C ev s k a w hev] at h1 h2 ⊢
      intro i hi1 hi2
      by_cases hi : i = a.n
      · rw [hi]; exact hev
      · cases happ : apply C w s with
        | ok w' =>
          simp only [happ] at h1 h2 hi2
          exact ih _ _ _ h1 h2 i (by simp only [Acc.ok]; omega) hi2
        | error e =>
          simp only [happ] at h1 h2 hi2
          exact ih _ _ _ h1 h2 i (by simp only [Acc.ok]; omega) hi2

/-- a schedule that is `none` on the steps the event-free run announces gives the event-free run:
    events placed after the last step are never looked at -/
theorem exec_eq_noEv_of_prefix (C : Codec Sp) (ev : Nat → Option Ev) (p : Prog Sp) :
    ∀ (a : Acc Sp) (w : World Sp),
      (∀ i, a.n ≤ i → i < (exec C noEv p a w).acc.n → ev i = none) →
      exec C ev p a w = exec C noEv p a w := by
  induction p with
  | done r => intro a w _; simp only [exec]
  | look f ih => intro a w h; simp only [exec] at h ⊢; exact ih w a w h
  | step s k ih =>
    intro a w h
    rw [exec_step_none C noEv s k a w rfl] at h ⊢
    have hev : ev a.n = none := by
      refine h a.n (Nat.le_refl _) ?_
      cases happ : apply C w s with
      | ok w' => exact Nat.lt_of_lt_of_le (by simp [Acc.ok]) (exec_n_mono C noEv _ _ _)
      | error e => exact Nat.lt_of_lt_of_le (by simp [Acc.ok]) (exec_n_mono C noEv _ _ _)
    rw [exec_step_none C ev s k a w hev]
    cases happ : apply C w s with
    | ok w' =>
      simp only [happ] at h ⊢
      exact ih _ _ _ (fun i hi1 hi2 => h i (by simp only [Acc.ok] at hi1; omega) hi2)
    | error e =>
      simp only [happ] at h ⊢
      exact ih _ _ _ (fun i hi1 hi2 => h i (by simp only [Acc.ok] at hi1; omega) hi2)

/-- **Part 1.**  A run that consumed no fault and did not end in a death is the event-free run:
    the same final world, result, step count, trace and flag. -/
theorem run_eq_noEv_of_quiet (C : Codec Sp) (ev : Nat → Option Ev) (p : Prog Sp) (w : World Sp)
    (hf : (run C ev p w).faulted = false) (hc : (run C ev p w).res ≠ .crashed) :
    run C ev p w = run C noEv p w :=
  exec_eq_noEv_of_quiet C ev p {} w hf hc

/-- the hypotheses of `run_eq_noEv_of_quiet` say exactly that every event looked at was `none` -/
theorem run_quiet_events_none (C : Codec Sp) (ev : Nat → Option Ev) (p : Prog Sp) (w : World Sp)
    (hf : (run C ev p w).faulted = false) (hc : (run C ev p w).res ≠ .crashed) :
    ∀ i, i < (run C ev p w).acc.n → ev i = none :=
  fun i hi => exec_quiet_events_none C ev p {} w hf hc i (Nat.zero_le _) hi

/-- conversely a schedule without events on the steps of the event-free run changes nothing -/
theorem run_eq_noEv_of_prefix (C : Codec Sp) (ev : Nat → Option Ev) (p : Prog Sp) (w : World Sp)
    (h : ∀ i, i < (run C noEv p w).acc.n → ev i = none) : run C ev p w = run C noEv p w :=
  exec_eq_noEv_of_prefix C ev p {} w (fun i _ hi => h i hi)

/-- the event-free run consumes no fault and does not die unless the program says so -/
theorem run_noEv_faulted (C : Codec Sp) (p : Prog Sp) (w : World Sp) : (run C noEv p w).faulted = false := by
  suffices h : ∀ (p : Prog Sp) (a : Acc Sp) (w : World Sp), (exec C noEv p a w).acc.faulted = a.faulted from
    h p {} w
  intro p
  induction p with
  | done r => intro a w; simp only [exec]
  | look f ih => intro a w; simp only [exec]; exact ih w a w
  | step s k ih =>
    intro a w
    rw [exec_step_none C noEv s k a w rfl]
    cases happ : apply C w s with
    | ok w' => simp only []; rw [ih]; rfl
    | error e => simp only []; rw [ih]; rfl

/-- the form used below: a normal return without a consumed fault -/
theorem run_eq_noEv_of_ok (C : Codec Sp) (ev : Nat → Option Ev) (p : Prog Sp) (w : World Sp)
    (hok : (run C ev p w).res = .ok) (hf : (run C ev p w).faulted = false) :
    run C ev p w = run C noEv p w :=
  run_eq_noEv_of_quiet C ev p w hf (by rw [hok]; simp)

/- ================================================================ part 2: the operations -/

/- ---------------------------------------------------------------- init (any `force`) -/
theorem apply_tmpOpen_valid (C : Codec Sp) (w w' : World Sp) (k : Key) (n : String)
    (h : apply C w (.tmpOpen k n) = .ok w') : validAt C w' k = validAt C w k := by
  simp only [apply] at h
  split at h
  · cases h
  · rename_i d hd; cases h; simp [validAt, hd, JobDir.valid]

theorem apply_tmpWrite_valid (C : Codec Sp) (w w' : World Sp) (k : Key) (n : String) (c : Content Sp)
    (h : apply C w (.tmpWrite k n c) = .ok w') : validAt C w' k = validAt C w k := by
  simp only [apply] at h
  split at h
  · cases h
  · rename_i d hd; cases h; simp [validAt, hd, JobDir.valid]

theorem load_acc (C : Codec Sp) (ev : Nat → Option Ev) (k : Key) (a : Acc Sp) (w : World Sp) :
    (exec C ev (loadProg C k) a w).acc = a := by
  simp only [loadProg, exec]; split <;> rfl

theorem load_not_ok (C : Codec Sp) (ev : Nat → Option Ev) (k : Key) (a : Acc Sp) (w : World Sp)
    (hv : validAt C w k = false) : (exec C ev (loadProg C k) a w).res ≠ .ok := by
  simp [loadProg, exec, hv]

/-- the error path of `save` followed by the closing `load`, in a directory that does not
    validate: also a SWALLOWED errno (EEXIST / EACCES) ends in an exception, because the `load`
    finds no valid state-point file -/
theorem saveErr_not_ok (C : Codec Sp) (ev : Nat → Option Ev) (k : Key) (e : Errno) (a : Acc Sp) (w : World Sp)
    (hv : validAt C w k = false) :
    (exec C ev (if e = .EEXIST ∨ e = .EACCES then loadProg C k
                else .step (.rmSp k) (fun _ => .done (osExc e))) a w).res ≠ .ok := by
  split
  · exact load_not_ok C ev k a w hv
  · refine exec_step C ev (fun o => o.res ≠ .ok) _ _ a w (by simp) (fun t => by simp) ?_ ?_ ?_ <;>
      intros <;> simp [exec, osExc]

/-- `save` + `load` in a directory that does not validate: a normal return consumed no fault -/
theorem save_load_ok (C : Codec Sp) (ev : Nat → Option Ev) (k : Key) (v : Sp) (f : Bool) (a : Acc Sp)
    (w : World Sp) (hv : validAt C w k = false)
    (hok : (exec C ev (saveProg k v f (loadProg C k)) a w).res = .ok) :
    (exec C ev (saveProg k v f (loadProg C k)) a w).acc.faulted = a.faulted := by
  revert hok
  simp only [saveProg]
  rw [exec]
  split
  · refine exec_step C ev (fun o => o.res = .ok → o.acc.faulted = a.faulted) _ _ a w
      (fun h => by cases h) (fun t h => by cases h) ?_ ?_ ?_
    · intro e _ h; exact absurd h (saveErr_not_ok C ev k e _ _ hv)
    · intro w1 hw1
      have hv1 : validAt C w1 k = false := by rw [apply_tmpOpen_valid C w w1 k _ hw1]; exact hv
      refine exec_step C ev (fun o => o.res = .ok → o.acc.faulted = a.faulted) _ _ _ w1
        (fun h => by cases h) (fun t h => by cases h) ?_ ?_ ?_
      · intro e _ h; exact absurd h (saveErr_not_ok C ev k e _ _ hv1)
      · intro w2 hw2
        have hv2 : validAt C w2 k = false := by rw [apply_tmpWrite_valid C w1 w2 k _ _ hw2]; exact hv1
        refine exec_step C ev (fun o => o.res = .ok → o.acc.faulted = a.faulted) _ _ _ w2
          (fun h => by cases h) (fun t h => by cases h) ?_ ?_ ?_
        · intro e _ h; exact absurd h (saveErr_not_ok C ev k e _ _ hv2)
        · intro w3 _ _; rw [load_acc]; rfl
        · intro e _ h; exact absurd h (saveErr_not_ok C ev k e _ _ hv2)
      · intro e _ h; exact absurd h (saveErr_not_ok C ev k e _ _ hv1)
    · intro e _ h; exact absurd h (saveErr_not_ok C ev k e _ _ hv)
  · intro h; exact absurd h (load_not_ok C ev k a w hv)

/-- `Job.init(force)`, any `force`, any world: a normal return consumed no fault -/
theorem init_ok_not_faulted (C : Codec Sp) (ev : Nat → Option Ev) (k : Key) (v : Sp) (f : Bool) (a : Acc Sp)
    (w : World Sp) (hok : (exec C ev (initProg C k v f) a w).res = .ok) :
    (exec C ev (initProg C k v f) a w).acc.faulted = a.faulted := by
  revert hok
  simp only [initProg]
  rw [exec]
  split
  · intro _; simp only [exec]
  · rename_i hv
    have hv : validAt C w k = false := by simpa using hv
    split
    · exact save_load_ok C ev k v f a w hv
    · rename_i hnone
      have hw : w k = none := by
        cases h : w k with
        | none => rfl
        | some d => simp [h] at hnone
      refine exec_step C ev (fun o => o.res = .ok → o.acc.faulted = a.faulted) _ _ a w
        (fun h => by cases h) (fun t h => by cases h) ?_ ?_ ?_
      · intro e _ h; simp [exec, osExc] at h
      · intro w1 hw1 h
        simp only [apply, hw] at hw1
        cases hw1
        exact save_load_ok C ev k v f _ _ (by simp [validAt, JobDir.valid]) h
      · intro e _ h; simp [exec, osExc] at h

/- ---------------------------------------------------------------- move (any keys) -/
theorem move_ok_not_faulted (C : Codec Sp) (ev : Nat → Option Ev) (a b : Key) (acc : Acc Sp) (w : World Sp)
    (hok : (exec C ev (moveProg a b) acc w).res = .ok) :
    (exec C ev (moveProg a b) acc w).acc.faulted = acc.faulted := by
  revert hok
  simp only [moveProg]
  refine exec_step C ev (fun o => o.res = .ok → o.acc.faulted = acc.faulted) _ _ acc w
    (fun h => by cases h) (fun t h => by cases h) ?_ ?_ ?_
  · intro e _
    dsimp only
    repeat' split
    all_goals simp [exec, osExc]
  · intro w' _ _; simp [exec, Acc.ok]
  · intro e _
    dsimp only
    repeat' split
    all_goals simp [exec, osExc]

/- ---------------------------------------------------------------- clone (any keys) -/
theorem clone_ok_not_faulted (C : Codec Sp) (ev : Nat → Option Ev) (src dst : Key) (order : List Ref)
    (a : Acc Sp) (w : World Sp) (hok : (exec C ev (cloneProg src dst order) a w).res = .ok) :
    (exec C ev (cloneProg src dst order) a w).acc.faulted = a.faulted := by
  revert hok
  simp only [cloneProg]
  rw [exec]
  cases hS : w src with
  | none => intro h; simp [exec] at h
  | some S =>
    dsimp only
    refine exec_step C ev (fun o => o.res = .ok → o.acc.faulted = a.faulted) _ _ a w
      (fun h => by cases h) (fun t h => by cases h) ?_ ?_ ?_
    · intro e _
      dsimp only
      repeat' split
      all_goals simp [exec, osExc]
    · intro w' _ h
      exact (copyList_ok C ev S dst order false [] _ w' h).2
    · intro e _
      dsimp only
      repeat' split
      all_goals simp [exec, osExc]

/- ---------------------------------------------------------------- the theorems -/

/-- `Job.init(force)`: a normal return under ANY schedule is the event-free run.  (EEXIST / EACCES
    are swallowed by `save`, but the closing `load` then raises.) -/
theorem init_ok_run_is_event_free (C : Codec Sp) (ev : Nat → Option Ev) (k : Key) (v : Sp) (f : Bool)
    (w : World Sp) (hok : (run C ev (initProg C k v f) w).res = .ok) :
    run C ev (initProg C k v f) w = run C noEv (initProg C k v f) w :=
  run_eq_noEv_of_ok C ev _ w hok (init_ok_not_faulted C ev k v f {} w hok)

/-- `Job.move`: a normal return under ANY schedule is the event-free run -/
theorem move_ok_run_is_event_free (C : Codec Sp) (ev : Nat → Option Ev) (a b : Key) (w : World Sp)
    (hok : (run C ev (moveProg a b) w).res = .ok) :
    run C ev (moveProg a b) w = run C noEv (moveProg a b) w :=
  run_eq_noEv_of_ok C ev _ w hok (move_ok_not_faulted C ev a b {} w hok)

/-- `Project.clone`: a normal return under ANY schedule is the event-free run -/
theorem clone_ok_run_is_event_free (C : Codec Sp) (ev : Nat → Option Ev) (src dst : Key) (order : List Ref)
    (w : World Sp) (hok : (run C ev (cloneProg src dst order) w).res = .ok) :
    run C ev (cloneProg src dst order) w = run C noEv (cloneProg src dst order) w :=
  run_eq_noEv_of_ok C ev _ w hok (clone_ok_not_faulted C ev src dst order {} w hok)

/-- every covered operation, ENOENT not injected: from `fault_good_of_run`
    ("a consumed fault ends in an exception") -/
theorem covered_ok_not_faulted (C : Codec Sp) (op : Op Sp) (hc : op.covered) (ev : Nat → Option Ev)
    (hne : NoENOENT ev) (w : World Sp) (hok : (run C ev (op.prog C) w).res = .ok) :
    (run C ev (op.prog C) w).faulted = false := by
  cases hf : (run C ev (op.prog C) w).faulted with
  | false => rfl
  | true =>
    obtain ⟨⟨n, hn⟩, _⟩ := fault_good_of_run C op hc w ev hne hf (by rw [hok]; simp)
    rw [hok] at hn; cases hn

theorem covered_ok_run_is_event_free (C : Codec Sp) (op : Op Sp) (hc : op.covered) (ev : Nat → Option Ev)
    (hne : NoENOENT ev) (w : World Sp) (hok : (run C ev (op.prog C) w).res = .ok) :
    run C ev (op.prog C) w = run C noEv (op.prog C) w :=
  run_eq_noEv_of_ok C ev _ w hok (covered_ok_not_faulted C op hc ev hne w hok)

/-- state-point change, ENOENT not injected -/
theorem rekey_ok_run_is_event_free_partial (C : Codec Sp) (ev : Nat → Option Ev) (x y : Key) (v : Sp)
    (hxy : x ≠ y) (hne : NoENOENT ev) (w : World Sp) (hok : (run C ev (rekeyProg C x y v) w).res = .ok) :
    run C ev (rekeyProg C x y v) w = run C noEv (rekeyProg C x y v) w :=
  covered_ok_run_is_event_free C (.rekey x y v) hxy ev hne w hok

/-- `Job.remove`, ENOENT not injected -/
theorem remove_ok_run_is_event_free_partial (C : Codec Sp) (ev : Nat → Option Ev) (k : Key) (order : List Ref)
    (hne : NoENOENT ev) (w : World Sp) (hok : (run C ev (removeProg k order) w).res = .ok) :
    run C ev (removeProg k order) w = run C noEv (removeProg k order) w :=
  covered_ok_run_is_event_free C (.remove k order) trivial ev hne w hok

/-- `Job.clear`, ENOENT not injected -/
theorem clear_ok_run_is_event_free_partial (C : Codec Sp) (ev : Nat → Option Ev) (k : Key) (order : List Ref)
    (hne : NoENOENT ev) (w : World Sp) (hok : (run C ev (clearProg k order) w).res = .ok) :
    run C ev (clearProg k order) w = run C noEv (clearProg k order) w :=
  covered_ok_run_is_event_free C (.clear k order) trivial ev hne w hok

/-- the operations whose code reads ENOENT as "not there" and goes on -/
def Op.readsENOENT : Op Sp → Prop
  | .rekey _ _ _ => True
  | .remove _ _ => True
  | .clear _ _ => True
  | _ => False

/-- re-key: source and destination directory differ (the side condition of `Op.covered`) -/
def Op.distinct : Op Sp → Prop
  | .rekey x y _ => x ≠ y
  | _ => True

/-- all six operations at once: a normal return is the event-free run, provided ENOENT is not
    injected into the three operations that read it as "not there" -/
theorem ok_run_is_event_free_partial (C : Codec Sp) (op : Op Sp) (hd : op.distinct) (ev : Nat → Option Ev)
    (hne : op.readsENOENT → NoENOENT ev) (w : World Sp) (hok : (run C ev (op.prog C) w).res = .ok) :
    run C ev (op.prog C) w = run C noEv (op.prog C) w := by
  cases op with
  | init k v f => exact init_ok_run_is_event_free C ev k v f w hok
  | rekey x y v => exact rekey_ok_run_is_event_free_partial C ev x y v hd (hne trivial) w hok
  | move a b => exact move_ok_run_is_event_free C ev a b w hok
  | clone s d o => exact clone_ok_run_is_event_free C ev s d o w hok
  | remove k o => exact remove_ok_run_is_event_free_partial C ev k o (hne trivial) w hok
  | clear k o => exact clear_ok_run_is_event_free_partial C ev k o (hne trivial) w hok

/- ---------------------------------------------------------------- the findings: swallowed ENOENT -/
def bakPresent (w : World Sp) (k : Key) : Bool :=
  match w k with
  | some d => d.bak.isSome
  | none => false

/-- re-key `j → x` of the job of `cexW`; the removal of the parked backup `x/signac_statepoint.json~`
    (step 2) fails with an injected ENOENT.  The code reads this as "no backup there", goes on,
    writes the new state-point file and returns normally — the backup file with the OLD state point
    stays in the new directory.  The event-free run leaves no backup. -/
theorem rekey_enoent_swallowed :
    let o := run cexCodec (faultAt 2 .ENOENT) (rekeyProg cexCodec cexSrc (0, "x") 2) cexW
    let o0 := run cexCodec noEv (rekeyProg cexCodec cexSrc (0, "x") 2) cexW
    o.res = .ok ∧ o.faulted = true ∧ validAt cexCodec o.w (0, "x") = true ∧
      bakPresent o.w (0, "x") = true ∧ o0.res = .ok ∧ bakPresent o0.w (0, "x") = false :=
  ⟨by decide, by decide, by decide, by decide, by decide, by decide⟩

/-- `remove` of the job of `cexW`; the first unlink (step 0, the state-point file) fails with an
    injected ENOENT.  `rmErr` reads it as "already gone" and returns normally at once: the directory
    and its data file are still there.  The event-free run removes the directory. -/
theorem remove_enoent_swallowed :
    let o := run cexCodec (faultAt 0 .ENOENT) (removeProg (Sp := Nat) cexSrc cexOrder) cexW
    let o0 := run cexCodec noEv (removeProg (Sp := Nat) cexSrc cexOrder) cexW
    o.res = .ok ∧ o.faulted = true ∧ (o.w cexSrc).isSome = true ∧ validAt cexCodec o.w cexSrc = true ∧
      o0.res = .ok ∧ (o0.w cexSrc).isSome = false :=
  ⟨by decide, by decide, by decide, by decide, by decide, by decide⟩

def hasFile (w : World Sp) (k : Key) (p : String) : Bool :=
  match w k with
  | some d => (getEntry p d.entries).isSome
  | none => false

/-- `clear` of the job of `cexW`; the unlink of the data file `f` (step 0) fails with an injected
    ENOENT: normal return, `f` still there, the document is not reset.  The event-free run deletes
    `f` and writes the empty document. -/
theorem clear_enoent_swallowed :
    let o := run cexCodec (faultAt 0 .ENOENT) (clearProg (Sp := Nat) cexSrc cexOrder) cexW
    let o0 := run cexCodec noEv (clearProg (Sp := Nat) cexSrc cexOrder) cexW
    o.res = .ok ∧ o.faulted = true ∧ hasFile o.w cexSrc "f" = true ∧ hasFile o.w cexSrc docName = false ∧
      o0.res = .ok ∧ hasFile o0.w cexSrc "f" = false ∧ hasFile o0.w cexSrc docName = true :=
  ⟨by decide, by decide, by decide, by decide, by decide, by decide, by decide⟩

/-- the statement without the ENOENT proviso (already its weakest form: final worlds only) -/
def ok_run_is_event_free_full : Prop :=
  ∀ (Sp : Type) (C : Codec Sp) (op : Op Sp) (ev : Nat → Option Ev) (w : World Sp), op.covered →
    (run C ev (op.prog C) w).res = .ok → (run C ev (op.prog C) w).w = (run C noEv (op.prog C) w).w

/-- … is false of the model — for re-key, for remove and for clear -/
theorem ok_run_is_event_free_full_false : ¬ ok_run_is_event_free_full := by
  intro h
  have h1 := h Nat cexCodec (.remove cexSrc cexOrder) (faultAt 0 .ENOENT) cexW trivial
    remove_enoent_swallowed.1
  have h2 := remove_enoent_swallowed.2.2.1
  have h3 := remove_enoent_swallowed.2.2.2.2.2
  simp only [Op.prog] at h1
  rw [h1, h3] at h2
  cases h2

theorem ok_run_is_event_free_false_rekey :
    ¬ ∀ (ev : Nat → Option Ev), (run cexCodec ev (rekeyProg cexCodec cexSrc (0, "x") 2) cexW).res = .ok →
      (run cexCodec ev (rekeyProg cexCodec cexSrc (0, "x") 2) cexW).w =
        (run cexCodec noEv (rekeyProg cexCodec cexSrc (0, "x") 2) cexW).w := by
  intro h
  have h1 := h (faultAt 2 .ENOENT) rekey_enoent_swallowed.1
  have h2 := rekey_enoent_swallowed.2.2.2.1
  have h3 := rekey_enoent_swallowed.2.2.2.2.2
  rw [h1, h3] at h2
  cases h2

theorem ok_run_is_event_free_false_clear :
    ¬ ∀ (ev : Nat → Option Ev), (run cexCodec ev (clearProg (Sp := Nat) cexSrc cexOrder) cexW).res = .ok →
      (run cexCodec ev (clearProg (Sp := Nat) cexSrc cexOrder) cexW).w =
        (run cexCodec noEv (clearProg (Sp := Nat) cexSrc cexOrder) cexW).w := by
  intro h
  have h1 := h (faultAt 0 .ENOENT) clear_enoent_swallowed.1
  have h2 := clear_enoent_swallowed.2.2.1
  have h3 := clear_enoent_swallowed.2.2.2.2.2.1
  rw [h1, h3] at h2
  cases h2

end Signac.Life

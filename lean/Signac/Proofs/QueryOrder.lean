/-
  Helper lemmas for C07 (groupby): on well-formed values (`keysOK`: distinct keys in every mapping)
  Python's three-way comparison `pyCmp` is a consistent partial preorder —
    * where it answers at all, `eq` is exactly `==`;
    * swapping the operands swaps `lt`/`gt` and keeps `eq` / "unorderable";
    * it is compatible with `==` on either side;
    * `lt` is transitive.
-/
import Signac.Proofs.QueryValFull
namespace Signac.Query
open Signac

/-- the answer with the operands swapped -/
def _root_.Signac.Cmp.flip : Cmp → Cmp
  | .lt => .gt
  | .gt => .lt
  | c => c

theorem _root_.Signac.Cmp.flip_flip (c : Cmp) : c.flip.flip = c := by cases c <;> rfl

/-- three-way comparison of two exact dyadic numbers -/
def numCmp (p q : Int × Nat) : Cmp := if numLt p q then .lt else if numEq p q then .eq else .gt

theorem pyCmp_of_numVal' {a : JVal} {p : Int × Nat} (h : numVal a = some p) (c : JVal) :
    pyCmp a c = (match numVal c with | some q => numCmp p q | none => .typeError) :=
  pyCmp_of_numVal h c

theorem numCmp_flip (p q : Int × Nat) : numCmp q p = (numCmp p q).flip := by
  unfold numCmp
  have h1 := numLt_iff p q
  have h2 := numLt_iff q p
  have h3 := numEq_iff p q
  have h4 := numEq_iff q p
  by_cases a : numLt p q = true
  · have b : ¬ numLt q p = true := by rw [h2]; rw [h1] at a; omega
    have c : ¬ numEq q p = true := by rw [h4]; rw [h1] at a; omega
    simp only [a, b, c, if_true, if_false, Cmp.flip, Bool.false_eq_true]
  · by_cases b : numEq p q = true
    · have c : ¬ numLt q p = true := by rw [h2]; rw [h3] at b; omega
      have d : numEq q p = true := by rw [h4]; rw [h3] at b; omega
      simp only [a, b, c, d, if_true, if_false, Cmp.flip, Bool.false_eq_true]
    · have c : numLt q p = true := by rw [h2]; rw [h1] at a; rw [h3] at b; omega
      simp only [a, b, c, if_true, if_false, Cmp.flip, Bool.false_eq_true]

theorem numCmp_eq_iff (p q : Int × Nat) : numCmp p q = .eq ↔ numEq p q = true := by
  unfold numCmp
  have h1 := numLt_iff p q
  have h3 := numEq_iff p q
  by_cases a : numLt p q = true
  · have b : ¬ numEq p q = true := by rw [h3]; rw [h1] at a; omega
    simp [a, b]
  · by_cases b : numEq p q = true <;> simp [a, b]

theorem numCmp_lt_iff (p q : Int × Nat) : numCmp p q = .lt ↔ numLt p q = true := by
  unfold numCmp
  by_cases a : numLt p q = true
  · simp [a]
  · by_cases b : numEq p q = true <;> simp [a, b]

theorem numLt_trans {p q r : Int × Nat} (h1 : numLt p q = true) (h2 : numLt q r = true) :
    numLt p r = true := by
  rw [numLt_iff] at h1 h2 ⊢
  have hA := two_pow_pos p.2
  have hB := two_pow_pos q.2
  have hC := two_pow_pos r.2
  by_contra hc
  simp only [not_lt] at hc
  nlinarith [mul_lt_mul_of_pos_right h1 hC, mul_lt_mul_of_pos_right h2 hA,
    mul_le_mul_of_nonneg_right hc (le_of_lt hB)]

theorem pyCmp_nonnum_num {b a : JVal} (hb : numVal b = none) {p : Int × Nat} (ha : numVal a = some p) :
    pyCmp b a = .typeError := by
  cases b with
  | bool x => rw [numVal_bool] at hb; cases hb
  | int i => cases hb
  | flt n e r => cases hb
  | null => rfl
  | obj kvs => rfl
  | str s => cases a <;> first | rfl | (simp [numVal] at ha)
  | arr xs => cases a <;> first | rfl | (simp [numVal] at ha)

/-! ### strings -/

theorem cmpStr_flip (a b : String) : cmpStr b a = (cmpStr a b).flip := by
  unfold cmpStr
  by_cases h1 : a < b
  · have h2 : ¬ b < a := String.lt_asymm h1
    have h3 : ¬ b = a := fun e => String.lt_irrefl a (by rw [e] at h1; exact h1)
    simp only [h1, h2, h3, if_true, if_false, Cmp.flip]
  · by_cases h2 : a = b
    · subst h2
      simp only [h1, if_true, if_false, Cmp.flip]
    · have h3 : b < a := by
        by_contra h3
        exact h2 (String.le_antisymm h3 h1)
      have h4 : ¬ b = a := fun e => h2 e.symm
      simp only [h1, h2, h3, if_true, if_false, Cmp.flip]

theorem cmpStr_eq_iff (a b : String) : cmpStr a b = .eq ↔ a = b := by
  unfold cmpStr
  by_cases h1 : a < b
  · have : ¬ a = b := fun e => String.lt_irrefl a (by rw [← e] at h1; exact h1)
    simp [h1, this]
  · by_cases h2 : a = b <;> simp [h1, h2]

theorem cmpStr_lt_iff (a b : String) : cmpStr a b = .lt ↔ a < b := by
  unfold cmpStr
  by_cases h1 : a < b
  · simp [h1]
  · by_cases h2 : a = b <;> simp [h1, h2]

/-! ### where `pyCmp` answers, `eq` is `==` -/

theorem pyCmp_eq_iff_num {a : JVal} {p : Int × Nat} (h : numVal a = some p) (b : JVal)
    (hne : pyCmp a b ≠ .typeError) : pyEq a b = true ↔ pyCmp a b = .eq := by
  rw [pyCmp_of_numVal' h] at hne ⊢
  rw [pyEq_of_numVal h]
  cases hb : numVal b with
  | none => rw [hb] at hne; exact absurd rfl hne
  | some q => exact (numCmp_eq_iff p q).symm

theorem pyCmpList_eq_iff_of : ∀ (xs ys : List JVal),
    (∀ x ∈ xs, ∀ b, pyCmp x b ≠ .typeError → (pyEq x b = true ↔ pyCmp x b = .eq)) →
    pyCmpList xs ys ≠ .typeError → (pyEqList xs ys = true ↔ pyCmpList xs ys = .eq)
  | [], [], _, _ => by simp [pyEqList, pyCmpList]
  | [], _ :: _, _, _ => by simp [pyEqList, pyCmpList]
  | _ :: _, [], _, _ => by simp [pyEqList, pyCmpList]
  | x :: xs, y :: ys, hp, hne => by
    simp only [pyEqList, pyCmpList] at hne ⊢
    by_cases he : pyEq x y = true
    · rw [if_pos he] at hne ⊢
      simp only [he, Bool.true_and]
      exact pyCmpList_eq_iff_of xs ys (fun x' hx => hp x' (List.mem_cons_of_mem _ hx)) hne
    · rw [if_neg he] at hne ⊢
      have := hp x List.mem_cons_self y hne
      simp only [Bool.and_eq_true]
      constructor
      · intro h; exact absurd h.1 he
      · intro h; exact absurd (this.mpr h) he

theorem pyCmp_eq_iff : ∀ (a : JVal), keysOK a = true → ∀ b, pyCmp a b ≠ .typeError →
    (pyEq a b = true ↔ pyCmp a b = .eq) := by
  refine keysOK_induct ?_ ?_ ?_ ?_ ?_ ?_ ?_
  · intro b h; exact absurd (by cases b <;> rfl) h
  · intro x b h; exact pyCmp_eq_iff_num (numVal_bool x) b h
  · intro i b h; exact pyCmp_eq_iff_num (p := (i, 0)) rfl b h
  · intro n e r b h; exact pyCmp_eq_iff_num (p := (n, e)) rfl b h
  · intro s b h
    cases b with
    | str t => simp only [pyEq, pyCmp, cmpStr_eq_iff, beq_iff_eq]
    | _ => exact absurd rfl h
  · intro xs _ ih b h
    cases b with
    | arr ys => simp only [pyEq, pyCmp] at h ⊢; exact pyCmpList_eq_iff_of xs ys ih h
    | _ => exact absurd rfl h
  · intro kvs _ _ _ b h
    exact absurd (by cases b <;> rfl) h

theorem pyCmp_lt_ne {a b : JVal} (ha : keysOK a = true) (h : pyCmp a b = .lt) : pyEq a b = false := by
  cases he : pyEq a b with
  | false => rfl
  | true =>
    have := (pyCmp_eq_iff a ha b (by rw [h]; exact fun e => Cmp.noConfusion e)).mp he
    rw [h] at this; cases this

/-! ### swapping the operands -/

theorem pyCmpList_flip_of : ∀ (xs ys : List JVal),
    (∀ x ∈ xs, ∀ y ∈ ys, pyCmp y x = (pyCmp x y).flip) → (∀ x ∈ xs, ∀ y ∈ ys, pyEq y x = pyEq x y) →
    pyCmpList ys xs = (pyCmpList xs ys).flip
  | [], [], _, _ => rfl
  | [], _ :: _, _, _ => rfl
  | _ :: _, [], _, _ => rfl
  | x :: xs, y :: ys, hp, he => by
    simp only [pyCmpList]
    rw [he x List.mem_cons_self y List.mem_cons_self]
    by_cases h : pyEq x y = true
    · rw [if_pos h, if_pos h]
      exact pyCmpList_flip_of xs ys
        (fun x' hx y' hy => hp x' (List.mem_cons_of_mem _ hx) y' (List.mem_cons_of_mem _ hy))
        (fun x' hx y' hy => he x' (List.mem_cons_of_mem _ hx) y' (List.mem_cons_of_mem _ hy))
    · rw [if_neg h, if_neg h]
      exact hp x List.mem_cons_self y List.mem_cons_self

theorem pyCmp_flip_num {a : JVal} {p : Int × Nat} (h : numVal a = some p) (b : JVal) :
    pyCmp b a = (pyCmp a b).flip := by
  rw [pyCmp_of_numVal' h b]
  cases hb : numVal b with
  | none => simp only [pyCmp_nonnum_num hb h]; rfl
  | some q => rw [pyCmp_of_numVal' hb a, h]; exact numCmp_flip p q

/-- `cmp b a` is `cmp a b` with `lt`/`gt` swapped -/
theorem pyCmp_flip : ∀ (a : JVal), keysOK a = true → ∀ b, keysOK b = true →
    pyCmp b a = (pyCmp a b).flip := by
  refine keysOK_induct ?_ ?_ ?_ ?_ ?_ ?_ ?_
  · intro b _
    have h1 : pyCmp b .null = .typeError := by
      cases b with
      | bool x => cases x <;> rfl
      | _ => rfl
    have h2 : pyCmp .null b = .typeError := by cases b <;> rfl
    rw [h1, h2]; rfl
  · intro x b _; exact pyCmp_flip_num (numVal_bool x) b
  · intro i b _; exact pyCmp_flip_num (p := (i, 0)) rfl b
  · intro n e r b _; exact pyCmp_flip_num (p := (n, e)) rfl b
  · intro s b _
    cases b with
    | str t => simp only [pyCmp]; exact cmpStr_flip s t
    | bool x => cases x <;> rfl
    | _ => rfl
  · intro xs hxs ih b hb
    cases b with
    | arr ys =>
      simp only [pyCmp]
      have hys := keysOK_arr.mp hb
      exact pyCmpList_flip_of xs ys (fun x hx y hy => ih x hx y (hys y hy))
        (fun x hx y hy => pyEq_symm_wf y x (hys y hy) (hxs x hx))
    | bool x => cases x <;> rfl
    | _ => rfl
  · intro kvs _ _ _ b _
    cases b with
    | bool x => cases x <;> rfl
    | _ => rfl

/-- `b == c → cmp a b = cmp a c` -/
theorem pyCmp_congr_right {a b c : JVal} (ha : keysOK a = true) (hb : keysOK b = true)
    (hc : keysOK c = true) (h : pyEq b c = true) : pyCmp a b = pyCmp a c := by
  rw [pyCmp_flip b hb a ha, pyCmp_flip c hc a ha, pyCmp_congr_wf b hb c a h]

/-- `b == c → (a == b) = (a == c)` -/
theorem pyEq_congr_right {a b c : JVal} (ha : keysOK a = true) (hb : keysOK b = true)
    (hc : keysOK c = true) (h : pyEq b c = true) : pyEq a b = pyEq a c := by
  rw [pyEq_symm_wf a b ha hb, pyEq_symm_wf a c ha hc, pyEq_eucl_wf b hb c a h]

/-! ### transitivity -/

theorem pyCmpList_trans_of : ∀ (xs ys zs : List JVal),
    (∀ x ∈ xs, keysOK x = true) → (∀ y ∈ ys, keysOK y = true) → (∀ z ∈ zs, keysOK z = true) →
    (∀ x ∈ xs, ∀ y z, keysOK y = true → keysOK z = true →
      pyCmp x y = .lt → pyCmp y z = .lt → pyCmp x z = .lt) →
    pyCmpList xs ys = .lt → pyCmpList ys zs = .lt → pyCmpList xs zs = .lt
  | [], [], _, _, _, _, _, h1, _ => by simp [pyCmpList] at h1
  | [], _ :: _, [], _, _, _, _, _, h2 => by simp [pyCmpList] at h2
  | [], _ :: _, _ :: _, _, _, _, _, _, _ => rfl
  | _ :: _, [], _, _, _, _, _, h1, _ => by simp [pyCmpList] at h1
  | _ :: _, _ :: _, [], _, _, _, _, _, h2 => by simp [pyCmpList] at h2
  | x :: xs, y :: ys, z :: zs, hx, hy, hz, ht, h1, h2 => by
    have kx := hx x List.mem_cons_self
    have ky := hy y List.mem_cons_self
    have kz := hz z List.mem_cons_self
    have tails := pyCmpList_trans_of xs ys zs (fun a h => hx a (List.mem_cons_of_mem _ h))
      (fun a h => hy a (List.mem_cons_of_mem _ h)) (fun a h => hz a (List.mem_cons_of_mem _ h))
      (fun a h => ht a (List.mem_cons_of_mem _ h))
    simp only [pyCmpList] at h1 h2 ⊢
    by_cases e1 : pyEq x y = true
    · rw [if_pos e1] at h1
      by_cases e2 : pyEq y z = true
      · rw [if_pos e2] at h2
        have e3 : pyEq x z = true := by rw [pyEq_eucl_wf x kx y z e1]; exact e2
        rw [if_pos e3]
        exact tails h1 h2
      · rw [if_neg e2] at h2
        have e3 : ¬ pyEq x z = true := by rw [pyEq_eucl_wf x kx y z e1]; exact e2
        rw [if_neg e3, pyCmp_congr_wf x kx y z e1]
        exact h2
    · rw [if_neg e1] at h1
      by_cases e2 : pyEq y z = true
      · rw [if_pos e2] at h2
        have e3 : ¬ pyEq x z = true := by rw [← pyEq_congr_right kx ky kz e2]; exact e1
        rw [if_neg e3, ← pyCmp_congr_right kx ky kz e2]
        exact h1
      · rw [if_neg e2] at h2
        have h3 := ht x List.mem_cons_self y z ky kz h1 h2
        have e3 : ¬ pyEq x z = true := by rw [pyCmp_lt_ne kx h3]; exact Bool.false_ne_true
        rw [if_neg e3]
        exact h3

theorem pyCmp_lt_num {a : JVal} {p : Int × Nat} (h : numVal a = some p) {b : JVal}
    (hl : pyCmp a b = .lt) : ∃ q, numVal b = some q ∧ numLt p q = true := by
  rw [pyCmp_of_numVal' h] at hl
  cases hb : numVal b with
  | none => rw [hb] at hl; cases hl
  | some q => rw [hb] at hl; exact ⟨q, rfl, (numCmp_lt_iff p q).mp hl⟩

theorem pyCmp_lt_trans_num {a : JVal} {p : Int × Nat} (h : numVal a = some p) {b c : JVal}
    (h1 : pyCmp a b = .lt) (h2 : pyCmp b c = .lt) : pyCmp a c = .lt := by
  obtain ⟨q, hq, l1⟩ := pyCmp_lt_num h h1
  obtain ⟨r, hr, l2⟩ := pyCmp_lt_num hq h2
  rw [pyCmp_of_numVal' h, hr]
  exact (numCmp_lt_iff p r).mpr (numLt_trans l1 l2)

/-- `<` is transitive -/
theorem pyCmp_lt_trans : ∀ (a : JVal), keysOK a = true → ∀ b c, keysOK b = true → keysOK c = true →
    pyCmp a b = .lt → pyCmp b c = .lt → pyCmp a c = .lt := by
  refine keysOK_induct ?_ ?_ ?_ ?_ ?_ ?_ ?_
  · intro b c _ _ h1 _
    have : pyCmp .null b = .typeError := by cases b <;> rfl
    rw [this] at h1; cases h1
  · intro x b c _ _ h1 h2; exact pyCmp_lt_trans_num (numVal_bool x) h1 h2
  · intro i b c _ _ h1 h2; exact pyCmp_lt_trans_num (p := (i, 0)) rfl h1 h2
  · intro n e r b c _ _ h1 h2; exact pyCmp_lt_trans_num (p := (n, e)) rfl h1 h2
  · intro s b c _ _ h1 h2
    cases b with
    | str t =>
      cases c with
      | str u =>
        simp only [pyCmp, cmpStr_lt_iff] at h1 h2 ⊢
        exact String.lt_trans h1 h2
      | _ => cases h2
    | _ => cases h1
  · intro xs hxs ih b c hb hc h1 h2
    cases b with
    | arr ys =>
      cases c with
      | arr zs =>
        simp only [pyCmp] at h1 h2 ⊢
        exact pyCmpList_trans_of xs ys zs hxs (keysOK_arr.mp hb) (keysOK_arr.mp hc) ih h1 h2
      | _ => cases h2
    | _ => cases h1
  · intro kvs _ _ _ b c _ _ h1 _
    have : pyCmp (.obj kvs) b = .typeError := by cases b <;> rfl
    rw [this] at h1; cases h1

end Signac.Query

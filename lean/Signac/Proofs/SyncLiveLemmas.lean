/-
  Lemmas about the live document merge (`Signac/SyncLive.lean`):
    * values at dotted paths (`getV`, `setV`, `getPath`, `setPath`);
    * with a quiet environment the step program computes what the pure model computes
      (`liveItems_quiet`, `liveByKey_quiet`, `liveUpdate_quiet`);
    * the step program only looks at, and only writes below, top-level keys of the source
      (`Resp`), hence: a run against an environment that leaves those keys alone agrees with the
      quiet run on them, and no step changes any other top-level key.
  Core only.
-/
import Signac.SyncLive
import Signac.Proofs.SyncIdemFull
namespace Signac.Sync

/-! ### setKV -/

theorem setKV_setKV (k : String) (a b : JVal) : ∀ d : Doc, setKV k a (setKV k b d) = setKV k a d
  | [] => by simp [setKV]
  | (k', v') :: tl => by
    by_cases h : k' = k
    · simp [setKV, h]
    · simp [setKV, h, setKV_setKV k a b tl]

theorem mem_setKV {k : String} {v : JVal} {kv : String × JVal} :
    ∀ {d : Doc}, kv ∈ setKV k v d → kv = (k, v) ∨ kv ∈ d
  | [], h => by simpa [setKV] using h
  | (k', v') :: tl, h => by
    by_cases hk : k' = k
    · simp only [setKV, hk, if_true, List.mem_cons] at h
      rcases h with h | h
      · exact Or.inl h
      · exact Or.inr (by simp [h])
    · simp only [setKV, hk, if_false, List.mem_cons] at h
      rcases h with h | h
      · exact Or.inr (by simp [h])
      · rcases mem_setKV h with h | h
        · exact Or.inl h
        · exact Or.inr (by simp [h])

theorem NodupKeysObj_setKV {k : String} {v : JVal} (hv : NodupKeysVal v) :
    ∀ {d : Doc}, NodupKeysObj d → NodupKeysObj (setKV k v d)
  | [], _ => by simp [setKV, NodupKeysObj, hv]
  | (k', v') :: tl, h => by
    simp only [NodupKeysObj] at h
    by_cases hk : k' = k
    · subst hk
      simp only [setKV, if_true, NodupKeysObj]
      exact ⟨h.1, hv, h.2.2⟩
    · simp only [setKV, hk, if_false, NodupKeysObj]
      refine ⟨?_, h.2.1, NodupKeysObj_setKV hv h.2.2⟩
      intro kv hkv
      rcases mem_setKV hkv with e | hm
      · subst e; exact fun e => hk e.symm
      · exact h.1 kv hm

/-! ### values at dotted paths -/

theorem getV_append : ∀ (p q : List String) (v : JVal),
    getV (p ++ q) v = match getV p v with | some w => getV q w | none => none
  | [], q, v => by simp [getV]
  | k :: p, q, .obj d => by
    simp only [List.cons_append, getV]
    cases lookupKV k d with
    | none => rfl
    | some ch => exact getV_append p q ch
  | k :: p, q, .null => by simp [getV]
  | k :: p, q, .bool _ => by simp [getV]
  | k :: p, q, .int _ => by simp [getV]
  | k :: p, q, .flt _ _ _ => by simp [getV]
  | k :: p, q, .str _ => by simp [getV]
  | k :: p, q, .arr _ => by simp [getV]

theorem setV_key (k : String) (x : JVal) (d : Doc) : setV [k] x (.obj d) = .obj (setKV k x d) := by
  simp only [setV]
  cases lookupKV k d <;> rfl

theorem setV_append : ∀ (p q : List String) (x v w : JVal), getV p v = some w →
    setV (p ++ q) x v = setV p (setV q x w) v
  | [], q, x, v, w, h => by
    simp only [getV, Option.some.injEq] at h
    subst h
    simp [setV]
  | k :: p, q, x, .obj d, w, h => by
    simp only [getV] at h
    simp only [List.cons_append, setV]
    cases hl : lookupKV k d with
    | none => rw [hl] at h; cases h
    | some ch =>
      rw [hl] at h
      simp only []
      rw [setV_append p q x ch w h]
  | k :: p, q, x, .null, w, h => by simp [getV] at h
  | k :: p, q, x, .bool _, w, h => by simp [getV] at h
  | k :: p, q, x, .int _, w, h => by simp [getV] at h
  | k :: p, q, x, .flt _ _ _, w, h => by simp [getV] at h
  | k :: p, q, x, .str _, w, h => by simp [getV] at h
  | k :: p, q, x, .arr _, w, h => by simp [getV] at h

theorem getV_setV : ∀ (p : List String) (x v w : JVal), getV p v = some w →
    getV p (setV p x v) = some x
  | [], x, v, w, _ => by simp [getV, setV]
  | k :: p, x, .obj d, w, h => by
    simp only [getV] at h
    simp only [setV]
    cases hl : lookupKV k d with
    | none => rw [hl] at h; cases h
    | some ch =>
      rw [hl] at h
      simp only [getV, lookupKV_setKV_same]
      exact getV_setV p x ch w h
  | k :: p, x, .null, w, h => by simp [getV] at h
  | k :: p, x, .bool _, w, h => by simp [getV] at h
  | k :: p, x, .int _, w, h => by simp [getV] at h
  | k :: p, x, .flt _ _ _, w, h => by simp [getV] at h
  | k :: p, x, .str _, w, h => by simp [getV] at h
  | k :: p, x, .arr _, w, h => by simp [getV] at h

theorem setV_setV : ∀ (p : List String) (x y v w : JVal), getV p v = some w →
    setV p y (setV p x v) = setV p y v
  | [], x, y, v, w, _ => by simp [setV]
  | k :: p, x, y, .obj d, w, h => by
    simp only [getV] at h
    cases hl : lookupKV k d with
    | none => rw [hl] at h; cases h
    | some ch =>
      rw [hl] at h
      simp only [setV, hl, lookupKV_setKV_same, setKV_setKV]
      rw [setV_setV p x y ch w h]
  | k :: p, x, y, .null, w, h => by simp [getV] at h
  | k :: p, x, y, .bool _, w, h => by simp [getV] at h
  | k :: p, x, y, .int _, w, h => by simp [getV] at h
  | k :: p, x, y, .flt _ _ _, w, h => by simp [getV] at h
  | k :: p, x, y, .str _, w, h => by simp [getV] at h
  | k :: p, x, y, .arr _, w, h => by simp [getV] at h

theorem setV_self : ∀ (p : List String) (v w : JVal), getV p v = some w → setV p w v = v
  | [], v, w, h => by
    simp only [getV, Option.some.injEq] at h
    simp [setV, h]
  | k :: p, .obj d, w, h => by
    simp only [getV] at h
    cases hl : lookupKV k d with
    | none => rw [hl] at h; cases h
    | some ch =>
      rw [hl] at h
      simp only [setV, hl]
      rw [setV_self p ch w h, setKV_self hl]
  | k :: p, .null, w, h => by simp [getV] at h
  | k :: p, .bool _, w, h => by simp [getV] at h
  | k :: p, .int _, w, h => by simp [getV] at h
  | k :: p, .flt _ _ _, w, h => by simp [getV] at h
  | k :: p, .str _, w, h => by simp [getV] at h
  | k :: p, .arr _, w, h => by simp [getV] at h

/-- setting below a mapping gives a mapping -/
theorem setV_obj : ∀ (p : List String) (x : JVal) (d : Doc), p ≠ [] → ∃ d', setV p x (.obj d) = .obj d'
  | [], _, _, h => absurd rfl h
  | k :: p, x, d, _ => by
    simp only [setV]
    cases lookupKV k d with
    | some ch => exact ⟨_, rfl⟩
    | none => cases p <;> exact ⟨_, rfl⟩

/-! #### on documents -/

/-- the mapping at `path` is `dd`: then `key in dst` / `dst[key]` of that view is a plain lookup -/
theorem getPath_snoc {path : List String} {f dd : Doc} (h : getPath path f = some (.obj dd)) (k : String) :
    getPath (path ++ [k]) f = lookupKV k dd := by
  simp only [getPath] at h ⊢
  rw [getV_append, h]
  simp only [getV]
  cases lookupKV k dd <;> rfl

/-- a store at `path ++ [k]` is `view[k] = x` on the view at `path` -/
theorem setPath_snoc {path : List String} {f dd : Doc} (h : getPath path f = some (.obj dd)) (k : String)
    (x : JVal) : setPath (path ++ [k]) x f = setPath path (.obj (setKV k x dd)) f := by
  simp only [getPath] at h
  simp only [setPath]
  rw [setV_append path [k] x _ _ h, setV_key]

theorem getPath_setPath {path : List String} {f dd : Doc} (h : getPath path f = some (.obj dd)) (dd' : Doc) :
    getPath path (setPath path (.obj dd') f) = some (.obj dd') := by
  simp only [getPath] at h
  have h2 := getV_setV path (.obj dd') _ _ h
  simp only [getPath, setPath]
  cases path with
  | nil => simp [setV, getV]
  | cons k p =>
    obtain ⟨d', hd'⟩ := setV_obj (k :: p) (.obj dd') f (by simp)
    rw [hd'] at h2 ⊢
    exact h2

theorem setPath_setPath {path : List String} {f dd : Doc} (h : getPath path f = some (.obj dd)) (a b : Doc) :
    setPath path (.obj b) (setPath path (.obj a) f) = setPath path (.obj b) f := by
  simp only [getPath] at h
  have h2 := setV_setV path (.obj a) (.obj b) _ _ h
  simp only [setPath]
  cases path with
  | nil => simp [setV]
  | cons k p =>
    obtain ⟨d', hd'⟩ := setV_obj (k :: p) (.obj a) f (by simp)
    rw [hd'] at h2 ⊢
    simp only []
    rw [h2]
    obtain ⟨d'', hd''⟩ := setV_obj (k :: p) (.obj b) f (by simp)
    rw [hd'']

theorem setPath_self {path : List String} {f dd : Doc} (h : getPath path f = some (.obj dd)) :
    setPath path (.obj dd) f = f := by
  simp only [getPath] at h
  simp only [setPath, setV_self path _ _ h]

theorem setPath_nil (d' d : Doc) : setPath [] (.obj d') d = d' := rfl

/-! ### a run without any environment -/

/-- the program run on a private file -/
def runAlone : LProg → Doc → Doc × LRes
  | .done r, f => (f, r)
  | .load k, f => runAlone (k f) f
  | .store p v k, f => runAlone k (setPath p v f)

theorem runLiveFrom_quiet (p : LProg) : ∀ (n : Nat) (f : Doc),
    (runLiveFrom (fun _ => id) p n f).file = (runAlone p f).1 ∧
    (runLiveFrom (fun _ => id) p n f).res = (runAlone p f).2 := by
  induction p with
  | done r => intro n f; exact ⟨rfl, rfl⟩
  | load k ih => intro n f; simpa [runLiveFrom, runAlone] using ih f (n + 1) f
  | store p v k ih => intro n f; simpa [runLiveFrom, runAlone] using ih (n + 1) (setPath p v f)

theorem runQuiet_eq (p : LProg) (f : Doc) :
    (runQuiet p f).file = (runAlone p f).1 ∧ (runQuiet p f).res = (runAlone p f).2 :=
  runLiveFrom_quiet p 0 f

/-! ### the quiet run computes the pure merge -/

/-- `prog`, started on the file `f` whose mapping at `path` the pure merge turns into `r.dst`,
    ends with a type error exactly when the pure merge does, and otherwise goes on with `K` on
    the file with `r.dst` at `path` -/
def QSpec (path : List String) (K : LRes → LProg) (f : Doc) (r : ByKeySt) (prog : LProg) : Prop :=
  NodupKeysObj r.dst ∧
  runAlone prog f =
    if r.typeErr then (setPath path (.obj r.dst) f, ⟨r.skipped, r.wrote, true⟩)
    else runAlone (K ⟨r.skipped, r.wrote, false⟩) (setPath path (.obj r.dst) f)

theorem QSpec.shift {path : List String} {K : LRes → LProg} {f dd a : Doc} {r : ByKeySt} {prog prog' : LProg}
    (hp : getPath path f = some (.obj dd))
    (h : QSpec path K (setPath path (.obj a) f) r prog')
    (he : runAlone prog f = runAlone prog' (setPath path (.obj a) f)) : QSpec path K f r prog := by
  refine ⟨h.1, ?_⟩
  rw [he, h.2, setPath_setPath hp]

theorem liveLeaf_quiet (ks : Option (String → Bool)) (root : String) (path : List String) (k : String)
    (v w : JVal) (hl : IsLeaf v) (hv : NodupKeysVal v) (sk : List String) (wr : Bool) (K : LRes → LProg)
    (f dd : Doc) (hdd : NodupKeysObj dd) (hp : getPath path f = some (.obj dd)) :
    QSpec path K f (byKeyValue ks root k v w ⟨dd, sk, wr, false⟩) (liveLeaf ks root path k v ⟨sk, wr, false⟩ K) := by
  rw [byKeyValue_leaf ks root k v w hl]
  cases ks with
  | none =>
    refine ⟨hdd, ?_⟩
    simp [liveLeaf, setPath_self hp]
  | some g =>
    simp only [liveLeaf]
    cases hg : g (root ++ k) with
    | false =>
      refine ⟨by simpa using hdd, ?_⟩
      simp [setPath_self hp]
    | true =>
      refine ⟨by simpa using NodupKeysObj_setKV hv hdd, ?_⟩
      simp [runAlone, setPath_snoc hp]

theorem ByKeySt.eta_false {r : ByKeySt} (h : r.typeErr = false) : r = ⟨r.dst, r.skipped, r.wrote, false⟩ := by
  cases r; simp_all

/-- the destination holds a plain value where the source holds a mapping -/
theorem liveValue_quiet_plain (ks : Option (String → Bool)) (root : String) (path : List String) (k : String)
    (sv : List (String × JVal)) (w : JVal) (hw : IsLeaf w) (sk : List String) (wr : Bool) (K : LRes → LProg)
    (f dd : Doc) (hdd : NodupKeysObj dd) (hp : getPath path f = some (.obj dd))
    (hg : getPath (path ++ [k]) f = some w) :
    QSpec path K f (byKeyValue ks root k (.obj sv) w ⟨dd, sk, wr, false⟩)
      (liveValue ks root path k (.obj sv) ⟨sk, wr, false⟩ K) := by
  rw [byKeyValue_obj_leaf ks root k sv w hw]
  cases sv with
  | nil =>
    refine ⟨hdd, ?_⟩
    cases w <;> first | (simp [IsLeaf] at hw; done) | simp [liveValue, runAlone, hg, setPath_self hp]
  | cons a tl =>
    refine ⟨hdd, ?_⟩
    cases w <;> first | (simp [IsLeaf] at hw; done) | simp [liveValue, runAlone, hg, setPath_self hp]

mutual
  theorem liveItems_quiet (ks : Option (String → Bool)) :
      (root : String) → (path : List String) → (items : List (String × JVal)) → NodupKeysObj items →
      ∀ (sk : List String) (wr : Bool) (K : LRes → LProg) (f dd : Doc),
      NodupKeysObj dd → getPath path f = some (.obj dd) →
      QSpec path K f (byKeyItems ks root items ⟨dd, sk, wr, false⟩)
        (liveItems ks root path items ⟨sk, wr, false⟩ K)
    | root, path, [], _, sk, wr, K, f, dd, hdd, hp => by
      refine ⟨by simpa [byKeyItems] using hdd, ?_⟩
      simp [byKeyItems, liveItems, setPath_self hp]
    | root, path, (k, v) :: tl, hn, sk, wr, K, f, dd, hdd, hp => by
      simp only [NodupKeysObj] at hn
      simp only [byKeyItems, Bool.false_eq_true, if_false]
      cases hl : lookupKV k dd with
      | none =>
        simp only []
        have ih := liveItems_quiet ks root path tl hn.2.2 sk true K
          (setPath path (.obj (setKV k v dd)) f) (setKV k v dd) (NodupKeysObj_setKV hn.2.1 hdd)
          (getPath_setPath hp _)
        refine QSpec.shift hp ih ?_
        simp only [liveItems, runAlone, getPath_snoc hp, hl, setPath_snoc hp]
      | some w =>
        simp only []
        cases he : pyEq w v with
        | true =>
          simp only [if_true]
          have ih := liveItems_quiet ks root path tl hn.2.2 sk wr K f dd hdd hp
          refine ⟨ih.1, ?_⟩
          rw [← ih.2]
          simp only [liveItems, runAlone, getPath_snoc hp, hl, he, if_true]
        | false =>
          simp only [Bool.false_eq_true, if_false]
          have hv := liveValue_quiet ks root path k v hn.2.1 w sk wr
            (fun st' => liveItems ks root path tl st' K) f dd hdd hp hl he
          have hrun : runAlone (liveItems ks root path ((k, v) :: tl) ⟨sk, wr, false⟩ K) f =
              runAlone (liveValue ks root path k v ⟨sk, wr, false⟩
                (fun st' => liveItems ks root path tl st' K)) f := by
            simp only [liveItems, runAlone, getPath_snoc hp, hl, he, Bool.false_eq_true, if_false]
          generalize byKeyValue ks root k v w ⟨dd, sk, wr, false⟩ = rv at hv ⊢
          cases hte : rv.typeErr with
          | true =>
            rw [byKeyItems_typeErr_mono ks root tl rv hte]
            refine ⟨hv.1, ?_⟩
            rw [hrun, hv.2]
            simp [hte]
          | false =>
            have hp' : getPath path (setPath path (.obj rv.dst) f) = some (.obj rv.dst) := getPath_setPath hp _
            have ih := liveItems_quiet ks root path tl hn.2.2 rv.skipped rv.wrote K
              (setPath path (.obj rv.dst) f) rv.dst hv.1 hp'
            rw [← ByKeySt.eta_false hte] at ih
            refine QSpec.shift hp ih ?_
            rw [hrun, hv.2, hte]
            simp
  theorem liveValue_quiet (ks : Option (String → Bool)) :
      (root : String) → (path : List String) → (k : String) → (v : JVal) → NodupKeysVal v →
      ∀ (w : JVal) (sk : List String) (wr : Bool) (K : LRes → LProg) (f dd : Doc),
      NodupKeysObj dd → getPath path f = some (.obj dd) → lookupKV k dd = some w → pyEq w v = false →
      QSpec path K f (byKeyValue ks root k v w ⟨dd, sk, wr, false⟩)
        (liveValue ks root path k v ⟨sk, wr, false⟩ K)
    | root, path, k, .obj sv, hv, w, sk, wr, K, f, dd, hdd, hp, hl, he => by
      have hw : NodupKeysVal w := NodupKeysObj_lookup hdd hl
      have hne : pyEq (.obj sv) w = false := by
        cases h : pyEq (.obj sv) w with
        | false => rfl
        | true => rw [pyEq_symm hv hw h] at he; cases he
      have hg : getPath (path ++ [k]) f = some w := by rw [getPath_snoc hp, hl]
      cases w with
      | obj dw =>
        simp only [byKeyValue]
        have ih := liveItems_quiet ks (root ++ k ++ ".") (path ++ [k]) sv hv sk wr K f dw hw hg
        refine ⟨NodupKeysObj_setKV (v := .obj _) (by simpa [NodupKeysVal] using ih.1) hdd, ?_⟩
        simp only [liveValue, runAlone, hg, eqAt, hne, Bool.false_eq_true, if_false]
        rw [ih.2, setPath_snoc hp]
      | null => exact liveValue_quiet_plain ks root path k sv _ (by simp [IsLeaf]) sk wr K f dd hdd hp hg
      | bool _ => exact liveValue_quiet_plain ks root path k sv _ (by simp [IsLeaf]) sk wr K f dd hdd hp hg
      | int _ => exact liveValue_quiet_plain ks root path k sv _ (by simp [IsLeaf]) sk wr K f dd hdd hp hg
      | flt _ _ _ => exact liveValue_quiet_plain ks root path k sv _ (by simp [IsLeaf]) sk wr K f dd hdd hp hg
      | str _ => exact liveValue_quiet_plain ks root path k sv _ (by simp [IsLeaf]) sk wr K f dd hdd hp hg
      | arr _ => exact liveValue_quiet_plain ks root path k sv _ (by simp [IsLeaf]) sk wr K f dd hdd hp hg
    | root, path, k, .null, hv, w, sk, wr, K, f, dd, hdd, hp, _, _ =>
      liveLeaf_quiet ks root path k _ w (by simp [IsLeaf]) hv sk wr K f dd hdd hp
    | root, path, k, .bool _, hv, w, sk, wr, K, f, dd, hdd, hp, _, _ =>
      liveLeaf_quiet ks root path k _ w (by simp [IsLeaf]) hv sk wr K f dd hdd hp
    | root, path, k, .int _, hv, w, sk, wr, K, f, dd, hdd, hp, _, _ =>
      liveLeaf_quiet ks root path k _ w (by simp [IsLeaf]) hv sk wr K f dd hdd hp
    | root, path, k, .flt _ _ _, hv, w, sk, wr, K, f, dd, hdd, hp, _, _ =>
      liveLeaf_quiet ks root path k _ w (by simp [IsLeaf]) hv sk wr K f dd hdd hp
    | root, path, k, .str _, hv, w, sk, wr, K, f, dd, hdd, hp, _, _ =>
      liveLeaf_quiet ks root path k _ w (by simp [IsLeaf]) hv sk wr K f dd hdd hp
    | root, path, k, .arr _, hv, w, sk, wr, K, f, dd, hdd, hp, _, _ =>
      liveLeaf_quiet ks root path k _ w (by simp [IsLeaf]) hv sk wr K f dd hdd hp
end

/-- `src == dst` holds: the loop would do nothing -/
theorem byKeyItems_all_eq (ks : Option (String → Bool)) (root : String) : ∀ (items : Doc) (dd : Doc)
    (sk : List String) (wr : Bool),
    (∀ kv ∈ items, ∃ w, lookupKV kv.1 dd = some w ∧ pyEq w kv.2 = true) →
    byKeyItems ks root items ⟨dd, sk, wr, false⟩ = ⟨dd, sk, wr, false⟩
  | [], dd, sk, wr, _ => by simp [byKeyItems]
  | (k, v) :: tl, dd, sk, wr, h => by
    obtain ⟨w, hw, he⟩ := h (k, v) (by simp)
    simp only [byKeyItems, Bool.false_eq_true, if_false, hw, he, if_true]
    exact byKeyItems_all_eq ks root tl dd sk wr (fun kv hkv => h kv (by simp [hkv]))

theorem pyEq_obj_entries {s d : Doc} (hs : NodupKeysObj s) (hd : NodupKeysObj d)
    (h : pyEq (.obj s) (.obj d) = true) :
    ∀ kv ∈ s, ∃ w, lookupKV kv.1 d = some w ∧ pyEq w kv.2 = true := by
  simp only [pyEq, Bool.and_eq_true] at h
  intro kv hkv
  obtain ⟨w, hw, he⟩ := pyEqEntries_iff.mp h.2 kv hkv
  exact ⟨w, hw, pyEq_symm (NodupKeysObj_mem hs kv hkv) (NodupKeysObj_lookup hd hw) he⟩

/-- `DocSync.ByKey(ks)` on a private file = the pure model, type errors included -/
theorem liveByKey_quiet (ks : Option (String → Bool)) (s d : Doc) (hs : NodupKeysObj s) (hd : NodupKeysObj d) :
    runAlone (liveByKey ks s) d =
      ((byKeyItems ks "" s ⟨d, [], false, false⟩).dst,
       ⟨(byKeyItems ks "" s ⟨d, [], false, false⟩).skipped,
        (byKeyItems ks "" s ⟨d, [], false, false⟩).wrote,
        (byKeyItems ks "" s ⟨d, [], false, false⟩).typeErr⟩) := by
  simp only [liveByKey, runAlone]
  cases he : pyEq (.obj s) (.obj d) with
  | true =>
    rw [byKeyItems_all_eq ks "" s d [] false (pyEq_obj_entries hs hd he)]
    simp [runAlone]
  | false =>
    have h := (liveItems_quiet ks "" [] s hs [] false .done d d hd rfl).2
    simp only [Bool.false_eq_true, if_false]
    rw [h]
    cases (byKeyItems ks "" s ⟨d, [], false, false⟩).typeErr <;> simp [runAlone, setPath_nil]

theorem setPath_key (k : String) (v : JVal) (d : Doc) : setPath [k] v d = setKV k v d := by
  simp only [setPath, setV_key]

theorem liveUpdateItems_quiet : ∀ (items : Doc) (st : LRes) (d : Doc),
    runAlone (liveUpdateItems items st) d =
      (updateItems items d, ⟨st.skipped, st.wrote || !items.isEmpty, st.typeErr⟩)
  | [], st, d => by simp [liveUpdateItems, runAlone, updateItems]
  | (k, v) :: tl, st, d => by
    simp only [liveUpdateItems, runAlone, updateItems, setPath_key]
    rw [liveUpdateItems_quiet tl _ (setKV k v d)]
    simp

/-- `DocSync.update` on a private file = the pure model -/
theorem liveUpdate_quiet (s d : Doc) :
    runAlone (liveUpdate s) d = (updateItems s d, ⟨[], !s.isEmpty, false⟩) := by
  simp [liveUpdate, liveUpdateItems_quiet]

/-- the snapshot regression is invisible without a second process -/
theorem mergeSnapshot_quiet_byKey (ks : Option (String → Bool)) (s d : Doc) :
    runAlone (mergeSnapshot (.byKey ks) s) d =
      ((byKeyItems ks "" s ⟨d, [], false, false⟩).dst,
       ⟨(byKeyItems ks "" s ⟨d, [], false, false⟩).skipped,
        (byKeyItems ks "" s ⟨d, [], false, false⟩).wrote,
        (byKeyItems ks "" s ⟨d, [], false, false⟩).typeErr⟩) := by
  simp [mergeSnapshot, runAlone, setPath_nil]

theorem mergeSnapshot_quiet_update (s d : Doc) :
    runAlone (mergeSnapshot .update s) d = (updateItems s d, ⟨[], !s.isEmpty, false⟩) := by
  simp [mergeSnapshot, runAlone, setPath_nil]

/-! ### what the merge reads and writes: only below top-level keys of the source -/

/-- the two files hold the same value (or both nothing) under every key of `S` -/
def AgreeOn (S : List String) (f g : Doc) : Prop := ∀ k ∈ S, lookupKV k f = lookupKV k g

theorem AgreeOn.refl (S : List String) (f : Doc) : AgreeOn S f f := fun _ _ => rfl

/-- every store of the program is at a path below a top-level key of `S` -/
inductive OnlyWrites (S : List String) : LProg → Prop
  | done (r : LRes) : OnlyWrites S (.done r)
  | load (k : Doc → LProg) : (∀ f, OnlyWrites S (k f)) → OnlyWrites S (.load k)
  | store (k0 : String) (p : List String) (v : JVal) (K : LProg) :
      k0 ∈ S → OnlyWrites S K → OnlyWrites S (.store (k0 :: p) v K)

/-- … and moreover what the program does after a load depends only on what the file holds under
    the keys of `S` -/
inductive Resp (S : List String) : LProg → Prop
  | done (r : LRes) : Resp S (.done r)
  | load (k : Doc → LProg) : (∀ f, Resp S (k f)) → (∀ f g, AgreeOn S f g → k f = k g) → Resp S (.load k)
  | store (k0 : String) (p : List String) (v : JVal) (K : LProg) :
      k0 ∈ S → Resp S K → Resp S (.store (k0 :: p) v K)

theorem Resp.onlyWrites {S : List String} {P : LProg} (h : Resp S P) : OnlyWrites S P := by
  induction h with
  | done r => exact .done r
  | load k _ _ ih => exact .load k ih
  | store k0 p v K hk _ ih => exact .store k0 p v K hk ih

theorem getPath_cons_agree {k0 : String} {f g : Doc} (h : lookupKV k0 f = lookupKV k0 g) (p : List String) :
    getPath (k0 :: p) f = getPath (k0 :: p) g := by
  simp only [getPath, getV, h]

theorem lookupKV_setPath_other {j k0 : String} (h : j ≠ k0) (p : List String) (v : JVal) (f : Doc) :
    lookupKV j (setPath (k0 :: p) v f) = lookupKV j f := by
  simp only [setPath, setV]
  cases lookupKV k0 f with
  | some ch => exact lookupKV_setKV_other h _ _
  | none =>
    cases p with
    | nil => exact lookupKV_setKV_other h _ _
    | cons _ _ => rfl

theorem lookupKV_setPath_same {k0 : String} {f g : Doc} (h : lookupKV k0 f = lookupKV k0 g) (p : List String)
    (v : JVal) : lookupKV k0 (setPath (k0 :: p) v f) = lookupKV k0 (setPath (k0 :: p) v g) := by
  simp only [setPath, setV, ← h]
  cases hl : lookupKV k0 f with
  | some ch => simp only [lookupKV_setKV_same]
  | none =>
    cases p with
    | nil => simp only [lookupKV_setKV_same]
    | cons _ _ => simp only [hl, h ▸ hl]

theorem AgreeOn.setPath {S : List String} {f g : Doc} (h : AgreeOn S f g) (k0 : String) (p : List String)
    (v : JVal) : AgreeOn S (setPath (k0 :: p) v f) (setPath (k0 :: p) v g) := by
  intro j hj
  by_cases e : j = k0
  · subst e; exact lookupKV_setPath_same (h j hj) p v
  · rw [lookupKV_setPath_other e, lookupKV_setPath_other e]; exact h j hj

/-- A program that reads and writes only below `S`, run against an environment that leaves the
    keys of `S` alone, reports what it reports on a private copy and leaves the same values under
    the keys of `S`. -/
theorem Resp.sim {S : List String} {env : Nat → Doc → Doc} (henv : ∀ n x, AgreeOn S (env n x) x)
    {P : LProg} (hP : Resp S P) : ∀ (n : Nat) (f q : Doc), AgreeOn S f q →
    (runLiveFrom env P n f).res = (runAlone P q).2 ∧
    AgreeOn S (runLiveFrom env P n f).file (runAlone P q).1 := by
  induction hP with
  | done r => intro n f q h; exact ⟨rfl, h⟩
  | load k _ hag ih =>
    intro n f q h
    have h1 : AgreeOn S (env n f) q := fun j hj => (henv n f j hj).trans (h j hj)
    simp only [runLiveFrom, runAlone]
    rw [hag _ _ h1]
    exact ih q (n + 1) (env n f) q h1
  | store k0 p v K _ _ ih =>
    intro n f q h
    have h1 : AgreeOn S (env n f) q := fun j hj => (henv n f j hj).trans (h j hj)
    simp only [runLiveFrom, runAlone]
    exact ih (n + 1) _ _ (h1.setPath k0 p v)

/-- No step of the program changes a key outside `S` — whatever the environment does. -/
theorem OnlyWrites.trace {S : List String} {P : LProg} (hP : OnlyWrites S P) (env : Nat → Doc → Doc) :
    ∀ (n : Nat) (f : Doc), ∀ ba ∈ traceFrom env P n f, ∀ j, j ∉ S → lookupKV j ba.2 = lookupKV j ba.1 := by
  induction hP with
  | done r => intro n f ba h; simp [traceFrom] at h
  | load k _ ih =>
    intro n f ba h j hj
    simp only [traceFrom, List.mem_cons] at h
    rcases h with h | h
    · subst h; rfl
    · exact ih _ _ _ ba h j hj
  | store k0 p v K hk0 _ ih =>
    intro n f ba h j hj
    simp only [traceFrom, List.mem_cons] at h
    rcases h with h | h
    · subst h
      exact lookupKV_setPath_other (fun e => hj (by rw [e]; exact hk0)) p v _
    · exact ih _ _ ba h j hj

/-- Any step-indexed property of the part of the file outside `S` that the environment's rewrites
    maintain is maintained by the whole run. -/
theorem OnlyWrites.foreign_inv {S : List String} {P : LProg} (hP : OnlyWrites S P) (env : Nat → Doc → Doc)
    (I : Nat → Doc → Prop)
    (hI : ∀ n x y, (∀ j, j ∉ S → lookupKV j x = lookupKV j y) → I n x → I n y)
    (henv : ∀ n x, I n x → I (n + 1) (env n x)) :
    ∀ (n : Nat) (f : Doc), I n f → I (runLiveFrom env P n f).steps (runLiveFrom env P n f).file := by
  induction hP with
  | done r => intro n f h; exact h
  | load k _ ih => intro n f h; exact ih _ _ _ (henv n f h)
  | store k0 p v K hk0 _ ih =>
    intro n f h
    refine ih _ _ (hI _ (env n f) _ (fun j hj => ?_) (henv n f h))
    exact (lookupKV_setPath_other (fun e => hj (by rw [e]; exact hk0)) p v _).symm

/-- the file at the end of a run is the file after its last step -/
theorem runLiveFrom_file_trace (env : Nat → Doc → Doc) (P : LProg) : ∀ (n : Nat) (f : Doc),
    (runLiveFrom env P n f).file = (((traceFrom env P n f).getLast?).map Prod.snd).getD f := by
  induction P with
  | done r => intro n f; rfl
  | load k ih =>
    intro n f
    simp only [runLiveFrom, traceFrom, ih]
    cases traceFrom env (k (env n f)) (n + 1) (env n f) with
    | nil => rfl
    | cons a l => rw [List.getLast?_eq_some_getLast (List.cons_ne_nil a l)]; rfl
  | store p v k ih =>
    intro n f
    simp only [runLiveFrom, traceFrom, ih]
    cases traceFrom env k (n + 1) (setPath p v (env n f)) with
    | nil => rfl
    | cons a l => rw [List.getLast?_eq_some_getLast (List.cons_ne_nil a l)]; rfl

/-! #### the merge programs are such programs -/

/-- the first key of the dotted path `path ++ [k]` is in `S` -/
def HeadIn (S : List String) (path : List String) (k : String) : Prop :=
  ∃ k0 rest, path ++ [k] = k0 :: rest ∧ k0 ∈ S

theorem HeadIn.snoc {S : List String} {path : List String} {k : String} (h : HeadIn S path k) (k' : String) :
    HeadIn S (path ++ [k]) k' := by
  obtain ⟨k0, rest, e, hk0⟩ := h
  exact ⟨k0, rest ++ [k'], by rw [e]; rfl, hk0⟩

theorem HeadIn.top {S : List String} {k : String} (h : k ∈ S) : HeadIn S [] k := ⟨k, [], rfl, h⟩

theorem HeadIn.agree {S : List String} {path : List String} {k : String} (h : HeadIn S path k) {f g : Doc}
    (hfg : AgreeOn S f g) : getPath (path ++ [k]) f = getPath (path ++ [k]) g := by
  obtain ⟨k0, rest, e, hk0⟩ := h
  rw [e]
  exact getPath_cons_agree (hfg k0 hk0) rest

theorem Resp.store' {S : List String} {path : List String} {k : String} (h : HeadIn S path k) (v : JVal)
    {K : LProg} (hK : Resp S K) : Resp S (.store (path ++ [k]) v K) := by
  obtain ⟨k0, rest, e, hk0⟩ := h
  rw [e]
  exact .store k0 rest v K hk0 hK

theorem liveLeaf_resp (ks : Option (String → Bool)) (S : List String) (root : String) (path : List String)
    (k : String) (v : JVal) (hh : HeadIn S path k) (st : LRes) (K : LRes → LProg)
    (hK : ∀ st', Resp S (K st')) : Resp S (liveLeaf ks root path k v st K) := by
  cases ks with
  | none => exact hK _
  | some g =>
    simp only [liveLeaf]
    split
    · exact Resp.store' hh v (hK _)
    · exact hK _

mutual
  theorem liveItems_resp (ks : Option (String → Bool)) (S : List String) :
      (root : String) → (path : List String) → (items : List (String × JVal)) →
      (∀ kv ∈ items, HeadIn S path kv.1) → ∀ (st : LRes) (K : LRes → LProg), (∀ st', Resp S (K st')) →
      Resp S (liveItems ks root path items st K)
    | root, path, [], _, st, K, hK => by simpa [liveItems] using hK st
    | root, path, (k, v) :: tl, h, st, K, hK => by
      have hh : HeadIn S path k := h (k, v) (by simp)
      have htl : ∀ kv ∈ tl, HeadIn S path kv.1 := fun kv hkv => h kv (by simp [hkv])
      have ihtl := fun st' => liveItems_resp ks S root path tl htl st' K hK
      simp only [liveItems]
      refine Resp.load _ (fun f1 => ?_) (fun f g hfg => ?_)
      · try simp only []
        split
        · exact Resp.store' hh v (ihtl _)
        · refine Resp.load _ (fun f2 => ?_) (fun f g hfg => ?_)
          · try simp only []
            split
            · exact Resp.done _
            · split
              · exact ihtl _
              · exact liveValue_resp ks S root path k v hh st _ ihtl
          · simp only [hh.agree hfg]
      · simp only [hh.agree hfg]
  theorem liveValue_resp (ks : Option (String → Bool)) (S : List String) :
      (root : String) → (path : List String) → (k : String) → (v : JVal) → HeadIn S path k →
      ∀ (st : LRes) (K : LRes → LProg), (∀ st', Resp S (K st')) →
      Resp S (liveValue ks root path k v st K)
    | root, path, k, .obj sv, hh, st, K, hK => by
      simp only [liveValue]
      refine Resp.load _ (fun f3 => ?_) (fun f g hfg => ?_)
      · try simp only []
        split
        · refine Resp.load _ (fun f4 => ?_) (fun f g hfg => ?_)
          · try simp only []
            split
            · exact hK _
            · exact liveItems_resp ks S (root ++ k ++ ".") (path ++ [k]) sv (fun kv _ => hh.snoc kv.1) st K hK
          · have e : eqAt sv (path ++ [k]) f = eqAt sv (path ++ [k]) g := by
              simp only [eqAt, hh.agree hfg]
            simp only [e]
        · split
          · exact hK _
          · exact Resp.done _
        · exact Resp.done _
      · simp only [hh.agree hfg]
    | root, path, k, .null, hh, st, K, hK => liveLeaf_resp ks S root path k _ hh st K hK
    | root, path, k, .bool _, hh, st, K, hK => liveLeaf_resp ks S root path k _ hh st K hK
    | root, path, k, .int _, hh, st, K, hK => liveLeaf_resp ks S root path k _ hh st K hK
    | root, path, k, .flt _ _ _, hh, st, K, hK => liveLeaf_resp ks S root path k _ hh st K hK
    | root, path, k, .str _, hh, st, K, hK => liveLeaf_resp ks S root path k _ hh st K hK
    | root, path, k, .arr _, hh, st, K, hK => liveLeaf_resp ks S root path k _ hh st K hK
end

/-! #### `DocSync.ByKey` and `DocSync.update` as whole programs -/

theorem liveItems_noop (ks : Option (String → Bool)) (root : String) : ∀ (items : Doc) (st : LRes)
    (K : LRes → LProg) (q : Doc),
    (∀ kv ∈ items, ∃ w, lookupKV kv.1 q = some w ∧ pyEq w kv.2 = true) →
    runAlone (liveItems ks root [] items st K) q = runAlone (K st) q
  | [], st, K, q, _ => by simp [liveItems]
  | (k, v) :: tl, st, K, q, h => by
    obtain ⟨w, hw, he⟩ := h (k, v) (by simp)
    have hg : getPath ([] ++ [k]) q = some w := by rw [getPath_snoc (path := []) (dd := q) rfl, hw]
    simp only [liveItems, runAlone, hg, he, if_true]
    exact liveItems_noop ks root tl st K q (fun kv hkv => h kv (by simp [hkv]))

/-- the loop of the top-level call -/
def byKeyLoop (ks : Option (String → Bool)) (s : Doc) : LProg :=
  liveItems ks "" [] s ⟨[], false, false⟩ .done

theorem byKeyLoop_resp (ks : Option (String → Bool)) (s : Doc) : Resp (keys s) (byKeyLoop ks s) :=
  liveItems_resp ks (keys s) "" [] s
    (fun kv hkv => HeadIn.top (List.mem_map.mpr ⟨kv, hkv, rfl⟩)) _ _ (fun _ => Resp.done _)

theorem liveByKey_onlyWrites (ks : Option (String → Bool)) (s : Doc) : OnlyWrites (keys s) (liveByKey ks s) := by
  refine OnlyWrites.load _ (fun f => ?_)
  show OnlyWrites (keys s) (if pyEq (.obj s) (.obj f) then .done ⟨[], false, false⟩ else byKeyLoop ks s)
  split
  · exact .done _
  · exact (byKeyLoop_resp ks s).onlyWrites

/-- `src == x` for a file `x` that holds under the source's keys what `d` holds: every source entry
    is `==` to the one in `d`, seen from the destination's side -/
theorem entries_eq_of_pyEq {s d x : Doc} (hs : NodupKeysObj s) (hd : NodupKeysObj d)
    (hx : AgreeOn (keys s) x d) (h : pyEq (.obj s) (.obj x) = true) :
    ∀ kv ∈ s, ∃ w, lookupKV kv.1 d = some w ∧ pyEq w kv.2 = true := by
  simp only [pyEq, Bool.and_eq_true] at h
  intro kv hkv
  obtain ⟨w, hw, he⟩ := pyEqEntries_iff.mp h.2 kv hkv
  rw [hx kv.1 (List.mem_map.mpr ⟨kv, hkv, rfl⟩)] at hw
  exact ⟨w, hw, pyEq_symm (NodupKeysObj_mem hs kv hkv) (NodupKeysObj_lookup hd hw) he⟩

/-- `DocSync.ByKey` against an environment that leaves the source's top-level keys alone: same
    report as on a private copy, same values under the source's keys.  (The `src == dst` shortcut
    of the top-level call looks at the LENGTH of the destination, so the two runs need not take
    the same branch there; they agree all the same.) -/
theorem liveByKey_sim (ks : Option (String → Bool)) (s d : Doc) (hs : NodupKeysObj s) (hd : NodupKeysObj d)
    (env : Nat → Doc → Doc) (henv : ∀ n x, AgreeOn (keys s) (env n x) x) :
    (runLive env (liveByKey ks s) d).res = (runAlone (liveByKey ks s) d).2 ∧
    AgreeOn (keys s) (runLive env (liveByKey ks s) d).file (runAlone (liveByKey ks s) d).1 := by
  have h0 : AgreeOn (keys s) (env 0 d) d := henv 0 d
  have hsim := (byKeyLoop_resp ks s).sim henv 1 (env 0 d) d h0
  have hnoop : (∀ kv ∈ s, ∃ w, lookupKV kv.1 d = some w ∧ pyEq w kv.2 = true) →
      runAlone (byKeyLoop ks s) d = (d, ⟨[], false, false⟩) := fun hE => by
    simp only [byKeyLoop]
    rw [liveItems_noop ks "" s _ _ d hE]
    rfl
  show (runLiveFrom env (if pyEq (.obj s) (.obj (env 0 d)) then .done ⟨[], false, false⟩ else byKeyLoop ks s)
        1 (env 0 d)).res =
      (runAlone (if pyEq (.obj s) (.obj d) then .done ⟨[], false, false⟩ else byKeyLoop ks s) d).2 ∧
    AgreeOn (keys s)
      (runLiveFrom env (if pyEq (.obj s) (.obj (env 0 d)) then .done ⟨[], false, false⟩ else byKeyLoop ks s)
        1 (env 0 d)).file
      (runAlone (if pyEq (.obj s) (.obj d) then .done ⟨[], false, false⟩ else byKeyLoop ks s) d).1
  cases a : pyEq (.obj s) (.obj (env 0 d)) with
  | true =>
    cases b : pyEq (.obj s) (.obj d) with
    | true => exact ⟨rfl, h0⟩
    | false =>
      simp only [if_true, Bool.false_eq_true, if_false, hnoop (entries_eq_of_pyEq hs hd h0 a)]
      exact ⟨rfl, h0⟩
  | false =>
    cases b : pyEq (.obj s) (.obj d) with
    | true =>
      have hn := hnoop (entries_eq_of_pyEq hs hd (AgreeOn.refl _ d) b)
      rw [hn] at hsim
      simpa [runAlone] using hsim
    | false => simpa using hsim

theorem liveUpdateItems_resp (S : List String) : ∀ (items : Doc) (st : LRes), (∀ kv ∈ items, kv.1 ∈ S) →
    Resp S (liveUpdateItems items st)
  | [], st, _ => .done st
  | (k, v) :: tl, st, h => by
    simp only [liveUpdateItems]
    exact .store k [] v _ (h (k, v) (by simp)) (liveUpdateItems_resp S tl _ (fun kv hkv => h kv (by simp [hkv])))

theorem liveUpdate_resp (s : Doc) : Resp (keys s) (liveUpdate s) :=
  liveUpdateItems_resp (keys s) s _ (fun kv hkv => List.mem_map.mpr ⟨kv, hkv, rfl⟩)

/-! #### what the environment alone does -/

theorem envOnly_zero (env : Nat → Doc → Doc) (f : Doc) : envOnly env 0 f = f := rfl

theorem envOnly_succ (env : Nat → Doc → Doc) (n : Nat) (f : Doc) :
    envOnly env (n + 1) f = env n (envOnly env n f) := by
  simp [envOnly, List.range_succ]

/-- what a rewrite makes of the keys outside `S` depends only on the keys outside `S` -/
def ForeignLocal (S : List String) (env : Nat → Doc → Doc) : Prop :=
  ∀ n x y, (∀ j, j ∉ S → lookupKV j x = lookupKV j y) → ∀ j, j ∉ S → lookupKV j (env n x) = lookupKV j (env n y)

theorem OnlyWrites.envOnly {S : List String} {P : LProg} (hP : OnlyWrites S P) (env : Nat → Doc → Doc)
    (hloc : ForeignLocal S env) (f : Doc) : ∀ j, j ∉ S →
    lookupKV j (runLive env P f).file = lookupKV j (envOnly env (runLive env P f).steps f) := by
  refine hP.foreign_inv env (fun n x => ∀ j, j ∉ S → lookupKV j x = lookupKV j (Sync.envOnly env n f))
    ?_ ?_ 0 f (fun _ _ => rfl)
  · intro n x y hxy hx j hj
    rw [← hxy j hj]; exact hx j hj
  · intro n x hx j hj
    rw [envOnly_succ]
    exact hloc n x _ hx j hj

/-! #### every document strategy -/

theorem liveDocSync_onlyWrites (ds : DocSync) (s : Doc) : OnlyWrites (keys s) (liveDocSync ds s) := by
  cases ds with
  | byKey ks => exact liveByKey_onlyWrites ks s
  | update => exact (liveUpdate_resp s).onlyWrites
  | noSync => exact .done _
  | copy => exact .done _

theorem liveDocSync_sim (ds : DocSync) (s d : Doc) (hs : NodupKeysObj s) (hd : NodupKeysObj d)
    (env : Nat → Doc → Doc) (henv : ∀ n x, AgreeOn (keys s) (env n x) x) :
    (runLive env (liveDocSync ds s) d).res = (runAlone (liveDocSync ds s) d).2 ∧
    AgreeOn (keys s) (runLive env (liveDocSync ds s) d).file (runAlone (liveDocSync ds s) d).1 := by
  cases ds with
  | byKey ks => exact liveByKey_sim ks s d hs hd env henv
  | update => exact (liveUpdate_resp s).sim henv 0 d d (AgreeOn.refl _ d)
  | noSync => exact ⟨rfl, AgreeOn.refl _ d⟩
  | copy => exact ⟨rfl, AgreeOn.refl _ d⟩

/-- a value the other process writes under a key outside `S` at step `i`, and does not touch
    afterwards, is in the file at the end of every run that gets as far as step `i` -/
theorem OnlyWrites.write_survives {S : List String} {P : LProg} (hP : OnlyWrites S P) (env : Nat → Doc → Doc)
    (j : String) (hj : j ∉ S) (i : Nat) (c : Option JVal)
    (hw : ∀ x, lookupKV j (env i x) = c)
    (hkeep : ∀ n x, i < n → lookupKV j (env n x) = lookupKV j x)
    (f : Doc) (hlong : i < (runLive env P f).steps) : lookupKV j (runLive env P f).file = c := by
  have h := hP.foreign_inv env (fun n x => n ≤ i ∨ lookupKV j x = c)
    (fun n x y hxy hx => hx.imp id (fun e => (hxy j hj) ▸ e))
    (fun n x hx => by
      rcases Nat.lt_trichotomy n i with h | h | h
      · exact Or.inl h
      · subst h; exact Or.inr (hw x)
      · rcases hx with hx | hx
        · omega
        · exact Or.inr ((hkeep n x h).trans hx))
    0 f (Or.inl (Nat.zero_le _))
  rcases h with h | h
  · exact absurd hlong (by simpa [runLive] using Nat.not_lt.mpr h)
  · exact h

end Signac.Sync

/-
  Level-local facts about the directory walk `_sync_job_workspaces` of the sync model:
  what each of its three loops does to the entry named `n` of the destination directory.
  Core only.
-/
import Signac.Proofs.SyncBasic
namespace Signac.Sync

abbrev names (l : Entries) : List Name := l.map Prod.fst

theorem getE_none_of_not_mem {n : Name} {l : Entries} (h : n ∉ names l) : getE n l = none := by
  induction l with
  | nil => rfl
  | cons hd tl ih =>
    obtain ⟨k, v⟩ := hd
    simp only [names, List.map, List.mem_cons, not_or] at h
    simp [getE, Ne.symm h.1, ih h.2]

theorem mem_names_of_getE {n : Name} {l : Entries} {c : Node} (h : getE n l = some c) : n ∈ names l := by
  induction l with
  | nil => simp [getE] at h
  | cons hd tl ih =>
    obtain ⟨k, v⟩ := hd
    by_cases hk : k = n
    · simp [names, hk]
    · simp only [getE, hk, if_false] at h
      simp [names, List.mem_cons, ih h]

/-! ### the proxy -/

theorem pPut_d (dry : Bool) (n : Name) (c : Node) (a : Acc) :
    (pPut dry n c a).d = if dry then a.d else setE n c a.d := by
  unfold pPut; split <;> simp_all

theorem getE_pPut_other {m n : Name} (h : m ≠ n) (dry : Bool) (c : Node) (a : Acc) :
    getE m (pPut dry n c a).d = getE m a.d := by
  rw [pPut_d]; split
  · rfl
  · exact getE_setE_other h _ _

theorem getE_pPut_same (n : Name) (c : Node) (a : Acc) : getE n (pPut false n c a).d = some c := by
  simp [pPut_d, getE_setE_same]

theorem pPut_dry (n : Name) (c : Node) (a : Acc) : pPut true n c a = a := by simp [pPut]
theorem pDel_dry (n : Name) (a : Acc) : pDel true n a = a := by simp [pDel]

/-! ### first loop -/

/-- what the first loop leaves under the name `n` -/
theorem phase1_get (o : Opts) (dst0 : Entries) (n : Name) (l : Entries) :
    (names l).Nodup → ∀ a : Acc,
    getE n (phase1 o dst0 l a).d =
      match getE n l with
      | none => getE n a.d
      | some sn =>
        match getE n dst0 with
        | some _ => getE n a.d
        | none =>
          match leftOnlyNode o n sn with
          | some c => if o.dry then getE n a.d else some c
          | none => getE n a.d := by
  induction l with
  | nil => intro _ a; simp [phase1, getE]
  | cons hd tl ih =>
    intro hnd a
    obtain ⟨k, sk⟩ := hd
    have hnd' : (names tl).Nodup := (List.nodup_cons.mp hnd).2
    have hk : k ∉ names tl := (List.nodup_cons.mp hnd).1
    by_cases hkn : k = n
    · subst hkn
      have htl : getE k tl = none := getE_none_of_not_mem hk
      simp only [phase1, getE, if_true]
      cases hd0 : getE k dst0 with
      | some x => simp only [ih hnd' a, htl]
      | none =>
        cases hl : leftOnlyNode o k sk with
        | none => simp only [ih hnd' a, htl]
        | some c =>
          simp only [ih hnd' _, htl, pPut_d]
          split <;> simp_all [getE_setE_same]
    · simp only [phase1, getE, hkn, if_false]
      cases hd0 : getE k dst0 with
      | some x => exact ih hnd' a
      | none =>
        cases hl : leftOnlyNode o k sk with
        | none => exact ih hnd' a
        | some c =>
          simp only
          rw [ih hnd' _]
          simp only [getE_pPut_other (Ne.symm hkn)]

/-! ### second loop -/

/-- `n` is a file on both sides that the comparison in force calls different and that is not excluded -/
def Conflict (o : Opts) (l dst0 : Entries) (n : Name) (ms md : FMeta) : Prop :=
  getE n l = some (.file ms) ∧ getE n dst0 = some (.file md) ∧ differs o.deep ms md = true ∧ excluded o n = false

theorem verdict_none_iff (o : Opts) (p : Path) (ms md : FMeta) :
    verdict o p ms md = none ↔ o.strategy = Strategy.none := by
  unfold verdict
  cases o.strategy <;> simp

/-- one iteration of the second loop: it stops with a conflict, or continues with the same or an
    overwritten accumulator -/
theorem phase2_cons (o : Opts) (sub : Path) (dst0 : Entries) (k : Name) (sk : Node) (tl : Entries) (a : Acc) :
    (∃ ms md, sk = .file ms ∧ getE k dst0 = some (.file md) ∧ differs o.deep ms md = true ∧
        excluded o k = false ∧ verdict o (sub ++ [k]) ms md = none ∧
        phase2 o sub dst0 ((k, sk) :: tl) a = (a, some (.fileConflict k)))
    ∨ (phase2 o sub dst0 ((k, sk) :: tl) a = phase2 o sub dst0 tl a)
    ∨ (∃ ms md, sk = .file ms ∧ getE k dst0 = some (.file md) ∧ differs o.deep ms md = true ∧
        excluded o k = false ∧ verdict o (sub ++ [k]) ms md = some true ∧
        phase2 o sub dst0 ((k, sk) :: tl) a = phase2 o sub dst0 tl (pPut o.dry k (.file (touch o.now ms)) a)) := by
  simp only [phase2]
  split
  · rename_i ms md hmd
    split
    · rename_i hdiff
      simp only [Bool.and_eq_true, Bool.not_eq_true'] at hdiff
      split
      · rename_i hv
        exact Or.inl ⟨ms, md, rfl, hmd, hdiff.1, hdiff.2, hv, rfl⟩
      · rename_i hv
        exact Or.inr (Or.inr ⟨ms, md, rfl, hmd, hdiff.1, hdiff.2, hv, rfl⟩)
      · exact Or.inr (Or.inl rfl)
    · exact Or.inr (Or.inl rfl)
  · exact Or.inr (Or.inl rfl)

theorem conflict_tail {o : Opts} {k n : Name} {sk : Node} {tl dst0 : Entries} {ms md : FMeta}
    (hkn : k ≠ n) (hc : Conflict o ((k, sk) :: tl) dst0 n ms md) : Conflict o tl dst0 n ms md := by
  obtain ⟨h1, h2, h3, h4⟩ := hc
  exact ⟨by simpa [getE, hkn] using h1, h2, h3, h4⟩

theorem conflict_cons {o : Opts} {k n : Name} {sk : Node} {tl dst0 : Entries} {ms md : FMeta}
    (hk : k ∉ names tl) (hc : Conflict o tl dst0 n ms md) : Conflict o ((k, sk) :: tl) dst0 n ms md := by
  obtain ⟨h1, h2, h3, h4⟩ := hc
  have : k ≠ n := by
    intro e; subst e
    exact hk (mem_names_of_getE h1)
  exact ⟨by simp [getE, this, h1], h2, h3, h4⟩

theorem conflict_head {o : Opts} {k : Name} {sk : Node} {tl dst0 : Entries} {ms md : FMeta}
    (hc : Conflict o ((k, sk) :: tl) dst0 k ms md) : sk = .file ms := by
  have := hc.1
  simpa [getE] using this

/-- a name is only ever written by the second loop when it is a conflict the strategy approves -/
theorem phase2_get_other (o : Opts) (sub : Path) (dst0 : Entries) (n : Name) (l : Entries) :
    ∀ a : Acc,
    (∀ ms md, Conflict o l dst0 n ms md → verdict o (sub ++ [n]) ms md ≠ some true) →
    (names l).Nodup →
    getE n (phase2 o sub dst0 l a).1.d = getE n a.d := by
  induction l with
  | nil => intro a _ _; simp [phase2]
  | cons hd tl ih =>
    intro a hc hnd
    obtain ⟨k, sk⟩ := hd
    have hnd' : (names tl).Nodup := (List.nodup_cons.mp hnd).2
    have hk : k ∉ names tl := (List.nodup_cons.mp hnd).1
    have hc' : ∀ ms md, Conflict o tl dst0 n ms md → verdict o (sub ++ [n]) ms md ≠ some true :=
      fun ms md hcf => hc ms md (conflict_cons hk hcf)
    rcases phase2_cons o sub dst0 k sk tl a with ⟨ms, md, _, _, _, _, _, he⟩ | he | ⟨ms, md, hsk, hmd, hd, hx, hv, he⟩
    · rw [he]
    · rw [he]; exact ih a hc' hnd'
    · rw [he, ih _ hc' hnd']
      by_cases hkn : k = n
      · subst hkn
        exact absurd hv (hc ms md ⟨by simp [getE, hsk], hmd, hd, hx⟩)
      · exact getE_pPut_other (Ne.symm hkn) _ _ _

/-- without an error, an approved conflict has been overwritten with the source's bytes -/
theorem phase2_get_true (o : Opts) (sub : Path) (dst0 : Entries) (n : Name) (ms md : FMeta) (l : Entries) :
    ∀ a : Acc, (names l).Nodup → Conflict o l dst0 n ms md → verdict o (sub ++ [n]) ms md = some true →
    (phase2 o sub dst0 l a).2 = none → o.dry = false →
    getE n (phase2 o sub dst0 l a).1.d = some (.file (touch o.now ms)) := by
  induction l with
  | nil => intro a _ hc; simp [Conflict, getE] at hc
  | cons hd tl ih =>
    intro a hnd hc hv herr hdry
    obtain ⟨k, sk⟩ := hd
    have hnd' : (names tl).Nodup := (List.nodup_cons.mp hnd).2
    have hk : k ∉ names tl := (List.nodup_cons.mp hnd).1
    by_cases hkn : k = n
    · subst hkn
      have hsk := conflict_head hc
      obtain ⟨_, h2, h3, h4⟩ := hc
      have hno : ∀ ms' md', Conflict o tl dst0 k ms' md' → verdict o (sub ++ [k]) ms' md' ≠ some true :=
        fun ms' md' hcf => absurd (mem_names_of_getE hcf.1) hk
      subst hsk
      have hcond : (differs o.deep ms md && !excluded o k) = true := by simp [h3, h4]
      have he : phase2 o sub dst0 ((k, .file ms) :: tl) a =
          phase2 o sub dst0 tl (pPut o.dry k (.file (touch o.now ms)) a) := by
        simp only [phase2, h2, hcond, if_true, hv]
      rw [he, phase2_get_other o sub dst0 k tl _ hno hnd', hdry]
      exact getE_pPut_same _ _ _
    · have hc' := conflict_tail hkn hc
      rcases phase2_cons o sub dst0 k sk tl a with ⟨_, _, _, _, _, _, _, he⟩ | he | ⟨_, _, _, _, _, _, _, he⟩
      · rw [he] at herr; simp at herr
      · rw [he] at herr ⊢; exact ih _ hnd' hc' hv herr hdry
      · rw [he] at herr ⊢; exact ih _ hnd' hc' hv herr hdry

/-- the second loop succeeds only if every conflict has a verdict -/
theorem phase2_ok_verdict (o : Opts) (sub : Path) (dst0 : Entries) (l : Entries) :
    ∀ a : Acc, (names l).Nodup → (phase2 o sub dst0 l a).2 = none →
    ∀ n ms md, Conflict o l dst0 n ms md → verdict o (sub ++ [n]) ms md ≠ none := by
  induction l with
  | nil => intro a _ _ n ms md hc; simp [Conflict, getE] at hc
  | cons hd tl ih =>
    intro a hnd herr n ms md hc
    obtain ⟨k, sk⟩ := hd
    have hnd' : (names tl).Nodup := (List.nodup_cons.mp hnd).2
    have hk : k ∉ names tl := (List.nodup_cons.mp hnd).1
    obtain ⟨h1, h2, h3, h4⟩ := hc
    by_cases hkn : k = n
    · subst hkn
      simp only [getE, if_true, Option.some.injEq] at h1
      subst h1
      have hcond : (differs o.deep ms md && !excluded o k) = true := by simp [h3, h4]
      intro hv
      simp [phase2, h2, hcond, hv] at herr
    · have h1' : getE n tl = some (.file ms) := by simpa [getE, hkn] using h1
      have hc' : Conflict o tl dst0 n ms md := ⟨h1', h2, h3, h4⟩
      simp only [phase2] at herr
      split at herr
      · split at herr
        · split at herr
          · simp at herr
          · exact ih _ hnd' herr n ms md hc'
          · exact ih _ hnd' herr n ms md hc'
        · exact ih _ hnd' herr n ms md hc'
      · exact ih _ hnd' herr n ms md hc'

/-- an error of the second loop names a conflicting file for which there is no verdict -/
theorem phase2_err (o : Opts) (sub : Path) (dst0 : Entries) (l : Entries) :
    ∀ a : Acc, ∀ e, (phase2 o sub dst0 l a).2 = some e →
    ∃ n ms md, e = Err.fileConflict n ∧ (n, Node.file ms) ∈ l ∧ getE n dst0 = some (.file md) ∧
      differs o.deep ms md = true ∧ excluded o n = false ∧ verdict o (sub ++ [n]) ms md = none := by
  induction l with
  | nil => intro a e h; simp [phase2] at h
  | cons hd tl ih =>
    intro a e herr
    obtain ⟨k, sk⟩ := hd
    have lift : (∃ n ms md, e = Err.fileConflict n ∧ (n, Node.file ms) ∈ tl ∧ getE n dst0 = some (.file md) ∧
        differs o.deep ms md = true ∧ excluded o n = false ∧ verdict o (sub ++ [n]) ms md = none) →
        ∃ n ms md, e = Err.fileConflict n ∧ (n, Node.file ms) ∈ (k, sk) :: tl ∧ getE n dst0 = some (.file md) ∧
        differs o.deep ms md = true ∧ excluded o n = false ∧ verdict o (sub ++ [n]) ms md = none := by
      rintro ⟨n, ms, md, h1, h2, h3⟩
      exact ⟨n, ms, md, h1, List.mem_cons_of_mem _ h2, h3⟩
    simp only [phase2] at herr
    split at herr
    · rename_i ms md hmd
      split at herr
      · rename_i hdiff
        simp only [Bool.and_eq_true, Bool.not_eq_true'] at hdiff
        split at herr
        · rename_i hv
          simp only [Option.some.injEq] at herr
          exact ⟨k, ms, md, herr.symm, List.mem_cons_self, hmd, hdiff.1, hdiff.2, hv⟩
        · exact lift (ih _ e herr)
        · exact lift (ih _ e herr)
      · exact lift (ih _ e herr)
    · exact lift (ih _ e herr)

/-! ### third loop -/

/-- the accumulator after the common sub-directory `k` has been synchronised -/
def subAcc (o : Opts) (sub : Path) (k : Name) (ses dch : Entries) (a : Acc) : Acc :=
  ⟨setE k (.dir (walkDir o (sub ++ [k]) (.dir ses) dch).d) a.d,
   a.log ++ (walkDir o (sub ++ [k]) (.dir ses) dch).log.map (Step.under k)⟩

theorem walkSubs_cons_common (o : Opts) (sub : Path) (dst0 : Entries) (k : Name) (ses x dch tl : Entries)
    (a : Acc) (h1 : getE k dst0 = some (.dir x)) (h2 : getE k a.d = some (.dir dch)) :
    walkSubs o sub dst0 ((k, .dir ses) :: tl) a =
      match (walkDir o (sub ++ [k]) (.dir ses) dch).err with
      | some e => ⟨(subAcc o sub k ses dch a).d, (subAcc o sub k ses dch a).log, some e⟩
      | none => walkSubs o sub dst0 tl (subAcc o sub k ses dch a) := by
  simp only [walkSubs, h1, h2, subAcc]
  cases (walkDir o (sub ++ [k]) (.dir ses) dch).err <;> rfl

theorem walkSubs_cons_skip (o : Opts) (sub : Path) (dst0 : Entries) (k : Name) (sk : Node) (tl : Entries)
    (a : Acc)
    (h : ¬ ∃ ses x dch, sk = .dir ses ∧ getE k dst0 = some (.dir x) ∧ getE k a.d = some (.dir dch)) :
    walkSubs o sub dst0 ((k, sk) :: tl) a = walkSubs o sub dst0 tl a := by
  simp only [walkSubs]
  split
  · rename_i ses x dch h1 h2
    exact absurd ⟨ses, x, dch, rfl, h1, h2⟩ h
  · rfl

theorem getE_subAcc_other {m k : Name} (h : m ≠ k) (o : Opts) (sub : Path) (ses dch : Entries) (a : Acc) :
    getE m (subAcc o sub k ses dch a).d = getE m a.d := by
  simp [subAcc, getE_setE_other h]

/-- the third loop only touches names that are directories in the destination listing -/
theorem walkSubs_get_other (o : Opts) (sub : Path) (dst0 : Entries) (n : Name) (l : Entries) :
    ∀ a : Acc, (∀ x, getE n dst0 ≠ some (.dir x)) →
    getE n (walkSubs o sub dst0 l a).d = getE n a.d := by
  induction l with
  | nil => intro a _; simp [walkSubs]
  | cons hd tl ih =>
    intro a hn
    obtain ⟨k, sk⟩ := hd
    by_cases hc : ∃ ses x dch, sk = .dir ses ∧ getE k dst0 = some (.dir x) ∧ getE k a.d = some (.dir dch)
    · obtain ⟨ses, x, dch, hsk, h1, h2⟩ := hc
      subst hsk
      have hkn : n ≠ k := by
        intro e; subst e; exact hn x h1
      rw [walkSubs_cons_common o sub dst0 k ses x dch tl a h1 h2]
      split
      · exact getE_subAcc_other hkn _ _ _ _ _
      · rw [ih _ hn]; exact getE_subAcc_other hkn _ _ _ _ _
    · rw [walkSubs_cons_skip o sub dst0 k sk tl a hc]; exact ih a hn

/-- … and only names that are directories in the source listing -/
theorem walkSubs_get_src_not_dir (o : Opts) (sub : Path) (dst0 : Entries) (n : Name) (l : Entries) :
    ∀ a : Acc, (names l).Nodup → (∀ ses, getE n l ≠ some (.dir ses)) →
    getE n (walkSubs o sub dst0 l a).d = getE n a.d := by
  induction l with
  | nil => intro a _ _; simp [walkSubs]
  | cons hd tl ih =>
    intro a hnd hn
    obtain ⟨k, sk⟩ := hd
    have hnd' : (names tl).Nodup := (List.nodup_cons.mp hnd).2
    have hk : k ∉ names tl := (List.nodup_cons.mp hnd).1
    have hn' : ∀ ses, getE n tl ≠ some (.dir ses) := by
      intro ses hh
      have : k ≠ n := by
        intro e; subst e; exact hk (mem_names_of_getE hh)
      exact hn ses (by simp [getE, this, hh])
    by_cases hc : ∃ ses x dch, sk = .dir ses ∧ getE k dst0 = some (.dir x) ∧ getE k a.d = some (.dir dch)
    · obtain ⟨ses, x, dch, hsk, h1, h2⟩ := hc
      subst hsk
      have hkn : n ≠ k := by
        intro e; subst e; exact hn ses (by simp [getE])
      rw [walkSubs_cons_common o sub dst0 k ses x dch tl a h1 h2]
      split
      · exact getE_subAcc_other hkn _ _ _ _ _
      · rw [ih _ hnd' hn']; exact getE_subAcc_other hkn _ _ _ _ _
    · rw [walkSubs_cons_skip o sub dst0 k sk tl a hc]; exact ih a hnd' hn'

/-- a common sub-directory holds either its old content or the result of its own walk; without an
    error it holds the result of its own walk, and that walk had no error either -/
theorem walkSubs_get_common (o : Opts) (sub : Path) (dst0 : Entries) (n : Name) (ses x dch : Entries)
    (l : Entries) :
    ∀ a : Acc, (names l).Nodup → getE n l = some (.dir ses) → getE n dst0 = some (.dir x) →
    getE n a.d = some (.dir dch) →
    (getE n (walkSubs o sub dst0 l a).d = some (.dir dch) ∧ (walkSubs o sub dst0 l a).err ≠ none)
    ∨ (getE n (walkSubs o sub dst0 l a).d = some (.dir (walkDir o (sub ++ [n]) (.dir ses) dch).d) ∧
        ((walkSubs o sub dst0 l a).err = none → (walkDir o (sub ++ [n]) (.dir ses) dch).err = none)) := by
  induction l with
  | nil => intro a _ h; simp [getE] at h
  | cons hd tl ih =>
    intro a hnd hl h0 ha
    obtain ⟨k, sk⟩ := hd
    have hnd' : (names tl).Nodup := (List.nodup_cons.mp hnd).2
    have hk : k ∉ names tl := (List.nodup_cons.mp hnd).1
    by_cases hkn : k = n
    · subst hkn
      have hsk : sk = .dir ses := by simpa [getE] using hl
      subst hsk
      have hno : ∀ ses', getE k tl ≠ some (.dir ses') :=
        fun ses' hh => hk (mem_names_of_getE hh)
      rw [walkSubs_cons_common o sub dst0 k ses x dch tl a h0 ha]
      right
      cases he : (walkDir o (sub ++ [k]) (.dir ses) dch).err with
      | some e =>
        simp [subAcc, getE_setE_same]
      | none =>
        simp only
        rw [walkSubs_get_src_not_dir o sub dst0 k tl _ hnd' hno]
        simp [subAcc, getE_setE_same]
    · have hl' : getE n tl = some (.dir ses) := by simpa [getE, hkn] using hl
      by_cases hc : ∃ ses' x' dch', sk = .dir ses' ∧ getE k dst0 = some (.dir x') ∧ getE k a.d = some (.dir dch')
      · obtain ⟨ses', x', dch', hsk, h1, h2⟩ := hc
        subst hsk
        rw [walkSubs_cons_common o sub dst0 k ses' x' dch' tl a h1 h2]
        have ha' : getE n (subAcc o sub k ses' dch' a).d = some (.dir dch) := by
          rw [getE_subAcc_other (Ne.symm hkn)]; exact ha
        cases he : (walkDir o (sub ++ [k]) (.dir ses') dch').err with
        | some e => left; exact ⟨ha', by simp⟩
        | none => exact ih _ hnd' hl' h0 ha'
      · rw [walkSubs_cons_skip o sub dst0 k sk tl a hc]; exact ih a hnd' hl' h0 ha

/-! ### one directory level of the walk -/

theorem walkDir_dir (o : Opts) (sub : Path) (ses des : Entries) :
    walkDir o sub (.dir ses) des =
      match (phase2 o sub des ses (phase1 o des ses ⟨des, []⟩)).2 with
      | some e => ⟨(phase2 o sub des ses (phase1 o des ses ⟨des, []⟩)).1.d,
                   (phase2 o sub des ses (phase1 o des ses ⟨des, []⟩)).1.log, some e⟩
      | none =>
        if o.recursive then walkSubs o sub des ses (phase2 o sub des ses (phase1 o des ses ⟨des, []⟩)).1
        else ⟨(phase2 o sub des ses (phase1 o des ses ⟨des, []⟩)).1.d,
              (phase2 o sub des ses (phase1 o des ses ⟨des, []⟩)).1.log, none⟩ := by
  simp only [walkDir]
  cases (phase2 o sub des ses (phase1 o des ses ⟨des, []⟩)).2 <;> rfl

/-- the state after the first two loops -/
def acc2 (o : Opts) (sub : Path) (ses des : Entries) : Acc :=
  (phase2 o sub des ses (phase1 o des ses ⟨des, []⟩)).1

def err2 (o : Opts) (sub : Path) (ses des : Entries) : Option Err :=
  (phase2 o sub des ses (phase1 o des ses ⟨des, []⟩)).2

theorem walkDir_dir' (o : Opts) (sub : Path) (ses des : Entries) :
    walkDir o sub (.dir ses) des =
      match err2 o sub ses des with
      | some e => ⟨(acc2 o sub ses des).d, (acc2 o sub ses des).log, some e⟩
      | none =>
        if o.recursive then walkSubs o sub des ses (acc2 o sub ses des)
        else ⟨(acc2 o sub ses des).d, (acc2 o sub ses des).log, none⟩ := walkDir_dir o sub ses des

/-- the third loop leaves `n` alone ⇒ the level's result at `n` is that of the first two loops -/
theorem walkDir_get_of_subs (o : Opts) (sub : Path) (ses des : Entries) (n : Name)
    (h : ∀ a, getE n (walkSubs o sub des ses a).d = getE n a.d) :
    getE n (walkDir o sub (.dir ses) des).d = getE n (acc2 o sub ses des).d := by
  rw [walkDir_dir']
  split
  · rfl
  · split
    · exact h _
    · rfl

theorem acc2_get_of_no_conflict (o : Opts) (sub : Path) (ses des : Entries) (n : Name)
    (hnd : (names ses).Nodup)
    (hc : ∀ ms md, Conflict o ses des n ms md → verdict o (sub ++ [n]) ms md ≠ some true) :
    getE n (acc2 o sub ses des).d = getE n (phase1 o des ses ⟨des, []⟩).d := by
  unfold acc2
  exact phase2_get_other o sub des n ses _ hc hnd

/-- W1: a name the source directory does not have is left alone -/
theorem walkDir_get_absent (o : Opts) (sub : Path) (ses des : Entries) (n : Name)
    (hnd : (names ses).Nodup) (h : getE n ses = none) :
    getE n (walkDir o sub (.dir ses) des).d = getE n des := by
  rw [walkDir_get_of_subs o sub ses des n
    (fun a => walkSubs_get_src_not_dir o sub des n ses a hnd (by simp [h]))]
  rw [acc2_get_of_no_conflict o sub ses des n hnd (by intro ms md hc; simp [Conflict, h] at hc)]
  rw [phase1_get o des n ses hnd]
  simp [h]

/-- W2: a name only the source has is created as `leftOnlyNode` says (not at all in a dry run) -/
theorem walkDir_get_leftonly (o : Opts) (sub : Path) (ses des : Entries) (n : Name) (sn : Node)
    (hnd : (names ses).Nodup) (hs : getE n ses = some sn) (hd : getE n des = none) :
    getE n (walkDir o sub (.dir ses) des).d = if o.dry then none else leftOnlyNode o n sn := by
  rw [walkDir_get_of_subs o sub ses des n
    (fun a => walkSubs_get_other o sub des n ses a (by simp [hd]))]
  rw [acc2_get_of_no_conflict o sub ses des n hnd (by intro ms md hc; simp [Conflict, hd] at hc)]
  rw [phase1_get o des n ses hnd]
  simp only [hs, hd]
  cases leftOnlyNode o n sn <;> simp

/-- W5: a file facing a directory (either way round) is left alone -/
theorem walkDir_get_clash (o : Opts) (sub : Path) (ses des : Entries) (n : Name) (sn dn : Node)
    (hnd : (names ses).Nodup) (hs : getE n ses = some sn) (hd : getE n des = some dn)
    (hclash : (∃ m x, sn = .file m ∧ dn = .dir x) ∨ (∃ x m, sn = .dir x ∧ dn = .file m)) :
    getE n (walkDir o sub (.dir ses) des).d = some dn := by
  have hsub : ∀ a, getE n (walkSubs o sub des ses a).d = getE n a.d := by
    intro a
    rcases hclash with ⟨m, x, h1, h2⟩ | ⟨x, m, h1, h2⟩
    · subst h1
      exact walkSubs_get_src_not_dir o sub des n ses a hnd (by simp [hs])
    · subst h2
      exact walkSubs_get_other o sub des n ses a (by simp [hd])
  rw [walkDir_get_of_subs o sub ses des n hsub]
  rw [acc2_get_of_no_conflict o sub ses des n hnd (by
    intro ms md hc
    rcases hclash with ⟨m, x, h1, h2⟩ | ⟨x, m, h1, h2⟩
    · subst h2; simp [Conflict, hd] at hc
    · subst h1; simp [Conflict, hs] at hc)]
  rw [phase1_get o des n ses hnd]
  simp [hs, hd]

/-- W3a/b: a file on both sides stays as it is unless it is a conflict with verdict "overwrite" -/
theorem walkDir_get_file_kept (o : Opts) (sub : Path) (ses des : Entries) (n : Name) (ms md : FMeta)
    (hnd : (names ses).Nodup) (hs : getE n ses = some (.file ms)) (hd : getE n des = some (.file md))
    (hk : ¬ (differs o.deep ms md = true ∧ excluded o n = false ∧ verdict o (sub ++ [n]) ms md = some true)) :
    getE n (walkDir o sub (.dir ses) des).d = some (.file md) := by
  rw [walkDir_get_of_subs o sub ses des n
    (fun a => walkSubs_get_other o sub des n ses a (by simp [hd]))]
  rw [acc2_get_of_no_conflict o sub ses des n hnd (by
    intro ms' md' hc hv
    obtain ⟨h1, h2, h3, h4⟩ := hc
    rw [hs] at h1; cases h1
    rw [hd] at h2; cases h2
    exact hk ⟨h3, h4, hv⟩)]
  rw [phase1_get o des n ses hnd]
  simp [hs, hd]

theorem walkDir_err_none (o : Opts) (sub : Path) (ses des : Entries)
    (h : (walkDir o sub (.dir ses) des).err = none) : err2 o sub ses des = none := by
  rw [walkDir_dir'] at h
  cases he : err2 o sub ses des with
  | none => rfl
  | some e => simp [he] at h

/-- W3c: in a successful real run a conflict with verdict "overwrite" carries the source's bytes -/
theorem walkDir_get_file_overwritten (o : Opts) (sub : Path) (ses des : Entries) (n : Name) (ms md : FMeta)
    (hnd : (names ses).Nodup) (hs : getE n ses = some (.file ms)) (hd : getE n des = some (.file md))
    (hdiff : differs o.deep ms md = true) (hx : excluded o n = false)
    (hv : verdict o (sub ++ [n]) ms md = some true)
    (hok : (walkDir o sub (.dir ses) des).err = none) (hdry : o.dry = false) :
    getE n (walkDir o sub (.dir ses) des).d = some (.file (touch o.now ms)) := by
  rw [walkDir_get_of_subs o sub ses des n
    (fun a => walkSubs_get_other o sub des n ses a (by simp [hd]))]
  have he := walkDir_err_none o sub ses des hok
  unfold acc2
  exact phase2_get_true o sub des n ms md ses _ hnd ⟨hs, hd, hdiff, hx⟩ hv he hdry

/-- W3d: a conflict without verdict makes the level fail (first loop done, nothing overwritten) -/
theorem walkDir_conflict_fails (o : Opts) (sub : Path) (ses des : Entries) (n : Name) (ms md : FMeta)
    (hnd : (names ses).Nodup) (hs : getE n ses = some (.file ms)) (hd : getE n des = some (.file md))
    (hdiff : differs o.deep ms md = true) (hx : excluded o n = false)
    (hv : verdict o (sub ++ [n]) ms md = none) :
    ∃ fn, (walkDir o sub (.dir ses) des).err = some (.fileConflict fn) := by
  have hne : err2 o sub ses des ≠ none := by
    intro he
    exact phase2_ok_verdict o sub des ses _ hnd he n ms md ⟨hs, hd, hdiff, hx⟩ hv
  cases he : err2 o sub ses des with
  | none => exact absurd he hne
  | some e =>
    obtain ⟨fn, _, _, hfn, _⟩ := phase2_err o sub des ses _ e he
    refine ⟨fn, ?_⟩
    rw [walkDir_dir', he, hfn]

/-- W4: a directory on both sides holds its old content or the result of its own walk; in a
    successful recursive run the latter, and that walk succeeded too -/
theorem walkDir_get_common (o : Opts) (sub : Path) (ses des : Entries) (n : Name) (sch dch : Entries)
    (hnd : (names ses).Nodup) (hs : getE n ses = some (.dir sch)) (hd : getE n des = some (.dir dch)) :
    (getE n (walkDir o sub (.dir ses) des).d = some (.dir dch) ∧
      ((walkDir o sub (.dir ses) des).err = none → o.recursive = false))
    ∨ (o.recursive = true ∧
       getE n (walkDir o sub (.dir ses) des).d = some (.dir (walkDir o (sub ++ [n]) (.dir sch) dch).d) ∧
       ((walkDir o sub (.dir ses) des).err = none → (walkDir o (sub ++ [n]) (.dir sch) dch).err = none)) := by
  have h2 : getE n (acc2 o sub ses des).d = some (.dir dch) := by
    rw [acc2_get_of_no_conflict o sub ses des n hnd (by intro ms md hc; simp [Conflict, hd] at hc)]
    rw [phase1_get o des n ses hnd]
    simp [hs, hd]
  rw [walkDir_dir']
  cases he : err2 o sub ses des with
  | some e => left; exact ⟨h2, by simp⟩
  | none =>
    simp only
    cases hr : o.recursive with
    | false => left; simp [h2]
    | true =>
      simp only [if_true]
      rcases walkSubs_get_common o sub des n sch dch dch ses (acc2 o sub ses des) hnd hs hd h2 with ⟨h, hne⟩ | ⟨h, hok⟩
      · left; exact ⟨h, fun hh => absurd hh hne⟩
      · right; exact ⟨trivial, h, hok⟩

end Signac.Sync

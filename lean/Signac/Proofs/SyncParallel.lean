/-
  Parallel = sequential: steps whose targets lie in different job directories commute, so
  every schedule that keeps each job's own steps in order gives the same workspace.  Core only.
-/
import Signac.Proofs.SyncBasic
namespace Signac.Sync

/-- the entry of the directory a step works in (for workspace-level steps: the job id) -/
def Step.head : Step → Name
  | .put n _ _ => n
  | .del n _ => n

/-- what a step does to the entry it works in -/
def Step.on : Step → Option Node → Option Node
  | .put _ [] c, _ => some c
  | .put _ (m :: p) c, some (.dir ch) => some (.dir (putP m p c ch))
  | .put _ (_ :: _) _, x => x
  | .del _ [], _ => none
  | .del _ (m :: p), some (.dir ch) => some (.dir (delP m p ch))
  | .del _ (_ :: _), x => x

/-- a step does not touch any other entry (disjoint footprints) -/
theorem getE_apply_other (es : Entries) (s : Step) (k : Name) (h : k ≠ s.head) :
    getE k (s.apply es) = getE k es := by
  cases s with
  | put n p c =>
    simp only [Step.head] at h
    cases p with
    | nil => simp [Step.apply, putP, getE_setE_other h]
    | cons m q =>
      simp only [Step.apply, putP]
      split
      · exact getE_setE_other h _ _
      · rfl
  | del n p =>
    simp only [Step.head] at h
    cases p with
    | nil => simp [Step.apply, delP, getE_delE_other h]
    | cons m q =>
      simp only [Step.apply, delP]
      split
      · exact getE_setE_other h _ _
      · rfl

/-- … and what it does to its own entry depends on that entry only -/
theorem getE_apply_same (es : Entries) (s : Step) : getE s.head (s.apply es) = s.on (getE s.head es) := by
  cases s with
  | put n p c =>
    cases p with
    | nil => simp [Step.apply, Step.head, Step.on, putP, getE_setE_same]
    | cons m q =>
      simp only [Step.apply, Step.head, putP]
      cases hg : getE n es with
      | none => simp [Step.on, hg]
      | some x =>
        cases x with
        | file f => simp [Step.on, hg]
        | dir ch => simp [Step.on, getE_setE_same]
  | del n p =>
    cases p with
    | nil => simp [Step.apply, Step.head, Step.on, delP, getE_delE_same]
    | cons m q =>
      simp only [Step.apply, Step.head, delP]
      cases hg : getE n es with
      | none => simp [Step.on, hg]
      | some x =>
        cases x with
        | file f => simp [Step.on, hg]
        | dir ch => simp [Step.on, getE_setE_same]

/-- the steps of a schedule that work in entry `k`, in schedule order -/
def stepsOf (k : Name) (l : List Step) : List Step := l.filter (fun s => s.head == k)

/-- an entry after a whole schedule = its own steps applied to it, in order -/
theorem getE_applyAll (k : Name) (l : List Step) : ∀ es : Entries,
    getE k (applyAll es l) = (stepsOf k l).foldl (fun x s => s.on x) (getE k es) := by
  induction l with
  | nil => intro es; simp [applyAll, stepsOf]
  | cons s tl ih =>
    intro es
    simp only [applyAll, List.foldl] at ih ⊢
    rw [ih]
    by_cases h : s.head = k
    · subst h
      simp [stepsOf, List.filter, getE_apply_same]
    · have h' : (s.head == k) = false := by simpa using h
      simp only [stepsOf, List.filter, h']
      rw [getE_apply_other es s k (fun e => h e.symm)]

/-- the commutation theorem: two schedules that contain, for every job, the same steps in the
    same order produce the same job directories -/
theorem schedules_agree (es : Entries) (l1 l2 : List Step)
    (h : ∀ k, stepsOf k l1 = stepsOf k l2) (k : Name) :
    getE k (applyAll es l1) = getE k (applyAll es l2) := by
  rw [getE_applyAll, getE_applyAll, h k]

/-- all steps logged for the job `id` have their footprint inside that job's directory -/
theorem head_under (id : Name) (s : Step) : (s.under id).head = id := by
  cases s <;> rfl

theorem stepsOf_map_under_same (id : Name) (ss : List Step) :
    stepsOf id (ss.map (Step.under id)) = ss.map (Step.under id) := by
  induction ss with
  | nil => rfl
  | cons s tl ih =>
    simp only [List.map, stepsOf, List.filter, head_under, beq_self_eq_true]
    simp only [stepsOf] at ih
    rw [ih]

theorem stepsOf_map_under_other {id k : Name} (h : id ≠ k) (ss : List Step) :
    stepsOf k (ss.map (Step.under id)) = [] := by
  induction ss with
  | nil => rfl
  | cons s tl ih =>
    have : ((s.under id).head == k) = false := by simpa [head_under] using h
    simp only [List.map, stepsOf, List.filter, this]
    simpa [stepsOf] using ih

theorem stepsOf_append (k : Name) (a b : List Step) : stepsOf k (a ++ b) = stepsOf k a ++ stepsOf k b := by
  simp [stepsOf, List.filter_append]

end Signac.Sync

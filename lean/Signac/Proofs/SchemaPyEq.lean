/-
  Python `==` on JSON-born values (`pyEq`) is symmetric and transitive on values whose mappings
  have distinct keys at every depth (which every parsed JSON document and every Python dict
  satisfies).  Needed to read the set algebra of `diff_jobs` as "pairs not shared by all jobs".
  Core only.
-/
import Signac.PyVal
namespace Signac

/-! ### numbers -/

theorem numEq_symm (a b : Int × Nat) : numEq a b = numEq b a := by
  simp only [numEq]
  rw [Bool.eq_iff_iff]
  simp only [beq_iff_eq]
  exact eq_comm

theorem numEq_trans {a b c : Int × Nat} (h1 : numEq a b = true) (h2 : numEq b c = true) :
    numEq a c = true := by
  simp only [numEq, beq_iff_eq] at *
  have hb : (2 : Int) ^ b.2 ≠ 0 := Int.pow_ne_zero (by decide)
  apply Int.eq_of_mul_eq_mul_right hb
  calc a.1 * 2 ^ c.2 * 2 ^ b.2 = (a.1 * 2 ^ b.2) * 2 ^ c.2 := by ac_rfl
    _ = (b.1 * 2 ^ a.2) * 2 ^ c.2 := by rw [h1]
    _ = (b.1 * 2 ^ c.2) * 2 ^ a.2 := by ac_rfl
    _ = (c.1 * 2 ^ b.2) * 2 ^ a.2 := by rw [h2]
    _ = c.1 * 2 ^ a.2 * 2 ^ b.2 := by ac_rfl

theorem numVal_bool (b : Bool) : numVal (.bool b) = some (if b then (1, 0) else (0, 0)) := by
  cases b <;> rfl

theorem pyEq_num {v w : JVal} {p q : Int × Nat} (hv : numVal v = some p) (hw : numVal w = some q) :
    pyEq v w = numEq p q := by
  cases v with
  | bool a => rw [numVal_bool] at hv; cases hv; simp only [pyEq, hw]
  | int i => simp only [numVal] at hv; cases hv; simp only [pyEq, hw]
  | flt n e r => simp only [numVal] at hv; cases hv; simp only [pyEq, hw]
  | null => simp [numVal] at hv
  | str _ => simp [numVal] at hv
  | arr _ => simp [numVal] at hv
  | obj _ => simp [numVal] at hv

theorem pyEq_num_none {v w : JVal} {p : Int × Nat} (hv : numVal v = some p) (hw : numVal w = none) :
    pyEq v w = false := by
  cases v with
  | bool a => simp only [pyEq, hw]
  | int i => simp only [pyEq, hw]
  | flt n e r => simp only [pyEq, hw]
  | null => simp [numVal] at hv
  | str _ => simp [numVal] at hv
  | arr _ => simp [numVal] at hv
  | obj _ => simp [numVal] at hv

theorem pyEq_none_num {v w : JVal} {q : Int × Nat} (hv : numVal v = none) (hw : numVal w = some q) :
    pyEq v w = false := by
  cases v with
  | bool a => rw [numVal_bool] at hv; cases hv
  | int i => simp [numVal] at hv
  | flt n e r => simp [numVal] at hv
  | null => cases w <;> simp_all [pyEq, numVal]
  | str _ => cases w <;> simp_all [pyEq, numVal]
  | arr _ => cases w <;> simp_all [pyEq, numVal]
  | obj _ => cases w <;> simp_all [pyEq, numVal]

/-! ### mappings with distinct keys -/

mutual
  /-- every mapping inside the value (also inside lists) has pairwise distinct keys -/
  def NodupKeysVal : JVal → Prop
    | .arr xs => NodupKeysList xs
    | .obj kvs => NodupKeysObj kvs
    | .null => True
    | .bool _ => True
    | .int _ => True
    | .flt _ _ _ => True
    | .str _ => True
  def NodupKeysList : List JVal → Prop
    | [] => True
    | x :: xs => NodupKeysVal x ∧ NodupKeysList xs
  def NodupKeysObj : List (String × JVal) → Prop
    | [] => True
    | (k, v) :: rest => (∀ kv ∈ rest, kv.1 ≠ k) ∧ NodupKeysVal v ∧ NodupKeysObj rest
end

theorem NodupKeysList_mem {xs : List JVal} (h : NodupKeysList xs) : ∀ x ∈ xs, NodupKeysVal x := by
  induction xs with
  | nil => intro x hx; simp at hx
  | cons a l ih =>
    simp only [NodupKeysList] at h
    intro x hx
    simp only [List.mem_cons] at hx
    rcases hx with hx | hx
    · subst hx; exact h.1
    · exact ih h.2 x hx

theorem NodupKeysObj_mem {kvs : List (String × JVal)} (h : NodupKeysObj kvs) :
    ∀ kv ∈ kvs, NodupKeysVal kv.2 := by
  induction kvs with
  | nil => intro x hx; simp at hx
  | cons a l ih =>
    obtain ⟨k, v⟩ := a
    simp only [NodupKeysObj] at h
    intro x hx
    simp only [List.mem_cons] at hx
    rcases hx with hx | hx
    · subst hx; exact h.2.1
    · exact ih h.2.2 x hx

theorem NodupKeysObj_keys {kvs : List (String × JVal)} (h : NodupKeysObj kvs) :
    (kvs.map Prod.fst).Nodup := by
  induction kvs with
  | nil => simp
  | cons a l ih =>
    obtain ⟨k, v⟩ := a
    simp only [NodupKeysObj] at h
    simp only [List.map_cons, List.nodup_cons, List.mem_map, not_exists, not_and]
    exact ⟨fun kv hkv e => h.1 kv hkv e, ih h.2.2⟩

theorem lookupKV_mem {k : String} {l : List (String × JVal)} {w : JVal}
    (h : lookupKV k l = some w) : (k, w) ∈ l := by
  induction l with
  | nil => simp [lookupKV] at h
  | cons a l ih =>
    obtain ⟨k', v'⟩ := a
    simp only [lookupKV] at h
    split at h
    · next e => cases h; subst e; simp
    · simp [ih h]

theorem lookupKV_of_mem {k : String} {l : List (String × JVal)} {w : JVal}
    (hn : NodupKeysObj l) (h : (k, w) ∈ l) : lookupKV k l = some w := by
  induction l with
  | nil => simp at h
  | cons a l ih =>
    obtain ⟨k', v'⟩ := a
    simp only [NodupKeysObj] at hn
    simp only [List.mem_cons, Prod.mk.injEq] at h
    simp only [lookupKV]
    rcases h with ⟨e1, e2⟩ | h
    · subst e1; subst e2; simp
    · have : ¬ k = k' := hn.1 (k, w) h
      simp only [this, if_false]
      exact ih hn.2.2 h

theorem pyEqEntries_iff {a b : List (String × JVal)} :
    pyEqEntries a b = true ↔ ∀ kv ∈ a, ∃ w, lookupKV kv.1 b = some w ∧ pyEq kv.2 w = true := by
  induction a with
  | nil => simp [pyEqEntries]
  | cons hd tl ih =>
    obtain ⟨k, v⟩ := hd
    simp only [pyEqEntries, Bool.and_eq_true, ih, List.mem_cons, forall_eq_or_imp]
    constructor
    · rintro ⟨h1, h2⟩
      refine ⟨?_, h2⟩
      cases hl : lookupKV k b with
      | none => simp [hl] at h1
      | some w => exact ⟨w, rfl, by simpa [hl] using h1⟩
    · rintro ⟨⟨w, hl, he⟩, h2⟩
      exact ⟨by simp [hl, he], h2⟩

/-- pigeonhole: a duplicate-free list contained in a list that is not longer contains it -/
theorem subset_of_nodup_length {a : List String} :
    ∀ {b : List String}, a.Nodup → (∀ x ∈ a, x ∈ b) → b.length ≤ a.length → ∀ y ∈ b, y ∈ a := by
  induction a with
  | nil =>
    intro b _ _ hl y hy
    have : b = [] := List.eq_nil_of_length_eq_zero (by simpa using hl)
    subst this; simp at hy
  | cons x a' ih =>
    intro b hn hs hl y hy
    simp only [List.nodup_cons] at hn
    have hxb : x ∈ b := hs x (by simp)
    have hlen : (b.erase x).length = b.length - 1 := List.length_erase_of_mem hxb
    have hsub : ∀ z ∈ a', z ∈ b.erase x := by
      intro z hz
      have hzx : z ≠ x := fun e => hn.1 (e ▸ hz)
      exact (List.mem_erase_of_ne hzx).mpr (hs z (by simp [hz]))
    have hb : 0 < b.length := List.length_pos_of_mem hxb
    have := @ih (b.erase x) hn.2 hsub (by simp only [List.length_cons] at hl; omega)
    by_cases e : y = x
    · subst e; simp
    · simp only [List.mem_cons]
      exact Or.inr (this y ((List.mem_erase_of_ne e).mpr hy))

/-! ### symmetry -/

/-- `v == w` implies `w == v` for every well-formed `w` -/
def SymmAt (v : JVal) : Prop := ∀ w, NodupKeysVal w → pyEq v w = true → pyEq w v = true

theorem symmAt_of_num {v : JVal} {p : Int × Nat} (hv : numVal v = some p) : SymmAt v := by
  intro w _ h
  cases hw : numVal w with
  | none => rw [pyEq_num_none hv hw] at h; cases h
  | some q =>
    rw [pyEq_num hv hw] at h
    rw [pyEq_num hw hv, numEq_symm]
    exact h

theorem pyEqList_symm {xs : List JVal} (hx : ∀ x ∈ xs, SymmAt x) :
    ∀ {ys : List JVal}, NodupKeysList ys → pyEqList xs ys = true → pyEqList ys xs = true := by
  induction xs with
  | nil => intro ys _ h; cases ys <;> simp_all [pyEqList]
  | cons x xs ih =>
    intro ys hy h
    cases ys with
    | nil => simp [pyEqList] at h
    | cons y ys =>
      simp only [pyEqList, Bool.and_eq_true] at h ⊢
      simp only [NodupKeysList] at hy
      exact ⟨hx x (by simp) y hy.1 h.1, ih (fun z hz => hx z (by simp [hz])) hy.2 h.2⟩

theorem pyEqEntries_symm {a b : List (String × JVal)} (ha : NodupKeysObj a) (hb : NodupKeysObj b)
    (hl : a.length = b.length) (hs : ∀ kv ∈ a, SymmAt kv.2) (h : pyEqEntries a b = true) :
    pyEqEntries b a = true := by
  rw [pyEqEntries_iff] at h ⊢
  have hsub : ∀ k ∈ a.map Prod.fst, k ∈ b.map Prod.fst := by
    intro k hk
    simp only [List.mem_map] at hk
    obtain ⟨kv, hkv, e⟩ := hk
    obtain ⟨w, hw, _⟩ := h kv hkv
    exact List.mem_map.mpr ⟨(kv.1, w), lookupKV_mem hw, e⟩
  have hback := subset_of_nodup_length (NodupKeysObj_keys ha) hsub (by simp [hl])
  intro kw hkw
  have hk : kw.1 ∈ a.map Prod.fst := hback kw.1 (List.mem_map.mpr ⟨kw, hkw, rfl⟩)
  simp only [List.mem_map] at hk
  obtain ⟨kv, hkv, e⟩ := hk
  obtain ⟨w', hw', he⟩ := h kv hkv
  have hw : lookupKV kv.1 b = some kw.2 := lookupKV_of_mem hb (by rw [e]; exact hkw)
  rw [hw] at hw'
  cases hw'
  refine ⟨kv.2, ?_, hs kv hkv kw.2 (NodupKeysObj_mem hb kw hkw) he⟩
  rw [← e]
  exact lookupKV_of_mem ha hkv

mutual
  theorem symmAt_val : ∀ (v : JVal), NodupKeysVal v → SymmAt v
    | .null, _ => by intro w _ h; cases w <;> simp_all [pyEq]
    | .bool b, _ => symmAt_of_num (numVal_bool b)
    | .int i, _ => symmAt_of_num (p := (i, 0)) rfl
    | .flt n e r, _ => symmAt_of_num (p := (n, e)) rfl
    | .str s, _ => by
      intro w _ h
      cases w <;> simp_all [pyEq]
    | .arr xs, hv => by
      intro w hw h
      cases w with
      | arr ys =>
        simp only [pyEq] at h ⊢
        exact pyEqList_symm (symmAt_list xs (by simpa [NodupKeysVal] using hv))
          (by simpa [NodupKeysVal] using hw) h
      | _ => simp [pyEq] at h
    | .obj a, hv => by
      intro w hw h
      cases w with
      | obj b =>
        simp only [pyEq, Bool.and_eq_true, beq_iff_eq] at h ⊢
        have ha : NodupKeysObj a := by simpa [NodupKeysVal] using hv
        have hb : NodupKeysObj b := by simpa [NodupKeysVal] using hw
        exact ⟨h.1.symm, pyEqEntries_symm ha hb h.1 (symmAt_obj a ha) h.2⟩
      | _ => simp [pyEq] at h
  theorem symmAt_list : ∀ (xs : List JVal), NodupKeysList xs → ∀ x ∈ xs, SymmAt x
    | [], _ => by intro x hx; simp at hx
    | y :: ys, h => by
      intro x hx
      simp only [NodupKeysList] at h
      simp only [List.mem_cons] at hx
      rcases hx with hx | hx
      · subst hx; exact symmAt_val x h.1
      · exact symmAt_list ys h.2 x hx
  theorem symmAt_obj : ∀ (kvs : List (String × JVal)), NodupKeysObj kvs → ∀ kv ∈ kvs, SymmAt kv.2
    | [], _ => by intro x hx; simp at hx
    | (k, v) :: rest, h => by
      intro x hx
      simp only [NodupKeysObj] at h
      simp only [List.mem_cons] at hx
      rcases hx with hx | hx
      · subst hx; exact symmAt_val v h.2.1
      · exact symmAt_obj rest h.2.2 x hx
end

theorem pyEq_symm {v w : JVal} (hv : NodupKeysVal v) (hw : NodupKeysVal w) (h : pyEq v w = true) :
    pyEq w v = true := symmAt_val v hv w hw h

/-! ### transitivity -/

/-- `v == w` and `w == u` imply `v == u` -/
def TransAt (v : JVal) : Prop := ∀ w u, pyEq v w = true → pyEq w u = true → pyEq v u = true

theorem transAt_of_num {v : JVal} {p : Int × Nat} (hv : numVal v = some p) : TransAt v := by
  intro w u h1 h2
  cases hw : numVal w with
  | none => rw [pyEq_num_none hv hw] at h1; cases h1
  | some q =>
    cases hu : numVal u with
    | none => rw [pyEq_num_none hw hu] at h2; cases h2
    | some r =>
      rw [pyEq_num hv hw] at h1
      rw [pyEq_num hw hu] at h2
      rw [pyEq_num hv hu]
      exact numEq_trans h1 h2

theorem pyEqList_trans {xs : List JVal} (hx : ∀ x ∈ xs, TransAt x) :
    ∀ {ys zs : List JVal}, pyEqList xs ys = true → pyEqList ys zs = true → pyEqList xs zs = true := by
  induction xs with
  | nil => intro ys zs h1 h2; cases ys <;> cases zs <;> simp_all [pyEqList]
  | cons x xs ih =>
    intro ys zs h1 h2
    cases ys with
    | nil => simp [pyEqList] at h1
    | cons y ys =>
      cases zs with
      | nil => simp [pyEqList] at h2
      | cons z zs =>
        simp only [pyEqList, Bool.and_eq_true] at h1 h2 ⊢
        exact ⟨hx x (by simp) y z h1.1 h2.1, ih (fun w hw => hx w (by simp [hw])) h1.2 h2.2⟩

theorem pyEqEntries_trans {a b c : List (String × JVal)} (hs : ∀ kv ∈ a, TransAt kv.2)
    (h1 : pyEqEntries a b = true) (h2 : pyEqEntries b c = true) : pyEqEntries a c = true := by
  rw [pyEqEntries_iff] at h1 h2 ⊢
  intro kv hkv
  obtain ⟨w, hw, he⟩ := h1 kv hkv
  obtain ⟨u, hu, he'⟩ := h2 (kv.1, w) (lookupKV_mem hw)
  exact ⟨u, hu, hs kv hkv w u he he'⟩

mutual
  theorem transAt_val : ∀ (v : JVal), TransAt v
    | .null => by
      intro w u h1 h2
      cases w <;> simp [pyEq] at h1
      cases u <;> simp_all [pyEq]
    | .bool b => transAt_of_num (numVal_bool b)
    | .int i => transAt_of_num (p := (i, 0)) rfl
    | .flt n e r => transAt_of_num (p := (n, e)) rfl
    | .str s => by
      intro w u h1 h2
      cases w <;> simp [pyEq] at h1
      cases u <;> simp_all [pyEq]
    | .arr xs => by
      intro w u h1 h2
      cases w with
      | arr ys =>
        cases u with
        | arr zs =>
          simp only [pyEq] at h1 h2 ⊢
          exact pyEqList_trans (transAt_list xs) h1 h2
        | _ => simp [pyEq] at h2
      | _ => simp [pyEq] at h1
    | .obj a => by
      intro w u h1 h2
      cases w with
      | obj b =>
        cases u with
        | obj c =>
          simp only [pyEq, Bool.and_eq_true, beq_iff_eq] at h1 h2 ⊢
          exact ⟨h1.1.trans h2.1, pyEqEntries_trans (transAt_obj a) h1.2 h2.2⟩
        | _ => simp [pyEq] at h2
      | _ => simp [pyEq] at h1
  theorem transAt_list : ∀ (xs : List JVal), ∀ x ∈ xs, TransAt x
    | [] => by intro x hx; simp at hx
    | y :: ys => by
      intro x hx
      simp only [List.mem_cons] at hx
      rcases hx with hx | hx
      · subst hx; exact transAt_val x
      · exact transAt_list ys x hx
  theorem transAt_obj : ∀ (kvs : List (String × JVal)), ∀ kv ∈ kvs, TransAt kv.2
    | [] => by intro x hx; simp at hx
    | (k, v) :: rest => by
      intro x hx
      simp only [List.mem_cons] at hx
      rcases hx with hx | hx
      · subst hx; exact transAt_val v
      · exact transAt_obj rest x hx
end

/-- Python `==` is transitive on all JSON-born values -/
theorem pyEq_trans {v w u : JVal} (h1 : pyEq v w = true) (h2 : pyEq w u = true) : pyEq v u = true :=
  transAt_val v w u h1 h2

end Signac

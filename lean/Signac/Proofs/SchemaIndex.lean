/-
  Lemmas about the typed index of one key (`Index.add`, `buildFrom`): which slot keys exist,
  that they are pairwise in different slots, how many ids they hold, and when the index is
  "constant".  Core only.
-/
import Signac.Schema
namespace Signac.Schema
open Signac

/-- slot keys of an index -/
def Index.keys (idx : Index) : List IKey := idx.map Prod.fst

/-- number of ids filed in an index -/
def Index.total : Index → Nat
  | [] => 0
  | (_, ids) :: rest => ids.length + Index.total rest

/-- stored keys are pairwise in different slots (earlier key compared with later key) -/
def Index.Distinct (idx : Index) : Prop := idx.keys.Pairwise (fun a b => IKey.same a b = false)

/-! ### `Index.add` -/

theorem Index.add_keys_old {k : IKey} {id : String} {idx : Index} {r : IKey}
    (h : r ∈ idx.keys) : r ∈ (Index.add k id idx).keys := by
  induction idx with
  | nil => simp [Index.keys] at h
  | cons hd tl ih =>
    obtain ⟨r', ids⟩ := hd
    simp only [Index.add]
    split
    · simpa [Index.keys] using h
    · simp only [Index.keys, List.map_cons, List.mem_cons] at h ⊢
      rcases h with h | h
      · exact Or.inl h
      · exact Or.inr (ih h)

theorem Index.add_keys_new {k : IKey} {id : String} {idx : Index} {r : IKey}
    (h : r ∈ (Index.add k id idx).keys) : r ∈ idx.keys ∨ r = k := by
  induction idx with
  | nil => simp [Index.add, Index.keys] at h; exact Or.inr h
  | cons hd tl ih =>
    obtain ⟨r', ids⟩ := hd
    simp only [Index.add] at h
    split at h
    · left; simpa [Index.keys] using h
    · simp only [Index.keys, List.map_cons, List.mem_cons] at h ⊢
      rcases h with h | h
      · exact Or.inl (Or.inl h)
      · rcases ih h with h | h
        · exact Or.inl (Or.inr h)
        · exact Or.inr h

/-- after `index[k].add(id)` some stored key is `k` itself or equals `k` as a dict key -/
theorem Index.add_has (k : IKey) (id : String) (idx : Index) :
    ∃ r ∈ (Index.add k id idx).keys, r = k ∨ IKey.same r k = true := by
  induction idx with
  | nil => exact ⟨k, by simp [Index.add, Index.keys], Or.inl rfl⟩
  | cons hd tl ih =>
    obtain ⟨r', ids⟩ := hd
    simp only [Index.add]
    split
    · next hs => exact ⟨r', by simp [Index.keys], Or.inr hs⟩
    · obtain ⟨r, hr, h⟩ := ih
      exact ⟨r, by simp only [Index.keys, List.map_cons, List.mem_cons]; exact Or.inr hr, h⟩

/-- a new slot is opened only if no stored key equals `k` -/
theorem Index.add_keys_eq (k : IKey) (id : String) (idx : Index) :
    (Index.add k id idx).keys = idx.keys
    ∨ ((Index.add k id idx).keys = idx.keys ++ [k] ∧ ∀ r ∈ idx.keys, IKey.same r k = false) := by
  induction idx with
  | nil => right; simp [Index.add, Index.keys]
  | cons hd tl ih =>
    obtain ⟨r', ids⟩ := hd
    simp only [Index.add]
    split
    · left; simp [Index.keys]
    · next hs =>
      rcases ih with h | ⟨h, hall⟩
      · left
        simp only [Index.keys, List.map_cons] at h ⊢
        rw [h]
      · right
        simp only [Index.keys, List.map_cons, List.cons_append] at h ⊢
        refine ⟨by rw [h], ?_⟩
        intro r hr
        simp only [List.mem_cons] at hr
        rcases hr with hr | hr
        · subst hr; simpa using hs
        · exact hall r hr

theorem Index.add_distinct {k : IKey} {id : String} {idx : Index} (h : idx.Distinct) :
    (Index.add k id idx).Distinct := by
  unfold Index.Distinct at h ⊢
  rcases Index.add_keys_eq k id idx with he | ⟨he, hall⟩
  · rw [he]; exact h
  · rw [he, List.pairwise_append]
    refine ⟨h, by simp, ?_⟩
    intro a ha b hb
    simp only [List.mem_singleton] at hb
    subst hb
    exact hall a ha

theorem Index.add_total (k : IKey) (id : String) (idx : Index) :
    (Index.add k id idx).total = idx.total + 1 := by
  induction idx with
  | nil => simp [Index.add, Index.total]
  | cons hd tl ih =>
    obtain ⟨r', ids⟩ := hd
    simp only [Index.add]
    split
    · simp only [Index.total, List.length_append, List.length_cons, List.length_nil]; omega
    · simp only [Index.total, ih]; omega

theorem Index.add_length_ge (k : IKey) (id : String) (idx : Index) :
    idx.length ≤ (Index.add k id idx).length := by
  induction idx with
  | nil => simp [Index.add]
  | cons hd tl ih =>
    obtain ⟨r', ids⟩ := hd
    simp only [Index.add]
    split
    · simp
    · simp only [List.length_cons]; omega

/-! ### `buildFrom` -/

theorem stepIndex_keys_old {nodes : List String} {idx : Index} {j : Job} {r : IKey}
    (h : r ∈ idx.keys) : r ∈ (stepIndex nodes idx j).keys := by
  unfold stepIndex
  split
  · exact Index.add_keys_old h
  · exact h

theorem buildFrom_keys_old {nodes : List String} {jobs : List Job} :
    ∀ {idx : Index} {r : IKey}, r ∈ idx.keys → r ∈ (buildFrom nodes idx jobs).keys := by
  induction jobs with
  | nil => intro idx r h; exact h
  | cons j js ih => intro idx r h; exact ih (stepIndex_keys_old h)

/-- soundness: a stored key was there before or is the key of a value some job holds -/
theorem buildFrom_keys_sound {nodes : List String} {jobs : List Job} :
    ∀ {idx : Index} {r : IKey}, r ∈ (buildFrom nodes idx jobs).keys →
      r ∈ idx.keys ∨ ∃ j ∈ jobs, ∃ v, getPath nodes (.obj j.sp) = some v ∧ r = keyOf v := by
  induction jobs with
  | nil => intro idx r h; exact Or.inl h
  | cons j js ih =>
    intro idx r h
    rcases ih h with h | ⟨j', hj', v, hv, hr⟩
    · unfold stepIndex at h
      split at h
      · next v hv =>
        rcases Index.add_keys_new h with h | h
        · exact Or.inl h
        · exact Or.inr ⟨j, by simp, v, hv, h⟩
      · exact Or.inl h
    · exact Or.inr ⟨j', by simp [hj'], v, hv, hr⟩

/-- completeness: every value a job holds is represented by a stored key of its slot -/
theorem buildFrom_keys_complete {nodes : List String} {jobs : List Job} :
    ∀ {idx : Index} {j : Job} {v : JVal}, j ∈ jobs → getPath nodes (.obj j.sp) = some v →
      ∃ r ∈ (buildFrom nodes idx jobs).keys, r = keyOf v ∨ IKey.same r (keyOf v) = true := by
  induction jobs with
  | nil => intro idx j v hj; simp at hj
  | cons j0 js ih =>
    intro idx j v hj hv
    simp only [List.mem_cons] at hj
    rcases hj with hj | hj
    · subst hj
      obtain ⟨r, hr, h⟩ := Index.add_has (keyOf v) j.id idx
      refine ⟨r, ?_, h⟩
      simp only [buildFrom]
      apply buildFrom_keys_old
      simp only [stepIndex, hv]
      exact hr
    · exact ih hj hv

theorem stepIndex_distinct {nodes : List String} {idx : Index} {j : Job} (h : idx.Distinct) :
    (stepIndex nodes idx j).Distinct := by
  unfold stepIndex
  split
  · exact Index.add_distinct h
  · exact h

theorem buildFrom_distinct {nodes : List String} {jobs : List Job} :
    ∀ {idx : Index}, idx.Distinct → (buildFrom nodes idx jobs).Distinct := by
  induction jobs with
  | nil => intro idx h; exact h
  | cons j js ih => intro idx h; exact ih (stepIndex_distinct h)

theorem buildFrom_total_le {nodes : List String} {jobs : List Job} :
    ∀ {idx : Index}, (buildFrom nodes idx jobs).total ≤ idx.total + jobs.length := by
  induction jobs with
  | nil => intro idx; simp [buildFrom]
  | cons j js ih =>
    intro idx
    have h := @ih (stepIndex nodes idx j)
    have h2 : (stepIndex nodes idx j).total ≤ idx.total + 1 := by
      unfold stepIndex
      split
      · rw [Index.add_total]; omega
      · omega
    simp only [buildFrom, List.length_cons]
    omega

theorem buildFrom_length_ge {nodes : List String} {jobs : List Job} :
    ∀ {idx : Index}, idx.length ≤ (buildFrom nodes idx jobs).length := by
  induction jobs with
  | nil => intro idx; simp [buildFrom]
  | cons j js ih =>
    intro idx
    have h := @ih (stepIndex nodes idx j)
    have h2 : idx.length ≤ (stepIndex nodes idx j).length := by
      unfold stepIndex
      split
      · exact Index.add_length_ge _ _ _
      · omega
    simp only [buildFrom]
    omega

/-! ### constant keys -/

theorem isConstIdx_total {idx : Index} {n : Nat} (h : isConstIdx idx n = true) : idx.total = n := by
  unfold isConstIdx at h
  split at h
  · simp only [beq_iff_eq] at h
    simp [Index.total, h]
  · simp at h

theorem isConstIdx_length {idx : Index} {n : Nat} (h : isConstIdx idx n = true) : idx.length = 1 := by
  unfold isConstIdx at h
  split at h
  · simp
  · simp at h

/-- every job of `js` holds a value that lands in the slot of the stored key `r` -/
def AllInSlot (nodes : List String) (r : IKey) (js : List Job) : Prop :=
  ∀ j ∈ js, ∃ v, getPath nodes (.obj j.sp) = some v ∧ IKey.same r (keyOf v) = true

theorem buildFrom_single {nodes : List String} {r : IKey} {js : List Job} :
    ∀ {ids : List String},
      (isConstIdx (buildFrom nodes [(r, ids)] js) (ids.length + js.length) = true
        ↔ AllInSlot nodes r js) := by
  induction js with
  | nil => intro ids; simp [buildFrom, isConstIdx, AllInSlot]
  | cons j js ih =>
    intro ids
    simp only [buildFrom, stepIndex]
    cases hv : getPath nodes (.obj j.sp) with
    | none =>
      simp only
      constructor
      · intro h
        have h1 := isConstIdx_total h
        have h2 := @buildFrom_total_le nodes js [(r, ids)]
        simp only [Index.total, List.length_cons] at h1 h2
        omega
      · intro h
        obtain ⟨v, hv', _⟩ := h j (by simp)
        rw [hv] at hv'
        cases hv'
    | some v =>
      simp only [Index.add]
      cases hs : IKey.same r (keyOf v) with
      | true =>
        simp only [if_true]
        have := @ih (ids ++ [j.id])
        have e1 : (ids ++ [j.id]).length + js.length = ids.length + (j :: js).length := by
          simp only [List.length_append, List.length_cons, List.length_nil]; omega
        rw [e1] at this
        rw [this]
        constructor
        · intro h j' hj'
          simp only [List.mem_cons] at hj'
          rcases hj' with hj' | hj'
          · subst hj'; exact ⟨v, hv, hs⟩
          · exact h j' hj'
        · intro h j' hj'
          exact h j' (by simp [hj'])
      | false =>
        simp only [Bool.false_eq_true, if_false]
        constructor
        · intro h
          have h1 := isConstIdx_length h
          have h2 := @buildFrom_length_ge nodes js [(r, ids), (keyOf v, [j.id])]
          simp only [List.length_cons, List.length_nil] at h2
          omega
        · intro h
          obtain ⟨v', hv', hs'⟩ := h j (by simp)
          rw [hv] at hv'
          cases hv'
          rw [hs] at hs'
          cases hs'

/-- "constant" as the index sees it: the first job (in index order) holds a value under the key
    and every further job holds a value that lands in that first value's slot -/
def ConstSpec (nodes : List String) : List Job → Prop
  | [] => False
  | j0 :: js => ∃ v0, getPath nodes (.obj j0.sp) = some v0 ∧ AllInSlot nodes (keyOf v0) js

theorem buildFrom_const (nodes : List String) (jobs : List Job) :
    isConstIdx (buildFrom nodes [] jobs) jobs.length = true ↔ ConstSpec nodes jobs := by
  cases jobs with
  | nil => simp [buildFrom, isConstIdx, ConstSpec]
  | cons j0 js =>
    simp only [buildFrom, stepIndex, ConstSpec]
    cases hv : getPath nodes (.obj j0.sp) with
    | none =>
      simp only
      constructor
      · intro h
        have h1 := isConstIdx_total h
        have h2 := @buildFrom_total_le nodes js []
        simp only [Index.total, List.length_cons] at h1 h2
        omega
      · intro ⟨v0, h, _⟩; cases h
    | some v =>
      simp only [Index.add]
      have := @buildFrom_single nodes (keyOf v) js [j0.id]
      have e1 : [j0.id].length + js.length = (j0 :: js).length := by
        simp only [List.length_cons, List.length_nil]; omega
      rw [e1] at this
      rw [this]
      constructor
      · intro h; exact ⟨v, rfl, h⟩
      · intro ⟨v0, h, h'⟩; cases h; exact h'

end Signac.Schema

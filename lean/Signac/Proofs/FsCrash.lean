/-
  Helper lemmas for C10 (and other users of FsSteps): untouched paths, crash states of
  concatenations, the crash-prefix theorem for the rename-only discipline, read logs.
-/
import Signac.FsSteps
namespace Signac.Fs
variable {α : Type}

theorem under_refl (t : Path) : under t t = true := by
  simp [under]

theorem under_eq_false_ne {a t : Path} (h : under a t = false) : a ≠ t := by
  intro e; subst e; simp [under_refl] at h

theorem upd_same (fs : FS α) (p : Path) (v : Option (Node α)) : upd fs p v p = v := by
  simp [upd]

theorem upd_other (fs : FS α) {p q : Path} (v : Option (Node α)) (h : q ≠ p) : upd fs p v q = fs q := by
  simp [upd, h]

/-- A step that does not touch `t` leaves `t` as it is. -/
theorem apply_untouched {t : Path} {s : Step α} (fs : FS α) (h : touches t s = false) :
    apply fs s t = fs t := by
  cases s with
  | create p => simp only [touches, decide_eq_false_iff_not] at h; simp [apply, upd, Ne.symm h]
  | openAppend p =>
    simp only [touches, decide_eq_false_iff_not] at h
    simp only [apply]; cases fs p <;> simp [upd, Ne.symm h]
  | append p b =>
    simp only [touches, decide_eq_false_iff_not] at h
    simp only [apply]
    cases fs p with
    | none => rfl
    | some x => cases x <;> simp [upd, Ne.symm h]
  | truncate p n =>
    simp only [touches, decide_eq_false_iff_not] at h
    simp only [apply]
    cases fs p with
    | none => rfl
    | some x => cases x <;> simp [upd, Ne.symm h]
  | close p => rfl
  | fsync p => rfl
  | rename a b =>
    simp only [touches, Bool.or_eq_false_iff] at h
    simp only [apply]
    cases fs a with
    | none => rfl
    | some x =>
      simp only
      split
      · rfl
      · simp [h.1, h.2]
  | unlink p => simp only [touches, decide_eq_false_iff_not] at h; simp [apply, upd, Ne.symm h]
  | mkdir p =>
    simp only [touches, decide_eq_false_iff_not] at h
    simp only [apply]; cases fs p <;> simp [upd, Ne.symm h]
  | rmdir p =>
    simp only [touches, decide_eq_false_iff_not] at h
    simp only [apply]
    cases fs p with
    | none => rfl
    | some x => cases x <;> simp [upd, Ne.symm h]
  | symlink tg p =>
    simp only [touches, decide_eq_false_iff_not] at h
    simp only [apply]; cases fs p <;> simp [upd, Ne.symm h]
  | read p => rfl

theorem run_nil (fs : FS α) : run fs [] = fs := rfl

theorem run_cons (fs : FS α) (s : Step α) (ss : List (Step α)) : run fs (s :: ss) = run (apply fs s) ss := rfl

theorem run_append (fs : FS α) (xs ys : List (Step α)) : run fs (xs ++ ys) = run (run fs xs) ys := by
  simp [run, List.foldl_append]

theorem run_untouched {t : Path} {ss : List (Step α)} (h : ∀ s ∈ ss, touches t s = false) (fs : FS α) :
    run fs ss t = fs t := by
  induction ss generalizing fs with
  | nil => rfl
  | cons s ss ih =>
    rw [run_cons, ih (fun x hx => h x (List.mem_cons_of_mem _ hx)), apply_untouched fs (h s List.mem_cons_self)]

theorem torn_untouched {t : Path} {s : Step α} (fs : FS α) (h : touches t s = false) :
    ∀ f ∈ torn fs s, f t = fs t := by
  intro f hf
  cases s with
  | append p b =>
    simp only [torn, List.mem_map, List.mem_range] at hf
    obtain ⟨n, _, rfl⟩ := hf
    exact apply_untouched fs (s := Step.append p (b.take n)) (by simpa [touches] using h)
  | _ => simp [torn] at hf

/-- Steps that do not touch `t` cannot change it, at no crash point. -/
theorem crash_untouched {t : Path} {ss : List (Step α)} (h : ∀ s ∈ ss, touches t s = false) (fs : FS α) :
    ∀ f ∈ crashStates fs ss, f t = fs t := by
  induction ss generalizing fs with
  | nil => intro f hf; simp [crashStates] at hf; rw [hf]
  | cons s ss ih =>
    intro f hf
    simp only [crashStates, List.cons_append, List.mem_cons, List.mem_append] at hf
    have hs := h s List.mem_cons_self
    rcases hf with rfl | hf | hf
    · rfl
    · exact torn_untouched fs hs f hf
    · rw [ih (fun x hx => h x (List.mem_cons_of_mem _ hx)) _ f hf, apply_untouched fs hs]

/-- Whatever differs from the pre-state in a crash state was touched by some step. -/
theorem crash_diff_touched {p : Path} {ss : List (Step α)} {fs f : FS α}
    (hf : f ∈ crashStates fs ss) (hd : f p ≠ fs p) : ∃ s ∈ ss, touches p s = true := by
  apply Classical.byContradiction
  intro hn
  apply hd
  apply crash_untouched _ fs f hf
  intro s hs
  cases hts : touches p s with
  | false => rfl
  | true => exact absurd ⟨s, hs, hts⟩ hn

theorem crashStates_append {fs f : FS α} {xs ys : List (Step α)} :
    f ∈ crashStates fs (xs ++ ys) ↔ f ∈ crashStates fs xs ∨ f ∈ crashStates (run fs xs) ys := by
  induction xs generalizing fs with
  | nil =>
    simp only [List.nil_append, crashStates, List.mem_singleton, run_nil]
    constructor
    · intro h; exact Or.inr h
    · rintro (rfl | h)
      · cases ys <;> simp [crashStates]
      · exact h
  | cons s ss ih =>
    simp only [List.cons_append, crashStates, List.mem_cons, List.mem_append, ih, run_cons]
    constructor
    · rintro (h | h | h | h)
      · exact Or.inl (Or.inl h)
      · exact Or.inl (Or.inr (Or.inl h))
      · exact Or.inl (Or.inr (Or.inr h))
      · exact Or.inr h
    · rintro ((h | h | h) | h)
      · exact Or.inl h
      · exact Or.inr (Or.inl h)
      · exact Or.inr (Or.inr (Or.inl h))
      · exact Or.inr (Or.inr (Or.inr h))

theorem self_mem_crashStates (fs : FS α) (ss : List (Step α)) : fs ∈ crashStates fs ss := by
  cases ss <;> simp [crashStates]

/-- The state after any prefix of the steps is a crash state. -/
theorem run_mem_crashStates (fs : FS α) (pre post : List (Step α)) :
    run fs pre ∈ crashStates fs (pre ++ post) :=
  crashStates_append.mpr (Or.inr (self_mem_crashStates _ _))

/-- The pointwise crash state the driver evaluates is one of the crash states. -/
theorem crashAt_mem (fs : FS α) (ss : List (Step α)) (k p : Nat) :
    crashAt fs ss k p ∈ crashStates fs ss := by
  induction ss generalizing fs k with
  | nil => simp [crashAt, crashStates]
  | cons s ss ih =>
    cases k with
    | zero =>
      simp only [crashAt, crashStates, List.cons_append, List.mem_cons, List.mem_append]
      split
      · split
        · rename_i q b hlt
          exact Or.inr (Or.inl (by simp only [torn, List.mem_map, List.mem_range]; exact ⟨p, hlt, rfl⟩))
        · exact Or.inl rfl
      · exact Or.inl rfl
    | succ k =>
      simp only [crashAt, crashStates, List.cons_append, List.mem_cons, List.mem_append]
      exact Or.inr (Or.inr (ih _ _))

/-- Every crash state is `crashAt` of some point: the driver's pointwise function covers the set. -/
theorem crashStates_is_crashAt {fs f : FS α} {ss : List (Step α)} (h : f ∈ crashStates fs ss) :
    ∃ k p, f = crashAt fs ss k p := by
  induction ss generalizing fs with
  | nil => simp [crashStates] at h; exact ⟨0, 0, by simp [crashAt, h]⟩
  | cons s ss ih =>
    simp only [crashStates, List.cons_append, List.mem_cons, List.mem_append] at h
    rcases h with rfl | h | h
    · refine ⟨0, (match s with | .append _ b => b.length | _ => 0), ?_⟩
      cases s <;> simp [crashAt]
    · cases s with
      | append q b =>
        simp only [torn, List.mem_map, List.mem_range] at h
        obtain ⟨n, hn, rfl⟩ := h
        exact ⟨0, n, by simp [crashAt, hn]⟩
      | _ => simp [torn] at h
    · obtain ⟨k, p, rfl⟩ := ih h
      exact ⟨k + 1, p, rfl⟩

/-! ### renames onto the target -/

theorem apply_rename_onto {fs : FS α} {a t : Path} (h1 : under a t = false) (h2 : under t a = false) :
    apply fs (.rename a t) t = fs a ∨ (fs a = none ∧ apply fs (.rename a t) = fs) := by
  simp only [apply]
  cases hfa : fs a with
  | none => exact Or.inr ⟨rfl, rfl⟩
  | some x =>
    left
    simp [h1, h2, under_refl, hfa]

/-- Every step that touches `t` is a rename onto `t` of an unrelated path. -/
def RenameOnly (t : Path) (steps : List (Step α)) : Prop :=
  ∀ s ∈ steps, touches t s = true → ∃ a, s = .rename a t ∧ under a t = false ∧ under t a = false

theorem stepOk_renameOnly {t : Path} {o : List Path} {s : Step α} (h : stepOk t o s = true)
    (ht : touches t s = true) : ∃ a, s = .rename a t ∧ under a t = false ∧ under t a = false := by
  cases s with
  | rename a b =>
    simp only [stepOk] at h
    split at h
    · rename_i hb
      subst hb
      simp only [Bool.and_eq_true, Bool.not_eq_eq_eq_not, Bool.not_true] at h
      exact ⟨a, rfl, h.1.1, h.1.2⟩
    · simp [ht] at h
  | _ => simp [stepOk, ht] at h

theorem atomicScan_renameOnly {t : Path} {steps : List (Step α)} {o : List Path}
    (h : atomicScan t o steps = true) : RenameOnly t steps := by
  induction steps generalizing o with
  | nil => intro s hs; cases hs
  | cons s ss ih =>
    simp only [atomicScan, Bool.and_eq_true] at h
    intro x hx hxt
    rcases List.mem_cons.mp hx with rfl | hx
    · exact stepOk_renameOnly h.1 hxt
    · exact ih h.2 x hx hxt

theorem atomicOn_renameOnly {t : Path} {steps : List (Step α)} (h : AtomicOn t steps = true) :
    RenameOnly t steps := atomicScan_renameOnly h

/-- The crash-prefix theorem for the rename-only discipline: in every crash state the target
    shows its old node or exactly what some rename onto it moved in. -/
theorem renameOnly_crash {t : Path} {steps : List (Step α)} (h : RenameOnly t steps) (fs : FS α) :
    ∀ f ∈ crashStates fs steps,
      f t = fs t ∨ ∃ pre a post, steps = pre ++ .rename a t :: post ∧ f t = run fs pre a := by
  induction steps generalizing fs with
  | nil => intro f hf; simp [crashStates] at hf; exact Or.inl (by rw [hf])
  | cons s ss ih =>
    intro f hf
    simp only [crashStates, List.cons_append, List.mem_cons, List.mem_append] at hf
    have hss : RenameOnly t ss := fun x hx => h x (List.mem_cons_of_mem _ hx)
    rcases hf with rfl | hf | hf
    · exact Or.inl rfl
    · cases hts : touches t s with
      | false => exact Or.inl (torn_untouched fs hts f hf)
      | true =>
        obtain ⟨a, rfl, _, _⟩ := h s List.mem_cons_self hts
        simp [torn] at hf
    · rcases ih hss (apply fs s) f hf with h1 | ⟨pre, a, post, rfl, h2⟩
      · cases hts : touches t s with
        | false => exact Or.inl (by rw [h1, apply_untouched fs hts])
        | true =>
          obtain ⟨a, rfl, ha1, ha2⟩ := h s List.mem_cons_self hts
          rcases apply_rename_onto (fs := fs) ha1 ha2 with e | ⟨_, e⟩
          · exact Or.inr ⟨[], a, ss, rfl, by rw [h1, e]; rfl⟩
          · exact Or.inl (by rw [h1, e])
      · exact Or.inr ⟨s :: pre, a, post, rfl, by rw [h2]; rfl⟩

/-! ### read logs -/

/-- A reader sees the state after a prefix of the steps (never a torn one: a read is a step). -/
theorem readLog_prefix {fs : FS α} {steps : List (Step α)} {p : Path} {v : Option (Node α)}
    (h : (p, v) ∈ readLog fs steps) : ∃ pre post, steps = pre ++ .read p :: post ∧ v = run fs pre p := by
  induction steps generalizing fs with
  | nil => simp [readLog] at h
  | cons s ss ih =>
    cases s with
    | read q =>
      simp only [readLog, List.mem_cons, Prod.mk.injEq] at h
      rcases h with ⟨rfl, rfl⟩ | h
      · exact ⟨[], ss, rfl, rfl⟩
      · obtain ⟨pre, post, rfl, hv⟩ := ih h
        exact ⟨.read q :: pre, post, rfl, hv⟩
    | _ =>
      simp only [readLog] at h
      obtain ⟨pre, post, rfl, hv⟩ := ih h
      exact ⟨_ :: pre, post, rfl, hv⟩

theorem readLog_crashState {fs : FS α} {steps : List (Step α)} {p : Path} {v : Option (Node α)}
    (h : (p, v) ∈ readLog fs steps) : ∃ f ∈ crashStates fs steps, v = f p := by
  obtain ⟨pre, post, rfl, hv⟩ := readLog_prefix h
  exact ⟨run fs pre, run_mem_crashStates _ _ _, hv⟩

theorem touches_read (t p : Path) : touches t (Step.read p : Step α) = false := rfl

/-- Inserting a reader step anywhere keeps the discipline. -/
theorem atomicScan_insert_read {t p : Path} {pre post : List (Step α)} {o : List Path}
    (h : atomicScan t o (pre ++ post) = true) : atomicScan t o (pre ++ .read p :: post) = true := by
  induction pre generalizing o with
  | nil =>
    simp only [List.nil_append] at h ⊢
    simp only [atomicScan, stepOk, touches, track, Bool.not_false, Bool.true_and]
    exact h
  | cons s ss ih =>
    simp only [List.cons_append, atomicScan, Bool.and_eq_true] at h ⊢
    exact ⟨h.1, ih h.2⟩

/-- ... and does not change what the writer does. -/
theorem run_insert_read (fs : FS α) (p : Path) (pre post : List (Step α)) :
    run fs (pre ++ .read p :: post) = run fs (pre ++ post) := by
  simp [run_append, run_cons, apply]

end Signac.Fs

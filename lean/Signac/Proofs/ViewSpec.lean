/-
  Proofs/ViewSpec — what it means for a view to be the picture of a link set, and the facts
  about such views that the update proof uses.
-/
import Signac.Proofs.ViewFs
namespace Signac.LV

def keysOf (L : List (Path × String)) : List Path := L.map (·.1)

/-- A link set as `create_linked_view` accepts it (distinct paths, no path below another, every
    path ends in the leaf name) whose components are ordinary names. -/
structure Valid (L : List (Path × String)) : Prop where
  nodup : (keysOf L).Nodup
  noConflict : ∀ p ∈ keysOf L, ∀ q ∈ keysOf L, properPrefix p q = false
  leafEnd : ∀ p ∈ keysOf L, p.getLast? = some leaf
  plain : ∀ p ∈ keysOf L, ∀ c ∈ p, c ≠ "" ∧ c ≠ "."

/-- the entry a link set prescribes at `p`: its link, a directory on the way to a link, nothing -/
def specGet (L : List (Path × String)) (p : Path) : Option Entry :=
  if p = [] then none
  else match linkTarget L p with
    | some t => some (.link t)
    | none => if L.any (fun x => properPrefix p x.1) then some .dir else none

/-- `v` is exactly the picture of `L`: one link per entry of `L` with its target, the
    directories leading to them, nothing else. -/
def IsTreeOf (v : View) (L : List (Path × String)) : Prop := ∀ p, vget v p = specGet L p

theorem linkTarget_mem {L : List (Path × String)} {p : Path} {t : String}
    (h : linkTarget L p = some t) : (p, t) ∈ L := by
  induction L with
  | nil => simp [linkTarget] at h
  | cons x xs ih =>
    obtain ⟨q, u⟩ := x
    simp only [linkTarget] at h
    by_cases hq : q = p
    · simp only [hq, if_true, Option.some.injEq] at h
      subst hq; subst h; exact List.mem_cons_self
    · simp only [hq, if_false] at h
      exact List.mem_cons_of_mem _ (ih h)

theorem linkTarget_isSome_of_mem {L : List (Path × String)} {p : Path} (h : p ∈ keysOf L) :
    ∃ t, linkTarget L p = some t := by
  induction L with
  | nil => simp [keysOf] at h
  | cons x xs ih =>
    obtain ⟨q, u⟩ := x
    simp only [linkTarget]
    by_cases hq : q = p
    · exact ⟨u, by simp [hq]⟩
    · simp only [hq, if_false]
      simp only [keysOf, List.map_cons, List.mem_cons] at h
      rcases h with h | h
      · exact absurd h.symm hq
      · exact ih h

theorem mem_keys_of_linkTarget {L : List (Path × String)} {p : Path} {t : String}
    (h : linkTarget L p = some t) : p ∈ keysOf L :=
  List.mem_map_of_mem (f := (·.1)) (linkTarget_mem h)

theorem linkTarget_none_iff {L : List (Path × String)} {p : Path} :
    linkTarget L p = none ↔ p ∉ keysOf L := by
  constructor
  · intro h hm
    obtain ⟨t, ht⟩ := linkTarget_isSome_of_mem hm
    rw [h] at ht; cases ht
  · intro h
    exact linkTarget_none_of_not_mem h

theorem any_properPrefix_iff {L : List (Path × String)} {p : Path} :
    L.any (fun x => properPrefix p x.1) = true ↔ ∃ k ∈ keysOf L, properPrefix p k = true := by
  simp only [List.any_eq_true, keysOf, List.mem_map]
  constructor
  · rintro ⟨x, hx, h⟩; exact ⟨x.1, ⟨x, hx, rfl⟩, h⟩
  · rintro ⟨k, ⟨x, hx, rfl⟩, h⟩; exact ⟨x, hx, h⟩

theorem key_ne_nil {L : List (Path × String)} (hV : Valid L) {p : Path} (h : p ∈ keysOf L) : p ≠ [] := by
  intro e; subst e
  have := hV.leafEnd [] h
  simp at this

set_option linter.unusedSectionVars false
section tree
variable {L : List (Path × String)} {v : View} (hV : Valid L) (hT : IsTreeOf v L)
include hV hT

theorem tree_root : vget v [] = none := by
  rw [hT]; simp [specGet]

/-- whatever exists lies on the way to (or is) a link path -/
theorem tree_present {q : Path} (h : (vget v q).isSome) : q ≠ [] ∧ ∃ k ∈ keysOf L, q <+: k := by
  rw [hT] at h
  unfold specGet at h
  by_cases hq : q = []
  · simp [hq] at h
  · refine ⟨hq, ?_⟩
    simp only [hq, if_false] at h
    cases hl : linkTarget L q with
    | some t => exact ⟨q, mem_keys_of_linkTarget hl, List.prefix_refl _⟩
    | none =>
      simp only [hl] at h
      by_cases ha : L.any (fun x => properPrefix q x.1) = true
      · obtain ⟨k, hk, hp⟩ := any_properPrefix_iff.mp ha
        exact ⟨k, hk, ((properPrefix_iff q k).mp hp).1⟩
      · simp [ha] at h

theorem tree_key {k : Path} (hk : k ∈ keysOf L) : ∃ t, linkTarget L k = some t ∧ vget v k = some (.link t) := by
  obtain ⟨t, ht⟩ := linkTarget_isSome_of_mem hk
  refine ⟨t, ht, ?_⟩
  rw [hT]; simp [specGet, key_ne_nil hV hk, ht]

theorem tree_dir {q k : Path} (hq : q ≠ []) (hk : k ∈ keysOf L) (hp : properPrefix q k = true) :
    vget v q = some .dir := by
  rw [hT]
  have hnk : q ∉ keysOf L := by
    intro hm
    have := hV.noConflict q hm k hk
    rw [hp] at this; cases this
  have ha : L.any (fun x => properPrefix q x.1) = true := any_properPrefix_iff.mpr ⟨k, hk, hp⟩
  simp [specGet, hq, linkTarget_none_iff.mpr hnk, ha]

/-- every non-empty prefix of something present is present -/
theorem tree_prefix_present {q k : Path} (hq : q ≠ []) (hk : k ∈ keysOf L) (hp : q <+: k) :
    (vget v q).isSome := by
  rcases prefix_cases hp with e | h
  · subst e
    obtain ⟨t, _, h⟩ := tree_key hV hT hk
    simp [h]
  · simp [tree_dir hV hT hq hk h]

theorem tree_link {q : Path} {t : String} (h : vget v q = some (.link t)) :
    q ∈ keysOf L ∧ linkTarget L q = some t := by
  rw [hT] at h
  unfold specGet at h
  by_cases hq : q = []
  · simp [hq] at h
  · simp only [hq, if_false] at h
    cases hl : linkTarget L q with
    | some t' =>
      simp only [hl, Option.some.injEq, Entry.link.injEq] at h
      subst h
      exact ⟨mem_keys_of_linkTarget hl, rfl⟩
    | none =>
      simp only [hl] at h
      by_cases ha : L.any (fun x => properPrefix q x.1) = true
      · simp [ha] at h
      · simp [ha] at h

/-- a link has nothing below it -/
theorem tree_link_no_child {p q : Path} {t : String} (h : vget v p = some (.link t))
    (hp : properPrefix p q = true) : vget v q = none := by
  cases hq : vget v q with
  | none => rfl
  | some e =>
    obtain ⟨_, k, hk, hqk⟩ := tree_present hV hT (q := q) (by simp [hq])
    have hpk := properPrefix_of_proper_of_prefix hp hqk
    have := hV.noConflict p (tree_link hV hT h).1 k hk
    rw [hpk] at this; cases this

theorem tree_plain {q : Path} (h : (vget v q).isSome) : ∀ c ∈ q, c ≠ "" ∧ c ≠ "." := by
  obtain ⟨_, k, hk, hp⟩ := tree_present hV hT h
  intro c hc
  exact hV.plain k hk c (hp.subset hc)

end tree

end Signac.LV

/-
  Helper lemmas for C16: importing an export that contains a job the destination already holds
  raises DestinationExistsError — before anything is copied for the zip / tar analysers, at the
  latest when the crawl reaches that job for a directory.
-/
import Signac.ImportExport
import Signac.Proofs.IERoundtrip
import Signac.Proofs.IEFrame
namespace Signac.IE
open Signac

theorem scan_exists {hash : JVal → String} {E : List (Job × Comps)} (G : GoodExport hash E) (pol : Policy)
    (hpol : ∀ skip x, pol.test skip x = true → ∃ s ∈ skip, s <+: x) (dstIds : List String) :
    ∀ (dirs skip : List Comps) (maps : List (Comps × String × JVal)), dirs.Nodup →
      (∀ s ∈ skip, (∃ e ∈ E, e.2 <+: s) ∧ s ∉ dirs) →
      (∃ e ∈ E, e.2 ∈ dirs ∧ dstIds.contains e.1.id = true) →
      scan pol hash (readSp (members E)) dstIds dirs skip maps = .error .destinationExists := by
  intro dirs
  induction dirs with
  | nil =>
    intro skip maps _ _ h
    rcases h with ⟨e, _, h, _⟩
    cases h
  | cons d rest ih =>
    intro skip maps hnd hskip hw
    rcases hw with ⟨ew, hew, hewd, hewc⟩
    have hnd' := List.nodup_cons.mp hnd
    simp only [scan]
    split
    · rename_i htest
      rcases hpol skip d htest with ⟨s, hs, hsd⟩
      rcases (hskip s hs).1 with ⟨r, hr, hrs⟩
      have hnot : ∀ e ∈ E, e.2 ≠ d := by
        intro e he heq
        have hre : r = e := G.eq_of_prefix hr he (heq ▸ hrs.trans hsd)
        subst hre
        have hsd' : s = d := by
          apply hsd.eq_of_length_le
          have := hrs.length_le
          rw [heq] at this
          exact this
        exact (hskip s hs).2 (hsd' ▸ List.mem_cons_self)
      have hrest : ew.2 ∈ rest := by
        rcases List.mem_cons.mp hewd with h | h
        · exact absurd h (hnot ew hew)
        · exact h
      apply ih _ _ hnd'.2 _ ⟨ew, hew, hrest, hewc⟩
      intro s' hs'
      split at hs'
      · rcases List.mem_cons.mp hs' with rfl | hs''
        · exact ⟨⟨r, hr, hrs.trans hsd⟩, hnd'.1⟩
        · exact ⟨(hskip s' hs'').1, fun hm => (hskip s' hs'').2 (List.mem_cons_of_mem _ hm)⟩
      · exact ⟨(hskip s' hs').1, fun hm => (hskip s' hs').2 (List.mem_cons_of_mem _ hm)⟩
    · by_cases hex : ∃ e ∈ E, e.2 = d
      · rcases hex with ⟨e, he, hed⟩
        rcases G.sp e he with ⟨v, hv, hh⟩
        have hread : readSp (members E) d = .ok (some v) := hed ▸ readSp_root G he hv
        rw [hread]
        simp only [hh]
        split
        · rfl
        · rename_i hc
          have hne : ew.2 ≠ d := by
            intro heq
            have : ew = e := G.eq_of_prefix hew he (by rw [heq, hed]; exact List.prefix_refl _)
            subst this
            exact hc hewc
          have hrest : ew.2 ∈ rest := by
            rcases List.mem_cons.mp hewd with h | h
            · exact absurd h hne
            · exact h
          apply ih _ _ hnd'.2 _ ⟨ew, hew, hrest, hewc⟩
          intro s' hs'
          rcases List.mem_cons.mp hs' with rfl | hs''
          · exact ⟨⟨e, he, by rw [hed]; exact List.prefix_refl _⟩, hnd'.1⟩
          · exact ⟨(hskip s' hs'').1, fun hm => (hskip s' hs'').2 (List.mem_cons_of_mem _ hm)⟩
      · have hnot : ∀ e ∈ E, e.2 ≠ d := fun e he heq => hex ⟨e, he, heq⟩
        rw [readSp_nonroot G hnot]
        have hrest : ew.2 ∈ rest := by
          rcases List.mem_cons.mp hewd with h | h
          · exact absurd h (hnot ew hew)
          · exact h
        apply ih _ _ hnd'.2 _ ⟨ew, hew, hrest, hewc⟩
        intro s' hs'
        exact ⟨(hskip s' hs').1, fun hm => (hskip s' hs').2 (List.mem_cons_of_mem _ hm)⟩

theorem contains_of_hasId {id : String} {p : Project} (h : hasId id p = true) :
    (p.map (·.id)).contains id = true := by
  simp only [hasId, List.any_eq_true, decide_eq_true_eq] at h
  rcases h with ⟨j, hj, hid⟩
  exact List.contains_iff_mem.mpr (List.mem_map.mpr ⟨j, hj, hid⟩)

theorem zip_exists {hash : JVal → String} {E : List (Job × Comps)} (G : GoodExport hash E) (dst : Project)
    (h : ∃ e ∈ E, hasId e.1.id dst = true) :
    importZip hash .none dst (members E) = ⟨dst, some .destinationExists, []⟩ := by
  rcases h with ⟨e, he, hid⟩
  have hd := zip_dirs_ok G
  have := scan_exists G zipPolicy zipPolicy_ok (dst.map (·.id)) _ [] [] hd.1 (by intro s hs; cases hs)
    ⟨e, he, hd.2 e he, contains_of_hasId hid⟩
  unfold importZip
  simp only [schemaFn_none, this]

theorem tar_exists {hash : JVal → String} {E : List (Job × Comps)} (G : GoodExport hash E) (dst : Project)
    (h : ∃ e ∈ E, hasId e.1.id dst = true) :
    importTar hash .none dst (members E) (dirMembers E) = ⟨dst, some .destinationExists, []⟩ := by
  rcases h with ⟨e, he, hid⟩
  have hd := tar_dirs_ok G
  have := scan_exists G tarPolicy tarPolicy_ok (dst.map (·.id)) _ [] [] hd.1 (by intro s hs; cases hs)
    ⟨e, he, hd.2 e he, contains_of_hasId hid⟩
  unfold importTar
  simp only [schemaFn_none, this]

theorem hasId_true_of_mem {id : String} {p : Project} {j : Job} (hj : j ∈ p) (h : j.id = id) :
    hasId id p = true := by
  simp only [hasId, List.any_eq_true, decide_eq_true_eq]
  exact ⟨j, hj, h⟩

theorem crawl_exists {hash : JVal → String} {E : List (Job × Comps)} (G : GoodExport hash E) (dst : Project) :
    ∀ (dirs found : List Comps) (seen : List String) (r : ImportResult), dirs.Nodup → r.err = none →
      (∀ f ∈ found, (∃ e ∈ E, e.2 = f) ∧ f ∉ dirs) →
      (∀ s ∈ seen, ∃ e ∈ E, e.1.id = s ∧ e.2 ∈ found) →
      (∀ j ∈ r.proj, j ∈ dst ∨ ∃ e ∈ E, e.1.id = j.id ∧ e.2 ∈ found) →
      (∀ j ∈ dst, j ∈ r.proj) →
      (∃ e ∈ E, e.2 ∈ dirs ∧ hasId e.1.id dst = true) →
      (crawl hash (readSp (members E)) (members E) dirs found seen r).err = some .destinationExists := by
  intro dirs
  induction dirs with
  | nil =>
    intro found seen r _ _ _ _ _ _ h
    rcases h with ⟨e, _, h, _⟩
    cases h
  | cons d rest ih =>
    intro found seen r hnd hr hfound hseen hproj hdst hw
    rcases hw with ⟨ew, hew, hewd, hewc⟩
    have hnd' := List.nodup_cons.mp hnd
    have hfound' : ∀ f ∈ found, (∃ e ∈ E, e.2 = f) ∧ f ∉ rest :=
      fun f hf => ⟨(hfound f hf).1, fun hm => (hfound f hf).2 (List.mem_cons_of_mem _ hm)⟩
    have hroot_fresh : ∀ e ∈ E, e.2 = d → ∀ e' ∈ E, e'.2 ∈ found → e'.1.id ≠ e.1.id := by
      intro e he hed e' he' hf' hid
      have := G.eq_of_id he' he hid
      subst this
      exact (hfound _ hf').2 (hed ▸ List.mem_cons_self)
    simp only [crawl]
    split
    · rename_i htest
      simp only [List.any_eq_true, isPrefixB, decide_eq_true_eq] at htest
      rcases htest with ⟨s, hs, hsd⟩
      rcases (hfound s hs).1 with ⟨es, hes, hess⟩
      have hnot : ∀ e ∈ E, e.2 ≠ d := by
        intro e he heq
        have : es = e := G.eq_of_prefix hes he (by rw [hess, heq]; exact hsd)
        subst this
        exact (hfound s hs).2 (by rw [← hess, heq]; exact List.mem_cons_self)
      have hrest : ew.2 ∈ rest := by
        rcases List.mem_cons.mp hewd with h | h
        · exact absurd h (hnot ew hew)
        · exact h
      exact ih found seen r hnd'.2 hr hfound' hseen hproj hdst ⟨ew, hew, hrest, hewc⟩
    · by_cases hex : ∃ e ∈ E, e.2 = d
      · rcases hex with ⟨e, he, hed⟩
        rcases G.sp e he with ⟨v, hv, hh⟩
        have hread : readSp (members E) d = .ok (some v) := hed ▸ readSp_root G he hv
        have hseenF : seen.contains e.1.id = false := by
          cases hc : seen.contains e.1.id with
          | false => rfl
          | true =>
            rcases hseen _ (List.contains_iff_mem.mp hc) with ⟨e', he', hid', hf'⟩
            exact absurd hid' (hroot_fresh e he hed e' he' hf')
        have hfiles : filesUnder d (members E) = e.1.files := hed ▸ filesUnder_root G he
        rw [hread]
        simp only [hh, hseenF, Bool.false_eq_true, if_false, copyInit]
        cases hhas : hasId e.1.id r.proj with
        | true => simp
        | false =>
          simp only [Bool.false_eq_true, if_false, initJob, hfiles, hv, hh, if_true]
          simp only [hr, Option.isSome_none, Bool.false_eq_true, if_false]
          have hne : ew.2 ≠ d := by
            intro heq
            have : ew = e := G.eq_of_prefix hew he (by rw [heq, hed]; exact List.prefix_refl _)
            subst this
            simp only [hasId, List.any_eq_true, decide_eq_true_eq] at hewc
            rcases hewc with ⟨j, hj, hjid⟩
            have := (hasId_false_iff _ _).mp hhas j (hdst j hj)
            exact this hjid
          have hrest : ew.2 ∈ rest := by
            rcases List.mem_cons.mp hewd with h | h
            · exact absurd h hne
            · exact h
          apply ih (d :: found) (e.1.id :: seen)
            { proj := r.proj ++ [⟨e.1.id, e.1.files⟩], err := none,
              writes := r.writes ++ writesOf e.1.id e.1.files ++ [] } hnd'.2 rfl
          · intro f hf
            rcases List.mem_cons.mp hf with rfl | hf'
            · exact ⟨⟨e, he, hed⟩, hnd'.1⟩
            · exact hfound' f hf'
          · intro s hs
            rcases List.mem_cons.mp hs with rfl | hs'
            · exact ⟨e, he, rfl, by rw [hed]; exact List.mem_cons_self⟩
            · rcases hseen s hs' with ⟨e', he', hid', hf'⟩
              exact ⟨e', he', hid', List.mem_cons_of_mem _ hf'⟩
          · intro j hj
            rcases List.mem_append.mp hj with hj' | hj'
            · rcases hproj j hj' with h | ⟨e', he', hid', hf'⟩
              · exact Or.inl h
              · exact Or.inr ⟨e', he', hid', List.mem_cons_of_mem _ hf'⟩
            · simp only [List.mem_singleton] at hj'
              subst hj'
              exact Or.inr ⟨e, he, rfl, by rw [hed]; exact List.mem_cons_self⟩
          · intro j hj
            exact List.mem_append_left _ (hdst j hj)
          · exact ⟨ew, hew, hrest, hewc⟩
      · have hnot : ∀ e ∈ E, e.2 ≠ d := fun e he heq => hex ⟨e, he, heq⟩
        rw [readSp_nonroot G hnot]
        have hrest : ew.2 ∈ rest := by
          rcases List.mem_cons.mp hewd with h | h
          · exact absurd h (hnot ew hew)
          · exact h
        exact ih found seen r hnd'.2 hr hfound' hseen hproj hdst ⟨ew, hew, hrest, hewc⟩

theorem dir_exists {hash : JVal → String} {E : List (Job × Comps)} (G : GoodExport hash E) (dst : Project)
    (order : List Comps) (hnd : order.Nodup) (hall : ∀ e ∈ E, e.2 ∈ order)
    (h : ∃ e ∈ E, hasId e.1.id dst = true) :
    (importDir hash .none dst (members E) order).err = some .destinationExists := by
  rcases h with ⟨e, he, hid⟩
  unfold importDir
  rw [schemaFn_none]
  exact crawl_exists G dst order [] [] ⟨dst, none, []⟩ hnd rfl
    (by intro f hf; cases hf) (by intro s hs; cases hs) (fun j hj => Or.inl hj) (fun j hj => hj)
    ⟨e, he, hall e he, hid⟩

end Signac.IE

/-
  Dotted keys: `split(".")` against `".".join`, `flatten` as "flatten the sub-mapping, then prefix",
  `unflatten ∘ flatten = id`, and the value found by walking a flattened key.  Core only.
-/
import Signac.Schema
namespace Signac.Schema
open Signac

/-! ### `split` / `join` -/

theorem splitDots_ne_nil (l : List Char) : splitDots l ≠ [] := by
  cases l with
  | nil => simp [splitDots]
  | cons c cs =>
    simp only [splitDots]
    split
    · simp
    · split <;> simp

/-- `(a + "." + b).split(".") == a.split(".") + b.split(".")` -/
theorem splitDots_append_dot (a b : List Char) :
    splitDots (a ++ '.' :: b) = splitDots a ++ splitDots b := by
  induction a with
  | nil => simp [splitDots]
  | cons c cs ih =>
    simp only [List.cons_append, splitDots]
    split
    · simp [ih]
    · rw [ih]
      cases h : splitDots cs with
      | nil => exact absurd h (splitDots_ne_nil cs)
      | cons t ts => simp

theorem splitDots_dotfree {l : List Char} (h : '.' ∉ l) : splitDots l = [l] := by
  induction l with
  | nil => simp [splitDots]
  | cons c cs ih =>
    simp only [List.mem_cons, not_or] at h
    simp only [splitDots]
    have hc : ¬ c = '.' := fun e => h.1 e.symm
    simp only [hc, if_false, ih h.2]

/-- the key has no dot (signac refuses state point keys with dots) -/
def DotFreeKey (k : String) : Prop := '.' ∉ k.toList

theorem splitKey_ne_nil (k : String) : splitKey k ≠ [] := by
  unfold splitKey
  intro h
  exact splitDots_ne_nil _ (List.map_eq_nil_iff.mp h)

theorem splitKey_dotJoin (a b : String) : splitKey (dotJoin a b) = splitKey a ++ splitKey b := by
  unfold splitKey dotJoin
  have : (a ++ "." ++ b).toList = a.toList ++ '.' :: b.toList := by
    simp only [String.toList_append]
    have : ".".toList = ['.'] := by decide
    rw [this]
    simp
  rw [this, splitDots_append_dot, List.map_append]

theorem splitKey_dotfree {k : String} (h : DotFreeKey k) : splitKey k = [k] := by
  unfold splitKey
  rw [splitDots_dotfree h]
  simp [String.ofList_toList]

theorem dotJoin_assoc (a b c : String) : dotJoin a (dotJoin b c) = dotJoin (dotJoin a b) c := by
  simp only [dotJoin, String.append_assoc]

/-! ### well-formed mappings: distinct dot-free keys along the mapping spine -/

mutual
  def WFVal : JVal → Prop
    | .obj kvs => WFKVs kvs
    | .null => True
    | .bool _ => True
    | .int _ => True
    | .flt _ _ _ => True
    | .str _ => True
    | .arr _ => True
  def WFKVs : KVs → Prop
    | [] => True
    | (k, v) :: rest => DotFreeKey k ∧ (∀ kv ∈ rest, kv.1 ≠ k) ∧ WFVal v ∧ WFKVs rest
end

theorem WFKVs_dotfree {kvs : KVs} (h : WFKVs kvs) : ∀ kv ∈ kvs, DotFreeKey kv.1 := by
  induction kvs with
  | nil => intro kv hkv; simp at hkv
  | cons hd tl ih =>
    obtain ⟨k, v⟩ := hd
    simp only [WFKVs] at h
    intro kv hkv
    simp only [List.mem_cons] at hkv
    rcases hkv with hkv | hkv
    · subst hkv; exact h.1
    · exact ih h.2.2.2 kv hkv

/-! ### flatten = flatten below, then prefix -/

/-- prefix a flattened pair with the key of the enclosing mapping -/
def pfx (key : String) (p : String × JVal) : String × JVal := (dotJoin key p.1, p.2)

mutual
  theorem flattenVal_pfx : ∀ (v : JVal) (key k : String),
      flattenVal (dotJoin key k) v = (flattenVal k v).map (pfx key)
    | .obj kvs, key, k => by
      simp only [flattenVal]
      split
      · simp [pfx]
      · exact flattenKVs_pfx kvs key k
    | .null, _, _ => by simp [flattenVal, pfx]
    | .bool _, _, _ => by simp [flattenVal, pfx]
    | .int _, _, _ => by simp [flattenVal, pfx]
    | .flt _ _ _, _, _ => by simp [flattenVal, pfx]
    | .str _, _, _ => by simp [flattenVal, pfx]
    | .arr _, _, _ => by simp [flattenVal, pfx]
  theorem flattenKVs_pfx : ∀ (kvs : KVs) (key k : String),
      flattenKVs (some (dotJoin key k)) kvs = (flattenKVs (some k) kvs).map (pfx key)
    | [], _, _ => by simp [flattenKVs]
    | (k2, v) :: rest, key, k => by
      simp only [flattenKVs, childKey, List.map_append]
      rw [← dotJoin_assoc, flattenVal_pfx v key (dotJoin k k2), flattenKVs_pfx rest key k]
end

theorem flattenKVs_some (kvs : KVs) (key : String) :
    flattenKVs (some key) kvs = (flattenKVs none kvs).map (pfx key) := by
  induction kvs with
  | nil => simp [flattenKVs]
  | cons hd tl ih =>
    obtain ⟨k, v⟩ := hd
    simp only [flattenKVs, childKey, List.map_append, ih, flattenVal_pfx]

mutual
  theorem flattenVal_ne_nil : ∀ (v : JVal) (key : String), flattenVal key v ≠ []
    | .obj kvs, key => by
      simp only [flattenVal]
      split
      · simp
      · next h => exact flattenKVs_ne_nil kvs (some key) (by intro e; subst e; simp at h)
    | .null, _ => by simp [flattenVal]
    | .bool _, _ => by simp [flattenVal]
    | .int _, _ => by simp [flattenVal]
    | .flt _ _ _, _ => by simp [flattenVal]
    | .str _, _ => by simp [flattenVal]
    | .arr _, _ => by simp [flattenVal]
  theorem flattenKVs_ne_nil : ∀ (kvs : KVs) (key : Option String), kvs ≠ [] → flattenKVs key kvs ≠ []
    | [], _, h => absurd rfl h
    | (k, v) :: rest, key, _ => by
      simp only [flattenKVs]
      intro e
      exact flattenVal_ne_nil v _ (List.append_eq_nil_iff.mp e).1
end

/-- what `flattenVal` yields: the value itself for a leaf, the prefixed pairs of a non-empty mapping -/
theorem flattenVal_cases (k : String) (v : JVal) :
    (flattenVal k v = [(k, v)] ∧ ∀ kvs, v = .obj kvs → kvs = [])
    ∨ ∃ kvs, v = .obj kvs ∧ kvs ≠ [] ∧ flattenVal k v = (flattenKVs none kvs).map (pfx k) := by
  cases v with
  | obj kvs =>
    cases kvs with
    | nil => left; simp [flattenVal]
    | cons hd tl =>
      right
      refine ⟨hd :: tl, rfl, by simp, ?_⟩
      simp only [flattenVal, List.isEmpty_cons, Bool.false_eq_true, if_false]
      exact flattenKVs_some _ _
  | null => left; simp [flattenVal]
  | bool _ => left; simp [flattenVal]
  | int _ => left; simp [flattenVal]
  | flt _ _ _ => left; simp [flattenVal]
  | str _ => left; simp [flattenVal]
  | arr _ => left; simp [flattenVal]

/-! ### `unflatten ∘ flatten` -/

theorem upsert_new {k : String} {f : Option JVal → JVal} {acc : KVs} (h : ∀ kv ∈ acc, kv.1 ≠ k) :
    upsert k f acc = acc ++ [(k, f none)] := by
  induction acc with
  | nil => simp [upsert]
  | cons hd tl ih =>
    obtain ⟨k', x⟩ := hd
    have h1 : ¬ k = k' := fun e => h (k', x) (by simp) e.symm
    simp only [upsert, h1, if_false, List.cons_append]
    rw [ih (fun kv hkv => h kv (by simp [hkv]))]

theorem upsert_hit {k : String} {f : Option JVal → JVal} {acc : KVs} {x : JVal}
    (h : ∀ kv ∈ acc, kv.1 ≠ k) : upsert k f (acc ++ [(k, x)]) = acc ++ [(k, f (some x))] := by
  induction acc with
  | nil => simp [upsert]
  | cons hd tl ih =>
    obtain ⟨k', y⟩ := hd
    have h1 : ¬ k = k' := fun e => h (k', y) (by simp) e.symm
    simp only [List.cons_append, upsert, h1, if_false]
    rw [ih (fun kv hkv => h kv (by simp [hkv]))]

theorem unflattenFrom_cons (acc : KVs) (p : String × JVal) (ps : List (String × JVal)) :
    unflattenFrom acc (p :: ps) = unflattenFrom (setPath (splitKey p.1) p.2 acc) ps := by
  simp [unflattenFrom]

theorem unflattenFrom_append (acc : KVs) (ps qs : List (String × JVal)) :
    unflattenFrom acc (ps ++ qs) = unflattenFrom (unflattenFrom acc ps) qs := by
  simp [unflattenFrom, List.foldl_append]

/-- pairs below `k` go into the mapping already stored under `k` -/
theorem unflattenFrom_prefixed_hit {k : String} (hk : DotFreeKey k) {acc : KVs}
    (hacc : ∀ kv ∈ acc, kv.1 ≠ k) (ps : List (String × JVal)) :
    ∀ (sub : KVs), unflattenFrom (acc ++ [(k, .obj sub)]) (ps.map (pfx k))
      = acc ++ [(k, .obj (unflattenFrom sub ps))] := by
  induction ps with
  | nil => intro sub; simp [unflattenFrom]
  | cons p ps ih =>
    intro sub
    obtain ⟨s, v⟩ := p
    simp only [List.map_cons, unflattenFrom_cons, pfx]
    rw [splitKey_dotJoin, splitKey_dotfree hk]
    cases hs : splitKey s with
    | nil => exact absurd hs (splitKey_ne_nil s)
    | cons t ts =>
      simp only [List.singleton_append, setPath]
      rw [upsert_hit hacc]
      simp only
      rw [ih]

/-- the first pair below `k` creates the mapping under the new key `k` -/
theorem unflattenFrom_prefixed_new {k : String} (hk : DotFreeKey k) {acc : KVs}
    (hacc : ∀ kv ∈ acc, kv.1 ≠ k) {ps : List (String × JVal)} (hne : ps ≠ []) :
    unflattenFrom acc (ps.map (pfx k)) = acc ++ [(k, .obj (unflattenFrom [] ps))] := by
  cases ps with
  | nil => exact absurd rfl hne
  | cons p ps =>
    obtain ⟨s, v⟩ := p
    simp only [List.map_cons, unflattenFrom_cons, pfx]
    rw [splitKey_dotJoin, splitKey_dotfree hk]
    cases hs : splitKey s with
    | nil => exact absurd hs (splitKey_ne_nil s)
    | cons t ts =>
      simp only [List.singleton_append, setPath]
      rw [upsert_new hacc]
      simp only
      rw [unflattenFrom_prefixed_hit hk hacc]

mutual
  theorem unflattenFrom_flattenVal : ∀ (v : JVal) (k : String) (acc : KVs),
      DotFreeKey k → (∀ kv ∈ acc, kv.1 ≠ k) → WFVal v →
      unflattenFrom acc (flattenVal k v) = acc ++ [(k, v)]
    | .obj kvs, k, acc, hk, hacc, hwf => by
      rcases flattenVal_cases k (.obj kvs) with ⟨h, hnil⟩ | ⟨kvs', he, hne, h⟩
      · rw [h]
        simp only [unflattenFrom, List.foldl_cons, List.foldl_nil, splitKey_dotfree hk, setPath]
        exact upsert_new hacc
      · cases he
        rw [h, unflattenFrom_prefixed_new hk hacc (flattenKVs_ne_nil _ _ hne)]
        have := unflattenFrom_flattenKVs kvs [] (by simpa [WFVal] using hwf) (by simp)
        rw [this]
        simp
    | .null, k, acc, hk, hacc, _ => by
      simp only [flattenVal, unflattenFrom, List.foldl_cons, List.foldl_nil, splitKey_dotfree hk, setPath]
      exact upsert_new hacc
    | .bool _, k, acc, hk, hacc, _ => by
      simp only [flattenVal, unflattenFrom, List.foldl_cons, List.foldl_nil, splitKey_dotfree hk, setPath]
      exact upsert_new hacc
    | .int _, k, acc, hk, hacc, _ => by
      simp only [flattenVal, unflattenFrom, List.foldl_cons, List.foldl_nil, splitKey_dotfree hk, setPath]
      exact upsert_new hacc
    | .flt _ _ _, k, acc, hk, hacc, _ => by
      simp only [flattenVal, unflattenFrom, List.foldl_cons, List.foldl_nil, splitKey_dotfree hk, setPath]
      exact upsert_new hacc
    | .str _, k, acc, hk, hacc, _ => by
      simp only [flattenVal, unflattenFrom, List.foldl_cons, List.foldl_nil, splitKey_dotfree hk, setPath]
      exact upsert_new hacc
    | .arr _, k, acc, hk, hacc, _ => by
      simp only [flattenVal, unflattenFrom, List.foldl_cons, List.foldl_nil, splitKey_dotfree hk, setPath]
      exact upsert_new hacc
  theorem unflattenFrom_flattenKVs : ∀ (kvs : KVs) (acc : KVs),
      WFKVs kvs → (∀ kv ∈ kvs, ∀ a ∈ acc, a.1 ≠ kv.1) →
      unflattenFrom acc (flattenKVs none kvs) = acc ++ kvs
    | [], acc, _, _ => by simp [flattenKVs, unflattenFrom]
    | (k, v) :: rest, acc, hwf, hacc => by
      simp only [WFKVs] at hwf
      obtain ⟨hk, hnd, hv, hrest⟩ := hwf
      simp only [flattenKVs, childKey, unflattenFrom_append]
      rw [unflattenFrom_flattenVal v k acc hk (fun a ha => hacc (k, v) (by simp) a ha) hv]
      rw [unflattenFrom_flattenKVs rest (acc ++ [(k, v)]) hrest]
      · simp
      · intro kv hkv a ha
        simp only [List.mem_append, List.mem_singleton] at ha
        rcases ha with ha | ha
        · exact hacc kv (by simp [hkv]) a ha
        · subst ha; exact fun e => hnd kv hkv e.symm
end

/-- `_dotted_dict_to_nested_dicts(dict(_nested_dicts_to_dotted_keys(sp))) == sp`, entry order included -/
theorem unflatten_flatten_eq {sp : KVs} (h : WFKVs sp) : unflatten (flatten sp) = sp := by
  have := unflattenFrom_flattenKVs sp [] h (by simp)
  simpa [unflatten, flatten] using this

/-! ### walking a flattened key finds the flattened value -/

theorem flattenVal_head {k k' : String} {v v' : JVal} (hk : DotFreeKey k)
    (h : (k', v') ∈ flattenVal k v) : ∃ t, splitKey k' = k :: t := by
  rcases flattenVal_cases k v with ⟨he, _⟩ | ⟨kvs, _, _, he⟩
  · rw [he] at h
    simp only [List.mem_singleton, Prod.mk.injEq] at h
    exact ⟨[], by rw [h.1, splitKey_dotfree hk]⟩
  · rw [he] at h
    simp only [List.mem_map, pfx, Prod.mk.injEq] at h
    obtain ⟨p, _, hp, _⟩ := h
    exact ⟨splitKey p.1, by rw [← hp, splitKey_dotJoin, splitKey_dotfree hk]; simp⟩

theorem flattenKVs_head {kvs : KVs} (hd : ∀ kv ∈ kvs, DotFreeKey kv.1) {k' : String} {v' : JVal}
    (h : (k', v') ∈ flattenKVs none kvs) : ∃ hd' t, splitKey k' = hd' :: t ∧ ∃ kv ∈ kvs, kv.1 = hd' := by
  induction kvs with
  | nil => simp [flattenKVs] at h
  | cons e rest ih =>
    obtain ⟨k, v⟩ := e
    simp only [flattenKVs, childKey, List.mem_append] at h
    rcases h with h | h
    · obtain ⟨t, ht⟩ := flattenVal_head (hd (k, v) (by simp)) h
      exact ⟨k, t, ht, (k, v), by simp, rfl⟩
    · obtain ⟨h', t, ht, kv, hkv, e⟩ := ih (fun kv hkv => hd kv (by simp [hkv])) h
      exact ⟨h', t, ht, kv, by simp [hkv], e⟩

mutual
  theorem getPath_flattenVal : ∀ (v : JVal) (k k' : String) (v' : JVal),
      DotFreeKey k → WFVal v → (k', v') ∈ flattenVal k v →
      ∃ t, splitKey k' = k :: t ∧ getPath t v = some v'
    | .obj kvs, k, k', v', hk, hwf, h => by
      rcases flattenVal_cases k (.obj kvs) with ⟨he, _⟩ | ⟨kvs', he', _, he⟩
      · rw [he] at h
        simp only [List.mem_singleton, Prod.mk.injEq] at h
        exact ⟨[], by rw [h.1, splitKey_dotfree hk], by rw [h.2]; rfl⟩
      · cases he'
        rw [he] at h
        simp only [List.mem_map, pfx, Prod.mk.injEq] at h
        obtain ⟨p, hp, hp1, hp2⟩ := h
        refine ⟨splitKey p.1, by rw [← hp1, splitKey_dotJoin, splitKey_dotfree hk]; simp, ?_⟩
        have := getPath_flattenKVs kvs p.1 p.2 (by simpa [WFVal] using hwf) hp
        rw [← hp2]
        exact this
    | .null, k, k', v', hk, _, h => by
      simp only [flattenVal, List.mem_singleton, Prod.mk.injEq] at h
      exact ⟨[], by rw [h.1, splitKey_dotfree hk], by rw [h.2]; rfl⟩
    | .bool _, k, k', v', hk, _, h => by
      simp only [flattenVal, List.mem_singleton, Prod.mk.injEq] at h
      exact ⟨[], by rw [h.1, splitKey_dotfree hk], by rw [h.2]; rfl⟩
    | .int _, k, k', v', hk, _, h => by
      simp only [flattenVal, List.mem_singleton, Prod.mk.injEq] at h
      exact ⟨[], by rw [h.1, splitKey_dotfree hk], by rw [h.2]; rfl⟩
    | .flt _ _ _, k, k', v', hk, _, h => by
      simp only [flattenVal, List.mem_singleton, Prod.mk.injEq] at h
      exact ⟨[], by rw [h.1, splitKey_dotfree hk], by rw [h.2]; rfl⟩
    | .str _, k, k', v', hk, _, h => by
      simp only [flattenVal, List.mem_singleton, Prod.mk.injEq] at h
      exact ⟨[], by rw [h.1, splitKey_dotfree hk], by rw [h.2]; rfl⟩
    | .arr _, k, k', v', hk, _, h => by
      simp only [flattenVal, List.mem_singleton, Prod.mk.injEq] at h
      exact ⟨[], by rw [h.1, splitKey_dotfree hk], by rw [h.2]; rfl⟩
  theorem getPath_flattenKVs : ∀ (kvs : KVs) (k' : String) (v' : JVal),
      WFKVs kvs → (k', v') ∈ flattenKVs none kvs → getPath (splitKey k') (.obj kvs) = some v'
    | [], _, _, _, h => by simp [flattenKVs] at h
    | (k, v) :: rest, k', v', hwf, h => by
      have hdf := WFKVs_dotfree hwf
      simp only [WFKVs] at hwf
      obtain ⟨hk, hnd, hv, hrest⟩ := hwf
      simp only [flattenKVs, childKey, List.mem_append] at h
      rcases h with h | h
      · obtain ⟨t, ht, hg⟩ := getPath_flattenVal v k k' v' hk hv h
        rw [ht]
        simp only [getPath, lookupKV, if_true]
        exact hg
      · have ih := getPath_flattenKVs rest k' v' hrest h
        obtain ⟨h', t, ht, kv, hkv, e⟩ :=
          flattenKVs_head (fun kv hkv => hdf kv (by simp [hkv])) h
        rw [ht] at ih ⊢
        have hne : ¬ h' = k := by rw [← e]; exact hnd kv hkv
        simp only [getPath, lookupKV, hne, if_false] at ih ⊢
        exact ih
end

end Signac.Schema

/-
  Helper lemmas for C10: the temp+replace protocol (`docWrite`), its instances (`jsonSave`,
  `cacheWrite`) and sequences of them (`flush`) satisfy the discipline and deliver the blob.
-/
import Signac.Proofs.FsCrash
namespace Signac.Fs
variable {α : Type}

theorem unrelated_iff {a b : Path} : unrelated a b = true ↔ under a b = false ∧ under b a = false := by
  simp [unrelated]

theorem unrelated_symm {a b : Path} (h : unrelated a b = true) : unrelated b a = true := by
  simp [unrelated] at h ⊢; exact ⟨h.2, h.1⟩

/-! ### the spike theorem: `pre` then one rename onto the target -/

theorem atomic_replace_core {t tmp : Path} (hu : unrelated tmp t = true) (pre : List (Step α))
    (hpre : ∀ s ∈ pre, touches t s = false) (fs : FS α) :
    ∀ f ∈ crashStates fs (pre ++ [.rename tmp t]), f t = fs t ∨ f t = run fs pre tmp := by
  intro f hf
  have ⟨h1, h2⟩ := unrelated_iff.mp hu
  rcases crashStates_append.mp hf with hf | hf
  · exact Or.inl (crash_untouched hpre fs f hf)
  · simp [crashStates, torn] at hf
    rcases hf with rfl | rfl
    · exact Or.inl (run_untouched hpre fs)
    · rcases apply_rename_onto (fs := run fs pre) h1 h2 with e | ⟨_, e⟩
      · exact Or.inr e
      · exact Or.inl (by rw [e]; exact run_untouched hpre fs)

/-! ### docWrite -/

theorem run_appends (tmp : Path) (chunks : List (List α)) (fs : FS α) (c : List α)
    (h : fs tmp = some (.file c)) :
    run fs (chunks.map (fun b => Step.append tmp b)) tmp = some (.file (c ++ chunks.flatten)) := by
  induction chunks generalizing fs c with
  | nil => simp [run, h]
  | cons b bs ih =>
    simp only [List.map_cons, run_cons, List.flatten_cons]
    rw [ih (apply fs (.append tmp b)) (c ++ b) (by simp [apply, h, upd])]
    simp [List.append_assoc]

/-- the steps of `docWrite` before the rename -/
def docPre (tmp : Path) (chunks : List (List α)) : List (Step α) :=
  .create tmp :: (chunks.map (fun b => .append tmp b) ++ [.close tmp])

theorem docWrite_eq (tmp t : Path) (chunks : List (List α)) :
    docWrite tmp t chunks = docPre tmp chunks ++ [.rename tmp t] := by
  simp [docWrite, docPre]

/-- after the writer closed the temp file it holds exactly the blob -/
theorem run_docPre (tmp : Path) (chunks : List (List α)) (fs : FS α) :
    run fs (docPre tmp chunks) tmp = some (.file chunks.flatten) := by
  simp only [docPre, run_cons, run_append]
  have := run_appends tmp chunks (apply fs (.create tmp)) [] (by simp [apply, upd])
  simp only [List.nil_append] at this
  simpa [run, apply] using this

theorem docPre_touches {tmp p : Path} {chunks : List (List α)} {s : Step α}
    (hs : s ∈ docPre tmp chunks) (ht : touches p s = true) : p = tmp := by
  simp only [docPre, List.mem_cons, List.mem_append, List.mem_map, List.not_mem_nil, or_false] at hs
  rcases hs with rfl | ⟨b, _, rfl⟩ | rfl
  · exact (by simpa [touches] using ht : tmp = p).symm
  · exact (by simpa [touches] using ht : tmp = p).symm
  · simp [touches] at ht

theorem docPre_untouched {tmp t : Path} (hne : t ≠ tmp) (chunks : List (List α)) :
    ∀ s ∈ docPre tmp chunks, touches t s = false := by
  intro s hs
  cases h : touches t s with
  | false => rfl
  | true => exact absurd (docPre_touches hs h) hne

theorem unrelated_ne {a b : Path} (h : unrelated a b = true) : b ≠ a :=
  fun e => by subst e; simp [unrelated, under_refl] at h

/-- every crash state of a temp+replace write shows the old node or the complete blob -/
theorem docWrite_crash {tmp t : Path} (hu : unrelated tmp t = true) (chunks : List (List α)) (fs : FS α) :
    ∀ f ∈ crashStates fs (docWrite tmp t chunks), f t = fs t ∨ f t = some (.file chunks.flatten) := by
  intro f hf
  rw [docWrite_eq] at hf
  have := atomic_replace_core hu (docPre tmp chunks) (docPre_untouched (unrelated_ne hu) chunks) fs f hf
  rwa [run_docPre] at this

/-- a completed write delivers exactly the blob ... -/
theorem docWrite_delivers {tmp t : Path} (hu : unrelated tmp t = true) (chunks : List (List α)) (fs : FS α) :
    run fs (docWrite tmp t chunks) t = some (.file chunks.flatten) := by
  have ⟨h1, h2⟩ := unrelated_iff.mp hu
  rw [docWrite_eq, run_append, run_cons, run_nil]
  rcases apply_rename_onto (fs := run fs (docPre tmp chunks)) h1 h2 with e | ⟨e, _⟩
  · rw [e, run_docPre]
  · rw [run_docPre] at e; cases e

/-- ... and leaves no temp file behind -/
theorem docWrite_no_stray {tmp t : Path} (hu : unrelated tmp t = true) (chunks : List (List α)) (fs : FS α) :
    run fs (docWrite tmp t chunks) tmp = none := by
  have ⟨h1, h2⟩ := unrelated_iff.mp hu
  rw [docWrite_eq, run_append, run_cons, run_nil]
  simp only [apply, run_docPre, h1, h2, Bool.or_self, Bool.false_eq_true, if_false, under_refl, if_true]

theorem atomicScan_appends {tmp t : Path} (hne : tmp ≠ t) (o : List Path) (chunks : List (List α))
    (rest : List (Step α)) :
    atomicScan t o (chunks.map (fun b => Step.append tmp b) ++ rest) = atomicScan t o rest := by
  induction chunks with
  | nil => rfl
  | cons b bs ih => simp [atomicScan, stepOk, touches, track, hne, ih]

/-- the protocol satisfies the discipline -/
theorem docWrite_atomicOn {tmp t : Path} (hu : unrelated tmp t = true) (chunks : List (List α)) :
    AtomicOn t (docWrite tmp t chunks) = true := by
  have ⟨h1, h2⟩ := unrelated_iff.mp hu
  have hne : tmp ≠ t := (unrelated_ne hu).symm
  simp only [AtomicOn, docWrite, atomicScan, stepOk, touches, track, hne, atomicScan_appends hne]
  simp [h1, h2]

theorem docWrite_touches {tmp t p : Path} {chunks : List (List α)} {s : Step α}
    (hs : s ∈ docWrite tmp t chunks) (ht : touches p s = true) : under tmp p = true ∨ under t p = true := by
  rw [docWrite_eq] at hs
  rcases List.mem_append.mp hs with hs | hs
  · left; rw [docPre_touches hs ht]; exact under_refl _
  · simp only [List.mem_singleton] at hs
    subst hs
    simpa [touches] using ht

/-- whatever differs from the pre-state after a crash is the target or the temp file
    (or lies below one of them — nothing does when they are files) -/
theorem docWrite_strays {tmp t : Path} (chunks : List (List α)) (fs f : FS α)
    (hf : f ∈ crashStates fs (docWrite tmp t chunks)) (p : Path) (hd : f p ≠ fs p) :
    under t p = true ∨ under tmp p = true := by
  obtain ⟨s, hs, ht⟩ := crash_diff_touched hf hd
  exact (docWrite_touches hs ht).symm

/-! ### the names of the temp files -/

theorem sibling_length (f : String → String) {t : Path} (h : t ≠ []) : (sibling f t).length = t.length := by
  simp only [sibling, List.length_append, List.length_dropLast, List.length_cons, List.length_nil]
  have : 0 < t.length := List.length_pos_iff.mpr h
  omega

theorem prefix_eq_of_length {a b : Path} (h : a <+: b) (hl : a.length = b.length) : a = b :=
  List.IsPrefix.eq_of_length h hl

theorem sibling_ne (f : String → String) (hf : ∀ n, f n ≠ n) {t : Path} (h : t ≠ []) : sibling f t ≠ t := by
  intro e
  have h1 : (sibling f t).getLast? = t.getLast? := by rw [e]
  obtain ⟨n, hn⟩ : ∃ n, t.getLast? = some n := by
    cases hh : t.getLast? with
    | none => exact absurd (List.getLast?_eq_none_iff.mp hh) h
    | some n => exact ⟨n, rfl⟩
  simp only [sibling, hn, Option.getD_some, List.getLast?_append, List.getLast?_singleton,
    Option.some_or] at h1
  exact hf n (Option.some.inj h1)

theorem sibling_unrelated (f : String → String) (hf : ∀ n, f n ≠ n) {t : Path} (h : t ≠ []) :
    unrelated (sibling f t) t = true := by
  rw [unrelated_iff]
  constructor
  · cases hu : under (sibling f t) t with
    | false => rfl
    | true =>
      have hp : sibling f t <+: t := by simpa [under] using hu
      exact absurd (prefix_eq_of_length hp (sibling_length f h)) (sibling_ne f hf h)
  · cases hu : under t (sibling f t) with
    | false => rfl
    | true =>
      have hp : t <+: sibling f t := by simpa [under] using hu
      exact absurd (prefix_eq_of_length hp (sibling_length f h).symm).symm (sibling_ne f hf h)

theorem tmp_name_ne (n : String) : "._TMP_" ++ n ≠ n := by
  intro e
  have := congrArg String.length e
  simp only [String.length_append] at this
  have h6 : "._TMP_".length = 6 := by decide
  omega

theorem tilde_name_ne (n : String) : n ++ "~" ≠ n := by
  intro e
  have := congrArg String.length e
  simp only [String.length_append] at this
  have h1 : "~".length = 1 := by decide
  omega

theorem tmpOf_unrelated {t : Path} (h : t ≠ []) : unrelated (tmpOf t) t = true :=
  sibling_unrelated _ tmp_name_ne h

theorem tildeOf_unrelated {t : Path} (h : t ≠ []) : unrelated (tildeOf t) t = true :=
  sibling_unrelated _ tilde_name_ne h

/-! ### flush -/

theorem flush_cons (w : W α) (ws : List (W α)) : flush (w :: ws) = docWrite w.tmp w.t w.chunks ++ flush ws := by
  simp [flush]

theorem flushPaths_cons (w : W α) (ws : List (W α)) : flushPaths (w :: ws) = w.tmp :: w.t :: flushPaths ws := by
  simp [flushPaths]

theorem mem_flushPaths {w : W α} {ws : List (W α)} (h : w ∈ ws) : w.tmp ∈ flushPaths ws ∧ w.t ∈ flushPaths ws := by
  simp only [flushPaths, List.mem_flatMap]
  exact ⟨⟨w, h, by simp⟩, ⟨w, h, by simp⟩⟩

theorem flush_untouched {ws : List (W α)} {p : Path}
    (h : ∀ q ∈ flushPaths ws, under q p = false) : ∀ s ∈ flush ws, touches p s = false := by
  intro s hs
  simp only [flush, List.mem_flatMap] at hs
  obtain ⟨w, hw, hs⟩ := hs
  cases ht : touches p s with
  | false => rfl
  | true =>
    have ⟨h1, h2⟩ := mem_flushPaths hw
    rcases docWrite_touches hs ht with e | e
    · rw [h _ h1] at e; cases e
    · rw [h _ h2] at e; cases e

theorem flush_crash {ws : List (W α)} (hu : pairwiseUnrelated (flushPaths ws) = true) (fs : FS α) :
    ∀ w ∈ ws, ∀ f ∈ crashStates fs (flush ws), f w.t = fs w.t ∨ f w.t = some (.file w.chunks.flatten) := by
  induction ws generalizing fs with
  | nil => intro w hw; cases hw
  | cons w0 ws ih =>
    simp only [flushPaths_cons, pairwiseUnrelated, List.all_cons, Bool.and_eq_true, List.all_eq_true] at hu
    obtain ⟨⟨h01, htmp⟩, ht, hrest⟩ := hu
    have h0 : ∀ w ∈ ws, ∀ s ∈ docWrite w0.tmp w0.t w0.chunks, touches w.t s = false := by
      intro w hw s hs
      have hm := (mem_flushPaths hw).2
      cases hts : touches w.t s with
      | false => rfl
      | true =>
        rcases docWrite_touches hs hts with e | e
        · rw [(unrelated_iff.mp (htmp _ hm)).1] at e; cases e
        · rw [(unrelated_iff.mp (ht _ hm)).1] at e; cases e
    have hpost : ∀ s ∈ flush ws, touches w0.t s = false :=
      flush_untouched (fun q hq => (unrelated_iff.mp (ht q hq)).2)
    intro w hw f hf
    rw [flush_cons] at hf
    rcases crashStates_append.mp hf with hf | hf
    · rcases List.mem_cons.mp hw with rfl | hw
      · exact docWrite_crash h01 _ fs f hf
      · exact Or.inl (crash_untouched (h0 w hw) fs f hf)
    · rcases List.mem_cons.mp hw with rfl | hw
      · right
        rw [crash_untouched hpost _ f hf, docWrite_delivers h01]
      · rcases ih hrest _ w hw f hf with e | e
        · exact Or.inl (by rw [e, run_untouched (h0 w hw)])
        · exact Or.inr e

theorem flush_delivers {ws : List (W α)} (hu : pairwiseUnrelated (flushPaths ws) = true) (fs : FS α) :
    ∀ w ∈ ws, run fs (flush ws) w.t = some (.file w.chunks.flatten) := by
  induction ws generalizing fs with
  | nil => intro w hw; cases hw
  | cons w0 ws ih =>
    simp only [flushPaths_cons, pairwiseUnrelated, List.all_cons, Bool.and_eq_true, List.all_eq_true] at hu
    obtain ⟨⟨h01, _⟩, ht, hrest⟩ := hu
    intro w hw
    rw [flush_cons, run_append]
    rcases List.mem_cons.mp hw with rfl | hw
    · rw [run_untouched (flush_untouched (fun q hq => (unrelated_iff.mp (ht q hq)).2)), docWrite_delivers h01]
    · exact ih hrest _ w hw

theorem asFlush_sound [DecidableEq α] {steps : List (Step α)} {ws : List (W α)} (h : asFlush steps = some ws) :
    steps = flush ws ∧ pairwiseUnrelated (flushPaths ws) = true := by
  simp only [asFlush] at h
  split at h
  · split at h
    · rename_i hc
      cases h
      exact ⟨hc.1.symm, hc.2⟩
    · cases h
  · cases h

/-! ### the discipline holds for every target of a flush -/

theorem docWrite_scan_other {tmp' t' t : Path} (h1 : under tmp' t = false) (h2 : under t' t = false)
    (o : List Path) (chunks : List (List α)) (rest : List (Step α)) :
    atomicScan t o (docWrite tmp' t' chunks ++ rest) = atomicScan t o rest := by
  have hne1 : tmp' ≠ t := under_eq_false_ne h1
  have hne2 : t' ≠ t := under_eq_false_ne h2
  simp only [docWrite, List.cons_append, List.append_assoc, atomicScan, stepOk, touches, track, hne1,
    atomicScan_appends hne1]
  simp [hne2, h1, h2]

theorem docWrite_scan_own {tmp t : Path} (hu : unrelated tmp t = true)
    (chunks : List (List α)) (rest : List (Step α)) :
    atomicScan t [] (docWrite tmp t chunks ++ rest) = atomicScan t [] rest := by
  have ⟨h1, h2⟩ := unrelated_iff.mp hu
  have hne : tmp ≠ t := (unrelated_ne hu).symm
  simp only [docWrite, List.cons_append, List.append_assoc, atomicScan, stepOk, touches, track, hne,
    atomicScan_appends hne]
  simp [h1, h2]

theorem flush_scan_untouched {ws : List (W α)} {t : Path}
    (h : ∀ q ∈ flushPaths ws, under q t = false) : atomicScan t [] (flush ws) = true := by
  induction ws with
  | nil => rfl
  | cons w0 ws ih =>
    rw [flush_cons, docWrite_scan_other (h _ (by simp [flushPaths_cons])) (h _ (by simp [flushPaths_cons]))]
    exact ih (fun q hq => h q (by simp [flushPaths_cons, hq]))

theorem flush_atomicOn {ws : List (W α)} (hu : pairwiseUnrelated (flushPaths ws) = true) :
    ∀ w ∈ ws, AtomicOn w.t (flush ws) = true := by
  induction ws with
  | nil => intro w hw; cases hw
  | cons w0 ws ih =>
    simp only [flushPaths_cons, pairwiseUnrelated, List.all_cons, Bool.and_eq_true, List.all_eq_true] at hu
    obtain ⟨⟨h01, htmp⟩, ht, hrest⟩ := hu
    intro w hw
    simp only [AtomicOn]
    rw [flush_cons]
    rcases List.mem_cons.mp hw with rfl | hw
    · rw [docWrite_scan_own h01]
      exact flush_scan_untouched (fun q hq => (unrelated_iff.mp (ht q hq)).2)
    · have hm := (mem_flushPaths hw).2
      rw [docWrite_scan_other (unrelated_iff.mp (htmp _ hm)).1 (unrelated_iff.mp (ht _ hm)).1]
      exact ih hrest w hw

end Signac.Fs

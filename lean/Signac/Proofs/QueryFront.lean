/-
  Helper lemmas for C07: spellings (everything `_find_result` sees of the non-logical part of a
  filter is its flattened form), cursor list semantics, groupby as a partition.
-/
import Signac.Proofs.QueryCorpus
namespace Signac.Query
open Signac

/-! ### groupby -/

theorem insertSorted_perm (x : JVal × JobId) : ∀ l, (insertSorted x l).Perm (x :: l)
  | [] => List.Perm.refl _
  | y :: ys => by
    simp only [insertSorted]
    split
    · exact ((insertSorted_perm x ys).cons y).trans (List.Perm.swap x y ys)
    · exact List.Perm.refl _

theorem sortLabelled_perm : ∀ l, (sortLabelled l).Perm l
  | [] => List.Perm.refl _
  | x :: xs => (insertSorted_perm x (sortLabelled xs)).trans ((sortLabelled_perm xs).cons x)

/-- the ids of the groups, concatenated, are the ids of the (sorted) input in order -/
theorem groupFrom_ids (l : JVal) : ∀ (acc : List JobId) (rest : List (JVal × JobId)),
    (groupFrom l acc rest).flatMap (·.2) = acc.reverse ++ rest.map (·.2)
  | acc, [] => by simp [groupFrom]
  | acc, (l', i) :: rest => by
    simp only [groupFrom]
    split
    · rw [groupFrom_ids l (i :: acc) rest]; simp
    · simp only [List.flatMap_cons, groupFrom_ids l' [i] rest]; simp

theorem groupAdjacent_ids : ∀ (ls : List (JVal × JobId)),
    (groupAdjacent ls).flatMap (·.2) = ls.map (·.2)
  | [] => rfl
  | (l, i) :: rest => by simp [groupAdjacent, groupFrom_ids]

/-- every member of a group carries the group's label or a label `==` to it (the label of a group
    is the label of its first member) -/
theorem groupFrom_labels (S : List (JVal × JobId)) :
    ∀ (rest : List (JVal × JobId)) (l : JVal) (acc : List JobId),
    (∀ i ∈ acc, ∃ l', (l', i) ∈ S ∧ (l = l' ∨ pyEq l l' = true)) → (∀ p ∈ rest, p ∈ S) →
    ∀ g ∈ groupFrom l acc rest, ∀ i ∈ g.2, ∃ l', (l', i) ∈ S ∧ (g.1 = l' ∨ pyEq g.1 l' = true)
  | [], l, acc, hacc, _ => by
    intro g hg i hi
    simp only [groupFrom, List.mem_singleton] at hg
    subst hg
    exact hacc i (by simpa using hi)
  | (l', i') :: rest, l, acc, hacc, hrest => by
    intro g hg i hi
    simp only [groupFrom] at hg
    split at hg
    · rename_i heq
      refine groupFrom_labels S rest l (i' :: acc) ?_ (fun p hp => hrest p (List.mem_cons_of_mem _ hp)) g hg i hi
      intro j hj
      rcases List.mem_cons.mp hj with rfl | hj
      · exact ⟨l', hrest _ List.mem_cons_self, Or.inr heq⟩
      · exact hacc j hj
    · rcases List.mem_cons.mp hg with rfl | hg
      · exact hacc i (by simpa using hi)
      · refine groupFrom_labels S rest l' [i'] ?_ (fun p hp => hrest p (List.mem_cons_of_mem _ hp)) g hg i hi
        intro j hj
        simp only [List.mem_singleton] at hj
        subst hj
        exact ⟨l', hrest _ List.mem_cons_self, Or.inl rfl⟩

theorem groupAdjacent_labels : ∀ (ls : List (JVal × JobId)),
    ∀ g ∈ groupAdjacent ls, ∀ i ∈ g.2, ∃ l', (l', i) ∈ ls ∧ (g.1 = l' ∨ pyEq g.1 l' = true)
  | [], g, hg, _, _ => by simp [groupAdjacent] at hg
  | (l, i0) :: rest, g, hg, i, hi => by
    simp only [groupAdjacent] at hg
    refine groupFrom_labels ((l, i0) :: rest) rest l [i0] ?_ (fun p hp => List.mem_cons_of_mem _ hp) g hg i hi
    intro j hj
    simp only [List.mem_singleton] at hj
    subst hj
    exact ⟨l, List.mem_cons_self, Or.inl rfl⟩

theorem labelJobs_spec {c : Corpus} {gk : GroupKeys} {dflt : Option JVal} :
    ∀ {is : List JobId} {ls : List (JVal × JobId)}, labelJobs c gk dflt is = .ok ls →
      ls.map (·.2) = is ∧ ∀ p ∈ ls, ∃ j ∈ c, j.id = p.2 ∧ labelOf j gk dflt = .ok p.1
  | [], ls, h => by
    simp only [labelJobs, Except.ok.injEq] at h
    subst h; simp
  | i :: is, ls, h => by
    simp only [labelJobs] at h
    cases hf : c.find? (fun j => j.id = i) with
    | none => rw [hf] at h; cases h
    | some j =>
      rw [hf] at h
      simp only at h
      cases hl : labelOf j gk dflt with
      | error e => rw [hl] at h; cases h
      | ok l =>
        rw [hl] at h
        simp only at h
        cases hr : labelJobs c gk dflt is with
        | error e => rw [hr] at h; cases h
        | ok r =>
          rw [hr] at h
          simp only [Except.ok.injEq] at h
          subst h
          obtain ⟨h1, h2⟩ := labelJobs_spec hr
          refine ⟨by simp [h1], ?_⟩
          intro p hp
          rcases List.mem_cons.mp hp with rfl | hp
          · have := List.find?_some hf
            exact ⟨j, List.mem_of_find?_eq_some hf, by simpa using this, hl⟩
          · exact h2 p hp

/-- `groupby` is a partition of the selected jobs: the groups' members, concatenated, are a
    permutation of the selected ids (so with distinct ids the groups are pairwise disjoint and
    cover exactly the selection), and every member's own label is the group's label or `==` to it -/
theorem groupby_spec {P : Params} {c : Corpus} {flt : JVal} {gk : GroupKeys} {dflt : Option JVal}
    {gs : List (JVal × List JobId)} (h : groupby P c flt gk dflt = .ok gs) :
    ∃ ids, findJobs P c (groupFilter flt gk dflt) = .ok ids ∧
      (gs.flatMap (·.2)).Perm ((c.map (·.id)).filter (fun i => ids.contains i)) ∧
      ∀ g ∈ gs, ∀ i ∈ g.2, ∃ j ∈ c, j.id = i ∧ ∃ l, labelOf j gk dflt = .ok l ∧ (g.1 = l ∨ pyEq g.1 l = true) := by
  unfold groupby at h
  cases hf : findJobs P c (groupFilter flt gk dflt) with
  | error e => rw [hf] at h; cases h
  | ok ids =>
    rw [hf] at h
    simp only at h
    cases hl : labelJobs c gk dflt ((c.map (·.id)).filter (fun i => ids.contains i)) with
    | error e => rw [hl] at h; cases h
    | ok ls =>
      rw [hl] at h
      simp only at h
      split at h
      · simp only [Except.ok.injEq] at h
        subst h
        obtain ⟨h1, h2⟩ := labelJobs_spec hl
        refine ⟨ids, rfl, ?_, ?_⟩
        · rw [groupAdjacent_ids, ← h1]
          exact (sortLabelled_perm ls).map _
        · intro g hg i hi
          obtain ⟨l', hm, hlab⟩ := groupAdjacent_labels (sortLabelled ls) g hg i hi
          obtain ⟨j, hj, hji, hjl⟩ := h2 (l', i) ((sortLabelled_perm ls).mem_iff.mp hm)
          exact ⟨j, hj, hji, l', hjl, hlab⟩
      · cases h

/-! ### spellings: the flattened normal form -/

mutual
  /-- normal form of a filter: the non-logical part flattened to dotted keys at every level -/
  def nf : Flt → Flt
    | .mk atoms n a o => .mk (flatten atoms) (nfOpt n) (nfOptList a) (nfOptList o)
  def nfOpt : Option Flt → Option Flt
    | none => none
    | some f => some (nf f)
  def nfOptList : Option (List Flt) → Option (List Flt)
    | none => none
    | some fs => some (nfList fs)
  def nfList : List Flt → List Flt
    | [] => []
    | f :: fs => nf f :: nfList fs
end

theorem flatten_append : ∀ (xs ys : List (String × JVal)), flatten (xs ++ ys) = flatten xs ++ flatten ys
  | [], ys => rfl
  | (k, v) :: xs, ys => by simp only [List.cons_append, flatten, flatten_append xs ys, List.append_assoc]

mutual
  /-- flattened entries are leaves: flattening them again changes nothing -/
  theorem flattenVal_leaf : ∀ (v : JVal) (key : String), flatten (flattenVal key v) = flattenVal key v
    | .obj [], key => by simp [flattenVal, flatten]
    | .obj ((k, v) :: rest), key => by
      simp only [flattenVal]
      exact flattenKVs_leaf ((k, v) :: rest) key
    | .null, key => by simp [flattenVal, flatten]
    | .bool _, key => by simp [flattenVal, flatten]
    | .int _, key => by simp [flattenVal, flatten]
    | .flt _ _ _, key => by simp [flattenVal, flatten]
    | .str _, key => by simp [flattenVal, flatten]
    | .arr _, key => by simp [flattenVal, flatten]
  theorem flattenKVs_leaf : ∀ (kvs : List (String × JVal)) (key : String),
      flatten (flattenKVs key kvs) = flattenKVs key kvs
    | [], key => rfl
    | (k, v) :: rest, key => by
      simp only [flattenKVs, flatten_append, flattenVal_leaf v, flattenKVs_leaf rest]
end

theorem flatten_idem : ∀ (atoms : List (String × JVal)), flatten (flatten atoms) = flatten atoms
  | [] => rfl
  | (k, v) :: rest => by simp only [flatten, flatten_append, flattenVal_leaf, flatten_idem rest]

theorem flatten_isEmpty (atoms : List (String × JVal)) : (flatten atoms).isEmpty = atoms.isEmpty := by
  cases atoms with
  | nil => rfl
  | cons kv rest =>
    have := flatten_cons_ne_nil kv rest
    cases h : flatten (kv :: rest) with
    | nil => exact absurd h this
    | cons _ _ => rfl

theorem nfOpt_isNone (n : Option Flt) : (nfOpt n).isNone = n.isNone := by cases n <;> rfl
theorem nfOptList_isNone (a : Option (List Flt)) : (nfOptList a).isNone = a.isNone := by cases a <;> rfl

mutual
  theorem findResult_nf (P : Params) (docs : List (JobId × JVal)) :
      ∀ f : Flt, findResult P docs (nf f) = findResult P docs f
    | .mk atoms n a o => by
      have e2 : ∀ acc, findNot P docs acc (nfOpt n) = findNot P docs acc n := findNot_nf P docs n
      have e3 : ∀ acc, findAndOpt P docs acc (nfOptList a) = findAndOpt P docs acc a := findAndOpt_nf P docs a
      have e4 : ∀ acc, findOrOpt P docs acc (nfOptList o) = findOrOpt P docs acc o := findOrOpt_nf P docs o
      simp only [nf, findResult, flatten_idem, flatten_isEmpty, nfOpt_isNone, nfOptList_isNone, e2, e3, e4]
  theorem findNot_nf (P : Params) (docs : List (JobId × JVal)) :
      ∀ (n : Option Flt) (acc : Option (List JobId)), findNot P docs acc (nfOpt n) = findNot P docs acc n
    | none, _ => rfl
    | some f, acc => by simp only [nfOpt, findNot, findResult_nf P docs f]
  theorem findAndOpt_nf (P : Params) (docs : List (JobId × JVal)) :
      ∀ (a : Option (List Flt)) (acc : Option (List JobId)),
        findAndOpt P docs acc (nfOptList a) = findAndOpt P docs acc a
    | none, _ => rfl
    | some [], acc => rfl
    | some (f :: fs), acc => by
      have := findAnd_nf P docs (f :: fs)
      simp only [nfOptList, nfList, findAndOpt] at this ⊢
      cases acc with
      | none => exact this none
      | some l => cases l with
        | nil => rfl
        | cons x xs => exact this (some (x :: xs))
  theorem findAnd_nf (P : Params) (docs : List (JobId × JVal)) :
      ∀ (fs : List Flt) (acc : Option (List JobId)), findAnd P docs acc (nfList fs) = findAnd P docs acc fs
    | [], _ => rfl
    | f :: fs, acc => by
      simp only [nfList, findAnd, findResult_nf P docs f]
      cases stepE acc (findResult P docs f) with
      | error e => rfl
      | ok acc' => exact findAnd_nf P docs fs acc'
  theorem findOrOpt_nf (P : Params) (docs : List (JobId × JVal)) :
      ∀ (o : Option (List Flt)) (acc : Option (List JobId)),
        findOrOpt P docs acc (nfOptList o) = findOrOpt P docs acc o
    | none, _ => rfl
    | some [], acc => rfl
    | some (f :: fs), acc => by
      have := findOr_nf P docs (f :: fs)
      simp only [nfOptList, nfList] at this ⊢
      cases acc with
      | none => simp only [findOrOpt, this]
      | some l => cases l with
        | nil => rfl
        | cons x xs => simp only [findOrOpt, this]
  theorem findOr_nf (P : Params) (docs : List (JobId × JVal)) :
      ∀ (fs : List Flt), findOr P docs (nfList fs) = findOr P docs fs
    | [] => rfl
    | f :: fs => by simp only [nfList, findOr, findResult_nf P docs f, findOr_nf P docs fs]
end

mutual
  theorem evalRef_nf (P : Params) (d : JVal) : ∀ f : Flt, evalRef P d (nf f) = evalRef P d f
    | .mk atoms n a o => by
      simp only [nf, evalRef, flatten_idem, flatten_isEmpty, nfOpt_isNone, nfOptList_isNone,
        evalNot_nf P d n, evalAllOpt_nf P d a, evalAnyOpt_nf P d o]
  theorem evalNot_nf (P : Params) (d : JVal) : ∀ n : Option Flt, evalNot P d (nfOpt n) = evalNot P d n
    | none => rfl
    | some f => by simp only [nfOpt, evalNot, evalRef_nf P d f]
  theorem evalAllOpt_nf (P : Params) (d : JVal) :
      ∀ a : Option (List Flt), evalAllOpt P d (nfOptList a) = evalAllOpt P d a
    | none => rfl
    | some [] => rfl
    | some (f :: fs) => by
      have := evalAll_nf P d (f :: fs)
      simp only [nfOptList, nfList, evalAllOpt] at this ⊢
      exact this
  theorem evalAll_nf (P : Params) (d : JVal) : ∀ fs : List Flt, evalAll P d (nfList fs) = evalAll P d fs
    | [] => rfl
    | f :: fs => by simp only [nfList, evalAll, evalRef_nf P d f, evalAll_nf P d fs]
  theorem evalAnyOpt_nf (P : Params) (d : JVal) :
      ∀ o : Option (List Flt), evalAnyOpt P d (nfOptList o) = evalAnyOpt P d o
    | none => rfl
    | some [] => rfl
    | some (f :: fs) => by
      have := evalAny_nf P d (f :: fs)
      simp only [nfOptList, nfList, evalAnyOpt] at this ⊢
      exact this
  theorem evalAny_nf (P : Params) (d : JVal) : ∀ fs : List Flt, evalAny P d (nfList fs) = evalAny P d fs
    | [] => rfl
    | f :: fs => by simp only [nfList, evalAny, evalRef_nf P d f, evalAny_nf P d fs]
end

/-- the roots of the flattened atoms are the roots of the atoms -/
theorem roots_flatten (atoms : List (String × JVal)) (r : String) :
    r ∈ (flatten atoms).map (fun kv => rootOf kv.1) ↔ r ∈ atoms.map (fun kv => rootOf kv.1) := by
  simp only [List.mem_map]
  constructor
  · rintro ⟨kv, hkv, rfl⟩
    obtain ⟨a, ha, e⟩ := flatten_root atoms kv hkv
    exact ⟨a, ha, e.symm⟩
  · rintro ⟨a, ha, rfl⟩
    obtain ⟨k, v⟩ := a
    -- the atom contributes at least one flattened entry, with the same root
    cases hfl : flattenVal k v with
    | nil => exact absurd hfl (flattenVal_ne_nil v k)
    | cons kv rest =>
      have hmem : ∀ (l : List (String × JVal)), (k, v) ∈ l → kv ∈ flatten l := by
        intro l
        induction l with
        | nil => intro h; cases h
        | cons x xs ih =>
          intro h
          obtain ⟨k', v'⟩ := x
          simp only [flatten, List.mem_append]
          rcases List.mem_cons.mp h with e | h
          · simp only [Prod.mk.injEq] at e
            rw [← e.1, ← e.2, hfl]
            exact Or.inl List.mem_cons_self
          · exact Or.inr (ih h)
      have hmem := hmem atoms ha
      exact ⟨kv, hmem, flattenVal_root v k kv (by rw [hfl]; exact List.mem_cons_self)⟩

mutual
  theorem rootKeys_nf (r : String) : ∀ f : Flt, r ∈ rootKeys (nf f) ↔ r ∈ rootKeys f
    | .mk atoms n a o => by
      simp only [nf, rootKeys, List.mem_append, roots_flatten, rootKeysOpt_nf r n,
        rootKeysOptList_nf r a, rootKeysOptList_nf r o]
  theorem rootKeysOpt_nf (r : String) : ∀ n : Option Flt, r ∈ rootKeysOpt (nfOpt n) ↔ r ∈ rootKeysOpt n
    | none => Iff.rfl
    | some f => by simp only [nfOpt, rootKeysOpt, rootKeys_nf r f]
  theorem rootKeysOptList_nf (r : String) :
      ∀ a : Option (List Flt), r ∈ rootKeysOptList (nfOptList a) ↔ r ∈ rootKeysOptList a
    | none => Iff.rfl
    | some fs => by simp only [nfOptList, rootKeysOptList, rootKeysList_nf r fs]
  theorem rootKeysList_nf (r : String) : ∀ fs : List Flt, r ∈ rootKeysList (nfList fs) ↔ r ∈ rootKeysList fs
    | [] => Iff.rfl
    | f :: fs => by simp only [nfList, rootKeysList, List.mem_append, rootKeys_nf r f, rootKeysList_nf r fs]
end

theorem includeDoc_nf (f : Flt) : includeDoc (nf f) = includeDoc f := by
  rw [Bool.eq_iff_iff]
  simp only [includeDoc, List.contains_iff_mem]
  exact rootKeys_nf "doc" f

/-- `_find_job_ids` sees a filter only through its flattened normal form -/
theorem findFlt_nf (P : Params) (c : Corpus) (f : Flt) : findFlt P c (nf f) = findFlt P c f := by
  simp only [findFlt, includeDoc_nf, findResult_nf]

/-- two spellings with the same normal form select the same jobs (and raise the same
    exceptions), for every corpus; the reference evaluator agrees on them as well -/
theorem same_nf_same_result {f g : Flt} (h : nf f = nf g) (P : Params) :
    (∀ c, findFlt P c f = findFlt P c g) ∧ ∀ d, evalRef P d f = evalRef P d g :=
  ⟨fun c => by rw [← findFlt_nf, h, findFlt_nf], fun d => by rw [← evalRef_nf, h, evalRef_nf]⟩

/-! ### the rewriting rules between spellings -/

theorem flattenKVs_eq_map (k : String) : ∀ kvs : List (String × JVal),
    flattenKVs k kvs = flatten (kvs.map (fun kv => (k ++ "." ++ kv.1, kv.2)))
  | [] => rfl
  | (k2, v) :: rest => by simp only [flattenKVs, List.map_cons, flatten, flattenKVs_eq_map k rest]

/-- nested mapping = dotted keys: `{k: {k2: v, …}}` flattens like `{"k.k2": v, …}`; with an operator
    as `k2` this is also "operator as nested mapping = operator as key suffix" -/
theorem flatten_nested (k : String) (kv : String × JVal) (rest : List (String × JVal)) :
    flatten [(k, .obj (kv :: rest))] = flatten ((kv :: rest).map (fun p => (k ++ "." ++ p.1, p.2))) := by
  simp only [flatten, flattenVal, List.append_nil]
  exact flattenKVs_eq_map k (kv :: rest)

theorem toList_sp_dot (k : String) : ("sp." ++ k).toList = 's' :: 'p' :: '.' :: k.toList := by
  rw [String.toList_append]; rfl

theorem toList_doc_dot (k : String) : ("doc." ++ k).toList = 'd' :: 'o' :: 'c' :: '.' :: k.toList := by
  rw [String.toList_append]; rfl

/-- a key that already carries the `sp.` prefix is left alone -/
theorem prefixKey_sp (k : String) : prefixKey ("sp." ++ k) = "sp." ++ k := by
  unfold prefixKey
  simp only [toList_sp_dot, headNode]
  have h1 : (('s' :: 'p' :: '.' :: k.toList).contains '.') = true := by simp
  have h2 : String.ofList (List.takeWhile (fun x => x != '.') ('s' :: 'p' :: '.' :: k.toList)) = "sp" := by
    simp [List.takeWhile]
  simp

theorem prefixKey_doc (k : String) : prefixKey ("doc." ++ k) = "doc." ++ k := by
  unfold prefixKey
  simp only [toList_doc_dot, headNode]
  have h1 : (('d' :: 'o' :: 'c' :: '.' :: k.toList).contains '.') = true := by simp
  have h2 : String.ofList (List.takeWhile (fun x => x != '.') ('d' :: 'o' :: 'c' :: '.' :: k.toList)) = "doc" := by
    simp [List.takeWhile]
  simp

/-- the `sp.` prefix is optional: a key without a namespace of its own means the same with it -/
theorem prefixKey_optional (k : String) (h : prefixKey k = "sp." ++ k) :
    prefixKey ("sp." ++ k) = prefixKey k := by rw [prefixKey_sp, h]

/-- when a key has no namespace of its own -/
theorem prefixKey_plain (k : String)
    (h1 : ¬ (k.toList.contains '.' = true ∧ (rootOf k = "sp" ∨ rootOf k = "doc")))
    (h2 : k ≠ "sp" ∧ k ≠ "doc") : prefixKey k = "sp." ++ k := by
  unfold prefixKey
  simp only [rootOf] at h1
  simp only [Bool.and_eq_true, Bool.or_eq_true, decide_eq_true_eq]
  rw [if_neg h1, if_neg (by simpa [not_or] using h2)]

/-! ### cursor = its id list -/

theorem filterMap_ext {α β : Type} {f g : α → Option β} : ∀ (l : List α), (∀ x ∈ l, f x = g x) →
    l.filterMap f = l.filterMap g
  | [], _ => rfl
  | x :: xs, h => by
    simp only [List.filterMap_cons, h x List.mem_cons_self,
      filterMap_ext xs (fun y hy => h y (List.mem_cons_of_mem _ hy))]

theorem range_filterMap_getElem {α : Type} : ∀ (ids : List α),
    (List.range ids.length).filterMap (fun k => ids[k]?) = ids
  | [] => rfl
  | x :: xs => by
    simp only [List.length_cons, List.range_succ_eq_map, List.filterMap_cons, List.getElem?_cons_zero,
      List.filterMap_map]
    congr 1
    have := range_filterMap_getElem xs
    conv_rhs => rw [← this]
    apply filterMap_ext
    intro k _
    simp

/-- `cursor[:]` yields the ids in order -/
theorem slice_all (ids : List JobId) : Cursor.slice ids none none none = some ids := by
  simp only [Cursor.slice, Cursor.sliceIdx]
  simp
  conv_rhs => rw [← range_filterMap_getElem ids]
  apply filterMap_ext
  intro k _
  have : ¬ ((k : Int) < 0) := by omega
  simp [this]

/-- a zero step is a ValueError -/
theorem slice_step_zero (ids : List JobId) (a b : Option Int) : Cursor.slice ids a b (some 0) = none := by
  simp [Cursor.slice, Cursor.sliceIdx]

/-- whatever a slice yields is among the cursor's ids -/
theorem slice_mem {ids xs : List JobId} {a b s : Option Int} (h : Cursor.slice ids a b s = some xs) :
    ∀ x ∈ xs, x ∈ ids := by
  unfold Cursor.slice at h
  cases hi : Cursor.sliceIdx ids.length a b s with
  | none => rw [hi] at h; cases h
  | some is =>
    rw [hi] at h
    simp only [Option.some.injEq] at h
    subst h
    intro x hx
    obtain ⟨i, _, hix⟩ := List.mem_filterMap.mp hx
    split at hix
    · cases hix
    · exact List.mem_of_getElem? hix

/-- `cursor[i]` for `0 ≤ i`: the i-th id, IndexError beyond the end -/
theorem getitem_nat (ids : List JobId) (i : Nat) : Cursor.getitem ids (i : Int) = ids[i]? := by
  unfold Cursor.getitem Cursor.norm
  have h0 : ¬ ((i : Int) < 0) := by omega
  simp only [h0, if_false]
  by_cases h : i < ids.length
  · have : (0 : Int) ≤ i ∧ (i : Int) < (ids.length : Int) := ⟨by omega, by omega⟩
    simp [this]
  · have : ¬ ((0 : Int) ≤ i ∧ (i : Int) < (ids.length : Int)) := by omega
    simp only [this, if_false]
    exact (List.getElem?_eq_none (by omega)).symm

/-- `cursor[-k]` for `k > 0`: counted from the end, IndexError before the start -/
theorem getitem_neg (ids : List JobId) (k : Nat) (hk : 0 < k) :
    Cursor.getitem ids (-(k : Int)) = if k ≤ ids.length then ids[ids.length - k]? else none := by
  unfold Cursor.getitem Cursor.norm
  have h0 : (-(k : Int)) < 0 := by omega
  simp only [h0, if_true]
  by_cases h : k ≤ ids.length
  · have : (0 : Int) ≤ -(k : Int) + (ids.length : Int) ∧ -(k : Int) + (ids.length : Int) < (ids.length : Int) :=
      ⟨by omega, by omega⟩
    simp only [this, and_self, if_true, h]
    congr 1
    omega
  · have : ¬ ((0 : Int) ≤ -(k : Int) + (ids.length : Int) ∧ -(k : Int) + (ids.length : Int) < (ids.length : Int)) := by
      omega
    simp only [this, if_false, h]

theorem contains_iff (ids : List JobId) (j : JobId) : Cursor.contains ids j = true ↔ j ∈ ids := by
  simp [Cursor.contains]

/-! ### command line syntax -/

/-- the dual lookup makes `a 4` and `a 4.0` the same query: a plain key is looked up through the
    integer the value denotes, whatever its numeric type -/
theorem findExpression_intValued {P : Params} {docs : List (JobId × JVal)} {k : String} {v v' : JVal}
    (hk : ∃ nodes, analyseKey k = .plain nodes) {n : Int} (h : intValued v = some n) (h' : intValued v' = some n) :
    findExpression P docs k v = findExpression P docs k v' := by
  obtain ⟨nodes, hk⟩ := hk
  simp only [findExpression, hk, h, h']

end Signac.Query

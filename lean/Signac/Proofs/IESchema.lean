/-
  Helper lemmas for C16: a schema string parses back the path layout it describes
  (ints, word-like strings, bools; floats under the hypothesis `float(repr x) = x`).
-/
import Signac.ImportExport
namespace Signac.IE
open Signac

/-- the values the fields of a schema pick out of a state point, in schema order -/
def fieldVals : List SComp → JVal → List (String × JVal)
  | [], _ => []
  | .lit _ :: rest, sp => fieldVals rest sp
  | .fld k _ :: rest, sp =>
    match getPath (splitOnChar '.' k) sp with
    | some v => (k, v) :: fieldVals rest sp
    | none => fieldVals rest sp

/-- a value that a field of type `ty` can carry through a path -/
def Representable : FType → JVal → Prop
  | .int, v => ∃ i, v = .int i
  | .bool, v => ∃ b, v = .bool b
  | .str, v => ∃ s, v = .str s ∧ matchWord s.toList = true
  | .float, v => ∃ n e r, v = .flt n e r ∧ matchFloat r.toList = true ∧ convFloat r.toList = .flt n e r

theorem stripSign_digits {cs : List Char} (h : ∀ c ∈ cs, c.isDigit = true) :
    stripSign cs = cs ∧ isNeg cs = false := by
  cases cs with
  | nil => exact ⟨rfl, rfl⟩
  | cons c r =>
    have hc := h c List.mem_cons_self
    have h1 : c ≠ '+' := by intro hx; subst hx; exact absurd hc (by decide)
    have h2 : c ≠ '-' := by intro hx; subst hx; exact absurd hc (by decide)
    constructor
    · unfold stripSign
      split
      · rename_i heq; cases heq; exact absurd rfl h1
      · rename_i heq; cases heq; exact absurd rfl h2
      · rfl
    · unfold isNeg
      split
      · rename_i heq; cases heq; exact absurd rfl h2
      · rfl

theorem digits_all (m : Nat) : ∀ c ∈ Nat.toDigits 10 m, c.isDigit = true :=
  fun _ hc => Nat.isDigit_of_mem_toDigits (by decide) (by decide) hc

theorem int_roundtrip (i : Int) :
    matchInt (toString i).toList = true ∧ convInt (toString i).toList = i := by
  cases i with
  | ofNat m =>
    have hs : (toString (Int.ofNat m)).toList = Nat.toDigits 10 m := by
      show (Int.repr (Int.ofNat m)).toList = _
      simp [Int.repr]
    rw [hs]
    have hd := digits_all m
    have hstrip := stripSign_digits hd
    constructor
    · simp only [matchInt, hstrip.1, Bool.and_eq_true, Bool.not_eq_eq_eq_not, Bool.not_true,
        List.isEmpty_eq_false_iff, List.all_eq_true]
      exact ⟨Nat.toDigits_ne_nil, hd⟩
    · simp only [convInt, hstrip.1, hstrip.2, Nat.ofDigitChars_ten_toDigits, Bool.false_eq_true, if_false]
      rfl
  | negSucc m =>
    have hs : (toString (Int.negSucc m)).toList = '-' :: Nat.toDigits 10 (m + 1) := by
      show (Int.repr (Int.negSucc m)).toList = _
      simp [Int.repr, String.toList_append]
    rw [hs]
    have hd := digits_all (m + 1)
    constructor
    · simp only [matchInt, stripSign, Bool.and_eq_true, Bool.not_eq_eq_eq_not, Bool.not_true,
        List.isEmpty_eq_false_iff, List.all_eq_true]
      exact ⟨Nat.toDigits_ne_nil, hd⟩
    · simp only [convInt, stripSign, isNeg, Nat.ofDigitChars_ten_toDigits, if_true]
      rfl

theorem bool_roundtrip (b : Bool) :
    matchWord (pyStr (.bool b)).toList = true ∧ convBool (pyStr (.bool b)).toList = b := by
  cases b <;> exact ⟨by decide, by decide⟩

/-- one field: the text `str(v)` is accepted by the field's pattern and converts back to `v` -/
theorem field_roundtrip {ty : FType} {v : JVal} (h : Representable ty v) :
    matchType ty (pyStr v).toList = true ∧ convType ty (pyStr v).toList = v := by
  cases ty with
  | int =>
    rcases h with ⟨i, rfl⟩
    have := int_roundtrip i
    exact ⟨this.1, by simp only [convType, pyStr, this.2]⟩
  | bool =>
    rcases h with ⟨b, rfl⟩
    have := bool_roundtrip b
    exact ⟨this.1, by simp only [convType, this.2]⟩
  | str =>
    rcases h with ⟨s, rfl, hw⟩
    exact ⟨hw, by simp only [convType, pyStr, String.ofList_toList]⟩
  | float =>
    rcases h with ⟨n, e, r, rfl, hm, hc⟩
    exact ⟨hm, by simp only [convType, pyStr, hc]⟩

theorem not_obj_arr_of_representable {ty : FType} {v : JVal} (h : Representable ty v) :
    (∀ kvs, v ≠ .obj kvs) ∧ (∀ xs, v ≠ .arr xs) := by
  cases ty with
  | int => rcases h with ⟨i, rfl⟩; exact ⟨fun _ h => (nomatch h), fun _ h => (nomatch h)⟩
  | bool => rcases h with ⟨i, rfl⟩; exact ⟨fun _ h => (nomatch h), fun _ h => (nomatch h)⟩
  | str => rcases h with ⟨i, rfl, _⟩; exact ⟨fun _ h => (nomatch h), fun _ h => (nomatch h)⟩
  | float => rcases h with ⟨n, e, r, rfl, _⟩; exact ⟨fun _ h => (nomatch h), fun _ h => (nomatch h)⟩

/-- every field of the schema addresses a representable value of the state point -/
def AllRepresentable (sc : List SComp) (sp : JVal) : Prop :=
  ∀ k ty, SComp.fld k ty ∈ sc → ∃ v, getPath (splitOnChar '.' k) sp = some v ∧ Representable ty v

theorem formatPath_some (sc : List SComp) (sp : JVal) (h : AllRepresentable sc sp) :
    ∃ cs, formatPath sc sp = some cs := by
  induction sc with
  | nil => exact ⟨[], rfl⟩
  | cons c rest ih =>
    have hrest : AllRepresentable rest sp := fun k ty hm => h k ty (List.mem_cons_of_mem _ hm)
    rcases ih hrest with ⟨cs, hcs⟩
    cases c with
    | lit s => exact ⟨s :: cs, by simp [formatPath, hcs]⟩
    | fld k ty =>
      rcases h k ty List.mem_cons_self with ⟨v, hv, hr⟩
      have hno := not_obj_arr_of_representable hr
      refine ⟨pyStr v :: cs, ?_⟩
      unfold formatPath
      rw [hv]
      cases v with
      | obj kvs => exact absurd rfl (hno.1 kvs)
      | arr xs => exact absurd rfl (hno.2 xs)
      | null => simp [hcs]
      | bool b => simp [hcs]
      | int i => simp [hcs]
      | flt n e r => simp [hcs]
      | str s => simp [hcs]

theorem parseFlat_formatPath (sc : List SComp) (sp : JVal) (h : AllRepresentable sc sp) :
    ∀ cs, formatPath sc sp = some cs → parseFlat sc cs = some (fieldVals sc sp) := by
  induction sc with
  | nil =>
    intro cs hcs
    simp only [formatPath, Option.some.injEq] at hcs
    subst hcs
    rfl
  | cons c rest ih =>
    have hrest : AllRepresentable rest sp := fun k ty hm => h k ty (List.mem_cons_of_mem _ hm)
    intro cs hcs
    cases c with
    | lit s =>
      unfold formatPath at hcs
      cases hr : formatPath rest sp with
      | none => simp [hr] at hcs
      | some cs' =>
        simp only [hr, Option.map_some, Option.some.injEq] at hcs
        subst hcs
        simp only [parseFlat, if_true, fieldVals]
        exact ih hrest cs' hr
    | fld k ty =>
      rcases h k ty List.mem_cons_self with ⟨v, hv, hrep⟩
      have hno := not_obj_arr_of_representable hrep
      have hfr := field_roundtrip hrep
      unfold formatPath at hcs
      rw [hv] at hcs
      cases hr : formatPath rest sp with
      | none =>
        cases v <;> simp [hr] at hcs
      | some cs' =>
        have hcs' : cs = pyStr v :: cs' := by
          cases v with
          | obj kvs => exact absurd rfl (hno.1 kvs)
          | arr xs => exact absurd rfl (hno.2 xs)
          | null => simpa [hr] using hcs.symm
          | bool b => simpa [hr] using hcs.symm
          | int i => simpa [hr] using hcs.symm
          | flt n e r => simpa [hr] using hcs.symm
          | str s => simpa [hr] using hcs.symm
        subst hcs'
        simp only [parseFlat, hfr.1, if_true, ih hrest cs' hr, fieldVals, hv, hfr.2]

/-! ### the flat case: the parsed value IS the state point -/

theorem splitC_no_sep (sep : Char) : ∀ (s : List Char), sep ∉ s → splitC sep s = [s]
  | [], _ => rfl
  | c :: cs, h => by
    have hc : c ≠ sep := fun hx => h (hx ▸ List.mem_cons_self)
    have hcs : sep ∉ cs := fun hx => h (List.mem_cons_of_mem _ hx)
    simp only [splitC, hc, if_false, splitC_no_sep sep cs hcs]

theorem splitOnChar_no_dot {k : String} (h : '.' ∉ k.toList) : splitOnChar '.' k = [k] := by
  simp only [splitOnChar, splitC_no_sep '.' k.toList h, List.map_cons, List.map_nil, String.ofList_toList]

theorem getPath_single (k : String) (kvs : List (String × JVal)) :
    getPath [k] (.obj kvs) = lookupKV k kvs := by
  simp only [getPath]
  cases lookupKV k kvs <;> rfl

def fldKey : SComp → Option String
  | .fld k _ => some k
  | .lit _ => none

theorem lookupKV_nodup : ∀ (pre kvs : List (String × JVal)) (k : String) (v : JVal),
    k ∉ pre.map (·.1) → lookupKV k (pre ++ (k, v) :: kvs) = some v
  | [], kvs, k, v, _ => by simp [lookupKV]
  | (k', v') :: pre, kvs, k, v, h => by
    have hne : k ≠ k' := fun hx => h (by simp [hx])
    have hpre : k ∉ pre.map (·.1) := fun hx => h (by simp [hx])
    simp only [List.cons_append, lookupKV, hne, if_false]
    exact lookupKV_nodup pre kvs k v hpre

/-- with the fields being exactly the keys of a flat state point, `fieldVals` returns its entries -/
theorem fieldVals_flat (all : List (String × JVal)) (hnodot : ∀ kv ∈ all, '.' ∉ kv.1.toList) :
    ∀ (sc : List SComp) (pre kvs : List (String × JVal)), all = pre ++ kvs →
      (all.map (·.1)).Nodup → sc.filterMap fldKey = kvs.map (·.1) →
      fieldVals sc (.obj all) = kvs := by
  intro sc
  induction sc with
  | nil =>
    intro pre kvs _ _ hk
    simp only [List.filterMap_nil] at hk
    have : kvs = [] := List.map_eq_nil_iff.mp hk.symm
    subst this
    rfl
  | cons c rest ih =>
    intro pre kvs hall hnd hk
    cases c with
    | lit s =>
      simp only [List.filterMap_cons, fldKey] at hk
      simp only [fieldVals]
      exact ih pre kvs hall hnd hk
    | fld k ty =>
      simp only [List.filterMap_cons, fldKey] at hk
      cases kvs with
      | nil => simp at hk
      | cons kv kvs' =>
        obtain ⟨k', v⟩ := kv
        simp only [List.map_cons, List.cons.injEq] at hk
        obtain ⟨hkk, hk'⟩ := hk
        subst hkk
        have hmem : (k, v) ∈ all := by rw [hall]; simp
        have hpre : k ∉ pre.map (·.1) := by
          rw [hall, List.map_append, List.nodup_append] at hnd
          intro hx
          exact hnd.2.2 k hx k (by simp) rfl
        have hlook : getPath (splitOnChar '.' k) (.obj all) = some v := by
          rw [splitOnChar_no_dot (hnodot (k, v) hmem), getPath_single, hall]
          exact lookupKV_nodup pre kvs' k v hpre
        simp only [fieldVals, hlook]
        congr 1
        exact ih (pre ++ [(k, v)]) kvs' (by rw [hall]; simp) hnd hk'

theorem nestFlat_flat : ∀ (rest acc : List (String × JVal)),
    ((acc ++ rest).map (·.1)).Nodup → (∀ kv ∈ rest, '.' ∉ kv.1.toList) →
    nestFlat rest acc = some (acc ++ rest)
  | [], acc, _, _ => by simp [nestFlat]
  | (k, v) :: rest, acc, hnd, hnodot => by
    have hk : '.' ∉ k.toList := hnodot (k, v) List.mem_cons_self
    have hfresh : acc.any (fun kv => decide (kv.1 = k)) = false := by
      rw [List.any_eq_false]
      intro kv hkv hdec
      simp only [decide_eq_true_eq] at hdec
      rw [List.map_append, List.nodup_append] at hnd
      exact hnd.2.2 kv.1 (List.mem_map.mpr ⟨kv, hkv, rfl⟩) k (by simp) hdec
    have hins : nestInsert (splitOnChar '.' k) v acc = some (acc ++ [(k, v)]) := by
      rw [splitOnChar_no_dot hk]
      simp only [nestInsert, hfresh, Bool.false_eq_true, if_false]
    simp only [nestFlat, hins]
    have := nestFlat_flat rest (acc ++ [(k, v)]) (by simpa [List.append_assoc] using hnd)
      (fun kv hkv => hnodot kv (List.mem_cons_of_mem _ hkv))
    rw [this]
    simp

end Signac.IE

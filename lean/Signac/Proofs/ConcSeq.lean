/-
  Proofs/ConcSeq — statements about final states of the C12 model: every job directory ends up
  with its state point file (`check()` passes), documents equal the sequential outcome, the set of
  jobs is the requested one, and a sequential schedule completes.
-/
import Signac.Proofs.ConcTrans
namespace Signac.Conc
variable {SP DV : Type} {hash : SP → JobId}

/-! ### every job directory gets its state point file -/

/-- actor is past the creation of the job directory `i` and has not yet seen / published the
    state point file: it is committed to make sure the file exists -/
def committed (hash : SP → JobId) (i : JobId) : Phase SP DV → Prop
  | .ini .isdir2 v => hash v = i
  | .ini .isfile v => hash v = i
  | .save _ j .sp _ => j = i
  | _ => False

/-- no orphan job directory: the state point file is there, or somebody is committed to it -/
def DirOwner (hash : SP → JobId) (s : Sys SP DV) : Prop :=
  ∀ i, IsDir s.fs (.jobdir i) →
    IsFile s.fs (.file i .sp) ∨ ∃ (a : Nat) (st : AState SP DV), s.actors[a]? = some st ∧ committed hash i st.phase

theorem next_writes_jobdir {a : Nat} {st : AState SP DV} {ins : Instr SP DV} {i : JobId}
    (hn : next hash a st = some ins) (hw : writes ins (.jobdir i)) :
    ∃ v, st.phase = .ini .mkdir v ∧ hash v = i := by
  cases hph : st.phase with
  | fin => simp [next, hph] at hn
  | proj n => cases n <;> simp only [next, hph, Option.some.injEq] at hn <;> subst hn <;> simp [writes] at hw
  | lite v => simp only [next, hph, Option.some.injEq] at hn; subst hn; simp [writes] at hw
  | ini n v =>
    cases n <;> simp only [next, hph, Option.some.injEq] at hn <;> subst hn <;> simp [writes] at hw
    exact ⟨v, rfl, hw.symm⟩
  | dload v => simp only [next, hph, Option.some.injEq] at hn; subst hn; simp [writes] at hw
  | len => simp only [next, hph, Option.some.injEq] at hn; subst hn; simp [writes] at hw
  | save n j k' c =>
    cases n <;> simp only [next, hph, Option.some.injEq] at hn <;> subst hn <;> simp [writes] at hw

theorem set_self {l : List (AState SP DV)} {b : Nat} {x st : AState SP DV} (h : l[b]? = some st) :
    (l.set b x)[b]? = some x := by
  have := (List.getElem?_eq_some_iff.1 h).1
  simp [this]

theorem set_other {l : List (AState SP DV)} {a b : Nat} (x : AState SP DV) (h : a ≠ b) :
    (l.set b x)[a]? = l[a]? := by
  simp only [List.getElem?_set]
  split
  · rename_i e; exact absurd e.symm h
  · rfl

theorem dirOwner_step {s : Sys SP DV} (h : SysInv hash s) (ho : DirOwner hash s) (b : Nat) :
    DirOwner hash (sysStep hash s b) := by
  cases hst : s.actors[b]? with
  | none => rw [sysStep_idle_none hst]; exact ho
  | some st =>
  cases hn : next hash b st with
  | none => rw [sysStep_idle_fin hst hn]; exact ho
  | some ins =>
  rw [sysStep_eq hst hn]
  have hinv := h.actors b st hst
  obtain ⟨_, hG, _⟩ := step_own h.fs hinv hn
  intro i hd'
  simp only at hd' ⊢
  by_cases hd : IsDir s.fs (.jobdir i)
  · rcases ho i hd with hf | ⟨a, sta, hsta, hc⟩
    · exact Or.inl (hG.files _ _ hf)
    · by_cases hab : a = b
      · subst hab
        rw [hst] at hsta; cases hsta
        cases hph : st.phase with
        | ini n v =>
          rw [hph] at hc
          cases n <;> simp only [committed] at hc
          · -- isdir2
            simp only [next, hph, Option.some.injEq] at hn; subst hn
            obtain ⟨e1, e2⟩ := tr_ini_isdir2 hinv hph
            rw [e1]; simp only [e2]
            exact Or.inr ⟨a, _, set_self hst, by simpa [AState.goto, committed] using hc⟩
          · -- isfile
            simp only [next, hph, Option.some.injEq] at hn; subst hn
            by_cases hfile : IsFile s.fs (.file (hash v) .sp)
            · obtain ⟨e1, _⟩ := tr_ini_isfile_T (hash := hash) hph hfile
              rw [e1]; exact Or.inl (hc ▸ hfile)
            · obtain ⟨e1, e2⟩ := tr_ini_isfile_F (hash := hash) hph hfile
              rw [e1]; simp only [e2]
              exact Or.inr ⟨a, _, set_self hst, by simpa [AState.goto, committed] using hc⟩
        | save n j k c =>
          rw [hph] at hc
          cases k with
          | doc => simp [committed] at hc
          | sp =>
            simp only [committed] at hc; subst hc
            cases n
            · simp only [next, hph, Option.some.injEq] at hn; subst hn
              obtain ⟨e1, e2⟩ := tr_save_openw h.fs hinv hph
              rw [e1]; simp only [e2]
              exact Or.inr ⟨a, _, set_self hst, by simp [AState.goto, committed]⟩
            · simp only [next, hph, Option.some.injEq] at hn; subst hn
              obtain ⟨e1, e2⟩ := tr_save_write hinv hph
              rw [e1]; simp only [e2]
              exact Or.inr ⟨a, _, set_self hst, by simp [AState.goto, committed]⟩
            · simp only [next, hph, Option.some.injEq] at hn; subst hn
              obtain ⟨e1, e2⟩ := tr_save_close (hash := hash) (fs := s.fs) (a := a) hph
              rw [e1]; simp only [e2]
              exact Or.inr ⟨a, _, set_self hst, by simp [AState.goto, committed]⟩
            · simp only [next, hph, Option.some.injEq] at hn; subst hn
              rw [tr_save_rename h.fs hinv hph]
              exact Or.inl ⟨c, by simp [get_set]⟩
        | fin => simp [hph, committed] at hc
        | proj n => simp [hph, committed] at hc
        | lite v => simp [hph, committed] at hc
        | dload v => simp [hph, committed] at hc
        | len => simp [hph, committed] at hc
      · exact Or.inr ⟨a, sta, by rw [set_other _ hab]; exact hsta, hc⟩
  · -- the directory has just been created: by `mkdir` of the init in progress
    have hw : writes ins (.jobdir i) := by
      apply Classical.byContradiction
      intro hnw
      apply hd
      have := exec_frame s.fs ins (.jobdir i) hnw
      simpa [IsDir, this] using hd'
    obtain ⟨v, hph, rfl⟩ := next_writes_jobdir hn hw
    simp only [next, hph, Option.some.injEq] at hn; subst hn
    cases hg : s.fs.get (.jobdir (hash v)) with
    | some n => exact absurd (jd_node h.fs hg) hd
    | none =>
      obtain ⟨e1, e2⟩ := tr_ini_mkdir_new hinv hph hg
      rw [e1]; simp only [e2]
      exact Or.inr ⟨b, _, set_self hst, by simp [AState.goto, committed]⟩

theorem dirOwner_run {s : Sys SP DV} (h : SysInv hash s) (ho : DirOwner hash s) (sched : List Nat) :
    DirOwner hash (run hash s sched) := by
  induction sched generalizing s with
  | nil => exact ho
  | cons a rest ih => exact ih (sysStep_inv_guar h a).1 (dirOwner_step h ho a)

/-- when everybody is done, every job directory holds a complete state point file that hashes
    to the directory name: this is what `Project.check()` verifies -/
theorem done_check_passes {s : Sys SP DV} (h : SysInv hash s) (ho : DirOwner hash s) (hd : AllDone s)
    (i : JobId) (hdir : IsDir s.fs (.jobdir i)) :
    ∃ v, s.fs.get (.file i .sp) = some (.file (.spc v)) ∧ hash v = i := by
  rcases ho i hdir with ⟨c, hc⟩ | ⟨a, st, hst, hcm⟩
  · obtain ⟨v, hv, hh⟩ := (files_valid h i).1 _ hc
    cases hv
    exact ⟨v, hc, hh⟩
  · rw [hd st (List.mem_of_getElem? hst)] at hcm
    exact absurd hcm (by simp [committed])

/-! ### documents: the sequential outcome -/

/-- one logical write to a job document: `doc[k] = x`, or the whole-document assignment `doc = d` -/
inductive DocW (DV : Type) where
  | set (k : String) (x : DV)
  | assign (d : Doc DV)

/-- the document after one write: an assignment makes the document BE `d`, whatever it was -/
def applyW (d : Doc DV) : DocW DV → Doc DV
  | .set k x => setKV d k x
  | .assign d' => d'

/-- the write an operation performs on the document of job `i` (if any) -/
def writeOn (hash : SP → JobId) (i : JobId) : Op SP DV → Option (DocW DV)
  | .docSet v k x => if hash v = i then some (.set k x) else none
  | .docAssign v d => if hash v = i then some (.assign d) else none
  | _ => none

/-- the writes (`doc[k] = x` and `doc = d`) on job `i` still to be completed by a script, in
    program order -/
def pendingSets (hash : SP → JobId) (i : JobId) (s : List (Op SP DV)) : List (DocW DV) :=
  s.filterMap (writeOn hash i)

def applySets (d : Doc DV) : List (DocW DV) → Doc DV
  | [] => d
  | w :: r => applySets (applyW d w) r

def isDocSave : Phase SP DV → Bool
  | .save _ _ .doc _ => true
  | _ => false

def asgHead : List (Op SP DV) → Bool
  | .docAssign _ _ :: _ => true
  | _ => false

/-- a state that is in a document save it has just entered without loading is assigning -/
def DS (st : AState SP DV) : Prop := isDocSave st.phase = true → asgHead st.script = true

theorem firstPhase_not_docsave (op : Op SP DV) : isDocSave (firstPhase op) = false := by
  cases op <;> rfl

theorem finishOp_not_docsave (st : AState SP DV) : isDocSave (finishOp st).phase = false := by
  simp only [finishOp, startNext]; split
  · rfl
  · exact firstPhase_not_docsave _

theorem ds_of_not {st : AState SP DV} (h : isDocSave st.phase = false) : DS st := by
  intro h'; rw [h] at h'; cases h'

theorem ds_finishOp (st : AState SP DV) : DS (finishOp st) := ds_of_not (finishOp_not_docsave st)

theorem ds_afterInit (st : AState SP DV) (v : SP) : DS (afterInit hash st v) := by
  unfold afterInit; split
  · exact ds_of_not rfl
  · exact ds_of_not rfl
  · rename_i heq; intro _; simp only [AState.goto, heq, asgHead]
  · exact ds_finishOp _

theorem ds_docStart (st : AState SP DV) (v : SP) : DS (docStart hash st v) := by
  unfold docStart; split
  · rename_i heq; intro _; simp only [AState.goto, heq, asgHead]
  · exact ds_of_not rfl

/-- a document save is entered from the document load (`doc[k] = x`), or — by an assignment —
    straight from the directory check / the end of `init`; it is left through its own steps -/
theorem resume_docsave {st : AState SP DV} (r : Res SP DV)
    (h1 : ∀ v, st.phase ≠ .dload v) (h2 : isDocSave st.phase = false) :
    DS (resume hash st r) := by
  cases hph : st.phase with
  | fin => simp only [resume, hph]; exact ds_of_not (by rw [hph]; rfl)
  | proj n =>
    simp only [resume, hph, resumeProj]
    cases n <;> simp only <;> repeat' split
    all_goals first | exact ds_finishOp _ | exact ds_of_not rfl
  | lite v => simp only [resume, hph]; split
              · exact ds_docStart _ _
              · exact ds_of_not rfl
  | ini n v =>
    simp only [resume, hph, resumeIni]
    cases n <;> simp only <;> repeat' split
    all_goals first | exact ds_afterInit _ _ | exact ds_of_not rfl
  | save n i k c =>
    cases k with
    | doc => simp [hph, isDocSave] at h2
    | sp =>
      simp only [resume, hph, resumeSave]
      cases n <;> simp only <;> repeat' split
      all_goals first | exact ds_finishOp _ | exact ds_of_not rfl | (rename_i heq; cases heq) | (rename_i heq _; cases heq)
  | dload v => exact absurd hph (h1 v)
  | len => simp only [resume, hph]; split
           · exact ds_finishOp _
           · exact ds_of_not rfl

theorem finishOp_script (st : AState SP DV) : (finishOp st).script = st.script.tail := by
  simp only [finishOp, startNext]; split <;> rfl

theorem docStart_script (st : AState SP DV) (v : SP) : (docStart hash st v).script = st.script := by
  unfold docStart; split <;> rfl

theorem pendingSets_tail {i : JobId} {s : List (Op SP DV)}
    (h : ∀ op r, s = op :: r → writeOn hash i op = none) :
    pendingSets hash i s.tail = pendingSets hash i s := by
  cases s with
  | nil => rfl
  | cons op r => simp [pendingSets, List.filterMap_cons, h op r rfl]

theorem pendingSets_cons {i : JobId} {op : Op SP DV} {r : List (Op SP DV)} {wr : DocW DV}
    (h : writeOn hash i op = some wr) : pendingSets hash i (op :: r) = wr :: pendingSets hash i r := by
  simp [pendingSets, List.filterMap_cons, h]

theorem pending_afterInit (i : JobId) (st : AState SP DV) (v : SP) :
    pendingSets hash i (afterInit hash st v).script = pendingSets hash i st.script := by
  unfold afterInit; split
  · rfl
  · rfl
  · rfl
  · rename_i h1 h2 h3
    rw [finishOp_script]
    apply pendingSets_tail
    intro op r e
    cases op with
    | docSet w k x => exact absurd e (h1 w k x r)
    | docAssign w d => exact absurd e (h3 w d r)
    | _ => rfl

/-- only the completing rename of a write on job `i` takes that operation off the script -/
theorem pending_resume {st : AState SP DV} {i : JobId} (hh : HeadOk hash st.phase st.script)
    (hnr : ∀ c, st.phase ≠ .save .rename i .doc c) (r : Res SP DV) :
    pendingSets hash i (resume hash st r).script = pendingSets hash i st.script := by
  cases hph : st.phase with
  | fin => simp only [resume, hph]
  | proj n =>
    rw [hph] at hh
    obtain ⟨rest, hs⟩ := hh
    have hfin : pendingSets hash i (finishOp st).script = pendingSets hash i st.script := by
      rw [finishOp_script]; exact pendingSets_tail (fun op r e => by rw [hs] at e; cases e; rfl)
    simp only [resume, hph, resumeProj]
    cases n <;> simp only <;> repeat' split
    all_goals first | exact hfin | rfl
  | lite v => simp only [resume, hph]; split
              · rw [docStart_script]
              · rfl
  | ini n v =>
    simp only [resume, hph, resumeIni]
    cases n <;> simp only <;> repeat' split
    all_goals first | exact pending_afterInit _ _ _ | rfl
  | save n j k c =>
    rw [hph] at hh
    simp only [resume, hph, resumeSave]
    cases k with
    | sp =>
      cases n <;> simp only <;> repeat' split
      all_goals first | rfl | (rename_i heq; cases heq) | (rename_i heq _; cases heq)
    | doc =>
      have hfin : n = .rename → pendingSets hash i (finishOp st).script = pendingSets hash i st.script := by
        intro hn; subst hn
        rw [finishOp_script]
        apply pendingSets_tail
        intro op r' e
        have hji : j ≠ i := fun hji => hnr c (by rw [hph, hji])
        rcases hh with ⟨v, k, x, rest, hs, hv⟩ | ⟨v, d, rest, hs, hv, _⟩
        · rw [hs] at e; cases e
          simp only [writeOn, hv, hji, if_false]
        · rw [hs] at e; cases e
          simp only [writeOn, hv, hji, if_false]
      cases n <;> simp only <;> repeat' split
      all_goals first | exact hfin rfl | rfl | (rename_i heq; cases heq) | (rename_i heq _; cases heq)
  | dload v =>
    rw [hph] at hh
    simp only [resume, hph]
    repeat' split
    all_goals first | rfl | (unfold resumeDload; repeat' split)
    all_goals first
      | rfl
      | (rename_i w rest heq
         show pendingSets hash i (finishOp _).script = _
         rw [finishOp_script]
         exact pendingSets_tail (fun op r e => by simp only at e; rw [heq] at e; cases e; rfl))
  | len =>
    rw [hph] at hh
    obtain ⟨rest, hs⟩ := hh
    simp only [resume, hph]
    split
    · rw [finishOp_script]
      exact pendingSets_tail (fun op r e => by simp only at e; rw [hs] at e; cases e; rfl)
    · rfl

def AllHeadOk (hash : SP → JobId) (s : Sys SP DV) : Prop :=
  ∀ (a : Nat) (st : AState SP DV), s.actors[a]? = some st → HeadOk hash st.phase st.script

theorem allHeadOk_step {s : Sys SP DV} (h : AllHeadOk hash s) (b : Nat) :
    AllHeadOk hash (sysStep hash s b) := by
  cases hst : s.actors[b]? with
  | none => rw [sysStep_idle_none hst]; exact h
  | some st =>
  cases hn : next hash b st with
  | none => rw [sysStep_idle_fin hst hn]; exact h
  | some ins =>
  rw [sysStep_eq hst hn]
  intro a st' ha
  simp only at ha
  by_cases hab : a = b
  · subst hab
    rw [set_self hst] at ha; cases ha
    exact headOk_resume (h a st hst) _
  · rw [set_other _ hab] at ha
    exact h a st' ha

theorem allHeadOk_start (fs : FS SP DV) (scripts : List (List (Op SP DV))) :
    AllHeadOk hash { fs := fs, actors := scripts.map AState.start } := by
  intro a st hst
  simp only [List.getElem?_map] at hst
  cases hs : scripts[a]? with
  | none => simp [hs] at hst
  | some sc =>
    simp only [hs, Option.map_some, Option.some.injEq] at hst
    subst hst; exact headOk_start sc

/-- what actor `w` still has to write into the document of job `i` -/
def wPending (hash : SP → JobId) (i : JobId) (w : Nat) (s : Sys SP DV) : List (DocW DV) :=
  match s.actors[w]? with
  | some st => pendingSets hash i st.script
  | none => []

/-- Invariant for a document with (at most) one writing actor `w`: applying what the writer still
    has to do to the published document always gives the same result `T`; while the writer is
    saving a `doc[k] = x`, its payload is the published document with the pending key set (the
    payload of an assignment is the assigned mapping: part of `HeadOk`). -/
structure DocInv (hash : SP → JobId) (i : JobId) (w : Nat) (T : Doc DV) (s : Sys SP DV) : Prop where
  heads : AllHeadOk hash s
  others : ∀ (a : Nat), a ≠ w → wPending hash i a s = []
  target : applySets (docNow s.fs i) (wPending hash i w s) = T
  saving : ∀ (st : AState SP DV) n c, s.actors[w]? = some st → st.phase = .save n i .doc c →
    ∀ v k x r, st.script = .docSet v k x :: r → c = .docc (setKV (docNow s.fs i) k x)

theorem docNow_congr {f1 f2 : FS SP DV} {i : JobId} (h : f1.get (.file i .doc) = f2.get (.file i .doc)) :
    docNow f1 i = docNow f2 i := by
  simp only [docNow, h]

/-- the payload of a save of the document of job `i` in progress: the published document with the
    write at the head of the writer's script applied -/
theorem saving_payload {s : Sys SP DV} {i : JobId} {w : Nat} {T : Doc DV} (hd : DocInv hash i w T s)
    {b : Nat} {st : AState SP DV} {n : SavePc} {c : Content SP DV}
    (hst : s.actors[b]? = some st) (hph : st.phase = .save n i .doc c) :
    b = w ∧ ∃ op r wr, st.script = op :: r ∧ writeOn hash i op = some wr ∧
      c = .docc (applyW (docNow s.fs i) wr) := by
  have hhead := hd.heads b st hst
  rw [hph] at hhead
  have hbw : b = w := by
    apply Classical.byContradiction
    intro hne
    have := hd.others b hne
    simp only [wPending, hst] at this
    rcases hhead with ⟨v, k, x, r, hs, hv⟩ | ⟨v, d, r, hs, hv, _⟩ <;>
      simp [hs, pendingSets, writeOn, hv] at this
  subst hbw
  refine ⟨rfl, ?_⟩
  rcases hhead with ⟨v, k, x, r, hs, hv⟩ | ⟨v, d, r, hs, hv, hc⟩
  · exact ⟨_, r, .set k x, hs, by simp [writeOn, hv], hd.saving st n c hst hph v k x r hs⟩
  · exact ⟨_, r, .assign d, hs, by simp [writeOn, hv], hc⟩

theorem wPending_other {s : Sys SP DV} {i : JobId} {a b : Nat} (hab : a ≠ b) :
    wPending hash i a (sysStep hash s b) = wPending hash i a s := by
  have : (sysStep hash s b).actors[a]? = s.actors[a]? := by
    cases hst : s.actors[b]? with
    | none => rw [sysStep_idle_none hst]
    | some st =>
    cases hn : next hash b st with
    | none => rw [sysStep_idle_fin hst hn]
    | some ins => rw [sysStep_eq hst hn]; exact set_other _ hab
  simp only [wPending, this]

/-- the completing rename of a save of the document of job `i`: it is the writer's, the published
    document becomes the old one with the head write applied, and that write leaves the script -/
theorem doc_step_rename {s : Sys SP DV} {i : JobId} {w : Nat} {T : Doc DV}
    (h : SysInv hash s) (hd : DocInv hash i w T s) {b : Nat} {st : AState SP DV} {c : Content SP DV}
    (hst : s.actors[b]? = some st) (hph : st.phase = .save .rename i .doc c) :
    b = w ∧ (sysStep hash s b).actors[b]? = some (finishOp st) ∧
    ∃ wr, wPending hash i b s = wr :: wPending hash i b (sysStep hash s b) ∧
      docNow (sysStep hash s b).fs i = applyW (docNow s.fs i) wr := by
  obtain ⟨hbw, op, r, wr, hs, hwr, hc⟩ := saving_payload hd hst hph
  have hinv := h.actors b st hst
  have hn : next hash b st = some (.rename (.tmp i .doc b) (.file i .doc)) := by
    simp only [next, hph]
  have hfs' : (sysStep hash s b).fs.get (.file i .doc) = some (.file c) := rename_publishes h hst hph
  have hact : (sysStep hash s b).actors[b]? = some (finishOp st) := by
    rw [sysStep_eq hst hn, tr_save_rename h.fs hinv hph]
    simp only [tr_save_rename_doc (hash := hash) hph]
    exact set_self hst
  refine ⟨hbw, hact, wr, ?_, ?_⟩
  · simp only [wPending, hst, hact, finishOp_script, hs, List.tail_cons]
    exact pendingSets_cons hwr
  · simp only [docNow, hfs', hc]

/-- any other step leaves the published document and everybody's pending writes alone -/
theorem doc_step_other {s : Sys SP DV} {i : JobId} (hh : AllHeadOk hash s) {b : Nat}
    (hnr : ∀ st, s.actors[b]? = some st → ∀ c, st.phase ≠ .save .rename i .doc c) :
    docNow (sysStep hash s b).fs i = docNow s.fs i ∧
    ∀ a, wPending hash i a (sysStep hash s b) = wPending hash i a s := by
  refine ⟨docNow_congr (sysStep_frame hnr), ?_⟩
  intro a
  by_cases hab : a = b
  · subst hab
    cases hst : s.actors[a]? with
    | none => rw [sysStep_idle_none hst]
    | some st =>
    cases hn : next hash a st with
    | none => rw [sysStep_idle_fin hst hn]
    | some ins =>
      rw [sysStep_eq hst hn]
      simp only [wPending, set_self hst, hst]
      exact pending_resume (hh a st hst) (hnr st hst) _
  · exact wPending_other hab

theorem docInv_step {s : Sys SP DV} {i : JobId} {w : Nat} {T : Doc DV}
    (h : SysInv hash s) (hd : DocInv hash i w T s) (b : Nat) : DocInv hash i w T (sysStep hash s b) := by
  have hheads := allHeadOk_step hd.heads b
  by_cases hren : ∃ st c, s.actors[b]? = some st ∧ st.phase = .save .rename i .doc c
  · -- the completing rename of a save of this document
    obtain ⟨st, c, hst, hph⟩ := hren
    obtain ⟨hbw, hact, wr, hpend, hdn⟩ := doc_step_rename h hd hst hph
    subst hbw
    refine ⟨hheads, ?_, ?_, ?_⟩
    · intro a hne
      rw [wPending_other hne]; exact hd.others a hne
    · have ht := hd.target
      rw [hpend] at ht
      rw [hdn]; exact ht
    · intro st' n c' hst' hph'
      rw [hact] at hst'; cases hst'
      have := finishOp_not_docsave st
      rw [hph'] at this; simp [isDocSave] at this
  · -- any other step leaves the published document and the pending operations alone
    have hnr : ∀ st, s.actors[b]? = some st → ∀ c, st.phase ≠ .save .rename i .doc c :=
      fun st hst c e => hren ⟨st, c, hst, e⟩
    obtain ⟨hdn, hpend⟩ := doc_step_other (i := i) hd.heads hnr
    refine ⟨hheads, ?_, ?_, ?_⟩
    · intro a hne; rw [hpend]; exact hd.others a hne
    · rw [hdn, hpend]; exact hd.target
    · intro st' n c' hst' hph' v k x r' hs'
      rw [hdn]
      by_cases hwb : w = b
      · subst hwb
        cases hst : s.actors[w]? with
        | none => rw [sysStep_idle_none hst] at hst'; rw [hst] at hst'; cases hst'
        | some st =>
        cases hn : next hash w st with
        | none =>
          rw [sysStep_idle_fin hst hn] at hst'
          exact hd.saving st' n c' hst' hph' v k x r' hs'
        | some ins =>
        have hinv := h.actors w st hst
        rw [sysStep_eq hst hn] at hst'
        simp only at hst'
        rw [set_self hst] at hst'; cases hst'
        -- where can a document save of job i with a `doc[k] = x` at the head come from?
        cases hph : st.phase with
        | dload v0 =>
          have hn' : ins = .read (.file (hash v0) .doc) := by
            simp only [next, hph, Option.some.injEq] at hn; exact hn.symm
          subst hn'
          obtain ⟨_, e2⟩ := tr_dload h.fs hinv hph
          rw [e2] at hph' hs'
          unfold resumeDload at hph' hs'
          split at hph'
          · rename_i v' k0 x0 r0 hs
            simp only [hs, AState.goto] at hs'
            cases hs'
            simp only [AState.goto, Phase.save.injEq] at hph'
            obtain ⟨_, hi, _, hc⟩ := hph'
            rw [← hc, hi]
          · have := finishOp_not_docsave { st with out := .doc (docNow s.fs (hash v0)) :: st.out }
            rw [hph'] at this; simp [isDocSave] at this
          · simp [AState.fail] at hph'
        | save n0 j k0 c0 =>
          cases k0 with
          | sp =>
            have := resume_docsave (hash := hash) (st := st) (exec s.fs ins).2
              (by intro v e; rw [hph] at e; cases e) (by rw [hph]; rfl) (by rw [hph']; rfl)
            rw [hs'] at this; simp [asgHead] at this
          | doc =>
            cases n0
            · have hn' : ins = .openw (.tmp j .doc w) := by
                simp only [next, hph, Option.some.injEq] at hn; exact hn.symm
              subst hn'
              obtain ⟨e1, e2⟩ := tr_save_openw h.fs hinv hph
              rw [e1] at hph' hs'; simp only [e2, AState.goto, Phase.save.injEq] at hph' hs'
              obtain ⟨_, hj, _, hc⟩ := hph'
              subst hj; subst hc
              exact hd.saving st _ _ hst hph v k x r' hs'
            · have hn' : ins = .write (.tmp j .doc w) c0 := by
                simp only [next, hph, Option.some.injEq] at hn; exact hn.symm
              subst hn'
              obtain ⟨e1, e2⟩ := tr_save_write hinv hph
              rw [e1] at hph' hs'; simp only [e2, AState.goto, Phase.save.injEq] at hph' hs'
              obtain ⟨_, hj, _, hc⟩ := hph'
              subst hj; subst hc
              exact hd.saving st _ _ hst hph v k x r' hs'
            · have hn' : ins = .close (.tmp j .doc w) := by
                simp only [next, hph, Option.some.injEq] at hn; exact hn.symm
              subst hn'
              obtain ⟨e1, e2⟩ := tr_save_close (hash := hash) (fs := s.fs) (a := w) hph
              rw [e1] at hph' hs'; simp only [e2, AState.goto, Phase.save.injEq] at hph' hs'
              obtain ⟨_, hj, _, hc⟩ := hph'
              subst hj; subst hc
              exact hd.saving st _ _ hst hph v k x r' hs'
            · have hn' : ins = .rename (.tmp j .doc w) (.file j .doc) := by
                simp only [next, hph, Option.some.injEq] at hn; exact hn.symm
              subst hn'
              rw [tr_save_rename h.fs hinv hph] at hph'
              simp only [tr_save_rename_doc (hash := hash) hph] at hph'
              have := finishOp_not_docsave st
              rw [hph'] at this; simp [isDocSave] at this
        | fin | proj _ | lite _ | ini _ _ | len =>
          have := resume_docsave (hash := hash) (st := st) (exec s.fs ins).2
            (by intro v e; rw [hph] at e; cases e) (by rw [hph]; rfl) (by rw [hph']; rfl)
          rw [hs'] at this; simp [asgHead] at this
      · have : (sysStep hash s b).actors[w]? = s.actors[w]? := by
          cases hst : s.actors[b]? with
          | none => rw [sysStep_idle_none hst]
          | some st =>
          cases hn : next hash b st with
          | none => rw [sysStep_idle_fin hst hn]
          | some ins => rw [sysStep_eq hst hn]; exact set_other _ hwb
        rw [this] at hst'
        exact hd.saving st' n c' hst' hph' v k x r' hs'


theorem docInv_run {s : Sys SP DV} {i : JobId} {w : Nat} {T : Doc DV}
    (h : SysInv hash s) (hd : DocInv hash i w T s) (sched : List Nat) :
    DocInv hash i w T (run hash s sched) := by
  induction sched generalizing s with
  | nil => exact hd
  | cons a rest ih => exact ih (sysStep_inv_guar h a).1 (docInv_step h hd a)

/-- at most actor `w` writes (`doc[k] = x` or `doc = d`) the document of job `i` -/
def SingleWriter (hash : SP → JobId) (i : JobId) (w : Nat) (scripts : List (List (Op SP DV))) : Prop :=
  ∀ (a : Nat) (sc : List (Op SP DV)), scripts[a]? = some sc → a ≠ w → pendingSets hash i sc = []

/-- the writes of actor `w` on the document of job `i`, in program order -/
def writesOf (hash : SP → JobId) (i : JobId) (w : Nat) (scripts : List (List (Op SP DV))) :
    List (DocW DV) :=
  match scripts[w]? with
  | some sc => pendingSets hash i sc
  | none => []

theorem wPending_start (fs : FS SP DV) (i : JobId) (a : Nat) (scripts : List (List (Op SP DV))) :
    wPending hash i a { fs := fs, actors := scripts.map AState.start } = writesOf hash i a scripts := by
  simp only [wPending, writesOf, List.getElem?_map]
  cases hs : scripts[a]? with
  | none => simp
  | some sc => simp [AState.start, pendingSets, List.filterMap_cons, writeOn]

theorem docInv_initially {fs : FS SP DV} {i : JobId} {w : Nat} {scripts : List (List (Op SP DV))}
    (hsw : SingleWriter hash i w scripts) :
    DocInv hash i w (applySets (docNow fs i) (writesOf hash i w scripts))
      { fs := fs, actors := scripts.map AState.start } := by
  refine ⟨allHeadOk_start fs scripts, ?_, ?_, ?_⟩
  · intro a hne
    rw [wPending_start]
    simp only [writesOf]
    cases hs : scripts[a]? with
    | none => rfl
    | some sc => exact hsw a sc hs hne
  · rw [wPending_start]
  · intro st n c hst hph
    simp only [List.getElem?_map] at hst
    cases hs : scripts[w]? with
    | none => simp [hs] at hst
    | some sc =>
      simp only [hs, Option.map_some, Option.some.injEq] at hst
      subst hst
      simp [AState.start] at hph

/-! ### finished means: script worked off -/

def FinOk (st : AState SP DV) : Prop := st.failed = none → st.phase = .fin → st.script = []

theorem firstPhase_ne_fin (op : Op SP DV) : firstPhase op ≠ .fin := by cases op <;> simp [firstPhase]

theorem finOk_finishOp (st : AState SP DV) : FinOk (finishOp st) := by
  intro _ hp
  simp only [finishOp, startNext] at hp ⊢
  split at hp
  · rename_i h; exact h
  · exact absurd hp (firstPhase_ne_fin _)

theorem finOk_fail (st : AState SP DV) (w : String) : FinOk (st.fail w) := by
  intro h; simp [AState.fail] at h

theorem finOk_goto (st : AState SP DV) {ph : Phase SP DV} (h : ph ≠ .fin) : FinOk (st.goto ph) := by
  intro _ hp; exact absurd hp h

theorem finOk_afterInit (st : AState SP DV) (v : SP) : FinOk (afterInit hash st v) := by
  unfold afterInit; split
  · exact finOk_goto _ (by simp)
  · exact finOk_goto _ (by simp)
  · exact finOk_goto _ (by simp)
  · exact finOk_finishOp _

theorem finOk_docStart (st : AState SP DV) (v : SP) : FinOk (docStart hash st v) := by
  unfold docStart; split
  · exact finOk_goto _ (by simp)
  · exact finOk_goto _ (by simp)

theorem finOk_resume {st : AState SP DV} (h : FinOk st) (r : Res SP DV) : FinOk (resume hash st r) := by
  cases hph : st.phase with
  | fin => simp only [resume, hph]; exact h
  | proj n =>
    simp only [resume, hph, resumeProj]
    cases n <;> simp only <;> repeat' split
    all_goals first | exact finOk_finishOp _ | exact finOk_fail _ _ | exact finOk_goto _ (by simp)
  | lite v => simp only [resume, hph]; split
              · exact finOk_docStart _ _
              · exact finOk_goto _ (by simp)
  | ini n v =>
    simp only [resume, hph, resumeIni]
    cases n <;> simp only <;> repeat' split
    all_goals first | exact finOk_afterInit _ _ | exact finOk_fail _ _ | exact finOk_goto _ (by simp)
  | save n i k c =>
    simp only [resume, hph, resumeSave]
    cases n <;> simp only <;> repeat' split
    all_goals first | exact finOk_finishOp _ | exact finOk_fail _ _ | exact finOk_goto _ (by simp)
  | dload v =>
    simp only [resume, hph]
    repeat' split
    all_goals first | exact finOk_fail _ _ | (unfold resumeDload; repeat' split)
    all_goals first | exact finOk_finishOp _ | exact finOk_fail _ _ | exact finOk_goto _ (by simp)
  | len =>
    simp only [resume, hph]; split
    · exact finOk_finishOp _
    · exact finOk_fail _ _

def AllFinOk (s : Sys SP DV) : Prop := ∀ (a : Nat) (st : AState SP DV), s.actors[a]? = some st → FinOk st

theorem allFinOk_step {s : Sys SP DV} (h : AllFinOk s) (b : Nat) : AllFinOk (sysStep hash s b) := by
  cases hst : s.actors[b]? with
  | none => rw [sysStep_idle_none hst]; exact h
  | some st =>
  cases hn : next hash b st with
  | none => rw [sysStep_idle_fin hst hn]; exact h
  | some ins =>
  rw [sysStep_eq hst hn]
  intro a st' ha
  simp only at ha
  by_cases hab : a = b
  · subst hab
    rw [set_self hst] at ha; cases ha
    exact finOk_resume (h a st hst) _
  · rw [set_other _ hab] at ha
    exact h a st' ha

theorem allFinOk_run {s : Sys SP DV} (h : AllFinOk s) (sched : List Nat) : AllFinOk (run hash s sched) := by
  induction sched generalizing s with
  | nil => exact h
  | cons a rest ih => exact ih (allFinOk_step h a)

theorem allFinOk_start (fs : FS SP DV) (scripts : List (List (Op SP DV))) :
    AllFinOk { fs := fs, actors := scripts.map AState.start } := by
  intro a st hst
  simp only [List.getElem?_map] at hst
  cases hs : scripts[a]? with
  | none => simp [hs] at hst
  | some sc =>
    simp only [hs, Option.map_some, Option.some.injEq] at hst
    subst hst
    intro _ hp; simp [AState.start] at hp

/-! ### the set of jobs: exactly the requested ones -/

def mentions (hash : SP → JobId) (i : JobId) : Op SP DV → Prop
  | .init v => hash v = i
  | .docSet v _ _ => hash v = i
  | .docGet v => hash v = i
  | .docAssign v _ => hash v = i
  | _ => False

theorem jobOp_mentions {v : SP} {s r : List (Op SP DV)} {op : Op SP DV} {i : JobId}
    (h : jobOp v s) (hs : s = op :: r) (hm : mentions hash i op) : hash v = i := by
  rcases h with (⟨k, x, r', h⟩ | ⟨r', h⟩) | ⟨r', h⟩ | ⟨d, r', h⟩ <;> rw [hs] at h <;> cases h <;> exact hm

theorem jobOp_head_mentions {v : SP} {s : List (Op SP DV)} (h : jobOp v s) :
    ∃ op r, s = op :: r ∧ mentions hash (hash v) op := by
  rcases h with (⟨k, x, r', h⟩ | ⟨r', h⟩) | ⟨r', h⟩ | ⟨d, r', h⟩
  · exact ⟨_, _, h, rfl⟩
  · exact ⟨_, _, h, rfl⟩
  · exact ⟨_, _, h, rfl⟩
  · exact ⟨_, _, h, rfl⟩

/-- an operation leaves the script only when the directory of its job exists -/
def PopOk (hash : SP → JobId) (fs' : FS SP DV) (st st' : AState SP DV) : Prop :=
  st'.script = st.script ∨
  (st'.script = st.script.tail ∧
     ∀ op r, st.script = op :: r → ∀ i, mentions hash i op → IsDir fs' (.jobdir i))

theorem popOk_afterInit {fs : FS SP DV} {st : AState SP DV} {v : SP} (hh : jobOp v st.script)
    (hd : IsDir fs (.jobdir (hash v))) : PopOk hash fs st (afterInit hash st v) := by
  unfold afterInit; split
  · exact Or.inl rfl
  · exact Or.inl rfl
  · exact Or.inl rfl
  · refine Or.inr ⟨finishOp_script st, ?_⟩
    intro op r hs i hm
    rw [← jobOp_mentions hh hs hm]; exact hd

theorem pop_has_dir {fs : FS SP DV} {a : Nat} {st : AState SP DV} {ins : Instr SP DV}
    (hfs : FsInv hash fs) (hinv : AInv hash fs a st) (hh : HeadOk hash st.phase st.script)
    (hn : next hash a st = some ins) :
    PopOk hash (exec fs ins).1 st (resume hash st (exec fs ins).2) := by
  obtain ⟨_, hG, _⟩ := step_own hfs hinv hn
  cases hph : st.phase with
  | fin => simp [next, hph] at hn
  | proj n =>
    rw [hph] at hh
    obtain ⟨rest, hs⟩ := hh
    have hfin : PopOk hash (exec fs ins).1 st (finishOp st) :=
      Or.inr ⟨finishOp_script st, fun op r e i hm => by rw [hs] at e; cases e; exact absurd hm id⟩
    simp only [resume, hph, resumeProj]
    cases n <;> simp only <;> repeat' split
    all_goals first | exact hfin | exact Or.inl rfl
  | lite v => simp only [resume, hph]; split
              · exact Or.inl (docStart_script _ _)
              · exact Or.inl rfl
  | len =>
    rw [hph] at hh
    obtain ⟨rest, hs⟩ := hh
    simp only [resume, hph]; split
    · exact Or.inr ⟨finishOp_script _, fun op r e i hm => by
        rw [hs] at e; cases e; exact absurd hm id⟩
    · exact Or.inl rfl
  | dload v =>
    rw [hph] at hh
    have hd : IsDir fs (.jobdir (hash v)) := by simpa [hph, PhaseInv] using hinv.phase
    have hn' : ins = .read (.file (hash v) .doc) := by
      simp only [next, hph, Option.some.injEq] at hn; exact hn.symm
    subst hn'
    obtain ⟨e1, e2⟩ := tr_dload hfs hinv hph
    rw [e1, e2]
    unfold resumeDload; split
    · exact Or.inl rfl
    · refine Or.inr ⟨finishOp_script _, ?_⟩
      intro op r hs i hm
      rw [← jobOp_mentions (Or.inl hh) hs hm]; exact hd
    · exact Or.inl rfl
  | save n j k c =>
    rw [hph] at hh
    cases k with
    | sp =>
      simp only [resume, hph, resumeSave]
      cases n <;> simp only <;> repeat' split
      all_goals first | exact Or.inl rfl | (rename_i heq; cases heq) | (rename_i heq _; cases heq)
    | doc =>
      cases n
      · simp only [resume, hph, resumeSave]; split <;> exact Or.inl rfl
      · simp only [resume, hph, resumeSave]; split <;> exact Or.inl rfl
      · simp only [resume, hph, resumeSave]; split <;> exact Or.inl rfl
      · have hn' : ins = .rename (.tmp j .doc a) (.file j .doc) := by
          simp only [next, hph, Option.some.injEq] at hn; exact hn.symm
        subst hn'
        obtain ⟨hc, _⟩ : fs.get (.tmp j .doc a) = some (.file c) ∧ GoodC hash j .doc c := by
          simpa [hph, PhaseInv] using hinv.phase
        have hjd : IsDir fs (.jobdir j) := parent_dir hfs hc rfl
        have hd' := hG.dirs _ hjd
        rw [tr_save_rename hfs hinv hph] at hd' ⊢
        simp only [tr_save_rename_doc (hash := hash) hph]
        refine Or.inr ⟨finishOp_script st, ?_⟩
        intro op r' e i hm
        rcases hh with ⟨v, k, x, r, hs, hv⟩ | ⟨v, d, r, hs, hv, _⟩
        · rw [hs] at e; cases e
          simp only [mentions] at hm
          rw [← hm, hv]; exact hd'
        · rw [hs] at e; cases e
          simp only [mentions] at hm
          rw [← hm, hv]; exact hd'
  | ini n v =>
    rw [hph] at hh
    have hload : ∀ m, (m = IniPc.load1 ∨ m = IniPc.load2) → st.phase = .ini m v →
        PopOk hash (exec fs (.read (.file (hash v) .sp))).1 st
          (resume hash st (exec fs (.read (.file (hash v) .sp))).2) := by
      intro m hm hph'
      cases hg : fs.get (.file (hash v) .sp) with
      | none =>
        rw [exec_read_none hg]
        rcases hm with rfl | rfl <;> simp only [resume, hph', resumeIni] <;> exact Or.inl rfl
      | some nd =>
        obtain ⟨c, rfl, hgood⟩ := hfs.fileT hg
        rw [exec_read_file hg]
        have hjd : IsDir fs (.jobdir (hash v)) := parent_dir hfs hg rfl
        cases c with
        | spc w =>
          simp only [GoodC] at hgood
          rcases hm with rfl | rfl <;> simp only [resume, hph', resumeIni, hgood, if_true] <;>
            exact popOk_afterInit hh hjd
        | torn => simp [GoodC] at hgood
        | docc d => simp [GoodC] at hgood
    cases n
    · have hn' : ins = .read (.file (hash v) .sp) := by
        simp only [next, hph, Option.some.injEq] at hn; exact hn.symm
      subst hn'; exact hload _ (Or.inl rfl) hph
    · simp only [resume, hph, resumeIni]; split <;> exact Or.inl rfl
    · simp only [resume, hph, resumeIni]; split <;> exact Or.inl rfl
    · simp only [resume, hph, resumeIni]; repeat' split
      all_goals exact Or.inl rfl
    · simp only [resume, hph, resumeIni]; split <;> exact Or.inl rfl
    · simp only [resume, hph, resumeIni]; split <;> exact Or.inl rfl
    · have hn' : ins = .read (.file (hash v) .sp) := by
        simp only [next, hph, Option.some.injEq] at hn; exact hn.symm
      subst hn'; exact hload _ (Or.inr rfl) hph

/-- job `i` is requested: it is there initially or some script names it -/
def Requested (hash : SP → JobId) (s0 : Sys SP DV) (i : JobId) : Prop :=
  IsDir s0.fs (.jobdir i) ∨
  ∃ (a : Nat) (st0 : AState SP DV) (op : Op SP DV), s0.actors[a]? = some st0 ∧ op ∈ st0.script ∧ mentions hash i op

structure JobsInv (hash : SP → JobId) (s0 s : Sys SP DV) : Prop where
  sound : ∀ i, IsDir s.fs (.jobdir i) → Requested hash s0 i
  prog : ∀ (a : Nat) (st : AState SP DV), s.actors[a]? = some st →
    ∃ (st0 : AState SP DV) (pre : List (Op SP DV)), s0.actors[a]? = some st0 ∧
      st0.script = pre ++ st.script ∧ ∀ op ∈ pre, ∀ i, mentions hash i op → IsDir s.fs (.jobdir i)
  len : s.actors.length = s0.actors.length

theorem jobsInv_refl (s0 : Sys SP DV) : JobsInv hash s0 s0 :=
  ⟨fun _ h => Or.inl h, fun _ st h => ⟨st, [], h, rfl, fun _ hm => by cases hm⟩, rfl⟩

theorem jobsInv_step {s0 s : Sys SP DV} (h : SysInv hash s) (hh : AllHeadOk hash s)
    (hj : JobsInv hash s0 s) (b : Nat) : JobsInv hash s0 (sysStep hash s b) := by
  cases hst : s.actors[b]? with
  | none => rw [sysStep_idle_none hst]; exact hj
  | some st =>
  cases hn : next hash b st with
  | none => rw [sysStep_idle_fin hst hn]; exact hj
  | some ins =>
  have hinv := h.actors b st hst
  have hhead := hh b st hst
  obtain ⟨_, hG, _⟩ := step_own h.fs hinv hn
  have hpop := pop_has_dir h.fs hinv hhead hn
  obtain ⟨st0, pre, hst0, hpre, hdirs⟩ := hj.prog b st hst
  rw [sysStep_eq hst hn]
  refine ⟨?_, ?_, by simp [hj.len]⟩
  · intro i hd'
    simp only at hd'
    by_cases hd : IsDir s.fs (.jobdir i)
    · exact hj.sound i hd
    · have hw : writes ins (.jobdir i) := by
        apply Classical.byContradiction
        intro hnw
        apply hd
        have := exec_frame s.fs ins (.jobdir i) hnw
        simpa [IsDir, this] using hd'
      obtain ⟨v, hph, rfl⟩ := next_writes_jobdir hn hw
      rw [hph] at hhead
      obtain ⟨op, r, hs, hm⟩ := jobOp_head_mentions (hash := hash) hhead
      exact Or.inr ⟨b, st0, op, hst0, by rw [hpre, hs]; simp, hm⟩
  · intro a st' ha
    simp only at ha ⊢
    by_cases hab : a = b
    · subst hab
      rw [set_self hst] at ha; cases ha
      rcases hpop with hsame | ⟨htail, hdir⟩
      · exact ⟨st0, pre, hst0, by rw [hsame]; exact hpre, fun op ho i hm => hG.dirs _ (hdirs op ho i hm)⟩
      · cases hs : st.script with
        | nil =>
          refine ⟨st0, pre, hst0, by rw [htail, hs]; simpa [hs] using hpre, fun op ho i hm => hG.dirs _ (hdirs op ho i hm)⟩
        | cons op r =>
          refine ⟨st0, pre ++ [op], hst0, by rw [htail, hs]; simpa [hs] using hpre, ?_⟩
          intro op' ho i hm
          rw [List.mem_append] at ho
          rcases ho with ho | ho
          · exact hG.dirs _ (hdirs op' ho i hm)
          · simp only [List.mem_singleton] at ho; subst ho
            exact hdir op' r hs i hm
    · rw [set_other _ hab] at ha
      obtain ⟨st0', pre', h1, h2, h3⟩ := hj.prog a st' ha
      exact ⟨st0', pre', h1, h2, fun op ho i hm => hG.dirs _ (h3 op ho i hm)⟩

theorem all_run {s0 s : Sys SP DV} (h : SysInv hash s) (hh : AllHeadOk hash s) (hj : JobsInv hash s0 s)
    (sched : List Nat) :
    AllHeadOk hash (run hash s sched) ∧ JobsInv hash s0 (run hash s sched) := by
  induction sched generalizing s with
  | nil => exact ⟨hh, hj⟩
  | cons a rest ih => exact ih (sysStep_inv_guar h a).1 (allHeadOk_step hh a) (jobsInv_step h hh hj a)

/-- when everybody is done the job directories are exactly the requested ones -/
theorem done_jobs {s0 s : Sys SP DV} (h : SysInv hash s) (hf : AllFinOk s) (hj : JobsInv hash s0 s)
    (hd : AllDone s) (hmono : ∀ p, IsDir s0.fs p → IsDir s.fs p) (i : JobId) :
    IsDir s.fs (.jobdir i) ↔ Requested hash s0 i := by
  constructor
  · exact hj.sound i
  · rintro (h0 | ⟨a, st0, op, hst0, hop, hm⟩)
    · exact hmono _ h0
    · have ha : a < s.actors.length := by
        rw [hj.len]; exact (List.getElem?_eq_some_iff.1 hst0).1
      have hst := List.getElem?_eq_getElem ha
      obtain ⟨st0', pre, h1, h2, h3⟩ := hj.prog a _ hst
      rw [hst0] at h1; cases h1
      have hmem := List.mem_of_getElem? hst
      have hnil := hf a _ hst (h.actors a _ hst).noFail (hd _ hmem)
      rw [hnil, List.append_nil] at h2
      exact h3 op (h2 ▸ hop) i hm


theorem wPending_done {s : Sys SP DV} (h : SysInv hash s) (hd : AllDone s) (hf : AllFinOk s)
    (i : JobId) (w : Nat) : wPending hash i w s = [] := by
  simp only [wPending]
  cases hst : s.actors[w]? with
  | none => rfl
  | some st =>
    have hm := List.mem_of_getElem? hst
    have := hf w st hst (h.actors w st hst).noFail (hd st hm)
    simp [this, pendingSets]

end Signac.Conc

/-
  Proofs/ViewChecks — what the checks of `create_linked_view` guarantee about an accepted
  link set (and hence: what makes it raise before any step).
-/
import Signac.Proofs.ViewSpec
namespace Signac.LV

theorem pathsUnique_iff (ps : List String) : pathsUnique ps = true ↔ ps.Nodup := by
  induction ps with
  | nil => simp [pathsUnique]
  | cons p ps ih => simp [pathsUnique, ih]

theorem mem_properPrefixes (p q : Path) :
    p ∈ properPrefixes q ↔ p ≠ [] ∧ properPrefix p q = true := by
  induction q generalizing p with
  | nil => simp [properPrefixes, properPrefix]
  | cons c rest ih =>
    cases rest with
    | nil =>
      simp only [properPrefixes, List.not_mem_nil, false_iff, not_and]
      intro hp h
      rw [properPrefix_iff] at h
      cases p with
      | nil => exact hp rfl
      | cons x xs => simp at h
    | cons d rest' =>
      simp only [properPrefixes, List.mem_cons, List.mem_map]
      constructor
      · rintro (h | ⟨a, ha, rfl⟩)
        · subst h
          exact ⟨by simp, by simp [properPrefix]⟩
        · obtain ⟨_, h2⟩ := (ih a).mp ha
          refine ⟨by simp, ?_⟩
          rw [properPrefix_iff] at h2 ⊢
          exact ⟨by simpa using h2.1, by have := h2.2; simp only [List.length_cons] at this ⊢; omega⟩
      · rintro ⟨hp, h⟩
        rw [properPrefix_iff] at h
        cases p with
        | nil => exact absurd rfl hp
        | cons x xs =>
          obtain ⟨h1, h2⟩ := h
          rw [List.cons_prefix_cons] at h1
          obtain ⟨hx, hxs⟩ := h1
          subst hx
          by_cases hxs0 : xs = []
          · left; simp [hxs0]
          · right
            refine ⟨xs, (ih xs).mpr ⟨hxs0, ?_⟩, rfl⟩
            rw [properPrefix_iff]
            exact ⟨hxs, by simp at h2; omega⟩

theorem keysUnique_iff (ks : List Path) : keysUnique ks = true ↔ ks.Nodup := by
  induction ks with
  | nil => simp [keysUnique]
  | cons k ks ih => simp [keysUnique, ih]

/-- the (order independent) leaf/node check: no non-empty path is a proper prefix of a path -/
theorem structureValid_iff (ks : List Path) :
    structureValid ks = true ↔ ∀ p ∈ ks, ∀ q ∈ ks, p ≠ [] → properPrefix p q = false := by
  simp only [structureValid, Bool.not_eq_true', List.any_eq_false, List.contains_eq_mem,
    decide_eq_true_eq, List.mem_flatMap, not_exists, not_and]
  constructor
  · intro h p hp q hq hne
    cases hpq : properPrefix p q with
    | false => rfl
    | true => exact absurd ((mem_properPrefixes p q).mpr ⟨hne, hpq⟩) (h p hp q hq)
  · intro h p hp q hq hm
    obtain ⟨hne, hpq⟩ := (mem_properPrefixes p q).mp hm
    rw [h p hp q hq hne] at hpq; cases hpq

theorem collectPaths_length (f : Job → FmtRes) (jobs : List Job) (ps : List String)
    (h : collectPaths f jobs = some (some ps)) : ps.length = jobs.length := by
  induction jobs generalizing ps with
  | nil => simp [collectPaths] at h; subst h; rfl
  | cons j js ih =>
    simp only [collectPaths] at h
    cases hf : f j with
    | unmodelled => simp [hf] at h
    | fail => simp [hf] at h
    | ok p =>
      simp only [hf] at h
      cases hc : collectPaths f js with
      | none => simp [hc] at h
      | some r => cases r with
        | none => simp [hc] at h
        | some ps' =>
          simp only [hc, Option.some.injEq] at h
          subst h
          simp [ih ps' hc]

/-- the path strings the path function produced are pairwise different and one per job -/
theorem pathStrings_ok {jobs : List Job} {spec : PathSpec} {ps : List String}
    (hid : pathsUnique (jobs.map (·.id)) = true)
    (h : pathStrings jobs spec = some (.ok ps)) : ps.Nodup ∧ ps.length = jobs.length := by
  unfold pathStrings at h
  cases spec with
  | byId =>
    simp only [Option.some.injEq, Except.ok.injEq] at h
    subst h
    exact ⟨(pathsUnique_iff _).mp hid, by simp⟩
  | auto =>
    simp only at h
    split at h
    · cases h
    · cases h
    · rename_i ps' hc
      by_cases hu : pathsUnique ps' = true
      · simp only [hu, if_true, Option.some.injEq, Except.ok.injEq] at h
        subst h
        exact ⟨(pathsUnique_iff _).mp hu, collectPaths_length _ _ _ hc⟩
      · simp [hu] at h
  | fmt s =>
    simp only at h
    split at h
    · cases h
    · cases h
    · rename_i ps' hc
      by_cases hu : pathsUnique ps' = true
      · simp only [hu, if_true, Option.some.injEq, Except.ok.injEq] at h
        subst h
        exact ⟨(pathsUnique_iff _).mp hu, collectPaths_length _ _ _ hc⟩
      · simp [hu] at h

/-- What an accepted input satisfies: no separator in top-level keys / string values, one path
    string per job, all different, the normalised link paths are pairwise different too, none
    leaves the prefix, none lies below another, and the link set pairs the i-th path with the
    i-th job. -/
theorem createLinks_ok {jobs : List Job} {spec : PathSpec} {L : List (Path × String)}
    (h : createLinks jobs spec = .ok L) :
    sepFree jobs = true ∧ ∃ ps, pathStrings jobs spec = some (.ok ps) ∧ ps.Nodup ∧
      ps.length = jobs.length ∧ (ps.map linkKey).Nodup ∧
      (∀ k ∈ ps.map linkKey, escapes k = false) ∧
      (∀ p ∈ ps.map linkKey, ∀ q ∈ ps.map linkKey, p ≠ [] → properPrefix p q = false) ∧
      L = (ps.map linkKey).zip (jobs.map (·.id)) := by
  unfold createLinks at h
  by_cases h1 : (!jobs.all (fun j => objModelled j.sp) || !pathsUnique (jobs.map (·.id))) = true
  · simp [h1] at h
  · simp only [h1, if_false] at h
    have hid : pathsUnique (jobs.map (·.id)) = true := by
      simp only [Bool.or_eq_true, Bool.not_eq_true', not_or, Bool.not_eq_false] at h1
      exact h1.2
    by_cases h2 : sepFree jobs = true
    · simp only [h2, Bool.not_true, Bool.false_eq_true, if_false] at h
      refine ⟨h2, ?_⟩
      cases hp : pathStrings jobs spec with
      | none => simp [hp] at h
      | some r => cases r with
        | error e => simp [hp] at h
        | ok ps =>
          simp only [hp] at h
          by_cases h0 : keysUnique (ps.map linkKey) = true
          · simp only [h0, Bool.not_true, Bool.false_eq_true, if_false] at h
            by_cases h3 : (ps.map linkKey).any escapes = true
            · simp [h3] at h
            · simp only [h3, if_false] at h
              by_cases h4 : structureValid (ps.map linkKey) = true
              · simp only [h4, Bool.not_true, Bool.false_eq_true, if_false, LinkRes.ok.injEq] at h
                obtain ⟨hnd, hlen⟩ := pathStrings_ok hid hp
                refine ⟨ps, rfl, hnd, hlen, (keysUnique_iff _).mp h0, ?_, (structureValid_iff _).mp h4,
                  h.symm⟩
                intro k hk
                simp only [Bool.not_eq_true, List.any_eq_false] at h3
                cases he : escapes k with
                | false => rfl
                | true => exact absurd he (by simpa using h3 k hk)
              · simp [h4] at h
          · simp [h0] at h
    · simp [h2] at h

/-- anything that is not accepted leaves the view as it is -/
theorem createView_not_ok {v : View} {jobs : List Job} {spec : PathSpec}
    (h : ∀ L, createLinks jobs spec ≠ .ok L) :
    (createView v jobs spec).1 = v ∧
      ((∃ e, (createView v jobs spec).2 = .rejected e) ∨ (createView v jobs spec).2 = .unmodelled) := by
  unfold createView
  cases hc : createLinks jobs spec with
  | ok L => exact absurd hc (h L)
  | reject e => exact ⟨rfl, Or.inl ⟨e, rfl⟩⟩
  | unmodelled => exact ⟨rfl, Or.inr rfl⟩

theorem sepFree_iff (jobs : List Job) :
    sepFree jobs = true ↔
      ∀ j ∈ jobs, ∀ kv ∈ j.sp, hasSep kv.1 = false ∧ ∀ s, kv.2 = .str s → hasSep s = false := by
  simp only [sepFree, Bool.not_eq_true', List.any_eq_false, jobHasSep]
  constructor
  · intro h j hj kv hkv
    have := h j hj
    simp only [Bool.not_eq_true, List.any_eq_false] at this
    have h' := this kv hkv
    obtain ⟨k, w⟩ := kv
    rw [Bool.or_eq_false_iff] at h'
    refine ⟨h'.1, ?_⟩
    intro s hs
    simp only at hs
    subst hs
    exact h'.2
  · intro h j hj
    simp only [Bool.not_eq_true, List.any_eq_false]
    intro kv hkv
    obtain ⟨h1, h2⟩ := h j hj kv hkv
    obtain ⟨k, w⟩ := kv
    rw [Bool.or_eq_false_iff]
    refine ⟨h1, ?_⟩
    cases w with
    | str s => exact h2 s rfl
    | _ => rfl

/-- An input the view can represent: no separator in top-level keys and string values, a path
    for every selected job, all paths different — also after normalisation —, no link path
    outside the prefix, no link path below another link path. -/
def Representable (jobs : List Job) (spec : PathSpec) : Prop :=
  (∀ j ∈ jobs, ∀ kv ∈ j.sp, hasSep kv.1 = false ∧ ∀ s, kv.2 = .str s → hasSep s = false) ∧
  ∃ ps, pathStrings jobs spec = some (.ok ps) ∧ ps.Nodup ∧ ps.length = jobs.length ∧
    (ps.map linkKey).Nodup ∧
    (∀ k ∈ ps.map linkKey, escapes k = false) ∧
    (∀ p ∈ ps.map linkKey, ∀ q ∈ ps.map linkKey, p ≠ [] → properPrefix p q = false)

theorem representable_of_ok {jobs : List Job} {spec : PathSpec} {L : List (Path × String)}
    (h : createLinks jobs spec = .ok L) : Representable jobs spec := by
  obtain ⟨h1, ps, h2, h3, h4, h5, h6, h7, _⟩ := createLinks_ok h
  exact ⟨(sepFree_iff jobs).mp h1, ps, h2, h3, h4, h5, h6, h7⟩

end Signac.LV

/- Helper lemmas for the string-typed migration layer (Signac/MigrationS.lean): where every
   declared version is a non-negative integer literal the chain is the numeric chain on
   `ProjS.toProj`; a version string `int()` rejects makes `apply_migrations` raise ValueError
   with nothing changed.  Property theorems: end of Signac/Properties/C20.lean. -/
import Signac.MigrationS
import Signac.Proofs.MigChain
import Signac.Proofs.PyIntLemmas
namespace Signac.MigS
open Signac Signac.Mig Signac.PyInt

theorem declared_repr (n : Nat) : declared (Nat.repr n) = some n := declared_toString n

/-! ### loaders -/

theorem loadV1S_toProj (P : ProjS) : loadV1 P.toProj = (loadV1S P).map ConfS.toConf := by
  unfold loadV1 loadV1S
  simp only [ProjS.toProj]
  cases P.rc with
  | none => rfl
  | some c =>
    simp only [Option.map_some, ConfS.toConf]
    split <;> rfl

theorem loadV2S_toProj (P : ProjS) : loadV2 P.toProj = (loadV2S P).map ConfS.toConf := rfl

theorem loaderS_toProj (n : Nat) (P : ProjS) :
    loader n P.toProj = (loaderS n P).map ConfS.toConf := by
  unfold loader loaderS
  split
  · exact loadV1S_toProj P
  · split
    · exact loadV2S_toProj P
    · rfl

theorem firstLoadS_toProj (P : ProjS) :
    ∀ l, firstLoad P.toProj l = (firstLoadS P l).map ConfS.toConf
  | [] => rfl
  | n :: ns => by
    simp only [firstLoad, firstLoadS, loaderS_toProj]
    cases loaderS n P with
    | some c => rfl
    | none => exact firstLoadS_toProj P ns

theorem loadV1S_mem (P : ProjS) (c : ConfS) (h : loadV1S P = some c) : P.rc = some c := by
  unfold loadV1S at h
  cases hr : P.rc with
  | none => rw [hr] at h; cases h
  | some c' =>
    rw [hr] at h
    simp only [] at h
    split at h
    · exact h
    · cases h

theorem loaderS_mem (n : Nat) (P : ProjS) (c : ConfS) (h : loaderS n P = some c) :
    P.rc = some c ∨ P.cfg = some c := by
  unfold loaderS at h
  split at h
  · exact Or.inl (loadV1S_mem P c h)
  · split at h
    · exact Or.inr h
    · cases h

theorem firstLoadS_mem (P : ProjS) (c : ConfS) :
    ∀ l, firstLoadS P l = some c → P.rc = some c ∨ P.cfg = some c
  | [], h => by cases h
  | n :: ns, h => by
    simp only [firstLoadS] at h
    cases hl : loaderS n P with
    | some c' =>
      rw [hl] at h
      simp only [Option.some.injEq] at h
      subst h
      exact loaderS_mem n P c' hl
    | none =>
      rw [hl] at h
      exact firstLoadS_mem P c ns h

/-! ### `_get_config_schema_version` -/

theorem detectS_toProj (P : ProjS) (h : IntLit P) (g : Nat) :
    detectS P g = (match detect P.toProj g with
      | none => .unable
      | some n => .ver (Int.ofNat n)) := by
  unfold detectS detect
  simp only [firstLoadS_toProj]
  cases hf : firstLoadS P (if g = 1 ∨ g = 2 then [g, 2, 1] else [2, 1]) with
  | none => rfl
  | some c =>
    simp only [Option.map_some]
    cases hv : c.version with
    | none => simp [ConfS.toConf, hv]
    | some s =>
      have hd := h c (firstLoadS_mem P c _ hf) s hv
      cases hds : declared s with
      | none => rw [hds] at hd; cases hd
      | some n =>
        simp only [(declared_eq_some s n).mp hds, ConfS.toConf, hv, Option.map_some, hds,
          Option.getD_some]

/-- a version string `int()` rejects, in the config file that loads first -/
theorem detectS_valueError (P : ProjS) (g : Nat) (c : ConfS) (s : String)
    (hf : firstLoadS P (if g = 1 ∨ g = 2 then [g, 2, 1] else [2, 1]) = some c)
    (hv : c.version = some s) (hs : pyInt s = none) : detectS P g = .valueError := by
  unfold detectS
  simp only [hf, hv, hs]

/-! ### `_migrate_v1_to_v2`, the bump -/

theorem migrate12S_toProj (P : ProjS) :
    (migrate12S P).1.toProj = (migrate12 P.toProj).1 ∧ (migrate12S P).2 = (migrate12 P.toProj).2 := by
  unfold migrate12S migrate12
  rw [loadV1S_toProj]
  cases loadV1S P with
  | none => exact ⟨rfl, rfl⟩
  | some c =>
    simp only [Option.map_some]
    have hw : wsName c.toConf = wsNameS c := rfl
    have he : ∀ k, hasEnt P.toProj k = hasEntS P k := fun _ => rfl
    have hp : c.toConf.project = c.project := rfl
    have hdot : P.toProj.dotSignac = P.dotSignac := rfl
    rw [hw, he, he, hp, hdot]
    split
    · exact ⟨rfl, rfl⟩
    · split
      · exact ⟨rfl, rfl⟩
      · split
        · exact ⟨rfl, rfl⟩
        · exact ⟨rfl, rfl⟩

/-- the configs after `_migrate_v1_to_v2` carry the versions of the configs before -/
theorem migrate12S_versions (P : ProjS) (c' : ConfS)
    (h : (migrate12S P).1.rc = some c' ∨ (migrate12S P).1.cfg = some c') :
    ∃ c, (P.rc = some c ∨ P.cfg = some c) ∧ c'.version = c.version := by
  unfold migrate12S at h
  cases hl : loadV1S P with
  | none =>
    rw [hl] at h
    exact ⟨c', h, rfl⟩
  | some c =>
    rw [hl] at h
    have hrc := loadV1S_mem P c hl
    simp only [] at h
    split at h
    · exact ⟨c', h, rfl⟩
    · split at h
      · exact ⟨c', h, rfl⟩
      · split at h
        · simp only [Option.some.injEq] at h
          rcases h with h | h
          · subst h; exact ⟨c, Or.inl hrc, rfl⟩
          · exact ⟨c', Or.inr h, rfl⟩
        · simp only [Option.some.injEq, reduceCtorEq, false_or] at h
          subst h; exact ⟨c, Or.inl hrc, rfl⟩

theorem migrate12S_intLit (P : ProjS) (h : IntLit P) : IntLit (migrate12S P).1 := by
  intro c' hc' s hs
  obtain ⟨c, hc, hv⟩ := migrate12S_versions P c' hc'
  exact h c hc s (hv ▸ hs)

theorem bumpS_toProj (d : Nat) (P : ProjS) :
    bump d P.toProj = (bumpS d P).map ProjS.toProj := by
  unfold bump bumpS
  split
  · rw [loadV1S_toProj]
    cases loadV1S P with
    | none => rfl
    | some c => simp [ProjS.toProj, ConfS.toConf, declared_repr]
  · split
    · rw [loadV2S_toProj]
      cases loadV2S P with
      | none => rfl
      | some c => simp [ProjS.toProj, ConfS.toConf, declared_repr]
    · rfl

theorem bumpS_intLit (d : Nat) (P P' : ProjS) (h : IntLit P) (hb : bumpS d P = some P') :
    IntLit P' := by
  unfold bumpS at hb
  split at hb
  · cases hl : loadV1S P with
    | none => rw [hl] at hb; cases hb
    | some c =>
      rw [hl] at hb
      simp only [Option.map_some, Option.some.injEq] at hb
      subst hb
      intro c' hc' s hs
      simp only [Option.some.injEq] at hc'
      rcases hc' with hc' | hc'
      · subst hc'
        simp only [Option.some.injEq] at hs
        subst hs
        rw [declared_toString]; rfl
      · exact h c' (Or.inr hc') s hs
  · split at hb
    · cases hl : loadV2S P with
      | none => rw [hl] at hb; cases hb
      | some c =>
        rw [hl] at hb
        simp only [Option.map_some, Option.some.injEq] at hb
        subst hb
        intro c' hc' s hs
        simp only [Option.some.injEq] at hc'
        rcases hc' with hc' | hc'
        · exact h c' (Or.inl hc') s hs
        · subst hc'
          simp only [Option.some.injEq] at hs
          subst hs
          rw [declared_toString]; rfl
    · cases hb

/-! ### the chain -/

theorem loopS_toProj : ∀ (fuel guess : Nat) (P : ProjS), IntLit P →
    (loopS fuel guess P).1.toProj = (loop fuel guess P.toProj).1
    ∧ (loopS fuel guess P).2 = .base (loop fuel guess P.toProj).2
    ∧ IntLit (loopS fuel guess P).1
  | 0, _, P, h => ⟨rfl, rfl, h⟩
  | fuel + 1, guess, P, h => by
    unfold loopS loop
    rw [detectS_toProj P h guess]
    cases hd : detect P.toProj guess with
    | none => exact ⟨rfl, rfl, h⟩
    | some n =>
      simp only [Int.ofNat_eq_natCast, Int.ofNat_lt, Int.natCast_eq_zero]
      by_cases hlt : n < SCHEMA
      · simp only [hlt, if_true]
        by_cases h0 : n = 0
        · simp only [h0, if_true]
          rw [bumpS_toProj]
          cases hb : bumpS 1 P with
          | none => exact ⟨rfl, rfl, h⟩
          | some P' => exact loopS_toProj fuel 1 P' (bumpS_intLit 1 P P' h hb)
        · have h0' : ¬ ((n : Int) = 0) := by omega
          simp only [h0, if_false]
          by_cases h1 : n = 1
          · simp only [h1, if_true]
            have hm := migrate12S_toProj P
            have hi := migrate12S_intLit P h
            rcases hms : migrate12S P with ⟨P', b⟩
            rcases hmn : migrate12 P.toProj with ⟨Q', b'⟩
            rw [hms, hmn] at hm
            rw [hms] at hi
            simp only at hm hi
            obtain ⟨hm1, hm2⟩ := hm
            subst hm2
            subst hm1
            cases b with
            | false => exact ⟨rfl, rfl, hi⟩
            | true =>
              simp only []
              rw [bumpS_toProj]
              cases hb : bumpS 2 P' with
              | none => exact ⟨rfl, rfl, hi⟩
              | some P'' => exact loopS_toProj fuel 2 P'' (bumpS_intLit 2 P' P'' hi hb)
          · have h1' : ¬ ((n : Int) = 1) := by omega
            simp only [h1, h1', if_false]
            exact ⟨by first | rfl | trivial, by first | rfl | trivial, h⟩
      · simp only [hlt, if_false]
        exact ⟨by first | rfl | trivial, by first | rfl | trivial, h⟩

theorem intLit_lock (P : ProjS) (b : Bool) (h : IntLit P) : IntLit { P with lock := b } := h

theorem applyMigrationsS_toProj (P : ProjS) (h : IntLit P) :
    (applyMigrationsS P).1.toProj = (applyMigrations P.toProj).1
    ∧ (applyMigrationsS P).2 = .base (applyMigrations P.toProj).2
    ∧ IntLit (applyMigrationsS P).1 := by
  unfold applyMigrationsS applyMigrations
  have hL : ({ P with lock := true } : ProjS).toProj = { P.toProj with lock := true } := rfl
  simp only []
  rw [detectS_toProj _ (intLit_lock P true h) SCHEMA, hL]
  cases hd : detect { P.toProj with lock := true } SCHEMA with
  | none => exact ⟨rfl, rfl, h⟩
  | some n =>
    simp only [Int.ofNat_eq_natCast, gt_iff_lt, Int.ofNat_lt, Int.toNat_natCast]
    by_cases hgt : SCHEMA < n
    · simp only [hgt, if_true]
      exact ⟨by first | rfl | trivial, by first | rfl | trivial, h⟩
    · simp only [hgt, if_false]
      have := loopS_toProj (SCHEMA + 1) n { P with lock := true } (intLit_lock P true h)
      rw [hL] at this
      rcases hls : loopS (SCHEMA + 1) n { P with lock := true } with ⟨Q, r⟩
      rcases hln : loop (SCHEMA + 1) n { P.toProj with lock := true } with ⟨Q', r'⟩
      rw [hls, hln] at this
      simp only at this
      obtain ⟨h1, h2, h3⟩ := this
      subst h1; subst h2
      exact ⟨rfl, rfl, h3⟩

/-! ### a version string that `int()` rejects -/

theorem applyMigrationsS_valueError (P : ProjS)
    (hd : detectS { P with lock := true } SCHEMA = .valueError) :
    applyMigrationsS P = ({ P with lock := false }, .valueError) := by
  unfold applyMigrationsS
  simp only [hd]

/-- `.signac/config` is there and its version string is no integer literal -/
theorem detectS_cfg_valueError (P : ProjS) (c : ConfS) (s : String) (hc : P.cfg = some c)
    (hv : c.version = some s) (hs : pyInt s = none) : detectS P SCHEMA = .valueError := by
  refine detectS_valueError P SCHEMA c s ?_ hv hs
  simp [schema_eq, firstLoadS, loaderS, loadV2S, hc]

/-- no `.signac/config`, a loadable `signac.rc` whose version string is no integer literal -/
theorem detectS_rc_valueError (P : ProjS) (c : ConfS) (s : String) (hcfg : P.cfg = none)
    (hc : P.rc = some c) (hp : c.project.isSome = true)
    (hv : c.version = some s) (hs : pyInt s = none) : detectS P SCHEMA = .valueError := by
  refine detectS_valueError P SCHEMA c s ?_ hv hs
  simp [schema_eq, firstLoadS, loaderS, loadV2S, loadV1S, hc, hcfg, hp]

/-! ### the embedding of numeric projects -/

theorem toConf_ofConf (c : Conf) : (ofConf c).toConf = c := by
  cases c with
  | mk v p w => cases v <;> simp [ofConf, ConfS.toConf, declared_repr]

theorem toProj_ofProj (P : Proj) : (ofProj P).toProj = P := by
  cases P with
  | mk rc cfg =>
    simp only [ofProj, ProjS.toProj, Option.map_map]
    have : ConfS.toConf ∘ ofConf = id := funext toConf_ofConf
    simp [this]

theorem intLit_ofProj (P : Proj) : IntLit (ofProj P) := by
  intro c hc s hs
  have : ∃ c0 : Conf, c = ofConf c0 := by
    simp only [ofProj, Option.map_eq_some_iff] at hc
    rcases hc with ⟨c0, _, e⟩ | ⟨c0, _, e⟩ <;> exact ⟨c0, e.symm⟩
  obtain ⟨c0, rfl⟩ := this
  simp only [ofConf, Option.map_eq_some_iff] at hs
  obtain ⟨n, _, rfl⟩ := hs
  rw [declared_toString]; rfl

end Signac.MigS

/-
  Order independence of the schema gate of `sync_projects` (P20, continuation of
  `Signac/Proofs/SchemaGate.lean`): Mapping equality of schemas is transitive (no hypothesis: Python
  `==` on JSON-born values is transitive, `pyEq_trans`), the reported KEYS do not depend on the job
  order, and — when no key holds a bool next to an `==`-equal int (`NoBoolIntClash`, F-6a excluded) —
  neither do the reported value sets up to `==`, hence neither does the gate.  Core only.
-/
import Signac.Proofs.SchemaGate
namespace Signac.Schema
open Signac

/-! ### transitivity of set / dict / schema equality -/

theorem valSetEq_trans {a b c : List JVal} (h1 : valSetEq a b = true) (h2 : valSetEq b c = true) :
    valSetEq a c = true := by
  obtain ⟨l1, c1⟩ := valSetEq_iff.mp h1
  obtain ⟨l2, c2⟩ := valSetEq_iff.mp h2
  refine valSetEq_iff.mpr ⟨l1.trans l2, fun x hx => ?_⟩
  obtain ⟨r, hr, e1⟩ := c1 x hx
  obtain ⟨s, hs, e2⟩ := c2 r hr
  exact ⟨s, hs, pyEq_trans e2 e1⟩

theorem dictEq_trans {β : Type} {eqv : β → β → Bool} {a b c : List (String × β)}
    (ht : ∀ x y z, eqv x y = true → eqv y z = true → eqv x z = true)
    (h1 : dictEq eqv a b = true) (h2 : dictEq eqv b c = true) : dictEq eqv a c = true := by
  obtain ⟨l1, c1⟩ := dictEq_iff.mp h1
  obtain ⟨l2, c2⟩ := dictEq_iff.mp h2
  refine dictEq_iff.mpr ⟨l1.trans l2, fun kv hkv => ?_⟩
  obtain ⟨w, hw, e1⟩ := c1 kv hkv
  obtain ⟨u, hu, e2⟩ := c2 (kv.1, w) (alookup_mem hw)
  exact ⟨u, hu, ht _ _ _ e1 e2⟩

theorem typedEq_trans {a b c : List (String × List JVal)} (h1 : typedEq a b = true)
    (h2 : typedEq b c = true) : typedEq a c = true :=
  dictEq_trans (fun _ _ _ => valSetEq_trans) h1 h2

/-- Mapping equality of schemas is transitive; no well-formedness is needed, because Python `==` is
    transitive on all JSON-born values (`pyEq_trans`: numbers are compared exactly, also int/float). -/
theorem schemaEq_trans' {a b c : Schema} (h1 : schemaEq a b = true) (h2 : schemaEq b c = true) :
    schemaEq a c = true :=
  dictEq_trans (fun _ _ _ => typedEq_trans) h1 h2

/-- the statement as asked for (the well-formedness hypotheses are not used) -/
theorem schemaEq_trans {a b c : Schema} (_ha : SchemaWF a) (_hb : SchemaWF b) (_hc : SchemaWF c)
    (h1 : schemaEq a b = true) (h2 : schemaEq b c = true) : schemaEq a c = true :=
  schemaEq_trans' h1 h2

/-- equal schemas (both ways) are interchangeable on the left of `==` … -/
theorem schemaEq_congr_left {a a' : Schema} (b : Schema) (h : schemaEq a a' = true)
    (h' : schemaEq a' a = true) : schemaEq a b = schemaEq a' b := by
  cases h1 : schemaEq a b with
  | true => exact (schemaEq_trans' h' h1).symm
  | false =>
    cases h2 : schemaEq a' b with
    | false => rfl
    | true => rw [schemaEq_trans' h h2] at h1; cases h1

/-- … and on the right -/
theorem schemaEq_congr_right {a a' : Schema} (b : Schema) (h : schemaEq a a' = true)
    (h' : schemaEq a' a = true) : schemaEq b a = schemaEq b a' := by
  cases h1 : schemaEq b a with
  | true => exact (schemaEq_trans' h1 h).symm
  | false =>
    cases h2 : schemaEq b a' with
    | false => rfl
    | true => rw [schemaEq_trans' h2 h'] at h1; cases h1

/-! ### the reported keys do not depend on the job order -/

theorem detectSchema_perm_keys {jobs jobs' : List Job} (hp : jobs.Perm jobs') (k : String) :
    k ∈ (detectSchema false jobs).map Prod.fst ↔ k ∈ (detectSchema false jobs').map Prod.fst := by
  rw [mem_schema_keys, mem_schema_keys]
  simp only [Bool.false_eq_true, false_and, not_false_eq_true, and_true]
  constructor
  · rintro ⟨j, hj, h⟩; exact ⟨j, hp.mem_iff.mp hj, h⟩
  · rintro ⟨j, hj, h⟩; exact ⟨j, hp.mem_iff.mpr hj, h⟩

/-! ### sets that cover each other up to `==` have the same size -/

theorem pyApart_length_le : ∀ (a b : List JVal), PyApart a →
    (∀ x ∈ a, NodupKeysVal x) → (∀ y ∈ b, NodupKeysVal y) →
    (∀ x ∈ a, ∃ r ∈ b, pyEq r x = true) → a.length ≤ b.length := by
  intro a
  induction a with
  | nil => intro b _ _ _ _; simp
  | cons x a' ih =>
    intro b hp ha hb hs
    simp only [List.pairwise_cons] at hp
    obtain ⟨r, hr, hrx⟩ := hs x (by simp)
    obtain ⟨b1, b2, e⟩ := List.append_of_mem hr
    subst e
    have hxr : pyEq x r = true := pyEq_symm (hb r hr) (ha x (by simp)) hrx
    have hs' : ∀ x' ∈ a', ∃ r' ∈ b1 ++ b2, pyEq r' x' = true := by
      intro x' hx'
      obtain ⟨r', hr', he⟩ := hs x' (by simp [hx'])
      simp only [List.mem_append, List.mem_cons] at hr'
      rcases hr' with h1 | h1 | h1
      · exact ⟨r', by simp [h1], he⟩
      · subst h1
        have := pyEq_trans hxr he
        rw [hp.1 x' hx'] at this
        cases this
      · exact ⟨r', by simp [h1], he⟩
    have := ih (b1 ++ b2) hp.2 (fun z hz => ha z (by simp [hz]))
      (fun z hz => hb z (by
        simp only [List.mem_append, List.mem_cons] at hz ⊢
        rcases hz with h | h
        · exact Or.inl h
        · exact Or.inr (Or.inr h))) hs'
    simp only [List.length_append, List.length_cons] at this ⊢
    omega

/-! ### `reported` / `typedLookup` in terms of `alookup` -/

theorem typedLookup_alookup (tvs : List (String × List JVal)) (t : String) :
    typedLookup tvs t = (alookup t tvs).getD [] := by
  induction tvs with
  | nil => simp [typedLookup, alookup]
  | cons a l ih =>
    obtain ⟨t', vs⟩ := a
    by_cases h : t = t'
    · subst h; simp [typedLookup, alookup]
    · have h' : (t' == t) = false := by simpa using fun e => h e.symm
      simp only [typedLookup, List.find?_cons, h', alookup, h, if_false] at ih ⊢
      exact ih

theorem reported_alookup {s : Schema} {k : String} {tv : List (String × List JVal)}
    (h : alookup k s = some tv) (t : String) : reported s k t = typedLookup tv t := by
  rw [reported_eq]
  induction s with
  | nil => simp [alookup] at h
  | cons a l ih =>
    obtain ⟨k', v⟩ := a
    simp only [alookup] at h
    by_cases e : k = k'
    · subst e
      simp only [if_true, Option.some.injEq] at h
      subst h
      simp
    · have e' : (k' == k) = false := by simpa using fun e2 => e e2.symm
      simp only [e, if_false] at h
      simp only [List.find?_cons, e']
      exact ih h

/-! ### no type is reported with an empty value set -/

/-- every type name of the value dict carries at least one value -/
def TypedNE (tvs : List (String × List JVal)) : Prop := ∀ tv ∈ tvs, tv.2 ≠ []

theorem addSet_ne_nil (v : JVal) (vs : List JVal) : addSet v vs ≠ [] := by
  unfold addSet
  split
  · next h => intro e; subst e; simp at h
  · simp

theorem typedNE_addTyped {v : JVal} {tvs : List (String × List JVal)} (h : TypedNE tvs) :
    TypedNE (addTyped v tvs) := by
  induction tvs with
  | nil =>
    intro tv htv
    simp only [addTyped, List.mem_singleton] at htv
    subst htv
    simp
  | cons a l ih =>
    obtain ⟨t', vs⟩ := a
    simp only [addTyped]
    split
    · intro tv htv
      simp only [List.mem_cons] at htv
      rcases htv with htv | htv
      · subst htv; exact addSet_ne_nil _ _
      · exact h tv (by simp [htv])
    · intro tv htv
      simp only [List.mem_cons] at htv
      rcases htv with htv | htv
      · subst htv; exact h _ (by simp)
      · exact ih (fun tv htv => h tv (by simp [htv])) tv htv

theorem collectByType_ne (vals : List JVal) : TypedNE (collectByType vals) := by
  unfold collectByType
  suffices ∀ acc, TypedNE acc → TypedNE (vals.foldl (fun a v => addTyped v a) acc) from
    this [] (by intro tv h; simp at h)
  induction vals with
  | nil => intro acc h; exact h
  | cons v vs ih => intro acc h; exact ih _ (typedNE_addTyped h)

theorem detectSchema_ne (excl : Bool) (jobs : List Job) :
    ∀ kv ∈ detectSchema excl jobs, TypedNE kv.2 := by
  intro kv hkv
  rw [detectSchema_eq] at hkv
  obtain ⟨k, _, rfl⟩ := List.mem_map.mp hkv
  exact collectByType_ne _

/-! ### equality from mutual covering -/

theorem typedLookup_of_mem {c : List (String × List JVal)} (hc : ValsWF c) :
    ∀ tv ∈ c, typedLookup c tv.1 = tv.2 := by
  intro tv htv
  rw [typedLookup_alookup, alookup_of_mem hc.types_nodup htv]
  rfl

theorem cover_types {c d : List (String × List JVal)} (hc : ValsWF c) (nc : TypedNE c)
    (hcd : ∀ t, ∀ x ∈ typedLookup c t, ∃ r ∈ typedLookup d t, pyEq r x = true) :
    ∀ tv ∈ c, ∃ ws, alookup tv.1 d = some ws ∧ typedLookup d tv.1 = ws := by
  intro tv htv
  obtain ⟨x, hx⟩ := List.exists_mem_of_ne_nil _ (nc tv htv)
  rw [← typedLookup_of_mem hc tv htv] at hx
  obtain ⟨r, hr, _⟩ := hcd tv.1 x hx
  rw [typedLookup_alookup] at hr ⊢
  cases hl : alookup tv.1 d with
  | none => simp [hl] at hr
  | some ws => exact ⟨ws, rfl, rfl⟩

/-- two well-formed value dicts without empty sets whose sets cover each other type by type up to
    `==` are equal -/
theorem typedEq_of_cover {a b : List (String × List JVal)} (ha : ValsWF a) (hb : ValsWF b)
    (na : TypedNE a) (nb : TypedNE b)
    (hab : ∀ t, ∀ x ∈ typedLookup a t, ∃ r ∈ typedLookup b t, pyEq r x = true)
    (hba : ∀ t, ∀ y ∈ typedLookup b t, ∃ r ∈ typedLookup a t, pyEq r y = true) :
    typedEq a b = true := by
  have sab : ∀ t ∈ a.map Prod.fst, t ∈ b.map Prod.fst := by
    intro t ht
    obtain ⟨tv, htv, e⟩ := List.mem_map.mp ht
    obtain ⟨ws, hws, _⟩ := cover_types ha na hab tv htv
    exact e ▸ key_of_alookup hws
  have sba : ∀ t ∈ b.map Prod.fst, t ∈ a.map Prod.fst := by
    intro t ht
    obtain ⟨tv, htv, e⟩ := List.mem_map.mp ht
    obtain ⟨ws, hws, _⟩ := cover_types hb nb hba tv htv
    exact e ▸ key_of_alookup hws
  have l1 := length_le_of_nodup_subset ha.types_nodup sab
  have l2 := length_le_of_nodup_subset hb.types_nodup sba
  simp only [List.length_map] at l1 l2
  refine dictEq_iff.mpr ⟨by omega, fun tv htv => ?_⟩
  obtain ⟨ws, hws, hl⟩ := cover_types ha na hab tv htv
  have hwm : (tv.1, ws) ∈ b := alookup_mem hws
  have c1 : ∀ x ∈ tv.2, ∃ r ∈ ws, pyEq r x = true := by
    intro x hx
    have := hab tv.1 x (by rw [typedLookup_of_mem ha tv htv]; exact hx)
    rwa [hl] at this
  have c2 : ∀ y ∈ ws, ∃ r ∈ tv.2, pyEq r y = true := by
    intro y hy
    have := hba tv.1 y (by rw [hl]; exact hy)
    rwa [typedLookup_of_mem ha tv htv] at this
  refine ⟨ws, hws, valSetEq_iff.mpr ⟨?_, c1⟩⟩
  exact Nat.le_antisymm
    (pyApart_length_le tv.2 ws (ha.apart tv htv) (ha.ok tv htv) (hb.ok _ hwm) c1)
    (pyApart_length_le ws tv.2 (hb.apart _ hwm) (hb.ok _ hwm) (ha.ok tv htv) c2)

/-- two well-formed schemas without empty sets, with the same keys, whose reported value sets cover
    each other (per key and type, up to `==`) are equal -/
theorem schemaEq_of_cover {s s' : Schema} (hs : SchemaWF s) (hs' : SchemaWF s')
    (ns : ∀ kv ∈ s, TypedNE kv.2) (ns' : ∀ kv ∈ s', TypedNE kv.2)
    (hk : ∀ k, k ∈ s.map Prod.fst ↔ k ∈ s'.map Prod.fst)
    (hab : ∀ k t, ∀ x ∈ reported s k t, ∃ r ∈ reported s' k t, pyEq r x = true)
    (hba : ∀ k t, ∀ y ∈ reported s' k t, ∃ r ∈ reported s k t, pyEq r y = true) :
    schemaEq s s' = true := by
  have l1 := length_le_of_nodup_subset hs.keys_nodup (fun k h => (hk k).mp h)
  have l2 := length_le_of_nodup_subset hs'.keys_nodup (fun k h => (hk k).mpr h)
  simp only [List.length_map] at l1 l2
  refine dictEq_iff.mpr ⟨by omega, fun kv hkv => ?_⟩
  have h1 : alookup kv.1 s = some kv.2 := alookup_of_mem hs.keys_nodup hkv
  obtain ⟨w, hw⟩ := alookup_of_key ((hk kv.1).mp (List.mem_map.mpr ⟨kv, hkv, rfl⟩))
  have hwm : (kv.1, w) ∈ s' := alookup_mem hw
  refine ⟨w, hw, typedEq_of_cover (hs.vals kv hkv) (hs'.vals _ hwm) (ns kv hkv) (ns' _ hwm) ?_ ?_⟩
  · intro t x hx
    rw [← reported_alookup h1] at hx
    rw [← reported_alookup hw]
    exact hab _ _ x hx
  · intro t y hy
    rw [← reported_alookup hw] at hy
    rw [← reported_alookup h1]
    exact hba _ _ y hy

/-! ### detected schemas of re-ordered jobs -/

theorem noBoolIntClash_perm {jobs jobs' : List Job} (hp : jobs.Perm jobs')
    (h : NoBoolIntClash jobs) : NoBoolIntClash jobs' :=
  fun k j1 h1 j2 h2 => h k j1 (hp.mem_iff.mpr h1) j2 (hp.mem_iff.mpr h2)

/-- every value reported for `jobs` has an `==`-equal value reported under the same key and type for
    any clash-free selection `jobs'` that contains the jobs of `jobs` (via `reported_sound` and
    `reported_complete_typed`, i.e. `schema_values_sound` / `schema_values_exact_partial`) -/
theorem reported_cover {excl : Bool} {jobs jobs' : List Job} (hsub : ∀ j ∈ jobs, j ∈ jobs')
    (hc : NoBoolIntClash jobs') (hj : ∀ j ∈ jobs, NodupKeysObj j.sp)
    (hk : ∀ k, k ∈ (detectSchema excl jobs).map Prod.fst → k ∈ (detectSchema excl jobs').map Prod.fst)
    (k t : String) :
    ∀ x ∈ reported (detectSchema excl jobs) k t,
      ∃ r ∈ reported (detectSchema excl jobs') k t, pyEq r x = true := by
  intro x hx
  have hkin : k ∈ (detectSchema excl jobs).map Prod.fst := by
    by_cases h : k ∈ (detectSchema excl jobs).map Prod.fst
    · exact h
    · rw [reported_of_not_key t h] at hx; simp at hx
  obtain ⟨ht, hno, j, hjm, hv⟩ := reported_sound hx
  obtain ⟨r, hr, hs⟩ := reported_complete_typed hc (hk k hkin) (hsub j hjm) hv hno
  rw [ht] at hr
  refine ⟨r, hr, ?_⟩
  rcases hs with hs | hs
  · subst hs
    exact pyEq_refl_val _
      (getPath_nodupKeys _ _ _ (by simpa [NodupKeysVal] using hj j hjm) hv)
  · simp only [slotEq, Bool.and_eq_true] at hs
    exact hs.2

/-- On the proven domain (no bool next to an `==`-equal int under one key; state points are Python
    dicts) the detected schema does not depend on the job order, up to Mapping equality. -/
theorem detectSchema_perm_schemaEq_partial {jobs jobs' : List Job} (hclash : NoBoolIntClash jobs)
    (hj : ∀ j ∈ jobs, NodupKeysObj j.sp) (hp : jobs.Perm jobs') :
    schemaEq (detectSchema false jobs) (detectSchema false jobs') = true := by
  have hj' : ∀ j ∈ jobs', NodupKeysObj j.sp := fun j h => hj j (hp.mem_iff.mpr h)
  exact schemaEq_of_cover (detectSchema_wf false hj) (detectSchema_wf false hj')
    (detectSchema_ne false jobs) (detectSchema_ne false jobs')
    (detectSchema_perm_keys hp)
    (fun k t => reported_cover (fun j h => hp.mem_iff.mp h) (noBoolIntClash_perm hp hclash) hj
      (fun k h => (detectSchema_perm_keys hp k).mp h) k t)
    (fun k t => reported_cover (fun j h => hp.mem_iff.mpr h) hclash hj'
      (fun k h => (detectSchema_perm_keys hp k).mpr h) k t)

theorem isEmpty_eq_of_schemaEq {a b : Schema} (h : schemaEq a b = true) : a.isEmpty = b.isEmpty := by
  have hl := (dictEq_iff.mp h).1
  cases a <;> cases b <;> simp_all

/-- The gate does not depend on the order of the SOURCE jobs when these are free of the bool/int clash
    (nothing is asked of the destination). -/
theorem syncGate_perm_partial {src src' : List Job} (dst : List Job) (hclash : NoBoolIntClash src)
    (hj : ∀ j ∈ src, NodupKeysObj j.sp) (hp : src.Perm src') :
    syncGate src dst = syncGate src' dst := by
  have hj' : ∀ j ∈ src', NodupKeysObj j.sp := fun j h => hj j (hp.mem_iff.mpr h)
  have e1 := detectSchema_perm_schemaEq_partial hclash hj hp
  have e2 := schemaEq_symm' (detectSchema_wf false hj) (detectSchema_wf false hj') e1
  rw [syncGate_simple, syncGate_simple, schemaEq_congr_left _ e1 e2, isEmpty_eq_of_schemaEq e1]

/-- … nor on the order of the DESTINATION jobs when these are free of the clash. -/
theorem syncGate_perm_partial_dst (src : List Job) {dst dst' : List Job} (hclash : NoBoolIntClash dst)
    (hj : ∀ j ∈ dst, NodupKeysObj j.sp) (hp : dst.Perm dst') :
    syncGate src dst = syncGate src dst' := by
  have hj' : ∀ j ∈ dst', NodupKeysObj j.sp := fun j h => hj j (hp.mem_iff.mpr h)
  have e1 := detectSchema_perm_schemaEq_partial hclash hj hp
  have e2 := schemaEq_symm' (detectSchema_wf false hj) (detectSchema_wf false hj') e1
  rw [syncGate_simple, syncGate_simple, schemaEq_congr_right _ e1 e2, isEmpty_eq_of_schemaEq e1]

/-! ### non-vacuity -/

/-- a clash-free corpus of Python-dict state points with an int next to the equal float, a nested
    mapping and a list (hypotheses of `detectSchema_perm_schemaEq_partial`, `syncGate_perm_partial`);
    listed in another order it gives an `==`-equal schema (though with the keys in another order) and the
    same gate decision -/
example :
    let jobs : List Job := [⟨"j1", [("a", .int 1), ("b", .arr [.int 1])]⟩,
                            ⟨"j2", [("a", .flt 1 0 "1.0")]⟩,
                            ⟨"j3", [("a", .obj [("x", .null)])]⟩]
    let jobs' : List Job := [⟨"j3", [("a", .obj [("x", .null)])]⟩,
                             ⟨"j2", [("a", .flt 1 0 "1.0")]⟩,
                             ⟨"j1", [("a", .int 1), ("b", .arr [.int 1])]⟩]
    NoBoolIntClash jobs ∧ (∀ j ∈ jobs, NodupKeysObj j.sp)
      ∧ schemaEq (detectSchema false jobs) (detectSchema false jobs') = true
      ∧ (detectSchema false jobs).map Prod.fst ≠ (detectSchema false jobs').map Prod.fst
      ∧ syncGate jobs [⟨"j4", [("a", .int 1)]⟩] = syncGate jobs' [⟨"j4", [("a", .int 1)]⟩] := by
  refine ⟨noBoolIntClash_of_noBool (by decide), ?_, by decide, by decide, by decide⟩
  intro j hj
  simp only [List.mem_cons, List.not_mem_nil, or_false] at hj
  rcases hj with hj | hj | hj <;> subst hj <;> simp [NodupKeysObj, NodupKeysVal, NodupKeysList]

end Signac.Schema

/-
  Proofs/ViewFs — the finite-map file system of Signac.LinkedView: what `vget` sees after
  `verase` / `vput`, `unlinkOrRmdir`, `mkdirP`, `makeLink`, and running lists of steps.
-/
import Signac.LinkedView
namespace Signac.LV

theorem vget_erase (v : View) (p q : Path) :
    vget (verase v p) q = if q = p then none else vget v q := by
  induction v with
  | nil => simp [verase, vget]
  | cons x xs ih =>
    obtain ⟨k, e⟩ := x
    simp only [verase, List.filter] at ih ⊢
    by_cases hk : k = p
    · subst hk
      simp only [decide_true, Bool.not_true]
      rw [ih]
      by_cases hq : q = k
      · simp [hq]
      · have : ¬ k = q := fun h => hq h.symm
        simp [hq, vget, this]
    · simp only [hk, decide_false, Bool.not_false, vget]
      rw [ih]
      by_cases hq : q = p
      · subst hq; simp [hk]
      · simp [hq]

theorem vget_put (v : View) (p q : Path) (e : Entry) :
    vget (vput v p e) q = if q = p then some e else vget v q := by
  simp only [vput, vget]
  by_cases h : q = p
  · subst h; simp
  · have : ¬ p = q := fun h' => h h'.symm
    simp [h, this, vget_erase]

theorem vget_isSome_of_mem {v : View} {x : Path × Entry} (h : x ∈ v) : (vget v x.1).isSome := by
  induction v with
  | nil => cases h
  | cons y ys ih =>
    obtain ⟨k, e⟩ := y
    simp only [vget]
    by_cases hk : k = x.1
    · simp [hk]
    · simp only [hk, if_false]
      cases h with
      | head => exact absurd rfl hk
      | tail _ h' => exact ih h'

theorem mem_of_vget {v : View} {p : Path} {e : Entry} (h : vget v p = some e) : (p, e) ∈ v := by
  induction v with
  | nil => simp [vget] at h
  | cons y ys ih =>
    obtain ⟨k, e'⟩ := y
    simp only [vget] at h
    by_cases hk : k = p
    · simp only [hk, if_true, Option.some.injEq] at h
      subst hk; subst h; exact List.mem_cons_self
    · simp only [hk, if_false] at h
      exact List.mem_cons_of_mem _ (ih h)

theorem hasChild_iff (v : View) (p : Path) :
    hasChild v p = true ↔ ∃ q, properPrefix p q = true ∧ (vget v q).isSome := by
  simp only [hasChild, List.any_eq_true]
  constructor
  · rintro ⟨x, hx, hp⟩
    exact ⟨x.1, hp, vget_isSome_of_mem hx⟩
  · rintro ⟨q, hp, hs⟩
    obtain ⟨e, he⟩ := Option.isSome_iff_exists.mp hs
    exact ⟨(q, e), mem_of_vget he, hp⟩

theorem properPrefix_iff (p q : Path) : properPrefix p q = true ↔ p <+: q ∧ p.length < q.length := by
  simp [properPrefix, List.isPrefixOf_iff_prefix]

theorem properPrefix_ne {p q : Path} (h : properPrefix p q = true) : p ≠ q := by
  intro e; subst e
  have := (properPrefix_iff p p).mp h
  omega

theorem properPrefix_irrefl (p : Path) : properPrefix p p = false := by
  cases h : properPrefix p p
  · rfl
  · exact absurd rfl (properPrefix_ne h)

theorem properPrefix_trans {p q r : Path} (h1 : properPrefix p q = true) (h2 : properPrefix q r = true) :
    properPrefix p r = true := by
  rw [properPrefix_iff] at *
  exact ⟨h1.1.trans h2.1, by omega⟩

theorem properPrefix_of_prefix_of_proper {p q r : Path} (h1 : p <+: q) (h2 : properPrefix q r = true) :
    properPrefix p r = true := by
  rw [properPrefix_iff] at *
  exact ⟨h1.trans h2.1, by have := h1.length_le; omega⟩

theorem properPrefix_of_proper_of_prefix {p q r : Path} (h1 : properPrefix p q = true) (h2 : q <+: r) :
    properPrefix p r = true := by
  rw [properPrefix_iff] at *
  exact ⟨h1.1.trans h2, by have := h2.length_le; omega⟩

/-- a prefix is the same path or a proper prefix -/
theorem prefix_cases {p q : Path} (h : p <+: q) : p = q ∨ properPrefix p q = true := by
  by_cases hl : p.length < q.length
  · exact Or.inr ((properPrefix_iff p q).mpr ⟨h, hl⟩)
  · left
    have := h.length_le
    exact h.eq_of_length (by omega)

/-! ### removal -/

theorem unlinkOrRmdir_ok {v : View} {p : Path} (hp : (vget v p).isSome)
    (hc : ∀ q, properPrefix p q = true → vget v q = none) :
    unlinkOrRmdir p v = .ok (verase v p) := by
  unfold unlinkOrRmdir
  obtain ⟨e, he⟩ := Option.isSome_iff_exists.mp hp
  cases e with
  | link t => simp [he]
  | dir =>
    have : hasChild v p = false := by
      cases h : hasChild v p
      · rfl
      · obtain ⟨q, hq, hs⟩ := (hasChild_iff v p).mp h
        rw [hc q hq] at hs; cases hs
    simp [he, this]

/-- Removing a list of paths: every path is present when its turn comes and whatever lies below
    it has been removed earlier in the list. -/
theorem runSteps_remove (ps : List Path) (rest : List Step) (v : View)
    (hnd : ps.Nodup)
    (hpres : ∀ p ∈ ps, (vget v p).isSome)
    (hord : ∀ l1 p l2, ps = l1 ++ p :: l2 → ∀ q, properPrefix p q = true → (vget v q).isSome → q ∈ l1) :
    ∃ v', runSteps (ps.map Step.remove ++ rest) v = runSteps rest v' ∧
      ∀ q, vget v' q = if q ∈ ps then none else vget v q := by
  induction ps generalizing v with
  | nil => exact ⟨v, rfl, by simp⟩
  | cons p ps ih =>
    have hp : (vget v p).isSome := hpres p List.mem_cons_self
    have hc : ∀ q, properPrefix p q = true → vget v q = none := by
      intro q hq
      cases h : vget v q with
      | none => rfl
      | some e =>
        have := hord [] p ps rfl q hq (by simp [h])
        cases this
    have hstep := unlinkOrRmdir_ok hp hc
    have hnd' := (List.nodup_cons.mp hnd)
    obtain ⟨v', hrun, hget⟩ := ih (verase v p) hnd'.2
      (by
        intro p' hp'
        rw [vget_erase]
        have : p' ≠ p := fun e => hnd'.1 (e ▸ hp')
        simp [this, hpres p' (List.mem_cons_of_mem _ hp')])
      (by
        intro l1 p' l2 hsplit q hq hs
        rw [vget_erase] at hs
        by_cases hqp : q = p
        · simp [hqp] at hs
        · simp only [hqp, if_false] at hs
          have := hord (p :: l1) p' l2 (by simp [hsplit]) q hq hs
          cases this with
          | head => exact absurd rfl hqp
          | tail _ h => exact h)
    refine ⟨v', ?_, ?_⟩
    · simp only [List.map_cons, List.cons_append, runSteps, runStep, hstep]
      exact hrun
    · intro q
      rw [hget q, vget_erase]
      by_cases hqp : q = p
      · subst hqp; simp
      · simp [hqp]

/-! ### creation -/

/-- `q` is `pre` extended by a non-empty initial part of `cs` -/
def isMid (pre : Path) (cs : List String) (q : Path) : Prop :=
  ∃ a b, cs = a ++ b ∧ a ≠ [] ∧ q = pre ++ a

theorem isMid_cons (pre : Path) (c : String) (cs : List String) (q : Path) :
    isMid pre (c :: cs) q ↔ q = pre ++ [c] ∨ isMid (pre ++ [c]) cs q := by
  constructor
  · rintro ⟨a, b, hab, hne, hq⟩
    cases a with
    | nil => exact absurd rfl hne
    | cons x a' =>
      simp only [List.cons_append, List.cons.injEq] at hab
      obtain ⟨hx, hab'⟩ := hab
      subst hx
      cases a' with
      | nil => left; simpa using hq
      | cons y a'' =>
        right
        exact ⟨y :: a'', b, hab', by simp, by simp [hq]⟩
  · rintro (h | ⟨a, b, hab, hne, hq⟩)
    · exact ⟨[c], cs, rfl, by simp, h⟩
    · exact ⟨c :: a, b, by simp [hab], by simp, by simp [hq]⟩

theorem mkdirP_ok (cs : List String) (pre : Path) (v : View)
    (h : ∀ q, isMid pre cs q → vget v q = none ∨ vget v q = some .dir) :
    ∃ v', mkdirP pre cs v = .ok v' ∧
      ∀ q, (isMid pre cs q → vget v' q = some .dir) ∧ (¬ isMid pre cs q → vget v' q = vget v q) := by
  induction cs generalizing pre v with
  | nil =>
    refine ⟨v, rfl, ?_⟩
    intro q
    have : ¬ isMid pre [] q := by
      rintro ⟨a, b, hab, hne, _⟩
      have : a = [] := by
        cases a with
        | nil => rfl
        | cons x xs => simp at hab
      exact hne this
    exact ⟨fun h' => absurd h' this, fun _ => rfl⟩
  | cons c cs ih =>
    have h0 := h (pre ++ [c]) ((isMid_cons pre c cs _).mpr (Or.inl rfl))
    have hlen : ∀ q, isMid (pre ++ [c]) cs q → q ≠ pre ++ [c] := by
      rintro q ⟨a, b, _, hne, hq⟩ e
      rw [hq] at e
      have := congrArg List.length e
      simp at this
      exact hne this
    rcases h0 with h0 | h0
    · obtain ⟨v', hrun, hget⟩ := ih (pre ++ [c]) (vput v (pre ++ [c]) .dir) (by
        intro q hq
        rw [vget_put]
        simp only [hlen q hq, if_false]
        exact h q ((isMid_cons pre c cs q).mpr (Or.inr hq)))
      refine ⟨v', by simp only [mkdirP, h0]; exact hrun, ?_⟩
      intro q
      constructor
      · intro hm
        rcases (isMid_cons pre c cs q).mp hm with h' | h'
        · by_cases hq : isMid (pre ++ [c]) cs q
          · exact (hget q).1 hq
          · rw [(hget q).2 hq, vget_put]; simp [h']
        · exact (hget q).1 h'
      · intro hm
        have h1 : ¬ isMid (pre ++ [c]) cs q := fun h' => hm ((isMid_cons pre c cs q).mpr (Or.inr h'))
        have h2 : q ≠ pre ++ [c] := fun h' => hm ((isMid_cons pre c cs q).mpr (Or.inl h'))
        rw [(hget q).2 h1, vget_put]; simp [h2]
    · obtain ⟨v', hrun, hget⟩ := ih (pre ++ [c]) v (by
        intro q hq
        exact h q ((isMid_cons pre c cs q).mpr (Or.inr hq)))
      refine ⟨v', by simp only [mkdirP, h0]; exact hrun, ?_⟩
      intro q
      constructor
      · intro hm
        rcases (isMid_cons pre c cs q).mp hm with h' | h'
        · by_cases hq : isMid (pre ++ [c]) cs q
          · exact (hget q).1 hq
          · rw [(hget q).2 hq, h', h0]
        · exact (hget q).1 h'
      · intro hm
        have h1 : ¬ isMid (pre ++ [c]) cs q := fun h' => hm ((isMid_cons pre c cs q).mpr (Or.inr h'))
        exact (hget q).2 h1

theorem isMid_dropLast (p q : Path) :
    isMid [] p.dropLast q ↔ q ≠ [] ∧ properPrefix q p = true := by
  rw [properPrefix_iff]
  constructor
  · rintro ⟨a, b, hab, hne, hq⟩
    simp only [List.nil_append] at hq
    subst hq
    have h1 : q <+: p.dropLast := ⟨b, hab.symm⟩
    have h2 : p.dropLast <+: p := List.dropLast_prefix p
    refine ⟨hne, h1.trans h2, ?_⟩
    have := h1.length_le
    have hq0 : 0 < q.length := List.length_pos_iff.mpr hne
    simp only [List.length_dropLast] at this
    omega
  · rintro ⟨hne, ⟨r, hr⟩, hlen⟩
    have hrne : r ≠ [] := by
      intro e; subst e; simp at hr; subst hr; omega
    refine ⟨q, r.dropLast, ?_, hne, by simp⟩
    rw [← hr, List.dropLast_append_of_ne_nil hrne]

theorem makeLink_ok {p : Path} {t : String} {v : View} (hne : p ≠ [])
    (hpre : ∀ q, q ≠ [] → properPrefix q p = true → vget v q = none ∨ vget v q = some .dir)
    (hfree : vget v p = none) :
    ∃ v', makeLink p t v = .ok v' ∧
      ∀ q, vget v' q = if q = p then some (.link t)
                       else if q ≠ [] ∧ properPrefix q p = true then some .dir else vget v q := by
  obtain ⟨v1, hrun, hget⟩ := mkdirP_ok p.dropLast [] v (by
    intro q hq
    obtain ⟨h1, h2⟩ := (isMid_dropLast p q).mp hq
    exact hpre q h1 h2)
  have hp1 : vget v1 p = none := by
    have : ¬ isMid [] p.dropLast p := by
      rw [isMid_dropLast]; rintro ⟨_, h⟩
      rw [properPrefix_irrefl] at h; cases h
    rw [(hget p).2 this, hfree]
  refine ⟨vput v1 p (.link t), by simp [makeLink, hrun, hp1, hne], ?_⟩
  intro q
  rw [vget_put]
  by_cases hq : q = p
  · simp [hq]
  · simp only [hq, if_false]
    by_cases hm : isMid [] p.dropLast q
    · rw [(hget q).1 hm]; simp [(isMid_dropLast p q).mp hm]
    · have : ¬ (q ≠ [] ∧ properPrefix q p = true) := fun h => hm ((isMid_dropLast p q).mpr h)
      rw [(hget q).2 hm]; simp only [this, if_false]

/-- what the view looks like after linking `ks` -/
def afterLinks (ks : List (Path × String)) (v : View) (q : Path) : Option Entry :=
  match linkTarget ks q with
  | some t => some (.link t)
  | none => if q ≠ [] ∧ ks.any (fun k => properPrefix q k.1) = true then some .dir else vget v q

theorem linkTarget_none_of_not_mem {ks : List (Path × String)} {q : Path}
    (h : q ∉ ks.map (·.1)) : linkTarget ks q = none := by
  induction ks with
  | nil => rfl
  | cons k ks ih =>
    obtain ⟨p, t⟩ := k
    simp only [List.map_cons, List.mem_cons, not_or] at h
    have : ¬ p = q := fun e => h.1 e.symm
    simp [linkTarget, this, ih h.2]

/-- Linking a list of paths none of which exists, whose ancestors are directories or absent,
    and none of which lies below another. -/
theorem runSteps_mklink (ks : List (Path × String)) (v : View)
    (hnd : (ks.map (·.1)).Nodup)
    (hne : ∀ k ∈ ks, k.1 ≠ [])
    (hfree : ∀ k ∈ ks, vget v k.1 = none)
    (hpre : ∀ k ∈ ks, ∀ q, q ≠ [] → properPrefix q k.1 = true → vget v q = none ∨ vget v q = some .dir)
    (hnc : ∀ k ∈ ks, ∀ k' ∈ ks, properPrefix k.1 k'.1 = false) :
    ∃ v', runSteps (ks.map (fun k => Step.mklink k.1 k.2)) v = (v', none) ∧
      ∀ q, vget v' q = afterLinks ks v q := by
  induction ks generalizing v with
  | nil => exact ⟨v, rfl, by intro q; simp [afterLinks, linkTarget]⟩
  | cons k ks ih =>
    obtain ⟨p, t⟩ := k
    have hmem : (p, t) ∈ (p, t) :: ks := List.mem_cons_self
    obtain ⟨v1, hmk, hget1⟩ := makeLink_ok (t := t) (hne _ hmem) (hpre _ hmem) (hfree _ hmem)
    have hget1 : ∀ q, vget v1 q = if q = p then some (.link t)
        else if q ≠ [] ∧ properPrefix q p = true then some .dir else vget v q := hget1
    have hmk : makeLink p t v = .ok v1 := hmk
    simp only [List.map_cons, List.nodup_cons] at hnd
    obtain ⟨v', hrun, hget⟩ := ih v1 hnd.2
      (fun k hk => hne k (List.mem_cons_of_mem _ hk))
      (by
        intro k hk
        rw [hget1]
        have h1 : k.1 ≠ p := fun e => hnd.1 (e ▸ List.mem_map_of_mem hk)
        have h2 : properPrefix k.1 p = false := hnc k (List.mem_cons_of_mem _ hk) _ hmem
        simp [h1, h2, hfree k (List.mem_cons_of_mem _ hk)])
      (by
        intro k hk q hq hqk
        rw [hget1]
        by_cases e : q = p
        · subst e
          have := hnc _ hmem k (List.mem_cons_of_mem _ hk)
          simp only at this
          rw [this] at hqk; cases hqk
        · simp only [e, if_false]
          by_cases hqp : q ≠ [] ∧ properPrefix q p = true
          · simp [hqp]
          · simp only [hqp, if_false]
            exact hpre k (List.mem_cons_of_mem _ hk) q hq hqk)
      (fun k hk k' hk' => hnc k (List.mem_cons_of_mem _ hk) k' (List.mem_cons_of_mem _ hk'))
    refine ⟨v', by simp only [List.map_cons, runSteps, runStep, hmk]; exact hrun, ?_⟩
    intro q
    rw [hget q]
    simp only [afterLinks, linkTarget, List.any_cons]
    by_cases e : p = q
    · subst e
      have : linkTarget ks p = none := linkTarget_none_of_not_mem hnd.1
      have hany : ks.any (fun k => properPrefix p k.1) = false := by
        rw [List.any_eq_false]
        intro k hk
        simpa using hnc _ hmem k (List.mem_cons_of_mem _ hk)
      simp [this, hany, hget1]
    · have e' : ¬ q = p := fun h => e h.symm
      simp only [e, if_false]
      cases hl : linkTarget ks q with
      | some t' => rfl
      | none =>
        simp only [hget1, e', if_false]
        by_cases hq : q = []
        · simp [hq]
        · by_cases h1 : properPrefix q p = true <;>
            by_cases h2 : (ks.any fun k => properPrefix q k.1) = true <;> simp [hq, h1, h2]

end Signac.LV

/-
  Proofs/ViewAccept — from the acceptance checks of `create_linked_view` to `Valid`.

  Since the F-17e fix the link paths are normalised (`normpath(join(path, "job"))`) before the
  checks and a normalised path generated for two jobs is refused.  With that
      createLinks jobs spec = .ok L → Valid L            (`valid_of_ok`)
  holds without side condition:
    nodup       the duplicate check on the normalised paths,
    noConflict  the leaf/node check,
    leafEnd     the raw path ends in the component "job", which survives `normpath`,
    plain       a normalised relative path has no "" or "." component; an absolute one starts with
                the component "" and is refused by the escape check.
  (Before the fix the implication was false; the former counter-examples are now accepted with a
  valid link set or rejected, see Properties/C17.lean.)
-/
import Signac.Proofs.ViewChecks
namespace Signac.LV

/-! ## `str.split('/')` on character lists -/

theorem splitOnSep_ne_nil (cs : List Char) : splitOnSep cs ≠ [] := by
  induction cs with
  | nil => simp [splitOnSep]
  | cons c rest ih =>
    simp only [splitOnSep]
    split
    · simp
    · split <;> simp

theorem splitOnSep_append_sep (a b : List Char) :
    splitOnSep (a ++ sepChar :: b) = splitOnSep a ++ splitOnSep b := by
  induction a with
  | nil => simp [splitOnSep]
  | cons c rest ih =>
    simp only [List.cons_append, splitOnSep]
    split
    · simp [ih]
    · rw [ih]
      cases h : splitOnSep rest with
      | nil => exact absurd h (splitOnSep_ne_nil rest)
      | cons w ws => simp

theorem splitOnSep_no_sep {a : List Char} (h : sepChar ∉ a) : splitOnSep a = [a] := by
  induction a with
  | nil => simp [splitOnSep]
  | cons c rest ih =>
    simp only [List.mem_cons, not_or] at h
    simp only [splitOnSep]
    rw [if_neg (fun e => h.1 e.symm), ih h.2]

theorem splitOnSep_comp_no_sep (cs : List Char) : ∀ w ∈ splitOnSep cs, sepChar ∉ w := by
  induction cs with
  | nil => simp [splitOnSep]
  | cons c rest ih =>
    simp only [splitOnSep]
    split
    · intro w hw
      simp only [List.mem_cons] at hw
      rcases hw with rfl | hw
      · simp
      · exact ih w hw
    · rename_i hc
      cases h : splitOnSep rest with
      | nil => exact absurd h (splitOnSep_ne_nil rest)
      | cons w ws =>
        rw [h] at ih
        intro u hu
        simp only [List.mem_cons] at hu
        rcases hu with rfl | hu
        · simp only [List.mem_cons, not_or]
          exact ⟨fun e => hc e.symm, ih w List.mem_cons_self⟩
        · exact ih u (List.mem_cons_of_mem _ hu)

/-- `'/'.join` on character lists -/
def joinChars : List (List Char) → List Char
  | [] => []
  | [x] => x
  | x :: y :: rest => x ++ sepChar :: joinChars (y :: rest)

theorem joinChars_splitOnSep (cs : List Char) : joinChars (splitOnSep cs) = cs := by
  induction cs with
  | nil => simp [splitOnSep, joinChars]
  | cons c rest ih =>
    simp only [splitOnSep]
    split
    · rename_i hc
      cases h : splitOnSep rest with
      | nil => exact absurd h (splitOnSep_ne_nil rest)
      | cons w ws =>
        rw [h] at ih
        simp [joinChars, ih, hc]
    · cases h : splitOnSep rest with
      | nil => exact absurd h (splitOnSep_ne_nil rest)
      | cons w ws =>
        rw [h] at ih
        cases ws with
        | nil => simp only [joinChars] at ih ⊢; rw [ih]
        | cons y ys => simp only [joinChars, List.cons_append] at ih ⊢; rw [ih]

theorem splitOnSep_joinChars {ws : List (List Char)} (hne : ws ≠ [])
    (h : ∀ w ∈ ws, sepChar ∉ w) : splitOnSep (joinChars ws) = ws := by
  induction ws with
  | nil => exact absurd rfl hne
  | cons x rest ih =>
    cases rest with
    | nil => simp only [joinChars]; exact splitOnSep_no_sep (h x List.mem_cons_self)
    | cons y ys =>
      simp only [joinChars]
      rw [splitOnSep_append_sep, splitOnSep_no_sep (h x List.mem_cons_self),
        ih (by simp) (fun w hw => h w (List.mem_cons_of_mem _ hw))]
      rfl

theorem splitSep_injective {p q : String} (h : splitSep p = splitSep q) : p = q := by
  simp only [splitSep] at h
  have h' : splitOnSep p.toList = splitOnSep q.toList :=
    (List.map_inj_right (fun _ _ e => String.ofList_injective e)).mp h
  have := congrArg joinChars h'
  rw [joinChars_splitOnSep, joinChars_splitOnSep] at this
  exact String.toList_injective this

theorem splitSep_ne_nil (p : String) : splitSep p ≠ [] := by
  simp [splitSep, splitOnSep_ne_nil]

/-! ## the raw link path `join(path, "job")` ends in the component "job" -/

theorem leaf_toList : leaf.toList = ['j', 'o', 'b'] := by decide

theorem splitOnSep_leaf : splitOnSep ['j', 'o', 'b'] = [['j', 'o', 'b']] := by decide

theorem ofList_leaf : String.ofList ['j', 'o', 'b'] = leaf := by decide

theorem osJoin2_leaf (p : String) :
    osJoin2 p leaf = if p.isEmpty || endsWithSep p then p ++ leaf else p ++ "/" ++ leaf := by
  have : startsWithSep leaf = false := by decide
  simp [osJoin2, this]

theorem sep_toList : ("/" : String).toList = [sepChar] := by decide

/-- a path string that ends in the separator: the separator is not doubled -/
theorem rawKey_endsWith {p : String} (h : endsWithSep p = true) :
    ∃ a, p.toList = a ++ [sepChar] ∧
      splitSep (osJoin2 p leaf) = (splitOnSep a).map String.ofList ++ [leaf] := by
  simp only [endsWithSep, beq_iff_eq] at h
  obtain ⟨a, ha⟩ := List.getLast?_eq_some_iff.mp h
  refine ⟨a, ha, ?_⟩
  have he : endsWithSep p = true := by simp [endsWithSep, ha]
  simp only [osJoin2_leaf, he, Bool.or_true, if_true, splitSep, String.toList_append, ha,
    leaf_toList]
  rw [List.append_assoc]
  show List.map String.ofList (splitOnSep (a ++ sepChar :: ['j', 'o', 'b'])) = _
  rw [splitOnSep_append_sep, splitOnSep_leaf]
  simp only [List.map_append, List.map_cons, List.map_nil, ofList_leaf]

/-- any other non-empty path string: "/job" is appended -/
theorem rawKey_not_endsWith {p : String} (hne : p ≠ "") (h : endsWithSep p = false) :
    splitSep (osJoin2 p leaf) = splitSep p ++ [leaf] := by
  have h0 : p.isEmpty = false := by
    cases hh : p.isEmpty with
    | false => rfl
    | true => exact absurd (String.isEmpty_iff.mp hh) hne
  simp only [osJoin2_leaf, h, h0, Bool.or_false, Bool.false_eq_true, if_false, splitSep,
    String.toList_append, sep_toList, leaf_toList]
  rw [List.append_assoc]
  show List.map String.ofList (splitOnSep (p.toList ++ sepChar :: ['j', 'o', 'b'])) = _
  rw [splitOnSep_append_sep, splitOnSep_leaf]
  simp only [List.map_append, List.map_cons, List.map_nil, ofList_leaf]

/-- every link path ends in the leaf name (whatever the path string) -/

theorem rawKey_shape (p : String) : ∃ X, splitSep (osJoin2 p leaf) = X ++ [leaf] := by
  by_cases hne : p = ""
  · subst hne; exact ⟨[], by decide⟩
  · cases h : endsWithSep p with
    | true =>
      obtain ⟨a, _, hk⟩ := rawKey_endsWith h
      exact ⟨_, hk⟩
    | false => exact ⟨_, rawKey_not_endsWith hne h⟩

/-! ## `normpath` -/

theorem normComps_mem (acc cs : List String) :
    ∀ c ∈ normComps acc cs, c ∈ acc ∨ (c ∈ cs ∧ c ≠ "" ∧ c ≠ ".") := by
  induction cs generalizing acc with
  | nil => intro c hc; left; simpa [normComps] using hc
  | cons d rest ih =>
    intro c hc
    simp only [normComps] at hc
    split at hc
    · rcases ih acc c hc with h | h
      · exact Or.inl h
      · exact Or.inr ⟨List.mem_cons_of_mem _ h.1, h.2⟩
    · rename_i hd
      simp only [Bool.or_eq_true, decide_eq_true_eq, not_or] at hd
      have step : ∀ acc', (∀ x ∈ acc', x ∈ acc ∨ x = d) → c ∈ normComps acc' rest →
          c ∈ acc ∨ (c ∈ d :: rest ∧ c ≠ "" ∧ c ≠ ".") := by
        intro acc' hacc hc'
        rcases ih acc' c hc' with h | h
        · rcases hacc c h with h' | h'
          · exact Or.inl h'
          · subst h'; exact Or.inr ⟨List.mem_cons_self, hd.1, hd.2⟩
        · exact Or.inr ⟨List.mem_cons_of_mem _ h.1, h.2⟩
      split at hc
      · exact step _ (by intro x hx; simp only [List.mem_cons] at hx; rcases hx with h | h <;> simp [h]) hc
      · split at hc
        · exact step _ (by intro x hx; simp only [List.mem_cons, List.not_mem_nil, or_false] at hx; simp [hx]) hc
        · split at hc
          · exact step _ (by intro x hx; simp only [List.mem_cons] at hx; rcases hx with h | h <;> simp [h]) hc
          · exact step _ (by intro x hx; left; exact List.mem_cons_of_mem _ hx) hc

theorem joinWith_sep_toList (cs : List String) :
    (joinWith "/" cs).toList = joinChars (cs.map String.toList) := by
  induction cs with
  | nil => simp [joinWith, joinChars]
  | cons x rest ih =>
    cases rest with
    | nil => simp [joinWith, joinChars]
    | cons y ys =>
      simp only [joinWith, String.toList_append, sep_toList, List.map_cons, joinChars] at ih ⊢
      rw [ih]
      simp

theorem splitSep_joinWith {cs : List String} (hne : cs ≠ []) (h : ∀ c ∈ cs, hasSep c = false) :
    splitSep (joinWith "/" cs) = cs := by
  simp only [splitSep, joinWith_sep_toList]
  rw [splitOnSep_joinChars (by simpa using hne)]
  · simp
  · intro w hw
    obtain ⟨c, hc, rfl⟩ := List.mem_map.mp hw
    simpa [hasSep] using h c hc

theorem splitSep_comp_no_sep (s : String) : ∀ c ∈ splitSep s, hasSep c = false := by
  intro c hc
  simp only [splitSep, List.mem_map] at hc
  obtain ⟨w, hw, rfl⟩ := hc
  have := splitOnSep_comp_no_sep s.toList w hw
  simpa [hasSep, String.toList_ofList] using this

/-- `normpath` yields "." or a '/'-join of ordinary names -/
theorem normComps_append (acc xs ys : List String) :
    normComps acc (xs ++ ys) = normComps (normComps acc xs).reverse ys := by
  induction xs generalizing acc with
  | nil => simp [normComps]
  | cons c rest ih =>
    simp only [List.cons_append, normComps]
    split
    · exact ih _
    · split
      · exact ih _
      · split
        · exact ih _
        · split <;> exact ih _

/-- the last component "job" survives the normalisation -/
theorem normComps_leaf (acc X : List String) :
    normComps acc (X ++ [leaf]) = normComps acc X ++ [leaf] := by
  rw [normComps_append]
  have h1 : (leaf = "" || leaf = ".") = false := by decide
  have h2 : (leaf != "..") = true := by decide
  simp [normComps, h1, h2]

/-- **Relative paths**: the link path is the list of normalised components. -/
theorem linkKey_rel {p : String} (h : startsWithSep (osJoin2 p leaf) = false) :
    linkKey p = normComps [] (splitSep (osJoin2 p leaf)) := by
  obtain ⟨X, hX⟩ := rawKey_shape p
  have hcs : ∀ c ∈ normComps [] (splitSep (osJoin2 p leaf)), hasSep c = false ∧ c ≠ "" ∧ c ≠ "." := by
    intro c hc
    rcases normComps_mem [] _ c hc with h' | h'
    · cases h'
    · exact ⟨splitSep_comp_no_sep _ c h'.1, h'.2⟩
  have hne : normComps [] (splitSep (osJoin2 p leaf)) ≠ [] := by
    rw [hX, normComps_leaf]; simp
  have hsplit := splitSep_joinWith hne (fun c hc => (hcs c hc).1)
  have hr : (joinWith "/" (normComps [] (splitSep (osJoin2 p leaf)))).isEmpty = false := by
    cases he : (joinWith "/" (normComps [] (splitSep (osJoin2 p leaf)))).isEmpty with
    | false => rfl
    | true =>
      exfalso
      rw [String.isEmpty_iff.mp he] at hsplit
      have h0 : splitSep "" = [""] := by decide
      rw [h0] at hsplit
      exact (hcs "" (by rw [← hsplit]; simp)).2.1 rfl
  simp only [linkKey, normpath, h, Bool.false_eq_true, if_false, hr]
  exact hsplit

theorem leadSlashes_toList (cs : List Char) : ∃ t, (leadSlashes cs).toList = sepChar :: t := by
  unfold leadSlashes
  split
  · exact ⟨[], by decide⟩
  · exact ⟨[sepChar], by decide⟩
  · exact ⟨[], by decide⟩

/-- **Absolute paths** keep their leading separator: the link path starts with the component "". -/
theorem linkKey_abs {p : String} (h : startsWithSep (osJoin2 p leaf) = true) :
    (linkKey p).head? = some "" := by
  obtain ⟨t, ht⟩ := leadSlashes_toList (osJoin2 p leaf).toList
  simp only [linkKey, normpath, h, if_true, splitSep, String.toList_append, ht, List.cons_append,
    splitOnSep, if_true, List.map_cons, List.head?_cons]

theorem escapes_of_head {k : Path} (h : k.head? = some "") : escapes k = true := by
  simp [escapes, h]

/-- shape of an accepted link path: normalised components, the last one "job" -/
theorem linkKey_shape {p : String} (he : escapes (linkKey p) = false) :
    ∃ Y, linkKey p = Y ++ [leaf] ∧ ∀ c ∈ linkKey p, c ≠ "" ∧ c ≠ "." := by
  cases hs : startsWithSep (osJoin2 p leaf) with
  | true =>
    rw [escapes_of_head (linkKey_abs hs)] at he
    cases he
  | false =>
    obtain ⟨X, hX⟩ := rawKey_shape p
    refine ⟨normComps [] X, by rw [linkKey_rel hs, hX, normComps_leaf], ?_⟩
    intro c hc
    rw [linkKey_rel hs] at hc
    rcases normComps_mem [] _ c hc with h' | h'
    · cases h'
    · exact h'.2

/-! ## accepted ⇒ valid -/

theorem keysOf_ok {jobs : List Job} {spec : PathSpec} {L : List (Path × String)}
    (h : createLinks jobs spec = .ok L) :
    ∃ ps, pathStrings jobs spec = some (.ok ps) ∧ keysOf L = ps.map linkKey := by
  obtain ⟨_, ps, h2, _, h4, _, _, _, h7⟩ := createLinks_ok h
  refine ⟨ps, h2, ?_⟩
  rw [h7, keysOf]
  exact List.map_fst_zip (by simp [h4])

/-- **Every accepted link set is valid.** -/
theorem valid_of_ok {jobs : List Job} {spec : PathSpec} {L : List (Path × String)}
    (h : createLinks jobs spec = .ok L) : Valid L := by
  obtain ⟨_, ps, h2, _, h4, hnd, hesc, hstr, h7⟩ := createLinks_ok h
  have hk : keysOf L = ps.map linkKey := by
    rw [h7, keysOf]
    exact List.map_fst_zip (by simp [h4])
  have hshape : ∀ k ∈ ps.map linkKey, ∃ Y, k = Y ++ [leaf] ∧ ∀ c ∈ k, c ≠ "" ∧ c ≠ "." := by
    intro k hk'
    obtain ⟨p, _, rfl⟩ := List.mem_map.mp hk'
    exact linkKey_shape (hesc _ hk')
  refine ⟨by rw [hk]; exact hnd, ?_, ?_, ?_⟩
  · rw [hk]
    intro p hp q hq
    apply hstr p hp q hq
    obtain ⟨Y, hY, _⟩ := hshape p hp
    rw [hY]; simp
  · rw [hk]
    intro p hp
    obtain ⟨Y, hY, _⟩ := hshape p hp
    rw [hY]; simp
  · rw [hk]
    intro p hp
    obtain ⟨_, _, h3⟩ := hshape p hp
    exact h3

-- decidable equality of results, for deciding concrete instances
deriving instance DecidableEq for LinkRes

end Signac.LV

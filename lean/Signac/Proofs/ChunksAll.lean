import Signac.Chunks
namespace Signac.Chunks

theorem take_append_slice {α} (xs : List α) (a b : Nat) (h : a ≤ b) :
    xs.take a ++ slice xs a b = xs.take b := by
  unfold slice
  have : xs.take a = (xs.take b).take a := by
    rw [List.take_take]; congr 1; omega
  rw [this, List.take_append_drop]

theorem leading_flatten {α} (xs : List α) (len : Nat) :
    ∀ m, ((List.range m).map (fun i => slice xs (i * len) ((i + 1) * len))).flatten = xs.take (m * len)
  | 0 => by simp
  | m + 1 => by
    rw [List.range_succ, List.map_append, List.flatten_append, leading_flatten xs len m]
    simp only [List.map_cons, List.map_nil, List.flatten_cons, List.flatten_nil, List.append_nil]
    exact take_append_slice xs (m * len) ((m + 1) * len) (Nat.mul_le_mul_right len (Nat.le_succ m))

/-- no id is dropped, duplicated or re-ordered: the chunks concatenate to the input -/
theorem splitChunks_flatten {α} (xs : List α) (k : Nat) (cs : List (List α))
    (h : splitChunks xs k = some cs) : cs.flatten = xs := by
  unfold splitChunks at h
  split at h
  · cases h
  · split at h
    · cases h; simp
    · cases h
      rw [List.flatten_append, leading_flatten]
      simp

theorem splitChunks_length {α} (xs : List α) (k : Nat) (cs : List (List α))
    (h : splitChunks xs k = some cs) : cs.length = k := by
  unfold splitChunks at h
  split at h
  · cases h
  · split at h
    · cases h; simp_all
    · cases h; simp; omega

theorem splitChunks_error_iff {α} (xs : List α) (k : Nat) : splitChunks xs k = none ↔ k = 0 := by
  unfold splitChunks
  split
  · simp_all
  · split <;> simp_all

theorem numChunks_pos (n : Nat) : 0 < numChunks n := by
  unfold numChunks; omega

end Signac.Chunks

/-
  Full idempotence of the sync model: the document merges (`DocSync.update`, `DocSync.ByKey` with
  any key strategy, at any nesting depth), the merge under backup-and-restore, a whole job-level
  sync with any document strategy, the clone-or-sync loop of the project-level sync, and every
  entry point.  Core only.

  The statement without hypotheses is false of the model (see Properties/C13.lean for the
  witnesses); the hypotheses used here are
    * `DocPatOk o`            — the exclusion table matches the job document file name and its
                                backup name (true of `re.match(FN_DOCUMENT, ·)`), so that the file
                                walk and the document merge do not fight over the document file;
    * `NodupKeysObj (doc)`    — the *source* documents have pairwise distinct keys in every mapping
                                (true of everything `json.loads` returns).
-/
import Signac.Proofs.SyncIdem
import Signac.Proofs.SchemaPyEq
namespace Signac.Sync

/-! ### Python `==` is reflexive on values whose mappings have distinct keys -/

mutual
  theorem pyEq_refl : ∀ (v : JVal), NodupKeysVal v → pyEq v v = true
    | .null, _ => by simp [pyEq]
    | .bool b, _ => by
      rw [pyEq_num (numVal_bool b) (numVal_bool b)]; simp [numEq]
    | .int i, _ => by
      rw [pyEq_num (p := (i, 0)) (q := (i, 0)) rfl rfl]; simp [numEq]
    | .flt n e r, _ => by
      rw [pyEq_num (p := (n, e)) (q := (n, e)) rfl rfl]; simp [numEq]
    | .str s, _ => by simp [pyEq]
    | .arr xs, hv => by
      simp only [pyEq]
      exact pyEqList_refl xs (by simpa [NodupKeysVal] using hv)
    | .obj a, hv => by
      have ha : NodupKeysObj a := by simpa [NodupKeysVal] using hv
      simp only [pyEq, Bool.and_eq_true, beq_self_eq_true, true_and]
      rw [pyEqEntries_iff]
      intro kv hkv
      exact ⟨kv.2, lookupKV_of_mem ha hkv, pyEq_refl_obj a ha kv hkv⟩
  theorem pyEqList_refl : ∀ (xs : List JVal), NodupKeysList xs → pyEqList xs xs = true
    | [], _ => by simp [pyEqList]
    | y :: ys, h => by
      simp only [NodupKeysList] at h
      simp only [pyEqList, Bool.and_eq_true]
      exact ⟨pyEq_refl y h.1, pyEqList_refl ys h.2⟩
  theorem pyEq_refl_obj : ∀ (kvs : List (String × JVal)), NodupKeysObj kvs →
      ∀ kv ∈ kvs, pyEq kv.2 kv.2 = true
    | [], _ => by intro x hx; simp at hx
    | (k, v) :: rest, h => by
      intro x hx
      simp only [NodupKeysObj] at h
      simp only [List.mem_cons] at hx
      rcases hx with hx | hx
      · subst hx; exact pyEq_refl v h.2.1
      · exact pyEq_refl_obj rest h.2.2 x hx
end

theorem NodupKeysObj_lookup {kvs : List (String × JVal)} (h : NodupKeysObj kvs) {k : String} {v : JVal}
    (hl : lookupKV k kvs = some v) : NodupKeysVal v :=
  NodupKeysObj_mem h (k, v) (lookupKV_mem hl)

/-! ### setKV -/

theorem setKV_self {k : String} {v : JVal} : ∀ {d : Doc}, lookupKV k d = some v → setKV k v d = d
  | [], h => by simp [lookupKV] at h
  | (k', v') :: tl, h => by
    by_cases hk : k = k'
    · subst hk
      simp only [lookupKV, if_true, Option.some.injEq] at h
      subst h
      simp [setKV]
    · have hk' : ¬ k' = k := fun e => hk e.symm
      simp only [lookupKV, hk, if_false] at h
      simp [setKV, hk', setKV_self h]

theorem setKV_absent {k : String} {v : JVal} : ∀ {d : Doc}, lookupKV k d = none → setKV k v d = d ++ [(k, v)]
  | [], _ => by simp [setKV]
  | (k', v') :: tl, h => by
    by_cases hk : k = k'
    · subst hk
      simp [lookupKV] at h
    · have hk' : ¬ k' = k := fun e => hk e.symm
      simp only [lookupKV, hk, if_false] at h
      simp [setKV, hk', setKV_absent h]

theorem lookupKV_append_none {k : String} : ∀ {d e : Doc}, lookupKV k d = none → lookupKV k (d ++ e) = lookupKV k e
  | [], _, _ => rfl
  | (k', v') :: tl, e, h => by
    by_cases hk : k = k'
    · subst hk
      simp [lookupKV] at h
    · simp only [lookupKV, hk, if_false] at h
      simp [lookupKV, hk, lookupKV_append_none h]

/-! ### `DocSync.update` is idempotent -/

theorem updateItems_idem (s : Doc) : ∀ d : Doc, (keys s).Nodup →
    updateItems s (updateItems s d) = updateItems s d := by
  induction s with
  | nil => intro d _; rfl
  | cons hd tl ih =>
    intro d hnd
    obtain ⟨k, v⟩ := hd
    have hnd' : (keys tl).Nodup := (List.nodup_cons.mp hnd).2
    have hk : k ∉ keys tl := (List.nodup_cons.mp hnd).1
    simp only [updateItems]
    have : lookupKV k (updateItems tl (setKV k v d)) = some v := by
      rw [updateItems_other k tl _ hk, lookupKV_setKV_same]
    rw [setKV_self this]
    exact ih _ hnd'

/-- `dict.update` into an empty mapping gives the source mapping -/
theorem updateItems_fresh (s : Doc) : ∀ d : Doc, (keys s).Nodup → (∀ k, k ∈ keys s → lookupKV k d = none) →
    updateItems s d = d ++ s := by
  induction s with
  | nil => intro d _ _; simp [updateItems]
  | cons hd tl ih =>
    intro d hnd hfree
    obtain ⟨k, v⟩ := hd
    have hnd' : (keys tl).Nodup := (List.nodup_cons.mp hnd).2
    have hk : k ∉ keys tl := (List.nodup_cons.mp hnd).1
    simp only [updateItems]
    rw [setKV_absent (hfree k (by simp [keys]))]
    rw [ih _ hnd']
    · simp
    · intro k' hk'
      have hne : k' ≠ k := by intro e; subst e; exact hk hk'
      rw [lookupKV_append_none (hfree k' (by simp [keys, hk']))]
      simp [lookupKV, hne]

/-! ### `DocSync.ByKey` is idempotent -/

theorem byKeyValue_obj_obj (ks : Option (String → Bool)) (root k : String) (sv dw : Doc) (st : ByKeySt) :
    byKeyValue ks root k (.obj sv) (.obj dw) st =
      { byKeyItems ks (root ++ k ++ ".") sv { st with dst := dw } with
        dst := setKV k (.obj (byKeyItems ks (root ++ k ++ ".") sv { st with dst := dw }).dst) st.dst } := by
  simp only [byKeyValue]

theorem byKeyValue_obj_leaf (ks : Option (String → Bool)) (root k : String) (sv : Doc) (w : JVal)
    (hw : IsLeaf w) (st : ByKeySt) :
    byKeyValue ks root k (.obj sv) w st =
      match sv with
      | [] => st
      | _ :: _ => { st with typeErr := true } := by
  cases w with
  | obj dw => simp [IsLeaf] at hw
  | _ => cases sv <;> simp [byKeyValue]

/-- what the second pass of ByKey over the same source leaves: nothing written, nothing changed,
    no type error, and no new conflict if the first pass recorded none -/
structure Quiet (r : ByKeySt) (D : Doc) (sk : List String) (w : Bool) (first : ByKeySt) : Prop where
  dst : r.dst = D
  typeErr : r.typeErr = false
  wrote : r.wrote = w
  skipped : first.skipped = [] → r.skipped = sk

theorem skipped_nil_of_grow {ks : Option (String → Bool)} {root : String} {items : Doc} {st : ByKeySt}
    (h : (byKeyItems ks root items st).skipped = []) : st.skipped = [] := by
  cases hs : st.skipped with
  | nil => rfl
  | cons x xs =>
    have := byKeyItems_skipped_grow ks x root items st (by simp [hs])
    rw [h] at this
    cases this

/-- a conflicting non-mapping source value: overwritten (then `==` the second time) or skipped
    (then skipped again) -/
theorem byKeyValue_quiet_leaf (ks : Option (String → Bool)) (v : JVal) (hleaf : IsLeaf v)
    (hv : NodupKeysVal v) (root k : String) (w : JVal) (st : ByKeySt)
    (hl : lookupKV k st.dst = some w) (hne : pyEq w v = false)
    (D : Doc) (sk : List String) (wr : Bool)
    (hD : lookupKV k D = lookupKV k (byKeyValue ks root k v w st).dst) :
    Quiet (byKeyStep ks root k v ⟨D, sk, wr, false⟩) D sk wr (byKeyValue ks root k v w st) := by
  rw [byKeyValue_leaf ks root k v w hleaf st] at hD ⊢
  cases ks with
  | none =>
    simp only at hD ⊢
    rw [hl] at hD
    simp only [byKeyStep, hD, hne, Bool.false_eq_true, if_false]
    rw [byKeyValue_leaf none root k v w hleaf]
    exact ⟨rfl, rfl, rfl, fun h => by simp at h⟩
  | some f =>
    by_cases hf : f (root ++ k) = true
    · simp only [hf, if_true] at hD ⊢
      rw [lookupKV_setKV_same] at hD
      simp only [byKeyStep, hD, pyEq_refl v hv, if_true]
      exact ⟨rfl, rfl, rfl, fun _ => rfl⟩
    · simp only [hf, Bool.false_eq_true, if_false] at hD ⊢
      rw [hl] at hD
      simp only [byKeyStep, hD, hne, Bool.false_eq_true, if_false]
      rw [byKeyValue_leaf (some f) root k v w hleaf]
      simp only [hf, Bool.false_eq_true, if_false]
      exact ⟨rfl, rfl, rfl, fun h => by simp at h⟩

mutual
  /-- one item `(k, v)` whose first pass went through `byKeyValue` (key on both sides, values not
      `==`): processing it again in any state whose destination has, under `k`, what the first
      pass left there is a no-op -/
  theorem byKeyValue_quiet (ks : Option (String → Bool)) :
      (v : JVal) → NodupKeysVal v → ∀ (root k : String) (w : JVal) (st : ByKeySt),
      (byKeyValue ks root k v w st).typeErr = false → lookupKV k st.dst = some w → pyEq w v = false →
      ∀ (D : Doc) (sk : List String) (wr : Bool),
      lookupKV k D = lookupKV k (byKeyValue ks root k v w st).dst →
      Quiet (byKeyStep ks root k v ⟨D, sk, wr, false⟩) D sk wr (byKeyValue ks root k v w st)
    | .obj sv, hv, root, k, w, st, hte, hl, hne, D, sk, wr, hD => by
      have hsv : NodupKeysObj sv := by simpa [NodupKeysVal] using hv
      by_cases hw : IsLeaf w
      · -- destination value is not a mapping: only an empty source mapping passes, silently
        rw [byKeyValue_obj_leaf ks root k sv w hw st] at hte hD ⊢
        cases sv with
        | cons x xs => simp at hte
        | nil =>
          simp only at hD ⊢
          rw [hl] at hD
          simp only [byKeyStep, hD, hne, Bool.false_eq_true, if_false]
          rw [byKeyValue_obj_leaf ks root k [] w hw]
          exact ⟨rfl, rfl, rfl, fun h => rfl⟩
      · cases w with
        | obj dw =>
          rw [byKeyValue_obj_obj] at hte hD ⊢
          simp only at hte hD
          rw [lookupKV_setKV_same] at hD
          have ih := byKeyItems_quiet ks sv hsv (root ++ k ++ ".") { st with dst := dw } hte
          simp only [byKeyStep, hD]
          split
          · exact ⟨rfl, rfl, rfl, fun _ => rfl⟩
          · rw [byKeyValue_obj_obj]
            have q := ih (byKeyItems ks (root ++ k ++ ".") sv { st with dst := dw }).dst sk wr (fun _ _ => rfl)
            refine ⟨?_, q.typeErr, q.wrote, fun h => q.skipped h⟩
            simp only [q.dst]
            exact setKV_self hD
        | _ => simp [IsLeaf] at hw
    | .null, hv, root, k, w, st, hte, hl, hne, D, sk, wr, hD =>
      byKeyValue_quiet_leaf ks .null (by simp [IsLeaf]) hv root k w st hl hne D sk wr hD
    | .bool _, hv, root, k, w, st, hte, hl, hne, D, sk, wr, hD =>
      byKeyValue_quiet_leaf ks _ (by simp [IsLeaf]) hv root k w st hl hne D sk wr hD
    | .int _, hv, root, k, w, st, hte, hl, hne, D, sk, wr, hD =>
      byKeyValue_quiet_leaf ks _ (by simp [IsLeaf]) hv root k w st hl hne D sk wr hD
    | .flt _ _ _, hv, root, k, w, st, hte, hl, hne, D, sk, wr, hD =>
      byKeyValue_quiet_leaf ks _ (by simp [IsLeaf]) hv root k w st hl hne D sk wr hD
    | .str _, hv, root, k, w, st, hte, hl, hne, D, sk, wr, hD =>
      byKeyValue_quiet_leaf ks _ (by simp [IsLeaf]) hv root k w st hl hne D sk wr hD
    | .arr _, hv, root, k, w, st, hte, hl, hne, D, sk, wr, hD =>
      byKeyValue_quiet_leaf ks _ (by simp [IsLeaf]) hv root k w st hl hne D sk wr hD
  /-- the whole loop: a second pass over the same items, started in any state whose destination
      agrees with the first pass's result on the keys of the items, is a no-op -/
  theorem byKeyItems_quiet (ks : Option (String → Bool)) :
      (s : List (String × JVal)) → NodupKeysObj s → ∀ (root : String) (st : ByKeySt),
      (byKeyItems ks root s st).typeErr = false →
      ∀ (D : Doc) (sk : List String) (wr : Bool),
      (∀ k, k ∈ keys s → lookupKV k D = lookupKV k (byKeyItems ks root s st).dst) →
      Quiet (byKeyItems ks root s ⟨D, sk, wr, false⟩) D sk wr (byKeyItems ks root s st)
    | [], _, root, st, _, D, sk, wr, _ => by
      simp only [byKeyItems]
      exact ⟨rfl, rfl, rfl, fun _ => rfl⟩
    | (k, v) :: tl, hs, root, st, hte, D, sk, wr, hD => by
      simp only [NodupKeysObj] at hs
      have hk : k ∉ keys tl := by
        intro hm
        simp only [keys, List.mem_map] at hm
        obtain ⟨kv, hkv, e⟩ := hm
        exact hs.1 kv hkv e
      have hst := byKeyItems_typeErr_false ks root _ st hte
      have e0 : byKeyItems ks root ((k, v) :: tl) st = byKeyItems ks root tl (byKeyStep ks root k v st) := by
        rw [byKeyItems_cons, hst]; simp
      have e0' : byKeyItems ks root ((k, v) :: tl) ⟨D, sk, wr, false⟩ =
          byKeyItems ks root tl (byKeyStep ks root k v ⟨D, sk, wr, false⟩) := by
        rw [byKeyItems_cons]; simp
      rw [e0] at hte hD
      rw [e0, e0']
      have hst1 := byKeyItems_typeErr_false ks root tl _ hte
      -- what the first pass left under `k`
      have hDk : lookupKV k D = lookupKV k (byKeyStep ks root k v st).dst := by
        rw [hD k (by simp [keys]), byKeyItems_other ks root k tl _ hk]
      -- the step for `(k, v)` is quiet
      have hstep : Quiet (byKeyStep ks root k v ⟨D, sk, wr, false⟩) D sk wr (byKeyStep ks root k v st) := by
        cases hl : lookupKV k st.dst with
        | none =>
          simp only [byKeyStep, hl] at hDk ⊢
          rw [lookupKV_setKV_same] at hDk
          simp only [hDk, pyEq_refl v hs.2.1, if_true]
          exact ⟨rfl, rfl, rfl, fun _ => rfl⟩
        | some w =>
          by_cases he : pyEq w v = true
          · simp only [byKeyStep, hl, he, if_true] at hDk ⊢
            simp only [hDk, he, if_true]
            exact ⟨rfl, rfl, rfl, fun _ => rfl⟩
          · have he' : pyEq w v = false := by simpa using he
            have e1 : byKeyStep ks root k v st = byKeyValue ks root k v w st := by
              simp only [byKeyStep, hl, he', Bool.false_eq_true, if_false]
            rw [e1] at hDk hst1 ⊢
            exact byKeyValue_quiet ks v hs.2.1 root k w st hst1 hl he' D sk wr hDk
      -- the rest of the loop, by induction
      have ih := byKeyItems_quiet ks tl hs.2.2 root (byKeyStep ks root k v st) hte D
        (byKeyStep ks root k v ⟨D, sk, wr, false⟩).skipped wr
        (fun k' hk' => hD k' (by simp [keys, List.mem_cons, hk'] ))
      have e2 : byKeyStep ks root k v ⟨D, sk, wr, false⟩ =
          ⟨D, (byKeyStep ks root k v ⟨D, sk, wr, false⟩).skipped, wr, false⟩ := by
        have h1 := hstep.dst
        have h2 := hstep.typeErr
        have h3 := hstep.wrote
        generalize byKeyStep ks root k v ⟨D, sk, wr, false⟩ = X at h1 h2 h3 ⊢
        cases X
        simp_all
      rw [e2]
      refine ⟨ih.dst, ih.typeErr, ih.wrote, fun h => ?_⟩
      rw [ih.skipped h]
      exact hstep.skipped (skipped_nil_of_grow h)
end

/-! ### the document strategies as a whole -/

theorem byKeyItems_fresh_dst (ks : Option (String → Bool)) (root : String) (items : Doc) :
    ∀ st : ByKeySt, (keys items).Nodup → (∀ k, k ∈ keys items → lookupKV k st.dst = none) →
    st.typeErr = false → (byKeyItems ks root items st).dst = st.dst ++ items := by
  induction items with
  | nil => intro st _ _ h; simp [byKeyItems]
  | cons hd tl ih =>
    intro st hnd hfree hte
    obtain ⟨k, v⟩ := hd
    have hnd' : (keys tl).Nodup := (List.nodup_cons.mp hnd).2
    have hk : k ∉ keys tl := (List.nodup_cons.mp hnd).1
    have h0 : lookupKV k st.dst = none := hfree k (by simp [keys])
    rw [byKeyItems_cons, hte]
    simp only [Bool.false_eq_true, if_false, byKeyStep, h0]
    rw [ih ⟨setKV k v st.dst, st.skipped, true, st.typeErr⟩ hnd' ?_ hte]
    · simp [setKV_absent h0]
    · intro k' hk'
      have : k' ≠ k := by
        intro e; subst e; exact hk hk'
      simp only
      rw [lookupKV_setKV_other this]
      exact hfree k' (by simp [keys, List.mem_cons, hk'])

/-- merging into an empty destination document: whatever is written is the source document -/
theorem runDocSync_fresh_doc (ds : DocSync) (s : Doc) (hnd : (keys s).Nodup)
    (hw : (runDocSync ds s []).wrote = true) (he : (runDocSync ds s []).err = none) :
    (runDocSync ds s []).doc = s := by
  cases ds with
  | byKey ks =>
    have h1 := byKeyItems_fresh ks "" s ⟨[], [], false, false⟩ hnd (by intro k _; rfl) rfl
    have h2 := byKeyItems_fresh_dst ks "" s ⟨[], [], false, false⟩ hnd (by intro k _; rfl) rfl
    simp only [runDocSync, h1.1, h1.2]
    cases ks <;> simpa using h2
  | update =>
    simp only [runDocSync]
    simpa using updateItems_fresh s [] hnd (by intro k _; rfl)
  | noSync => simp [runDocSync] at hw
  | copy => simp [runDocSync] at hw

/-- **Idempotence of the document merge alone** (`DocSync.update`, `DocSync.ByKey(ks)` for every
    key strategy `ks`, NO_SYNC, COPY; any nesting depth): if merging the source document `s` into
    `d` raised nothing, merging `s` into the merged document raises nothing and changes nothing. -/
theorem runDocSync_idem (ds : DocSync) (s d : Doc) (hs : NodupKeysObj s)
    (h : (runDocSync ds s d).err = none) :
    (runDocSync ds s (runDocSync ds s d).doc).err = none ∧
    (runDocSync ds s (runDocSync ds s d).doc).doc = (runDocSync ds s d).doc := by
  cases ds with
  | byKey ks =>
    have hte : (byKeyItems ks "" s ⟨d, [], false, false⟩).typeErr = false := by
      cases ht : (byKeyItems ks "" s ⟨d, [], false, false⟩).typeErr with
      | false => rfl
      | true => simp [runDocSync, ht] at h
    have q := byKeyItems_quiet ks s hs "" ⟨d, [], false, false⟩ hte
      (byKeyItems ks "" s ⟨d, [], false, false⟩).dst [] false (fun _ _ => rfl)
    have hdoc : (runDocSync (.byKey ks) s d).doc = (byKeyItems ks "" s ⟨d, [], false, false⟩).dst := by
      simp only [runDocSync, hte, Bool.false_eq_true, if_false]
      cases ks with
      | none => cases (byKeyItems none "" s ⟨d, [], false, false⟩).skipped <;> rfl
      | some f => rfl
    rw [hdoc]
    cases ks with
    | none =>
      have hsk : (byKeyItems none "" s ⟨d, [], false, false⟩).skipped = [] := by
        cases hk : (byKeyItems none "" s ⟨d, [], false, false⟩).skipped with
        | nil => rfl
        | cons x xs => simp [runDocSync, hte, hk] at h
      simp only [runDocSync, q.typeErr, q.skipped hsk, q.dst, Bool.false_eq_true, if_false]
      exact ⟨trivial, trivial⟩
    | some f =>
      simp only [runDocSync, q.typeErr, q.dst, Bool.false_eq_true, if_false]
      exact ⟨trivial, trivial⟩
  | update =>
    simp only [runDocSync]
    exact ⟨trivial, updateItems_idem s d (NodupKeysObj_keys hs)⟩
  | noSync => simp [runDocSync]
  | copy => simp [runDocSync]

/-! ### the merge under backup-and-restore -/

/-- a directory in which the document merge from the source document `s` has nothing to do -/
def DocStable (o : Opts) (ds : DocSync) (fn : Name) (s : Doc) (D : Entries) : Prop :=
  pyEq (.obj s) (.obj (docOf fn D)) = true ∨
  ((runDocSync ds s (docOf fn D)).err = none ∧
   ((runDocSync ds s (docOf fn D)).wrote = true →
      getE fn D = some (docFile o.now (runDocSync ds s (docOf fn D)).doc)) ∧
   ((docOf fn D).isEmpty = false → getE (fn ++ "~") D = none))

theorem DocStable.congr {o : Opts} {ds : DocSync} {fn : Name} {s : Doc} {D D' : Entries}
    (h1 : getE fn D' = getE fn D) (h2 : getE (fn ++ "~") D' = getE (fn ++ "~") D)
    (h : DocStable o ds fn s D) : DocStable o ds fn s D' := by
  have hd : docOf fn D' = docOf fn D := by simp only [docOf, h1]
  simpa only [DocStable, hd, h1, h2] using h

theorem pPut_same {n : Name} {c : Node} {a : Acc} (dry : Bool) (h : getE n a.d = some c) :
    (pPut dry n c a).d = a.d := by
  cases dry with
  | true => simp [pPut]
  | false => simp [pPut, setE_getE h]

theorem docOf_nil_of_not_file {fn : Name} {D : Entries}
    (h : ((docOf fn D).isEmpty || !isFile fn D) = true) : docOf fn D = [] := by
  cases hg : getE fn D with
  | none => simp [docOf, hg]
  | some c =>
    cases c with
    | dir x => simp [docOf, hg]
    | file m =>
      simp only [isFile, hg, Bool.not_true, Bool.or_false, List.isEmpty_iff] at h
      exact h

theorem isFile_of_docOf_ne {fn : Name} {D : Entries} (h : (docOf fn D).isEmpty = false) :
    isFile fn D = true := by
  cases hg : getE fn D with
  | none => simp [docOf, hg] at h
  | some c =>
    cases c with
    | dir x => simp [docOf, hg] at h
    | file m => simp [isFile, hg]

/-- in a stable directory the merge does nothing and succeeds -/
theorem mergeDocs_noop (o : Opts) (ds : DocSync) (fn : Name) (src D : Entries)
    (h : DocStable o ds fn (docOf fn src) D) (l : List Step) :
    (mergeDocs o ds fn src ⟨D, l⟩).d = D ∧ (mergeDocs o ds fn src ⟨D, l⟩).err = none := by
  unfold mergeDocs
  dsimp only
  by_cases hpe : pyEq (.obj (docOf fn src)) (.obj (docOf fn D)) = true
  · simp [hpe]
  · rcases h with h | ⟨he, hw, hb⟩
    · exact absurd h hpe
    · simp only [hpe, Bool.false_eq_true, if_false]
      by_cases hc : ((docOf fn D).isEmpty || !isFile fn D) = true
      · simp only [hc, if_true]
        unfold inMemory
        simp only [he]
        by_cases hwr : (runDocSync ds (docOf fn src) (docOf fn D)).wrote = true
        · simp only [hwr, if_true]
          exact ⟨pPut_same (a := ⟨D, l⟩) o.dry (hw hwr), trivial⟩
        · simp [hwr]
      · simp only [hc, Bool.false_eq_true, if_false]
        have hemp : (docOf fn D).isEmpty = false := by
          cases h0 : (docOf fn D).isEmpty with
          | false => rfl
          | true => simp [h0] at hc
        have hbk : getE (fn ++ "~") D = none := hb hemp
        have hbf : isFile (fn ++ "~") D = false := by simp [isFile, hbk]
        simp only [hbf, Bool.false_eq_true, if_false]
        cases hg : getE fn D with
        | none => simp
        | some orig =>
          simp only
          unfold withBackup
          simp only [he]
          refine ⟨?_, trivial⟩
          cases hdry : o.dry with
          | true => split <;> simp [pPut, pDel]
          | false =>
            have hne' := str_append_tilde_ne fn
            by_cases hwr : (runDocSync ds (docOf fn src) (docOf fn D)).wrote = true
            · have hX := hw hwr
              rw [hg] at hX
              simp only [hwr, if_true, pPut, pDel, Bool.false_eq_true, if_false]
              rw [← Option.some.inj hX]
              have : setE fn orig (setE (fn ++ "~") orig D) = setE (fn ++ "~") orig D :=
                setE_getE (by rw [getE_setE_other hne']; exact hg)
              rw [this, delE_setE_absent _ hbk]
            · simp only [hwr, Bool.false_eq_true, if_false, pPut, pDel]
              exact delE_setE_absent _ hbk

theorem withBackup_get_fn (o : Opts) (fn : Name) (orig : Node) (r : DocRes) (a : Acc)
    (he : r.err = none) (hdry : o.dry = false) (hw : r.wrote = true) :
    getE fn (withBackup o fn orig r a).d = some (docFile o.now r.doc) := by
  have hne' := str_append_tilde_ne fn
  unfold withBackup
  simp only [he, hdry, hw, if_true, pPut, pDel, Bool.false_eq_true, if_false]
  rw [getE_delE_other hne', getE_setE_same]

/-- after a successful real merge the directory is stable -/
theorem mergeDocs_stable (o : Opts) (hdry : o.dry = false) (ds : DocSync) (fn : Name) (src : Entries) (a : Acc)
    (hs : NodupKeysObj (docOf fn src)) (hok : (mergeDocs o ds fn src a).err = none) :
    DocStable o ds fn (docOf fn src) (mergeDocs o ds fn src a).d := by
  unfold mergeDocs at hok ⊢
  dsimp only at hok ⊢
  by_cases hpe : pyEq (.obj (docOf fn src)) (.obj (docOf fn a.d)) = true
  · simp only [hpe, if_true]
    exact Or.inl hpe
  · simp only [hpe, Bool.false_eq_true, if_false] at hok ⊢
    by_cases hc : ((docOf fn a.d).isEmpty || !isFile fn a.d) = true
    · simp only [hc, if_true] at hok ⊢
      have hd0 := docOf_nil_of_not_file hc
      rw [hd0] at hok ⊢
      have he : (runDocSync ds (docOf fn src) []).err = none := by
        rw [inMemory_err] at hok; exact hok
      unfold inMemory
      simp only [he]
      by_cases hwr : (runDocSync ds (docOf fn src) []).wrote = true
      · left
        simp only [hwr, if_true, pPut, hdry, Bool.false_eq_true, if_false]
        rw [docOf_docFile, runDocSync_fresh_doc ds _ (NodupKeysObj_keys hs) hwr he]
        exact pyEq_refl (.obj (docOf fn src)) (by simpa [NodupKeysVal] using hs)
      · right
        simp only [hwr, Bool.false_eq_true, if_false, hd0]
        exact ⟨he, fun h => h.elim, fun h => by simp at h⟩
    · simp only [hc, Bool.false_eq_true, if_false] at hok ⊢
      by_cases hbf : isFile (fn ++ "~") a.d = true
      · simp [hbf] at hok
      · simp only [hbf, Bool.false_eq_true, if_false] at hok ⊢
        cases hg : getE fn a.d with
        | none =>
          exfalso
          simp [isFile, hg] at hc
        | some orig =>
          simp only [hg] at hok ⊢
          have he : (runDocSync ds (docOf fn src) (docOf fn a.d)).err = none := by
            rw [withBackup_err] at hok; exact hok
          obtain ⟨_, hb, hdoc, _⟩ := withBackup_ok o fn orig _ a he hdry
          right
          by_cases hwr : (runDocSync ds (docOf fn src) (docOf fn a.d)).wrote = true
          · simp only [hwr, if_true] at hdoc
            rw [hdoc]
            have A := runDocSync_idem ds _ (docOf fn a.d) hs he
            refine ⟨A.1, fun _ => ?_, fun _ => hb⟩
            rw [A.2]
            exact withBackup_get_fn o fn orig _ a he hdry hwr
          · simp only [hwr, Bool.false_eq_true, if_false] at hdoc
            rw [hdoc]
            exact ⟨he, fun h => absurd h hwr, fun _ => hb⟩

/-- the same for `syncDoc`, which merges only for the merging strategies -/
def SyncDocStable (o : Opts) (fn : Name) (s : Doc) (D : Entries) : Prop :=
  o.docSync = .noSync ∨ o.docSync = .copy ∨ DocStable o o.docSync fn s D

theorem SyncDocStable.congr {o : Opts} {fn : Name} {s : Doc} {D D' : Entries}
    (h1 : getE fn D' = getE fn D) (h2 : getE (fn ++ "~") D' = getE (fn ++ "~") D)
    (h : SyncDocStable o fn s D) : SyncDocStable o fn s D' := by
  rcases h with h | h | h
  · exact Or.inl h
  · exact Or.inr (Or.inl h)
  · exact Or.inr (Or.inr (h.congr h1 h2))

theorem syncDoc_noop (o : Opts) (fn : Name) (src D : Entries)
    (h : SyncDocStable o fn (docOf fn src) D) (l : List Step) :
    (syncDoc o fn src ⟨D, l⟩).d = D ∧ (syncDoc o fn src ⟨D, l⟩).err = none := by
  rcases h with h | h | h
  · rw [syncDoc_noSync o fn src _ (Or.inl h)]; exact ⟨rfl, rfl⟩
  · rw [syncDoc_noSync o fn src _ (Or.inr h)]; exact ⟨rfl, rfl⟩
  · unfold syncDoc
    cases hds : o.docSync with
    | noSync => exact ⟨rfl, rfl⟩
    | copy => exact ⟨rfl, rfl⟩
    | update => rw [hds] at h; exact mergeDocs_noop o _ fn src D h l
    | byKey ks => rw [hds] at h; exact mergeDocs_noop o _ fn src D h l

/-- hypothesis on a source document: read only when the strategy merges -/
def DocHyp (o : Opts) (s : Doc) : Prop :=
  o.docSync = .noSync ∨ o.docSync = .copy ∨ NodupKeysObj s

theorem syncDoc_stable (o : Opts) (hdry : o.dry = false) (fn : Name) (src : Entries) (a : Acc)
    (hs : DocHyp o (docOf fn src)) (hok : (syncDoc o fn src a).err = none) :
    SyncDocStable o fn (docOf fn src) (syncDoc o fn src a).d := by
  rcases hs with h | h | hs
  · exact Or.inl h
  · exact Or.inr (Or.inl h)
  · unfold syncDoc at hok ⊢
    cases hds : o.docSync with
    | noSync => exact Or.inl hds
    | copy => exact Or.inr (Or.inl hds)
    | update =>
      simp only [hds] at hok ⊢
      exact Or.inr (Or.inr (by rw [hds]; exact mergeDocs_stable o hdry _ fn src a hs hok))
    | byKey ks =>
      simp only [hds] at hok ⊢
      exact Or.inr (Or.inr (by rw [hds]; exact mergeDocs_stable o hdry _ fn src a hs hok))

/-- **Idempotence of the document synchronisation of one directory** (job or project root), with
    the backup-and-restore context: after a successful real `syncDoc`, a second one on the result
    changes nothing and succeeds. -/
theorem syncDoc_idem (o : Opts) (hdry : o.dry = false) (fn : Name) (src : Entries) (a : Acc)
    (hs : DocHyp o (docOf fn src)) (hok : (syncDoc o fn src a).err = none) (l : List Step) :
    (syncDoc o fn src ⟨(syncDoc o fn src a).d, l⟩).d = (syncDoc o fn src a).d ∧
    (syncDoc o fn src ⟨(syncDoc o fn src a).d, l⟩).err = none :=
  syncDoc_noop o fn src _ (syncDoc_stable o hdry fn src a hs hok) l

/-! ### what the merge can do to a single name of the directory -/

theorem getE_delE (m n : Name) (es : Entries) : getE m (delE n es) = if m = n then none else getE m es := by
  by_cases h : m = n
  · subst h; simp [getE_delE_same]
  · simp [h, getE_delE_other h]

theorem dir_of_pPut_file {n fn : Name} {x : Entries} {dry : Bool} {now : Nat} {d : Doc} {a : Acc}
    (h : getE n (pPut dry fn (docFile now d) a).d = some (.dir x)) : getE n a.d = some (.dir x) := by
  cases dry with
  | true => simpa [pPut] using h
  | false =>
    simp only [pPut, Bool.false_eq_true, if_false, getE_setE] at h
    split at h
    · simp [docFile] at h
    · exact h

theorem dir_of_withBackup {o : Opts} {fn n : Name} {orig : Node} {r : DocRes} {a : Acc} {x : Entries}
    (hg : getE fn a.d = some orig)
    (h : getE n (withBackup o fn orig r a).d = some (.dir x)) : getE n a.d = some (.dir x) := by
  have hne' := str_append_tilde_ne fn
  cases hdry : o.dry with
  | true =>
    unfold withBackup at h
    simp only [hdry, pPut_dry, pDel_dry] at h
    split at h <;> split at h <;> exact h
  | false =>
    unfold withBackup pPut pDel at h
    simp only [hdry, Bool.false_eq_true, if_false] at h
    by_cases h2 : n = fn ++ "~"
    · subst h2
      split at h <;> simp only [getE_delE_same] at h <;> cases h
    · by_cases h1 : n = fn
      · subst h1
        split at h <;> split at h <;>
          simp only [getE_delE_other h2, getE_setE_same, getE_setE_other h2, docFile,
            Option.some.injEq, reduceCtorEq] at h
        all_goals first | exact h | (rw [hg]; exact h) | (rw [hg, h])
      · split at h <;> split at h <;>
          simp only [getE_delE_other h2, getE_setE_other h1, getE_setE_other h2] at h <;> exact h

/-- the document merge never creates a directory: whatever is a directory afterwards was that
    directory before -/
theorem getE_syncDoc_dir (o : Opts) (fn : Name) (src : Entries) (a : Acc) (n : Name) (x : Entries)
    (h : getE n (syncDoc o fn src a).d = some (.dir x)) : getE n a.d = some (.dir x) := by
  unfold syncDoc at h
  split at h
  · exact h
  · exact h
  · unfold mergeDocs at h
    dsimp only at h
    split at h
    · exact h
    · split at h
      · unfold inMemory at h
        split at h <;> dsimp only at h <;> split at h <;> first | exact h | exact dir_of_pPut_file h
      · split at h
        · exact h
        · split at h
          · exact h
          · next orig hg => exact dir_of_withBackup hg h

/-! ### the walk: directories in which it has nothing to do -/

/-- none of the three loops of `_sync_job_workspaces` finds anything to do in `D` -/
def WalkQuiet (o : Opts) (sub : Path) (ses D : Entries) : Prop :=
  (∀ n sn, (n, sn) ∈ ses → getE n D = none → leftOnlyNode o n sn = none) ∧
  (∀ n ms md, (n, Node.file ms) ∈ ses → getE n D = some (.file md) →
    differs o.deep ms md = true → excluded o n = false → verdict o (sub ++ [n]) ms md = some false) ∧
  (o.recursive = true → ∀ n sch dch, (n, Node.dir sch) ∈ ses → getE n D = some (.dir dch) →
    (walkDir o (sub ++ [n]) (.dir sch) dch).d = dch ∧ (walkDir o (sub ++ [n]) (.dir sch) dch).err = none)

theorem WalkQuiet.noop {o : Opts} {sub : Path} {ses D : Entries} (h : WalkQuiet o sub ses D) :
    (walkDir o sub (.dir ses) D).d = D ∧ (walkDir o sub (.dir ses) D).err = none :=
  walkDir_noop o sub ses D h.1 h.2.1 h.2.2

/-- quietness only looks at the names that are not excluded, and at directories -/
theorem WalkQuiet.of_agree {o : Opts} {sub : Path} {ses D D' : Entries} (h : WalkQuiet o sub ses D)
    (hag : ∀ n, excluded o n = false → getE n D' = getE n D)
    (hdir : ∀ n x, getE n D' = some (.dir x) → getE n D = some (.dir x)) : WalkQuiet o sub ses D' := by
  refine ⟨fun n sn hm hD => ?_, fun n ms md hm hD hdf hx => ?_, fun hr n sch dch hm hD => ?_⟩
  · cases hx : excluded o n with
    | true => simp [leftOnlyNode, hx]
    | false =>
      rw [hag n hx] at hD
      exact h.1 n sn hm hD
  · rw [hag n hx] at hD
    exact h.2.1 n ms md hm hD hdf hx
  · exact h.2.2 hr n sch dch hm (hdir n dch hD)

/-- the result of a successful real walk is quiet (this is the proof of `walk_idempotent`, kept
    as three facts about the result) -/
theorem walk_quiet (o : Opts) (hdry : o.dry = false) (ses : Entries) (sub : Path) (des : Entries)
    (hw : WFEntries ses) (hok : (walkDir o sub (.dir ses) des).err = none) :
    WalkQuiet o sub ses (walkDir o sub (.dir ses) des).d := by
  have hnd := hw.nodup
  refine ⟨?_, ?_, ?_⟩
  · intro n sn hm hD
    have hs := getE_of_mem hnd hm
    cases hd : getE n des with
    | none =>
      rw [walkDir_get_leftonly o sub ses des n sn hnd hs hd, hdry] at hD
      simpa using hD
    | some dn =>
      exfalso
      cases sn with
      | file ms =>
        cases dn with
        | file md =>
          rcases walkDir_get_file_cases o sub ses des n ms md hnd hs hd with h' | h' <;> rw [h'] at hD <;> cases hD
        | dir x =>
          rw [walkDir_get_clash o sub ses des n _ _ hnd hs hd (Or.inl ⟨ms, x, rfl, rfl⟩)] at hD; cases hD
      | dir sch =>
        cases dn with
        | file md =>
          rw [walkDir_get_clash o sub ses des n _ _ hnd hs hd (Or.inr ⟨sch, md, rfl, rfl⟩)] at hD; cases hD
        | dir dch =>
          rcases walkDir_get_common o sub ses des n sch dch hnd hs hd with ⟨h', _⟩ | ⟨_, h', _⟩ <;>
            rw [h'] at hD <;> cases hD
  · intro n ms md' hm hD hdiff hx
    have hs := getE_of_mem hnd hm
    cases hd : getE n des with
    | none =>
      rw [walkDir_get_leftonly o sub ses des n _ hnd hs hd, hdry] at hD
      simp only [Bool.false_eq_true, if_false, leftOnlyNode, hx] at hD
      cases hD
      rw [differs_touch] at hdiff; cases hdiff
    | some dn =>
      cases dn with
      | dir x =>
        rw [walkDir_get_clash o sub ses des n _ _ hnd hs hd (Or.inl ⟨ms, x, rfl, rfl⟩)] at hD; cases hD
      | file md =>
        by_cases hk : differs o.deep ms md = true ∧ excluded o n = false ∧ verdict o (sub ++ [n]) ms md = some true
        · rw [walkDir_get_file_overwritten o sub ses des n ms md hnd hs hd hk.1 hk.2.1 hk.2.2 hok hdry] at hD
          cases hD
          rw [differs_touch] at hdiff; cases hdiff
        · rw [walkDir_get_file_kept o sub ses des n ms md hnd hs hd hk] at hD
          cases hD
          have he := walkDir_err_none o sub ses des hok
          have hv := phase2_ok_verdict o sub des ses _ hnd he n ms md' ⟨hs, hd, hdiff, hx⟩
          cases hvv : verdict o (sub ++ [n]) ms md' with
          | none => exact absurd hvv hv
          | some b =>
            cases b with
            | false => rfl
            | true => exact absurd ⟨hdiff, hx, hvv⟩ hk
  · intro hrec n sch dch' hm hD
    have hs := getE_of_mem hnd hm
    cases hd : getE n des with
    | none =>
      rw [walkDir_get_leftonly o sub ses des n _ hnd hs hd, hdry] at hD
      simp only [Bool.false_eq_true, if_false, leftOnlyNode] at hD
      cases hx : excluded o n with
      | true => simp [hx] at hD
      | false =>
        simp only [hx, Bool.false_eq_true, if_false, hrec, if_true, Option.some.injEq, Node.dir.injEq] at hD
        subst hD
        exact walk_copy_fix o (excluded o) (fun _ h => h) sch (sub ++ [n]) (hw.sub hs)
    | some dn =>
      cases dn with
      | file md =>
        rw [walkDir_get_clash o sub ses des n _ _ hnd hs hd (Or.inr ⟨sch, md, rfl, rfl⟩)] at hD; cases hD
      | dir dch =>
        rcases walkDir_get_common o sub ses des n sch dch hnd hs hd with ⟨_, h2⟩ | ⟨_, h', h2⟩
        · have := h2 hok
          rw [hrec] at this; cases this
        · rw [h'] at hD
          simp only [Option.some.injEq, Node.dir.injEq] at hD
          subst hD
          exact walk_idempotent o hdry sch (sub ++ [n]) dch (hw.sub hs) (h2 hok)

/-! ### one job -/

/-- hypothesis on one source job: read only when the document strategy merges -/
def JobHyp (o : Opts) (sjob : Entries) : Prop :=
  o.docSync = .noSync ∨ o.docSync = .copy ∨
    (DocPatOk o ∧ NodupKeysObj (docOf Extracted.FN_JOB_DOCUMENT sjob))

theorem JobHyp.docHyp {o : Opts} {sjob : Entries} (h : JobHyp o sjob) :
    DocHyp o (docOf Extracted.FN_JOB_DOCUMENT sjob) := by
  rcases h with h | h | h
  · exact Or.inl h
  · exact Or.inr (Or.inl h)
  · exact Or.inr (Or.inr h.2)

/-- a destination job directory in which `sync_jobs` from `sjob` has nothing to do -/
def JobStable (o : Opts) (sjob D : Entries) : Prop :=
  WalkQuiet o [] sjob D ∧
  SyncDocStable o Extracted.FN_JOB_DOCUMENT (docOf Extracted.FN_JOB_DOCUMENT sjob) D

theorem syncJobDirs_noop (o : Opts) (sjob D : Entries) (h : JobStable o sjob D) :
    (syncJobDirs o sjob D).d = D ∧ (syncJobDirs o sjob D).err = none := by
  have hwk := h.1.noop
  unfold syncJobDirs
  dsimp only
  rw [hwk.2]
  simp only
  rw [hwk.1]
  exact syncDoc_noop o _ sjob D h.2 _

theorem syncJobDirs_eq_of_walk_ok (o : Opts) (sjob djob : Entries)
    (h : (walkDir o [] (.dir sjob) djob).err = none) :
    syncJobDirs o sjob djob =
      syncDoc o Extracted.FN_JOB_DOCUMENT sjob
        ⟨(walkDir o [] (.dir sjob) djob).d, (walkDir o [] (.dir sjob) djob).log⟩ := by
  unfold syncJobDirs
  dsimp only
  rw [h]

/-- after a successful real `sync_jobs` the destination job is stable -/
theorem syncJobDirs_stable (o : Opts) (hdry : o.dry = false) (sjob djob : Entries)
    (hwf : WFEntries sjob) (H : JobHyp o sjob) (hok : (syncJobDirs o sjob djob).err = none) :
    JobStable o sjob (syncJobDirs o sjob djob).d := by
  have hwok := syncJobDirs_walk_ok o sjob djob hok
  have hq := walk_quiet o hdry sjob [] djob hwf hwok
  rw [syncJobDirs_eq_of_walk_ok o sjob djob hwok] at hok ⊢
  refine ⟨?_, syncDoc_stable o hdry _ sjob _ H.docHyp hok⟩
  rcases H with h | h | ⟨hp, _⟩
  · rw [syncDoc_noSync o _ sjob _ (Or.inl h)]; exact hq
  · rw [syncDoc_noSync o _ sjob _ (Or.inr h)]; exact hq
  · by_cases hc : o.docSync = .copy
    · rw [syncDoc_noSync o _ sjob _ (Or.inr hc)]; exact hq
    · have hic : o.docSync.isCopy = false := by
        cases hds : o.docSync with
        | copy => exact absurd hds hc
        | _ => rfl
      have hx1 : excluded o Extracted.FN_JOB_DOCUMENT = true := by simp [excluded, hp.doc, hic]
      have hx2 : excluded o (Extracted.FN_JOB_DOCUMENT ++ "~") = true := by simp [excluded, hp.bak, hic]
      apply hq.of_agree
      · intro n hx
        apply getE_syncDoc_other
        · intro e; rw [e, hx1] at hx; cases hx
        · intro e; rw [e, hx2] at hx; cases hx
      · intro n x h
        exact getE_syncDoc_dir o _ sjob _ n x h

/-- **Idempotence of a whole job-level sync** (`sync_jobs` on two existing job directories: file
    walk, then document merge under backup) for every file strategy and every document strategy. -/
theorem syncJobDirs_idem (o : Opts) (hdry : o.dry = false) (sjob djob : Entries)
    (hwf : WFEntries sjob) (H : JobHyp o sjob) (hok : (syncJobDirs o sjob djob).err = none) :
    (syncJobDirs o sjob (syncJobDirs o sjob djob).d).d = (syncJobDirs o sjob djob).d ∧
    (syncJobDirs o sjob (syncJobDirs o sjob djob).d).err = none :=
  syncJobDirs_noop o sjob _ (syncJobDirs_stable o hdry sjob djob hwf H hok)

/-! ### a cloned job is stable -/

theorem cloneIgnored_doc (o : Opts) : cloneIgnored o Extracted.FN_JOB_DOCUMENT = false := by
  simp [cloneIgnored]

theorem clone_stable (o : Opts) (sjob : Entries) (hwf : WFEntries sjob)
    (H : DocHyp o (docOf Extracted.FN_JOB_DOCUMENT sjob)) : JobStable o sjob (cloneJob o sjob) := by
  have hnd := hwf.nodup
  have hign : ∀ n, o.userExcl n = true → excluded o n = true := by
    intro n h; simp [excluded, h]
  refine ⟨⟨?_, ?_, ?_⟩, ?_⟩
  · intro n sn hm hD
    have hs := getE_of_mem hnd hm
    rw [cloneJob, getE_copyTop, hs] at hD
    cases hi : cloneIgnored o n with
    | true =>
      have : o.userExcl n = true := by
        simp only [cloneIgnored, Bool.and_eq_true] at hi
        exact hi.1.1
      simp [leftOnlyNode, hign n this]
    | false => simp [hi] at hD
  · intro n ms md hm hD hdiff _
    have hs := getE_of_mem hnd hm
    rw [cloneJob, getE_copyTop, hs] at hD
    cases hi : cloneIgnored o n with
    | true => simp [hi] at hD
    | false =>
      simp only [hi, Bool.false_eq_true, if_false, Option.map, copyNode, Option.some.injEq, Node.file.injEq] at hD
      subst hD
      rw [differs_touch] at hdiff; cases hdiff
  · intro _ n sch dch hm hD
    have hs := getE_of_mem hnd hm
    rw [cloneJob, getE_copyTop, hs] at hD
    cases hi : cloneIgnored o n with
    | true => simp [hi] at hD
    | false =>
      simp only [hi, Bool.false_eq_true, if_false, Option.map, copyNode, Option.some.injEq, Node.dir.injEq] at hD
      subst hD
      exact walk_copy_fix o o.userExcl hign sch ([] ++ [n]) (hwf.sub hs)
  · rcases H with h | h | hs
    · exact Or.inl h
    · exact Or.inr (Or.inl h)
    · refine Or.inr (Or.inr (Or.inl ?_))
      have hd : docOf Extracted.FN_JOB_DOCUMENT (cloneJob o sjob) = docOf Extracted.FN_JOB_DOCUMENT sjob := by
        simp only [docOf, cloneJob, getE_copyTop, cloneIgnored_doc, Bool.false_eq_true, if_false]
        cases getE Extracted.FN_JOB_DOCUMENT sjob with
        | none => rfl
        | some c =>
          cases c with
          | file m => simp [Option.map, copyNode, touch]
          | dir x => simp [Option.map, copyNode]
      rw [hd]
      exact pyEq_refl (.obj _) (by simpa [NodupKeysVal] using hs)

/-! ### the loop over the jobs -/

/-- every selected source job of `l` is, in the workspace of `D`, a stable job directory or a
    plain file (which the loop skips) -/
def JobsStable (o : Opts) (l : List (Name × Node)) (D : Entries) : Prop :=
  ∀ id sjob, (id, Node.dir sjob) ∈ l → selected o id = true →
    (∃ djob, getE id (wsOf D) = some (.dir djob) ∧ JobStable o sjob djob) ∨
    (∃ m, getE id (wsOf D) = some (.file m))

theorem wsOf_of_getE {D ws : Entries} (h : getE WS D = some (.dir ws)) : wsOf D = ws := by
  simp [wsOf, h]

theorem syncJobs_noop (o : Opts) (D : Entries) (l : List (Name × Node)) :
    JobsStable o l D → ∀ lg, (syncJobs o l ⟨D, lg⟩).d = D ∧ (syncJobs o l ⟨D, lg⟩).err = none := by
  induction l with
  | nil => intro _ lg; simp [syncJobs]
  | cons hd tl ih =>
    intro h lg
    obtain ⟨id, sn⟩ := hd
    have ih' := ih (fun id' sj hm => h id' sj (List.mem_cons_of_mem _ hm))
    cases sn with
    | file m => simp only [syncJobs]; exact ih' lg
    | dir sjob =>
      simp only [syncJobs]
      cases hws : getE WS D with
      | none => exact ih' lg
      | some wsn =>
        cases wsn with
        | file m => exact ih' lg
        | dir ws =>
          dsimp only
          by_cases hsel : selected o id = true
          · simp only [hsel, if_true]
            rcases h id sjob List.mem_cons_self hsel with ⟨djob, hj, hst⟩ | ⟨m, hj⟩
            · rw [wsOf_of_getE hws] at hj
              have hno := syncJobDirs_noop o sjob djob hst
              simp only [hj, hno.2, hno.1]
              have e : setE WS (.dir (setE id (.dir djob) ws)) D = D := by
                rw [setE_getE hj, setE_getE hws]
              rw [e]
              exact ih' _
            · rw [wsOf_of_getE hws] at hj
              simp only [hj]
              exact ih' lg
          · simp only [hsel]
            exact ih' lg

theorem syncJobs_no_ws (o : Opts) (l : List (Name × Node)) :
    ∀ a : Acc, (∀ ws, getE WS a.d ≠ some (.dir ws)) → (syncJobs o l a).d = a.d := by
  induction l with
  | nil => intro a _; simp [syncJobs]
  | cons hd tl ih =>
    intro a h
    obtain ⟨id, sn⟩ := hd
    cases sn with
    | file m => simp only [syncJobs]; exact ih a h
    | dir sjob =>
      simp only [syncJobs]
      cases hws : getE WS a.d with
      | none => exact ih a h
      | some wsn =>
        cases wsn with
        | file m => exact ih a h
        | dir ws => exact absurd hws (h ws)

theorem wsOf_no_ws {D : Entries} (h : ∀ ws, getE WS D ≠ some (.dir ws)) : wsOf D = [] := by
  unfold wsOf
  cases hg : getE WS D with
  | none => rfl
  | some c =>
    cases c with
    | file m => rfl
    | dir ws => exact absurd hg (h ws)

/-- after a successful real loop every job it handled is stable -/
theorem syncJobs_stable (o : Opts) (hdry : o.dry = false) (l : List (Name × Node)) :
    (names l).Nodup → (∀ id sjob, (id, Node.dir sjob) ∈ l → WFEntries sjob ∧ JobHyp o sjob) →
    ∀ a : Acc, (∃ ws, getE WS a.d = some (.dir ws)) → (syncJobs o l a).err = none →
    JobsStable o l (syncJobs o l a).d := by
  induction l with
  | nil => intro _ _ a _ _ id sjob hm; cases hm
  | cons hd tl ih =>
    intro hnd hH a hwsx hok
    obtain ⟨ws, hws⟩ := hwsx
    obtain ⟨k, sn⟩ := hd
    have hnd' : (names tl).Nodup := (List.nodup_cons.mp hnd).2
    have hk : k ∉ names tl := (List.nodup_cons.mp hnd).1
    have hH' : ∀ id sjob, (id, Node.dir sjob) ∈ tl → WFEntries sjob ∧ JobHyp o sjob :=
      fun id sj hm => hH id sj (List.mem_cons_of_mem _ hm)
    have hno : ∀ sn, (k, sn) ∈ tl → selected o k = false := by
      intro sn hm
      exact absurd (List.mem_map_of_mem (f := Prod.fst) hm) hk
    -- the tail, from whatever state the head leaves
    have tailOnly : ∀ a' : Acc, syncJobs o ((k, sn) :: tl) a = syncJobs o tl a' →
        (∃ ws', getE WS a'.d = some (.dir ws')) →
        (∀ sjob, sn = .dir sjob → selected o k = true →
          (∃ djob, getE k (wsOf a'.d) = some (.dir djob) ∧ JobStable o sjob djob) ∨
          (∃ m, getE k (wsOf a'.d) = some (.file m))) →
        JobsStable o ((k, sn) :: tl) (syncJobs o ((k, sn) :: tl) a).d := by
      intro a' e hws' hhead
      rw [e] at hok ⊢
      have ihh := ih hnd' hH' a' hws' hok
      intro id sjob hm hsel
      rcases List.mem_cons.mp hm with he | hm'
      · cases he
        rw [syncJobs_job_other o k tl hno a']
        exact hhead sjob rfl hsel
      · exact ihh id sjob hm' hsel
    cases sn with
    | file m =>
      apply tailOnly a (by simp only [syncJobs]) ⟨ws, hws⟩
      intro sjob e; cases e
    | dir sk =>
      by_cases hsel : selected o k = true
      · cases hj : getE k ws with
        | none =>
          apply tailOnly ⟨setE WS (.dir (setE k (.dir (cloneJob o sk)) ws)) a.d,
            a.log ++ [.put WS [k] (.dir (cloneJob o sk))]⟩
            (by simp only [syncJobs, hws, hsel, if_true, hj, hdry, Bool.false_eq_true, if_false])
            ⟨_, getE_setE_same _ _ _⟩
          intro sjob e _
          cases e
          left
          refine ⟨cloneJob o sk, ?_, clone_stable o sk (hH k sk List.mem_cons_self).1
            (hH k sk List.mem_cons_self).2.docHyp⟩
          simp only [wsOf_setE_WS, getE_setE_same]
        | some dn =>
          cases dn with
          | file m =>
            apply tailOnly a (by simp only [syncJobs, hws, hsel, if_true, hj]) ⟨ws, hws⟩
            intro sjob e _
            right
            exact ⟨m, by rw [wsOf_of_getE hws]; exact hj⟩
          | dir djob =>
            have hok' := hok
            simp only [syncJobs, hws, hsel, if_true, hj] at hok'
            cases he : (syncJobDirs o sk djob).err with
            | some e => simp [he] at hok'
            | none =>
              apply tailOnly ⟨setE WS (.dir (setE k (.dir (syncJobDirs o sk djob).d) ws)) a.d,
                a.log ++ (syncJobDirs o sk djob).log.map (Step.inJob k)⟩
                (by simp only [syncJobs, hws, hsel, if_true, hj, he]) ⟨_, getE_setE_same _ _ _⟩
              intro sjob e _
              cases e
              left
              refine ⟨_, ?_, syncJobDirs_stable o hdry sk djob (hH k sk List.mem_cons_self).1
                (hH k sk List.mem_cons_self).2 he⟩
              simp only [wsOf_setE_WS, getE_setE_same]
      · apply tailOnly a (by simp only [syncJobs, hws, hsel]; rfl) ⟨ws, hws⟩
        intro sjob _ h
        exact absurd h hsel

theorem syncJobs_no_ws_err (o : Opts) (l : List (Name × Node)) :
    ∀ a : Acc, (∀ ws, getE WS a.d ≠ some (.dir ws)) → (syncJobs o l a).err = none := by
  induction l with
  | nil => intro a _; simp [syncJobs]
  | cons hd tl ih =>
    intro a h
    obtain ⟨id, sn⟩ := hd
    cases sn with
    | file m => simp only [syncJobs]; exact ih a h
    | dir sjob =>
      simp only [syncJobs]
      cases hws : getE WS a.d with
      | none => exact ih a h
      | some wsn =>
        cases wsn with
        | file m => exact ih a h
        | dir ws => exact absurd hws (h ws)

/-! ### the project-level sync -/

/-- hypotheses on the source project: read only when the document strategy merges -/
def SyncHyp (o : Opts) (src : Entries) : Prop :=
  DocHyp o (docOf Extracted.FN_PROJECT_DOCUMENT src) ∧
  ∀ id sjob, getE id (wsOf src) = some (.dir sjob) → JobHyp o sjob

/-- a destination project in which `sync_projects` from `src` has nothing to do -/
def ProjStable (o : Opts) (src D : Entries) : Prop :=
  (o.checkSchema && o.gate) = false ∧
  SyncDocStable o Extracted.FN_PROJECT_DOCUMENT (docOf Extracted.FN_PROJECT_DOCUMENT src) D ∧
  ((∀ ws, getE WS D ≠ some (.dir ws)) ∨ JobsStable o (wsOf src) D)

theorem syncProjects_noop (o : Opts) (src D : Entries) (h : ProjStable o src D) :
    (syncProjects o src D).d = D ∧ (syncProjects o src D).err = none := by
  obtain ⟨hg, hdoc, hjobs⟩ := h
  have hd := syncDoc_noop o _ src D hdoc []
  unfold syncProjects
  simp only [hg, Bool.false_eq_true, if_false, hd.2, hd.1]
  rcases hjobs with hno | hst
  · exact ⟨syncJobs_no_ws o _ ⟨D, _⟩ hno, syncJobs_no_ws_err o _ ⟨D, _⟩ hno⟩
  · exact syncJobs_noop o D _ hst _

theorem WFEntries_wsOf {src : Entries} (h : WFEntries src) : WFEntries (wsOf src) := by
  unfold wsOf
  cases hg : getE WS src with
  | none => simp [WFEntries]
  | some c =>
    cases c with
    | file m => simp [WFEntries]
    | dir js => exact h.sub hg

theorem pdoc_ne_ws' : Extracted.FN_PROJECT_DOCUMENT ≠ WS := by decide
theorem pdoc_bak_ne_ws' : Extracted.FN_PROJECT_DOCUMENT ++ "~" ≠ WS := by decide

theorem syncProjects_stable (o : Opts) (hdry : o.dry = false) (src dst : Entries) (hwf : WFEntries src)
    (H : SyncHyp o src) (hok : (syncProjects o src dst).err = none) :
    ProjStable o src (syncProjects o src dst).d := by
  have hg : (o.checkSchema && o.gate) = false := by
    cases h : (o.checkSchema && o.gate) with
    | false => rfl
    | true => simp [syncProjects, h] at hok
  obtain ⟨hdok, e⟩ := syncProjects_ok o src dst hok
  rw [e] at hok ⊢
  have hws := WFEntries_wsOf hwf
  refine ⟨hg, ?_, ?_⟩
  · apply (syncDoc_stable o hdry _ src ⟨dst, []⟩ H.1 hdok).congr
    · exact syncJobs_root_other o _ pdoc_ne_ws' _ _
    · exact syncJobs_root_other o _ pdoc_bak_ne_ws' _ _
  · by_cases hx : ∃ ws, getE WS (syncDoc o Extracted.FN_PROJECT_DOCUMENT src ⟨dst, []⟩).d = some (.dir ws)
    · right
      apply syncJobs_stable o hdry (wsOf src) hws.nodup _ _ hx hok
      intro id sjob hm
      have hgj := getE_of_mem hws.nodup hm
      exact ⟨hws.sub hgj, H.2 id sjob hgj⟩
    · left
      have hno : ∀ ws, getE WS (syncDoc o Extracted.FN_PROJECT_DOCUMENT src ⟨dst, []⟩).d ≠ some (.dir ws) :=
        fun ws h => hx ⟨ws, h⟩
      rw [syncJobs_no_ws o _ ⟨_, _⟩ hno]
      exact hno

/-- **Idempotence of the project-level sync**: project document first, then the clone-or-sync
    loop over the selected source jobs. -/
theorem syncProjects_idem (o : Opts) (hdry : o.dry = false) (src dst : Entries) (hwf : WFEntries src)
    (H : SyncHyp o src) (hok : (syncProjects o src dst).err = none) :
    (syncProjects o src (syncProjects o src dst).d).d = (syncProjects o src dst).d ∧
    (syncProjects o src (syncProjects o src dst).d).err = none :=
  syncProjects_noop o src _ (syncProjects_stable o hdry src dst hwf H hok)

/-! ### `Job.sync` -/

theorem syncJobEntry_noop (o : Opts) (s d : Name) (c : Nat) (src D sjob ws dj : Entries)
    (hs : getE s (wsOf src) = some (.dir sjob)) (hws : getE WS D = some (.dir ws))
    (hj : getE d ws = some (.dir dj)) (hst : JobStable o sjob dj) :
    (syncJobEntry o s d c src D).d = D ∧ (syncJobEntry o s d c src D).err = none := by
  have hno := syncJobDirs_noop o sjob dj hst
  simp only [syncJobEntry, hs, hws, hj, hno.1, hno.2]
  rw [setE_getE hj, setE_getE hws]
  exact ⟨rfl, trivial⟩

theorem syncJobEntry_idem (o : Opts) (hdry : o.dry = false) (s d : Name) (c : Nat) (src dst : Entries)
    (hwf : WFEntries src) (H : ∀ sjob, getE s (wsOf src) = some (.dir sjob) → JobHyp o sjob)
    (hok : (syncJobEntry o s d c src dst).err = none) :
    (syncJobEntry o s d c src (syncJobEntry o s d c src dst).d).d = (syncJobEntry o s d c src dst).d ∧
    (syncJobEntry o s d c src (syncJobEntry o s d c src dst).d).err = none := by
  have hwsf := WFEntries_wsOf hwf
  -- when the first call changes nothing, the second is the same call
  have same : (syncJobEntry o s d c src dst).d = dst →
      (syncJobEntry o s d c src (syncJobEntry o s d c src dst).d).d = (syncJobEntry o s d c src dst).d ∧
      (syncJobEntry o s d c src (syncJobEntry o s d c src dst).d).err = none := by
    intro e
    rw [e]
    exact ⟨e, hok⟩
  cases hs : getE s (wsOf src) with
  | none => exact same (by simp [syncJobEntry, hs])
  | some sn =>
    cases sn with
    | file m => exact same (by simp [syncJobEntry, hs])
    | dir sjob =>
      have hwj : WFEntries sjob := hwsf.sub hs
      have HJ := H sjob hs
      cases hws : getE WS dst with
      | none => exact same (by simp [syncJobEntry, hs, hws])
      | some wsn =>
        cases wsn with
        | file m => exact same (by simp [syncJobEntry, hs, hws])
        | dir ws =>
          cases hj : getE d ws with
          | none =>
            have e : syncJobEntry o s d c src dst =
                ⟨setE WS (.dir (setE d (.dir (syncJobDirs o sjob (initJob o.now c)).d) ws)) dst,
                 Step.put WS [d] (.dir (initJob o.now c)) ::
                   (syncJobDirs o sjob (initJob o.now c)).log.map (Step.inJob d),
                 (syncJobDirs o sjob (initJob o.now c)).err⟩ := by
              simp only [syncJobEntry, hs, hws, hj, hdry, Bool.false_eq_true, if_false]
            rw [e] at hok ⊢
            exact syncJobEntry_noop o s d c src _ sjob _ _ hs (getE_setE_same _ _ _) (getE_setE_same _ _ _)
              (syncJobDirs_stable o hdry sjob _ hwj HJ hok)
          | some dn =>
            cases dn with
            | file m => exact same (by simp [syncJobEntry, hs, hws, hj])
            | dir djob =>
              have e : syncJobEntry o s d c src dst =
                  ⟨setE WS (.dir (setE d (.dir (syncJobDirs o sjob djob).d) ws)) dst,
                   (syncJobDirs o sjob djob).log.map (Step.inJob d), (syncJobDirs o sjob djob).err⟩ := by
                simp only [syncJobEntry, hs, hws, hj]
              rw [e] at hok ⊢
              exact syncJobEntry_noop o s d c src _ sjob _ _ hs (getE_setE_same _ _ _) (getE_setE_same _ _ _)
                (syncJobDirs_stable o hdry sjob _ hwj HJ hok)

/-! ### every entry point -/

/-- **`sync_idempotent`, with its hypotheses**: after a successful real sync (project or job
    level, any file strategy, any document strategy, any key strategy, any tables), repeating the
    same call raises nothing and changes nothing. -/
theorem run_idem (o : Opts) (e : Entry) (w : World) (hwf : WFEntries w.src) (hdry : o.dry = false)
    (H : SyncHyp o w.src) (hok : (run o e w).err = none) :
    (run o e (w.after o e)).err = none ∧ (run o e (w.after o e)).d = (w.after o e).dst := by
  cases e with
  | project =>
    have := syncProjects_idem o hdry w.src w.dst hwf H hok
    exact ⟨this.2, this.1⟩
  | job s d c =>
    have := syncJobEntry_idem o hdry s d c w.src w.dst hwf (fun sjob h => H.2 s sjob h) hok
    exact ⟨this.2, this.1⟩

end Signac.Sync


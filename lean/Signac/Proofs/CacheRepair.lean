/-
  C09 helper lemmas: check is exact, open-by-id is sound for any damage, and repair restores
  every job whose state point is known from the cache.  Core only.
-/
import Signac.Proofs.CacheRun
namespace Signac.Cache
open Signac Signac.Ws

section
variable {hash : JVal → String}

theorem loadValid_isNone_iff (d : Dir) (id : String) :
    (loadValid hash d id).isNone = true ↔
      (d.sp = .absent ∨ d.sp = .garbage ∨ ∃ v, d.sp = .valid v ∧ hash v ≠ id) := by
  unfold loadValid
  cases hsp : d.sp with
  | absent => simp
  | garbage => simp
  | valid v =>
    simp only [reduceCtorEq, false_or, SpFile.valid.injEq, exists_eq_left']
    by_cases h : hash v = id <;> simp [h]

/-- `check()` names exactly the directories whose file is missing, unparsable, or parses to a
    value with another hash. -/
theorem check_exact (s : St) (id : String) :
    id ∈ check hash s ↔ ∃ d, (id, d) ∈ s.ws ∧
      (d.sp = .absent ∨ d.sp = .garbage ∨ ∃ v, d.sp = .valid v ∧ hash v ≠ id) := by
  simp only [check, List.mem_map, List.mem_filter]
  constructor
  · rintro ⟨⟨i, d⟩, ⟨hm, hn⟩, rfl⟩
    exact ⟨d, hm, (loadValid_isNone_iff d i).mp hn⟩
  · rintro ⟨d, hm, h⟩
    exact ⟨(id, d), ⟨hm, (loadValid_isNone_iff d id).mpr h⟩, rfl⟩

theorem check_nil_iff (s : St) : check hash s = [] ↔ AllValid hash s.ws := by
  constructor
  · intro h id d hm
    cases hl : loadValid hash d id with
    | some v => rfl
    | none =>
      have : id ∈ check hash s := by
        simp only [check, List.mem_map, List.mem_filter]
        exact ⟨(id, d), ⟨hm, by simp [hl]⟩, rfl⟩
      rw [h] at this; simp at this
  · intro h
    simp only [check, List.map_eq_nil_iff, List.filter_eq_nil_iff]
    intro e he
    have := h e.1 e.2 he
    cases hl : loadValid hash e.2 e.1 <;> simp_all

/-- Opening by id in a FRESH session never yields a state point whose hash differs from the id —
    for any workspace content whatsoever (any damage), provided the cache file (if any) is sound. -/
theorem openById_fresh_sound (s : St) (hfile : ∀ c, s.cacheFile = some c → MapInv hash c)
    (id : String) (v : JVal) (hr : (openById hash (newSession s) id).2 = .ok v) : hash v = id := by
  have hc : CacheInv hash (newSession s) :=
    ⟨fun _ _ hm => by simp [newSession] at hm, hfile⟩
  exact getStatepoint_sound hc id hr

/-- An undamaged job can always be opened by id. -/
theorem openById_intact (s : St) (id : String) (d : Dir) (hl : alookup id s.ws = some d)
    (hv : (loadValid hash d id).isSome = true) : ∃ v, (openById hash s id).2 = .ok v := by
  simp only [openById]
  split
  · exact ⟨_, rfl⟩
  · rw [ensureRead_ws, hl]
    simp only []
    cases hlv : loadValid hash d id with
    | none => simp [hlv] at hv
    | some v => exact ⟨v, rfl⟩

/- ---------- repair through the cache ---------- -/

/-- every listed id has a session entry hashing to it -/
def Known (hash : JVal → String) (s : St) : Prop :=
  ∀ id, id ∈ K s.ws → ∃ v, alookup id s.session = some v ∧ hash v = id

theorem alookup_updateAll (id : String) (b c : List (String × JVal)) :
    alookup id (updateAll b c) = alookup id b ∨ ∃ v, (id, v) ∈ c ∧ alookup id (updateAll b c) = some v := by
  induction c generalizing b with
  | nil => exact Or.inl rfl
  | cons hd tl ih =>
    obtain ⟨k, w⟩ := hd
    simp only [updateAll]
    rcases ih (aset k w b) with h | ⟨v, hm, hv⟩
    · by_cases hk : id = k
      · subst hk
        rw [alookup_aset_self] at h
        exact Or.inr ⟨w, List.mem_cons_self, h⟩
      · rw [alookup_aset_ne hk] at h
        exact Or.inl h
    · exact Or.inr ⟨v, List.mem_cons_of_mem _ hm, hv⟩

theorem known_readCache {s : St} (h : Known hash s) (hc : CacheInv hash s) : Known hash (readCache s) := by
  intro id hid
  rw [readCache_ws] at hid
  obtain ⟨v, hv, hh⟩ := h id hid
  unfold readCache
  split
  · rename_i c hcf
    rcases alookup_updateAll id s.session c with h1 | ⟨w, hm, hw⟩
    · exact ⟨v, by simp only [h1, hv], hh⟩
    · exact ⟨w, hw, hc.2 c hcf id w hm⟩
  · exact ⟨v, hv, hh⟩

theorem known_ensureRead {s : St} (h : Known hash s) (hc : CacheInv hash s) : Known hash (ensureRead s) := by
  unfold ensureRead
  split
  · exact h
  · exact known_readCache h hc

/-- what one iteration of repair guarantees for an id whose state point is known -/
structure StepOk (hash : JVal → String) (s s' : St) (id : String) : Prop where
  keys : K s'.ws = K s.ws
  valid : ∃ d, alookup id s'.ws = some d ∧ (loadValid hash d id).isSome = true
  others : ∀ j, j ≠ id → alookup j s'.ws = alookup j s.ws
  payload : ∀ d d', alookup id s.ws = some d → alookup id s'.ws = some d' → d'.payload = d.payload
  known : Known hash s'
  inv : CacheInv hash s'

theorem known_register {s : St} (h : Known hash s) {id : String} {v : JVal} (hv : hash v = id) :
    Known hash (register s id v) := by
  intro j hj
  by_cases hji : j = id
  · subst hji
    exact ⟨v, alookup_aset_self _ _ _, hv⟩
  · obtain ⟨w, hw, hh⟩ := h j hj
    exact ⟨w, by simp only [register, alookup_aset_ne hji, hw], hh⟩

/-- `init` of a job whose directory exists, whose state point `v` hashes to the directory name,
    possibly forced: afterwards the directory validates unless the file was unparsable/foreign and
    the call was not forced; nothing else changes. -/
theorem initJob_existing (s : St) (hr : s.cacheRead = true) (v : JVal) (force : Bool) (d : Dir)
    (hl : alookup (hash v) s.ws = some d) (hk : Known hash s) (hc : CacheInv hash s) :
    let r := initJob hash s v force
    K r.1.ws = K s.ws ∧ (∀ j, j ≠ hash v → alookup j r.1.ws = alookup j s.ws) ∧
    (∃ d', alookup (hash v) r.1.ws = some d' ∧ d'.payload = d.payload ∧
        ((r.2.isNone = true ∧ (loadValid hash d' (hash v)).isSome = true) ∨
         (r.2.isSome = true ∧ force = false ∧ d' = d))) ∧
    Known hash r.1 ∧ CacheInv hash r.1 ∧ r.1.cacheRead = true := by
  have he : ensureRead s = s := by simp [ensureRead, hr]
  simp only [initJob, he, hl]
  cases hlv : loadValid hash d (hash v) with
  | some w =>
    simp only []
    exact ⟨by simp, fun _ _ => by simp, ⟨d, hl, by simp, Or.inl ⟨by simp, by simp [hlv]⟩⟩, hk, hc, hr⟩
  | none =>
    simp only []
    have hmem : hash v ∈ K s.ws := List.mem_map.mpr ⟨(hash v, d), alookup_some_mem hl, rfl⟩
    -- the new directory content
    cases hsp : d.sp with
    | absent =>
      simp only [loadValid, if_true]
      refine ⟨aset_keys_of_mem hmem, fun j hj => alookup_aset_ne hj _ _, ?_, ?_, ?_, hr⟩
      · exact ⟨_, alookup_aset_self _ _ _, rfl, Or.inl ⟨rfl, by simp⟩⟩
      · apply known_register (s := { s with ws := _ }) ?_ rfl
        intro j hj
        have : K (aset (hash v) ({ d with sp := SpFile.valid v }) s.ws) = K s.ws := aset_keys_of_mem hmem
        rw [show ({ s with ws := aset (hash v) ({ d with sp := SpFile.valid v }) s.ws } : St).ws
              = aset (hash v) ({ d with sp := SpFile.valid v }) s.ws from rfl, this] at hj
        exact hk j hj
      · exact cacheInv_register (s := { s with ws := _ }) hc rfl
    | garbage =>
      cases force with
      | true =>
        simp only [if_true, loadValid]
        refine ⟨aset_keys_of_mem hmem, fun j hj => alookup_aset_ne hj _ _, ?_, ?_, ?_, hr⟩
        · exact ⟨_, alookup_aset_self _ _ _, rfl, Or.inl ⟨rfl, by simp⟩⟩
        · apply known_register (s := { s with ws := _ }) ?_ rfl
          intro j hj
          have : K (aset (hash v) ({ d with sp := SpFile.valid v }) s.ws) = K s.ws := aset_keys_of_mem hmem
          rw [show ({ s with ws := aset (hash v) ({ d with sp := SpFile.valid v }) s.ws } : St).ws
                = aset (hash v) ({ d with sp := SpFile.valid v }) s.ws from rfl, this] at hj
          exact hk j hj
        · exact cacheInv_register (s := { s with ws := _ }) hc rfl
      | false =>
        simp only [Bool.false_eq_true, if_false, loadValid]
        refine ⟨aset_keys_of_mem hmem, fun j hj => alookup_aset_ne hj _ _, ?_, ?_, hc, hr⟩
        · refine ⟨_, alookup_aset_self _ _ _, rfl, Or.inr ⟨by simp, by simp, ?_⟩⟩
          cases d; simp_all
        · intro j hj
          have : K (aset (hash v) ({ d with sp := SpFile.garbage }) s.ws) = K s.ws := aset_keys_of_mem hmem
          rw [show ({ s with ws := aset (hash v) ({ d with sp := SpFile.garbage }) s.ws } : St).ws
                = aset (hash v) ({ d with sp := SpFile.garbage }) s.ws from rfl, this] at hj
          exact hk j hj
    | valid w =>
      have hne : hash w ≠ hash v := by
        intro e
        simp [loadValid, hsp, e] at hlv
      cases force with
      | true =>
        simp only [if_true, loadValid]
        refine ⟨aset_keys_of_mem hmem, fun j hj => alookup_aset_ne hj _ _, ?_, ?_, ?_, hr⟩
        · exact ⟨_, alookup_aset_self _ _ _, rfl, Or.inl ⟨rfl, by simp⟩⟩
        · apply known_register (s := { s with ws := _ }) ?_ rfl
          intro j hj
          have : K (aset (hash v) ({ d with sp := SpFile.valid v }) s.ws) = K s.ws := aset_keys_of_mem hmem
          rw [show ({ s with ws := aset (hash v) ({ d with sp := SpFile.valid v }) s.ws } : St).ws
                = aset (hash v) ({ d with sp := SpFile.valid v }) s.ws from rfl, this] at hj
          exact hk j hj
        · exact cacheInv_register (s := { s with ws := _ }) hc rfl
      | false =>
        simp only [Bool.false_eq_true, if_false, loadValid, if_neg hne]
        refine ⟨aset_keys_of_mem hmem, fun j hj => alookup_aset_ne hj _ _, ?_, ?_, hc, hr⟩
        · refine ⟨_, alookup_aset_self _ _ _, rfl, Or.inr ⟨by simp, by simp, ?_⟩⟩
          cases d; simp_all
        · intro j hj
          have : K (aset (hash v) ({ d with sp := SpFile.valid w }) s.ws) = K s.ws := aset_keys_of_mem hmem
          rw [show ({ s with ws := aset (hash v) ({ d with sp := SpFile.valid w }) s.ws } : St).ws
                = aset (hash v) ({ d with sp := SpFile.valid w }) s.ws from rfl, this] at hj
          exact hk j hj

end
end Signac.Cache

namespace Signac.Cache
open Signac Signac.Ws

section
variable {hash : JVal → String}

theorem ensureRead_cacheRead (s : St) : (ensureRead s).cacheRead = true := by
  unfold ensureRead
  split
  · assumption
  · rfl

theorem mem_keys_alookup {β : Type} {id : String} {l : List (String × β)} (h : id ∈ K l) :
    ∃ d, alookup id l = some d := by
  cases hl : alookup id l with
  | none => exact absurd h (alookup_none_not_mem hl)
  | some d => exact ⟨d, rfl⟩

/-- One iteration of the repair loop for an id whose state point is in the (merged) cache. -/
theorem repairOne_known (s : St) (id : String) (hk : Known hash s) (hc : CacheInv hash s)
    (hid : id ∈ K s.ws) :
    (repairOne hash s id).2 = false ∧ StepOk hash s (repairOne hash s id).1 id := by
  have hk0 := known_ensureRead hk hc
  have hc0 := cacheInv_ensureRead hc
  have hr0 := ensureRead_cacheRead s
  have hws0 := ensureRead_ws s
  obtain ⟨v, hv, hh⟩ := hk0 id (by rw [hws0]; exact hid)
  obtain ⟨d, hd⟩ := mem_keys_alookup (l := (ensureRead s).ws) (by rw [hws0]; exact hid)
  have hd' : alookup (hash v) (ensureRead s).ws = some d := by rw [hh]; exact hd
  have h1 := initJob_existing (hash := hash) (ensureRead s) hr0 v false d hd' hk0 hc0
  simp only [repairOne, hv, hh, if_true]
  obtain ⟨hkeys, hoth, ⟨d1, hl1, hp1, hcase⟩, hk1, hc1, hr1⟩ := h1
  rcases hcase with ⟨hnone, hvalid⟩ | ⟨hsome, _, hdd⟩
  · -- first init succeeded
    cases hres : (initJob hash (ensureRead s) v false).2 with
    | some e => simp [hres] at hnone
    | none =>
      have : initJob hash (ensureRead s) v false = ((initJob hash (ensureRead s) v false).1, none) := by
        rw [← hres]
      rw [this]
      simp only []
      refine ⟨trivial, ⟨by rw [hkeys, hws0], ⟨d1, by rw [← hh]; exact hl1, by rw [← hh]; exact hvalid⟩, ?_, ?_, hk1, hc1⟩⟩
      · intro j hj; rw [hoth j (by rw [hh]; exact hj), hws0]
      · intro a b ha hb
        rw [← hws0, ← hh, hd'] at ha
        rw [← hh, hl1] at hb
        simp only [Option.some.injEq] at ha hb
        subst ha; subst hb; exact hp1
  · -- first init failed (unparsable / foreign file, not forced): the forced init writes the file
    cases hres : (initJob hash (ensureRead s) v false).2 with
    | none => simp [hres] at hsome
    | some e =>
      have : initJob hash (ensureRead s) v false = ((initJob hash (ensureRead s) v false).1, some e) := by
        rw [← hres]
      rw [this]
      simp only []
      have h2 := initJob_existing (hash := hash) (initJob hash (ensureRead s) v false).1 hr1 v true d1 hl1 hk1 hc1
      obtain ⟨hkeys2, hoth2, ⟨d2, hl2, hp2, hcase2⟩, hk2, hc2, _⟩ := h2
      rcases hcase2 with ⟨hnone2, hvalid2⟩ | ⟨_, hf, _⟩
      · cases hres2 : (initJob hash (initJob hash (ensureRead s) v false).1 v true).2 with
        | some e2 => simp [hres2] at hnone2
        | none =>
          have e2 : initJob hash (initJob hash (ensureRead s) v false).1 v true
              = ((initJob hash (initJob hash (ensureRead s) v false).1 v true).1, none) := by rw [← hres2]
          rw [e2]
          simp only []
          refine ⟨trivial, ⟨by rw [hkeys2, hkeys, hws0], ⟨d2, by rw [← hh]; exact hl2, by rw [← hh]; exact hvalid2⟩, ?_, ?_, hk2, hc2⟩⟩
          · intro j hj
            rw [hoth2 j (by rw [hh]; exact hj), hoth j (by rw [hh]; exact hj), hws0]
          · intro a b ha hb
            rw [← hws0, ← hh, hd'] at ha
            rw [← hh, hl2] at hb
            simp only [Option.some.injEq] at ha hb
            subst ha; subst hb; rw [hp2, hp1]
      · exact absurd hf (by decide)

/-- The loop of `repair` over ids that are all known: nothing is reported, every listed
    directory validates afterwards, the listing and every payload are unchanged. -/
theorem repairLoop_known (ids : List String) (s : St) (hk : Known hash s) (hc : CacheInv hash s)
    (hsub : ∀ id, id ∈ ids → id ∈ K s.ws) (hnd : ids.Nodup) :
    (repairLoop hash s ids).2 = [] ∧ K (repairLoop hash s ids).1.ws = K s.ws ∧
    (∀ id, id ∈ ids → ∃ d, alookup id (repairLoop hash s ids).1.ws = some d ∧ (loadValid hash d id).isSome = true) ∧
    (∀ j, j ∉ ids → alookup j (repairLoop hash s ids).1.ws = alookup j s.ws) ∧
    (∀ j d d', alookup j s.ws = some d → alookup j (repairLoop hash s ids).1.ws = some d' → d'.payload = d.payload) := by
  induction ids generalizing s with
  | nil => exact ⟨rfl, rfl, fun _ h => absurd h (by simp), fun _ _ => rfl,
      fun j d d' h1 h2 => by simp only [repairLoop] at h2; rw [h1] at h2; simp only [Option.some.injEq] at h2; rw [h2]⟩
  | cons id rest ih =>
    obtain ⟨hbad, hok⟩ := repairOne_known (hash := hash) s id hk hc (hsub id List.mem_cons_self)
    have hnd' := (List.nodup_cons.mp hnd)
    have hsub' : ∀ i, i ∈ rest → i ∈ K (repairOne hash s id).1.ws := by
      intro i hi; rw [hok.keys]; exact hsub i (List.mem_cons_of_mem _ hi)
    obtain ⟨h1, h2, h3, h4, h5⟩ := ih (repairOne hash s id).1 hok.known hok.inv hsub' hnd'.2
    simp only [repairLoop, hbad]
    refine ⟨by simpa using h1, by rw [h2, hok.keys], ?_, ?_, ?_⟩
    · intro i hi
      rcases List.mem_cons.mp hi with rfl | hi
      · obtain ⟨d, hd, hv⟩ := hok.valid
        exact ⟨d, by rw [h4 _ hnd'.1]; exact hd, hv⟩
      · exact h3 i hi
    · intro j hj
      simp only [List.mem_cons, not_or] at hj
      rw [h4 j hj.2, hok.others j hj.1]
    · intro j d d' hd hd'
      by_cases hji : j = id
      · subst hji
        obtain ⟨dm, hdm, _⟩ := hok.valid
        rw [h5 j dm d' hdm hd', hok.payload d dm hd hdm]
      · have : alookup j (repairOne hash s id).1.ws = some d := by rw [hok.others j hji]; exact hd
        exact h5 j d d' this hd'

/-- repair() restores every damaged job when all state points are known from the cache: it
    reports nothing, check() passes afterwards, the listing is the same and no payload moved. -/
theorem repair_restores_known (s : St) (hc : CacheInv hash s) (hnd : (K s.ws).Nodup)
    (hk : Known hash (readCache s)) :
    (repair hash s).2 = [] ∧ check hash (repair hash s).1 = [] ∧ K (repair hash s).1.ws = K s.ws ∧
    (∀ j d d', alookup j s.ws = some d → alookup j (repair hash s).1.ws = some d' → d'.payload = d.payload) := by
  have hsub : ∀ id, id ∈ K s.ws → id ∈ K (readCache s).ws := fun id h => by rw [readCache_ws]; exact h
  obtain ⟨h1, h2, h3, _, h5⟩ := repairLoop_known (hash := hash) (K s.ws) (readCache s) hk (cacheInv_readCache hc) hsub hnd
  simp only [repair]
  refine ⟨h1, ?_, by rw [h2, readCache_ws], ?_⟩
  · rw [check_nil_iff]
    intro id d hm
    have hkeys : id ∈ K s.ws := by
      have : id ∈ K (repairLoop hash (readCache s) (K s.ws)).1.ws := List.mem_map.mpr ⟨(id, d), hm, rfl⟩
      rw [h2, readCache_ws] at this; exact this
    obtain ⟨d', hd', hv⟩ := h3 id hkeys
    have hnd2 : (K (repairLoop hash (readCache s) (K s.ws)).1.ws).Nodup := by rw [h2, readCache_ws]; exact hnd
    rw [alookup_of_mem_nodup hm hnd2] at hd'
    simp only [Option.some.injEq] at hd'
    subst hd'; exact hv
  · intro j d d' hd hd'
    exact h5 j d d' (by rw [readCache_ws]; exact hd) hd'

end
end Signac.Cache

namespace Signac.Cache
open Signac Signac.Ws

section
variable {hash : JVal → String}

theorem mapInv_erase_aset {m : List (String × JVal)} (h : MapInv hash m) (id : String) (v : JVal) :
    MapInv hash (aerase id (aset id v m)) := by
  intro i w hm
  obtain ⟨hm1, hne⟩ := mem_aerase hm
  rcases mem_aset hm1 with he | he
  · simp only [Prod.mk.injEq] at he
    exact absurd he.1 hne
  · exact h i w he

theorem mapInv_erase {m : List (String × JVal)} (h : MapInv hash m) (id : String) :
    MapInv hash (aerase id m) := fun i w hm => h i w (mem_aerase hm).1

/-- One iteration of repair keeps the cache invariant, whatever the damage: a state point read
    without validation is either registered under its true id or dropped again. -/
theorem cacheInv_repairOne (s : St) (id : String) (hc : CacheInv hash s) :
    CacheInv hash (repairOne hash s id).1 := by
  have hc0 := cacheInv_ensureRead hc
  -- every state reached below differs from a CacheInv state only in `ws` or by sound registrations
  have finish : ∀ (t : St) (sp : JVal), CacheInv hash t →
      CacheInv hash (match initJob hash t sp false with
        | (s', none) => (s', false)
        | (s', some _) => match initJob hash s' sp true with
          | (s'', none) => (s'', false)
          | (s'', some _) => (s'', true)).1 := by
    intro t sp ht
    have h1 := cacheInv_initJob ht sp false
    cases hr : initJob hash t sp false with
    | mk s' e =>
      rw [hr] at h1
      cases e with
      | none => exact h1
      | some _ =>
        have h2 := cacheInv_initJob (s := s') h1 sp true
        simp only []
        cases hr2 : initJob hash s' sp true with
        | mk s'' e2 =>
          rw [hr2] at h2
          cases e2 <;> exact h2
  simp only [repairOne]
  cases hl : alookup id (ensureRead s).session with
  | some v =>
    simp only []
    have hv : hash v = id := hc0.1 _ _ (alookup_some_mem hl)
    simp only [hv, if_true]
    exact finish _ v hc0
  | none =>
    simp only []
    cases hd : alookup id (ensureRead s).ws with
    | none => exact hc0
    | some d =>
      simp only []
      cases hsp : d.sp with
      | absent => exact hc0
      | garbage => exact hc0
      | valid v =>
        cases v with
        | obj kvs =>
          simp only []
          by_cases hcorr : hash (JVal.obj kvs) = id
          · simp only [hcorr, if_true]
            exact finish _ _ (cacheInv_register hc0 hcorr)
          · simp only [if_neg hcorr]
            have hreg : CacheInv hash
                { register (ensureRead s) id (JVal.obj kvs) with
                  session := aerase id (register (ensureRead s) id (JVal.obj kvs)).session } :=
              ⟨mapInv_erase_aset hc0.1 id _, hc0.2⟩
            split
            · exact hreg
            · rename_i t ht
              -- `t` is the state after the (successful) move: only `ws` differs
              split at ht
              · simp at ht
              · split at ht
                · split at ht
                  · simp only [Option.some.injEq] at ht; subst ht
                    exact finish _ _ ⟨hreg.1, hreg.2⟩
                  · simp at ht
                · simp only [Option.some.injEq] at ht; subst ht
                  exact finish _ _ ⟨hreg.1, hreg.2⟩
        | null => exact hc0
        | bool _ => exact hc0
        | int _ => exact hc0
        | flt _ _ _ => exact hc0
        | str _ => exact hc0
        | arr _ => exact hc0

theorem cacheInv_repairLoop (ids : List String) (s : St) (hc : CacheInv hash s) :
    CacheInv hash (repairLoop hash s ids).1 := by
  induction ids generalizing s with
  | nil => exact hc
  | cons id r ih =>
    simp only [repairLoop]
    exact ih _ (cacheInv_repairOne s id hc)

/-- repair() keeps the cache invariant for ANY workspace content. -/
theorem cacheInv_repair (s : St) (hc : CacheInv hash s) : CacheInv hash (repair hash s).1 :=
  cacheInv_repairLoop _ _ (cacheInv_readCache hc)

end
end Signac.Cache

/-
  Proofs/ConcTerm — every actor terminates (a variant decreases with every step, whatever the
  primitives answer), hence the schedule that runs the actors one after another completes (C12).
-/
import Signac.Proofs.ConcSeq
namespace Signac.Conc
variable {SP DV : Type} {hash : SP → JobId}

def ProjPc.rank : ProjPc → Nat
  | .isdir3 => 1 | .mkdir => 2 | .isdir2 => 3 | .isdir1 => 4

def IniPc.rank : IniPc → Nat
  | .load2 => 6 | .isfile => 11 | .isdir2 => 12 | .mkdir => 13 | .existsWs => 14 | .isdir => 15 | .load1 => 16

def SavePc.rank : SavePc → Nat
  | .rename => 1 | .close => 2 | .write => 3 | .openw => 4

def Kind.base : Kind → Nat
  | .doc => 0 | .sp => 6

/-- remaining steps of the operation in progress (upper bound) -/
def rank : Phase SP DV → Nat
  | .fin => 0
  | .proj n => n.rank
  | .len => 1
  | .save n _ k _ => n.rank + k.base
  | .dload _ => 5
  | .ini n _ => n.rank
  | .lite _ => 17

def fuel (st : AState SP DV) : Nat := st.script.length * 18 + rank st.phase

theorem rank_firstPhase (op : Op SP DV) : rank (firstPhase op) ≤ 17 := by
  cases op <;> simp [firstPhase, rank, ProjPc.rank, IniPc.rank]

theorem rank_fin : rank (.fin : Phase SP DV) = 0 := rfl

theorem fuel_finishOp' (st st' : AState SP DV) (hsc : st'.script = st.script) (h : 1 ≤ rank st.phase) :
    fuel (finishOp st') < fuel st := by
  unfold fuel
  rw [finishOp_script, hsc]
  cases hs : st.script with
  | nil =>
    have hp : (finishOp st').phase = .fin := by simp [finishOp, startNext, hsc, hs]
    rw [hp, rank_fin]; simp only [List.tail_nil, List.length_nil]; omega
  | cons op r =>
    have hp : rank (finishOp st').phase ≤ 17 := by
      simp only [finishOp, startNext, hsc, hs, List.tail_cons]
      split
      · rw [rank_fin]; omega
      · exact rank_firstPhase _
    simp only [List.tail_cons, List.length_cons]
    omega

theorem fuel_finishOp (st : AState SP DV) (h : 1 ≤ rank st.phase) : fuel (finishOp st) < fuel st :=
  fuel_finishOp' st st rfl h

theorem fuel_fail (st : AState SP DV) (w : String) (h : 1 ≤ rank st.phase) : fuel (st.fail w) < fuel st := by
  unfold fuel
  show st.script.length * 18 + rank (.fin : Phase SP DV) < _
  rw [rank_fin]; omega

theorem fuel_goto (st : AState SP DV) (ph : Phase SP DV) (h : rank ph < rank st.phase) :
    fuel (st.goto ph) < fuel st := by
  unfold fuel
  show st.script.length * 18 + rank ph < _
  omega

theorem fuel_afterInit (st : AState SP DV) (v : SP) (h : 6 ≤ rank st.phase) :
    fuel (afterInit hash st v) < fuel st := by
  have h5 : rank (.dload v : Phase SP DV) = 5 := rfl
  have h4 : ∀ d, rank (.save .openw (hash v) .doc (.docc d) : Phase SP DV) = 4 := fun _ => rfl
  unfold afterInit; split
  · exact fuel_goto _ _ (by rw [h5]; omega)
  · exact fuel_goto _ _ (by rw [h5]; omega)
  · exact fuel_goto _ _ (by rw [h4]; omega)
  · exact fuel_finishOp _ (by omega)

theorem fuel_docStart (st : AState SP DV) (v : SP) (h : 6 ≤ rank st.phase) :
    fuel (docStart hash st v) < fuel st := by
  have h5 : rank (.dload v : Phase SP DV) = 5 := rfl
  have h4 : ∀ d, rank (.save .openw (hash v) .doc (.docc d) : Phase SP DV) = 4 := fun _ => rfl
  unfold docStart; split
  · exact fuel_goto _ _ (by rw [h4]; omega)
  · exact fuel_goto _ _ (by rw [h5]; omega)

attribute [local irreducible] finishOp afterInit docStart AState.fail AState.goto fuel in
/-- the variant decreases with every step, whatever the primitive answered -/
theorem fuel_resume {st : AState SP DV} (hne : st.phase ≠ .fin) (r : Res SP DV) :
    fuel (resume hash st r) < fuel st := by
  cases hph : st.phase with
  | fin => exact absurd hph hne
  | proj n =>
    simp only [resume, hph, resumeProj]
    cases n <;> simp only <;> repeat' split
    all_goals first
      | exact fuel_finishOp _ (by simp [hph, rank, ProjPc.rank, IniPc.rank, SavePc.rank, Kind.base])
      | exact fuel_fail _ _ (by simp [hph, rank, ProjPc.rank, IniPc.rank, SavePc.rank, Kind.base])
      | exact fuel_goto _ _ (by simp [hph, rank, ProjPc.rank, IniPc.rank, SavePc.rank, Kind.base])
  | lite v =>
    simp only [resume, hph]; split
    · exact fuel_docStart _ _ (by simp [hph, rank])
    · exact fuel_goto _ _ (by simp [hph, rank, ProjPc.rank, IniPc.rank, SavePc.rank, Kind.base])
  | ini n v =>
    simp only [resume, hph, resumeIni]
    cases n <;> simp only <;> repeat' split
    all_goals first
      | exact fuel_afterInit _ _ (by simp [hph, rank, ProjPc.rank, IniPc.rank, SavePc.rank, Kind.base])
      | exact fuel_fail _ _ (by simp [hph, rank, ProjPc.rank, IniPc.rank, SavePc.rank, Kind.base])
      | exact fuel_goto _ _ (by simp [hph, rank, ProjPc.rank, IniPc.rank, SavePc.rank, Kind.base])
  | save n i k c =>
    simp only [resume, hph, resumeSave]
    cases k <;> cases n <;> simp only <;> repeat' split
    all_goals first
      | exact fuel_finishOp _ (by simp [hph, rank, ProjPc.rank, IniPc.rank, SavePc.rank, Kind.base])
      | exact fuel_fail _ _ (by simp [hph, rank, ProjPc.rank, IniPc.rank, SavePc.rank, Kind.base])
      | exact fuel_goto _ _ (by simp [hph, rank, ProjPc.rank, IniPc.rank, SavePc.rank, Kind.base])
      | (rename_i heq; cases heq)
      | (rename_i heq _; cases heq)
  | dload v =>
    simp only [resume, hph]
    repeat' split
    all_goals first
      | exact fuel_fail _ _ (by simp [hph, rank, ProjPc.rank, IniPc.rank, SavePc.rank, Kind.base])
      | (unfold resumeDload; repeat' split)
    all_goals first
      | exact fuel_finishOp' st _ rfl (by simp [hph, rank, ProjPc.rank, IniPc.rank, SavePc.rank, Kind.base])
      | exact fuel_fail _ _ (by simp [hph, rank, ProjPc.rank, IniPc.rank, SavePc.rank, Kind.base])
      | exact fuel_goto _ _ (by simp [hph, rank, ProjPc.rank, IniPc.rank, SavePc.rank, Kind.base])
  | len =>
    simp only [resume, hph]; split
    · exact fuel_finishOp' st _ rfl (by simp [hph, rank, ProjPc.rank, IniPc.rank, SavePc.rank, Kind.base])
    · exact fuel_fail _ _ (by simp [hph, rank, ProjPc.rank, IniPc.rank, SavePc.rank, Kind.base])

theorem next_none_iff (a : Nat) (st : AState SP DV) : next hash a st = none ↔ st.phase = .fin := by
  cases hph : st.phase with
  | fin => simp [next, hph]
  | proj n => cases n <;> simp [next, hph]
  | lite v => simp [next, hph]
  | ini n v => cases n <;> simp [next, hph]
  | save n i k c => cases n <;> simp [next, hph]
  | dload v => simp [next, hph]
  | len => simp [next, hph]

def Fin (s : Sys SP DV) (a : Nat) : Prop := ∀ st, s.actors[a]? = some st → st.phase = .fin

/-- a finished actor stays finished, whoever moves -/
theorem fin_step {s : Sys SP DV} {b : Nat} (h : Fin s b) (a : Nat) : Fin (sysStep hash s a) b := by
  cases hst : s.actors[a]? with
  | none => rw [sysStep_idle_none hst]; exact h
  | some st =>
  cases hn : next hash a st with
  | none => rw [sysStep_idle_fin hst hn]; exact h
  | some ins =>
  rw [sysStep_eq hst hn]
  intro st' hb
  simp only at hb
  by_cases hab : b = a
  · subst hab
    have := (next_none_iff (hash := hash) b st).2 (h st hst)
    rw [this] at hn; cases hn
  · rw [set_other _ hab] at hb; exact h st' hb

theorem fin_run {s : Sys SP DV} {b : Nat} (h : Fin s b) (sched : List Nat) : Fin (run hash s sched) b := by
  induction sched generalizing s with
  | nil => exact h
  | cons a rest ih => exact ih (fin_step h a)

theorem other_step {s : Sys SP DV} {a b : Nat} (hab : b ≠ a) : (sysStep hash s a).actors[b]? = s.actors[b]? := by
  cases hst : s.actors[a]? with
  | none => rw [sysStep_idle_none hst]
  | some st =>
  cases hn : next hash a st with
  | none => rw [sysStep_idle_fin hst hn]
  | some ins => rw [sysStep_eq hst hn]; exact set_other _ hab

theorem other_solo {s : Sys SP DV} {a b : Nat} (hab : b ≠ a) (n : Nat) :
    (run hash s (List.replicate n a)).actors[b]? = s.actors[b]? := by
  induction n generalizing s with
  | zero => rfl
  | succ n ih => simp only [List.replicate_succ, run]; rw [ih, other_step hab]

/-- `n` solo steps finish an actor whose variant is at most `n` -/
theorem solo_fin {s : Sys SP DV} {a : Nat} (n : Nat)
    (h : ∀ st, s.actors[a]? = some st → st.phase = .fin ∨ fuel st ≤ n) :
    Fin (run hash s (List.replicate n a)) a := by
  induction n generalizing s with
  | zero =>
    intro st hst
    simp only [List.replicate_zero, run] at hst
    rcases h st hst with hf | hf
    · exact hf
    · simp only [fuel] at hf
      have : rank st.phase = 0 := by omega
      cases hph : st.phase with
      | fin => rfl
      | proj m => rw [hph] at this; cases m <;> simp [rank, ProjPc.rank] at this
      | lite v => rw [hph] at this; simp [rank] at this
      | ini m v => rw [hph] at this; cases m <;> simp [rank, IniPc.rank] at this
      | save m i k c => rw [hph] at this; cases m <;> cases k <;> simp [rank, SavePc.rank, Kind.base] at this
      | dload v => rw [hph] at this; simp [rank] at this
      | len => rw [hph] at this; simp [rank] at this
  | succ n ih =>
    simp only [List.replicate_succ, run]
    apply ih
    intro st' hst'
    cases hst : s.actors[a]? with
    | none => rw [sysStep_idle_none hst] at hst'; rw [hst] at hst'; cases hst'
    | some st =>
    cases hn : next hash a st with
    | none =>
      rw [sysStep_idle_fin hst hn, hst] at hst'; cases hst'
      exact Or.inl ((next_none_iff a st').1 hn)
    | some ins =>
      rw [sysStep_eq hst hn] at hst'
      simp only at hst'
      rw [set_self hst] at hst'; cases hst'
      have hne : st.phase ≠ .fin := fun e => by rw [(next_none_iff (hash := hash) a st).2 e] at hn; cases hn
      rcases h st hst with hf | hf
      · exact absurd hf hne
      · right
        have := fuel_resume (hash := hash) hne (exec s.fs ins).2
        omega

theorem run_append (s : Sys SP DV) (l1 l2 : List Nat) :
    run hash s (l1 ++ l2) = run hash (run hash s l1) l2 := by
  induction l1 generalizing s with
  | nil => rfl
  | cons a r ih => simp only [List.cons_append, run]; exact ih _

/-- running the actors of `as` one after another, each for `F a` steps -/
def blocks (F : Nat → Nat) (as : List Nat) : List Nat := as.flatMap (fun a => List.replicate (F a) a)

theorem blocks_fin (F : Nat → Nat) (as : List Nat) (s : Sys SP DV)
    (h : ∀ a ∈ as, ∀ st, s.actors[a]? = some st → st.phase = .fin ∨ fuel st ≤ F a) :
    ∀ a ∈ as, Fin (run hash s (blocks F as)) a := by
  induction as generalizing s with
  | nil => intro a ha; cases ha
  | cons a0 rest ih =>
    intro a ha
    simp only [blocks, List.flatMap_cons] at ih ⊢
    rw [run_append]
    have h0 : Fin (run hash s (List.replicate (F a0) a0)) a0 := solo_fin _ (h a0 (by simp))
    have hrest : ∀ a ∈ rest, ∀ st, (run hash s (List.replicate (F a0) a0)).actors[a]? = some st →
        st.phase = .fin ∨ fuel st ≤ F a := by
      intro a' ha' st hst
      by_cases he : a' = a0
      · subst he; exact Or.inl (h0 st hst)
      · rw [other_solo he] at hst
        exact h a' (by simp [ha']) st hst
    rcases List.mem_cons.1 ha with rfl | ha
    · exact fin_run h0 _
    · exact ih _ hrest a ha

def fuelAt (s : Sys SP DV) (a : Nat) : Nat :=
  match s.actors[a]? with
  | some st => fuel st
  | none => 0

/-- the sequential schedule: actor 0 until it is done, then actor 1, … -/
def seqSched (s : Sys SP DV) : List Nat := blocks (fuelAt s) (List.range s.actors.length)

theorem run_length (s : Sys SP DV) (sched : List Nat) : (run hash s sched).actors.length = s.actors.length := by
  induction sched generalizing s with
  | nil => rfl
  | cons a rest ih =>
    simp only [run]; rw [ih]
    cases hst : s.actors[a]? with
    | none => rw [sysStep_idle_none hst]
    | some st =>
    cases hn : next hash a st with
    | none => rw [sysStep_idle_fin hst hn]
    | some ins => rw [sysStep_eq hst hn]; simp

/-- the sequential schedule completes: every actor terminates -/
theorem seq_completes (s : Sys SP DV) : AllDone (run hash s (seqSched s)) := by
  intro st hm
  obtain ⟨a, ha, rfl⟩ := List.mem_iff_getElem.1 hm
  have hlen := run_length (hash := hash) s (seqSched s)
  have ha' : a < s.actors.length := hlen ▸ ha
  have := blocks_fin (hash := hash) (fuelAt s) (List.range s.actors.length) s
    (by intro a _ st' hst; right; simp [fuelAt, hst]) a (List.mem_range.2 ha')
  exact this _ (List.getElem?_eq_getElem ha)

/-- an initial configuration of the property: a valid workspace (well-shaped, no temp files, every
    job directory has its state point file) and processes about to start -/
structure ValidStart (hash : SP → JobId) (fs : FS SP DV) : Prop where
  inv : FsInv hash fs
  noTmp : ∀ i k a, fs.get (.tmp i k a) = none
  complete : ∀ i, IsDir fs (.jobdir i) → IsFile fs (.file i .sp)

def startSys (fs : FS SP DV) (scripts : List (List (Op SP DV))) : Sys SP DV :=
  { fs := fs, actors := scripts.map AState.start }

/-- What a finished run leaves behind, as a function of the inputs only (no schedule in sight). -/
structure FinalSpec (hash : SP → JobId) (fs : FS SP DV) (scripts : List (List (Op SP DV)))
    (f : FS SP DV) : Prop where
  jobs : ∀ i, IsDir f (.jobdir i) ↔ Requested hash (startSys fs scripts) i
  check : ∀ i, IsDir f (.jobdir i) → ∃ v, f.get (.file i .sp) = some (.file (.spc v)) ∧ hash v = i
  spOnlyInJob : ∀ i, IsFile f (.file i .sp) → IsDir f (.jobdir i)
  docs : ∀ i w, SingleWriter hash i w scripts →
    docNow f i = applySets (docNow fs i) (writesOf hash i w scripts)
  clean : ∀ i k a, f.get (.tmp i k a) = none

theorem final_spec {fs : FS SP DV} (hv : ValidStart hash fs) (scripts : List (List (Op SP DV)))
    (sched : List Nat) (hd : AllDone (run hash (startSys fs scripts) sched)) :
    FinalSpec hash fs scripts (run hash (startSys fs scripts) sched).fs := by
  have h0 : SysInv hash (startSys fs scripts) := initial_inv hv.inv hv.noTmp scripts
  have hS := run_inv h0 sched
  have hO : DirOwner hash (run hash (startSys fs scripts) sched) :=
    dirOwner_run h0 (fun i hdir => Or.inl (hv.complete i hdir)) sched
  obtain ⟨_, hJ⟩ := all_run h0 (allHeadOk_start fs scripts) (jobsInv_refl _) sched
  have hF : AllFinOk (run hash (startSys fs scripts) sched) := allFinOk_run (allFinOk_start fs scripts) sched
  refine ⟨?_, ?_, ?_, ?_, ?_⟩
  · exact done_jobs hS hF hJ hd (run_monotone h0 sched).1
  · exact fun i hdir => done_check_passes hS hO hd i hdir
  · intro i ⟨c, hc⟩; exact parent_dir hS.fs hc rfl
  · intro i w hsw
    have hD := docInv_run h0 (docInv_initially (fs := fs) hsw) sched
    have := hD.target
    rw [wPending_done hS hd hF] at this
    simpa [applySets] using this
  · exact done_no_tmp hS hd

/-- same jobs, same documents, both valid and clean -/
structure AbsEq (f1 f2 : FS SP DV) : Prop where
  jobs : ∀ i, IsDir f1 (.jobdir i) ↔ IsDir f2 (.jobdir i)
  sps : ∀ i, IsFile f1 (.file i .sp) ↔ IsFile f2 (.file i .sp)
  docs : ∀ i, docNow f1 i = docNow f2 i
  clean : ∀ i k a, f1.get (.tmp i k a) = none ∧ f2.get (.tmp i k a) = none

theorem absEq_of_spec {fs : FS SP DV} {scripts : List (List (Op SP DV))} {f1 f2 : FS SP DV}
    (h1 : FinalSpec hash fs scripts f1) (h2 : FinalSpec hash fs scripts f2)
    (hsw : ∀ i, ∃ w, SingleWriter hash i w scripts) : AbsEq f1 f2 := by
  refine ⟨fun i => (h1.jobs i).trans (h2.jobs i).symm, ?_, ?_, fun i k a => ⟨h1.clean i k a, h2.clean i k a⟩⟩
  · intro i
    constructor
    · intro hf
      obtain ⟨v, hv, _⟩ := h2.check i (((h1.jobs i).trans (h2.jobs i).symm).1 (h1.spOnlyInJob i hf))
      exact ⟨_, hv⟩
    · intro hf
      obtain ⟨v, hv, _⟩ := h1.check i (((h1.jobs i).trans (h2.jobs i).symm).2 (h2.spOnlyInJob i hf))
      exact ⟨_, hv⟩
  · intro i
    obtain ⟨w, hw⟩ := hsw i
    rw [h1.docs i w hw, h2.docs i w hw]


/-- executable form of `AllDone` (for concrete instances) -/
def allDoneB (s : Sys SP DV) : Bool :=
  s.actors.all (fun st => match st.phase with | .fin => true | _ => false)

theorem allDone_of_B {s : Sys SP DV} (h : allDoneB s = true) : AllDone s := by
  intro st hm
  simp only [allDoneB, List.all_eq_true] at h
  have := h st hm
  split at this
  · assumption
  · cases this

end Signac.Conc

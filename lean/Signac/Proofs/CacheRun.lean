/-
  Every history of C08 operations keeps the workspace uncorrupted and the cache invariant.
-/
import Signac.Proofs.CacheUpdate
namespace Signac.Cache
open Signac Signac.Ws

section
variable {hash : JVal → String}

theorem ensureRead_ws (s : St) : (ensureRead s).ws = s.ws := by
  unfold ensureRead; split
  · rfl
  · exact readCache_ws s

theorem allValid_erase {l : List (String × Dir)} (h : AllValid hash l) (k : String) :
    AllValid hash (aerase k l) := fun id d hm => h id d (mem_aerase hm).1

theorem allValid_append {l : List (String × Dir)} (h : AllValid hash l) {id : String} {d : Dir}
    (hd : (loadValid hash d id).isSome = true) : AllValid hash (l ++ [(id, d)]) := by
  intro i d' hm
  rcases List.mem_append.mp hm with hm | hm
  · exact h i d' hm
  · simp only [List.mem_singleton, Prod.mk.injEq] at hm
    obtain ⟨rfl, rfl⟩ := hm
    exact hd

theorem loadValid_fresh (sp : JVal) (p : Nat) : (loadValid hash ⟨.valid sp, p⟩ (hash sp)).isSome = true := by
  simp [loadValid]

theorem getStatepoint_ws (s : St) (id : String) : (getStatepoint hash s id).1.ws = s.ws := by
  simp only [getStatepoint]
  split
  · exact ensureRead_ws s
  · split
    · split
      · exact ensureRead_ws s
      · exact ensureRead_ws s
    · exact ensureRead_ws s

theorem observeAll_ws (s : St) (ids : List String) : (observeAll hash s ids).ws = s.ws := by
  induction ids generalizing s with
  | nil => exact ensureRead_ws s
  | cons id r ih => rw [observeAll, ih, getStatepoint_ws]

theorem updateCache_ws (s : St) : (updateCache hash s).1.ws = s.ws := by
  simp only [updateCache]
  split
  · exact readCache_ws s
  · split
    · split
      · exact readCache_ws s
      · exact readCache_ws s
    · exact readCache_ws s

/-- An uncorrupted workspace stays uncorrupted under every C08 operation. -/
theorem allValid_cstep (s : St) (h : AllValid hash s.ws) (op : COp) : AllValid hash (cstep hash s op).ws := by
  have he : AllValid hash (ensureRead s).ws := by rw [ensureRead_ws]; exact h
  cases op with
  | init sp =>
    simp only [cstep, initJob]
    split
    · rename_i d hl
      split
      · exact he
      · rename_i hn
        have := he _ _ (alookup_some_mem hl)
        simp [hn] at this
    · exact allValid_append he (loadValid_fresh sp 0)
  | remove sp =>
    simp only [cstep, removeJob]
    exact allValid_erase he _
  | rekey sp k v =>
    simp only [cstep, rekeyJob]
    split
    · exact he
    · split
      · exact he
      · split
        · exact he
        · split
          · exact he
          · refine allValid_append (allValid_erase he _) ?_
            simp [loadValid]
  | ucache => simp only [cstep]; rw [updateCache_ws]; exact h
  | session => exact h
  | rmcache => exact h
  | observe => simp only [cstep, observe]; rw [observeAll_ws]; exact h

theorem cacheInv_cstep (s : St) (h : CacheInv hash s) (op : COp) : CacheInv hash (cstep hash s op) := by
  cases op with
  | init sp => exact cacheInv_initJob h sp false
  | remove sp => exact cacheInv_removeJob h sp
  | rekey sp k v => exact cacheInv_rekeyJob h sp k v
  | ucache => exact cacheInv_updateCache h
  | session => exact cacheInv_newSession h
  | rmcache => exact cacheInv_rmCache h
  | observe => exact cacheInv_observeAll h _

theorem crun_inv (s : St) (hv : AllValid hash s.ws) (hc : CacheInv hash s) (ops : List COp) :
    AllValid hash (crun hash s ops).ws ∧ CacheInv hash (crun hash s ops) := by
  induction ops generalizing s with
  | nil => exact ⟨hv, hc⟩
  | cons op ops ih => exact ih _ (allValid_cstep s hv op) (cacheInv_cstep s hc op)

theorem empty_inv : AllValid hash St.empty.ws ∧ CacheInv hash St.empty :=
  ⟨fun _ _ hm => by simp [St.empty] at hm,
   ⟨fun _ _ hm => by simp [St.empty] at hm, fun c hc => by simp [St.empty] at hc⟩⟩

end
end Signac.Cache

/-
  Signac.Json — JSON values as signac sees them, canonical form and the
  text `json.dumps(v, sort_keys=True)` produces (default separators,
  ensure_ascii=True).  Import-free (core only) so that drivers link.

  Modelled code:  signac/job.py `calc_id`  (json.dumps(..., sort_keys=True)).
  Floats carry their exact dyadic value `num / 2^exp` (what Python compares)
  and CPython's `repr` text (what json.dumps prints); both come from the
  harness, the repr is an opaque token for the model.
-/
namespace Signac

inductive JVal where
  | null
  | bool (b : Bool)
  | int (i : Int)
  | flt (num : Int) (exp : Nat) (repr : String)
  | str (s : String)
  | arr (xs : List JVal)
  | obj (kvs : List (String × JVal))
  deriving Repr, Inhabited

/-- Sorted insertion by key (code-point order = Python `str` order).  On an
    equal key the entry already present is replaced. -/
def insertKV (k : String) (v : JVal) : List (String × JVal) → List (String × JVal)
  | [] => [(k, v)]
  | (k', v') :: rest =>
    if k < k' then (k, v) :: (k', v') :: rest
    else if k = k' then (k, v) :: rest
    else (k', v') :: insertKV k v rest

mutual
  /-- Canonical form: every object sorted by key, recursively. -/
  def canon : JVal → JVal
    | .arr xs => .arr (canonList xs)
    | .obj kvs => .obj (canonObj kvs)
    | .null => .null
    | .bool b => .bool b
    | .int i => .int i
    | .flt n e r => .flt n e r
    | .str s => .str s
  def canonList : List JVal → List JVal
    | [] => []
    | x :: xs => canon x :: canonList xs
  def canonObj : List (String × JVal) → List (String × JVal)
    | [] => []
    | (k, v) :: rest => insertKV k (canon v) (canonObj rest)
end

def hexDigit (n : Nat) : Char :=
  if n < 10 then Char.ofNat (48 + n) else Char.ofNat (87 + n)

/-- four lower-case hex digits of a number < 65536 -/
def hex4 (n : Nat) : List Char :=
  [hexDigit (n / 4096 % 16), hexDigit (n / 256 % 16), hexDigit (n / 16 % 16), hexDigit (n % 16)]

def uEsc (n : Nat) : List Char := '\\' :: 'u' :: hex4 n

/-- `json.encoder.ESCAPE_ASCII` applied to one character (ensure_ascii=True). -/
def escapeChar (c : Char) : List Char :=
  let n := c.toNat
  if c = '"' then ['\\', '"']
  else if c = '\\' then ['\\', '\\']
  else if c = '\n' then ['\\', 'n']
  else if c = '\r' then ['\\', 'r']
  else if c = '\t' then ['\\', 't']
  else if n = 8 then ['\\', 'b']
  else if n = 12 then ['\\', 'f']
  else if 32 ≤ n ∧ n ≤ 126 then [c]
  else if n < 65536 then uEsc n
  else
    let m := n - 65536
    uEsc (55296 + (m / 1024) % 1024) ++ uEsc (56320 + m % 1024)

def escapeChars : List Char → List Char
  | [] => []
  | c :: cs => escapeChar c ++ escapeChars cs

def encStrChars (s : String) : List Char := '"' :: (escapeChars s.toList ++ ['"'])

def intChars (i : Int) : List Char := (toString i).toList

mutual
  /-- Characters of `json.dumps(v)` (insertion order of objects as given). -/
  def encChars : JVal → List Char
    | .null => "null".toList
    | .bool true => "true".toList
    | .bool false => "false".toList
    | .int i => intChars i
    | .flt _ _ r => r.toList
    | .str s => encStrChars s
    | .arr xs => '[' :: (encListChars xs ++ [']'])
    | .obj kvs => '{' :: (encObjChars kvs ++ ['}'])
  def encListChars : List JVal → List Char
    | [] => []
    | x :: xs => match xs with
      | [] => encChars x
      | _ :: _ => encChars x ++ (',' :: ' ' :: encListChars xs)
  def encObjChars : List (String × JVal) → List Char
    | [] => []
    | (k, v) :: rest => match rest with
      | [] => encStrChars k ++ (':' :: ' ' :: encChars v)
      | _ :: _ => encStrChars k ++ (':' :: ' ' :: encChars v) ++ (',' :: ' ' :: encObjChars rest)
end

/-- `json.dumps(v)` with the caller's key order. -/
def dumpChars (v : JVal) : List Char := encChars v

/-- `json.dumps(v, sort_keys=True)`: the text that is hashed. -/
def canonChars (v : JVal) : List Char := encChars (canon v)

def canonText (v : JVal) : String := String.ofList (canonChars v)

end Signac

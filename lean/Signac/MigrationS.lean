/-
  Signac.MigrationS — the migration chain with the schema version carried as the STRING that
  stands in the config file.  Core Lean only.

  Modelled code: the functions of Signac/Migration.lean, one conversion earlier —
    signac/migration/__init__.py `_get_config_schema_version`:
        `return int(config["schema_version"])`, `except KeyError: return 0`        → `detectS`
        (a `ValueError` out of `int()` is caught nowhere: not by the loader loop, whose `try` has
         ended, not by `_collect_migrations`, and `apply_migrations` has only a `finally` that
         removes the lock file)
    `apply_migrations`: `config["schema_version"] = destination` (an int; configobj writes its
        `str`)                                                                     → `bumpS`

  `ProjS` is `Mig.Proj` with `ConfS` (version : Option String) for `Conf`; every function below
  is the function of the same name in Signac/Migration.lean with the version read through
  `PyInt.pyInt` at the place where the code calls `int()`.  `ProjS.toProj` reads the strings as
  numbers; where every declared version is a non-negative integer literal (`IntLit`) the two
  chains agree step by step (Signac/Proofs/MigrationSLemmas.lean, `migrationLayer_refines` in
  Properties/C20.lean).
-/
import Signac.Migration
import Signac.PyInt
namespace Signac.MigS
open Signac Signac.Mig Signac.PyInt

/-- A config file: `version` is the raw value of the key `schema_version` (`none`: no key). -/
structure ConfS where
  version : Option String
  project : Option String
  wsDir : Option String
  deriving DecidableEq, Repr

structure ProjS where
  rc : Option ConfS                      -- signac.rc
  cfg : Option ConfS                     -- .signac/config
  dotSignac : Bool
  ents : List (String × Blob)
  doc : Option (List (String × JVal))
  cacheOld : Option Blob
  histOld : Option Blob
  cacheNew : Option Blob
  histNew : Option Blob
  lock : Bool
  rest : Blob
  deriving Repr

/-! ### the link to the numeric model -/

/-- the strings read as numbers (junk `0` where a string is no non-negative integer literal) -/
def ConfS.toConf (c : ConfS) : Conf :=
  { version := c.version.map (fun s => (declared s).getD 0), project := c.project, wsDir := c.wsDir }

def ProjS.toProj (P : ProjS) : Proj :=
  { rc := P.rc.map ConfS.toConf, cfg := P.cfg.map ConfS.toConf, dotSignac := P.dotSignac,
    ents := P.ents, doc := P.doc, cacheOld := P.cacheOld, histOld := P.histOld,
    cacheNew := P.cacheNew, histNew := P.histNew, lock := P.lock, rest := P.rest }

/-- every version declared in one of the two config files is a non-negative integer literal -/
def IntLit (P : ProjS) : Prop :=
  ∀ c, (P.rc = some c ∨ P.cfg = some c) → ∀ s, c.version = some s → (declared s).isSome = true

/-- the numbers written the way the code writes them -/
def ofConf (c : Conf) : ConfS :=
  { version := c.version.map toString, project := c.project, wsDir := c.wsDir }

def ofProj (P : Proj) : ProjS :=
  { rc := P.rc.map ofConf, cfg := P.cfg.map ofConf, dotSignac := P.dotSignac,
    ents := P.ents, doc := P.doc, cacheOld := P.cacheOld, histOld := P.histOld,
    cacheNew := P.cacheNew, histNew := P.histNew, lock := P.lock, rest := P.rest }

/-! ### loaders and `_get_config_schema_version` -/

def loadV1S (P : ProjS) : Option ConfS :=
  match P.rc with
  | some c => if c.project.isSome then some c else none
  | none => none

def loadV2S (P : ProjS) : Option ConfS := P.cfg

def loaderS (n : Nat) (P : ProjS) : Option ConfS :=
  if n = 1 then loadV1S P else if n = 2 then loadV2S P else none

def firstLoadS (P : ProjS) : List Nat → Option ConfS
  | [] => none
  | n :: ns => match loaderS n P with
    | some c => some c
    | none => firstLoadS P ns

/-- outcome of `_get_config_schema_version` -/
inductive DetS where
  | unable            -- RuntimeError "Unable to load config file."
  | valueError        -- `int(config["schema_version"])` raised
  | ver (v : Int)
  deriving DecidableEq, Repr

/-- `_get_config_schema_version(root, guess)`: the first loader that loads, then
    `int(config["schema_version"])`; `KeyError` → 0. -/
def detectS (P : ProjS) (guess : Nat) : DetS :=
  let order := if guess = 1 ∨ guess = 2 then [guess, 2, 1] else [2, 1]
  match firstLoadS P order with
  | none => .unable
  | some c =>
    match c.version with
    | none => .ver 0
    | some s =>
      match pyInt s with
      | none => .valueError
      | some v => .ver v

/-! ### `_migrate_v1_to_v2` and the version bump -/

def hasEntS (P : ProjS) (k : String) : Bool := (P.ents.lookup k).isSome

def wsNameS (c : ConfS) : String := c.wsDir.getD "workspace"

/-- `_migrate_v1_to_v2` (never looks at the version; the key travels with the file). -/
def migrate12S (P : ProjS) : ProjS × Bool :=
  match loadV1S P with
  | none => (P, false)
  | some c =>
    if wsNameS c ≠ "workspace" ∧ hasEntS P "workspace" then (P, false)
    else if wsNameS c ≠ "workspace" ∧ ¬ hasEntS P (wsNameS c) then (P, false)
    else
      let ents1 := if wsNameS c ≠ "workspace" then renameEnt (wsNameS c) "workspace" P.ents else P.ents
      let doc1 := if c.project ≠ some "None"
                  then some (docSet "signac_project_name" (.str (c.project.getD "")) (P.doc.getD []))
                  else P.doc
      let c' : ConfS := { c with project := none, wsDir := none }
      if P.dotSignac then
        ({ P with ents := ents1, doc := doc1, rc := some c' }, false)
      else
        ({ P with ents := ents1, doc := doc1, rc := none, cfg := some c', dotSignac := true,
                  histOld := none, histNew := if P.histOld.isSome then P.histOld else P.histNew,
                  cacheOld := none, cacheNew := if P.cacheOld.isSome then P.cacheOld else P.cacheNew },
         true)

/-- `config = _CONFIG_LOADERS[dest](root); config["schema_version"] = dest; config.write()`:
    the file then says `schema_version = <str(dest)>`. -/
def bumpS (dest : Nat) (P : ProjS) : Option ProjS :=
  if dest = 1 then (loadV1S P).map (fun c => { P with rc := some { c with version := some (toString 1) } })
  else if dest = 2 then (loadV2S P).map (fun c => { P with cfg := some { c with version := some (toString 2) } })
  else none

/-! ### `apply_migrations` -/

inductive MigResultS where
  | base (r : MigResult)   -- returned normally / one of the RuntimeErrors
  | valueError             -- ValueError out of `int()`, through `apply_migrations`
  deriving DecidableEq, Repr

/-- `Mig.loop` with the version an `int`: a negative version is smaller than SCHEMA and is the
    origin of no migration ("does not know how to migrate"). -/
def loopS : Nat → Nat → ProjS → ProjS × MigResultS
  | 0, _, P => (P, .base .noPath)
  | fuel + 1, guess, P =>
    match detectS P guess with
    | .unable => (P, .base .unableToLoad)
    | .valueError => (P, .valueError)
    | .ver v =>
      if v < (SCHEMA : Int) then
        if v = 0 then
          match bumpS 1 P with
          | none => (P, .base .noConfig)
          | some P' => loopS fuel 1 P'
        else if v = 1 then
          match migrate12S P with
          | (P', false) => (P', .base (.failed 2))
          | (P', true) =>
            match bumpS 2 P' with
            | none => (P', .base .noConfig)
            | some P'' => loopS fuel 2 P''
        else (P, .base .noPath)
      else (P, .base .ok)

/-- `apply_migrations(root)`: everything under the lock file, removed at the end whatever
    happened (also when `int()` raised).  The first guess of the loop is the detected version;
    a value that is no key of `_CONFIG_LOADERS` (e.g. a negative one, `Int.toNat` = 0) selects no
    extra loader. -/
def applyMigrationsS (P : ProjS) : ProjS × MigResultS :=
  let L := { P with lock := true }
  match detectS L SCHEMA with
  | .unable => ({ L with lock := false }, .base .unableToLoad)
  | .valueError => ({ L with lock := false }, .valueError)
  | .ver v =>
    if v > (SCHEMA : Int) then ({ L with lock := false }, .base .tooNew)
    else
      match loopS (SCHEMA + 1) v.toNat L with
      | (Q, r) => ({ Q with lock := false }, r)

end Signac.MigS

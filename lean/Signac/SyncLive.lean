/-
  Signac.SyncLive — the document merge of a sync on a LIVE destination document.

  `Signac.Sync` models `DocSync.ByKey.__call__` / `DocSync.update` (signac/sync.py) as PURE
  functions on the destination document.  In the real code the destination `dst` is a
  `_DocProxy` (sync.py 137-196) around `dst.document`, a synced collection backed by a FILE:
    * `key in dst`            (`_DocProxy.__contains__`, sync.py 192)  = load the file, then look;
    * `dst[key]`              (`_DocProxy.__getitem__`, sync.py 163)   = load the file, then look
                               (a nested mapping comes back as a child collection that loads
                               through its parent on every later access);
    * `dst[key] = value`      (`_DocProxy.__setitem__`, sync.py 170)   = load the file, set that
                               one (dotted) path, save the file — also on a nested child.
  Between two such accesses ANOTHER PROCESS may rewrite the same file.  Here the merge is a step
  program (`LProg`) whose steps are exactly these file accesses, run against a file that an
  environment rewrites before every step (`runLive`).

  Step sequence of `DocSync.ByKey.__call__(src, dst, root)` (sync.py 471-498) as modelled:
      476  `if src == dst: return`                      load   (`liveByKey`, nested: `liveValue`)
      478  `for key, value in src.items():`             (the source is not shared: no step)
      479    `if key in dst:`                           load
      480      `if dst[key] == value: continue`         load
      482      `elif isinstance(value, Mapping):`
      483        `self(src[key], dst[key], root+key+".", …)`   load (`dst[key]`), then the nested
                                                        call: load (`src == dst`), its own loop
      485      `elif key_strategy is None or not key_strategy(root + key): skipped.add(root+key)`
      488    `dst[key] = value`                         store at the full path `path ++ [key]`
  and of `DocSync.update` (sync.py 448-451): one store `[key]` per source key, no load.

  Modelling limit: once the merge has descended into `dst[key]`, the real child collection keeps
  answering from its last in-memory state if the other process replaces the mapping at `key` by
  something else; here such a view reads as "key absent" and the store is lost (`setV` changes
  nothing when an intermediate mapping is missing).  Neither theorem about environments covers
  such environments (they leave the source's top-level keys alone).

  `dry_run = False` throughout (in a dry run `_DocProxy.__setitem__` writes nothing at all).
  The loads are counted per Python-level expression on `dst` (the synced collection itself
  reloads the file once more inside `child == value`; that only adds steps of the same kind).

  Core Lean only.
-/
import Signac.Sync
namespace Signac.Sync

/-! ### values at dotted paths -/

/-- the value at the path `p` below `v` (`none`: a key on the way is missing or an intermediate
    value is not a mapping) -/
def getV : List String → JVal → Option JVal
  | [], v => some v
  | k :: p, .obj d =>
    match lookupKV k d with
    | some ch => getV p ch
    | none => none
  | _ :: _, _ => none

/-- set the value at the path `p` below `w` to `v`: every intermediate mapping must exist (nothing
    happens otherwise); the last key is created if absent (`setKV`) -/
def setV : List String → JVal → JVal → JVal
  | [], v, _ => v
  | k :: p, v, .obj d =>
    match lookupKV k d with
    | some ch => .obj (setKV k (setV p v ch) d)
    | none =>
      match p with
      | [] => .obj (setKV k v d)
      | _ :: _ => .obj d
  | _ :: _, _, w => w

/-- `doc[k1][k2]…` on the document; the empty path is the document itself -/
def getPath (p : List String) (d : Doc) : Option JVal := getV p (.obj d)

/-- `doc[k1][k2]…[kn] = v` on the document.  The empty path replaces the whole document (only the
    snapshot regression `mergeSnapshot` does that). -/
def setPath (p : List String) (v : JVal) (d : Doc) : Doc :=
  match setV p v (.obj d) with
  | .obj d' => d'
  | _ => d

/-! ### step programs -/

/-- one access to the shared file -/
inductive LiveStep where
  /-- read the whole document from the file -/
  | load
  /-- load, set the value at the dotted path, save -/
  | store (path : List String) (v : JVal)

/-- what a merge reports: the conflicting dotted keys it skipped, whether it wrote anything, and
    whether it raised from inside the loop (`TypeError` of the pure model; in a hostile
    environment also the `KeyError` of a key that vanished between `key in dst` and `dst[key]`) -/
structure LRes where
  skipped : List String
  wrote : Bool
  typeErr : Bool

/-- a program over the shared file: `load` hands the document just read to the continuation -/
inductive LProg where
  | done (r : LRes)
  | load (k : Doc → LProg)
  | store (path : List String) (v : JVal) (k : LProg)

/-- the step a program performs next -/
def LProg.next : LProg → Option LiveStep
  | .done _ => none
  | .load _ => some .load
  | .store p v _ => some (.store p v)

/-- sync.py 485-488 for a value that is not a mapping: the key strategy decides -/
def liveLeaf (ks : Option (String → Bool)) (root : String) (path : List String) (k : String) (v : JVal)
    (st : LRes) (K : LRes → LProg) : LProg :=
  match ks with
  | none => K { st with skipped := st.skipped ++ [root ++ k] }
  | some f =>
    if f (root ++ k) then .store (path ++ [k]) v (K { st with wrote := true })
    else K { st with skipped := st.skipped ++ [root ++ k] }

/-- `src == dst` of a nested call whose `dst` is the child collection at `path` -/
def eqAt (sv : List (String × JVal)) (path : List String) (f : Doc) : Bool :=
  match getPath path f with
  | some w => pyEq (.obj sv) w
  | none => false

mutual
  /-- the loop `for key, value in src.items()` of `ByKey.__call__` whose `dst` is the mapping at
      `path` of the file; `K` is what the caller does afterwards -/
  def liveItems (ks : Option (String → Bool)) (root : String) (path : List String) :
      List (String × JVal) → LRes → (LRes → LProg) → LProg
    | [], st, K => K st
    | (k, v) :: tl, st, K =>
      .load fun f1 =>                                             -- `key in dst`
        match getPath (path ++ [k]) f1 with
        | none => .store (path ++ [k]) v (liveItems ks root path tl { st with wrote := true } K)
        | some _ =>
          .load fun f2 =>                                         -- `dst[key] == value`
            match getPath (path ++ [k]) f2 with
            | none => .done { st with typeErr := true }           -- KeyError: the key vanished
            | some w =>
              if pyEq w v then liveItems ks root path tl st K
              else liveValue ks root path k v st (fun st' => liveItems ks root path tl st' K)
  /-- key `k` is on both sides with values that are not `==` -/
  def liveValue (ks : Option (String → Bool)) (root : String) (path : List String) (k : String) :
      JVal → LRes → (LRes → LProg) → LProg
    | .obj sv, st, K =>
      .load fun f3 =>                                             -- `dst[key]`, the argument
        match getPath (path ++ [k]) f3 with
        | some (.obj _) =>
          .load fun f4 =>                                         -- `src == dst` in the nested call
            if eqAt sv (path ++ [k]) f4 then K st
            else liveItems ks (root ++ k ++ ".") (path ++ [k]) sv st K
        | some _ =>                                               -- a plain value: `src == 5` is False,
          match sv with                                           -- then `key in 5` raises
          | [] => K st
          | _ :: _ => .done { st with typeErr := true }
        | none => .done { st with typeErr := true }
    | v, st, K => liveLeaf ks root path k v st K
end

/-- `DocSync.ByKey(ks)(src, dst)` on the live destination -/
def liveByKey (ks : Option (String → Bool)) (s : Doc) : LProg :=
  .load fun f0 =>                                                 -- `if src == dst: return`
    if pyEq (.obj s) (.obj f0) then .done ⟨[], false, false⟩
    else liveItems ks "" [] s ⟨[], false, false⟩ .done

/-- `DocSync.update(src, dst)`: `for key in src.keys(): dst[key] = src[key]` -/
def liveUpdateItems : List (String × JVal) → LRes → LProg
  | [], st => .done st
  | (k, v) :: tl, st => .store [k] v (liveUpdateItems tl { st with wrote := true })

def liveUpdate (s : Doc) : LProg := liveUpdateItems s ⟨[], false, false⟩

/-- the program of a document strategy (NO_SYNC / COPY never call a merge) -/
def liveDocSync : DocSync → Doc → LProg
  | .byKey ks, s => liveByKey ks s
  | .update, s => liveUpdate s
  | _, _ => .done ⟨[], false, false⟩

/-- THE REGRESSION: merge into an in-memory snapshot, write the whole document back at the end -/
def mergeSnapshot : DocSync → Doc → LProg
  | .byKey ks, s =>
    .load fun f =>
      .store [] (.obj (byKeyItems ks "" s ⟨f, [], false, false⟩).dst)
        (.done ⟨(byKeyItems ks "" s ⟨f, [], false, false⟩).skipped,
                (byKeyItems ks "" s ⟨f, [], false, false⟩).wrote,
                (byKeyItems ks "" s ⟨f, [], false, false⟩).typeErr⟩)
  | .update, s => .load fun f => .store [] (.obj (updateItems s f)) (.done ⟨[], !s.isEmpty, false⟩)
  | _, _ => .done ⟨[], false, false⟩

/-! ### running a program against an environment -/

structure LOut where
  /-- the file when the program has finished -/
  file : Doc
  res : LRes
  /-- number of the next step = number of steps performed when started at 0 -/
  steps : Nat

/-- before step number `n` of the program the environment rewrites the file with `env n` -/
def runLiveFrom (env : Nat → Doc → Doc) : LProg → Nat → Doc → LOut
  | .done r, n, f => ⟨f, r, n⟩
  | .load k, n, f => runLiveFrom env (k (env n f)) (n + 1) (env n f)
  | .store p v k, n, f => runLiveFrom env k (n + 1) (setPath p v (env n f))

def runLive (env : Nat → Doc → Doc) (p : LProg) (file : Doc) : LOut := runLiveFrom env p 0 file

/-- no other process -/
def runQuiet (p : LProg) (file : Doc) : LOut := runLive (fun _ => id) p file

/-- what the environment's rewrites alone make of a file in `m` steps -/
def envOnly (env : Nat → Doc → Doc) (m : Nat) (file : Doc) : Doc :=
  (List.range m).foldl (fun d i => env i d) file

/-- the run as seen from outside: for every step of the program the file as the environment left
    it just before the step, and the file just after the step -/
def traceFrom (env : Nat → Doc → Doc) : LProg → Nat → Doc → List (Doc × Doc)
  | .done _, _, _ => []
  | .load k, n, f => (env n f, env n f) :: traceFrom env (k (env n f)) (n + 1) (env n f)
  | .store p v k, n, f => (env n f, setPath p v (env n f)) :: traceFrom env k (n + 1) (setPath p v (env n f))

def traceLive (env : Nat → Doc → Doc) (p : LProg) (file : Doc) : List (Doc × Doc) := traceFrom env p 0 file

end Signac.Sync

/-
  Signac.Discovery — which project / job owns a path.  Core Lean only.

  Modelled code
    signac/_config.py   `_locate_config_dir`, `_get_project_config_fn`, `_raise_if_older_schema`
    signac/project.py   `Project.__init__` (up to the workspace mkdir), `Project.get_project`,
                        `Project.get_job`, `Project.init_project`, `JOB_ID_REGEX`
    posixpath           `abspath` = `normpath(join(cwd, path))` (`absPath`)

  Paths.  A path is the list of its components, INNERMOST FIRST: `/a/b/c` is `["c","b","a"]`,
  the root is `[]`, `os.path.dirname` is `List.tail`, and "q is p or one of its ancestors"
  is `q <:+ p` (q is a suffix of p).  The file system is what the code can observe of it:
  for every (lexical, absolute) path its kind as seen THROUGH symbolic links, whether
  `<path>/.signac/config` is a file (and the schema version written there), and whether a loadable
  legacy `signac.rc` sits there.  Nothing ties these functions together: the theorems hold
  for every such assignment, consistent with a real file system or not, except where a
  hypothesis says otherwise.
-/
import Signac.Extracted
import Signac.Migration
namespace Signac.Disc
open Signac

abbrev Path := List String

inductive Kind where
  | absent
  | file
  | dir
  deriving DecidableEq, Repr

structure Tree where
  /-- `os.path.exists` / `isdir` of the path (following symlinks). -/
  kind : Path → Kind
  /-- `some v`: `<path>/.signac/config` is a file; `v` = its `schema_version` key if present. -/
  cfg : Path → Option (Option Nat)
  /-- `some v`: `<path>/signac.rc` loads as a v1 config declaring version `v` (absent key = 0). -/
  rc : Path → Option Nat

def isProject (t : Tree) (p : Path) : Bool := (t.cfg p).isSome

/-- `q` is `p` or an ancestor of `p`. -/
def AncOrSelf (q p : Path) : Prop := q <:+ p

/-! ### `_locate_config_dir` -/

/-- First loop: walk up with `dirname` until a directory holding `.signac/config`. -/
def findProject (t : Tree) : Path → Option Path
  | [] => if isProject t [] then some [] else none
  | c :: rest => if isProject t (c :: rest) then some (c :: rest) else findProject t rest

inductive Err where
  | lookup          -- LookupError
  | incompatible    -- IncompatibleSchemaVersion
  | assertion       -- AssertionError out of `_raise_if_older_schema`
  deriving DecidableEq, Repr

def olderErr (t : Tree) (p : Path) : Option Err :=
  match Mig.raiseIfOlder (t.rc p) with
  | .pass => none
  | .incompatible => some .incompatible
  | .assertion => some .assertion

/-- Second loop: walk up again calling `_raise_if_older_schema` on every level. -/
def findOlder (t : Tree) : Path → Option Err
  | [] => olderErr t []
  | c :: rest => match olderErr t (c :: rest) with
    | some e => some e
    | none => findOlder t rest

def locateConfigDir (t : Tree) (p : Path) : Except Err (Option Path) :=
  match findProject t p with
  | some q => .ok (some q)
  | none => match findOlder t p with
    | some e => .error e
    | none => .ok none

/-! ### mutating steps -/

inductive Step where
  | mkdir (p : Path)
  | writeConfig (proj : Path)     -- `<proj>/.signac/config` written
  deriving DecidableEq, Repr

def hasWorkspace (t : Tree) (p : Path) : Bool := t.kind ("workspace" :: p) = .dir

/-- `Project(path)` for an absolute path: config present?, version gate, then (and only
    then) the workspace directory is created if missing. -/
def openProject (t : Tree) (p : Path) : Except Err Path × List Step :=
  match t.cfg p with
  | none => match olderErr t p with
    | some e => (.error e, [])
    | none => (.error .lookup, [])
  | some v =>
    if Mig.gate (v.getD 1) = .ok then
      if hasWorkspace t p then (.ok p, []) else (.ok p, [.mkdir ("workspace" :: p)])
    else (.error .incompatible, [])

/-- `get_project` after the existence test. -/
def getProjectFrom (t : Tree) (p : Path) : Except Err Path × List Step :=
  match locateConfigDir t p with
  | .error e => (.error e, [])
  | .ok none => (.error .lookup, [])
  | .ok (some q) => openProject t q

def getProject (t : Tree) (p : Path) (search : Bool) : Except Err Path × List Step :=
  if t.kind p = .absent then (.error .lookup, [])
  else if !search && !isProject t p then (.error .lookup, [])
  else getProjectFrom t p

/-! ### `JOB_ID_REGEX` and `get_job` -/

def idLen : Nat := Extracted.JOB_ID_LENGTH

def isIdChar (c : Char) : Bool := ('a' ≤ c && c ≤ 'f') || ('0' ≤ c && c ≤ '9')

/-- the pattern matches at the head of `cs` -/
def matchAt (cs : List Char) : Bool :=
  decide ((cs.take idLen).length = idLen) && (cs.take idLen).all isIdChar

/-- `re.finditer` over the characters of one component: the non-overlapping matches, leftmost
    first, each as `(match.start(), match.end())` counted from the start of the component.
    `pos` = offset of the head of the list, `skip` = characters still covered by the previous
    match. -/
def scan : List Char → (pos skip : Nat) → List (Nat × Nat)
  | [], _, _ => []
  | _ :: cs, pos, skip + 1 => scan cs (pos + 1) skip
  | c :: cs, pos, 0 =>
    if matchAt (c :: cs) then (pos, pos + idLen) :: scan cs (pos + 1) (idLen - 1)
    else scan cs (pos + 1) 0

/-- The filter of `get_job`: `path[start-1:start] in ("", os.sep) and path[end:end+1] in ("", os.sep)`.
    In an absolute path every component is preceded by a separator and followed by a separator
    or the end of the string, and no component contains one; so the test says that the match
    starts at offset 0 of its component (of `n` characters) and ends at offset `n`. -/
def isComplete (n : Nat) (m : Nat × Nat) : Bool := decide (m.1 = 0) && decide (m.2 = n)

/-- `results[-1].end()` restricted to one component: the end of the last match that passes the
    filter. -/
def lastCompleteEnd (cs : List Char) : Option Nat :=
  (((scan cs 0 0).filter (isComplete cs.length)).getLast?).map (·.2)

def lastMatchEnd (c : String) : Option Nat := lastCompleteEnd c.toList

/-- `match.group(0)` of a match ending at `e`. -/
def matchedId (c : String) (e : Nat) : String := String.ofList ((c.toList.take e).drop (e - idLen))

/-- the component cut at `match.end()` -/
def cutAt (c : String) (e : Nat) : String := String.ofList (c.toList.take e)

/-- Last match of the pattern in the path string that passes the filter (`/` never matches, so
    matches live inside components; the last one lies in the innermost component that has
    one): the job id and `path[:match.end()]`. -/
def lastJob : Path → Option (String × Path)
  | [] => none
  | c :: rest => match lastMatchEnd c with
    | some e => some (matchedId c e, cutAt c e :: rest)
    | none => lastJob rest

/-- the component is exactly an id: `idLen` characters of `[a-f0-9]` -/
def isIdName (c : String) : Bool := decide (c.toList.length = idLen) && c.toList.all isIdChar

/-- What `lastJob` comes to (`Signac.Disc.lastJob_eq_simple` in Proofs/DiscJob.lean): the
    innermost component that is an id, and the path from there up. -/
def lastJobSimple : Path → Option (String × Path)
  | [] => none
  | c :: rest => if isIdName c then some (c, c :: rest) else lastJobSimple rest

/-- `get_job(path)`: the job id and the path of the project returned by
    `get_project(job_path/..)`.  `exists(job_path/..)` holds iff `job_path` is (a link to) a
    directory; `abspath(job_path/..)` is the lexical parent. -/
def getJob (t : Tree) (p : Path) : Except Err (String × Path) × List Step :=
  if t.kind p = .absent then (.error .lookup, [])
  else match lastJob p with
    | none => (.error .lookup, [])
    | some (jid, jp) =>
      if t.kind jp = .dir then
        match getProjectFrom t jp.tail with
        | (.ok q, s) => (.ok (jid, q), s)
        | (.error e, s) => (.error e, s)
      else (.error .lookup, [])

/-! ### `init_project` -/

/-- `os.makedirs(p, exist_ok=True)` unless `p` is a directory: missing levels, outermost first. -/
def mkdirP (t : Tree) : Path → List Step
  | [] => []
  | c :: rest => if t.kind (c :: rest) = .dir then [] else mkdirP t rest ++ [.mkdir (c :: rest)]

/-- the tree after `.signac/config` has been written with the current schema version -/
def afterInit (t : Tree) (p : Path) : Tree where
  kind := fun x => if x = "config" :: ".signac" :: p then .file
                   else if decide (x <:+ ".signac" :: p) then .dir else t.kind x
  cfg := fun x => if x = p then some (some Mig.SCHEMA) else t.cfg x
  rc := t.rc

def initProject (t : Tree) (p : Path) : Except Err Path × List Step :=
  match getProject t p false with
  | (.ok q, s) => (.ok q, s)
  | (.error .lookup, _) =>
    match olderErr t p with
    | some e => (.error e, [])
    | none =>
      let s := mkdirP t (".signac" :: p) ++ [.writeConfig p]
      match getProject (afterInit t p) p true with
      | (r, s') => (r, s ++ s')
  | (.error e, s) => (.error e, s)

/-! ### `os.path.abspath` -/

/-- `normpath` on a component list: the stack is the path built so far, innermost first. -/
def normOnto : Path → List String → Path
  | stack, [] => stack
  | stack, c :: cs =>
    if c = "" ∨ c = "." then normOnto stack cs
    else if c = ".." then normOnto stack.tail cs
    else normOnto (c :: stack) cs

/-- `os.path.abspath(raw)` with working directory `cwd` (already absolute and normal). -/
def absPath (cwd : Path) (raw : String) : Path :=
  if raw.toList.head? = some '/' then normOnto [] (raw.splitOn "/")
  else normOnto cwd (raw.splitOn "/")

/-! ### executable trees (driver) -/

structure Node where
  path : Path
  kind : Kind
  cfg : Option (Option Nat)
  rc : Option Nat

def findNode (ns : List Node) (p : Path) : Option Node := ns.find? (fun n => n.path = p)

def Tree.ofNodes (ns : List Node) : Tree where
  kind := fun p => match findNode ns p with | some n => n.kind | none => .absent
  cfg := fun p => match findNode ns p with | some n => n.cfg | none => none
  rc := fun p => match findNode ns p with | some n => n.rc | none => none

end Signac.Disc

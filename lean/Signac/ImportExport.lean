/-
  Signac.ImportExport — export / import of a project (property C16).  Import-free of Mathlib.

  Modelled code (read, not guessed):  signac/import_export.py
    `_make_schema_based_path_function`  (auto paths from the per-key state point index of
        signac/schema.py `_build_job_statepoint_index` + `_SearchIndexer.build_index`),
    `_make_path_function` (None / False / format string with `{{auto}}`, `{{auto:sep}}`),
    `_check_path_function_unique`, `_check_directory_structure_validity`, `_export_jobs`,
    the three writers (directory tree / zip / tar: all three are "a list of members"),
    `_convert_schema_path_to_regex`, `_make_path_based_schema_function`, `_with_consistency_check`,
    `_crawl_directory_data_space` + `_analyze_directory_for_import`,
    `_analyze_zipfile_for_import` + `_CopyFromZipFileExecutor`,
    `_analyze_tarfile_for_import` + `_CopyFromTarFileExecutor`, `_copy_to_job_workspace`.

  The model mirrors the code AFTER the four repairs of DESIGN §5 F-16 (this check found them on the
  pinned tree; /verif/proposed/F-16?.md, fix commits in /repo):
    F-16a  zip analyser: names are compared by path components (`_is_in_directory`), not by string
           prefix.  The pre-fix variant is kept as `zipPolicyCoded` / `filesUnderCoded` for the
           witness theorem `coded_zip_prefix_test_is_wrong`.
    F-16b  the automatic path function is checked for uniqueness like any other (`specChecksUnique`).
    F-16c  `_check_directory_structure_validity` collects all nodes, then tests all leaves
           (`checkLeafNode`); the pre-fix one-pass version is `checkLeafNodeCoded`.
    F-16d  the state point file of the archive root is `signac_statepoint.json` (`readSp` on `[]`).
    F-16f  `_export_jobs` checks the NORMALISED paths: none absolute or starting with `..`, no two
           equal, the root only for a single job, no leaf/node clash (`checkNormalized`).
  and the CURRENT behaviour for the known finding
    F-16e  `copytree_to_zip` stores files only: empty sub-directories (`Content.dir` entries) are
           not members of a zip export (`zipMembers`); directory trees and tar archives keep them.

  Level of abstraction.  A file is `(relative path as list of components, Content)`;
  `Content.sp v` is "a state point file holding the JSON value v", `Content.dir` an empty
  sub-directory, everything else is an opaque
  byte string identified by a number.  A job directory is a list of files (the state point file
  and the document file are ordinary members), a project is a list of jobs.  A member path is
  a list of components; strings appear where the code manipulates strings (path functions,
  the two export checks, schema strings).
-/
import Signac.Json
import Signac.PyVal
import Signac.Extracted
namespace Signac.IE
open Signac

/-! ## 1. strings and paths -/

/-- `s.split(sep)` on characters -/
def splitC (sep : Char) : List Char → List (List Char)
  | [] => [[]]
  | c :: cs =>
    if c = sep then [] :: splitC sep cs
    else match splitC sep cs with
      | [] => [[c]]
      | h :: t => (c :: h) :: t

/-- `sep.join(parts)` on characters -/
def joinC (sep : Char) : List (List Char) → List Char
  | [] => []
  | [a] => a
  | a :: b :: rest => a ++ sep :: joinC sep (b :: rest)

def splitOnChar (sep : Char) (s : String) : List String := (splitC sep s.toList).map String.ofList
def joinWithChar (sep : Char) (cs : List String) : String := String.ofList (joinC sep (cs.map String.toList))

/-- `dst.split(os.path.sep)` -/
def splitSlash (s : String) : List String := splitOnChar '/' s
/-- `os.path.sep.join(tokens)` -/
def joinSlash (cs : List String) : String := joinWithChar '/' cs

abbrev Comps := List String

def startsWithSlash (s : String) : Bool := s.toList.head? == some '/'
def endsWithSlash (s : String) : Bool := s.toList.getLast? == some '/'

/-- one step of `posixpath.join` -/
def osJoin2 (path b : String) : String :=
  if startsWithSlash b then b
  else if path = "" ∨ endsWithSlash path then path ++ b
  else path ++ "/" ++ b

/-- `os.path.join(*tokens)` (tokens non-empty in every use) -/
def osJoin : List String → String
  | [] => ""
  | a :: rest => rest.foldl osJoin2 a

/-- one component of `posixpath.normpath`; the stack is kept reversed -/
def normStep (abs : Bool) (stack : List String) (c : String) : List String :=
  if c = "" ∨ c = "." then stack
  else if c ≠ ".." then c :: stack
  else match stack with
    | [] => if abs then [] else [".."]
    | top :: rest => if top = ".." then ".." :: top :: rest else rest

def leadingSlashes : List Char → Nat
  | '/' :: rest => leadingSlashes rest + 1
  | _ => 0

/-- `os.path.normpath` (POSIX) -/
def normpath (p : String) : String :=
  if p = "" then "." else
  let n := leadingSlashes p.toList
  let slashes := if n = 0 then 0 else if n = 2 then 2 else 1
  let out := ((splitSlash p).foldl (normStep (slashes != 0)) []).reverse
  let r := String.ofList (List.replicate slashes '/') ++ joinSlash out
  if r = "" then "." else r

/-- components of the place a relative export path denotes below the target:
    `none` when the path is absolute or leaves the target (`..`) -/
def physComps (dst : String) : Option Comps :=
  let n := normpath dst
  if n = "." then some []
  else if startsWithSlash n then none
  else
    let cs := splitSlash n
    if cs.contains ".." then none else some cs

def insertBy {α : Type} (le : α → α → Bool) (x : α) : List α → List α
  | [] => [x]
  | y :: ys => if le x y then x :: y :: ys else y :: insertBy le x ys

/-- insertion sort (stable); what `sorted(...)` gives when `le` is Python's order -/
def sortBy {α : Type} (le : α → α → Bool) : List α → List α
  | [] => []
  | x :: xs => insertBy le x (sortBy le xs)

/-- first occurrences only (a Python `set`/`dict` of already hashable things) -/
def dedup {α : Type} [DecidableEq α] : List α → List α
  | [] => []
  | x :: xs => if x ∈ dedup xs then dedup xs else x :: dedup xs

/-- Python's order on the joined names (`sorted(dirs)` sorts strings) -/
def dirLe (a b : Comps) : Bool := decide (joinSlash a ≤ joinSlash b)

def sortDirs (ds : List Comps) : List Comps := sortBy dirLe ds

/-! ## 2. the automatic (schema based) path function -/

/- `_nested_dicts_to_dotted_keys({"sp": sp})`, keys only, without the `sp.` prefix
   (the key `""` stands for the bare `sp` that an empty state point produces) -/
mutual
  def leafKeys (key : String) : JVal → List String
    | .obj [] => [key]
    | .obj (kv :: kvs) => leafKeysEntries key (kv :: kvs)
    | _ => [key]
  def leafKeysEntries (key : String) : List (String × JVal) → List String
    | [] => []
    | (k, v) :: rest => leafKeys (if key = "" then k else key ++ "." ++ k) v ++ leafKeysEntries key rest
end

def spLeafKeys : JVal → List String
  | .obj [] => [""]
  | .obj kvs => leafKeysEntries "" kvs
  | _ => [""]

/-- `v = doc; for n in nodes: v = v[n]` with `KeyError`/`TypeError` = `none` -/
def getPath : List String → JVal → Option JVal
  | [], v => some v
  | n :: ns, .obj kvs =>
    match lookupKV n kvs with
    | some w => getPath ns w
    | none => none
  | _ :: _, _ => none

def keyNodes (key : String) : List String := if key = "" then [] else splitOnChar '.' key

/-- a slot key of `_TypedSetDefaultDict` -/
inductive IdxKey where
  | val (v : JVal)
  | dict
  deriving Inhabited

/-- two values share a slot of the index dict: same `hash` and `==`.  Floats are wrapped in
    `_float` (hash + 1) at top level only, which separates `1.0` from `1`/`True`; inside
    tuples nothing is wrapped.  (Not modelled: `_float(-1.0)`/`_float(-2.0)` hash like `-1`/`-2`.) -/
def idxKeyEq : IdxKey → IdxKey → Bool
  | .dict, .dict => true
  | .val a, .val b =>
    match a, b with
    | .flt _ _ _, .flt _ _ _ => pyEq a b
    | .flt _ _ _, _ => false
    | _, .flt _ _ _ => false
    | _, _ => pyEq a b
  | _, _ => false

abbrev Index := List (IdxKey × List String)

def idxInsert (k : IdxKey) (id : String) : Index → Index
  | [] => [(k, [id])]
  | (k', ids) :: rest =>
    if idxKeyEq k' k then (k', ids ++ [id]) :: rest else (k', ids) :: idxInsert k id rest

/-- `_SearchIndexer.build_index("sp." ++ key)` over `{"sp": job.sp()}` documents, jobs in listing order -/
def buildIndex (nodes : List String) (jobs : List (String × JVal)) : Index :=
  jobs.foldl (fun idx (j : String × JVal) =>
    match getPath nodes j.2 with
    | none => idx
    | some (.obj _) => idxInsert .dict j.1 idx
    | some v => idxInsert (.val v) j.1 idx) []

def keyOrderLe (a b : Nat × String) : Bool :=
  a.1 < b.1 || (a.1 == b.1 && decide (a.2 ≤ b.2))

mutual
  /-- `str(value)` of an index key: lists have become tuples (`_to_hashable`) -/
  def tupStr : JVal → String
    | .arr [] => "()"
    | .arr [x] => "(" ++ tupStr x ++ ",)"
    | .arr (x :: y :: rest) => "(" ++ tupStr x ++ ", " ++ tupStrList (y :: rest) ++ ")"
    | v => pyRepr v
  def tupStrList : List JVal → String
    | [] => ""
    | [x] => tupStr x
    | x :: y :: rest => tupStr x ++ ", " ++ tupStrList (y :: rest)
end

def idxValStr : JVal → String
  | .arr xs => tupStr (.arr xs)
  | v => pyStr v

/-- `_build_job_statepoint_index(exclude_const=True, index)` as an ordered list
    `(key, [(value, ids)])`: keys sorted by (number of slots, key), constants dropped,
    the dict placeholder removed -/
def statepointIndex (jobs : List (String × JVal)) : List (String × List (JVal × List String)) :=
  let keys := dedup (jobs.flatMap (fun j => spLeafKeys j.2))
  let idxs := keys.map (fun k => (k, buildIndex (keyNodes k) jobs))
  let sorted := sortBy (fun (a b : String × Index) => keyOrderLe (a.2.length, a.1) (b.2.length, b.1)) idxs
  sorted.filterMap (fun (ki : String × Index) =>
    let isConst := match ki.2 with
      | [(_, ids)] => ids.length == jobs.length
      | _ => false
    if isConst then none
    else some (ki.1, ki.2.filterMap (fun (s : IdxKey × List String) =>
      match s.1 with
      | .val v => some (v, s.2)
      | .dict => none)))

/-- the `paths` dict of `_make_schema_based_path_function`: tokens per job id -/
def autoTokensOf (sidx : List (String × List (JVal × List String))) (exclude : List String)
    (id : String) : List String :=
  sidx.flatMap (fun (kv : String × List (JVal × List String)) =>
    if exclude.contains kv.1 then []
    else kv.2.flatMap (fun (s : JVal × List String) =>
      if s.2.contains id then [kv.1, idxValStr s.1] else []))

/-- the returned `path(job, sep)`; `none` = `RuntimeError` (no varying key for this job) -/
def autoPath (jobs : List (String × JVal)) (exclude : List String) (sep : Option String)
    (id : String) : Option String :=
  if jobs.length ≤ 1 then some ""
  else
    let toks := autoTokensOf (statepointIndex jobs) exclude id
    if toks.isEmpty then none
    else match sep with
      | some s => if s = "" then some (normpath (osJoin toks)) else some (normpath (s.intercalate toks))
      | none => some (normpath (osJoin toks))

/-! ## 3. path specifications -/

/-- a format string, already split into its fields -/
inductive Piece where
  | lit (s : String)            -- literal text
  | key (dotted : String)       -- `{a}` / `{a.b}`: looked up in the state point, excluded from auto
  | jobsp (dotted : String)     -- `{job.sp.a}`: same value, NOT excluded from auto
  | jobid                       -- `{job.id}`
  | auto (sep : Option String)  -- `{{auto}}` / `{{auto:sep}}`
  deriving Inhabited

inductive PathSpec where
  | none                              -- path=None
  | byId                              -- path=False
  | fmt (ps : List Piece)             -- path="..."
  | call (table : List String)        -- path=callable, tabulated per job (listing order)
  deriving Inhabited

inductive Err where
  | runtimeError | destinationExists | statepointParsing | jobsCorrupted | valueError
  | unsupported
  deriving DecidableEq, Repr, Inhabited

def Err.name : Err → String
  | .runtimeError => "RuntimeError"
  | .destinationExists => "DestinationExistsError"
  | .statepointParsing => "StatepointParsingError"
  | .jobsCorrupted => "JobsCorruptedError"
  | .valueError => "ValueError"
  | .unsupported => "unsupported"

def scalarStr : JVal → Except Err String
  | .obj _ => .error .unsupported
  | .arr _ => .error .unsupported
  | v => .ok (pyStr v)

def evalPiece (jobs : List (String × JVal)) (exclude : List String) (j : String × JVal) :
    Piece → Except Err String
  | .lit s => .ok s
  | .key k =>
    match getPath (splitOnChar '.' k) j.2 with
    | some v => scalarStr v
    | none => .error .runtimeError
  | .jobsp k =>
    match getPath (splitOnChar '.' k) j.2 with
    | some v => scalarStr v
    | none => .error .runtimeError
  | .jobid => .ok j.1
  | .auto sep =>
    match autoPath jobs exclude sep j.1 with
    | some p => .ok p
    | none => .error .runtimeError

def evalPieces (jobs : List (String × JVal)) (exclude : List String) (j : String × JVal) :
    List Piece → Except Err String
  | [] => .ok ""
  | p :: ps =>
    match evalPiece jobs exclude j p with
    | .error e => .error e
    | .ok s =>
      match evalPieces jobs exclude j ps with
      | .error e => .error e
      | .ok t => .ok (s ++ t)

def excludeKeys (ps : List Piece) : List String :=
  ps.filterMap (fun p => match p with | .key k => some k | _ => none)

def mapExcept {α β ε : Type} (f : α → Except ε β) : List α → Except ε (List β)
  | [] => .ok []
  | x :: xs =>
    match f x with
    | .error e => .error e
    | .ok y =>
      match mapExcept f xs with
      | .error e => .error e
      | .ok ys => .ok (y :: ys)

/-- `path_function(job)` for every job, in listing order -/
def rawPaths (spec : PathSpec) (jobs : List (String × JVal)) : Except Err (List String) :=
  match spec with
  | .none => mapExcept (fun j => match autoPath jobs [] Option.none j.1 with
      | some p => .ok p
      | Option.none => .error .runtimeError) jobs
  | .byId => .ok (jobs.map (·.1))
  | .fmt ps => mapExcept (fun j => evalPieces jobs (excludeKeys ps) j ps) jobs
  | .call table => if table.length = jobs.length then .ok table else .error .unsupported

/-! ## 4. the two export checks -/

/-- `_check_path_function_unique`: no path is generated twice -/
def checkUnique : List String → Bool
  | [] => true
  | p :: ps => !ps.contains p && checkUnique ps

/-- the strings `sep.join(tokens[:i])`, `1 ≤ i < len(tokens)` -/
def properPrefixes (dst : String) : List String :=
  let toks := splitSlash dst
  (List.range (toks.length - 1)).map (fun i => joinSlash (toks.take (i + 1)))

/-- `_check_directory_structure_validity` as it was before the repair (one pass): a path is only
    compared with the nodes of paths that come BEFORE it (F-16c) -/
def checkLeafNodeCoded (check : List String) : List String → Bool
  | [] => true
  | dst :: rest => !check.contains dst && checkLeafNodeCoded (properPrefixes dst ++ check) rest

/-- `_check_directory_structure_validity` (two passes): collect all nodes, then test all leaves -/
def checkLeafNode (paths : List String) : Bool :=
  let nodes := paths.flatMap properPrefixes
  paths.all (fun dst => !nodes.contains dst)

/-- does the spec run `_check_path_function_unique`?  (`path=False` never does; `path=None`
    does since the repair of F-16b) -/
def specChecksUnique : PathSpec → Bool
  | .byId => false
  | _ => true

/-- a normalised path that is not below the target: absolute, or starting with `..` -/
def escapes (n : String) : Bool := startsWithSlash n || (splitSlash n).head? == some ".."

/-- the checks `_export_jobs` runs on the NORMALISED paths (F-16f repaired): below the target,
    pairwise different (`a`, `a/`, `a/.` are one directory), the root only for a single job,
    no path both leaf and node -/
def checkNormalized (ns : List String) : Bool :=
  !ns.any escapes && checkUnique ns && !(ns.contains "." && ns.length > 1) && checkLeafNode ns

/-- `_export_jobs` up to the first copy: paths, uniqueness, below-target / leaf-node on the
    normalised paths.  The paths handed to the writers are the raw ones. -/
def exportPaths (spec : PathSpec) (jobs : List (String × JVal)) : Except Err (List String) :=
  match rawPaths spec jobs with
  | .error e => .error e
  | .ok ps =>
    if specChecksUnique spec && !checkUnique ps then .error .runtimeError
    else if !checkNormalized (ps.map normpath) then .error .runtimeError
    else .ok ps

/-! ## 5. projects, export targets -/

inductive Content where
  | sp (v : JVal)     -- a state point file with this value
  | blob (n : Nat)    -- other bytes
  | dir               -- not a file: an EMPTY sub-directory of the job directory
  deriving Inhabited

structure Job where
  id : String
  files : List (Comps × Content)
  deriving Inhabited

abbrev Project := List Job

def fnSp : String := Extracted.FN_STATE_POINT

/-- the files job `e.1` contributes when it is placed at `e.2`: `e.2 ++ f` for each of its files -/
def exportBlock (e : Job × Comps) : List (Comps × Content) :=
  e.1.files.map (fun fc => (e.2 ++ fc.1, fc.2))

/-- file members of the export target (directory tree, zip and tar alike) -/
def exportMembers (P : Project) (ds : List Comps) : List (Comps × Content) :=
  (P.zip ds).flatMap exportBlock

/-- non-empty proper prefixes of a relative file path = the sub-directories it lies in -/
def subDirsOf (f : Comps) : List Comps :=
  (List.range (f.length - 1)).map (fun i => f.take (i + 1))

def isDirEntry : Content → Bool
  | .dir => true
  | _ => false

/-- the directories an entry of a job lies in; an empty directory is one itself -/
def entryDirs (fc : Comps × Content) : List Comps :=
  if isDirEntry fc.2 then subDirsOf fc.1 ++ [fc.1] else subDirsOf fc.1

/-- directory members `tarfile.add(src, dst)` writes for one job: its root and every sub-directory -/
def dirBlock (e : Job × Comps) : List Comps :=
  dedup (e.2 :: (e.1.files.flatMap entryDirs).map (e.2 ++ ·))

/-- what `copytree_to_zip` writes: `os.walk` + `zipfile.write` for FILES only — empty
    sub-directories are not stored (F-16e, known finding: current behaviour) -/
def zipMembers (P : Project) (ds : List Comps) : List (Comps × Content) :=
  (exportMembers P ds).filter (fun fc => !isDirEntry fc.2)

def exportDirMembers (P : Project) (ds : List Comps) : List Comps :=
  (P.zip ds).flatMap dirBlock

/-! ## 6. schema strings -/

inductive FType where
  | str | int | float | bool
  deriving DecidableEq, Repr, Inhabited

inductive SComp where
  | lit (s : String)
  | fld (key : String) (ty : FType)
  deriving Inhabited

def isWordChar (c : Char) : Bool := c.isAlphanum || c == '_'

/-- `\w+` (ASCII) -/
def matchWord (cs : List Char) : Bool := !cs.isEmpty && cs.all isWordChar

def stripSign : List Char → List Char
  | '+' :: r => r
  | '-' :: r => r
  | r => r

def isNeg : List Char → Bool
  | '-' :: _ => true
  | _ => false

/-- `[+-]?[0-9]+` -/
def matchInt (cs : List Char) : Bool :=
  let d := stripSign cs
  !d.isEmpty && d.all Char.isDigit

/-- `[+-]?([0-9]*[\.])?[0-9]+` -/
def matchFloat (cs : List Char) : Bool :=
  let d := stripSign cs
  match splitC '.' d with
  | [a] => !a.isEmpty && a.all Char.isDigit
  | [a, b] => a.all Char.isDigit && !b.isEmpty && b.all Char.isDigit
  | _ => false

def matchType : FType → List Char → Bool
  | .str => matchWord
  | .bool => matchWord
  | .int => matchInt
  | .float => matchFloat

/-- `int(text)` for a text accepted by `matchInt` -/
def convInt (cs : List Char) : Int :=
  let n : Int := Nat.ofDigitChars 10 (stripSign cs) 0
  if isNeg cs then -n else n

def lowerAscii (c : Char) : Char := if 'A' ≤ c ∧ c ≤ 'Z' then Char.ofNat (c.toNat + 32) else c

/-- `_convert_bool` -/
def convBool (cs : List Char) : Bool :=
  let l := String.ofList (cs.map lowerAscii)
  if l = "true" ∨ l = "1" then true
  else if l = "false" ∨ l = "0" then false
  else !cs.isEmpty

def stripLeadingZeros : List Char → List Char
  | '0' :: r => stripLeadingZeros r
  | r => r

def pow2Loop : Nat → Nat → Nat → Nat
  | 0, _, acc => acc
  | fuel + 1, m, acc => if m % 2 = 0 ∧ acc > 0 then pow2Loop fuel (m / 2) (acc - 1) else acc

/-- lowest terms of `m / 2^e` (what `float.as_integer_ratio` gives) -/
def reduce2 : Nat → Nat → Nat → Nat × Nat
  | 0, m, e => (m, e)
  | fuel + 1, m, e => if e > 0 ∧ m % 2 = 0 ∧ m ≠ 0 then reduce2 fuel (m / 2) (e - 1) else (m, e)

/-- `float(text)` for a plain decimal `[+-]?digits[.digits]`: nearest double (round half even) of
    `N / 10^k` as the dyadic `num / 2^exp` in lowest terms, together with the `repr` Python prints
    for plain decimals of at most 15 significant digits in `[1e-4, 1e16)`: the normalised text.
    Executable only; the theorems treat the conversion through the hypothesis `float(repr x) = x`. -/
def convFloat (cs : List Char) : JVal :=
  let neg := isNeg cs
  let d := stripSign cs
  let (ip, fp) := match splitC '.' d with
    | [a] => (a, ([] : List Char))
    | a :: b :: _ => (a, b)
    | [] => ([], [])
  let k := fp.length
  let N := Nat.ofDigitChars 10 (ip ++ fp) 0
  -- repr text
  let ip' := match stripLeadingZeros ip with | [] => ['0'] | r => r
  let fp' := match (stripLeadingZeros fp.reverse).reverse with | [] => ['0'] | r => r
  let txt := String.ofList ((if neg then ['-'] else []) ++ ip' ++ '.' :: fp')
  if N = 0 then .flt 0 0 txt
  else
    -- find e with 2^52 ≤ N * 2^e / 10^k < 2^53  (e may be negative: value = q * 2^(-e))
    let den := 10 ^ k
    let lN := N.log2
    let lD := den.log2
    -- candidate shift s.t. quotient has 53 or 54 bits
    let sh : Int := 53 - (lN : Int) + (lD : Int)
    let (a, b) := if sh ≥ 0 then (N * 2 ^ sh.toNat, den) else (N, den * 2 ^ (-sh).toNat)
    let q0 := a / b
    -- normalise to exactly 53 bits
    let (a, b, sh) := if q0 ≥ 2 ^ 53 then (a, b * 2, sh - 1) else (a, b, sh)
    let q := a / b
    let r := a % b
    let q := if 2 * r > b ∨ (2 * r = b ∧ q % 2 = 1) then q + 1 else q
    -- value = q / 2^sh
    let (num, exp) := if sh ≥ 0 then reduce2 2000 q sh.toNat else (q * 2 ^ (-sh).toNat, 0)
    .flt (if neg then -(num : Int) else num) exp txt

def convType (ty : FType) (cs : List Char) : JVal :=
  match ty with
  | .str => .str (String.ofList cs)
  | .int => .int (convInt cs)
  | .bool => .bool (convBool cs)
  | .float => convFloat cs

/-- the regex of a schema path, matched component by component (`re.match(regex + "$", path)`
    where every field is delimited by `/` or the end, and no `RE_TYPES` pattern matches `/`) -/
def parseFlat : List SComp → Comps → Option (List (String × JVal))
  | [], [] => some []
  | .lit s :: sc, c :: cs => if s = c then parseFlat sc cs else none
  | .fld k ty :: sc, c :: cs =>
    if matchType ty c.toList then
      match parseFlat sc cs with
      | some r => some ((k, convType ty c.toList) :: r)
      | none => none
    else none
  | _, _ => none

/-- `tmp = d.setdefault(tokens[0], {}) …; tmp[tokens[-1]] = value`; `none` = the TypeError Python
    raises when a prefix of the key already holds a non-dict -/
def nestInsert : List String → JVal → List (String × JVal) → Option (List (String × JVal))
  | [], _, _ => none
  | [t], v, kvs =>
    if kvs.any (·.1 = t) then some (kvs.map (fun kv => if kv.1 = t then (t, v) else kv))
    else some (kvs ++ [(t, v)])
  | t :: t' :: ts, v, kvs =>
    match lookupKV t kvs with
    | some (.obj sub) =>
      match nestInsert (t' :: ts) v sub with
      | some sub' => some (kvs.map (fun kv => if kv.1 = t then (t, .obj sub') else kv))
      | none => none
    | some _ => none
    | none =>
      match nestInsert (t' :: ts) v [] with
      | some sub' => some (kvs ++ [(t, .obj sub')])
      | none => none

/-- `_dotted_dict_to_nested_dicts(groupdict, delimiter_nested=_DOT_MAGIC_WORD)` -/
def nestFlat : List (String × JVal) → List (String × JVal) → Option (List (String × JVal))
  | [], acc => some acc
  | (k, v) :: rest, acc =>
    match nestInsert (splitOnChar '.' k) v acc with
    | some acc' => nestFlat rest acc'
    | none => none

/-- `_make_path_based_schema_function(schema)(path)` -/
def parsePath (sc : List SComp) (path : Comps) : Option JVal :=
  match parseFlat sc path with
  | some flat =>
    match nestFlat flat [] with
    | some kvs => some (.obj kvs)
    | none => none
  | none => none

/-- the export path the schema describes: the format string with the types removed -/
def formatPath (sc : List SComp) (sp : JVal) : Option Comps :=
  match sc with
  | [] => some []
  | .lit s :: rest => (formatPath rest sp).map (s :: ·)
  | .fld k _ :: rest =>
    match getPath (splitOnChar '.' k) sp with
    | some (.obj _) => none
    | some (.arr _) => none
    | some v => (formatPath rest sp).map (pyStr v :: ·)
    | none => none

def isKeyChar (c : Char) : Bool := isWordChar c || c == '.'

def parseFType (s : String) : Option FType :=
  if s = "str" then some .str else if s = "int" then some .int
  else if s = "float" then some .float else if s = "bool" then some .bool else none

/-- one `/`-separated piece of a schema string: `{key}`, `{key:type}` or literal text -/
def parseSComp (c : String) : Option SComp :=
  match c.toList with
  | '{' :: rest =>
    match rest.getLast? with
    | some '}' =>
      let inner := rest.dropLast
      match splitC ':' inner with
      | [k] => if !k.isEmpty && k.all isKeyChar then some (.fld (String.ofList k) .str) else none
      | [k, t] =>
        if !k.isEmpty && k.all isKeyChar then (parseFType (String.ofList t)).map (.fld (String.ofList k) ·)
        else none
      | _ => none
    | _ => none
  | cs => if cs.contains '{' || cs.contains '}' then none else some (.lit c)

def isFld : SComp → Bool
  | .fld _ _ => true
  | .lit _ => false

/-- `_convert_schema_path_to_regex` for the fragment "literal text and `{key[:type]}` fields
    separated by `/`"; text after the last field is dropped, as the code does -/
def parseSchema (s : String) : Option (List SComp) :=
  match mapExcept (fun c => match parseSComp c with | some x => Except.ok x | none => Except.error ()) (splitSlash s) with
  | .ok cs => some ((cs.reverse.dropWhile (fun c => !isFld c)).reverse)
  | .error _ => none

/-! ## 7. import -/

inductive Schema where
  | none                                  -- read the state point file
  | table (t : List (Comps × JVal))       -- a callable, tabulated
  | pattern (sc : List SComp)             -- a schema string
  deriving Inhabited

def lookupFile (p : Comps) : List (Comps × Content) → Option Content
  | [] => none
  | (q, c) :: rest => if q = p then some c else lookupFile p rest

/-- `read_statepoint_file(dir)` of all three analysers (the archive root is `[]`) -/
def readSp (files : List (Comps × Content)) (d : Comps) : Except Err (Option JVal) :=
  match lookupFile (d ++ [fnSp]) files with
  | some (.sp v) => .ok (some v)
  | some (.blob _) => .error .valueError
  | some .dir => .error .valueError
  | none => .ok none

def lookupTable (p : Comps) : List (Comps × JVal) → Option JVal
  | [] => none
  | (q, v) :: rest => if q = p then some v else lookupTable p rest

def truthy : JVal → Bool
  | .obj [] => false
  | _ => true

/-- the schema function, wrapped by `_with_consistency_check` when it is not the file reader -/
def schemaFn (hash : JVal → String) (files : List (Comps × Content)) (schema : Schema) (d : Comps) :
    Except Err (Option JVal) :=
  match schema with
  | .none => readSp files d
  | .table t =>
    match readSp files d with
    | .error e => .error e
    | .ok dflt =>
      match lookupTable d t, dflt with
      | some sp, some sd => if hash sd != hash sp then .error .statepointParsing else .ok (some sp)
      | r, _ => .ok r
  | .pattern sc =>
    match readSp files d with
    | .error e => .error e
    | .ok dflt =>
      match parsePath sc (if d = [] then ["."] else d), dflt with
      | some sp, some sd => if hash sd != hash sp then .error .statepointParsing else .ok (some sp)
      | r, _ => .ok r

/-- which directories an analyser does not look at, and whether skipped ones are remembered -/
structure Policy where
  test : List Comps → Comps → Bool
  addSkipped : Bool

def isPrefixB (a b : Comps) : Bool := decide (a <+: b)

/-- zip analyser (`_is_in_directory`): `name` is skipped when an identified directory is a
    component-wise prefix of it -/
def zipPolicy : Policy := ⟨fun skip d => skip.any (fun s => isPrefixB s d), false⟩

/-- zip analyser before the repair of F-16a: `name.startswith(skip)` on the strings -/
def zipPolicyCoded : Policy :=
  ⟨fun skip d => skip.any (fun s => (joinSlash s).toList.isPrefixOf (joinSlash d).toList), false⟩

/-- tar analyser: `os.path.dirname(name) in skip_subdirs`, skipped names are added -/
def tarPolicy : Policy := ⟨fun skip d => skip.contains d.dropLast, true⟩

/-- the loop of `_analyze_zipfile_for_import` / `_analyze_tarfile_for_import` over the sorted
    directory names: result = `mappings` (directory ↦ (id, state point)) -/
def scan (pol : Policy) (hash : JVal → String) (sf : Comps → Except Err (Option JVal))
    (dstIds : List String) :
    List Comps → List Comps → List (Comps × String × JVal) → Except Err (List (Comps × String × JVal))
  | [], _, maps => .ok maps
  | d :: ds, skip, maps =>
    if pol.test skip d then
      scan pol hash sf dstIds ds (if pol.addSkipped then d :: skip else skip) maps
    else
      match sf d with
      | .error e => .error e
      | .ok none => scan pol hash sf dstIds ds skip maps
      | .ok (some sp) =>
        if dstIds.contains (hash sp) then .error .destinationExists
        else scan pol hash sf dstIds ds (d :: skip) (maps ++ [(d, hash sp, sp)])

/-- the files below directory `d`, relative to it (component-wise; `copytree(d, …)`, and the
    name filter of the zip executor) -/
def filesUnder (d : Comps) (files : List (Comps × Content)) : List (Comps × Content) :=
  (files.filter (fun fc => isPrefixB d fc.1)).map (fun fc => (fc.1.drop d.length, fc.2))

/-- `os.path.relpath(name, root)` on components -/
def commonLen : Comps → Comps → Nat
  | a :: as, b :: bs => if a = b then commonLen as bs + 1 else 0
  | _, _ => 0

def relPath (root name : Comps) : Comps :=
  let n := commonLen root name
  List.replicate (root.length - n) ".." ++ name.drop n

/-- the zip executor before the repair of F-16a: names selected by string prefix, placed by `relpath` -/
def filesUnderCoded (d : Comps) (files : List (Comps × Content)) : List (Comps × Content) :=
  (files.filter (fun fc => (joinSlash d).toList.isPrefixOf (joinSlash fc.1).toList)).map
    (fun fc => (relPath d fc.1, fc.2))

structure ImportResult where
  proj : Project
  err : Option Err
  writes : List Comps       -- files written, relative to the importing project's root
  deriving Inhabited

def wsName : String := "workspace"

def writesOf (id : String) (fs : List (Comps × Content)) : List Comps :=
  fs.map (fun fc => wsName :: id :: fc.1)

/-- `job.init()` on a directory that already holds `fs`: a valid state point file is kept, an
    invalid one raises JobsCorruptedError, a missing one is written -/
def initJob (hash : JVal → String) (id : String) (sp : JVal) (fs : List (Comps × Content)) :
    Except Err (List (Comps × Content) × List Comps) :=
  match lookupFile [fnSp] fs with
  | some (.sp w) => if hash w = id then .ok (fs, []) else .error .jobsCorrupted
  | some (.blob _) => .error .jobsCorrupted
  | some .dir => .error .jobsCorrupted
  | none => .ok (fs ++ [([fnSp], .sp sp)], [[wsName, id, fnSp]])

def hasId (id : String) (p : Project) : Bool := p.any (fun j => j.id = id)

/-- copy phase of the zip import: plain file writes, no `init()` -/
def zipCopy (files : List (Comps × Content)) :
    List (Comps × String × JVal) → ImportResult → ImportResult
  | [], r => r
  | (d, id, _) :: rest, r =>
    let fs := filesUnder d files
    zipCopy files rest { r with proj := r.proj ++ [⟨id, fs⟩], writes := r.writes ++ writesOf id fs }

/-- copy phase of tar / directory import for one job: `_copy_to_job_workspace` -/
def copyInit (hash : JVal → String) (files : List (Comps × Content)) (d : Comps) (id : String)
    (sp : JVal) (r : ImportResult) : ImportResult :=
  if hasId id r.proj then { r with err := some .destinationExists }
  else
    let fs := filesUnder d files
    match initJob hash id sp fs with
    | .ok (fs', w) => { r with proj := r.proj ++ [⟨id, fs'⟩], writes := r.writes ++ writesOf id fs ++ w }
    | .error e => { r with proj := r.proj ++ [⟨id, fs⟩], writes := r.writes ++ writesOf id fs, err := some e }

def tarCopy (hash : JVal → String) (files : List (Comps × Content)) :
    List (Comps × String × JVal) → ImportResult → ImportResult
  | [], r => r
  | (d, id, sp) :: rest, r =>
    let r' := copyInit hash files d id sp r
    if r'.err.isSome then r' else tarCopy hash files rest r'

def idsNodup : List String → Bool
  | [] => true
  | x :: xs => !xs.contains x && idsNodup xs

def dirnameC (n : Comps) : Comps := n.dropLast

/-- `_analyze_zipfile_for_import` + executors.  `files` = `zipfile.namelist()` with contents -/
def importZip (hash : JVal → String) (schema : Schema) (dst : Project)
    (files : List (Comps × Content)) : ImportResult :=
  let dirs := sortDirs (dedup (files.map (fun fc => dirnameC fc.1)))
  match scan zipPolicy hash (schemaFn hash files schema) (dst.map (·.id)) dirs [] [] with
  | .error e => ⟨dst, some e, []⟩
  | .ok maps =>
    if !idsNodup (maps.map (·.2.1)) then ⟨dst, some .statepointParsing, []⟩
    else zipCopy files maps ⟨dst, none, []⟩

/-- `_analyze_tarfile_for_import` + executors.  `dirs` = names of the directory members -/
def importTar (hash : JVal → String) (schema : Schema) (dst : Project)
    (files : List (Comps × Content)) (dirs : List Comps) : ImportResult :=
  match scan tarPolicy hash (schemaFn hash files schema) (dst.map (·.id)) (sortDirs dirs) [] [] with
  | .error e => ⟨dst, some e, []⟩
  | .ok maps =>
    if !idsNodup (maps.map (·.2.1)) then ⟨dst, some .statepointParsing, []⟩
    else tarCopy hash files maps ⟨dst, none, []⟩

/-- every directory of a tree that holds `files`: the root and all ancestors of files -/
def allDirs (files : List (Comps × Content)) : List Comps :=
  dedup ([] :: files.flatMap (fun fc =>
    (List.range fc.1.length).map (fun i => fc.1.take i) ++ (if isDirEntry fc.2 then [fc.1] else [])))

/-- `_crawl_directory_data_space` + `_analyze_directory_for_import` + executors: lazy — each
    identified directory is copied before the next one is looked at.  Directories are visited
    parents first (`os.walk` top-down); sub-directories of an identified one are never entered. -/
def crawl (hash : JVal → String) (sf : Comps → Except Err (Option JVal))
    (files : List (Comps × Content)) :
    List Comps → List Comps → List String → ImportResult → ImportResult
  | [], _, _, r => r
  | d :: ds, found, seen, r =>
    if found.any (fun s => isPrefixB s d) then crawl hash sf files ds found seen r
    else
      match sf d with
      | .error e => { r with err := some e }
      | .ok none => crawl hash sf files ds found seen r
      | .ok (some sp) =>
        let id := hash sp
        if seen.contains id then { r with err := some .statepointParsing }
        else
          let r' := copyInit hash files d id sp r
          if r'.err.isSome then r' else crawl hash sf files ds (d :: found) (id :: seen) r'

/-- `order` = the directories of the tree in the order `os.walk` visits them (it follows the
    listing order of the file system, an input of the model; `walkOrder` is a possible one) -/
def importDir (hash : JVal → String) (schema : Schema) (dst : Project)
    (files : List (Comps × Content)) (order : List Comps) : ImportResult :=
  crawl hash (schemaFn hash files schema) files order [] [] ⟨dst, none, []⟩

/-- a top-down visiting order of the tree that holds `files` -/
def walkOrder (files : List (Comps × Content)) : List Comps := sortDirs (allDirs files)

/-! ## 8. export ∘ import -/

inductive Target where
  | dir | zip | tar
  deriving DecidableEq, Repr, Inhabited

def spOf (j : Job) : JVal :=
  match lookupFile [fnSp] j.files with
  | some (.sp v) => v
  | _ => .null

/-- export outcome: the relative paths (as `_export_jobs` hands them to the writer) -/
def exportProject (spec : PathSpec) (P : Project) : Except Err (List String) :=
  exportPaths spec (P.map (fun j => (j.id, spOf j)))

def importFrom (t : Target) (hash : JVal → String) (schema : Schema) (dst : Project)
    (P : Project) (ds : List Comps) (order : List Comps) : ImportResult :=
  match t with
  | .zip => importZip hash schema dst (zipMembers P ds)
  | .tar => importTar hash schema dst (exportMembers P ds) (exportDirMembers P ds)
  | .dir =>
    -- exporting no job to a directory creates nothing; the import then refuses the origin
    if P.isEmpty then ⟨dst, some .valueError, []⟩
    else importDir hash schema dst (exportMembers P ds) order

end Signac.IE

/-
  Signac.DiscoveryS — the discovery model with the schema version carried as the STRING that
  stands in the config file.  Core Lean only.

  Modelled code (the same functions as Signac/Discovery.lean, one conversion earlier)
    signac/_config.py            `_locate_config_dir`, `_raise_if_older_schema`
    signac/migration/__init__.py `_get_config_schema_version`   (`int(config["schema_version"])`,
                                                                  `KeyError` → 0)
    signac/project.py            `Project.__init__`, `_check_schema_compatibility`
                                 (`int(self.config["schema_version"])`, `>` then `<`),
                                 `Project.get_project`, `Project.get_job`, `Project.init_project`

  `Signac.Disc.Tree` records for every directory the version NUMBER its config declares; the
  real value is a string (configspec `schema_version = string(default='1')`, resp.
  `string(default='0')` for a legacy `signac.rc`) which the code converts with `int()` at the
  moment it looks at it.  `int()` may raise `ValueError`, which none of the callers catches
  (`_raise_if_older_schema` catches `RuntimeError` only, `init_project` catches `LookupError`
  only): it leaves the entry point as it is, before any mutating step.

  `TreeS` carries the strings.  The entry points below follow the control flow of the
  functions of Signac/Discovery.lean line by line; the only differences are
    * `Mig.gate (v.getD 1)`            becomes `PyInt.gateStr (v.getD "1")`,
    * `Mig.raiseIfOlder (t.rc p)`      becomes `int()` of the string (absent key: 0), then the
                                       same `assert` / `raise`,
    * errors are `ErrS` = the old `Err` plus `valueError`.
  `Denotes ts t` says that every string in `ts` is an integer literal of the natural number that
  `t` has in that place; Signac/Proofs/DiscoverySLemmas.lean proves that then every entry point
  returns what the numeric one returns (`stringLayer_refines`, Properties/C20.lean).
-/
import Signac.Discovery
import Signac.PyInt
namespace Signac.DiscS
open Signac Signac.Disc Signac.PyInt

/-- The tree as the code can observe it, versions as written in the files. -/
structure TreeS where
  /-- `os.path.exists` / `isdir` of the path (following symlinks). -/
  kind : Path → Kind
  /-- `some v`: `<path>/.signac/config` is a file; `v` = the raw value of its `schema_version`
      key (`none` = no such key; configspec default `'1'`). -/
  cfgS : Path → Option (Option String)
  /-- `some v`: `<path>/signac.rc` loads as a v1 config; `v` = the raw value of its
      `schema_version` key (`none` = no such key: version 0). -/
  rcS : Path → Option (Option String)

/-- The old errors, plus the `ValueError` out of `int()`. -/
inductive ErrS where
  | base (e : Err)   -- LookupError / IncompatibleSchemaVersion / AssertionError
  | valueError       -- `int(config["schema_version"])` raised
  deriving DecidableEq, Repr

/-- a numeric result read as a string-level result -/
def liftE {α : Type} : Except Err α → Except ErrS α
  | .ok a => .ok a
  | .error e => .error (.base e)

def liftR {α : Type} (r : Except Err α × List Step) : Except ErrS α × List Step := (liftE r.1, r.2)

/-! ### the link to the numeric model -/

/-- `.signac/config`: file or not, key or not, and the string is an integer literal of `n`. -/
def CfgDen : Option (Option String) → Option (Option Nat) → Prop
  | none, none => True
  | some none, some none => True
  | some (some s), some (some n) => declared s = some n
  | _, _ => False

/-- `signac.rc`: loadable or not; an absent key is version 0 in the numeric tree. -/
def RcDen : Option (Option String) → Option Nat → Prop
  | none, none => True
  | some none, some n => n = 0
  | some (some s), some n => declared s = some n
  | _, _ => False

/-- `ts` is `t` with every version number written as some integer literal of it
    ("2", "02", "+2", " 2\n", "0_2", …). -/
structure Denotes (ts : TreeS) (t : Tree) : Prop where
  kind : ∀ p, ts.kind p = t.kind p
  cfg : ∀ p, CfgDen (ts.cfgS p) (t.cfg p)
  rc : ∀ p, RcDen (ts.rcS p) (t.rc p)

/-- every declared version is a non-negative integer literal -/
def IntLiterals (ts : TreeS) : Prop :=
  (∀ p s, ts.cfgS p = some (some s) → (declared s).isSome = true)
  ∧ (∀ p s, ts.rcS p = some (some s) → (declared s).isSome = true)

/-- The numeric tree of a string tree.  Where a string is no (non-negative) integer literal the
    number is junk (`0`); `Denotes ts ts.toTree` holds exactly when there is no such string
    (`denotes_toTree`, `denotes_iff`). -/
def TreeS.toTree (ts : TreeS) : Tree where
  kind := ts.kind
  cfg := fun p => (ts.cfgS p).map (fun v => v.map (fun s => (declared s).getD 0))
  rc := fun p => (ts.rcS p).map (fun v => match v with
    | none => 0
    | some s => (declared s).getD 0)

/-- The string tree in which every number is written the way the code itself writes it
    (`config["schema_version"] = <int>`, i.e. `str` of the number). -/
def ofTree (t : Tree) : TreeS where
  kind := t.kind
  cfgS := fun p => (t.cfg p).map (fun v => v.map toString)
  rcS := fun p => (t.rc p).map (fun n => some (toString n))

/-! ### `_locate_config_dir` -/

def isProjectS (ts : TreeS) (p : Path) : Bool := (ts.cfgS p).isSome

/-- First loop: walk up with `dirname` until a directory holding `.signac/config`. -/
def findProjectS (ts : TreeS) : Path → Option Path
  | [] => if isProjectS ts [] then some [] else none
  | c :: rest => if isProjectS ts (c :: rest) then some (c :: rest) else findProjectS ts rest

/-- `int(config["schema_version"])` in `_get_config_schema_version`; `KeyError` → 0.
    `none` = ValueError. -/
def legacyVersion : Option String → Option Int
  | none => some 0
  | some s => pyInt s

/-- `_raise_if_older_schema(p)`: no loadable legacy config → passes (`RuntimeError` swallowed);
    otherwise `int()` (ValueError propagates), the `assert`, the `raise`. -/
def olderErrS (ts : TreeS) (p : Path) : Option ErrS :=
  match ts.rcS p with
  | none => none
  | some v =>
    match legacyVersion v with
    | none => some .valueError
    | some n => if n = (Mig.SCHEMA : Int) then some (.base .assertion) else some (.base .incompatible)

/-- Second loop: walk up again calling `_raise_if_older_schema` on every level. -/
def findOlderS (ts : TreeS) : Path → Option ErrS
  | [] => olderErrS ts []
  | c :: rest => match olderErrS ts (c :: rest) with
    | some e => some e
    | none => findOlderS ts rest

def locateConfigDirS (ts : TreeS) (p : Path) : Except ErrS (Option Path) :=
  match findProjectS ts p with
  | some q => .ok (some q)
  | none => match findOlderS ts p with
    | some e => .error e
    | none => .ok none

/-! ### `Project(path)`, `get_project`, `get_job`, `init_project` -/

def hasWorkspaceS (ts : TreeS) (p : Path) : Bool := ts.kind ("workspace" :: p) = .dir

/-- `Project(path)`: config present?, `int()` of the configured string and the comparison with
    `SCHEMA_VERSION` (`PyInt.gateStr`; the configspec default for an absent key is `'1'`), then
    (and only then) the workspace directory is created if missing. -/
def openProjectS (ts : TreeS) (p : Path) : Except ErrS Path × List Step :=
  match ts.cfgS p with
  | none => match olderErrS ts p with
    | some e => (.error e, [])
    | none => (.error (.base .lookup), [])
  | some v =>
    match gateStr (v.getD "1") with
    | .ok => if hasWorkspaceS ts p then (.ok p, []) else (.ok p, [.mkdir ("workspace" :: p)])
    | .incompatible => (.error (.base .incompatible), [])
    | .valueError => (.error .valueError, [])

/-- `get_project` after the existence test. -/
def getProjectFromS (ts : TreeS) (p : Path) : Except ErrS Path × List Step :=
  match locateConfigDirS ts p with
  | .error e => (.error e, [])
  | .ok none => (.error (.base .lookup), [])
  | .ok (some q) => openProjectS ts q

def getProjectS (ts : TreeS) (p : Path) (search : Bool) : Except ErrS Path × List Step :=
  if ts.kind p = .absent then (.error (.base .lookup), [])
  else if !search && !isProjectS ts p then (.error (.base .lookup), [])
  else getProjectFromS ts p

/-- `get_job(path)`; the path part (`lastJob`) is that of Signac/Discovery.lean. -/
def getJobS (ts : TreeS) (p : Path) : Except ErrS (String × Path) × List Step :=
  if ts.kind p = .absent then (.error (.base .lookup), [])
  else match lastJob p with
    | none => (.error (.base .lookup), [])
    | some (jid, jp) =>
      if ts.kind jp = .dir then
        match getProjectFromS ts jp.tail with
        | (.ok q, s) => (.ok (jid, q), s)
        | (.error e, s) => (.error e, s)
      else (.error (.base .lookup), [])

/-- `os.makedirs(p, exist_ok=True)` unless `p` is a directory: missing levels, outermost first. -/
def mkdirPS (ts : TreeS) : Path → List Step
  | [] => []
  | c :: rest => if ts.kind (c :: rest) = .dir then [] else mkdirPS ts rest ++ [.mkdir (c :: rest)]

/-- the tree after `.signac/config` has been written with `schema_version = SCHEMA_VERSION`
    (an int, which configobj writes as its `str`) -/
def afterInitS (ts : TreeS) (p : Path) : TreeS where
  kind := fun x => if x = "config" :: ".signac" :: p then .file
                   else if decide (x <:+ ".signac" :: p) then .dir else ts.kind x
  cfgS := fun x => if x = p then some (some (toString Mig.SCHEMA)) else ts.cfgS x
  rcS := ts.rcS

/-- `init_project`: only `LookupError` is caught; IncompatibleSchemaVersion, AssertionError and
    ValueError leave the function. -/
def initProjectS (ts : TreeS) (p : Path) : Except ErrS Path × List Step :=
  match getProjectS ts p false with
  | (.ok q, s) => (.ok q, s)
  | (.error (.base .lookup), _) =>
    match olderErrS ts p with
    | some e => (.error e, [])
    | none =>
      let s := mkdirPS ts (".signac" :: p) ++ [.writeConfig p]
      match getProjectS (afterInitS ts p) p true with
      | (r, s') => (r, s ++ s')
  | (.error e, s) => (.error e, s)

/-! ### executable trees (examples) -/

structure NodeS where
  path : Path
  kind : Kind
  cfgS : Option (Option String)
  rcS : Option (Option String)

def findNodeS (ns : List NodeS) (p : Path) : Option NodeS := ns.find? (fun n => n.path = p)

def TreeS.ofNodes (ns : List NodeS) : TreeS where
  kind := fun p => match findNodeS ns p with | some n => n.kind | none => .absent
  cfgS := fun p => match findNodeS ns p with | some n => n.cfgS | none => none
  rcS := fun p => match findNodeS ns p with | some n => n.rcS | none => none

end Signac.DiscS

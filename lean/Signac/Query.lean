/-
  Signac.Query — the query engine of signac as a small executable model (core only).

  Modelled code (read from /repo/signac):
    filterparse.py   `_add_prefix`, `_root_keys`, `_cast`, `_parse_single`, `parse_simple`,
                     `parse_filter_arg`, `parse_filter`
    _utility.py      `_nested_dicts_to_dotted_keys`, `_to_hashable`
    _search_indexer  `_TypedSetDefaultDict` (+ `_float`), `build_index`,
                     `_find_with_index_operator`, `_find_expression`, `_find_result`, `find`
    project.py       `_find_job_ids`, `_build_index`, `JobsCursor` (len/iter/getitem/contains/groupby)

  Python sets are lists here; only membership is ever compared.  Exceptions are values
  (`Except Err _`); the order in which the code meets them is kept (early exits hide later
  errors exactly as in the code).

  Parameters supplied by the harness (CPython, not signac): `re.search`, `float(str)`,
  `math.isclose`, and for the command line syntax `int(str)`, `float(str)`, `json.loads`.

  Notes:
    * `_root_keys` descends into `$not` (fix F-6b, in /repo as b9f492d); `rootKeysOld` /
      `findJobsOld` keep the former rule to state that it was wrong;
    * `groupby` resolves dotted keys through nested mappings and strips only a real
      `sp.`/`doc.` namespace (fix F-7, in /repo as 86782f6);
    * `$where` is outside the modelled grammar (`Err.unsupported`);
    * the primary-key shortcut `_id` of `_find_result` is unreachable through
      `Project.find_jobs` (every key is prefixed first) and is not modelled.
-/
import Signac.PyVal
import Signac.Extracted
namespace Signac.Query
open Signac

abbrev JobId := String

/-- exception kinds the query code can raise -/
inductive Err where
  | typeError | valueError | keyError | attributeError | reError | indexError | jsonError | unsupported
  deriving DecidableEq, Repr, Inhabited

def Err.name : Err → String
  | .typeError => "TypeError"
  | .valueError => "ValueError"
  | .keyError => "KeyError"
  | .attributeError => "AttributeError"
  | .reError => "error"
  | .indexError => "IndexError"
  | .jsonError => "JSONDecodeError"
  | .unsupported => "unsupported"

/-- CPython pieces the model is parametric in -/
structure Params where
  /-- `bool(re.search(pattern, s))`; `none` = `re.error` -/
  rx : String → String → Option Bool
  /-- does `float(s)` succeed -/
  floatStr : String → Bool
  /-- `math.isclose(value, float(a), rel_tol=float(rel) | 1e-9, abs_tol=float(abs) | 0.0)`;
      `none` = ValueError (negative tolerance) -/
  isclose : JVal → JVal → Option JVal → Option JVal → Option Bool

/-! ## keys: dotted paths -/

/-- `str.split(".")` on characters -/
def splitDot : List Char → List (List Char)
  | [] => [[]]
  | c :: cs =>
    if c = '.' then [] :: splitDot cs
    else match splitDot cs with
      | [] => [[c]]
      | h :: t => (c :: h) :: t

def nodesOf (key : String) : List String := (splitDot key.toList).map String.ofList

/-- `v[n1][n2]…` with KeyError / TypeError swallowed (only mappings can be descended) -/
def getPath : List String → JVal → Option JVal
  | [], v => some v
  | n :: ns, .obj kvs =>
    match lookupKV n kvs with
    | some w => getPath ns w
    | none => none
  | _ :: _, _ => none

/-! ## index keys, hashing, dict slots -/

/-- what `build_index` uses as dictionary key for a job's value: the value itself (`_to_hashable`
    turns lists into tuples and mappings inside lists into `_hashable_dict`s, recursively, so every
    JSON value is hashable and compares as the JSON value does), or the placeholder class for a
    mapping -/
inductive IKey where
  | val (v : JVal)
  | dict                      -- `_DictPlaceholder`
  deriving Inhabited

def toIKey : JVal → IKey
  | .obj _ => .dict
  | v => .val v

/-- 1 for a float (stored as `_float`: hash shifted by one and `==` only to another `_float`,
    so a float never shares a slot with an int or bool), 0 for everything else.  Inside tuples
    nothing is wrapped: `(1.0,)`, `(1,)` and `(True,)` share a slot. -/
def slotTag : JVal → Nat
  | .flt _ _ _ => 1
  | _ => 0

/-- two keys land in the same slot of `_TypedSetDefaultDict`: same hash and `==` -/
def slotEq : IKey → IKey → Bool
  | .dict, .dict => true
  | .val a, .val b => pyEq a b && slotTag a == slotTag b
  | _, _ => false

abbrev Index := List (IKey × List JobId)

/-- `index[k].add(id)`: first slot whose stored key matches, else a new slot at the end -/
def Index.insert (k : IKey) (id : JobId) : Index → Index
  | [] => [(k, [id])]
  | (r, ids) :: rest =>
    if slotEq r k then (r, ids ++ [id]) :: rest else (r, ids) :: Index.insert k id rest

/-- `index.get(k, set())` -/
def Index.get (k : IKey) : Index → List JobId
  | [] => []
  | (r, ids) :: rest => if slotEq r k then ids else Index.get k rest

def Index.members (idx : Index) : List JobId := idx.flatMap (·.2)

/-- `build_index`: documents in listing order -/
def buildIndexFrom (nodes : List String) : List (JobId × JVal) → Index → Index
  | [], idx => idx
  | (i, d) :: rest, idx =>
    match getPath nodes d with
    | none => buildIndexFrom nodes rest idx
    | some x => buildIndexFrom nodes rest (idx.insert (toIKey x) i)

def buildIndex (docs : List (JobId × JVal)) (nodes : List String) : Index :=
  buildIndexFrom nodes docs []

/-! ## operators on one index key -/

def ikEq : IKey → JVal → Bool
  | .val v, a => pyEq v a
  | .dict, _ => false

def ikCmp : IKey → JVal → Cmp
  | .val v, a => pyCmp v a
  | .dict, _ => .typeError

def isPrefixChars : List Char → List Char → Bool
  | [], _ => true
  | _ :: _, [] => false
  | a :: as, b :: bs => a == b && isPrefixChars as bs

def isInfixChars (p : List Char) : List Char → Bool
  | [] => p.isEmpty
  | c :: cs => isPrefixChars p (c :: cs) || isInfixChars p cs

def anyEq (k : IKey) : List JVal → Bool
  | [] => false
  | x :: xs => ikEq k x || anyEq k xs

/-- Python `value in argument` -/
def pyIn (k : IKey) (arg : JVal) : Except Err Bool :=
  match arg with
  | .arr xs => .ok (anyEq k xs)
  | .str s =>
    match k with
    | .val (.str t) => .ok (isInfixChars t.toList s.toList)
    | _ => .error .typeError
  | .obj kvs =>
    match k with
    | .val (.str t) => .ok ((lookupKV t kvs).isSome)
    | _ => .ok false
  | _ => .error .typeError

def cmpHolds (op : String) (c : Cmp) : Except Err Bool :=
  match c with
  | .typeError => .error .typeError
  | .lt => .ok (op == "$lt" || op == "$lte")
  | .eq => .ok (op == "$lte" || op == "$gte")
  | .gt => .ok (op == "$gt" || op == "$gte")

def lookupStr (k : String) : List (String × String) → Option String
  | [] => none
  | (a, b) :: rest => if k = a then some b else lookupStr k rest

/-- `_TYPES[argument]` or the exception `argument in _TYPES` / the `else` branch raises -/
def typeArg (arg : JVal) : Except Err String :=
  match arg with
  | .str s =>
    match lookupStr s Extracted.TYPES with
    | some t => .ok t
    | none => .error .valueError
  | _ => .error .valueError

def ikIsInstance : IKey → String → Bool
  | .val v, t => pyIsInstance v t
  | .dict, _ => false

structure NearSpec where
  a : JVal
  rel : Option JVal
  abs : Option JVal

def floatable (P : Params) : JVal → Except Err Unit
  | .null => .error .typeError
  | .arr _ => .error .typeError
  | .obj _ => .error .typeError
  | .str s => if P.floatStr s then .ok () else .error .valueError
  | _ => .ok ()

def floatableOpt (P : Params) : Option JVal → Except Err Unit
  | none => .ok ()
  | some v => floatable P v

/-- the argument handling of `$near` that happens before any value is looked at -/
def nearSpec (P : Params) (arg : JVal) : Except Err NearSpec :=
  let raw : Except Err NearSpec :=
    match arg with
    | .arr [a] => .ok ⟨a, none, none⟩
    | .arr [a, r] => .ok ⟨a, some r, none⟩
    | .arr [a, r, t] => .ok ⟨a, some r, some t⟩
    | .arr _ => .error .valueError
    | a => .ok ⟨a, none, none⟩
  match raw with
  | .error e => .error e
  | .ok s =>
    match floatable P s.a with
    | .error e => .error e
    | .ok _ =>
      match floatableOpt P s.rel with
      | .error e => .error e
      | .ok _ =>
        match floatableOpt P s.abs with
        | .error e => .error e
        | .ok _ => .ok s

def nearHolds (P : Params) (s : NearSpec) : IKey → Except Err Bool
  | .val (.bool b) => match P.isclose (.bool b) s.a s.rel s.abs with
    | some r => .ok r
    | none => .error .valueError
  | .val (.int i) => match P.isclose (.int i) s.a s.rel s.abs with
    | some r => .ok r
    | none => .error .valueError
  | .val (.flt n e r) => match P.isclose (.flt n e r) s.a s.rel s.abs with
    | some r => .ok r
    | none => .error .valueError
  | _ => .error .typeError

def regexHolds (P : Params) (arg : JVal) : IKey → Except Err Bool
  | .val (.str s) =>
    match arg with
    | .str p => match P.rx p s with
      | some b => .ok b
      | none => .error .reError
    | _ => .error .typeError
  | _ => .ok false

/-- the callable `_find_with_index_operator` builds for `op`, applied to one index key
    (`$near` is handled by `nearHolds` after its argument has been checked) -/
def holds (P : Params) (op : String) (k : IKey) (arg : JVal) : Except Err Bool :=
  if op = "$eq" then .ok (ikEq k arg)
  else if op = "$ne" then .ok (!ikEq k arg)
  else if op = "$gt" ∨ op = "$gte" ∨ op = "$lt" ∨ op = "$lte" then cmpHolds op (ikCmp k arg)
  else if op = "$in" then pyIn k arg
  else if op = "$nin" then
    match pyIn k arg with
    | .ok b => .ok (!b)
    | .error e => .error e
  else if op = "$regex" then regexHolds P arg k
  else if op = "$type" then
    match typeArg arg with
    | .ok t => .ok (ikIsInstance k t)
    | .error e => .error e
  else .error .unsupported

/-- the test applied to every key of the index, or the exception raised before the loop -/
def opTest (P : Params) (op : String) (arg : JVal) : Except Err (IKey → Except Err Bool) :=
  if op = "$near" then
    match nearSpec P arg with
    | .ok s => .ok (nearHolds P s)
    | .error e => .error e
  else .ok (fun k => holds P op k arg)

/-- `for value in index: if op(value, argument): matches.update(index[value])` -/
def matchGroups (h : IKey → Except Err Bool) : Index → Except Err (List JobId)
  | [] => .ok []
  | (k, ids) :: rest =>
    match h k with
    | .error e => .error e
    | .ok b =>
      match matchGroups h rest with
      | .error e => .error e
      | .ok r => .ok (if b then ids ++ r else r)

def findWithOp (P : Params) (idx : Index) (op : String) (arg : JVal) : Except Err (List JobId) :=
  match opTest P op arg with
  | .error e => .error e
  | .ok h => matchGroups h idx

/-! ## `_find_expression` -/

/-- a flattened filter key, analysed as `_find_expression` does -/
inductive KeyKind where
  | plain (nodes : List String)
  | op (nodes : List String) (op : String)
  | bad
  deriving Repr, DecidableEq

def countDollar (cs : List Char) : Nat := (cs.filter (· == '$')).length

def dropLastNodes : List (List Char) → List (List Char)
  | [] => []
  | [_] => []
  | x :: y :: rest => x :: dropLastNodes (y :: rest)

def lastNode : List (List Char) → List Char
  | [] => []
  | [x] => x
  | _ :: y :: rest => lastNode (y :: rest)

def analyseKey (key : String) : KeyKind :=
  let cs := key.toList
  if countDollar cs = 0 then .plain (nodesOf key)
  else if countDollar cs > 1 then .bad
  else
    let nodes := splitDot cs
    match lastNode nodes with
    | '$' :: rest =>
      -- `".".join(nodes[:-1])` is split again by `build_index`; an empty join gives `[""]`
      let ns := dropLastNodes nodes
      .op (if ns.isEmpty then [""] else ns.map String.ofList) (String.ofList ('$' :: rest))
    | _ => .bad

def isNumber : JVal → Bool
  | .bool _ => true
  | .int _ => true
  | .flt _ _ _ => true
  | _ => false

/-- `isinstance(value, Number) and float(value).is_integer()`: the integer it denotes
    (ints beyond ±2^53 would be rounded by `float()`; outside the generated universe) -/
def intValued (v : JVal) : Option Int :=
  match numVal v with
  | some (n, e) => if isNumber v && n % (2 : Int) ^ e == 0 then some (n / (2 : Int) ^ e) else none
  | none => none

def allIds (docs : List (JobId × JVal)) : List JobId := docs.map (·.1)

def diffIds (a b : List JobId) : List JobId := a.filter (fun i => !b.contains i)
def interIds (a b : List JobId) : List JobId := a.filter (fun i => b.contains i)

def findExpression (P : Params) (docs : List (JobId × JVal)) (key : String) (value : JVal) :
    Except Err (List JobId) :=
  match analyseKey key with
  | .bad => .error .keyError
  | .op nodes op =>
    if Extracted.INDEX_OPERATORS.contains op then
      findWithOp P (buildIndex docs nodes) op value
    else if op = "$exists" then
      match value with
      | .bool b =>
        let idx := buildIndex docs nodes
        .ok (if b then idx.members else diffIds (allIds docs) idx.members)
      | _ => .error .valueError
    else .error .keyError
  | .plain nodes =>
    let idx := buildIndex docs nodes
    match intValued value with
    | some n => .ok (idx.get (.val (.int n)) ++ idx.get (.val (.flt n 0 "")))
    | none => .ok (idx.get (.val value))

/-! ## filters -/

/-- a filter after `_add_prefix` and after `_find_result` has popped the logical operators:
    the remaining (prefixed) entries in dictionary order, `$not`, `$and`, `$or` -/
inductive Flt where
  | mk (atoms : List (String × JVal)) (not_ : Option Flt) (and_ : Option (List Flt))
       (or_ : Option (List Flt))
  deriving Inhabited

def Flt.atoms : Flt → List (String × JVal) | .mk a _ _ _ => a
def Flt.not_ : Flt → Option Flt | .mk _ n _ _ => n
def Flt.and_ : Flt → Option (List Flt) | .mk _ _ a _ => a
def Flt.or_ : Flt → Option (List Flt) | .mk _ _ _ o => o

/-- `not expr` -/
def Flt.isEmpty : Flt → Bool
  | .mk atoms n a o => atoms.isEmpty && n.isNone && a.isNone && o.isNone

def headNode (cs : List Char) : List Char := cs.takeWhile (· != '.')

/-- the key `_add_prefix` yields for a non-logical key -/
def prefixKey (key : String) : String :=
  let cs := key.toList
  let h := String.ofList (headNode cs)
  if cs.contains '.' && (h = "sp" || h = "doc") then key
  else if key = "sp" || key = "doc" then key
  else "sp." ++ key

def eraseKey (k : String) : List (String × JVal) → List (String × JVal)
  | [] => []
  | (k', v) :: rest => if k = k' then eraseKey k rest else (k', v) :: eraseKey k rest

/-- prepend an entry to a list that stands for the *rest* of a `dict(pairs)` construction:
    a key seen again later keeps the first position and takes the later value -/
def dictCons (k : String) (v : JVal) (rest : List (String × JVal)) : List (String × JVal) :=
  match lookupKV k rest with
  | none => (k, v) :: rest
  | some w => (k, w) :: eraseKey k rest

mutual
  /-- `dict(_add_prefix(filter))` followed by the three `pop`s of `_find_result`, recursively -/
  def ofJson : JVal → Except Err Flt
    | .obj kvs => ofEntries kvs
    | _ => .error .attributeError
  def ofEntries : List (String × JVal) → Except Err Flt
    | [] => .ok (.mk [] none none none)
    | (k, v) :: rest =>
      if k = "$and" ∨ k = "$or" then
        match v with
        | .arr xs =>
          match ofList xs with
          | .error e => .error e
          | .ok fs =>
            match ofEntries rest with
            | .error e => .error e
            | .ok (.mk as n a o) =>
              if k = "$and" then .ok (.mk as n (some fs) o) else .ok (.mk as n a (some fs))
        | _ => .error .valueError
      else if k = "$not" then
        match ofJson v with
        | .error e => .error e
        | .ok f =>
          match ofEntries rest with
          | .error e => .error e
          | .ok (.mk as _ a o) => .ok (.mk as (some f) a o)
      else
        match ofEntries rest with
        | .error e => .error e
        | .ok (.mk as n a o) => .ok (.mk (dictCons (prefixKey k) v as) n a o)
  def ofList : List JVal → Except Err (List Flt)
    | [] => .ok []
    | x :: xs =>
      match ofJson x with
      | .error e => .error e
      | .ok f =>
        match ofList xs with
        | .error e => .error e
        | .ok fs => .ok (f :: fs)
end

/-- the first component of a (prefixed) key -/
def rootOf (key : String) : String := String.ofList (headNode key.toList)

mutual
  /-- `_root_keys` (descending into `$not` as well: fix F-6b) -/
  def rootKeys : Flt → List String
    | .mk atoms n a o =>
      atoms.map (fun kv => rootOf kv.1) ++ rootKeysOpt n ++ rootKeysOptList a ++ rootKeysOptList o
  def rootKeysOpt : Option Flt → List String
    | none => []
    | some f => rootKeys f
  def rootKeysOptList : Option (List Flt) → List String
    | none => []
    | some fs => rootKeysList fs
  def rootKeysList : List Flt → List String
    | [] => []
    | f :: fs => rootKeys f ++ rootKeysList fs
end

mutual
  /-- `_root_keys` before the fix F-6b: `$not` is reported as a key and not descended -/
  def rootKeysOld : Flt → List String
    | .mk atoms n a o =>
      atoms.map (fun kv => rootOf kv.1) ++ (match n with | none => [] | some _ => ["$not"])
        ++ rootKeysOldOptList a ++ rootKeysOldOptList o
  def rootKeysOldOptList : Option (List Flt) → List String
    | none => []
    | some fs => rootKeysOldList fs
  def rootKeysOldList : List Flt → List String
    | [] => []
    | f :: fs => rootKeysOld f ++ rootKeysOldList fs
end

mutual
  /-- `_nested_dicts_to_dotted_keys(d, key)` for a value under `key` -/
  def flattenVal (key : String) : JVal → List (String × JVal)
    | .obj kvs =>
      match kvs with
      | [] => [(key, .obj [])]
      | _ :: _ => flattenKVs key kvs
    | .null => [(key, .null)]
    | .bool b => [(key, .bool b)]
    | .int i => [(key, .int i)]
    | .flt n e r => [(key, .flt n e r)]
    | .str s => [(key, .str s)]
    | .arr xs => [(key, .arr xs)]
  def flattenKVs (key : String) : List (String × JVal) → List (String × JVal)
    | [] => []
    | (k, v) :: rest => flattenVal (key ++ "." ++ k) v ++ flattenKVs key rest
end

/-- `_nested_dicts_to_dotted_keys(expr)` of the non-logical part -/
def flatten : List (String × JVal) → List (String × JVal)
  | [] => []
  | (k, v) :: rest => flattenVal k v ++ flatten rest

/-! ## `_find_result` -/

/-- `reduce_results` -/
def reduce (acc : Option (List JobId)) (m : List JobId) : List JobId :=
  match acc with
  | none => m
  | some r => interIds r m

/-- one reduction step; an empty intermediate result has already left the function
    (`if not result_ids: return set()`), so whatever would come next is not looked at -/
def stepE (acc : Option (List JobId)) (r : Except Err (List JobId)) :
    Except Err (Option (List JobId)) :=
  match acc with
  | some [] => .ok (some [])
  | _ =>
    match r with
    | .error e => .error e
    | .ok m => .ok (some (reduce acc m))

def findAtoms (P : Params) (docs : List (JobId × JVal)) :
    Option (List JobId) → List (String × JVal) → Except Err (Option (List JobId))
  | acc, [] => .ok acc
  | acc, (k, v) :: rest =>
    match stepE acc (findExpression P docs k v) with
    | .error e => .error e
    | .ok acc' => findAtoms P docs acc' rest

def complementE (all : List JobId) : Except Err (List JobId) → Except Err (List JobId)
  | .error e => .error e
  | .ok m => .ok (diffIds all m)

mutual
  def findResult (P : Params) (docs : List (JobId × JVal)) : Flt → Except Err (List JobId)
    | .mk atoms n a o =>
      if atoms.isEmpty && n.isNone && a.isNone && o.isNone then .ok (allIds docs)
      else
        match findAtoms P docs none (flatten atoms) with
        | .error e => .error e
        | .ok acc1 =>
          match findNot P docs acc1 n with
          | .error e => .error e
          | .ok acc2 =>
            match findAndOpt P docs acc2 a with
            | .error e => .error e
            | .ok acc3 =>
              match findOrOpt P docs acc3 o with
              | .error e => .error e
              | .ok none => .error .typeError      -- `list(None)`; unreachable (some step always reduces)
              | .ok (some r) => .ok r
  def findNot (P : Params) (docs : List (JobId × JVal)) (acc : Option (List JobId)) :
      Option Flt → Except Err (Option (List JobId))
    | none => .ok acc
    | some f => stepE acc (complementE (allIds docs) (findResult P docs f))
  def findAndOpt (P : Params) (docs : List (JobId × JVal)) (acc : Option (List JobId)) :
      Option (List Flt) → Except Err (Option (List JobId))
    | none => .ok acc
    | some fs =>
      match acc with
      | some [] => .ok (some [])
      | _ =>
        match fs with
        | [] => .error .valueError
        | f :: rest => findAnd P docs acc (f :: rest)
  def findAnd (P : Params) (docs : List (JobId × JVal)) (acc : Option (List JobId)) :
      List Flt → Except Err (Option (List JobId))
    | [] => .ok acc
    | f :: fs =>
      match stepE acc (findResult P docs f) with
      | .error e => .error e
      | .ok acc' => findAnd P docs acc' fs
  def findOrOpt (P : Params) (docs : List (JobId × JVal)) (acc : Option (List JobId)) :
      Option (List Flt) → Except Err (Option (List JobId))
    | none => .ok acc
    | some fs =>
      match acc with
      | some [] => .ok (some [])
      | _ =>
        match fs with
        | [] => .error .valueError
        | f :: rest =>
          match findOr P docs (f :: rest) with
          | .error e => .error e
          | .ok m => .ok (some (reduce acc m))
  def findOr (P : Params) (docs : List (JobId × JVal)) : List Flt → Except Err (List JobId)
    | [] => .ok []
    | f :: fs =>
      match findResult P docs f with
      | .error e => .error e
      | .ok m =>
        match findOr P docs fs with
        | .error e => .error e
        | .ok r => .ok (m ++ r)
end

/-! ## the project level: `_find_job_ids` -/

/-- one initialised job: id, state point, document (absent = no document file) -/
structure Job where
  id : JobId
  sp : JVal
  doc : Option JVal

abbrev Corpus := List Job

/-- what `_build_index(include_job_document)` yields for one job -/
def indexedDoc (withDoc : Bool) (j : Job) : JVal :=
  match withDoc, j.doc with
  | true, some d => .obj [("sp", j.sp), ("doc", d)]
  | _, _ => .obj [("sp", j.sp)]

def indexedDocs (withDoc : Bool) (c : Corpus) : List (JobId × JVal) :=
  c.map (fun j => (j.id, indexedDoc withDoc j))

/-- the job's own data as the reference evaluator sees it -/
def fullDoc (j : Job) : JVal := indexedDoc true j

def includeDoc (f : Flt) : Bool := (rootKeys f).contains "doc"
def includeDocOld (f : Flt) : Bool := (rootKeysOld f).contains "doc"

/-- Python truthiness of the `filter` argument -/
def falsy : JVal → Bool
  | .null => true
  | .bool b => !b
  | .int i => i == 0
  | .flt n _ _ => n == 0
  | .str s => s.isEmpty
  | .arr xs => xs.isEmpty
  | .obj kvs => kvs.isEmpty

/-- `Project._find_job_ids(filter)` for an already prefixed and split filter -/
def findFlt (P : Params) (c : Corpus) (f : Flt) : Except Err (List JobId) :=
  findResult P (indexedDocs (includeDoc f) c) f

/-- `Project._find_job_ids(filter)` -/
def findJobs (P : Params) (c : Corpus) (filter : JVal) : Except Err (List JobId) :=
  if falsy filter then .ok (c.map (·.id))
  else
    match ofJson filter with
    | .error e => .error e
    | .ok f => findFlt P c f

/-- the decision whether documents are indexed as it was before the fix F-6b (kept to state the defect) -/
def findJobsOld (P : Params) (c : Corpus) (filter : JVal) : Except Err (List JobId) :=
  if falsy filter then .ok (c.map (·.id))
  else
    match ofJson filter with
    | .error e => .error e
    | .ok f => findResult P (indexedDocs (includeDocOld f) c) f

/-! ## reference: direct evaluation on ONE job's data -/

/-- the value of a plain key against a filter value: Python `==` -/
def evalPlain (x : Option JVal) (value : JVal) : Bool :=
  match x with
  | none => false
  | some w => ikEq (toIKey w) value

def evalAtom (P : Params) (d : JVal) (key : String) (value : JVal) : Except Err Bool :=
  match analyseKey key with
  | .bad => .error .keyError
  | .op nodes op =>
    if Extracted.INDEX_OPERATORS.contains op then
      match opTest P op value with
      | .error e => .error e
      | .ok h =>
        match getPath nodes d with
        | none => .ok false
        | some w => h (toIKey w)
    else if op = "$exists" then
      match value with
      | .bool b =>
        match getPath nodes d with
        | none => .ok (!b)
        | some _ => .ok b
      | _ => .error .valueError
    else .error .keyError
  | .plain nodes => .ok (evalPlain (getPath nodes d) value)

/-- all atoms hold (every atom is evaluated: an error anywhere is an error) -/
def evalAtoms (P : Params) (d : JVal) : List (String × JVal) → Except Err Bool
  | [] => .ok true
  | (k, v) :: rest =>
    match evalAtom P d k v with
    | .error e => .error e
    | .ok b =>
      match evalAtoms P d rest with
      | .error e => .error e
      | .ok r => .ok (b && r)

mutual
  /-- does the job whose data is `d` satisfy the filter: atoms ∧ ¬not ∧ all of and ∧ some of or -/
  def evalRef (P : Params) (d : JVal) : Flt → Except Err Bool
    | .mk atoms n a o =>
      if atoms.isEmpty && n.isNone && a.isNone && o.isNone then .ok true
      else
        match evalAtoms P d (flatten atoms) with
        | .error e => .error e
        | .ok b1 =>
          match evalNot P d n with
          | .error e => .error e
          | .ok b2 =>
            match evalAllOpt P d a with
            | .error e => .error e
            | .ok b3 =>
              match evalAnyOpt P d o with
              | .error e => .error e
              | .ok b4 => .ok (b1 && b2 && b3 && b4)
  def evalNot (P : Params) (d : JVal) : Option Flt → Except Err Bool
    | none => .ok true
    | some f =>
      match evalRef P d f with
      | .error e => .error e
      | .ok b => .ok (!b)
  def evalAllOpt (P : Params) (d : JVal) : Option (List Flt) → Except Err Bool
    | none => .ok true
    | some [] => .error .valueError
    | some (f :: fs) => evalAll P d (f :: fs)
  def evalAll (P : Params) (d : JVal) : List Flt → Except Err Bool
    | [] => .ok true
    | f :: fs =>
      match evalRef P d f with
      | .error e => .error e
      | .ok b =>
        match evalAll P d fs with
        | .error e => .error e
        | .ok r => .ok (b && r)
  def evalAnyOpt (P : Params) (d : JVal) : Option (List Flt) → Except Err Bool
    | none => .ok true
    | some [] => .error .valueError
    | some (f :: fs) => evalAny P d (f :: fs)
  def evalAny (P : Params) (d : JVal) : List Flt → Except Err Bool
    | [] => .ok false
    | f :: fs =>
      match evalRef P d f with
      | .error e => .error e
      | .ok b =>
        match evalAny P d fs with
        | .error e => .error e
        | .ok r => .ok (b || r)
end

/-- direct evaluation of a raw filter on one job -/
def evalJob (P : Params) (j : Job) (filter : JVal) : Except Err Bool :=
  if falsy filter then .ok true
  else
    match ofJson filter with
    | .error e => .error e
    | .ok f => evalRef P (fullDoc j) f

/-! ## front ends (C07): command line syntax, cursor, groupby -/

/-- CPython functions the command-line syntax relies on (`none` = ValueError / JSONDecodeError) -/
structure CliParams where
  pyInt : String → Option Int
  pyFloat : String → Option JVal
  jsonLoads : String → Option JVal

def lastChar : List Char → Option Char
  | [] => none
  | [c] => some c
  | _ :: d :: rest => lastChar (d :: rest)

/-- `_is_json_like` (`q[0]` of an empty string is an IndexError) -/
def isJsonLike (q : String) : Except Err Bool :=
  match q.toList with
  | [] => .error .indexError
  | c :: cs =>
    let l := (lastChar (c :: cs)).getD c
    .ok ((c == '{' && l == '}') || (c == '[' && l == ']'))

/-- `_is_regex` -/
def isRegexTok (q : String) : Bool :=
  match q.toList with
  | [] => false
  | c :: cs => c == '/' && (lastChar (c :: cs)).getD c == '/'

/-- Python value of a `CAST_MAPPING` entry given by its `repr` -/
def castConst (r : String) : Except Err JVal :=
  if r = "True" then .ok (.bool true)
  else if r = "False" then .ok (.bool false)
  else if r = "None" then .ok .null
  else .error .unsupported

/-- `_cast` -/
def cast (C : CliParams) (x : String) : Except Err JVal :=
  match lookupStr x Extracted.CAST_MAPPING with
  | some r => castConst r
  | none =>
    match C.pyInt x with
    | some i => .ok (.int i)
    | none =>
      match C.pyFloat x with
      | some f => .ok f
      | none => .ok (.str x)

def existsTrue : JVal := .obj [("$exists", .bool true)]

/-- `_parse_single` -/
def parseSingle (C : CliParams) (key : String) (value : Option String) : Except Err (String × JVal) :=
  match isJsonLike key with
  | .error e => .error e
  | .ok true => .error .valueError
  | .ok false =>
    match value with
    | none => .ok (key, existsTrue)
    | some v =>
      if v = "!" then .ok (key, existsTrue)
      else
        match isJsonLike v with
        | .error e => .error e
        | .ok true =>
          match C.jsonLoads v with
          | some j => .ok (key, j)
          | none => .error .jsonError
        | .ok false =>
          if isRegexTok v then
            .ok (key, .obj [("$regex", .str (String.ofList ((v.toList.drop 1).dropLast)))])
          else
            match cast C v with
            | .error e => .error e
            | .ok j => .ok (key, j)

/-- `parse_simple` (all pairs, first exception wins) -/
def parseSimple (C : CliParams) : List String → Except Err (List (String × JVal))
  | [] => .ok []
  | [k] =>
    match parseSingle C k none with
    | .error e => .error e
    | .ok p => .ok [p]
  | k :: v :: rest =>
    match parseSingle C k (some v) with
    | .error e => .error e
    | .ok p =>
      match parseSimple C rest with
      | .error e => .error e
      | .ok ps => .ok (p :: ps)

/-- `dict(pairs)`: first position, last value -/
def dictOfPairs : List (String × JVal) → List (String × JVal)
  | [] => []
  | (k, v) :: rest => dictCons k v (dictOfPairs rest)

/-- `dict(parse_filter(" ".join(tokens)))`: what `find_jobs(str)` evaluates -/
def parseSimpleDict (C : CliParams) (toks : List String) : Except Err JVal :=
  match parseSimple C toks with
  | .error e => .error e
  | .ok ps => .ok (.obj (dictOfPairs ps))

/-- `parse_filter_arg` -/
def parseFilterArg (C : CliParams) (args : List String) : Except Err (Option JVal) :=
  match args with
  | [] => .ok none
  | [a] =>
    match isJsonLike a with
    | .error e => .error e
    | .ok true =>
      match C.jsonLoads a with
      | some j => .ok (some j)
      | none => .error .jsonError
    | .ok false =>
      match parseSingle C a none with
      | .error e => .error e
      | .ok (k, v) => .ok (some (.obj [(k, v)]))
  | _ :: _ :: _ =>
    match parseSimpleDict C args with
    | .error e => .error e
    | .ok d => .ok (some d)

/-- `signac find` / `_find_with_filter`: `parse_filter_arg(args) or {}`, empty → all jobs -/
def findCli (P : Params) (C : CliParams) (c : Corpus) (args : List String) : Except Err (List JobId) :=
  match parseFilterArg C args with
  | .error e => .error e
  | .ok none => .ok (c.map (·.id))
  | .ok (some f) => findJobs P c f

namespace Cursor
/-- `JobsCursor` over its cached id list -/
def len (ids : List JobId) : Nat := ids.length

def norm (n : Nat) (i : Int) : Option Nat :=
  let j := if i < 0 then i + n else i
  if 0 ≤ j ∧ j < n then some j.toNat else none

/-- `cursor[i].id` (`none` = IndexError) -/
def getitem (ids : List JobId) (i : Int) : Option JobId :=
  match norm ids.length i with
  | some k => ids[k]?
  | none => none

def clampIdx (n lower upper x : Int) : Int :=
  if x < 0 then max (x + n) lower else min x upper

/-- `range(*slice(start, stop, step).indices(n))` (`none` = ValueError: step 0) -/
def sliceIdx (n : Nat) (start stop step : Option Int) : Option (List Int) :=
  let st := step.getD 1
  if st = 0 then none
  else
    let lower : Int := if st < 0 then -1 else 0
    let upper : Int := if st < 0 then (n : Int) - 1 else n
    let a := match start with
      | none => if st < 0 then upper else lower
      | some x => clampIdx n lower upper x
    let b := match stop with
      | none => if st < 0 then lower else upper
      | some x => clampIdx n lower upper x
    let cnt : Int := if st > 0 then (b - a + st - 1) / st else (a - b - st - 1) / (-st)
    some ((List.range cnt.toNat).map (fun (k : Nat) => a + (k : Int) * st))

/-- ids of `cursor[start:stop:step]` -/
def slice (ids : List JobId) (start stop step : Option Int) : Option (List JobId) :=
  match sliceIdx ids.length start stop step with
  | none => none
  | some is => some (is.filterMap (fun i => if i < 0 then none else ids[i.toNat]?))

def contains (ids : List JobId) (j : JobId) : Bool := ids.contains j
end Cursor

/-- what `groupby` is asked to group by (callables are outside the model) -/
inductive GroupKeys where
  | byId
  | single (k : String)
  | multi (ks : List String)

def groupKeysOf : JVal → Option GroupKeys
  | .null => some .byId
  | .str k => some (.single k)
  | .arr xs =>
    let rec go : List JVal → Option (List String)
      | [] => some []
      | .str s :: rest => (go rest).map (s :: ·)
      | _ => none
    (go xs).map .multi
  | _ => none

/-- `_is_doc_key` -/
def isDocKey (key : String) : Bool :=
  key.toList.contains '.' && String.ofList (headNode key.toList) = "doc"

/-- `_strip_prefix` (fix F-7): only a real namespace is stripped -/
def stripPrefix (key : String) : String :=
  let cs := key.toList
  let h := String.ofList (headNode cs)
  if cs.contains '.' && (h = "sp" || h = "doc") then String.ofList ((cs.dropWhile (· != '.')).drop 1)
  else key

/-- the job's own value for a grouping key (dotted keys resolved through sub-mappings: F-7) -/
def keyValue (j : Job) (key : String) (dflt : Option JVal) : Except Err JVal :=
  let src : JVal := if isDocKey key then j.doc.getD (.obj []) else j.sp
  match getPath (nodesOf (stripPrefix key)) src, dflt with
  | some v, _ => .ok v
  | none, some d => .ok d
  | none, none => .error .keyError

def keyValues (j : Job) (dflt : Option JVal) : List String → Except Err (List JVal)
  | [] => .ok []
  | k :: ks =>
    match keyValue j k dflt with
    | .error e => .error e
    | .ok v =>
      match keyValues j dflt ks with
      | .error e => .error e
      | .ok vs => .ok (v :: vs)

/-- the label `keyfunction(job)` returns -/
def labelOf (j : Job) (gk : GroupKeys) (dflt : Option JVal) : Except Err JVal :=
  match gk with
  | .byId => .ok (.str j.id)
  | .single k => keyValue j k dflt
  | .multi ks =>
    match keyValues j dflt ((ks.filter (fun k => !isDocKey k)) ++ ks.filter isDocKey) with
    | .error e => .error e
    | .ok vs => .ok (.arr vs)

def existsEntries : List String → List (String × JVal)
  | [] => []
  | k :: ks => dictCons k existsTrue (existsEntries ks)

/-- the filter `groupby` hands to `find_jobs` -/
def groupFilter (filter : JVal) (gk : GroupKeys) (dflt : Option JVal) : JVal :=
  let cur : Option JVal := match filter with
    | .obj [] => none
    | .null => none
    | f => some f
  let ex : Option JVal := match dflt, gk with
    | some _, _ => none
    | none, .byId => none
    | none, .single k => some (.obj [(k, existsTrue)])
    | none, .multi ks => some (.obj (existsEntries ks))
  match ex, cur with
  | none, none => .obj []
  | none, some f => f
  | some e, none => e
  | some e, some f => .obj [("$and", .arr [e, f])]

def comparableWithAll (l : JVal) : List (JVal × JobId) → Bool
  | [] => true
  | (l', _) :: rest => pyCmp l l' != .typeError && pyCmp l' l != .typeError && comparableWithAll l rest

/-- every pair of labels can be ordered (otherwise `sorted` may raise TypeError) -/
def allComparable : List (JVal × JobId) → Bool
  | [] => true
  | (l, _) :: rest => comparableWithAll l rest && allComparable rest

/-- stable insertion in front of the first element that is not smaller -/
def insertSorted (x : JVal × JobId) : List (JVal × JobId) → List (JVal × JobId)
  | [] => [x]
  | y :: ys => if pyCmp x.1 y.1 == .gt then y :: insertSorted x ys else x :: y :: ys

def sortLabelled : List (JVal × JobId) → List (JVal × JobId)
  | [] => []
  | x :: xs => insertSorted x (sortLabelled xs)

/-- `itertools.groupby`: a group runs while the key of its first element `==` the next key -/
def groupFrom (l : JVal) (acc : List JobId) : List (JVal × JobId) → List (JVal × List JobId)
  | [] => [(l, acc.reverse)]
  | (l', i) :: rest =>
    if pyEq l l' then groupFrom l (i :: acc) rest
    else (l, acc.reverse) :: groupFrom l' [i] rest

def groupAdjacent : List (JVal × JobId) → List (JVal × List JobId)
  | [] => []
  | (l, i) :: rest => groupFrom l [i] rest

def labelJobs (c : Corpus) (gk : GroupKeys) (dflt : Option JVal) :
    List JobId → Except Err (List (JVal × JobId))
  | [] => .ok []
  | i :: is =>
    match c.find? (fun j => j.id = i) with
    | none => .error .keyError
    | some j =>
      match labelOf j gk dflt with
      | .error e => .error e
      | .ok l =>
        match labelJobs c gk dflt is with
        | .error e => .error e
        | .ok r => .ok ((l, i) :: r)

/-- `JobsCursor.groupby(key, default)` on the cursor of `filter`: (label, member ids) in order -/
def groupby (P : Params) (c : Corpus) (filter : JVal) (gk : GroupKeys) (dflt : Option JVal) :
    Except Err (List (JVal × List JobId)) :=
  match findJobs P c (groupFilter filter gk dflt) with
  | .error e => .error e
  | .ok ids =>
    -- iteration order of the selected jobs: corpus (listing) order
    match labelJobs c gk dflt ((c.map (·.id)).filter (fun i => ids.contains i)) with
    | .error e => .error e
    | .ok ls =>
      if allComparable ls then .ok (groupAdjacent (sortLabelled ls)) else .error .typeError

/-- lowest terms of `n / 2^e` -/
def reduceFrac : Nat → Int → Nat → Int × Nat
  | 0, n, e => (n, e)
  | fuel + 1, n, e => if e > 0 ∧ n % 2 = 0 then reduceFrac fuel (n / 2) (e - 1) else (n, e)

def hexOfString (s : String) : String :=
  String.ofList (s.toUTF8.toList.flatMap (fun b => [hexDigit (b.toNat / 16 % 16), hexDigit (b.toNat % 16)]))

mutual
  /-- rendering in which `==` labels of JSON-born values coincide (numbers by exact value,
      mappings with sorted keys) -/
  def canonLabel : JVal → String
    | .null => "N"
    | .bool b => if b then "#1/0" else "#0/0"
    | .int i => "#" ++ toString i ++ "/0"
    | .flt n e _ => let p := reduceFrac e n e; "#" ++ toString p.1 ++ "/" ++ toString p.2
    | .str s => "s" ++ hexOfString s
    | .arr xs => "[" ++ canonLabels xs ++ "]"
    | .obj kvs => "{" ++ canonLabelKVs kvs ++ "}"
  def canonLabels : List JVal → String
    | [] => ""
    | x :: xs => canonLabel x ++ "," ++ canonLabels xs
  def canonLabelKVs : List (String × JVal) → String
    | [] => ""
    | (k, v) :: rest => hexOfString k ++ ":" ++ canonLabel v ++ "," ++ canonLabelKVs rest
end

end Signac.Query

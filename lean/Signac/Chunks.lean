/-
  Signac.Chunks — `signac.project._split_and_print_progress` (the chunking of the ids whose state
  points `_update_in_memory_cache` / `update_cache` reads) as a pure function.  Import-free.

  Modelled code (signac/project.py):
      if num_chunks <= 0: raise ValueError
      if num_chunks > 1:
          len_chunk = int(N / num_chunks)
          for i in range(num_chunks - 1): yield iterable[i*len_chunk : (i+1)*len_chunk]
          yield iterable[(i+1)*len_chunk :]
      else: yield iterable
  and the caller's choice  num_chunks = max(1, min(100, int(len(to_add) / 1000))).
  `int(N / k)` is floor division for the sizes at hand (exact below 2^53); progress messages and
  timing are not modelled.
-/
namespace Signac.Chunks

/-- `xs[a:b]` for `0 ≤ a` -/
def slice {α} (xs : List α) (a b : Nat) : List α := (xs.take b).drop a

/-- the chunks yielded, in order; `none` = ValueError -/
def splitChunks {α} (xs : List α) (k : Nat) : Option (List (List α)) :=
  if k = 0 then none
  else if k = 1 then some [xs]
  else
    let len := xs.length / k
    some ((List.range (k - 1)).map (fun i => slice xs (i * len) ((i + 1) * len)) ++ [xs.drop ((k - 1) * len)])

/-- `max(1, min(100, int(n / 1000)))` -/
def numChunks (n : Nat) : Nat := max 1 (min 100 (n / 1000))

end Signac.Chunks

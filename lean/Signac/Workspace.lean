/-
  Signac.Workspace — executable model of the public job/workspace API at the level
  the properties C02–C04 speak about: per project a finite map  id ↦ (state point,
  document, files), live handles (project, state point, sharing group), and one
  `step` per public operation with the result kind the real code produces.

  Modelled code: signac/job.py (Job.init/clear/reset/remove/move, statepoint setter,
  update_statepoint, _StatePointDict._save = re-key incl. DestinationExistsError and the
  restore of the in-memory state point, __copy__/__deepcopy__/__setstate__ sharing),
  signac/project.py (open_job by state point / id / prefix, clone, _job_dirs).
  `hash` is a parameter (instantiated with `calcId` in the driver), so no proof unfolds MD5.

  Behaviour of the *dependency* that signac inherits and that is modelled as it is
  (known findings F-4b, F-3c): whole-mapping assignment goes through `_update`, which
  skips entries that compare `==` and treats `None` over a nested collection as "no
  data" (`depUpdate`); a handle sharing its state point object with a shallow copy
  cannot be unpickled (`gsize ≥ 2 ⇒ recursionError`).
  Not in this model: session / persistent state point cache (Signac.Cache, C08), file
  system steps and crashes (Signac.Lifecycle, C11), stale-handle refusals (resolved by
  the harness: a refused operation is not sent to the model).
-/
import Signac.Json
import Signac.PyVal
namespace Signac.Ws
open Signac

structure JobData where
  sp : JVal
  doc : List (String × JVal)
  files : List (String × String)
  deriving Inhabited

abbrev Jobs := List (String × JobData)

structure Handle where
  proj : Nat
  sp : JVal
  grp : Nat
  deriving Inhabited

structure World where
  p0 : Jobs
  p1 : Jobs
  foreign0 : List String
  foreign1 : List String
  handles : List (String × Handle)
  gsize : List (Nat × Nat)
  nextGrp : Nat
  deriving Inhabited

def World.empty : World := ⟨[], [], [], [], [], [], 0⟩

inductive Res where
  | ok | okId (id : String) | keyError | lookupError | destExists | runtimeError
  | valueError | typeError | recursionError | undefinedHandle
  deriving Repr, DecidableEq, Inhabited

def Res.isOk : Res → Bool
  | .ok => true
  | .okId _ => true
  | _ => false

/- ---------- association lists ---------- -/
def alookup {β : Type} (k : String) : List (String × β) → Option β
  | [] => none
  | (k', v) :: r => if k = k' then some v else alookup k r

def aerase {β : Type} (k : String) : List (String × β) → List (String × β)
  | [] => []
  | (k', v) :: r => if k = k' then aerase k r else (k', v) :: aerase k r

/-- replace in place if present, else append (Python dict assignment) -/
def aset {β : Type} (k : String) (v : β) : List (String × β) → List (String × β)
  | [] => [(k, v)]
  | (k', v') :: r => if k = k' then (k, v) :: r else (k', v') :: aset k v r

def nlookup (k : Nat) : List (Nat × Nat) → Nat
  | [] => 0
  | (k', v) :: r => if k = k' then v else nlookup k r

def nset (k : Nat) (v : Nat) : List (Nat × Nat) → List (Nat × Nat)
  | [] => [(k, v)]
  | (k', v') :: r => if k = k' then (k, v) :: r else (k', v') :: nset k v r

def World.withHandles (w : World) (hs : List (String × Handle)) : World := { w with handles := hs }
def World.jobs (w : World) (p : Nat) : Jobs := if p = 0 then w.p0 else w.p1
def World.setJobs (w : World) (p : Nat) (j : Jobs) : World :=
  if p = 0 then { w with p0 := j } else { w with p1 := j }

/- ---------- the dependency's `_update` ---------- -/
mutual
  /-- `existing._update(new)` seen as a function: `none` = ValueError (incompatible type,
      the caller then replaces the entry). -/
  def depUpdate : JVal → JVal → Option JVal
    | .obj old, .obj new => some (.obj (depUpdObj old new))
    | .arr old, .arr new => some (.arr (depUpdArr old new))
    | .obj old, .null => some (.obj old)
    | .arr old, .null => some (.arr old)
    | _, _ => none
  /-- entries of the result, in the order of `new` (order is irrelevant to every observer) -/
  def depUpdObj (old : List (String × JVal)) : List (String × JVal) → List (String × JVal)
    | [] => []
    | (k, nv) :: r =>
      (match alookup k old with
       | none => (k, nv)
       | some ov =>
         if pyEq nv ov then (k, ov)
         else match depUpdateAny ov nv with
           | some u => (k, u)
           | none => (k, nv)) :: depUpdObj old r
  def depUpdArr : List JVal → List JVal → List JVal
    | _, [] => []
    | [], n :: ns => n :: ns
    | o :: os, n :: ns =>
      (if pyEq n o then o
       else match depUpdateAny o n with
         | some u => u
         | none => n) :: depUpdArr os ns
  /-- only collections are updated in place; scalars are replaced -/
  def depUpdateAny : JVal → JVal → Option JVal
    | .obj old, n => depUpdate (.obj old) n
    | .arr old, n => depUpdate (.arr old) n
    | _, _ => none
end

/-- state point left in memory by `job.statepoint = new` when it was `old` -/
def assignSp (old new : JVal) : JVal :=
  match depUpdate old new with
  | some v => v
  | none => new

/- ---------- state point edits ---------- -/
def spEntries : JVal → List (String × JVal)
  | .obj kvs => kvs
  | _ => []

def spSet (sp : JVal) (k : String) (v : JVal) : JVal := .obj (aset k v (spEntries sp))
def spDel (sp : JVal) (k : String) : JVal := .obj (aerase k (spEntries sp))
def spHas (sp : JVal) (k : String) : Bool := (alookup k (spEntries sp)).isSome

/-- `statepoint.update(upd)` on a plain dict -/
def dictUpdate (base : List (String × JVal)) : List (String × JVal) → List (String × JVal)
  | [] => base
  | (k, v) :: r => dictUpdate (aset k v base) r

/-- `update_statepoint(upd, overwrite=False)`: a key present with a value `!=` the new one -/
def updConflict (sp : List (String × JVal)) : List (String × JVal) → Bool
  | [] => false
  | (k, v) :: r =>
    (match alookup k sp with
     | some ov => !(pyEq ov v)
     | none => false) || updConflict sp r

/- ---------- operations ---------- -/
inductive Op where
  | openSp (h : String) (p : Nat) (sp : JVal)
  | openId (h : String) (p : Nat) (pre : String) (cached : Option JVal)
  | init (h : String)
  | dset (h : String) (k : String) (v : JVal)
  | ddel (h : String) (k : String)
  | dclear (h : String)
  | dreset (h : String) (d : List (String × JVal))
  | put (h : String) (name : String) (content : String)
  | clear (h : String)
  | reset (h : String)
  | remove (h : String)
  | spset (h : String) (k : String) (v : JVal)
  | spdel (h : String) (k : String)
  | spnest (h : String) (k : String) (k2 : String) (v : JVal)
  | spassign (h : String) (sp : JVal)
  | update (h : String) (upd : List (String × JVal)) (overwrite : Bool)
  | move (h : String) (p : Nat)
  | clone (h : String) (p : Nat) (h2 : String)
  | ucache (p : Nat)
  | rmcache (p : Nat)
  | session (p : Nat)
  | copy (h : String) (h2 : String)
  | deepcopy (h : String) (h2 : String)
  | pickle (h : String) (h2 : String)
  | drop (h : String)
  | plant (p : Nat) (name : String)
  deriving Inhabited

section
variable (hash : JVal → String)

def newHandle (w : World) (name : String) (p : Nat) (sp : JVal) : World :=
  { w with handles := aset name ⟨p, sp, w.nextGrp⟩ w.handles,
           gsize := nset w.nextGrp 1 w.gsize,
           nextGrp := w.nextGrp + 1 }

/-- make sure the job of handle `hd` exists (init; also implied by document access) -/
def ensure (w : World) (hd : Handle) : World :=
  let id := hash hd.sp
  match alookup id (w.jobs hd.proj) with
  | some _ => w
  | none => w.setJobs hd.proj (w.jobs hd.proj ++ [(id, ⟨hd.sp, [], []⟩)])

/-- apply `f` to the (ensured) job of `hd` -/
def modJob (w : World) (hd : Handle) (f : JobData → JobData) : World :=
  let w := ensure hash w hd
  let id := hash hd.sp
  match alookup id (w.jobs hd.proj) with
  | some jd => w.setJobs hd.proj (aset id (f jd) (w.jobs hd.proj))
  | none => w

def followers (g : Nat) (newSp : JVal) : List (String × Handle) → List (String × Handle)
  | [] => []
  | (n, hd) :: r => (n, if hd.grp = g then { hd with sp := newSp } else hd) :: followers g newSp r

/-- `_StatePointDict._save`: move the job of `hd` to the id of `newSp`; every handle of the
    group follows.  DestinationExistsError leaves everything as it was. -/
def rekey (w : World) (hd : Handle) (newSp : JVal) : World × Res :=
  let old := hash hd.sp
  let new := hash newSp
  if old = new then (w, .ok)
  else
    let js := w.jobs hd.proj
    match alookup old js with
    | some jd =>
      if (alookup new js).isSome then (w, .destExists)
      else
        let js' := aerase old js ++ [(new, { jd with sp := newSp })]
        ((w.setJobs hd.proj js').withHandles (followers hd.grp newSp w.handles), .ok)
    | none => (w.withHandles (followers hd.grp newSp w.handles), .ok)

def prefixMatches (pre : String) (js : Jobs) : List String :=
  (js.map Prod.fst).filter (fun i => pre.toList.isPrefixOf i.toList)

def step (w : World) : Op → World × Res
  | .openSp h p sp => (newHandle w h p sp, .ok)
  | .openId h p pre cached =>
    let w0 := { w with handles := aerase h w.handles }
    let js := w.jobs p
    let ms := if pre.length < 32 then prefixMatches pre js
              else if (alookup pre js).isSome then [pre] else []
    match ms with
    | [i] => match alookup i js with
      | some jd => (newHandle w0 h p jd.sp, .okId i)
      | none => (w0, .keyError)
    | _ :: _ :: _ => (w0, .lookupError)
    | [] => match cached with
      -- documented: the session cache may still know a removed job's state point
      | some sp => if pre.toList.isPrefixOf (hash sp).toList ∧ pre.length = 32
                   then (newHandle w0 h p sp, .okId (hash sp)) else (w0, .keyError)
      | none => (w0, .keyError)
  | .init h => match alookup h w.handles with
    | some hd => (ensure hash w hd, .ok)
    | none => (w, .undefinedHandle)
  | .dset h k v => match alookup h w.handles with
    | some hd => (modJob hash w hd (fun jd => { jd with doc := aset k v jd.doc }), .ok)
    | none => (w, .undefinedHandle)
  | .ddel h k => match alookup h w.handles with
    | some hd =>
      let w1 := ensure hash w hd
      match alookup (hash hd.sp) (w1.jobs hd.proj) with
      | some jd => if (alookup k jd.doc).isSome
                   then (modJob hash w hd (fun jd => { jd with doc := aerase k jd.doc }), .ok)
                   else (w1, .keyError)
      | none => (w1, .keyError)
    | none => (w, .undefinedHandle)
  | .dclear h => match alookup h w.handles with
    | some hd => (modJob hash w hd (fun jd => { jd with doc := [] }), .ok)
    | none => (w, .undefinedHandle)
  | .dreset h d => match alookup h w.handles with
    | some hd => (modJob hash w hd (fun jd => { jd with doc := d }), .ok)
    | none => (w, .undefinedHandle)
  | .put h name content => match alookup h w.handles with
    | some hd => (modJob hash w hd (fun jd => { jd with files := aset name content jd.files }), .ok)
    | none => (w, .undefinedHandle)
  | .clear h => match alookup h w.handles with
    | some hd => match alookup (hash hd.sp) (w.jobs hd.proj) with
      | some _ => (modJob hash w hd (fun jd => { jd with doc := [], files := [] }), .ok)
      | none => (w, .ok)
    | none => (w, .undefinedHandle)
  | .reset h => match alookup h w.handles with
    | some hd => (modJob hash w hd (fun jd => { jd with doc := [], files := [] }), .ok)
    | none => (w, .undefinedHandle)
  | .remove h => match alookup h w.handles with
    | some hd => (w.setJobs hd.proj (aerase (hash hd.sp) (w.jobs hd.proj)), .ok)
    | none => (w, .undefinedHandle)
  | .spset h k v => match alookup h w.handles with
    | some hd => rekey hash w hd (spSet hd.sp k v)
    | none => (w, .undefinedHandle)
  | .spdel h k => match alookup h w.handles with
    | some hd => if spHas hd.sp k then rekey hash w hd (spDel hd.sp k) else (w, .keyError)
    | none => (w, .undefinedHandle)
  | .spnest h k k2 v => match alookup h w.handles with
    | some hd => match alookup k (spEntries hd.sp) with
      | some (.obj inner) => rekey hash w hd (spSet hd.sp k (.obj (aset k2 v inner)))
      | some _ => (w, .typeError)
      | none => (w, .keyError)
    | none => (w, .undefinedHandle)
  | .spassign h sp => match alookup h w.handles with
    | some hd => rekey hash w hd (assignSp hd.sp sp)
    | none => (w, .undefinedHandle)
  | .update h upd overwrite => match alookup h w.handles with
    | some hd =>
      if !overwrite && updConflict (spEntries hd.sp) upd then (w, .keyError)
      else rekey hash w hd (assignSp hd.sp (.obj (dictUpdate (spEntries hd.sp) upd)))
    | none => (w, .undefinedHandle)
  | .move h p => match alookup h w.handles with
    | some hd =>
      let id := hash hd.sp
      match alookup id (w.jobs hd.proj) with
      | none => (w, .runtimeError)
      | some jd =>
        let detach (w : World) : World :=
          { w with handles := aset h ⟨p, hd.sp, w.nextGrp⟩ w.handles,
                   gsize := nset w.nextGrp 1 (nset hd.grp (nlookup hd.grp w.gsize - 1) w.gsize),
                   nextGrp := w.nextGrp + 1 }
        if hd.proj = p then (detach w, .ok)
        else if (alookup id (w.jobs p)).isSome then (w, .destExists)
        else
          let w1 := w.setJobs hd.proj (aerase id (w.jobs hd.proj))
          let w2 := w1.setJobs p (w1.jobs p ++ [(id, jd)])
          (detach w2, .ok)
    | none => (w, .undefinedHandle)
  | .clone h p h2 => match alookup h w.handles with
    | some hd =>
      let w0 := { w with handles := aerase h2 w.handles }
      let id := hash hd.sp
      match alookup id (w.jobs hd.proj) with
      | none => (w0, .valueError)
      | some jd =>
        if (alookup id (w.jobs p)).isSome then (w0, .destExists)
        else (newHandle (w0.setJobs p (w0.jobs p ++ [(id, jd)])) h2 p hd.sp, .ok)
    | none => (w, .undefinedHandle)
  | .ucache _ => (w, .ok)
  | .rmcache _ => (w, .ok)
  | .session _ => (w, .ok)
  | .copy h h2 => match alookup h w.handles with
    | some hd => ({ w with handles := aset h2 hd w.handles,
                           gsize := nset hd.grp (nlookup hd.grp w.gsize + 1) w.gsize }, .ok)
    | none => (w, .undefinedHandle)
  | .deepcopy h h2 => match alookup h w.handles with
    | some hd =>
      let w1 := newHandle w h2 hd.proj hd.sp
      ({ w1 with gsize := nset w.nextGrp (nlookup hd.grp w.gsize) w1.gsize }, .ok)
    | none => (w, .undefinedHandle)
  | .pickle h h2 => match alookup h w.handles with
    | some hd =>
      if nlookup hd.grp w.gsize ≥ 2 then ({ w with handles := aerase h2 w.handles }, .recursionError)
      else (newHandle w h2 hd.proj hd.sp, .ok)
    | none => (w, .undefinedHandle)
  | .drop h => ({ w with handles := aerase h w.handles }, .ok)
  | .plant p name =>
    (if p = 0 then { w with foreign0 := name :: w.foreign0 } else { w with foreign1 := name :: w.foreign1 }, .ok)

def run (w : World) : List Op → World
  | [] => w
  | op :: ops => run (step hash w op).1 ops

/-- `Project.check()`: ids whose directory does not validate (none, by `WsInv`) -/
def check (js : Jobs) : List String :=
  (js.filter (fun e => hash e.2.sp != e.1)).map Prod.fst

end
end Signac.Ws

/-
  Signac.PyInt — Python's `int(str)` (base 10) on the `schema_version` string of a config file,
  and the version gate stated on strings.  Core Lean only (drivers link against it).

  Modelled code
    CPython  Objects/longobject.c  `PyLong_FromUnicodeObject` → `PyLong_FromString(s, &end, 10)`
             → `long_from_string_base` / `long_from_non_binary_base`                → `pyInt`
    signac/project.py              `Project._check_schema_compatibility`
                                   (`int(self.config["schema_version"])`, `>` then `<`) → `gateStr`
    signac/migration/__init__.py   `_get_config_schema_version` (`int(config["schema_version"])`)

  In the real code the value of `schema_version` is a *string* (configspec
  `schema_version = string(default='1')`), read by configobj (surrounding blanks and quotes are
  already gone) and converted with `int(value)`.  `Mig.gate : Nat → Gate` starts after that
  conversion; this file models the conversion itself, so that inputs like "2.1" are expressible.

  What CPython does for an ASCII `str` (for such a string `_PyUnicode_TransformDecimalAndSpaceToASCII`
  is the identity), in this order:
    1. skip leading `Py_ISSPACE` characters: space \t \n \r \x0b \x0c   (NOT \x1c … \x1f)
    2. one optional sign `+` or `-`
    3. (base 10: no prefix) a leading `_` is an error; scan digits and underscores, two underscores
       in a row are an error, a trailing underscore is an error, no digit at all is an error
    4. skip trailing `Py_ISSPACE` characters
    5. anything left (including an embedded NUL) is an error  → `ValueError`
  Leading zeros are fine in base 10 ("02" is 2; only base 0 rejects them).

  Outside the model, on purpose:
    * non-ASCII input.  CPython accepts every Unicode decimal digit (`int("٢") == 2`) and every
      Unicode space (`int("2\xa0") == 2`); `pyInt` returns `none` for every string that contains a
      character ≥ 128 (such a character is not a digit, sign, underscore or blank of the model).
    * `sys.int_info.default_max_str_digits` (CPython ≥ 3.11 refuses strings with more than 4300
      digits, a run-time setting that can be switched off); `pyInt` has no such limit.  The
      variant `pyIntLim` adds it, and agrees with `pyInt` on every string of at most 640 digits
      whatever the setting.
-/
import Signac.Migration
namespace Signac.PyInt
open Signac

/-- `Py_ISSPACE`: the six ASCII blanks of C's `isspace`. -/
def isWs (c : Char) : Bool :=
  c = ' ' || c = '\t' || c = '\n' || c = '\r' || c = '\x0b' || c = '\x0c'

/-- `str.rstrip` for the blanks above: drop the longest all-blank suffix. -/
def rstrip : List Char → List Char
  | [] => []
  | c :: cs =>
    match rstrip cs with
    | [] => if isWs c then [] else [c]
    | r => c :: r

/-- both ends -/
def strip (cs : List Char) : List Char := rstrip (cs.dropWhile isWs)

/-- The scan loop of `long_from_non_binary_base` after at least one digit: `acc` is the value so
    far.  A digit extends the number; an underscore must be followed by a digit; everything else
    is an error (blanks have been stripped). -/
def digits (acc : Nat) : List Char → Option Nat
  | [] => some acc
  | c :: cs =>
    if c.isDigit then digits (10 * acc + (c.toNat - 48)) cs
    else if c = '_' then
      match cs with
      | d :: ds => if d.isDigit then digits (10 * acc + (d.toNat - 48)) ds else none
      | [] => none
    else none

/-- The part after the sign: must start with a digit. -/
def unsigned : List Char → Option Nat
  | [] => none
  | c :: cs => if c.isDigit then digits (c.toNat - 48) cs else none

def pyIntChars (cs : List Char) : Option Int :=
  match strip cs with
  | '+' :: r => (unsigned r).map Int.ofNat
  | '-' :: r => (unsigned r).map (fun n => -(Int.ofNat n))
  | r => (unsigned r).map Int.ofNat

/-- Python's `int(s)` for an ASCII string `s`: `none` = `ValueError`.
    Non-ASCII digits and blanks (which CPython accepts) are outside the model: any string with a
    character ≥ 128 gives `none`. -/
def pyInt (s : String) : Option Int := pyIntChars s.toList

/-- number of digit characters — what CPython compares with the `max_str_digits` limit -/
def digitCount (s : String) : Nat := (s.toList.filter Char.isDigit).length

/-- `int(s)` under `sys.set_int_max_str_digits(lim)` (`0` = no limit, otherwise `lim ≥ 640`;
    default 4300): strings with more than 640 digits and more than `lim` digits are a ValueError
    as well.  (CPython counts the digits of the numeral it scanned; in a string that is accepted
    these are all the digits of the string, and both failures are ValueError.) -/
def pyIntLim (lim : Nat) (s : String) : Option Int :=
  if lim ≠ 0 ∧ digitCount s > 640 ∧ digitCount s > lim then none else pyInt s

/-- Outcome of `Project._check_schema_compatibility` on the configured string. -/
inductive GateS where
  | ok
  | incompatible    -- IncompatibleSchemaVersion
  | valueError      -- `int()` raised: a refusal that is not IncompatibleSchemaVersion
  deriving DecidableEq, Repr

/-- `int(self.config["schema_version"])`, then `>` (newer → refuse), then `<` (older → refuse). -/
def gateStr (s : String) : GateS :=
  match pyInt s with
  | none => .valueError
  | some v =>
    if v > (Mig.SCHEMA : Int) then .incompatible
    else if v < (Mig.SCHEMA : Int) then .incompatible
    else .ok

/-- The version a config string declares, where it is a natural number: the link to the `Nat`
    typed model (`Mig.Conf.version`, `Mig.gate`).  Negative numbers and non-numbers: `none`. -/
def declared (s : String) : Option Nat :=
  match pyInt s with
  | some (.ofNat n) => some n
  | _ => none

end Signac.PyInt

/-
  Signac.PyVal — what Python's `==`, `<`, `isinstance`, `str()` do on JSON-born values
  (None, bool, int, float, str, list/tuple, dict).  signac's indexer, schema detection,
  diff, groupby and the dependency's `_update` all lean on these.  Import-free.

  Numbers: bool ⊂ int; a float is the exact dyadic `num / 2^exp`; Python compares
  int and float *exactly*, which is what `numCmp` does.
-/
import Signac.Json
namespace Signac

/-- exact numeric value `n / 2^e` of a bool / int / float, `none` for non-numbers -/
def numVal : JVal → Option (Int × Nat)
  | .bool true => some (1, 0)
  | .bool false => some (0, 0)
  | .int i => some (i, 0)
  | .flt n e _ => some (n, e)
  | _ => none

def numEq (a b : Int × Nat) : Bool := a.1 * (2 : Int) ^ b.2 == b.1 * (2 : Int) ^ a.2
def numLt (a b : Int × Nat) : Bool := a.1 * (2 : Int) ^ b.2 < b.1 * (2 : Int) ^ a.2

def lookupKV (k : String) : List (String × JVal) → Option JVal
  | [] => none
  | (k', v) :: rest => if k = k' then some v else lookupKV k rest

mutual
  /-- Python `a == b` -/
  def pyEq : JVal → JVal → Bool
    | .null, .null => true
    | .str a, .str b => a == b
    | .arr xs, .arr ys => pyEqList xs ys
    | .obj a, .obj b => a.length == b.length && pyEqEntries a b
    | .bool a, w => match numVal w with
      | some q => numEq (if a then (1, 0) else (0, 0)) q
      | none => false
    | .int a, w => match numVal w with
      | some q => numEq (a, 0) q
      | none => false
    | .flt n e _, w => match numVal w with
      | some q => numEq (n, e) q
      | none => false
    | _, _ => false
  def pyEqList : List JVal → List JVal → Bool
    | [], [] => true
    | x :: xs, y :: ys => pyEq x y && pyEqList xs ys
    | _, _ => false
  def pyEqEntries : List (String × JVal) → List (String × JVal) → Bool
    | [], _ => true
    | (k, v) :: rest, b =>
      (match lookupKV k b with
       | some w => pyEq v w
       | none => false) && pyEqEntries rest b
end

/-- result of an order comparison: Python raises TypeError for unorderable operands -/
inductive Cmp where
  | lt | eq | gt | typeError
  deriving Repr, DecidableEq, Inhabited

def cmpStr (a b : String) : Cmp := if a < b then .lt else if a = b then .eq else .gt

mutual
  /-- three-way comparison as Python's rich comparisons see it (`<`, `<=`, `>`, `>=`) -/
  def pyCmp : JVal → JVal → Cmp
    | .str a, .str b => cmpStr a b
    | .arr xs, .arr ys => pyCmpList xs ys
    | .bool a, w => match numVal w with
      | some q =>
        let p : Int × Nat := if a then (1, 0) else (0, 0)
        if numLt p q then .lt else if numEq p q then .eq else .gt
      | none => .typeError
    | .int a, w => match numVal w with
      | some q => if numLt (a, 0) q then .lt else if numEq (a, 0) q then .eq else .gt
      | none => .typeError
    | .flt n e _, w => match numVal w with
      | some q => if numLt (n, e) q then .lt else if numEq (n, e) q then .eq else .gt
      | none => .typeError
    | _, _ => .typeError
  /-- tuple comparison: first position where the elements are not `==` decides -/
  def pyCmpList : List JVal → List JVal → Cmp
    | [], [] => .eq
    | [], _ :: _ => .lt
    | _ :: _, [] => .gt
    | x :: xs, y :: ys => if pyEq x y then pyCmpList xs ys else pyCmp x y
end

/-- Python type name of a JSON-born value as the indexer sees it (lists are tuples there) -/
def pyTypeName : JVal → String
  | .null => "NoneType"
  | .bool _ => "bool"
  | .int _ => "int"
  | .flt _ _ _ => "float"
  | .str _ => "str"
  | .arr _ => "tuple"
  | .obj _ => "dict"

/-- `isinstance(v, T)` for T given by Python type name (bool is also an int) -/
def pyIsInstance (v : JVal) (t : String) : Bool :=
  pyTypeName v == t || (t == "int" && pyTypeName v == "bool")

mutual
  /-- `str(v)` for scalars and tuples/lists thereof (floats via repr) -/
  def pyStr : JVal → String
    | .null => "None"
    | .bool true => "True"
    | .bool false => "False"
    | .int i => toString i
    | .flt _ _ r => r
    | .str s => s
    | .arr xs => "[" ++ pyReprList xs ++ "]"
    | .obj _ => "{...}"
  def pyRepr : JVal → String
    | .str s => "'" ++ s ++ "'"
    | .null => "None"
    | .bool true => "True"
    | .bool false => "False"
    | .int i => toString i
    | .flt _ _ r => r
    | .arr xs => "[" ++ pyReprList xs ++ "]"
    | .obj _ => "{...}"
  def pyReprList : List JVal → String
    | [] => ""
    | [x] => pyRepr x
    | x :: y :: rest => pyRepr x ++ ", " ++ pyReprList (y :: rest)
end

end Signac

/-
  Signac.Doc — job / project documents as the code that exists implements them
  (signac `Job.document`, `Project.document`, `signac.buffered`; dependency
  `synced_collections`: SyncedDict / SyncedList / JSONCollection /
  SerializedFileBufferedCollection).  Import-free apart from Json / PyVal, executable.

  What is modelled
  * a document FILE is a cell `Option JVal` (`none` = no file);
  * a HANDLE OBJECT (one `BufferedJSONAttrDict`) owns a private in-memory value `data`
    (`_data`).  Every access first LOADS: `_update(file content)` — an in-place merge that
    keeps the old in-memory value wherever it compares `==` (Python equality `pyEq`) to the
    loaded one and keeps the positions of surviving keys; an absent file leaves `data`
    untouched.  Every mutation then SAVES `data` to the cell.  `clear` and `reset` do not load.
  * `update` / `reset` go through the same merge (`_update`), `__setitem__` does not;
  * buffered mode (`with signac.buffered(cap):`, nestable): a shared per-file buffer entry
    (`contents`, `base` = what the md5 of the text at entry creation stands for), the
    first-touch order of handle objects, LIFO flush deciding from the flushing object's own
    `data`, capacity-forced flush after a load/save, flush on leaving the outermost block.
  Modelling assumptions: the md5 comparison of JSON texts at flush is value identity including
  key order and number types (`jsame`); one process, one thread.
-/
import Signac.Json
import Signac.PyVal
namespace Signac.Doc
open Signac

abbrev Entries := List (String × JVal)

/-! ### exact identity (what the text hash comparison at flush amounts to) -/
mutual
  def jsame : JVal → JVal → Bool
    | .null, .null => true
    | .bool a, .bool b => a == b
    | .int a, .int b => a == b
    | .flt n e r, .flt n' e' r' => n == n' && e == e' && r == r'
    | .str a, .str b => a == b
    | .arr xs, .arr ys => jsameList xs ys
    | .obj a, .obj b => jsameObj a b
    | _, _ => false
  def jsameList : List JVal → List JVal → Bool
    | [], [] => true
    | x :: xs, y :: ys => jsame x y && jsameList xs ys
    | _, _ => false
  def jsameObj : Entries → Entries → Bool
    | [], [] => true
    | (k, v) :: r, (k', v') :: r' => k == k' && jsame v v' && jsameObj r r'
    | _, _ => false
end

/-! ### plain dict primitives on insertion-ordered association lists -/
def hasKey (k : String) (l : Entries) : Bool := (lookupKV k l).isSome

/-- `d[k] = v`: replace in place or append. -/
def setKV (k : String) (v : JVal) : Entries → Entries
  | [] => [(k, v)]
  | (k', v') :: r => if k = k' then (k, v) :: r else (k', v') :: setKV k v r

/-- `del d[k]` (all occurrences; Python dicts have one). -/
def eraseKV (k : String) : Entries → Entries
  | [] => []
  | (k', v') :: r => if k = k' then eraseKV k r else (k', v') :: eraseKV k r

/-- `{**d, **other}` -/
def overlay (d other : Entries) : Entries := other.foldl (fun acc kv => setKV kv.1 kv.2 acc) d

/-! ### `_update`: the in-place merge performed by every load, by `reset` and by `update` -/
mutual
  /-- `old._update(new)` for a slot whose old and new values are not `==`. -/
  def mergeVal : JVal → JVal → JVal
    | .obj o, .obj n => .obj (mergeKeep o n ++ n.filter (fun kv => !hasKey kv.1 o))
    | .arr o, .arr n => .arr (mergeArr o n)
    | .obj o, .null => .obj o      -- `SyncedDict._update(None)` "takes no action": the old value stays
    | .arr o, .null => .arr o      -- (finding F-5d; the model mirrors the code that exists)
    | _, new => new
  /-- surviving keys keep their position; equal (`==`) values keep the old object -/
  def mergeKeep : Entries → Entries → Entries
    | [], _ => []
    | (k, ov) :: rest, n =>
      match lookupKV k n with
      | some nv => (k, if pyEq nv ov then ov else mergeVal ov nv) :: mergeKeep rest n
      | none => mergeKeep rest n
  def mergeArr : List JVal → List JVal → List JVal
    | [], n => n
    | _ :: _, [] => []
    | ov :: orest, nv :: nrest =>
      (if pyEq nv ov then ov else mergeVal ov nv) :: mergeArr orest nrest
end

mutual
  /-- the merge meets `None` where the in-memory value is a dict / list (the slot is then NOT
      overwritten — finding F-5d).  Ghost predicate: it does not influence the run. -/
  def nullHit : JVal → JVal → Bool
    | .obj _, .null => true
    | .arr _, .null => true
    | .obj o, .obj n => nullHitKeep o n
    | .arr o, .arr n => nullHitArr o n
    | _, _ => false
  def nullHitKeep : Entries → Entries → Bool
    | [], _ => false
    | (k, ov) :: rest, n =>
      (match lookupKV k n with
       | some nv => !pyEq nv ov && nullHit ov nv
       | none => false) || nullHitKeep rest n
  def nullHitArr : List JVal → List JVal → Bool
    | [], _ => false
    | _ :: _, [] => false
    | ov :: orest, nv :: nrest => (!pyEq nv ov && nullHit ov nv) || nullHitArr orest nrest
end

/-! ### operations -/
inductive Err where
  | keyError | indexError | typeError | attributeError | keyTypeError
  deriving DecidableEq, Repr, Inhabited

inductive Seg where
  | key (k : String)
  | idx (i : Int)
  deriving Repr, Inhabited

inductive Out where
  | none
  | val (v : JVal)
  | err (e : Err)
  deriving Repr, Inhabited

inductive DictOp where
  | nset (p : List Seg) (k : String) (v : JVal)      -- d[p…][k] = v      (p = [] : d[k] = v)
  | ndel (p : List Seg) (k : String)                 -- del d[p…][k]
  | napp (p : List Seg) (v : JVal)                   -- d[p…].append(v)
  | next (p : List Seg) (vs : List JVal)             -- d[p…].extend(vs)
  | nidx (p : List Seg) (i : Int) (v : JVal)         -- d[p…][i] = v
  | pop (k : String) (dflt : JVal)                   -- d.pop(k, dflt)
  | setdefault (k : String) (v : JVal)
  | update (other : Entries)
  | clear
  | reset (new : Entries)
  | get (k : String)                                 -- d.get(k)
  | read                                             -- d()
  deriving Repr, Inhabited

/-- result of an operation on an in-memory value: output, new value, whether a save follows -/
structure Res where
  out : Out
  val : JVal
  saved : Bool
  deriving Repr, Inhabited

def normIdx (i : Int) (n : Nat) : Option Nat :=
  if 0 ≤ i then (if i.toNat < n then some i.toNat else none)
  else (if (-i).toNat ≤ n then some (n - (-i).toNat) else none)

/-- one `__getitem__` step of a path -/
def stepInto (v : JVal) : Seg → Except Err JVal
  | .key k =>
    match v with
    | .obj o => match lookupKV k o with
      | some c => .ok c
      | none => .error .keyError
    | _ => .error .typeError
  | .idx i =>
    match v with
    | .arr xs => match normIdx i xs.length with
      | some j => match xs[j]? with
        | some c => .ok c
        | none => .error .indexError
      | none => .error .indexError
    | .obj _ => .error .keyError
    | .str s => match normIdx i s.length with      -- a str can be indexed: one character
      | some j => match s.toList[j]? with
        | some c => .ok (.str (String.singleton c))
        | none => .error .indexError
      | none => .error .indexError
    | _ => .error .typeError

/-- write a (modified) child back where it was found -/
def putBack (v : JVal) (s : Seg) (c : JVal) : JVal :=
  match s, v with
  | .key k, .obj o => .obj (setKV k c o)
  | .idx i, .arr xs => match normIdx i xs.length with
    | some j => .arr (xs.set j c)
    | none => v
  | _, _ => v

/-- apply `f` to the container reached by the path; a failing path step raises before any save -/
def modAt (f : JVal → Res) : List Seg → JVal → Res
  | [], v => f v
  | s :: rest, v =>
    match stepInto v s with
    | .error e => ⟨.err e, v, false⟩
    | .ok c =>
      let r := modAt f rest c
      ⟨r.out, putBack v s r.val, r.saved⟩

def leafSet (k : String) (x : JVal) : JVal → Res
  | .obj o => ⟨.none, .obj (setKV k x o), true⟩
  | .arr xs => ⟨.err .typeError, .arr xs, true⟩
  | v => ⟨.err .typeError, v, false⟩

def leafDel (k : String) : JVal → Res
  | .obj o => if hasKey k o then ⟨.none, .obj (eraseKV k o), true⟩ else ⟨.err .keyError, .obj o, true⟩
  | .arr xs => ⟨.err .typeError, .arr xs, true⟩
  | v => ⟨.err .typeError, v, false⟩

def leafExtend (vs : List JVal) : JVal → Res
  | .arr xs => ⟨.none, .arr (xs ++ vs), true⟩
  | v => ⟨.err .attributeError, v, false⟩

def leafIdx (i : Int) (x : JVal) : JVal → Res
  | .arr xs => match normIdx i xs.length with
    | some j => ⟨.none, .arr (xs.set j x), true⟩
    | none => ⟨.err .indexError, .arr xs, true⟩
  | .obj o => ⟨.err .keyTypeError, .obj o, false⟩
  | v => ⟨.err .typeError, v, false⟩

def entriesOf : JVal → Entries
  | .obj o => o
  | _ => []

/-- PLAIN `dict` semantics of an operation on the value `d` (the specification side). -/
def plainOp (op : DictOp) (d : JVal) : Res :=
  match op with
  | .nset p k x => modAt (leafSet k x) p d
  | .ndel p k => modAt (leafDel k) p d
  | .napp p x => modAt (leafExtend [x]) p d
  | .next p vs => modAt (leafExtend vs) p d
  | .nidx p i x => modAt (leafIdx i x) p d
  | .pop k dflt =>
    match lookupKV k (entriesOf d) with
    | some v => ⟨.val v, .obj (eraseKV k (entriesOf d)), true⟩
    | none => ⟨.val dflt, d, true⟩
  | .setdefault k x =>
    match lookupKV k (entriesOf d) with
    | some v => ⟨.val v, d, true⟩
    | none => ⟨.val x, .obj (setKV k x (entriesOf d)), true⟩
  | .update other => ⟨.none, .obj (overlay (entriesOf d) other), true⟩
  | .clear => ⟨.none, .obj [], true⟩
  | .reset new => ⟨.none, .obj new, true⟩
  | .get k => ⟨.val ((lookupKV k (entriesOf d)).getD .null), d, false⟩
  | .read => ⟨.val d, d, false⟩

/-- What the synced dict does with its (already loaded) in-memory value: plain semantics,
    except that `update` and `reset` assign through `_update` (the `==`-skipping merge). -/
def memOp (op : DictOp) (d : JVal) : Res :=
  match op with
  | .update other => ⟨.none, mergeVal d (.obj (overlay (entriesOf d) other)), true⟩
  | .reset new => ⟨.none, mergeVal d (.obj new), true⟩
  | op => plainOp op d

/-- ghost: does the operation's own `_update` meet `None` over a dict / list? -/
def opHit (op : DictOp) (d : JVal) : Bool :=
  match op with
  | .update other => nullHit d (.obj (overlay (entriesOf d) other))
  | .reset new => nullHit d (.obj new)
  | _ => false

/-- `clear` and `reset` do not load before they act. -/
def DictOp.loads : DictOp → Bool
  | .clear => false
  | .reset _ => false
  | _ => true

/-! ### the world: files, handle objects, the buffer -/
structure Entry where
  contents : JVal
  base : Option JVal          -- `none`: the hash of "null" (destructive first touch, no file)
  deriving Repr, Inhabited

def upd {α : Type} (f : Nat → α) (i : Nat) (v : α) : Nat → α := fun j => if j = i then v else f j

def defaultCapacity : Nat := 33554432

structure World where
  files : Nat → Option JVal     -- document file per file id
  data : Nat → JVal             -- `_data` per handle object id
  fileOf : Nat → Nat            -- which file a handle object points at (never changes)
  buf : Nat → Option Entry      -- shared buffer, per file id
  order : List Nat              -- `_buffered_collections`: handle objects in first-touch order
  depth : Nat                   -- nesting depth of `signac.buffered()`
  cap : Nat
  capStack : List (Option Nat)
  nf : Nat                      -- file ids are `0 … nf-1` (only used to sum the buffer size)
  hit : Bool                    -- ghost: some merge so far met `None` over a dict / list (F-5d)

def World.init (nf : Nat) (fileOf : Nat → Nat) (files : Nat → Option JVal) : World :=
  { files := files, data := fun _ => .obj [], fileOf := fileOf, buf := fun _ => none,
    order := [], depth := 0, cap := defaultCapacity, capStack := [], nf := nf, hit := false }

def entrySize : Option Entry → Nat
  | none => 0
  | some e => (encChars e.contents).length

/-- `_CURRENT_BUFFER_SIZE`: bytes of JSON text held in the buffer -/
def bufSize (w : World) : Nat := (List.range w.nf).foldl (fun acc f => acc + entrySize (w.buf f)) 0

def loadedFrom (d : JVal) : Option JVal → JVal
  | none => d
  | some v => mergeVal d v

def loadHit (d : JVal) : Option JVal → Bool
  | none => false
  | some v => nullHit d v

/-- unbuffered `_load` -/
def loadU (w : World) (o : Nat) : World :=
  { w with data := upd w.data o (loadedFrom (w.data o) (w.files (w.fileOf o))),
           hit := w.hit || loadHit (w.data o) (w.files (w.fileOf o)) }

/-- unbuffered `_save` -/
def saveU (w : World) (o : Nat) : World :=
  { w with files := upd w.files (w.fileOf o) (some (w.data o)) }

def touch (w : World) (o : Nat) : World :=
  if w.order.contains o then w else { w with order := w.order ++ [o] }

def changed (d : JVal) : Option JVal → Bool
  | none => true
  | some b => !jsame d b

/-- `SerializedFileBufferedCollection._flush` of one handle object -/
def flushObj (w : World) (o : Nat) : World :=
  match w.buf (w.fileOf o) with
  | none => w
  | some e =>
    if changed (w.data o) e.base then
      let d := mergeVal (w.data o) e.contents
      { w with data := upd w.data o d, files := upd w.files (w.fileOf o) (some d),
               buf := upd w.buf (w.fileOf o) none, hit := w.hit || nullHit (w.data o) e.contents }
    else { w with buf := upd w.buf (w.fileOf o) none }

def flushList : List Nat → World → World
  | [], w => w
  | o :: os, w => flushList os (flushObj w o)

/-- `_flush_buffer`: objects are popped last-touched first -/
def flushAll (w : World) : World :=
  let w' := flushList w.order.reverse w
  { w' with order := [] }

def maybeFlush (w : World) : World := if w.cap < bufSize w then flushAll w else w

/-- first access to a file inside a block: load it and create the buffer entry -/
def bufInit (w : World) (o : Nat) : World :=
  match w.buf (w.fileOf o) with
  | some _ => w
  | none =>
    let w' := loadU w o
    { w' with buf := upd w'.buf (w.fileOf o) (some ⟨w'.data o, some (w'.data o)⟩) }

/-- `_update(decoded buffer contents)` -/
def mergeBlob (w : World) (o : Nat) (blob : JVal) : World :=
  { w with data := upd w.data o (mergeVal (w.data o) blob), hit := w.hit || nullHit (w.data o) blob }

def loadB (w : World) (o : Nat) : World :=
  let w2 := touch (bufInit w o) o
  match w2.buf (w.fileOf o) with
  | none => w2
  | some e => mergeBlob (maybeFlush w2) o e.contents

/-- write the in-memory value into the buffer entry (creating it for `clear` / `reset` first) -/
def bufStore (w : World) (o : Nat) : World :=
  match w.buf (w.fileOf o) with
  | some e => { w with buf := upd w.buf (w.fileOf o) (some ⟨w.data o, e.base⟩) }
  | none => { w with buf := upd w.buf (w.fileOf o) (some ⟨w.data o, w.files (w.fileOf o)⟩) }

def saveB (w : World) (o : Nat) : World := maybeFlush (bufStore (touch w o) o)

def load (w : World) (o : Nat) : World := if w.depth = 0 then loadU w o else loadB w o
def save (w : World) (o : Nat) : World := if w.depth = 0 then saveU w o else saveB w o

def setData (w : World) (o : Nat) (d : JVal) (h : Bool := false) : World :=
  { w with data := upd w.data o d, hit := w.hit || h }

/-- one document operation through handle object `o` -/
def execOp (w : World) (o : Nat) (op : DictOp) : World × Out :=
  if op.loads then
    let w1 := load w o
    let r := memOp op (w1.data o)
    let w2 := setData w1 o r.val (opHit op (w1.data o))
    (if r.saved then save w2 o else w2, r.out)
  else
    let r := memOp op (w.data o)
    (save (setData w o r.val (opHit op (w.data o))) o, r.out)

inductive Cmd where
  | op (o : Nat) (d : DictOp)
  | enter (cap : Option Nat)       -- `with signac.buffered(buffer_capacity=cap):`
  | exit
  | file (f : Nat)                 -- observe the document file
  | rm (f : Nat)                   -- `job.remove()`: the file goes, handles start afresh
  | hit                            -- observe the ghost flag
  | reopen (f : Nat)               -- the job was re-keyed (`update_statepoint`): the document file moves
                                   -- with the job, every handle object of it is a new one
  deriving Repr, Inhabited

def setCap (w : World) (c : Nat) : World :=
  let w' := { w with cap := c }
  if c < bufSize w' then flushAll w' else w'

/-- leaving a block: the counter goes down; the outermost exit flushes everything -/
def exitFlush (w : World) : World :=
  let w1 := { w with depth := w.depth - 1 }
  if w1.depth = 0 then flushAll w1 else w1

/-- restore the capacity saved when the block was entered -/
def popCap (w : World) : World :=
  match w.capStack with
  | [] => w
  | none :: st => { w with capStack := st }
  | some c :: st => setCap { w with capStack := st } c

def execCmd (w : World) : Cmd → World × Out
  | .op o d => execOp w o d
  | .enter none => ({ w with depth := w.depth + 1, capStack := none :: w.capStack }, .none)
  | .enter (some c) =>
    (setCap { w with depth := w.depth + 1, capStack := some w.cap :: w.capStack } c, .none)
  | .exit => if w.depth = 0 then (w, .none) else (popCap (exitFlush w), .none)
  | .file f => (w, match w.files f with
      | none => .none
      | some v => .val v)
  | .hit => (w, .val (.bool w.hit))
  | .reopen f => ({ w with data := fun o => if w.fileOf o = f then .obj [] else w.data o }, .none)
  | .rm f =>
    ({ w with files := upd w.files f none,
              data := fun o => if w.fileOf o = f then .obj [] else w.data o }, .none)

def run : List Cmd → World → World × List Out
  | [], w => (w, [])
  | c :: cs, w =>
    let (w1, o) := execCmd w c
    let (w2, os) := run cs w1
    (w2, o :: os)

/-- the unbuffered counterpart of a program: same operations, no blocks -/
def stripBlocks : List Cmd → List Cmd
  | [] => []
  | .enter _ :: cs => stripBlocks cs
  | .exit :: cs => stripBlocks cs
  | c :: cs => c :: stripBlocks cs

end Signac.Doc

/-
  Signac.Sync — model of `signac/sync.py` (`sync_jobs`, `sync_projects`, `Project.sync`,
  `Job.sync`, `Project.clone` as used by the sync) together with the parts of the standard
  library it leans on (`filecmp.dircmp` / `filecmp.cmp`, `shutil.copy` / `copytree`).
  Import-free apart from the shared value models, so that `drv_sync` links.

  One world holds both projects: `World.src` and `World.dst` are the two project root
  directories (`workspace/<job id>/…`, the project document file).  A directory is an
  association list name → node, a regular file carries a byte-content id, its size, its
  mtime and — for document files — the JSON value the bytes parse to.

  Every mutation the sync performs goes through `pPut` / `pDel` (the `_FileModifyProxy` /
  `_DocProxy` of the code): they are switched off by `dry_run` and they append the step to
  a log, so that `applyAll dst log = result` (theorem `Sync.run_refines`) and a dry run has
  an empty log.

  Modelled behaviour = the code with the proposed fixes F-13, F-14a, F-15a … F-15f applied
  (see proposed/*.md); where the unchanged tree differs the harness carves the case out.
-/
import Signac.Json
import Signac.PyVal
import Signac.Extracted
namespace Signac.Sync
open Signac

abbrev Name := String
abbrev Path := List Name

/-- a regular file: content id (equal ids ⇔ equal bytes), size, mtime (ordered like the real
    `st_mtime`), and for a document file the JSON object it holds -/
structure FMeta where
  cid : Nat
  size : Nat
  mtime : Nat
  js : Option JVal
  deriving Inhabited

inductive Node where
  | file (m : FMeta)
  | dir (es : List (Name × Node))
  deriving Inhabited

abbrev Entries := List (Name × Node)

/-! ### directories as association lists -/

def getE (n : Name) : Entries → Option Node
  | [] => none
  | (k, v) :: tl => if k = n then some v else getE n tl

/-- create or replace the entry `n` (position kept on replacement, appended otherwise) -/
def setE (n : Name) (c : Node) : Entries → Entries
  | [] => [(n, c)]
  | (k, v) :: tl => if k = n then (n, c) :: tl else (k, v) :: setE n c tl

def delE (n : Name) : Entries → Entries
  | [] => []
  | (k, v) :: tl => if k = n then delE n tl else (k, v) :: delE n tl

/-- the node at the non-empty relative path `n :: p` below a directory with entries `es` -/
def lookupP : Name → Path → Entries → Option Node
  | n, [], es => getE n es
  | n, m :: p, es =>
    match getE n es with
    | some (.dir ch) => lookupP m p ch
    | _ => none

/-! ### mutating steps -/

/-- a mutating step; its target is the non-empty relative path `n :: p` -/
inductive Step where
  | put (n : Name) (p : Path) (c : Node)
  | del (n : Name) (p : Path)
  deriving Inhabited

def Step.path : Step → Path
  | .put n p _ => n :: p
  | .del n p => n :: p

/-- the same step seen from the parent directory `n'` -/
def Step.under (n' : Name) : Step → Step
  | .put n p c => .put n' (n :: p) c
  | .del n p => .del n' (n :: p)

/-- create / replace the node at `n :: p` (all directories on the way must exist) -/
def putP : Name → Path → Node → Entries → Entries
  | n, [], c, es => setE n c es
  | n, m :: p, c, es =>
    match getE n es with
    | some (.dir ch) => setE n (.dir (putP m p c ch)) es
    | _ => es

def delP : Name → Path → Entries → Entries
  | n, [], es => delE n es
  | n, m :: p, es =>
    match getE n es with
    | some (.dir ch) => setE n (.dir (delP m p ch)) es
    | _ => es

def Step.apply (es : Entries) : Step → Entries
  | .put n p c => putP n p c es
  | .del n p => delP n p es

def applyAll (es : Entries) (ss : List Step) : Entries := ss.foldl Step.apply es

/-! ### options -/

inductive Strategy where
  | none
  | always
  | never
  | update
  | custom (sel : String → Bool)   -- decided on the job-relative path "sub/dir/name"

inductive DocSync where
  | byKey (ks : Option (String → Bool))   -- `DocSync.ByKey(key_strategy)`; `none` = default
  | update
  | noSync
  | copy

def DocSync.isCopy : DocSync → Bool
  | .copy => true
  | _ => false

inductive Err where
  | fileConflict (fn : Name)
  | docConflict (keys : List String)
  | schemaConflict
  | typeError
  | backupExists
  deriving Inhabited

structure Opts where
  strategy : Strategy
  docSync : DocSync
  recursive : Bool
  /-- `re.match(p, name)` for some user supplied exclude pattern `p` (table from the harness) -/
  userExcl : Name → Bool
  /-- `re.match(FN_STATE_POINT, name)` -/
  spPat : Name → Bool
  /-- `re.match(FN_DOCUMENT, name)` -/
  docPat : Name → Bool
  selection : Option (List String)
  checkSchema : Bool
  /-- environment: the two detected schemas are both non-empty and differ -/
  gate : Bool
  dry : Bool
  deep : Bool
  /-- mtime given to every file written during this run -/
  now : Nat

/-- exclusion as `sync_jobs` sets it up: user patterns + state point file + (unless COPY) document -/
def excluded (o : Opts) (n : Name) : Bool :=
  o.userExcl n || o.spPat n || (!o.docSync.isCopy && o.docPat n)

/-- names a clone leaves out at the top of the job directory (fix F-15e): user patterns, but
    never the state point file and never the job document (documents are not governed by
    `exclude`); below the top level every name matching a user pattern is left out -/
def cloneIgnored (o : Opts) (n : Name) : Bool :=
  o.userExcl n && n != Extracted.FN_STATE_POINT && n != Extracted.FN_JOB_DOCUMENT

/-! ### filecmp -/

def sameSig (a b : FMeta) : Bool := a.size == b.size && a.mtime == b.mtime

/-- `not filecmp.cmp(a, b, shallow = not deep)` for two regular files -/
def differs (deep : Bool) (a b : FMeta) : Bool :=
  if !deep && sameSig a b then false
  else if a.size != b.size then true
  else a.cid != b.cid

/-! ### shutil.copy / copytree -/

def touch (now : Nat) (m : FMeta) : FMeta := { m with mtime := now }

mutual
  /-- `shutil.copytree(..., ignore=…)` of one node: same bytes, fresh mtimes, ignored names pruned -/
  def copyNode (now : Nat) (ign : Name → Bool) : Node → Node
    | .file m => .file (touch now m)
    | .dir es => .dir (copyEntries now ign es)
  def copyEntries (now : Nat) (ign : Name → Bool) : List (Name × Node) → List (Name × Node)
    | [] => []
    | (n, c) :: tl =>
      if ign n then copyEntries now ign tl
      else (n, copyNode now ign c) :: copyEntries now ign tl
end

/-- `copytree` with an `ignore` that treats the top directory differently -/
def copyTop (now : Nat) (ignTop ign : Name → Bool) : List (Name × Node) → List (Name × Node)
  | [] => []
  | (n, c) :: tl =>
    if ignTop n then copyTop now ignTop ign tl
    else (n, copyNode now ign c) :: copyTop now ignTop ign tl

/-! ### the proxy: every mutation passes here -/

/-- state of a directory being synchronised, with the log of mutating steps so far -/
structure Acc where
  d : Entries
  log : List Step

def pPut (dry : Bool) (n : Name) (c : Node) (a : Acc) : Acc :=
  if dry then a else ⟨setE n c a.d, a.log ++ [.put n [] c]⟩

def pDel (dry : Bool) (n : Name) (a : Acc) : Acc :=
  if dry then a else ⟨delE n a.d, a.log ++ [.del n []]⟩

structure Res where
  d : Entries
  log : List Step
  err : Option Err

/-! ### `_sync_job_workspaces` -/

def joinPath (p : Path) : String := "/".intercalate p

/-- what a left-only entry becomes in the destination (`none`: skipped) -/
def leftOnlyNode (o : Opts) (n : Name) (sn : Node) : Option Node :=
  if excluded o n then none
  else match sn with
    | .file m => some (.file (touch o.now m))
    | .dir es => if o.recursive then some (.dir (copyEntries o.now (excluded o) es)) else none

/-- first loop: `for fn in diff.left_only` (names in `dircmp`'s sorted order = order of `ses`) -/
def phase1 (o : Opts) (dst0 : Entries) : Entries → Acc → Acc
  | [], a => a
  | (n, sn) :: tl, a =>
    match getE n dst0 with
    | some _ => phase1 o dst0 tl a
    | none =>
      match leftOnlyNode o n sn with
      | some c => phase1 o dst0 tl (pPut o.dry n c a)
      | none => phase1 o dst0 tl a

/-- the verdict of the file strategy on a conflicting file; `none` = no strategy given -/
def verdict (o : Opts) (path : Path) (ms md : FMeta) : Option Bool :=
  match o.strategy with
  | .none => none
  | .always => some true
  | .never => some false
  | .update => some (decide (md.mtime < ms.mtime))
  | .custom sel => some (sel (joinPath path))

/-- second loop: `for fn in diff.diff_files` -/
def phase2 (o : Opts) (sub : Path) (dst0 : Entries) : Entries → Acc → Acc × Option Err
  | [], a => (a, none)
  | (n, sn) :: tl, a =>
    match sn, getE n dst0 with
    | .file ms, some (.file md) =>
      if differs o.deep ms md && !excluded o n then
        match verdict o (sub ++ [n]) ms md with
        | none => (a, some (.fileConflict n))
        | some true => phase2 o sub dst0 tl (pPut o.dry n (.file (touch o.now ms)) a)
        | some false => phase2 o sub dst0 tl a
      else phase2 o sub dst0 tl a
    | _, _ => phase2 o sub dst0 tl a

mutual
  /-- `_sync_job_workspaces(src, dst, …, subdir = sub)` on the two directory listings -/
  def walkDir (o : Opts) (sub : Path) : Node → Entries → Res
    | .file _, des => ⟨des, [], none⟩
    | .dir ses, des =>
      let a1 := phase1 o des ses ⟨des, []⟩
      let r2 := phase2 o sub des ses a1
      match r2.2 with
      | some e => ⟨r2.1.d, r2.1.log, some e⟩
      | none =>
        if o.recursive then walkSubs o sub des ses r2.1
        else ⟨r2.1.d, r2.1.log, none⟩
  /-- third loop: `for _subdir in diff.subdirs` -/
  def walkSubs (o : Opts) (sub : Path) (dst0 : Entries) : List (Name × Node) → Acc → Res
    | [], a => ⟨a.d, a.log, none⟩
    | (n, sn) :: tl, a =>
      match sn, getE n dst0, getE n a.d with
      | .dir _, some (.dir _), some (.dir dch) =>
        let r := walkDir o (sub ++ [n]) sn dch
        let a' : Acc := ⟨setE n (.dir r.d) a.d, a.log ++ r.log.map (Step.under n)⟩
        match r.err with
        | some e => ⟨a'.d, a'.log, some e⟩
        | none => walkSubs o sub dst0 tl a'
      | _, _, _ => walkSubs o sub dst0 tl a
end

/-! ### documents -/

abbrev Doc := List (String × JVal)

def setKV (k : String) (v : JVal) : Doc → Doc
  | [] => [(k, v)]
  | (k', v') :: tl => if k' = k then (k, v) :: tl else (k', v') :: setKV k v tl

/-- running state of `DocSync.ByKey.__call__` -/
structure ByKeySt where
  dst : Doc
  skipped : List String
  wrote : Bool
  typeErr : Bool

mutual
  /-- `ByKey.__call__(src, dst, root)` after its `src == dst` shortcut; walks `src.items()` -/
  def byKeyItems (ks : Option (String → Bool)) (root : String) : List (String × JVal) → ByKeySt → ByKeySt
    | [], st => st
    | (k, v) :: tl, st =>
      if st.typeErr then st
      else match lookupKV k st.dst with
        | none => byKeyItems ks root tl { st with dst := setKV k v st.dst, wrote := true }
        | some w =>
          if pyEq w v then byKeyItems ks root tl st
          else byKeyItems ks root tl (byKeyValue ks root k v w st)
  /-- key `k` is on both sides with values `v` (source) and `w` (destination) that are not `==` -/
  def byKeyValue (ks : Option (String → Bool)) (root : String) (k : String) : JVal → JVal → ByKeySt → ByKeySt
    | .obj sv, w, st =>
      match w with
      | .obj dw =>
        let r := byKeyItems ks (root ++ k ++ ".") sv { st with dst := dw }
        { r with dst := setKV k (.obj r.dst) st.dst }
      | _ =>
        match sv with
        | [] => st                                   -- nothing to iterate over: silently nothing
        | _ :: _ => { st with typeErr := true }      -- `key in 5`, `"s"[key]`, `[..][key] = …`
    | v, _, st =>
      match ks with
      | none => { st with skipped := st.skipped ++ [root ++ k] }
      | some f =>
        if f (root ++ k) then { st with dst := setKV k v st.dst, wrote := true }
        else { st with skipped := st.skipped ++ [root ++ k] }
end

def updateItems : List (String × JVal) → Doc → Doc
  | [], d => d
  | (k, v) :: tl, d => updateItems tl (setKV k v d)

/-- outcome of running the document strategy on (source document, destination document) -/
structure DocRes where
  doc : Doc
  wrote : Bool
  err : Option Err

def runDocSync (ds : DocSync) (s d : Doc) : DocRes :=
  match ds with
  | .byKey ks =>
    let r := byKeyItems ks "" s ⟨d, [], false, false⟩
    if r.typeErr then ⟨d, false, some .typeError⟩
    else match ks, r.skipped with
      | none, k :: rest => ⟨r.dst, r.wrote, some (.docConflict (k :: rest))⟩
      | _, _ => ⟨r.dst, r.wrote, none⟩
  | .update => ⟨updateItems s d, !s.isEmpty, none⟩
  | _ => ⟨d, false, none⟩

def docOf (fn : Name) (es : Entries) : Doc :=
  match getE fn es with
  | some (.file m) => match m.js with
    | some (.obj kvs) => kvs
    | _ => []
  | _ => []

def isFile (fn : Name) (es : Entries) : Bool :=
  match getE fn es with
  | some (.file _) => true
  | _ => false

/-- the file a (re)written document becomes: content id 0 = "new bytes", size not tracked -/
def docFile (now : Nat) (d : Doc) : Node := .file ⟨0, 0, now, some (.obj d)⟩

/-- `create_backup(fn)` around the document strategy's result `r`: copy2 to `fn~`, the writes of
    the strategy, on an exception copy2 back, finally remove `fn~` -/
def withBackup (o : Opts) (fn : Name) (orig : Node) (r : DocRes) (a : Acc) : Res :=
  let a1 := pPut o.dry (fn ++ "~") orig a
  let a2 := if r.wrote then pPut o.dry fn (docFile o.now r.doc) a1 else a1
  match r.err with
  | some e =>
    let a4 := pDel o.dry (fn ++ "~") (pPut o.dry fn orig a2)
    ⟨a4.d, a4.log, some e⟩
  | none =>
    let a4 := pDel o.dry (fn ++ "~") a2
    ⟨a4.d, a4.log, none⟩

/-- in-memory backup (`deepcopy(doc)`), restored by `proxy.clear(); proxy.update(backup)`.
    None of the built-in strategies can fail on an empty destination when the source document
    has unique keys, so the restore branch is unreachable for real documents. -/
def inMemory (o : Opts) (fn : Name) (d : Doc) (r : DocRes) (a : Acc) : Res :=
  match r.err with
  | some e =>
    let a1 := if r.wrote then pPut o.dry fn (docFile o.now d) a else a
    ⟨a1.d, a1.log, some e⟩
  | none =>
    let a1 := if r.wrote then pPut o.dry fn (docFile o.now r.doc) a else a
    ⟨a1.d, a1.log, none⟩

/-- `if src.document != dst.document: with proxy.create_doc_backup(dst.document) as p: doc_sync(src.document, p)` -/
def mergeDocs (o : Opts) (ds : DocSync) (fn : Name) (src : Entries) (a : Acc) : Res :=
  let s := docOf fn src
  let d := docOf fn a.d
  if pyEq (.obj s) (.obj d) then ⟨a.d, a.log, none⟩
  else if d.isEmpty || !isFile fn a.d then inMemory o fn d (runDocSync ds s d) a
  else if isFile (fn ++ "~") a.d then ⟨a.d, a.log, some .backupExists⟩
  else match getE fn a.d with
    | none => ⟨a.d, a.log, none⟩
    | some orig => withBackup o fn orig (runDocSync ds s d) a

/-- document synchronisation of one directory (job or project root): `fn` is the document
    file name, `src` the source directory -/
def syncDoc (o : Opts) (fn : Name) (src : Entries) (a : Acc) : Res :=
  match o.docSync with
  | .noSync => ⟨a.d, a.log, none⟩
  | .copy => ⟨a.d, a.log, none⟩
  | ds => mergeDocs o ds fn src a

/-! ### `sync_jobs` on two existing job directories -/

def syncJobDirs (o : Opts) (src dst : Entries) : Res :=
  let r := walkDir o [] (.dir src) dst
  match r.err with
  | some e => ⟨r.d, r.log, some e⟩
  | none => syncDoc o Extracted.FN_JOB_DOCUMENT src ⟨r.d, r.log⟩

/-! ### `sync_projects` -/

def WS : Name := "workspace"

def wsOf (root : Entries) : Entries :=
  match getE WS root with
  | some (.dir js) => js
  | _ => []

def selected (o : Opts) (id : Name) : Bool :=
  match o.selection with
  | none => true
  | some ids => ids.contains id

/-- `Project.clone(job, copytree=partial(proxy.copytree, ignore=…))`: the content of the new job directory -/
def cloneJob (o : Opts) (sjob : Entries) : Entries := copyTop o.now (cloneIgnored o) o.userExcl sjob

/-- a step of one job, seen from the project root -/
def Step.inJob (id : Name) (s : Step) : Step := Step.under WS (Step.under id s)

/-- the loop over `jobs_to_sync` with `_clone_or_sync` as its body (sequential order = order
    of `jobs`); a destination without `workspace` directory does not occur -/
def syncJobs (o : Opts) : List (Name × Node) → Acc → Res
  | [], a => ⟨a.d, a.log, none⟩
  | (id, sn) :: tl, a =>
    match sn, getE WS a.d with
    | .dir sjob, some (.dir ws) =>
      if selected o id then
        match getE id ws with
        | none =>                                         -- clone (copytree, gated by dry_run)
          if o.dry then syncJobs o tl a
          else
            let c := Node.dir (cloneJob o sjob)
            syncJobs o tl ⟨setE WS (.dir (setE id c ws)) a.d, a.log ++ [.put WS [id] c]⟩
        | some (.dir djob) =>                             -- DestinationExistsError: sync_jobs
          let r := syncJobDirs o sjob djob
          let a' : Acc := ⟨setE WS (.dir (setE id (.dir r.d) ws)) a.d, a.log ++ r.log.map (Step.inJob id)⟩
          match r.err with
          | some err => ⟨a'.d, a'.log, some err⟩
          | none => syncJobs o tl a'
        | some (.file _) => syncJobs o tl a
      else syncJobs o tl a
    | _, _ => syncJobs o tl a

def syncProjects (o : Opts) (src dst : Entries) : Res :=
  if o.checkSchema && o.gate then ⟨dst, [], some .schemaConflict⟩
  else
    let r := syncDoc o Extracted.FN_PROJECT_DOCUMENT src ⟨dst, []⟩
    match r.err with
    | some e => ⟨r.d, r.log, some e⟩
    | none => syncJobs o (wsOf src) ⟨r.d, r.log⟩

/-! ### `Job.sync` / `sync_jobs` as entry points -/

/-- `dst.init()` of a job that does not exist yet: directory + state point file -/
def initJob (now spCid : Nat) : Entries :=
  [(Extracted.FN_STATE_POINT, .file ⟨spCid, 0, now, none⟩)]

def syncJobEntry (o : Opts) (srcId dstId : Name) (spCid : Nat) (src dst : Entries) : Res :=
  match getE srcId (wsOf src), getE WS dst with
  | some (.dir sjob), some (.dir ws) =>
    match getE dstId ws with
    | some (.dir djob) =>
      let r := syncJobDirs o sjob djob
      ⟨setE WS (.dir (setE dstId (.dir r.d) ws)) dst, r.log.map (Step.inJob dstId), r.err⟩
    | some (.file _) => ⟨dst, [], none⟩
    | none =>
      if o.dry then ⟨dst, [], none⟩          -- fix F-15f: nothing to compare with, nothing changes
      else
        let d0 := initJob o.now spCid
        let r := syncJobDirs o sjob d0
        ⟨setE WS (.dir (setE dstId (.dir r.d) ws)) dst,
         Step.put WS [dstId] (.dir d0) :: r.log.map (Step.inJob dstId), r.err⟩
  | _, _ => ⟨dst, [], none⟩                  -- "Nothing to be done if the src is not initialized."

/-! ### the world -/

structure World where
  src : Entries
  dst : Entries

inductive Entry where
  | project
  | job (srcId dstId : Name) (spCid : Nat)

def run (o : Opts) (e : Entry) (w : World) : Res :=
  match e with
  | .project => syncProjects o w.src w.dst
  | .job s d c => syncJobEntry o s d c w.src w.dst

/-- the world after the call (also when it raised) -/
def World.after (o : Opts) (e : Entry) (w : World) : World :=
  { src := w.src, dst := (run o e w).d }

end Signac.Sync

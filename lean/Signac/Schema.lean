/-
  Signac.Schema — schema detection (`Project.detect_schema`) and `diff_jobs`.
  Import-free apart from the shared value models, so that `drv_schema` links.

  Modelled code (read side by side with the definitions):
    signac/_utility.py   `_nested_dicts_to_dotted_keys`      → `flattenVal` / `flattenKVs` / `flatten`
                         `_to_hashable`, `_hashable_dict`     → identity on `JVal` (a list *is* the tuple,
                                                                equality is `pyEq`; see `slotEq`, `pairEq`)
                         `_dotted_dict_to_nested_dicts`       → `setPath` / `unflatten`
    signac/_search_indexer.py `_float`, `_TypedSetDefaultDict` → `IKey`, `slotEq`, `Index.add`
                         `_SearchIndexer.build_index`          → `getPath`, `keyOf`, `buildFrom`, `buildIndex`
    signac/schema.py     `_build_job_statepoint_index`        → `dottedKeys`, `isConstIdx`, `statepointIndex`
    signac/project.py    `detect_schema._collect_by_type`     → `addTyped`, `collectByType`, `detectSchema`
    signac/diff.py       `diff_jobs`                          → `pairEq`, `inter`, `diffOf`, `diffJobs`

  Conventions.
  * A corpus is the list of `(id, state point)` in the iteration order of the `_SearchIndexer`
    (a dict keyed by id: ids are distinct); that order decides which of several `==`-equal
    values of one dict slot is kept as the slot's key (first inserted wins).
  * Python sets / dict key views are lists here; what "set" means (no two members equal under
    Python's hash/==) is a theorem, not a type.
  * `str.split(".")` / `".".join` are modelled on the characters (`splitDots`), not by `String.splitOn`.
  * The indexed documents are `{"sp": statepoint}` and every key carries the prefix `sp.` that
    `_strip_prefix` removes again; the model works on the state point directly (prefix elided).
  * The model follows the code as repaired by the `fix:` commits that this check (C18) gave rise to:
      F-18a  `_nested_dicts_to_dotted_keys` yields the hashable wrapper for an empty mapping
             (before: the pair `(key, {})` made `set(...)` in `diff_jobs` raise TypeError),
      F-18b  an empty state point contributes no key (before: `detect_schema` reported the key `""`),
      F-18c  `_to_hashable` converts values inside mappings too (before: a list holding a mapping that
             holds a list or mapping raised TypeError in both functions),
      F-18d  a `_float` is equal only to another `_float` (before: `-1`/`-1.0` and `-2`/`-2.0` shared a
             slot because CPython maps the hash value -1 to -2),
    and the CURRENT behaviour for the known finding F-6a (True/1 — and False/0 — share a dict slot).
-/
import Signac.Json
import Signac.PyVal
namespace Signac.Schema
open Signac

abbrev KVs := List (String × JVal)

structure Job where
  id : String
  sp : KVs
  deriving Inhabited

/-! ### dotted keys -/

/-- `str.split(".")` on the characters: `"" ↦ [""]`, `"a.b" ↦ ["a","b"]`, `"." ↦ ["",""]`. -/
def splitDots : List Char → List (List Char)
  | [] => [[]]
  | c :: cs =>
    if c = '.' then [] :: splitDots cs
    else match splitDots cs with
      | [] => [[c]]
      | t :: ts => (c :: t) :: ts

/-- `key.split(".")` -/
def splitKey (key : String) : List String := (splitDots key.toList).map String.ofList

/-- `".".join((key, k))` -/
def dotJoin (key k : String) : String := key ++ "." ++ k

/-- the key under which an entry `k` of a mapping reached via `key` is reported -/
def childKey : Option String → String → String
  | none, k => k
  | some key, k => dotJoin key k

mutual
  /-- `_nested_dicts_to_dotted_keys(d, key)` for `key is not None`; an empty mapping is yielded as a
      (hashable) value. Lists become tuples (`_to_hashable`): same `JVal`. -/
  def flattenVal (key : String) : JVal → List (String × JVal)
    | .obj kvs => if kvs.isEmpty then [(key, .obj [])] else flattenKVs (some key) kvs
    | .null => [(key, .null)]
    | .bool b => [(key, .bool b)]
    | .int i => [(key, .int i)]
    | .flt n e r => [(key, .flt n e r)]
    | .str s => [(key, .str s)]
    | .arr xs => [(key, .arr xs)]
  /-- the loop `for k in d: yield from _nested_dicts_to_dotted_keys(d[k], key=k_)` -/
  def flattenKVs (key : Option String) : KVs → List (String × JVal)
    | [] => []
    | (k, v) :: rest => flattenVal (childKey key k) v ++ flattenKVs key rest
end

/-- `_nested_dicts_to_dotted_keys(statepoint)`: an empty state point yields nothing. -/
def flatten (sp : KVs) : List (String × JVal) := flattenKVs none sp

/-! ### the typed index of one key -/

/-- `for n in nodes: v = v[n]`; `none` = KeyError / TypeError (caught, job skipped). -/
def getPath : List String → JVal → Option JVal
  | [], v => some v
  | n :: ns, .obj kvs =>
    match lookupKV n kvs with
    | some w => getPath ns w
    | none => none
  | _ :: _, _ => none

/-- the value a job holds under a dotted key, if any -/
def valueAt (key : String) (j : Job) : Option JVal := getPath (splitKey key) (.obj j.sp)

/-- keys of a `_TypedSetDefaultDict`: the `_DictPlaceholder` class or a hashable value -/
inductive IKey where
  | dict
  | val (v : JVal)
  deriving Inhabited

def isFlt : JVal → Bool
  | .flt _ _ _ => true
  | _ => false

/-- Two hashable values land in the same slot of a `_TypedSetDefaultDict` iff they have equal
    hashes and are `==`. For JSON-born values `==` implies equal hashes, except that a float *at
    top level* is wrapped into `_float` (equal only to another `_float`), which separates it from
    an equal int / bool and from nothing else. Inside tuples nothing is wrapped. -/
def slotEq (a b : JVal) : Bool := (isFlt a == isFlt b) && pyEq a b

/-- `stored_key == looked_up_key` (and same hash) -/
def IKey.same : IKey → IKey → Bool
  | .dict, .dict => true
  | .val a, .val b => slotEq a b
  | _, _ => false

/-- slot key ↦ ids (a Python `set`; one id is added at most once per key since ids are distinct) -/
abbrev Index := List (IKey × List String)

/-- `index[k].add(id)`: the first slot whose stored key equals `k` receives the id and KEEPS its
    stored key (first inserted representative wins); otherwise a new slot is appended. -/
def Index.add (k : IKey) (id : String) : Index → Index
  | [] => [(k, [id])]
  | (r, ids) :: rest =>
    if IKey.same r k then (r, ids ++ [id]) :: rest else (r, ids) :: Index.add k id rest

/-- `list → tuple`, `dict → _DictPlaceholder`, anything else itself -/
def keyOf : JVal → IKey
  | .obj _ => .dict
  | v => .val v

def stepIndex (nodes : List String) (idx : Index) (j : Job) : Index :=
  match getPath nodes (.obj j.sp) with
  | some v => Index.add (keyOf v) j.id idx
  | none => idx

/-- the loop of `build_index` over `self.items()` -/
def buildFrom (nodes : List String) : Index → List Job → Index
  | idx, [] => idx
  | idx, j :: js => buildFrom nodes (stepIndex nodes idx j) js

/-- `_SearchIndexer.build_index("sp." + key)` -/
def buildIndex (key : String) (jobs : List Job) : Index := buildFrom (splitKey key) [] jobs

/-! ### `_build_job_statepoint_index` and `detect_schema` -/

def addNew (k : String) (l : List String) : List String := if l.contains k then l else l ++ [k]

/-- the `set` of dotted keys of all indexed state points -/
def dottedKeysFrom : List String → List Job → List String
  | acc, [] => acc
  | acc, j :: js => dottedKeysFrom (((flatten j.sp).map Prod.fst).foldl (fun a k => addNew k a) acc) js

def dottedKeys (jobs : List Job) : List String := dottedKeysFrom [] jobs

/-- `len(idx) == 1 and len(idx[next(idx.keys())]) == len(index)` -/
def isConstIdx (idx : Index) (njobs : Nat) : Bool :=
  match idx with
  | [(_, ids)] => ids.length == njobs
  | _ => false

def isDictKey : IKey → Bool
  | .dict => true
  | .val _ => false

/-- `statepoint_values.pop(_DictPlaceholder, None)`; what remains are the hashable slot keys -/
def slotValues : Index → List JVal
  | [] => []
  | (.dict, _) :: rest => slotValues rest
  | (.val v, _) :: rest => v :: slotValues rest

/-- `(statepoint_key, statepoint_values)` as yielded (the yield order — by number of slots, then
    key — is not modelled: the consumer builds a dict from it) -/
def statepointIndex (excludeConst : Bool) (jobs : List Job) : List (String × List JVal) :=
  ((dottedKeys jobs).filter
      (fun k => !(excludeConst && isConstIdx (buildIndex k jobs) jobs.length))).map
    (fun k => (k, slotValues (buildIndex k jobs)))

/-- `s.add(v)` on a Python set given as list (stored element first in the comparison) -/
def addSet (v : JVal) (vs : List JVal) : List JVal :=
  if vs.any (fun r => pyEq r v) then vs else vs ++ [v]

/-- `values_by_type[type(v)].add(v)` -/
def addTyped (v : JVal) : List (String × List JVal) → List (String × List JVal)
  | [] => [(pyTypeName v, [v])]
  | (t, vs) :: rest =>
    if t = pyTypeName v then (t, addSet v vs) :: rest else (t, vs) :: addTyped v rest

/-- `_collect_by_type(values)` -/
def collectByType (vals : List JVal) : List (String × List JVal) :=
  vals.foldl (fun acc v => addTyped v acc) []

/-- `dict(project.detect_schema(exclude_const, subset))` for the selected jobs, as
    `key ↦ (type name ↦ values)` -/
def detectSchema (excludeConst : Bool) (jobs : List Job) : List (String × List (String × List JVal)) :=
  (statepointIndex excludeConst jobs).map (fun kv => (kv.1, collectByType kv.2))

/-- the values reported for `key` under the Python type `t` -/
def reported (schema : List (String × List (String × List JVal))) (key t : String) : List JVal :=
  match schema.find? (fun kv => kv.1 == key) with
  | some kv =>
    match kv.2.find? (fun tv => tv.1 == t) with
    | some tv => tv.2
    | none => []
  | none => []

/-! ### `diff_jobs` -/

/-- `(k1, v1) == (k2, v2)` for the tuples held in the sets of `diff_jobs` (no `_float` here:
    `1`, `1.0` and `True` are one element); equal pairs have equal hashes -/
def pairEq (a b : String × JVal) : Bool := a.1 == b.1 && pyEq a.2 b.2

/-- `x in s` for a set `s` given as list -/
def memPair (x : String × JVal) (s : List (String × JVal)) : Bool := s.any (fun y => pairEq y x)

/-- `set.intersection(*sets)`: the members of the first set that occur in every other one -/
def inter : List KVs → List (String × JVal)
  | [] => []
  | sp :: rest => (flatten sp).filter (fun x => rest.all (fun o => memPair x (flatten o)))

/-- `statepoints[job] - intersection` -/
def diffOf (all : List KVs) (sp : KVs) : List (String × JVal) :=
  (flatten sp).filter (fun x => !memPair x (inter all))

/-- the part of a job's pairs that is in the intersection -/
def commonOf (all : List KVs) (sp : KVs) : List (String × JVal) :=
  (flatten sp).filter (fun x => memPair x (inter all))

/-- `d[k] = f(d.get(k))`, a new key is appended (dict insertion order) -/
def upsert (k : String) (f : Option JVal → JVal) : KVs → KVs
  | [] => [(k, f none)]
  | (k', x) :: rest => if k = k' then (k', f (some x)) :: rest else (k', x) :: upsert k f rest

/-- one iteration of `_dotted_dict_to_nested_dicts`: `setdefault` along `tokens[:-1]`, assignment
    at `tokens[-1]`. (Where Python would fail because an inner value is not a mapping the model
    overwrites; unreachable for the pairs `diff_jobs` produces, see `unflatten_flatten`.) -/
def setPath : List String → JVal → KVs → KVs
  | [], _, d => d
  | [k], v, d => upsert k (fun _ => v) d
  | k :: k2 :: ks, v, d =>
    upsert k (fun old =>
      match old with
      | some (.obj sub) => .obj (setPath (k2 :: ks) v sub)
      | _ => .obj (setPath (k2 :: ks) v [])) d

/-- `_dotted_dict_to_nested_dicts(dict(pairs))` -/
def unflattenFrom (acc : KVs) (pairs : List (String × JVal)) : KVs :=
  pairs.foldl (fun d kv => setPath (splitKey kv.1) kv.2 d) acc

def unflatten (pairs : List (String × JVal)) : KVs := unflattenFrom [] pairs

/-- `diff_jobs(*jobs)` as the list of `(job.id, diff)` in argument order -/
def diffJobs (jobs : List Job) : List (String × KVs) :=
  jobs.map (fun j => (j.id, unflatten (diffOf (jobs.map Job.sp) j.sp)))

end Signac.Schema

/-
  Signac.SchemaGate — the state point schema gate of `sync_projects` (signac/sync.py, `check_schema`)
  and `ProjectSchema.difference` / `ProjectSchema.__eq__` (signac/schema.py, collections.abc.Mapping).
  Import-free apart from the schema model, so that `drv_schema` links.

  Modelled code:
    collections.abc.Mapping.__eq__     `dict(self.items()) == dict(other.items())`   → `schemaEq`
    dict.__eq__ on the value dicts     (type ↦ set of values)                         → `typedEq`
    set.__eq__                         same size and every member of the left set is
                                       `in` the right one (hash, then stored == looked-up) → `valSetEq`
    ProjectSchema.difference           → `schemaDifference`
    ProjectSchema.__len__ (truthiness) → `List.isEmpty`
    sync.py lines 829-836              → `syncGate`

  Conventions.
  * A schema is the association list `detectSchema` returns; dicts are association lists whose keys
    are distinct (`schema_keys_nodup`, `detectSchema_types_nodup` — theorems, not types). `dict(...)` of the
    items of such a list is the list itself, so `Mapping.__eq__` is plain dict equality.
  * The members of the value sets are what `_TypedSetDefaultDict.keys()` yields: PLAIN floats (the
    `_float` wrapper is removed on iteration), ints, bools, strs, None, tuples.  Their set membership
    is therefore hash/`==` of plain Python values = `pyEq`, the same equality `addSet` uses when the
    sets are built (NOT `slotEq`; within one type name the two coincide anyway, since values of one
    type name are all floats or all non-floats).
  * The keys of a value dict are the type OBJECTS; two of them are equal iff their names are.
-/
import Signac.Schema
namespace Signac.Schema
open Signac

/-- `dict(project.detect_schema())`: dotted key ↦ (type name ↦ set of values) -/
abbrev Schema := List (String × List (String × List JVal))

/-- `d.get(k)` of a dict given as association list (first entry; keys are distinct in a dict) -/
def alookup {β : Type} (k : String) : List (String × β) → Option β
  | [] => none
  | (k', v) :: rest => if k = k' then some v else alookup k rest

/-- `dict.__eq__`: same number of entries, and every key of the left dict is a key of the right
    one with `left[k] == right[k]` -/
def dictEq {β : Type} (eqv : β → β → Bool) (a b : List (String × β)) : Bool :=
  a.length == b.length &&
    a.all (fun kv => match alookup kv.1 b with
      | some w => eqv kv.2 w
      | none => false)

/-- `set.__eq__` for two sets of values: same size and every member of `a` is `in` `b`
    (the stored member of `b` is the left operand of `==`, as in `addSet`) -/
def valSetEq (a b : List JVal) : Bool :=
  a.length == b.length && a.all (fun x => b.any (fun r => pyEq r x))

/-- equality of two value dicts (type ↦ set of values) -/
def typedEq (a b : List (String × List JVal)) : Bool := dictEq valSetEq a b

/-- `schema_a == schema_b` (Mapping equality); order of keys, types, values is irrelevant -/
def schemaEq (a b : Schema) : Bool := dictEq typedEq a b

/-- `a.difference(b, ignore_values)` as the list of its members in the order of `a`'s keys:
    the keys of `a` that are not keys of `b`, and — unless `ignore_values` — those keys of `a` that
    are keys of `b` with `b[key] != a[key]` (operands in this order, as in the code).  The two parts
    are disjoint, so one pass suffices; no key occurs twice when `a`'s keys are distinct. -/
def schemaDifference (ignoreValues : Bool) (a b : Schema) : List String :=
  (a.filter (fun kv => match alookup kv.1 b with
    | none => true
    | some w => !ignoreValues && !typedEq w kv.2)).map Prod.fst

/-- sync.py lines 829-836 with `check_schema=True`: `true` = `SchemaSyncConflict` is raised.
    `detect_schema()` is called with its default `exclude_const=False`. -/
def syncGate (src dst : List Job) : Bool :=
  let schemaSrc := detectSchema false src
  let schemaDst := detectSchema false dst
  if !schemaDst.isEmpty && !schemaSrc.isEmpty && !schemaEq schemaSrc schemaDst then
    let onlyInSrc := schemaDifference false schemaSrc schemaDst
    let onlyInDst := schemaDifference false schemaDst schemaSrc
    if !onlyInSrc.isEmpty || !onlyInDst.isEmpty then true else false
  else false

end Signac.Schema

/-
  Signac.Md5 — RFC 1321 MD5 over lists of bytes, as total folds.
  Import-free.  `md5hex` is what `hashlib.md5(b).hexdigest()` returns.
-/
import Signac.Json
namespace Signac

def md5S : Array Nat := #[
  7,12,17,22, 7,12,17,22, 7,12,17,22, 7,12,17,22,
  5, 9,14,20, 5, 9,14,20, 5, 9,14,20, 5, 9,14,20,
  4,11,16,23, 4,11,16,23, 4,11,16,23, 4,11,16,23,
  6,10,15,21, 6,10,15,21, 6,10,15,21, 6,10,15,21]

def md5K : Array UInt32 := #[
  0xd76aa478, 0xe8c7b756, 0x242070db, 0xc1bdceee, 0xf57c0faf, 0x4787c62a, 0xa8304613, 0xfd469501,
  0x698098d8, 0x8b44f7af, 0xffff5bb1, 0x895cd7be, 0x6b901122, 0xfd987193, 0xa679438e, 0x49b40821,
  0xf61e2562, 0xc040b340, 0x265e5a51, 0xe9b6c7aa, 0xd62f105d, 0x02441453, 0xd8a1e681, 0xe7d3fbc8,
  0x21e1cde6, 0xc33707d6, 0xf4d50d87, 0x455a14ed, 0xa9e3e905, 0xfcefa3f8, 0x676f02d9, 0x8d2a4c8a,
  0xfffa3942, 0x8771f681, 0x6d9d6122, 0xfde5380c, 0xa4beea44, 0x4bdecfa9, 0xf6bb4b60, 0xbebfbc70,
  0x289b7ec6, 0xeaa127fa, 0xd4ef3085, 0x04881d05, 0xd9d4d039, 0xe6db99e5, 0x1fa27cf8, 0xc4ac5665,
  0xf4292244, 0x432aff97, 0xab9423a7, 0xfc93a039, 0x655b59c3, 0x8f0ccc92, 0xffeff47d, 0x85845dd1,
  0x6fa87e4f, 0xfe2ce6e0, 0xa3014314, 0x4e0811a1, 0xf7537e82, 0xbd3af235, 0x2ad7d2bb, 0xeb86d391]

def rotl32 (x : UInt32) (n : Nat) : UInt32 :=
  (x <<< (UInt32.ofNat n)) ||| (x >>> (UInt32.ofNat (32 - n)))

structure Md5State where
  a : UInt32
  b : UInt32
  c : UInt32
  d : UInt32

def md5Init : Md5State := ⟨0x67452301, 0xefcdab89, 0x98badcfe, 0x10325476⟩

/-- little-endian 32-bit word from four bytes -/
def leWord (b0 b1 b2 b3 : UInt8) : UInt32 :=
  b0.toUInt32 ||| (b1.toUInt32 <<< 8) ||| (b2.toUInt32 <<< 16) ||| (b3.toUInt32 <<< 24)

/-- the 16 words of a 64-byte block (missing bytes read as 0; never happens after padding) -/
def blockWords (blk : Array UInt8) : Array UInt32 :=
  (Array.range 16).map fun j =>
    leWord (blk.getD (4*j) 0) (blk.getD (4*j+1) 0) (blk.getD (4*j+2) 0) (blk.getD (4*j+3) 0)

def md5Round (m : Array UInt32) (s : Md5State) (i : Nat) : Md5State :=
  let (f, g) :=
    if i < 16 then ((s.b &&& s.c) ||| ((~~~ s.b) &&& s.d), i)
    else if i < 32 then ((s.d &&& s.b) ||| ((~~~ s.d) &&& s.c), (5*i + 1) % 16)
    else if i < 48 then (s.b ^^^ s.c ^^^ s.d, (3*i + 5) % 16)
    else (s.c ^^^ (s.b ||| (~~~ s.d)), (7*i) % 16)
  let f' := f + s.a + md5K.getD i 0 + m.getD g 0
  ⟨s.d, s.b + rotl32 f' (md5S.getD i 0), s.b, s.c⟩

def md5Block (s : Md5State) (blk : Array UInt8) : Md5State :=
  let m := blockWords blk
  let t := (List.range 64).foldl (md5Round m) s
  ⟨s.a + t.a, s.b + t.b, s.c + t.c, s.d + t.d⟩

/-- message ++ 0x80 ++ zeros ++ 64-bit little-endian bit length, a multiple of 64 bytes -/
def md5Pad (msg : List UInt8) : List UInt8 :=
  let n := msg.length
  let zeros := (55 + 64 - n % 64) % 64
  let bits := 8 * n
  msg ++ [(0x80 : UInt8)] ++ List.replicate zeros (0 : UInt8) ++
    (List.range 8).map (fun j => UInt8.ofNat ((bits / 2 ^ (8*j)) % 256))

/-- split into 64-byte blocks (fuel = number of blocks) -/
def chunks64 : Nat → List UInt8 → List (Array UInt8)
  | 0, _ => []
  | fuel+1, l => if l.isEmpty then [] else (l.take 64).toArray :: chunks64 fuel (l.drop 64)

def wordBytes (w : UInt32) : List UInt8 :=
  [w.toUInt8, (w >>> 8).toUInt8, (w >>> 16).toUInt8, (w >>> 24).toUInt8]

def md5 (msg : List UInt8) : List UInt8 :=
  let p := md5Pad msg
  let s := (chunks64 (p.length / 64 + 1) p).foldl md5Block md5Init
  wordBytes s.a ++ wordBytes s.b ++ wordBytes s.c ++ wordBytes s.d

def byteHex (b : UInt8) : List Char := [hexDigit (b.toNat / 16), hexDigit (b.toNat % 16)]

def hexOfBytes : List UInt8 → List Char
  | [] => []
  | b :: bs => byteHex b ++ hexOfBytes bs

def md5hexChars (msg : List UInt8) : List Char := hexOfBytes (md5 msg)

def md5hex (msg : List UInt8) : String := String.ofList (md5hexChars msg)

/-- UTF-8 bytes of a character list (the text hashed by `calc_id` is ASCII, see
    `canonChars_ascii`, but the definition is the general one). -/
def utf8 (cs : List Char) : List UInt8 := (String.ofList cs).toUTF8.toList

/-- `signac.job.calc_id` -/
def calcIdChars (v : JVal) : List Char := md5hexChars (utf8 (canonChars v))

def calcId (v : JVal) : String := String.ofList (calcIdChars v)

end Signac

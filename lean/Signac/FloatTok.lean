/-
  Signac.FloatTok — executable form of the well-formedness hypothesis of the injectivity theorems
  of C01 (`FloatTok` / `FloatsOk` in Proofs/EncInj.lean): every float token the harness puts on the
  wire is checked with `floatsTokB` by the driver, so the hypothesis is established for the
  values the correspondence runs on rather than assumed.  Import-free (core only).
-/
import Signac.Json
namespace Signac

def floatTokCharsB : List Char := "0123456789+-.eNaIfinty".toList
def intTokCharsB : List Char := "0123456789-".toList

/-- non-empty, only float-token characters, at least one character no integer token has -/
def floatTokB (r : String) : Bool :=
  !r.toList.isEmpty && r.toList.all (fun c => floatTokCharsB.contains c)
    && r.toList.any (fun c => !intTokCharsB.contains c)

mutual
  def floatsTokB : JVal → Bool
    | .flt _ _ r => floatTokB r
    | .arr xs => floatsTokListB xs
    | .obj kvs => floatsTokObjB kvs
    | _ => true
  def floatsTokListB : List JVal → Bool
    | [] => true
    | x :: xs => floatsTokB x && floatsTokListB xs
  def floatsTokObjB : List (String × JVal) → Bool
    | [] => true
    | (_, v) :: rest => floatsTokB v && floatsTokObjB rest
end

end Signac

/-
  C13 — a successful sync makes the destination a superset and touches nothing else.

  Model: Signac/Sync.lean (`sync_projects`, `sync_jobs`, `Project.clone`, `filecmp.dircmp`,
  `shutil.copy/copytree`, document merge under backup) — with the proposed fixes F-13, F-14a,
  F-15a…f applied.  Property theorems only; the proofs are in Signac/Proofs/Sync*.lean.
  All theorems quantify over all pairs of project trees, all option values, all strategies
  (any function), all exclusion tables; `WFEntries` says "names within one directory listing are
  distinct" (true of every real directory).
-/
import Signac.Proofs.SyncMore
import Signac.Proofs.SyncIdem
import Signac.Proofs.SyncParallel
namespace Signac.C13
open Signac Signac.Sync

/-- Frame: the source project is returned unchanged by every call — successful or not, at every
    entry point. -/
theorem sync_src_frame (o : Opts) (e : Entry) (w : World) : (w.after o e).src = w.src := rfl

/-- Every mutation goes through the proxy: replaying the logged steps — each a `put`/`del` on a
    path of the destination tree — on the destination before the call gives the destination after
    it.  (Together with `sync_src_frame`: "every mutating step targets a path under dst".) -/
theorem sync_steps_on_dst (o : Opts) (e : Entry) (w : World) :
    applyAll w.dst (run o e w).log = (w.after o e).dst := run_refines o e w

/-- What a selected source job has become after a successful real project sync: if it did not
    exist, a clone of the source job; if it did, the result of `sync_jobs` on the pair, which
    succeeded.  (The link from the project level to the job-level theorems below.) -/
theorem sync_job_result (o : Opts) (hdry : o.dry = false) (w : World) (id : Name) (sjob ws : Entries)
    (hnd : (names (wsOf w.src)).Nodup) (hs : getE id (wsOf w.src) = some (.dir sjob))
    (hsel : selected o id = true) (hws : getE WS w.dst = some (.dir ws))
    (hok : (run o .project w).err = none) :
    (getE id ws = none ∧
      getE id (wsOf (w.after o .project).dst) = some (.dir (cloneJob o sjob)))
    ∨ (∃ djob, getE id ws = some (.dir djob) ∧ (syncJobDirs o sjob djob).err = none ∧
      getE id (wsOf (w.after o .project).dst) = some (.dir (syncJobDirs o sjob djob).d))
    ∨ (∃ m, getE id ws = some (.file m)) := by
  have h := syncProjects_ok o w.src w.dst hok
  simp only [World.after, run] at hok ⊢
  rw [h.2] at hok ⊢
  apply syncJobs_job o hdry id sjob (wsOf w.src) _ ws hnd hs hsel _ hok
  rw [getE_syncDoc_other o _ w.src ⟨w.dst, []⟩ WS pdoc_ne_ws pdoc_bak_ne_ws]
  exact hws

/-- Superset of jobs, same state point: after a successful real project sync every selected source
    job exists in the destination, and its state point file holds the source's bytes — copied if
    the job was cloned, untouched if the job existed (jobs with equal id have equal state point
    files: hypothesis `hsame`, which is C01/C02's business). -/
theorem sync_sp_superset (o : Opts) (hdry : o.dry = false) (w : World) (id : Name) (sjob ws : Entries)
    (m : FMeta) (hnd : (names (wsOf w.src)).Nodup) (hs : getE id (wsOf w.src) = some (.dir sjob))
    (hwf : WFEntries sjob) (hsel : selected o id = true) (hws : getE WS w.dst = some (.dir ws))
    (hm : getE Extracted.FN_STATE_POINT sjob = some (.file m))
    (hsp : o.spPat Extracted.FN_STATE_POINT = true)
    (hsame : ∀ x, getE id ws = some x → ∃ djob md, x = .dir djob ∧
      getE Extracted.FN_STATE_POINT djob = some (.file md) ∧ md.cid = m.cid)
    (hok : (run o .project w).err = none) :
    ∃ dj m', getE id (wsOf (w.after o .project).dst) = some (.dir dj) ∧
      getE Extracted.FN_STATE_POINT dj = some (.file m') ∧ m'.cid = m.cid := by
  rcases sync_job_result o hdry w id sjob ws hnd hs hsel hws hok with ⟨_, h⟩ | ⟨djob, hd, _, h⟩ | ⟨m', hd⟩
  · exact ⟨_, touch o.now m, h, clone_sp o sjob m hm, rfl⟩
  · obtain ⟨djob', md, hx, hmd, hc⟩ := hsame _ hd
    cases hx
    exact ⟨_, md, h, syncJobDirs_sp o sjob djob md hwf hsp hmd, hc⟩
  · obtain ⟨djob', md, hx, _⟩ := hsame _ hd
    cases hx

/-- Files present (existing job): after a successful real `sync_jobs` every source file the walk
    has to deliver (`Reach`: reached through directories common to both sides — below the top
    level only when `recursive` —, absent in the destination, its name / the missing directory and
    everything below it not excluded) is present with the source's bytes. -/
theorem sync_files_present (o : Opts) (hdry : o.dry = false) (sjob djob : Entries) (n : Name) (p : Path)
    (m : FMeta) (hwf : WFEntries sjob) (hr : Reach o sjob djob n p m)
    (h1 : n ≠ Extracted.FN_JOB_DOCUMENT) (h2 : n ≠ Extracted.FN_JOB_DOCUMENT ++ "~")
    (hok : (syncJobDirs o sjob djob).err = none) :
    lookupP n p (syncJobDirs o sjob djob).d = some (.file (touch o.now m)) := by
  rw [syncJobDirs_lookup o sjob djob n p h1 h2]
  exact walk_files_present o hdry hr [] hwf (syncJobDirs_walk_ok o sjob djob hok)

/-- Files present (cloned job): the clone holds every source file whose top-level name is not left
    out (user patterns; state point and document are never left out) and none of whose lower path
    components matches a user exclude pattern — byte-identically, at any depth. -/
theorem clone_files_present (o : Opts) (sjob : Entries) (n : Name) (m : FMeta)
    (hn : cloneIgnored o n = false) :
    (getE n sjob = some (.file m) → lookupP n [] (cloneJob o sjob) = some (.file (touch o.now m))) ∧
    (∀ ch k q, getE n sjob = some (.dir ch) → InCopy o.userExcl ch k q m →
      lookupP n (k :: q) (cloneJob o sjob) = some (.file (touch o.now m))) := by
  refine ⟨fun h => ?_, fun ch k q h hin => ?_⟩
  · simp [lookupP, cloneJob, getE_copyTop, hn, h, copyNode]
  · simp only [lookupP, cloneJob, getE_copyTop, hn, h, Bool.false_eq_true, if_false, Option.map, copyNode]
    exact copy_lookup o.now o.userExcl hin

/-- Destination-only files are untouched: a path the source job does not have keeps its
    destination node — in every run, also a failed one. -/
theorem sync_dst_only_files_untouched (o : Opts) (sjob djob : Entries) (n : Name) (p : Path)
    (hwf : WFEntries sjob) (h : lookupP n p sjob = none)
    (h1 : n ≠ Extracted.FN_JOB_DOCUMENT) (h2 : n ≠ Extracted.FN_JOB_DOCUMENT ++ "~") :
    lookupP n p (syncJobDirs o sjob djob).d = lookupP n p djob := by
  rw [syncJobDirs_lookup o sjob djob n p h1 h2]
  exact walk_dst_only o p n [] sjob djob hwf h

/-- Destination-only jobs (and unselected ones) are untouched by a project sync, in every run. -/
theorem sync_dst_only_jobs_untouched (o : Opts) (w : World) (id : Name)
    (h : ∀ sn, (id, sn) ∈ wsOf w.src → selected o id = false) :
    getE id (wsOf (w.after o .project).dst) = getE id (wsOf w.dst) := by
  simp only [World.after, run]
  rcases syncProjects_ws o w.src w.dst with h' | h'
  · rw [h']
  · rw [h', syncJobs_job_other o id (wsOf w.src) h, wsOf_syncDoc]

/-- Destination-only document keys are untouched by the key-by-key merge, at any depth below
    mappings present on both sides (`DocOnly`), whatever the key strategy. -/
theorem sync_dst_only_keys_untouched (ks : Option (String → Bool)) (s d : Doc) (p : List String)
    (h : DocOnly s d p) (hte : (byKeyItems ks "" s ⟨d, [], false, false⟩).typeErr = false) :
    docGet (runDocSync (.byKey ks) s d).doc p = docGet d p := by
  have := byKeyItems_dst_only ks h "" ⟨d, [], false, false⟩ rfl hte
  simp only [runDocSync, hte, Bool.false_eq_true, if_false]
  cases ks with
  | none => cases hsk : (byKeyItems none "" s ⟨d, [], false, false⟩).skipped <;> simpa using this
  | some f => simpa using this

/-- … and by `DocSync.update` (top-level keys: it is a plain `dict.update`). -/
theorem sync_dst_only_keys_untouched_update (s d : Doc) (k : String) (h : k ∉ keys s) :
    lookupKV k (runDocSync .update s d).doc = lookupKV k d := updateItems_other k s d h

/-- Idempotence of the file synchronisation (`_sync_job_workspaces`, at every depth, for every
    strategy / exclusion / comparison mode): after a successful real walk, walking again over the
    result changes nothing and succeeds. -/
theorem sync_idempotent_files (o : Opts) (hdry : o.dry = false) (sjob djob : Entries) (sub : Path)
    (hwf : WFEntries sjob) (hok : (walkDir o sub (.dir sjob) djob).err = none) :
    (walkDir o sub (.dir sjob) (walkDir o sub (.dir sjob) djob).d).d = (walkDir o sub (.dir sjob) djob).d ∧
    (walkDir o sub (.dir sjob) (walkDir o sub (.dir sjob) djob).d).err = none :=
  walk_idempotent o hdry sjob sub djob hwf hok

/-- Idempotence of `sync_jobs` when documents are not merged (NO_SYNC, or COPY where the document
    is an ordinary file of the walk): repeating a successful real sync changes nothing. -/
theorem sync_idempotent_partial (o : Opts) (hdry : o.dry = false)
    (hds : o.docSync = .noSync ∨ o.docSync = .copy) (sjob djob : Entries)
    (hwf : WFEntries sjob) (hok : (syncJobDirs o sjob djob).err = none) :
    (syncJobDirs o sjob (syncJobDirs o sjob djob).d).d = (syncJobDirs o sjob djob).d ∧
    (syncJobDirs o sjob (syncJobDirs o sjob djob).d).err = none := by
  have key : ∀ dst, syncJobDirs o sjob dst =
      ⟨(walkDir o [] (.dir sjob) dst).d, (walkDir o [] (.dir sjob) dst).log, (walkDir o [] (.dir sjob) dst).err⟩ := by
    intro dst
    unfold syncJobDirs
    dsimp only
    cases he : (walkDir o [] (.dir sjob) dst).err with
    | some e => rfl
    | none => simp only [syncDoc_noSync o _ sjob _ hds]
  rw [key djob] at hok ⊢
  rw [key]
  exact walk_idempotent o hdry sjob [] djob hwf hok

/-- The full idempotence statement of C13 ("repeating the same sync changes nothing"), including
    the document merge and the loop over the jobs.  Proved in Lean for the file walk
    (`sync_idempotent_files`) and for job syncs without document merge (`sync_idempotent_partial`);
    the remaining part (ByKey / update merges, clone-then-sync at the project level) is checked
    empirically only: every real call is made twice and the model is compared with the second
    call as well.  (`o.gate` is an input: with check_schema the real gate may refuse the second
    call because the first one changed the destination's schema.) -/
def sync_idempotent_full : Prop :=
  ∀ (o : Opts) (e : Entry) (w : World), WFEntries w.src → WFEntries w.dst → o.dry = false →
    (run o e w).err = none →
    (run o e (w.after o e)).err = none ∧ (run o e (w.after o e)).d = (w.after o e).dst

/-! non-vacuity: a concrete pair of jobs satisfying the hypotheses above -/

def exOpts : Opts :=
  { strategy := .always, docSync := .byKey none, recursive := true,
    userExcl := fun n => n == "skip.log",
    spPat := fun n => n == Extracted.FN_STATE_POINT,
    docPat := fun n => n == Extracted.FN_JOB_DOCUMENT || n == Extracted.FN_JOB_DOCUMENT ++ "~",
    selection := none, checkSchema := false, gate := false, dry := false, deep := false, now := 9 }

def exSrcJob : Entries :=
  [(Extracted.FN_STATE_POINT, .file ⟨1, 8, 5, none⟩), ("f1", .file ⟨2, 1, 5, none⟩),
   ("sub", .dir [("x", .file ⟨3, 2, 5, none⟩)]), ("both", .file ⟨4, 1, 7, none⟩)]

def exDstJob : Entries :=
  [(Extracted.FN_STATE_POINT, .file ⟨1, 8, 5, none⟩), ("both", .file ⟨5, 1, 5, none⟩),
   ("only", .file ⟨6, 1, 5, none⟩)]

def exWorld : World :=
  { src := [(WS, .dir [("j1", .dir exSrcJob), ("j2", .dir exSrcJob)])],
    dst := [(WS, .dir [("j1", .dir exDstJob), ("j9", .dir exDstJob)])] }

example : WFEntries exSrcJob ∧ (syncJobDirs exOpts exSrcJob exDstJob).err = none ∧
    Reach exOpts exSrcJob exDstJob "f1" [] ⟨2, 1, 5, none⟩ ∧
    Reach exOpts exSrcJob exDstJob "sub" ["x"] ⟨3, 2, 5, none⟩ ∧
    lookupP "only" [] exSrcJob = none :=
  ⟨by simp [WFEntries, WFNode, exSrcJob, names, Extracted.FN_STATE_POINT], by decide,
   Reach.top (by rfl) (by rfl) (by decide),
   Reach.tree (sch := [("x", .file ⟨3, 2, 5, none⟩)]) (by rfl) (by rfl) (by decide) (by rfl)
     (InCopy.file (by rfl) (by decide)),
   by rfl⟩

example : (names (wsOf exWorld.src)).Nodup ∧ (run exOpts .project exWorld).err = none ∧
    getE "j1" (wsOf exWorld.src) = some (.dir exSrcJob) ∧ selected exOpts "j1" = true ∧
    (∀ sn, ("j9", sn) ∈ wsOf exWorld.src → selected exOpts "j9" = false) :=
  ⟨by decide, by decide, by rfl, by rfl, by
    intro sn h
    simp [exWorld, wsOf, getE, WS] at h⟩

example : ({ exOpts with docSync := .noSync } : Opts).docSync = .noSync ∧
    (syncJobDirs { exOpts with docSync := .noSync } exSrcJob exDstJob).err = none ∧
    (walkDir exOpts ["sub"] (.dir exSrcJob) exDstJob).err = none :=
  ⟨rfl, by decide, by decide⟩

example : DocOnly [("a", .obj [("x", .int 1)])] [("a", .obj [("y", .int 2)]), ("b", .int 3)] ["a", "y"] ∧
    DocOnly [("a", .obj [("x", .int 1)])] [("a", .obj [("y", .int 2)]), ("b", .int 3)] ["b"] :=
  ⟨DocOnly.sub (by decide) (by rfl) (by rfl) (DocOnly.top (by decide)), DocOnly.top (by decide)⟩

end Signac.C13

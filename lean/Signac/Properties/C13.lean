/-
  C13 — a successful sync makes the destination a superset and touches nothing else.

  Model: Signac/Sync.lean (`sync_projects`, `sync_jobs`, `Project.clone`, `filecmp.dircmp`,
  `shutil.copy/copytree`, document merge under backup) — with the proposed fixes F-13, F-14a,
  F-15a…f applied.  Property theorems only; the proofs are in Signac/Proofs/Sync*.lean.
  All theorems quantify over all pairs of project trees, all option values, all strategies
  (any function), all exclusion tables; `WFEntries` says "names within one directory listing are
  distinct" (true of every real directory).
-/
import Signac.Proofs.SyncMore
import Signac.Proofs.SyncIdem
import Signac.Proofs.SyncParallel
import Signac.Proofs.SyncIdemFull
import Signac.Proofs.SyncLiveLemmas
namespace Signac.C13
open Signac Signac.Sync

/-- Frame: the source project is returned unchanged by every call — successful or not, at every
    entry point. -/
theorem sync_src_frame (o : Opts) (e : Entry) (w : World) : (w.after o e).src = w.src := rfl

/-- Every mutation goes through the proxy: replaying the logged steps — each a `put`/`del` on a
    path of the destination tree — on the destination before the call gives the destination after
    it.  (Together with `sync_src_frame`: "every mutating step targets a path under dst".) -/
theorem sync_steps_on_dst (o : Opts) (e : Entry) (w : World) :
    applyAll w.dst (run o e w).log = (w.after o e).dst := run_refines o e w

/-- What a selected source job has become after a successful real project sync: if it did not
    exist, a clone of the source job; if it did, the result of `sync_jobs` on the pair, which
    succeeded.  (The link from the project level to the job-level theorems below.) -/
theorem sync_job_result (o : Opts) (hdry : o.dry = false) (w : World) (id : Name) (sjob ws : Entries)
    (hnd : (names (wsOf w.src)).Nodup) (hs : getE id (wsOf w.src) = some (.dir sjob))
    (hsel : selected o id = true) (hws : getE WS w.dst = some (.dir ws))
    (hok : (run o .project w).err = none) :
    (getE id ws = none ∧
      getE id (wsOf (w.after o .project).dst) = some (.dir (cloneJob o sjob)))
    ∨ (∃ djob, getE id ws = some (.dir djob) ∧ (syncJobDirs o sjob djob).err = none ∧
      getE id (wsOf (w.after o .project).dst) = some (.dir (syncJobDirs o sjob djob).d))
    ∨ (∃ m, getE id ws = some (.file m)) := by
  have h := syncProjects_ok o w.src w.dst hok
  simp only [World.after, run] at hok ⊢
  rw [h.2] at hok ⊢
  apply syncJobs_job o hdry id sjob (wsOf w.src) _ ws hnd hs hsel _ hok
  rw [getE_syncDoc_other o _ w.src ⟨w.dst, []⟩ WS pdoc_ne_ws pdoc_bak_ne_ws]
  exact hws

/-- Superset of jobs, same state point: after a successful real project sync every selected source
    job exists in the destination, and its state point file holds the source's bytes — copied if
    the job was cloned, untouched if the job existed (jobs with equal id have equal state point
    files: hypothesis `hsame`, which is C01/C02's business). -/
theorem sync_sp_superset (o : Opts) (hdry : o.dry = false) (w : World) (id : Name) (sjob ws : Entries)
    (m : FMeta) (hnd : (names (wsOf w.src)).Nodup) (hs : getE id (wsOf w.src) = some (.dir sjob))
    (hwf : WFEntries sjob) (hsel : selected o id = true) (hws : getE WS w.dst = some (.dir ws))
    (hm : getE Extracted.FN_STATE_POINT sjob = some (.file m))
    (hsp : o.spPat Extracted.FN_STATE_POINT = true)
    (hsame : ∀ x, getE id ws = some x → ∃ djob md, x = .dir djob ∧
      getE Extracted.FN_STATE_POINT djob = some (.file md) ∧ md.cid = m.cid)
    (hok : (run o .project w).err = none) :
    ∃ dj m', getE id (wsOf (w.after o .project).dst) = some (.dir dj) ∧
      getE Extracted.FN_STATE_POINT dj = some (.file m') ∧ m'.cid = m.cid := by
  rcases sync_job_result o hdry w id sjob ws hnd hs hsel hws hok with ⟨_, h⟩ | ⟨djob, hd, _, h⟩ | ⟨m', hd⟩
  · exact ⟨_, touch o.now m, h, clone_sp o sjob m hm, rfl⟩
  · obtain ⟨djob', md, hx, hmd, hc⟩ := hsame _ hd
    cases hx
    exact ⟨_, md, h, syncJobDirs_sp o sjob djob md hwf hsp hmd, hc⟩
  · obtain ⟨djob', md, hx, _⟩ := hsame _ hd
    cases hx

/-- Files present (existing job): after a successful real `sync_jobs` every source file the walk
    has to deliver (`Reach`: reached through directories common to both sides — below the top
    level only when `recursive` —, absent in the destination, its name / the missing directory and
    everything below it not excluded) is present with the source's bytes. -/
theorem sync_files_present (o : Opts) (hdry : o.dry = false) (sjob djob : Entries) (n : Name) (p : Path)
    (m : FMeta) (hwf : WFEntries sjob) (hr : Reach o sjob djob n p m)
    (h1 : n ≠ Extracted.FN_JOB_DOCUMENT) (h2 : n ≠ Extracted.FN_JOB_DOCUMENT ++ "~")
    (hok : (syncJobDirs o sjob djob).err = none) :
    lookupP n p (syncJobDirs o sjob djob).d = some (.file (touch o.now m)) := by
  rw [syncJobDirs_lookup o sjob djob n p h1 h2]
  exact walk_files_present o hdry hr [] hwf (syncJobDirs_walk_ok o sjob djob hok)

/-- Files present (cloned job): the clone holds every source file whose top-level name is not left
    out (user patterns; state point and document are never left out) and none of whose lower path
    components matches a user exclude pattern — byte-identically, at any depth. -/
theorem clone_files_present (o : Opts) (sjob : Entries) (n : Name) (m : FMeta)
    (hn : cloneIgnored o n = false) :
    (getE n sjob = some (.file m) → lookupP n [] (cloneJob o sjob) = some (.file (touch o.now m))) ∧
    (∀ ch k q, getE n sjob = some (.dir ch) → InCopy o.userExcl ch k q m →
      lookupP n (k :: q) (cloneJob o sjob) = some (.file (touch o.now m))) := by
  refine ⟨fun h => ?_, fun ch k q h hin => ?_⟩
  · simp [lookupP, cloneJob, getE_copyTop, hn, h, copyNode]
  · simp only [lookupP, cloneJob, getE_copyTop, hn, h, Bool.false_eq_true, if_false, Option.map, copyNode]
    exact copy_lookup o.now o.userExcl hin

/-- Destination-only files are untouched: a path the source job does not have keeps its
    destination node — in every run, also a failed one. -/
theorem sync_dst_only_files_untouched (o : Opts) (sjob djob : Entries) (n : Name) (p : Path)
    (hwf : WFEntries sjob) (h : lookupP n p sjob = none)
    (h1 : n ≠ Extracted.FN_JOB_DOCUMENT) (h2 : n ≠ Extracted.FN_JOB_DOCUMENT ++ "~") :
    lookupP n p (syncJobDirs o sjob djob).d = lookupP n p djob := by
  rw [syncJobDirs_lookup o sjob djob n p h1 h2]
  exact walk_dst_only o p n [] sjob djob hwf h

/-- Destination-only jobs (and unselected ones) are untouched by a project sync, in every run. -/
theorem sync_dst_only_jobs_untouched (o : Opts) (w : World) (id : Name)
    (h : ∀ sn, (id, sn) ∈ wsOf w.src → selected o id = false) :
    getE id (wsOf (w.after o .project).dst) = getE id (wsOf w.dst) := by
  simp only [World.after, run]
  rcases syncProjects_ws o w.src w.dst with h' | h'
  · rw [h']
  · rw [h', syncJobs_job_other o id (wsOf w.src) h, wsOf_syncDoc]

/-- Destination-only document keys are untouched by the key-by-key merge, at any depth below
    mappings present on both sides (`DocOnly`), whatever the key strategy. -/
theorem sync_dst_only_keys_untouched (ks : Option (String → Bool)) (s d : Doc) (p : List String)
    (h : DocOnly s d p) (hte : (byKeyItems ks "" s ⟨d, [], false, false⟩).typeErr = false) :
    docGet (runDocSync (.byKey ks) s d).doc p = docGet d p := by
  have := byKeyItems_dst_only ks h "" ⟨d, [], false, false⟩ rfl hte
  simp only [runDocSync, hte, Bool.false_eq_true, if_false]
  cases ks with
  | none => cases hsk : (byKeyItems none "" s ⟨d, [], false, false⟩).skipped <;> simpa using this
  | some f => simpa using this

/-- … and by `DocSync.update` (top-level keys: it is a plain `dict.update`). -/
theorem sync_dst_only_keys_untouched_update (s d : Doc) (k : String) (h : k ∉ keys s) :
    lookupKV k (runDocSync .update s d).doc = lookupKV k d := updateItems_other k s d h

/-- Idempotence of the file synchronisation (`_sync_job_workspaces`, at every depth, for every
    strategy / exclusion / comparison mode): after a successful real walk, walking again over the
    result changes nothing and succeeds. -/
theorem sync_idempotent_files (o : Opts) (hdry : o.dry = false) (sjob djob : Entries) (sub : Path)
    (hwf : WFEntries sjob) (hok : (walkDir o sub (.dir sjob) djob).err = none) :
    (walkDir o sub (.dir sjob) (walkDir o sub (.dir sjob) djob).d).d = (walkDir o sub (.dir sjob) djob).d ∧
    (walkDir o sub (.dir sjob) (walkDir o sub (.dir sjob) djob).d).err = none :=
  walk_idempotent o hdry sjob sub djob hwf hok

/-- Idempotence of `sync_jobs` when documents are not merged (NO_SYNC, or COPY where the document
    is an ordinary file of the walk): repeating a successful real sync changes nothing. -/
theorem sync_idempotent_partial (o : Opts) (hdry : o.dry = false)
    (hds : o.docSync = .noSync ∨ o.docSync = .copy) (sjob djob : Entries)
    (hwf : WFEntries sjob) (hok : (syncJobDirs o sjob djob).err = none) :
    (syncJobDirs o sjob (syncJobDirs o sjob djob).d).d = (syncJobDirs o sjob djob).d ∧
    (syncJobDirs o sjob (syncJobDirs o sjob djob).d).err = none := by
  have key : ∀ dst, syncJobDirs o sjob dst =
      ⟨(walkDir o [] (.dir sjob) dst).d, (walkDir o [] (.dir sjob) dst).log, (walkDir o [] (.dir sjob) dst).err⟩ := by
    intro dst
    unfold syncJobDirs
    dsimp only
    cases he : (walkDir o [] (.dir sjob) dst).err with
    | some e => rfl
    | none => simp only [syncDoc_noSync o _ sjob _ hds]
  rw [key djob] at hok ⊢
  rw [key]
  exact walk_idempotent o hdry sjob [] djob hwf hok

/-- The full idempotence statement of C13 ("repeating the same sync changes nothing"), including
    the document merge and the loop over the jobs, with no hypothesis beyond well-formed trees.
    As it stands it is FALSE of the model (`sync_idempotent_full_false` below): the model's
    documents are association lists (duplicate keys possible) and its exclusion tables are
    arbitrary functions.  With the two facts every real call satisfies — source documents have
    distinct keys in every mapping, the document pattern matches the job document file and its
    backup — it is proved: `sync_idempotent_full_partial`.
    (`o.gate` is an input: with check_schema the real gate may refuse the second call because the
    first one changed the destination's schema; the harness passes the second call's own gate.) -/
def sync_idempotent_full : Prop :=
  ∀ (o : Opts) (e : Entry) (w : World), WFEntries w.src → WFEntries w.dst → o.dry = false →
    (run o e w).err = none →
    (run o e (w.after o e)).err = none ∧ (run o e (w.after o e)).d = (w.after o e).dst

/-! ### the unrestricted statement is false of the model: two witnesses -/

/-- Witness 1: realistic tables (`DocPatOk`), `DocSync.ByKey(lambda key: True)`. -/
def w1Opts : Opts :=
  { strategy := .none, docSync := .byKey (some fun _ => true), recursive := true,
    userExcl := fun _ => false,
    spPat := fun n => n == Extracted.FN_STATE_POINT,
    docPat := fun n => n == Extracted.FN_JOB_DOCUMENT || n == Extracted.FN_JOB_DOCUMENT ++ "~",
    selection := none, checkSchema := false, gate := false, dry := false, deep := false, now := 9 }

/-- Two projects without jobs; the source project document is the association list
    `{"a": {"x": 1}, "a": 5}` — the key `a` twice, which no parsed JSON file can be —, the
    destination project document is `{"a": {"x": 1}}`. -/
def w1World : World :=
  { src := [(Extracted.FN_PROJECT_DOCUMENT,
      .file ⟨1, 1, 5, some (.obj [("a", .obj [("x", .int 1)]), ("a", .int 5)])⟩)],
    dst := [(Extracted.FN_PROJECT_DOCUMENT,
      .file ⟨2, 1, 5, some (.obj [("a", .obj [("x", .int 1)])])⟩)] }

/-- `sync_idempotent_full` is false.  First call: the first `a` is `==` on both sides, the second
    `a` (5 against a mapping) is a conflict the key strategy resolves by overwriting: destination
    `{"a": 5}`, no exception.  Second call: the first `a` now meets the integer 5, and iterating
    the source mapping `{"x": 1}` against an integer is the TypeError of `key in 5`.  An artefact
    of the model's documents being association lists: excluded by `NodupKeysObj`. -/
theorem sync_idempotent_full_false : ¬ sync_idempotent_full := by
  intro h
  have h2 := (h w1Opts .project w1World
    (by simp [WFEntries, WFNode, w1World, names]) (by simp [WFEntries, WFNode, w1World, names])
    rfl (by decide)).1
  revert h2
  decide

example : DocPatOk w1Opts := ⟨by decide, by decide⟩

/-- Witness 2: documents with distinct keys, but a document pattern that does NOT match the job
    document file (impossible for `re.match("signac_job_document.json", ·)`), file strategy
    `update`, document strategy `update`, and a clock (`now = 1`) that is behind the source
    file's mtime (5). -/
def w2Opts : Opts :=
  { strategy := .update, docSync := .update, recursive := true,
    userExcl := fun _ => false,
    spPat := fun n => n == Extracted.FN_STATE_POINT,
    docPat := fun _ => false,
    selection := none, checkSchema := false, gate := false, dry := false, deep := false, now := 1 }

def w2SrcJob : Entries :=
  [(Extracted.FN_JOB_DOCUMENT, .file ⟨1, 1, 5, some (.obj [("a", .int 1)])⟩)]

def w2DstJob : Entries :=
  [(Extracted.FN_JOB_DOCUMENT, .file ⟨2, 1, 7, some (.obj [("b", .int 2)])⟩)]

def w2World : World :=
  { src := [(WS, .dir [("j", .dir w2SrcJob)])], dst := [(WS, .dir [("j", .dir w2DstJob)])] }

/-- the content id of the destination job's document file -/
def w2Probe (es : Entries) : Nat :=
  match lookupP WS ["j", Extracted.FN_JOB_DOCUMENT] es with
  | some (.file m) => m.cid
  | _ => 99

/-- Without `DocPatOk` the file walk and the document merge fight over the document file.  First
    call: the walk sees two different document files, the destination's is newer (7 > 5), keeps
    it; the merge writes `{"b": 2, "a": 1}` with mtime `now = 1`.  Second call: now the source's
    file is newer (5 > 1), the walk overwrites the merged document with a copy of the source's,
    and key `b` is lost: both calls succeed, the second one changes the destination. -/
theorem sync_idempotent_needs_docPat :
    WFEntries w2World.src ∧ WFEntries w2World.dst ∧
    NodupKeysObj (docOf Extracted.FN_JOB_DOCUMENT w2SrcJob) ∧
    (run w2Opts (.job "j" "j" 0) w2World).err = none ∧
    (run w2Opts (.job "j" "j" 0) (w2World.after w2Opts (.job "j" "j" 0))).err = none ∧
    (run w2Opts (.job "j" "j" 0) (w2World.after w2Opts (.job "j" "j" 0))).d ≠
      (w2World.after w2Opts (.job "j" "j" 0)).dst := by
  refine ⟨?_, ?_, ?_, by decide, by decide, ?_⟩
  · simp [WFEntries, WFNode, w2World, w2SrcJob, names]
  · simp [WFEntries, WFNode, w2World, w2DstJob, names]
  · simp [docOf, getE, w2SrcJob, NodupKeysObj, NodupKeysVal]
  · intro h
    have := congrArg w2Probe h
    revert this
    decide

/-! ### the true variants -/

/-- **Idempotence of the document merge alone**, for `DocSync.update`, `DocSync.ByKey(ks)` with
    every key strategy `ks` (also none), NO_SYNC and COPY, at any nesting depth: if merging the
    source document `s` (distinct keys in every mapping) into `d` raised nothing, then merging `s`
    into the result raises nothing and changes nothing. -/
theorem doc_merge_idempotent (ds : DocSync) (s d : Doc) (hs : NodupKeysObj s)
    (hok : (runDocSync ds s d).err = none) :
    (runDocSync ds s (runDocSync ds s d).doc).err = none ∧
    (runDocSync ds s (runDocSync ds s d).doc).doc = (runDocSync ds s d).doc :=
  runDocSync_idem ds s d hs hok

/-- … and nothing is even written the second time by ByKey: the second pass over the same source,
    for any key strategy, from any starting flags, leaves the document, the `wrote` flag and the
    type-error flag alone, and records no conflict if the first pass recorded none. -/
theorem doc_merge_bykey_quiet (ks : Option (String → Bool)) (s d : Doc) (hs : NodupKeysObj s)
    (hte : (byKeyItems ks "" s ⟨d, [], false, false⟩).typeErr = false) :
    Quiet (byKeyItems ks "" s ⟨(byKeyItems ks "" s ⟨d, [], false, false⟩).dst, [], false, false⟩)
      (byKeyItems ks "" s ⟨d, [], false, false⟩).dst [] false (byKeyItems ks "" s ⟨d, [], false, false⟩) :=
  byKeyItems_quiet ks s hs "" ⟨d, [], false, false⟩ hte _ [] false (fun _ _ => rfl)

/-- Idempotence of the document synchronisation of one directory, with its backup-and-restore
    context (`create_backup` / in-memory backup), for any document file name. -/
theorem doc_sync_idempotent (o : Opts) (hdry : o.dry = false) (fn : Name) (src : Entries) (a : Acc)
    (hs : DocHyp o (docOf fn src)) (hok : (syncDoc o fn src a).err = none) (l : List Step) :
    (syncDoc o fn src ⟨(syncDoc o fn src a).d, l⟩).d = (syncDoc o fn src a).d ∧
    (syncDoc o fn src ⟨(syncDoc o fn src a).d, l⟩).err = none :=
  syncDoc_idem o hdry fn src a hs hok l

/-- **Idempotence of a whole job-level sync** (`sync_jobs(src_job, dst_job)`: file walk, then
    document merge), for every file strategy (also custom functions), comparison mode, exclusion
    table, clock value and every document strategy.  Hypothesis `JobHyp o sjob`: the document
    strategy is NO_SYNC or COPY, or else `DocPatOk o` and the source job document has distinct
    keys in every mapping.  Extends `sync_idempotent_partial`. -/
theorem sync_job_idempotent_partial (o : Opts) (hdry : o.dry = false) (sjob djob : Entries)
    (hwf : WFEntries sjob) (H : JobHyp o sjob) (hok : (syncJobDirs o sjob djob).err = none) :
    (syncJobDirs o sjob (syncJobDirs o sjob djob).d).d = (syncJobDirs o sjob djob).d ∧
    (syncJobDirs o sjob (syncJobDirs o sjob djob).d).err = none :=
  syncJobDirs_idem o hdry sjob djob hwf H hok

/-- A freshly cloned job is a fixed point of `sync_jobs` from its source (what the second project
    sync meets where the first one cloned). -/
theorem sync_clone_fixed_point (o : Opts) (sjob : Entries) (hwf : WFEntries sjob)
    (H : DocHyp o (docOf Extracted.FN_JOB_DOCUMENT sjob)) :
    (syncJobDirs o sjob (cloneJob o sjob)).d = cloneJob o sjob ∧
    (syncJobDirs o sjob (cloneJob o sjob)).err = none :=
  syncJobDirs_noop o sjob _ (clone_stable o sjob hwf H)

/-- **Idempotence of the project-level sync** (project document first, then the clone-or-sync loop
    over the selected source jobs).  `SyncHyp o src`: the project document satisfies `DocHyp`, and
    every source job satisfies `JobHyp`. -/
theorem sync_project_idempotent_partial (o : Opts) (hdry : o.dry = false) (src dst : Entries)
    (hwf : WFEntries src) (H : SyncHyp o src) (hok : (syncProjects o src dst).err = none) :
    (syncProjects o src (syncProjects o src dst).d).d = (syncProjects o src dst).d ∧
    (syncProjects o src (syncProjects o src dst).d).err = none :=
  syncProjects_idem o hdry src dst hwf H hok

/-- **`sync_idempotent`** — `sync_idempotent_full` with the one extra hypothesis `SyncHyp o w.src`
    (and without `WFEntries w.dst`, which is not needed): at every entry point, after a successful
    real sync, repeating the same call raises nothing and changes nothing.  No hypothesis on
    `o.now`, the mtimes, the strategy function, the key strategy or `o.gate`. -/
theorem sync_idempotent_full_partial (o : Opts) (e : Entry) (w : World) (hwf : WFEntries w.src)
    (hdry : o.dry = false) (H : SyncHyp o w.src) (hok : (run o e w).err = none) :
    (run o e (w.after o e)).err = none ∧ (run o e (w.after o e)).d = (w.after o e).dst :=
  run_idem o e w hwf hdry H hok

/-- for NO_SYNC and COPY there is no hypothesis at all -/
theorem sync_idempotent_nomerge (o : Opts) (e : Entry) (w : World) (hwf : WFEntries w.src)
    (hdry : o.dry = false) (hds : o.docSync = .noSync ∨ o.docSync = .copy)
    (hok : (run o e w).err = none) :
    (run o e (w.after o e)).err = none ∧ (run o e (w.after o e)).d = (w.after o e).dst := by
  apply run_idem o e w hwf hdry _ hok
  rcases hds with h | h
  · exact ⟨Or.inl h, fun _ _ _ => Or.inl h⟩
  · exact ⟨Or.inr (Or.inl h), fun _ _ _ => Or.inr (Or.inl h)⟩

/-! non-vacuity: a concrete pair of jobs satisfying the hypotheses above -/

def exOpts : Opts :=
  { strategy := .always, docSync := .byKey none, recursive := true,
    userExcl := fun n => n == "skip.log",
    spPat := fun n => n == Extracted.FN_STATE_POINT,
    docPat := fun n => n == Extracted.FN_JOB_DOCUMENT || n == Extracted.FN_JOB_DOCUMENT ++ "~",
    selection := none, checkSchema := false, gate := false, dry := false, deep := false, now := 9 }

def exSrcJob : Entries :=
  [(Extracted.FN_STATE_POINT, .file ⟨1, 8, 5, none⟩), ("f1", .file ⟨2, 1, 5, none⟩),
   ("sub", .dir [("x", .file ⟨3, 2, 5, none⟩)]), ("both", .file ⟨4, 1, 7, none⟩)]

def exDstJob : Entries :=
  [(Extracted.FN_STATE_POINT, .file ⟨1, 8, 5, none⟩), ("both", .file ⟨5, 1, 5, none⟩),
   ("only", .file ⟨6, 1, 5, none⟩)]

def exWorld : World :=
  { src := [(WS, .dir [("j1", .dir exSrcJob), ("j2", .dir exSrcJob)])],
    dst := [(WS, .dir [("j1", .dir exDstJob), ("j9", .dir exDstJob)])] }

example : WFEntries exSrcJob ∧ (syncJobDirs exOpts exSrcJob exDstJob).err = none ∧
    Reach exOpts exSrcJob exDstJob "f1" [] ⟨2, 1, 5, none⟩ ∧
    Reach exOpts exSrcJob exDstJob "sub" ["x"] ⟨3, 2, 5, none⟩ ∧
    lookupP "only" [] exSrcJob = none :=
  ⟨by simp [WFEntries, WFNode, exSrcJob, names, Extracted.FN_STATE_POINT], by decide,
   Reach.top (by rfl) (by rfl) (by decide),
   Reach.tree (sch := [("x", .file ⟨3, 2, 5, none⟩)]) (by rfl) (by rfl) (by decide) (by rfl)
     (InCopy.file (by rfl) (by decide)),
   by rfl⟩

example : (names (wsOf exWorld.src)).Nodup ∧ (run exOpts .project exWorld).err = none ∧
    getE "j1" (wsOf exWorld.src) = some (.dir exSrcJob) ∧ selected exOpts "j1" = true ∧
    (∀ sn, ("j9", sn) ∈ wsOf exWorld.src → selected exOpts "j9" = false) :=
  ⟨by decide, by decide, by rfl, by rfl, by
    intro sn h
    simp [exWorld, wsOf, getE, WS] at h⟩

example : ({ exOpts with docSync := .noSync } : Opts).docSync = .noSync ∧
    (syncJobDirs { exOpts with docSync := .noSync } exSrcJob exDstJob).err = none ∧
    (walkDir exOpts ["sub"] (.dir exSrcJob) exDstJob).err = none :=
  ⟨rfl, by decide, by decide⟩

example : DocOnly [("a", .obj [("x", .int 1)])] [("a", .obj [("y", .int 2)]), ("b", .int 3)] ["a", "y"] ∧
    DocOnly [("a", .obj [("x", .int 1)])] [("a", .obj [("y", .int 2)]), ("b", .int 3)] ["b"] :=
  ⟨DocOnly.sub (by decide) (by rfl) (by rfl) (DocOnly.top (by decide)), DocOnly.top (by decide)⟩

/-! non-vacuity of the idempotence hypotheses: two projects with documents on both sides, nested
    conflicts, a key strategy, one job to synchronise and one to clone -/

def exDocOpts : Opts := { exOpts with docSync := .byKey (some fun k => k == "cfg.n" || k == "a.n") }

def exDocSrcJob : Entries :=
  exSrcJob ++ [(Extracted.FN_JOB_DOCUMENT,
    .file ⟨7, 3, 5, some (.obj [("a", .obj [("n", .int 1), ("k", .int 0)]), ("b", .int 2)])⟩)]

def exDocDstJob : Entries :=
  exDstJob ++ [(Extracted.FN_JOB_DOCUMENT,
    .file ⟨8, 3, 5, some (.obj [("a", .obj [("n", .int 4)]), ("b", .int 9), ("c", .int 3)])⟩)]

def exDocWorld : World :=
  { src := [(Extracted.FN_PROJECT_DOCUMENT,
        .file ⟨9, 3, 5, some (.obj [("p", .int 1), ("cfg", .obj [("n", .int 2), ("m", .int 3)])])⟩),
      (WS, .dir [("j1", .dir exDocSrcJob), ("j2", .dir exDocSrcJob)])],
    dst := [(Extracted.FN_PROJECT_DOCUMENT,
        .file ⟨10, 3, 5, some (.obj [("cfg", .obj [("n", .int 5), ("z", .int 0)]), ("q", .int 7)])⟩),
      (WS, .dir [("j1", .dir exDocDstJob), ("j9", .dir exDstJob)])] }

example : DocPatOk exDocOpts := ⟨by decide, by decide⟩

theorem exDoc_hyp : SyncHyp exDocOpts exDocWorld.src := by
  have hj : NodupKeysObj (docOf Extracted.FN_JOB_DOCUMENT exDocSrcJob) := by
    simp [docOf, getE, exDocSrcJob, exSrcJob, NodupKeysObj, NodupKeysVal,
      Extracted.FN_JOB_DOCUMENT, Extracted.FN_STATE_POINT]
  refine ⟨Or.inr (Or.inr ?_), ?_⟩
  · simp [docOf, getE, exDocWorld, NodupKeysObj, NodupKeysVal]
  · intro id sjob h
    refine Or.inr (Or.inr ⟨⟨by decide, by decide⟩, ?_⟩)
    have hws : wsOf exDocWorld.src = [("j1", .dir exDocSrcJob), ("j2", .dir exDocSrcJob)] := by rfl
    rw [hws] at h
    simp only [getE] at h
    split at h
    · cases h; exact hj
    · split at h
      · cases h; exact hj
      · cases h

example : WFEntries exDocWorld.src ∧ exDocOpts.dry = false ∧
    (run exDocOpts .project exDocWorld).err = none ∧
    (run exDocOpts (.job "j1" "j1" 1) exDocWorld).err = none :=
  ⟨by simp [WFEntries, WFNode, exDocWorld, exDocSrcJob, exSrcJob, names, WS,
      Extracted.FN_JOB_DOCUMENT, Extracted.FN_STATE_POINT, Extracted.FN_PROJECT_DOCUMENT],
   rfl, by decide, by decide⟩

theorem exDoc_wf : WFEntries exDocWorld.src := by
  simp [WFEntries, WFNode, exDocWorld, exDocSrcJob, exSrcJob, names, WS,
    Extracted.FN_JOB_DOCUMENT, Extracted.FN_STATE_POINT, Extracted.FN_PROJECT_DOCUMENT]

/-- the theorem applied: the second project sync and the second job sync of the example -/
example : (run exDocOpts .project (exDocWorld.after exDocOpts .project)).err = none ∧
    (run exDocOpts .project (exDocWorld.after exDocOpts .project)).d =
      (exDocWorld.after exDocOpts .project).dst :=
  sync_idempotent_full_partial exDocOpts .project exDocWorld exDoc_wf rfl exDoc_hyp (by decide)

example : (run exDocOpts (.job "j1" "j1" 1) (exDocWorld.after exDocOpts (.job "j1" "j1" 1))).err = none ∧
    (run exDocOpts (.job "j1" "j1" 1) (exDocWorld.after exDocOpts (.job "j1" "j1" 1))).d =
      (exDocWorld.after exDocOpts (.job "j1" "j1" 1)).dst :=
  sync_idempotent_full_partial exDocOpts (.job "j1" "j1" 1) exDocWorld exDoc_wf rfl exDoc_hyp (by decide)

/-- the first project sync of the example really changes the destination (a job is cloned) -/
example : getE "j2" (wsOf exDocWorld.dst) = none ∧
    (getE "j2" (wsOf (exDocWorld.after exDocOpts .project).dst)).isSome = true :=
  ⟨by decide, by decide⟩


/-! ## The document merge on a LIVE destination (model: Signac/SyncLive.lean)

  The destination document is a file that another process may rewrite between any two accesses of
  the merge (`runLive env`: before step `n` the environment rewrites the file with `env n`).
  Proofs: Signac/Proofs/SyncLiveLemmas.lean. -/

/-- `live_refines_pure`, `DocSync.ByKey(ks)`: with no other process the step program ends with the
    file, the skipped keys, the "wrote anything" flag and the type-error flag of the pure model —
    for every key strategy, at every nesting depth, type errors included.  Hypotheses: mappings
    with pairwise distinct keys on both sides (true of every Python dict; needed because the code
    compares `dst[key] == value` in one place and `src == dst` in another and the model's `==`
    is symmetric only on such values). -/
theorem live_refines_pure (ks : Option (String → Bool)) (s d : Doc)
    (hs : NodupKeysObj s) (hd : NodupKeysObj d) :
    (runQuiet (liveByKey ks s) d).file = (byKeyItems ks "" s ⟨d, [], false, false⟩).dst ∧
    (runQuiet (liveByKey ks s) d).res.skipped = (byKeyItems ks "" s ⟨d, [], false, false⟩).skipped ∧
    (runQuiet (liveByKey ks s) d).res.wrote = (byKeyItems ks "" s ⟨d, [], false, false⟩).wrote ∧
    (runQuiet (liveByKey ks s) d).res.typeErr = (byKeyItems ks "" s ⟨d, [], false, false⟩).typeErr := by
  have h := runQuiet_eq (liveByKey ks s) d
  rw [liveByKey_quiet ks s d hs hd] at h
  rw [h.1, h.2]
  exact ⟨rfl, rfl, rfl, rfl⟩

/-- `live_refines_pure`, `DocSync.update`: no hypotheses. -/
theorem live_refines_pure_update (s d : Doc) :
    (runQuiet (liveUpdate s) d).file = updateItems s d ∧
    (runQuiet (liveUpdate s) d).res.skipped = [] ∧
    (runQuiet (liveUpdate s) d).res.wrote = !s.isEmpty ∧
    (runQuiet (liveUpdate s) d).res.typeErr = false := by
  have h := runQuiet_eq (liveUpdate s) d
  rw [liveUpdate_quiet s d] at h
  rw [h.1, h.2]
  exact ⟨rfl, rfl, rfl, rfl⟩

/-- … and against `runDocSync`, the function the directory-level model uses: whenever the pure
    strategy raises nothing, the quiet step program leaves its document and its `wrote` flag. -/
theorem live_refines_runDocSync (ds : DocSync) (s d : Doc) (hs : NodupKeysObj s) (hd : NodupKeysObj d)
    (hok : (runDocSync ds s d).err = none) :
    (runQuiet (liveDocSync ds s) d).file = (runDocSync ds s d).doc ∧
    (runQuiet (liveDocSync ds s) d).res.wrote = (runDocSync ds s d).wrote := by
  cases ds with
  | byKey ks =>
    have h := live_refines_pure ks s d hs hd
    have hte : (byKeyItems ks "" s ⟨d, [], false, false⟩).typeErr = false := by
      cases ht : (byKeyItems ks "" s ⟨d, [], false, false⟩).typeErr with
      | false => rfl
      | true => simp [runDocSync, ht] at hok
    simp only [liveDocSync, h.1, h.2.2.1]
    simp only [runDocSync, hte, Bool.false_eq_true, if_false]
    cases ks with
    | none => cases (byKeyItems none "" s ⟨d, [], false, false⟩).skipped <;> exact ⟨rfl, rfl⟩
    | some f => exact ⟨rfl, rfl⟩
  | update =>
    have h := live_refines_pure_update s d
    exact ⟨h.1, h.2.2.1⟩
  | noSync => exact ⟨rfl, rfl⟩
  | copy => exact ⟨rfl, rfl⟩

/-- `live_foreign_keys_preserved` — `DocSync.ByKey` with any key strategy, `DocSync.update`
    (and NO_SYNC / COPY, which run no merge).  The environment is ANY sequence of rewrites each of
    which leaves every top-level key of the source untouched; it may add, change and delete any
    other top-level key, and it may read everything.  Then
      (1) the merge reports what the quiet run reports (skipped keys, wrote, type error);
      (2) under every top-level key of the source the final file holds what the quiet run leaves;
      (3) NO STEP of the merge changes any other top-level key: for every step, the file just
          after the step holds under every key the source does not mention exactly what the
          environment's last rewrite left there (`traceLive`: the pairs (file as the environment
          left it before the step, file after the step));
      (4) the final file is the file after the last step (the initial one if there was no step).
    So whatever the other process wrote to keys the source does not hold survives: the sync never
    puts back a stale copy. -/
theorem live_foreign_keys_preserved (ds : DocSync) (s d : Doc) (hs : NodupKeysObj s) (hd : NodupKeysObj d)
    (env : Nat → Doc → Doc)
    (henv : ∀ n x, ∀ k ∈ keys s, lookupKV k (env n x) = lookupKV k x) :
    (runLive env (liveDocSync ds s) d).res = (runQuiet (liveDocSync ds s) d).res ∧
    (∀ k ∈ keys s, lookupKV k (runLive env (liveDocSync ds s) d).file =
        lookupKV k (runQuiet (liveDocSync ds s) d).file) ∧
    (∀ ba ∈ traceLive env (liveDocSync ds s) d, ∀ k, k ∉ keys s → lookupKV k ba.2 = lookupKV k ba.1) ∧
    (runLive env (liveDocSync ds s) d).file =
      (((traceLive env (liveDocSync ds s) d).getLast?).map Prod.snd).getD d := by
  have hsim := liveDocSync_sim ds s d hs hd env henv
  have hq := runQuiet_eq (liveDocSync ds s) d
  refine ⟨by rw [hsim.1, hq.2], fun k hk => by rw [hsim.2 k hk, hq.1], ?_, ?_⟩
  · exact (liveDocSync_onlyWrites ds s).trace env 0 d
  · exact runLiveFrom_file_trace env _ 0 d

/-- `DocSync.update` reads nothing of the destination: (1) and (2) without the distinct-keys
    hypotheses. -/
theorem live_foreign_keys_preserved_update (s d : Doc) (env : Nat → Doc → Doc)
    (henv : ∀ n x, ∀ k ∈ keys s, lookupKV k (env n x) = lookupKV k x) :
    (runLive env (liveUpdate s) d).res = (runQuiet (liveUpdate s) d).res ∧
    (∀ k ∈ keys s, lookupKV k (runLive env (liveUpdate s) d).file =
        lookupKV k (runQuiet (liveUpdate s) d).file) ∧
    (∀ ba ∈ traceLive env (liveUpdate s) d, ∀ k, k ∉ keys s → lookupKV k ba.2 = lookupKV k ba.1) := by
  have hsim := (liveUpdate_resp s).sim henv 0 d d (AgreeOn.refl _ d)
  have hq := runQuiet_eq (liveUpdate s) d
  exact ⟨by rw [hq.2]; exact hsim.1, fun k hk => by rw [hq.1]; exact hsim.2 k hk,
    (liveUpdate_resp s).onlyWrites.trace env 0 d⟩

/-- (3) and (4) need nothing at all: not even an environment that keeps off the source's keys. -/
theorem live_steps_keep_foreign_keys (ds : DocSync) (s d : Doc) (env : Nat → Doc → Doc) :
    ∀ ba ∈ traceLive env (liveDocSync ds s) d, ∀ k, k ∉ keys s → lookupKV k ba.2 = lookupKV k ba.1 :=
  (liveDocSync_onlyWrites ds s).trace env 0 d

/-- The same as an invariant: any step-indexed property `I` of the part of the file outside the
    source's keys that every rewrite of the environment maintains holds of the final file. -/
theorem live_foreign_invariant (ds : DocSync) (s d : Doc) (env : Nat → Doc → Doc) (I : Nat → Doc → Prop)
    (hI : ∀ n x y, (∀ j, j ∉ keys s → lookupKV j x = lookupKV j y) → I n x → I n y)
    (henv : ∀ n x, I n x → I (n + 1) (env n x)) (h0 : I 0 d) :
    I (runLive env (liveDocSync ds s) d).steps (runLive env (liveDocSync ds s) d).file :=
  (liveDocSync_onlyWrites ds s).foreign_inv env I hI henv 0 d h0

/-- "In particular a key written by the other process during the merge is still there afterwards":
    the other process sets the foreign key `j` to `c` (`none`: deletes it) at step `i` and leaves
    it alone afterwards; every run that reaches step `i` ends with `c` under `j`. -/
theorem live_foreign_write_survives (ds : DocSync) (s d : Doc) (env : Nat → Doc → Doc)
    (j : String) (hj : j ∉ keys s) (i : Nat) (c : Option JVal)
    (hw : ∀ x, lookupKV j (env i x) = c)
    (hkeep : ∀ n x, i < n → lookupKV j (env n x) = lookupKV j x)
    (hlong : i < (runLive env (liveDocSync ds s) d).steps) :
    lookupKV j (runLive env (liveDocSync ds s) d).file = c :=
  (liveDocSync_onlyWrites ds s).write_survives env j hj i c hw hkeep d hlong

/-! ### the `foldl` form of the clause

  "For every `k ∉ keys s` the final file holds under `k` what the environment's rewrites ALONE
  produce from the initial file" is FALSE for arbitrary rewrites `Doc → Doc`: a rewrite may READ a
  key of the source (without changing it) and derive a foreign key from it; run alone it reads
  the old value, run during the sync it reads the merged one.  (Nothing wrong with the code: the
  other process sees the merge in progress.)  It is true of rewrites whose effect on the foreign
  keys depends on the foreign keys only (`ForeignLocal`). -/

/-- source and destination of the counterexample; the other process copies `a` to `z` at step 4 -/
def cexS : Doc := [("a", .int 1), ("b", .int 2)]
def cexD : Doc := [("a", .int 0)]
def cexEnv : Nat → Doc → Doc := fun n x =>
  if n = 4 then setKV "z" ((lookupKV "a" x).getD .null) x else x

theorem cexEnv_keeps : ∀ n x, ∀ k ∈ keys cexS, lookupKV k (cexEnv n x) = lookupKV k x := by
  intro n x k hk
  simp only [cexEnv]
  split
  · refine lookupKV_setKV_other ?_ _ _
    simp only [cexS, List.map_cons, List.map_nil, List.mem_cons, List.not_mem_nil, or_false] at hk
    rcases hk with e | e <;> subst e <;> decide
  · rfl

/-- `live_foreign_keys_preserved` in its `foldl` form, REFUTED: the merge has already set `a` to 1
    when the other process copies it to `z`; alone, the other process would have copied the 0. -/
theorem live_foreign_envOnly_refuted :
    ¬ (∀ (ks : Option (String → Bool)) (s d : Doc) (env : Nat → Doc → Doc),
        NodupKeysObj s → NodupKeysObj d →
        (∀ n x, ∀ k ∈ keys s, lookupKV k (env n x) = lookupKV k x) →
        ∀ k, k ∉ keys s →
          lookupKV k (runLive env (liveByKey ks s) d).file =
          lookupKV k (envOnly env (runLive env (liveByKey ks s) d).steps d)) := by
  intro h
  have h1 := h (some fun _ => true) cexS cexD cexEnv
    (by simp [cexS, NodupKeysObj, NodupKeysVal]) (by simp [cexD, NodupKeysObj, NodupKeysVal])
    cexEnv_keeps "z" (by decide)
  have e1 : lookupKV "z" (runLive cexEnv (liveByKey (some fun _ => true) cexS) cexD).file = some (.int 1) := rfl
  have e2 : lookupKV "z" (envOnly cexEnv (runLive cexEnv (liveByKey (some fun _ => true) cexS) cexD).steps cexD)
      = some (.int 0) := rfl
  rw [e1, e2] at h1
  cases h1

/-- `live_foreign_keys_preserved_partial`: the `foldl` form under the extra hypothesis
    `ForeignLocal (keys s) env` — what a rewrite makes of the keys outside the source depends only
    on the keys outside the source.  Then under every key the source does not hold the final file
    holds exactly what the rewrites that were applied (`env 0`, …, `env (steps-1)`), run alone on
    the initial file, produce.  (Neither distinct keys nor "the environment keeps off the source's
    keys" is needed for this half.) -/
theorem live_foreign_keys_preserved_partial (ds : DocSync) (s d : Doc) (env : Nat → Doc → Doc)
    (hloc : ForeignLocal (keys s) env) :
    ∀ k, k ∉ keys s →
      lookupKV k (runLive env (liveDocSync ds s) d).file =
      lookupKV k ((List.range (runLive env (liveDocSync ds s) d).steps).foldl (fun x i => env i x) d) :=
  (liveDocSync_onlyWrites ds s).envOnly env hloc d

/-! ### the regression: merge into a snapshot, write the whole document back -/

/-- a source/destination pair with a nested conflict (`params.n`), a nested key only in the
    source (`params.m`), one only in the destination (`params.z`), a new key (`tag`) and a key
    the source does not mention (`progress`) -/
def exLiveSrc : Doc := [("params", .obj [("n", .int 2), ("m", .int 3)]), ("tag", .str "x")]
def exLiveDst : Doc := [("params", .obj [("n", .int 5), ("z", .int 0)]), ("progress", .obj [("step", .int 1)])]

/-- the running job: just before step `t` of the sync it records `progress.step = 2` and adds
    `checkpoint` -/
def exLiveEnv (t : Nat) : Nat → Doc → Doc := fun n x =>
  if n = t then setKV "checkpoint" (.int 7) (setPath ["progress", "step"] (.int 2) x) else x

def exAll : Option (String → Bool) := some fun _ => true

theorem exLiveEnv_keeps (t : Nat) : ∀ n x, ∀ k ∈ keys exLiveSrc, lookupKV k (exLiveEnv t n x) = lookupKV k x := by
  intro n x k hk
  simp only [exLiveEnv]
  split
  · simp only [exLiveSrc, List.map_cons, List.map_nil, List.mem_cons, List.not_mem_nil, or_false] at hk
    rw [lookupKV_setKV_other (by rcases hk with e | e <;> subst e <;> decide),
      lookupKV_setPath_other (by rcases hk with e | e <;> subst e <;> decide)]
  · rfl

/-- `snapshot_merge_loses_writes`: the regression (`mergeSnapshot`: load once, run the pure merge,
    store the whole document) and the code as it is (`liveDocSync`) agree when nobody else writes,
    but when the job records its progress between the load and the write-back the snapshot
    merge DROPS the new key `checkpoint` and puts the stale `progress.step` back, while the step
    program keeps both — for `ByKey` and for `update`.  So `live_foreign_keys_preserved` is not
    vacuous and tells the two implementations apart. -/
theorem snapshot_merge_loses_writes :
    -- quiet: no difference
    (runQuiet (mergeSnapshot (.byKey exAll) exLiveSrc) exLiveDst).file =
      (runQuiet (liveDocSync (.byKey exAll) exLiveSrc) exLiveDst).file ∧
    -- the other process writes just before step 1
    lookupKV "checkpoint" (runLive (exLiveEnv 1) (mergeSnapshot (.byKey exAll) exLiveSrc) exLiveDst).file = none ∧
    getPath ["progress", "step"] (runLive (exLiveEnv 1) (mergeSnapshot (.byKey exAll) exLiveSrc) exLiveDst).file
      = some (.int 1) ∧
    lookupKV "checkpoint" (runLive (exLiveEnv 1) (liveDocSync (.byKey exAll) exLiveSrc) exLiveDst).file
      = some (.int 7) ∧
    getPath ["progress", "step"] (runLive (exLiveEnv 1) (liveDocSync (.byKey exAll) exLiveSrc) exLiveDst).file
      = some (.int 2) ∧
    -- the same for `DocSync.update`
    lookupKV "checkpoint" (runLive (exLiveEnv 1) (mergeSnapshot .update exLiveSrc) exLiveDst).file = none ∧
    lookupKV "checkpoint" (runLive (exLiveEnv 1) (liveDocSync .update exLiveSrc) exLiveDst).file
      = some (.int 7) ∧
    -- the regression violates clause (3) of `live_foreign_keys_preserved`
    ¬ (∀ ba ∈ traceLive (exLiveEnv 1) (mergeSnapshot (.byKey exAll) exLiveSrc) exLiveDst,
        ∀ k, k ∉ keys exLiveSrc → lookupKV k ba.2 = lookupKV k ba.1) := by
  refine ⟨rfl, rfl, rfl, rfl, rfl, rfl, rfl, ?_⟩
  intro h
  have h1 := h (_, _) (List.mem_cons_of_mem _ (List.mem_cons_self)) "checkpoint" (by decide)
  have e1 : lookupKV "checkpoint"
      (setPath [] (.obj (byKeyItems exAll "" exLiveSrc ⟨exLiveEnv 1 0 exLiveDst, [], false, false⟩).dst)
        (exLiveEnv 1 1 (exLiveEnv 1 0 exLiveDst))) = none := rfl
  have e2 : lookupKV "checkpoint" (exLiveEnv 1 1 (exLiveEnv 1 0 exLiveDst)) = some (.int 7) := rfl
  exact absurd (h1.symm.trans e1) (by rw [e2]; simp)

/-! ### non-vacuity -/

/-- the example run, other process at step 2 (after `src == dst` and `"params" in dst`): the
    nested conflict `params.n` is resolved by the key strategy, `params.m` and `tag` are added,
    `params.z` stays, and both writes of the other process are in the final file -/
example : (runLive (exLiveEnv 2) (liveByKey exAll exLiveSrc) exLiveDst).file =
    [("params", .obj [("n", .int 2), ("z", .int 0), ("m", .int 3)]),
     ("progress", .obj [("step", .int 2)]), ("checkpoint", .int 7), ("tag", .str "x")] ∧
    (runLive (exLiveEnv 2) (liveByKey exAll exLiveSrc) exLiveDst).steps = 12 ∧
    (runLive (exLiveEnv 2) (liveByKey exAll exLiveSrc) exLiveDst).res.skipped = [] := ⟨rfl, rfl, rfl⟩

/-- without a key strategy: the conflict is recorded under its dotted key and `params.n` keeps the
    destination's value; the other process's writes survive all the same -/
example : (runLive (exLiveEnv 2) (liveByKey none exLiveSrc) exLiveDst).file =
    [("params", .obj [("n", .int 5), ("z", .int 0), ("m", .int 3)]),
     ("progress", .obj [("step", .int 2)]), ("checkpoint", .int 7), ("tag", .str "x")] ∧
    (runLive (exLiveEnv 2) (liveByKey none exLiveSrc) exLiveDst).res.skipped = ["params.n"] := ⟨rfl, rfl⟩

/-- the quiet run of the same pair (= the pure model, by `live_refines_pure`) -/
example : (runQuiet (liveByKey exAll exLiveSrc) exLiveDst).file =
    [("params", .obj [("n", .int 2), ("z", .int 0), ("m", .int 3)]),
     ("progress", .obj [("step", .int 1)]), ("tag", .str "x")] := rfl

/-- the hypotheses of the theorems hold of the example -/
example : NodupKeysObj exLiveSrc ∧ NodupKeysObj exLiveDst :=
  ⟨by simp [exLiveSrc, NodupKeysObj, NodupKeysVal], by simp [exLiveDst, NodupKeysObj, NodupKeysVal]⟩

/-- `live_foreign_keys_preserved` applied to the example, any key strategy, any strike time -/
example (ks : Option (String → Bool)) (t : Nat) :
    (runLive (exLiveEnv t) (liveDocSync (.byKey ks) exLiveSrc) exLiveDst).res =
      (runQuiet (liveDocSync (.byKey ks) exLiveSrc) exLiveDst).res ∧
    ∀ k ∈ keys exLiveSrc, lookupKV k (runLive (exLiveEnv t) (liveDocSync (.byKey ks) exLiveSrc) exLiveDst).file =
      lookupKV k (runQuiet (liveDocSync (.byKey ks) exLiveSrc) exLiveDst).file :=
  have h := live_foreign_keys_preserved (.byKey ks) exLiveSrc exLiveDst
    (by simp [exLiveSrc, NodupKeysObj, NodupKeysVal]) (by simp [exLiveDst, NodupKeysObj, NodupKeysVal])
    (exLiveEnv t) (exLiveEnv_keeps t)
  ⟨h.1, h.2.1⟩

/-- `live_foreign_write_survives` applied: `checkpoint`, written at step 2, is there at the end
    of the 12-step run -/
example : lookupKV "checkpoint" (runLive (exLiveEnv 2) (liveDocSync (.byKey exAll) exLiveSrc) exLiveDst).file
    = some (.int 7) :=
  live_foreign_write_survives (.byKey exAll) exLiveSrc exLiveDst (exLiveEnv 2) "checkpoint" (by decide) 2
    (some (.int 7))
    (fun x => by simp only [exLiveEnv, if_true]; exact lookupKV_setKV_same _ _ _)
    (fun n x hn => by
      have : ¬ n = 2 := by omega
      simp only [exLiveEnv, this, if_false])
    (by decide)

end Signac.C13

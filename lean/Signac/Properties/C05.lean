/-
  C05 — job and project documents are faithful persistent dicts; buffering is transparent.
  Property theorems only; the model is `Signac/Doc.lean`, helper lemmas live in `Signac/Proofs/Doc*.lean`.

  How values are compared.  `Sim a b`: the same keys (dict entries in any order), the same list
  lengths, the same strings, `None` only with `None`, and numeric leaves of the same VALUE —
  `True`, `1`, `1.0` are identified, because the dependency's `_update` (used by every load, by
  `reset` / `document = …` and by `update`) keeps the value it already holds when the new one
  compares `==`.  Everything else is compared exactly.  An absent document file counts as the
  empty document (`content`, `CSim`) — except in `buffered_files_*`, which are about which files exist.

  Standing hypotheses.  `WFWorld` / `WFCmd`: no duplicate keys (every Python dict satisfies this);
  `Coherent`: a handle whose file does not exist holds `{}`;  `… .hit = false`: no merge of the run
  meets `None` where the handle remembers a dict / list — finding F-5d (`none_over_collection`):
  there the dependency silently keeps the old value, so the statement would be false.
-/
import Signac.Proofs.DocWorld
import Signac.Proofs.DocBuffered
namespace Signac.C05
open Signac Signac.Doc

/-- UNBUFFERED.  Any program of document operations, through any number of handle objects in any
    interleaving (with file observations and `remove()`), leaves in every document file what the
    same operations leave in a plain `dict` per document, and every result (returned values, the
    whole-document reads through ANY handle, raised error kinds, observed files) is the plain
    dict's. -/
theorem doc_refines_dict (cmds : List Cmd) (w₀ : World)
    (hd : w₀.depth = 0) (hw : WFWorld w₀) (hc : Coherent w₀)
    (hcmds : ∀ c ∈ cmds, c.isBlock = false ∧ WFCmd c)
    (hnohit : (run cmds w₀).1.hit = false) :
    (∀ f, Sim (content ((run cmds w₀).1.files f))
              ((specRun w₀.fileOf cmds (fun f => content (w₀.files f))).1 f)) ∧
    List.Forall₂ OutSimF (run cmds w₀).2 (specRun w₀.fileOf cmds (fun f => content (w₀.files f))).2 := by
  have I : UInv w₀ (fun f => content (w₀.files f)) := ⟨hd, hw, hc, fun _ => Sim.refl _⟩
  obtain ⟨I', ho⟩ := uinv_run cmds w₀ _ I hcmds hnohit
  exact ⟨I'.sim, ho⟩

/-- After an operation through handle `o` that is followed by a save, the file holds exactly what
    `o` holds, and a read through ANY other handle `o'` of the same document returns it (`Sim`). -/
theorem read_sees_last_write (w : World) (o o' : Nat) (op : DictOp)
    (hd : w.depth = 0) (hw : WFWorld w) (hop : WFOp op) (hf : w.fileOf o' = w.fileOf o)
    (hs : (memOp op (opData w o op)).saved = true)
    (hnohit : (execOp (execOp w o op).1 o' .read).1.hit = false) :
    (execOp w o op).1.files (w.fileOf o) = some ((execOp w o op).1.data o) ∧
    ∃ x, (execOp (execOp w o op).1 o' .read).2 = .val x ∧ Sim x ((execOp w o op).1.data o) := by
  obtain ⟨h1, h2, h3⟩ := saved_on_disk hd o op hs
  refine ⟨h1, ?_⟩
  have hw1 := wfWorld_execOp0 hd hw o op hop
  exact read_from_disk h2 hw1 o' (by rw [h3, hf]; exact h1) hnohit

/-- One handle object per document inside the blocks: `rep f` is the handle used for document `f`. -/
def OneObjectPerFile (P : List Cmd) (w₀ : World) (rep : Nat → Nat) : Prop :=
  ∀ c ∈ P, CmdOK w₀.fileOf rep c

/-- BUFFERED = UNBUFFERED (contents).  Any program with buffered blocks — any capacities, any nesting,
    any mix of buffered and unbuffered stretches, several documents — in which every document is used
    through one handle object, leaves, once all blocks are closed, the same document in every file as
    the same operations without any block. -/
theorem buffered_equiv_partial (P : List Cmd) (w₀ : World) (rep : Nat → Nat)
    (h1 : OneObjectPerFile P w₀ rep)
    (hd : w₀.depth = 0) (hb : ∀ f, w₀.buf f = none) (ho : w₀.order = [])
    (hw : WFWorld w₀) (hc : Coherent w₀)
    (hhb : (run P w₀).1.hit = false) (hhu : (run (stripBlocks P) w₀).1.hit = false)
    (hclosed : (run P w₀).1.depth = 0) :
    ∀ f, CSim ((run P w₀).1.files f) ((run (stripBlocks P) w₀).1.files f) := by
  obtain ⟨hB, _⟩ := binv_run P (binv_init rep hd hb ho hw hc) h1 hhb hhu
  exact fun f => (binv_final hB hclosed f).1

/-- READS INSIDE BLOCKS.  Under the same hypotheses every operation of the program — in particular
    every `get` / whole-document read inside a block through the writing handle — returns what the
    unbuffered run returns at that point (and therefore, by `doc_refines_dict`, what a plain dict
    holding the block's own writes returns). -/
theorem buffered_read_own_writes (P : List Cmd) (w₀ : World) (rep : Nat → Nat)
    (h1 : OneObjectPerFile P w₀ rep)
    (hd : w₀.depth = 0) (hb : ∀ f, w₀.buf f = none) (ho : w₀.order = [])
    (hw : WFWorld w₀) (hc : Coherent w₀)
    (hhb : (run P w₀).1.hit = false) (hhu : (run (stripBlocks P) w₀).1.hit = false) :
    OutsRel P (run P w₀).2 (run (stripBlocks P) w₀).2 :=
  (binv_run P (binv_init rep hd hb ho hw hc) h1 hhb hhu).2

/-- no document that did not exist at the start is left as an EMPTY document file by the unbuffered
    run (`noop_on_absent_doc` is the negation of this) -/
def NoNoopOnAbsent (P : List Cmd) (w₀ : World) : Prop :=
  ∀ f, w₀.files f = none → (run (stripBlocks P) w₀).1.files f ≠ some (.obj [])

/-- BUFFERED = UNBUFFERED (set of files), further assuming `NoNoopOnAbsent`. -/
theorem buffered_files_partial (P : List Cmd) (w₀ : World) (rep : Nat → Nat)
    (h1 : OneObjectPerFile P w₀ rep) (h2 : NoNoopOnAbsent P w₀)
    (hd : w₀.depth = 0) (hb : ∀ f, w₀.buf f = none) (ho : w₀.order = [])
    (hw : WFWorld w₀) (hc : Coherent w₀)
    (hhb : (run P w₀).1.hit = false) (hhu : (run (stripBlocks P) w₀).1.hit = false)
    (hclosed : (run P w₀).1.depth = 0) :
    ∀ f, (run P w₀).1.files f = none ↔ (run (stripBlocks P) w₀).1.files f = none := by
  obtain ⟨hB, _⟩ := binv_run P (binv_init rep hd hb ho hw hc) h1 hhb hhu
  intro f
  obtain ⟨hcs, hsub⟩ := binv_final hB hclosed f
  refine ⟨fun hn => ?_, hsub⟩
  cases hu : (run (stripBlocks P) w₀).1.files f with
  | none => rfl
  | some v =>
    exfalso
    rw [hn, hu] at hcs
    have hv : v = .obj [] := sim_to_empty (Sim.symm hcs)
    have hnorm : ∀ c ∈ P, ∀ g, c ≠ .rm g := by
      intro c hcP g e
      have := h1 c hcP
      rw [e] at this
      exact this
    exact h2 f (files_run P hnorm f hn) (hv ▸ hu)

/-! ### the full statements are false of the model (and of the code): F-5b, F-5a -/

/-- `buffered_equiv_partial` without "one handle object per document" -/
def buffered_equiv_full : Prop :=
  ∀ (P : List Cmd) (w₀ : World), (∀ c ∈ P, WFCmd c ∧ ∀ g, c ≠ .rm g) →
    w₀.depth = 0 → (∀ f, w₀.buf f = none) → w₀.order = [] → WFWorld w₀ → Coherent w₀ →
    (run P w₀).1.hit = false → (run (stripBlocks P) w₀).1.hit = false → (run P w₀).1.depth = 0 →
    ∀ f, CSim ((run P w₀).1.files f) ((run (stripBlocks P) w₀).1.files f)

/-- `buffered_files_partial` without `NoNoopOnAbsent` -/
def buffered_files_full : Prop :=
  ∀ (P : List Cmd) (w₀ : World) (rep : Nat → Nat), OneObjectPerFile P w₀ rep →
    w₀.depth = 0 → (∀ f, w₀.buf f = none) → w₀.order = [] → WFWorld w₀ → Coherent w₀ →
    (run P w₀).1.hit = false → (run (stripBlocks P) w₀).1.hit = false → (run P w₀).1.depth = 0 →
    ∀ f, (run P w₀).1.files f = none ↔ (run (stripBlocks P) w₀).1.files f = none

/-- one job document (file 0), no file yet, every handle object points at it -/
def fresh : World := World.init 1 (fun _ => 0) (fun _ => none)

theorem fresh_wf : WFWorld fresh where
  data := fun _ => wf_empty
  files := fun _ _ h => by simp [fresh, World.init] at h
  buf := fun _ _ h => by simp [fresh, World.init] at h
theorem fresh_coherent : Coherent fresh := fun _ _ => Sim.refl _

/-- F-5b: `with buffered(): B.get('y'); A.get('z'); B['x'] = 's'` -/
def witness5b : List Cmd :=
  [.enter none, .op 1 (.get "y"), .op 0 (.get "z"), .op 1 (.nset [] "x" (.str "s")), .exit]

/-- F-5a: `with buffered(): A.pop('q', None)` on a job without a document file -/
def witness5a : List Cmd := [.enter none, .op 0 (.pop "q" .null), .exit]

theorem not_buffered_equiv_full : ¬ buffered_equiv_full := by
  intro h
  have := h witness5b fresh
    (by intro c hc; simp only [witness5b, List.mem_cons, List.mem_nil_iff, or_false] at hc
        rcases hc with rfl | rfl | rfl | rfl | rfl <;>
          exact ⟨by simp [WFCmd, WFOp, WF], fun g e => by cases e⟩)
    rfl (fun _ => rfl) rfl fresh_wf fresh_coherent (by decide) (by decide) (by decide) 0
  have e1 : (run witness5b fresh).1.files 0 = none := by decide
  have e2 : (run (stripBlocks witness5b) fresh).1.files 0 = some (.obj [("x", .str "s")]) := by rfl
  rw [e1, e2] at this
  have := (Sim.obj_inv this).1 "x"
  simp [lookupKV] at this

theorem not_buffered_files_full : ¬ buffered_files_full := by
  intro h
  have := h witness5a fresh (fun _ => 0)
    (by intro c hc; simp only [witness5a, List.mem_cons, List.mem_nil_iff, or_false] at hc
        rcases hc with rfl | rfl | rfl <;> simp [CmdOK, WFOp])
    rfl (fun _ => rfl) rfl fresh_wf fresh_coherent (by decide) (by decide) (by decide) 0
  have e1 : (run witness5a fresh).1.files 0 = none := by decide
  have e2 : (run (stripBlocks witness5a) fresh).1.files 0 = some (.obj []) := by rfl
  rw [e1, e2] at this
  exact absurd (this.mp rfl) (by simp)

/-! ### non-vacuity: the hypotheses are satisfiable by non-trivial programs -/

/-- two handles interleaved, a type-only `update` (the `==`-skip), a nested list mutation, a read -/
def demoU : List Cmd :=
  [.op 0 (.nset [] "a" (.int 1)), .op 1 (.update [("a", .flt 1 0 "1.0"), ("l", .arr [])]),
   .op 0 (.napp [.key "l"] (.bool true)), .op 1 .read, .file 0]

example : fresh.depth = 0 ∧ WFWorld fresh ∧ Coherent fresh ∧
    (∀ c ∈ demoU, c.isBlock = false ∧ WFCmd c) ∧ (run demoU fresh).1.hit = false ∧
    (run demoU fresh).2.getLast? = some (.val (.obj [("a", .int 1), ("l", .arr [.bool true])])) := by
  refine ⟨rfl, fresh_wf, fresh_coherent, ?_, by decide, by rfl⟩
  intro c hc
  simp only [demoU, List.mem_cons, List.mem_nil_iff, or_false] at hc
  rcases hc with rfl | rfl | rfl | rfl | rfl <;> simp [Cmd.isBlock, WFCmd, WFOp, WF, WFObj, WFList]

/-- `read_sees_last_write`: handle 0 writes, handle 1 reads -/
example : fresh.fileOf 1 = fresh.fileOf 0 ∧
    (memOp (.nset [] "a" (.int 1)) (opData fresh 0 (.nset [] "a" (.int 1)))).saved = true ∧
    (execOp (execOp fresh 0 (.nset [] "a" (.int 1))).1 1 .read).1.hit = false :=
  ⟨rfl, by rfl, by decide⟩

/-- like `fresh`, but every other file id holds an (irrelevant) empty document -/
def fresh1 : World := World.init 1 (fun _ => 0) (fun f => if f = 0 then none else some (.obj []))

/-- executable check "file `f` holds exactly `v`" -/
def fileIs (w : World) (f : Nat) (v : JVal) : Bool :=
  match w.files f with
  | some x => jsame x v
  | none => false

/-- nested blocks, a capacity-0 block (forced flush after every access), one handle per document -/
def demoB : List Cmd :=
  [.op 0 (.nset [] "k" (.int 0)), .enter none, .op 0 (.nset [] "x" (.str "s")), .enter (some 0),
   .op 0 (.get "x"), .op 0 (.ndel [] "k"), .exit, .op 0 .read, .exit, .file 0]

example : OneObjectPerFile demoB fresh1 (fun _ => 0) ∧ NoNoopOnAbsent demoB fresh1 ∧
    fresh1.depth = 0 ∧ (∀ f, fresh1.buf f = none) ∧ fresh1.order = [] ∧ WFWorld fresh1 ∧ Coherent fresh1 ∧
    (run demoB fresh1).1.hit = false ∧ (run (stripBlocks demoB) fresh1).1.hit = false ∧
    (run demoB fresh1).1.depth = 0 ∧
    fileIs (run demoB fresh1).1 0 (.obj [("x", .str "s")]) = true := by
  refine ⟨?_, ?_, rfl, fun _ => rfl, rfl, ?_, ?_, by decide +kernel, by decide +kernel, by decide +kernel,
    by decide +kernel⟩
  · intro c hc
    simp only [demoB, List.mem_cons, List.mem_nil_iff, or_false] at hc
    rcases hc with rfl | rfl | rfl | rfl | rfl | rfl | rfl | rfl | rfl | rfl <;> simp [CmdOK, WFOp, WF]
  · intro f hf
    have hf0 : f = 0 := by
      simp only [fresh1, World.init] at hf
      split at hf
      · assumption
      · cases hf
    subst hf0
    intro h
    have h1 : fileIs (run (stripBlocks demoB) fresh1).1 0 (.obj []) = true := by
      unfold fileIs; rw [h]; rfl
    have h2 : fileIs (run (stripBlocks demoB) fresh1).1 0 (.obj []) = false := by decide +kernel
    rw [h1] at h2; cases h2
  · exact ⟨fun _ => wf_empty, fun f v h => by
      simp only [fresh1, World.init] at h
      split at h
      · cases h
      · cases h; exact wf_empty, fun _ _ h => by simp [fresh1, World.init] at h⟩
  · intro o _; exact Sim.refl _

end Signac.C05

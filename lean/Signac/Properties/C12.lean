/-
  C12 — concurrent processes initialise jobs and write documents without corruption.
  Property theorems only; the model is Signac/Concurrency.lean, helper lemmas live in
  Signac/Proofs/Conc*.lean.

  All theorems hold for ANY number of actors, ANY scripts over the alphabet
  {Project(); open_job(sp).init(); job.doc[k]=v; job.doc(); len(project)} and ANY schedule
  (list of actor indices, each entry = one file-system primitive of that actor); `hash` (the job
  id function) is an arbitrary parameter.
-/
import Signac.Proofs.ConcInv
import Signac.Proofs.ConcVisible
import Signac.Proofs.ConcFinal
import Signac.Proofs.ConcTerm
namespace Signac.C12
open Signac.Conc
variable {SP DV : Type} {hash : SP → JobId}

/-- `SysInv` (well-shaped file system: every state point file present is complete and hashes to
    its directory, every document file is a complete JSON object, temp files hold an empty or a
    complete payload and belong to the actor saving exactly that file; every actor has met no
    exception and the directories / files its program counter relies on exist) is preserved by
    every step of every actor. -/
theorem sys_inv_step {s : Sys SP DV} (h : SysInv hash s) (a : Nat) : SysInv hash (sysStep hash s a) :=
  (sysStep_inv_guar h a).1

/-- … hence it holds after every schedule. -/
theorem sys_inv_all_schedules {s : Sys SP DV} (h : SysInv hash s) (sched : List Nat) :
    SysInv hash (run hash s sched) := run_inv h sched

/-- Every configuration the property speaks about satisfies the invariant initially: a
    well-shaped workspace without temp files and any number of processes, each about to run
    `Project()` followed by an arbitrary script. -/
theorem sys_inv_initially {fs : FS SP DV} (hfs : FsInv hash fs)
    (hnt : ∀ i k a, fs.get (.tmp i k a) = none) (scripts : List (List (Op SP DV))) :
    SysInv hash { fs := fs, actors := scripts.map AState.start } := initial_inv hfs hnt scripts

/-- No actor ever fails: in every state reachable by any schedule no exception has escaped from
    any process — in particular no `mkdir` race, no failed save, and every validating load of
    `init` (the one after the write, too) succeeds. -/
theorem no_actor_fails {s : Sys SP DV} (h : SysInv hash s) (sched : List Nat) :
    NoFailure (run hash s sched) := by
  intro st hst
  obtain ⟨a, ha, rfl⟩ := List.mem_iff_getElem.1 hst
  exact ((run_inv h sched).actors a _ (List.getElem?_eq_getElem ha)).noFail

/-- No torn read: whatever a process reads, at any point of any schedule, is the complete
    content of a published file — a state point that hashes to the directory it lies in, or a
    complete document object.  (Actors never read temp files.) -/
theorem no_torn_read {s : Sys SP DV} (h : SysInv hash s) (sched : List Nat) {a : Nat}
    {st : AState SP DV} {p : Path} {c : Content SP DV}
    (hst : (run hash s sched).actors[a]? = some st) (hn : next hash a st = some (.read p))
    (hr : (exec (run hash s sched).fs (.read p)).2 = .data c) :
    ∃ i k, p = .file i k ∧ GoodC hash i k c ∧ c ≠ .torn :=
  read_is_good (run_inv h sched) hst hn hr

/-- Every state point file present in any reachable state is complete and hashes to the name of
    its directory; every document file is a complete object. -/
theorem published_files_valid {s : Sys SP DV} (h : SysInv hash s) (sched : List Nat) (i : JobId) :
    (∀ n, (run hash s sched).fs.get (.file i .sp) = some n → ∃ v, n = .file (.spc v) ∧ hash v = i) ∧
    (∀ n, (run hash s sched).fs.get (.file i .doc) = some n → ∃ d, n = .file (.docc d)) :=
  files_valid (run_inv h sched) i

/-- Temp files are private: one exists only while its owner (an existing actor) is between the
    `open` and the `rename` of a save of exactly that file, and no step of another actor touches it. -/
theorem tmp_private {s : Sys SP DV} (h : SysInv hash s) (sched : List Nat) (i : JobId) (k : Kind) (a : Nat)
    (hne : (run hash s sched).fs.get (.tmp i k a) ≠ none) :
    (∃ st, (run hash s sched).actors[a]? = some st ∧ tmpPhase i k st.phase) ∧
    ∀ b, b ≠ a → (sysStep hash (run hash s sched) b).fs.get (.tmp i k a)
                  = (run hash s sched).fs.get (.tmp i k a) :=
  tmp_owner (run_inv h sched) i k a hne

/-- Monotonicity: directories and published files are never removed, by anybody, in any schedule
    (contents of published files may be replaced, by complete contents only). -/
theorem published_monotone {s : Sys SP DV} (h : SysInv hash s) (sched : List Nat) :
    (∀ p, IsDir s.fs p → IsDir (run hash s sched).fs p) ∧
    (∀ i k, IsFile s.fs (.file i k) → IsFile (run hash s sched).fs (.file i k)) :=
  run_monotone h sched

/-- A completed write is seen by every later read: once actor `a` has taken the `rename` that
    completes its save of a file, every read of that file by any actor, after any further
    schedule in which no other save of the same file completes, returns exactly that content. -/
theorem write_visible {s : Sys SP DV} (h : SysInv hash s) {a : Nat} {st : AState SP DV}
    {i : JobId} {k : Kind} {c : Content SP DV}
    (hst : s.actors[a]? = some st) (hph : st.phase = .save .rename i k c)
    (sched : List Nat) (hno : NoRenameTo hash i k (sysStep hash s a) sched) :
    (exec (run hash (sysStep hash s a) sched).fs (.read (.file i k))).2 = .data c := by
  have := rename_publishes h hst hph
  rw [← run_frame sched hno] at this
  exact exec_read_file this ▸ rfl

/-- When all actors are done no temp file is left. -/
theorem final_no_tmp {s : Sys SP DV} (h : SysInv hash s) (sched : List Nat)
    (hd : AllDone (run hash s sched)) (i : JobId) (k : Kind) (a : Nat) :
    (run hash s sched).fs.get (.tmp i k a) = none :=
  done_no_tmp (run_inv h sched) hd i k a

/-- The schedule that runs the processes one after another (actor 0 until it is done, then
    actor 1, …) always completes: every actor terminates, whatever the primitives answer. -/
theorem sequential_schedule_completes (s : Sys SP DV) : AllDone (run hash s (seqSched s)) :=
  seq_completes s

/-- What any completed run leaves behind is a function of the inputs only (`FinalSpec`): the job
    directories are exactly the requested ones (there initially, or named by some script); every
    one of them holds a complete state point file that hashes to its name (what `check()` verifies);
    no state point file lies outside a job directory; the document of every job with at most one
    writing process is the initial document with that process's assignments applied in program
    order; no temp file is left. -/
theorem final_closed_form {fs : FS SP DV} (hv : ValidStart hash fs) (scripts : List (List (Op SP DV)))
    (sched : List Nat) (hd : AllDone (run hash (startSys fs scripts) sched)) :
    FinalSpec hash fs scripts (run hash (startSys fs scripts) sched).fs :=
  final_spec hv scripts sched hd

/-- `check()` passes once all are done (special case of `final_closed_form`, stated on its own). -/
theorem final_check_passes {fs : FS SP DV} (hv : ValidStart hash fs) (scripts : List (List (Op SP DV)))
    (sched : List Nat) (hd : AllDone (run hash (startSys fs scripts) sched)) (i : JobId)
    (hdir : IsDir (run hash (startSys fs scripts) sched).fs (.jobdir i)) :
    ∃ v, (run hash (startSys fs scripts) sched).fs.get (.file i .sp) = some (.file (.spc v)) ∧ hash v = i :=
  (final_spec hv scripts sched hd).check i hdir

/-- When all actors are done, the abstract workspace (which jobs exist, with valid state point
    files; every document; nothing else) equals that of a sequential execution — the one that runs
    the processes one after another, which itself completes — provided every document has at most
    one writing process (the property speaks of documents of different jobs). -/
theorem final_is_sequential {fs : FS SP DV} (hv : ValidStart hash fs) (scripts : List (List (Op SP DV)))
    (hsw : ∀ i, ∃ w, SingleWriter hash i w scripts)
    (sched : List Nat) (hd : AllDone (run hash (startSys fs scripts) sched)) :
    AllDone (run hash (startSys fs scripts) (seqSched (startSys fs scripts))) ∧
    AbsEq (run hash (startSys fs scripts) sched).fs
          (run hash (startSys fs scripts) (seqSched (startSys fs scripts))).fs :=
  ⟨seq_completes _, absEq_of_spec (final_spec hv scripts sched hd)
      (final_spec hv scripts _ (seq_completes _)) hsw⟩

/-- The same without the single-writer hypothesis is FALSE of the model (and of signac): two
    processes assigning different keys of the same job document can lose one of the updates.  Kept
    as a `Prop`; its negation is proved from a concrete witness (the harness runs two-writer script
    sets against the real code as well: model and signac agree on the lost update; that case is
    outside the property as stated). -/
def docs_schedule_independent_full : Prop :=
  ∀ (fs : FS String Nat) (scripts : List (List (Op String Nat))) (σ τ : List Nat),
    ValidStart (id : String → JobId) fs →
    AllDone (run id (startSys fs scripts) σ) → AllDone (run id (startSys fs scripts) τ) →
    ∀ i, docNow (run id (startSys fs scripts) σ).fs i = docNow (run id (startSys fs scripts) τ).fs i

def luFs : FS String Nat :=
  ((FS.set [] .ws .dir).set (.jobdir "j") .dir).set (.file "j" .sp) (.file (.spc "j"))
def luScripts : List (List (Op String Nat)) := [[.docSet "j" "k" 1], [.docSet "j" "m" 2]]

theorem luFs_valid : ValidStart (id : String → JobId) luFs := by
  refine ⟨?_, ?_, ?_⟩
  · exact fsinv_set (fsinv_set (fsinv_set fsinv_nil (show NodeOk id Path.ws Node.dir from rfl) rfl)
      (show NodeOk id (Path.jobdir "j") Node.dir from rfl) (by decide))
      (show NodeOk id (Path.file "j" .sp) (Node.file (.spc "j")) from ⟨_, rfl, rfl⟩) (by decide)
  · intro i k a; simp [luFs, get_set, FS.get]
  · intro i hd
    simp only [luFs, IsDir, IsFile, get_set, FS.get] at hd ⊢
    split at hd
    · cases hd
    · split at hd
      · rename_i h; cases h; exact ⟨.spc "j", by simp⟩
      · split at hd
        · rename_i h; cases h
        · cases hd

theorem not_docs_schedule_independent_full : ¬ docs_schedule_independent_full := by
  intro h
  have := h luFs luScripts
    [0,0,0, 1,1,1, 0,0,0,0, 1,1,1,1]            -- both load the (missing) document, then both save
    (List.replicate 7 0 ++ List.replicate 7 1)   -- one after the other
    luFs_valid (allDone_of_B (by decide)) (allDone_of_B (by decide)) "j"
  revert this
  decide

/-! ### non-vacuity: concrete, non-trivial instances of the hypotheses

  Two processes on an empty workspace, both initialise the job "j"; the first then writes its
  document, the second reads it (`hash` = identity on strings). -/

def exFs : FS String Nat := FS.set [] .ws .dir
def exSys : Sys String Nat :=
  { fs := exFs,
    actors := [AState.start [.init "j", .docSet "j" "k" 5], AState.start [.init "j", .docGet "j"]] }

/-- the hypotheses of `sys_inv_initially` / `sys_inv_all_schedules` / `no_actor_fails` / … -/
example : SysInv (id : String → JobId) exSys :=
  initial_inv (fsinv_set fsinv_nil (show NodeOk id Path.ws Node.dir from rfl) rfl)
    (by intro i k a; simp [get_set, FS.get])
    [[.init "j", .docSet "j" "k" 5], [.init "j", .docGet "j"]]

/-- a racy schedule really is racy in the model: both actors find the state point file missing,
    the second `mkdir` hits EEXIST, the second `isfile` finds the file the first one published -/
example : ((runTrace (id : String → JobId) exSys [0,1,0,1,0,1,0,0,1,1,0,0,0,0,0,1,1,1]).1.map
      (fun t => match t.2.2 with | .err .eexist => 1 | _ => 0)).sum = 1 := by decide

/-- the hypotheses of `write_visible`: after 16 steps actor 0 is about to complete the save of
    the document {"k": 5} of job "j" (so `hst`, `hph` hold in that state), and the schedule in which
    actor 1 then runs alone contains no other completing save of that file -/
def atDocRename : Option (AState String Nat) → Bool
  | some st => match st.phase with
    | .save .rename "j" .doc (.docc [("k", 5)]) => true
    | _ => false
  | none => false
example : atDocRename (run (id : String → JobId) exSys (List.replicate 16 0)).actors[0]? = true := by decide
example : NoRenameTo (id : String → JobId) "j" .doc
    (sysStep id (run (id : String → JobId) exSys (List.replicate 16 0)) 0) [1, 1, 1, 1] :=
  noRenameTo_of_B (by decide)

/-- the hypothesis of `final_no_tmp`: a complete schedule exists (here: one after the other) -/
def allFin (s : Sys String Nat) : Bool :=
  s.actors.all (fun st => match st.phase with | .fin => true | _ => false)
example : allFin (run (id : String → JobId) exSys (List.replicate 17 0 ++ List.replicate 6 1)) = true := by
  decide

/-- the hypotheses of `final_closed_form` / `final_is_sequential`: a valid populated start
    (`luFs_valid`), scripts in which every document has one writer, and a complete racy schedule -/
example : ∀ i, ∃ w, SingleWriter (id : String → JobId) i w
    ([[.init "j", .docSet "j" "k" 5], [.init "j", .docGet "j"]] : List (List (Op String Nat))) := by
  intro i
  refine ⟨0, ?_⟩
  intro a sc hsc hne
  match a, hsc with
  | 0, _ => exact absurd rfl hne
  | 1, hsc => simp at hsc; subst hsc; simp [pendingSets]
  | n+2, hsc => simp at hsc
example : allDoneB (run (id : String → JobId)
    (startSys luFs [[.init "j", .docSet "j" "k" 5], [.init "j", .docGet "j"]])
    [0,1,0,1,0,1,0,0,1,1,0,0,0,1,1,1,0,0,0,0,0]) = true := by decide

end Signac.C12

/-
  C12 — concurrent processes initialise jobs and write documents without corruption.
  Property theorems only; the model is Signac/Concurrency.lean, helper lemmas live in
  Signac/Proofs/Conc*.lean.

  All theorems hold for ANY number of actors, ANY scripts over the alphabet
  {Project(); open_job(sp).init(); job.doc[k]=v; job.doc=mapping; job.doc(); len(project)} and ANY schedule
  (list of actor indices, each entry = one file-system primitive of that actor); `hash` (the job
  id function) is an arbitrary parameter.
-/
import Signac.Proofs.ConcInv
import Signac.Proofs.ConcVisible
import Signac.Proofs.ConcFinal
import Signac.Proofs.ConcTerm
import Signac.Proofs.ConcBoundary
namespace Signac.C12
open Signac.Conc
variable {SP DV : Type} {hash : SP → JobId}

/-- `SysInv` (well-shaped file system: every state point file present is complete and hashes to
    its directory, every document file is a complete JSON object, temp files hold an empty or a
    complete payload and belong to the actor saving exactly that file; every actor has met no
    exception and the directories / files its program counter relies on exist) is preserved by
    every step of every actor. -/
theorem sys_inv_step {s : Sys SP DV} (h : SysInv hash s) (a : Nat) : SysInv hash (sysStep hash s a) :=
  (sysStep_inv_guar h a).1

/-- … hence it holds after every schedule. -/
theorem sys_inv_all_schedules {s : Sys SP DV} (h : SysInv hash s) (sched : List Nat) :
    SysInv hash (run hash s sched) := run_inv h sched

/-- Every configuration the property speaks about satisfies the invariant initially: a
    well-shaped workspace without temp files and any number of processes, each about to run
    `Project()` followed by an arbitrary script. -/
theorem sys_inv_initially {fs : FS SP DV} (hfs : FsInv hash fs)
    (hnt : ∀ i k a, fs.get (.tmp i k a) = none) (scripts : List (List (Op SP DV))) :
    SysInv hash { fs := fs, actors := scripts.map AState.start } := initial_inv hfs hnt scripts

/-- No actor ever fails: in every state reachable by any schedule no exception has escaped from
    any process — in particular no `mkdir` race, no failed save, and every validating load of
    `init` (the one after the write, too) succeeds. -/
theorem no_actor_fails {s : Sys SP DV} (h : SysInv hash s) (sched : List Nat) :
    NoFailure (run hash s sched) := by
  intro st hst
  obtain ⟨a, ha, rfl⟩ := List.mem_iff_getElem.1 hst
  exact ((run_inv h sched).actors a _ (List.getElem?_eq_getElem ha)).noFail

/-- No torn read: whatever a process reads, at any point of any schedule, is the complete
    content of a published file — a state point that hashes to the directory it lies in, or a
    complete document object.  (Actors never read temp files.) -/
theorem no_torn_read {s : Sys SP DV} (h : SysInv hash s) (sched : List Nat) {a : Nat}
    {st : AState SP DV} {p : Path} {c : Content SP DV}
    (hst : (run hash s sched).actors[a]? = some st) (hn : next hash a st = some (.read p))
    (hr : (exec (run hash s sched).fs (.read p)).2 = .data c) :
    ∃ i k, p = .file i k ∧ GoodC hash i k c ∧ c ≠ .torn :=
  read_is_good (run_inv h sched) hst hn hr

/-- Every state point file present in any reachable state is complete and hashes to the name of
    its directory; every document file is a complete object. -/
theorem published_files_valid {s : Sys SP DV} (h : SysInv hash s) (sched : List Nat) (i : JobId) :
    (∀ n, (run hash s sched).fs.get (.file i .sp) = some n → ∃ v, n = .file (.spc v) ∧ hash v = i) ∧
    (∀ n, (run hash s sched).fs.get (.file i .doc) = some n → ∃ d, n = .file (.docc d)) :=
  files_valid (run_inv h sched) i

/-- Temp files are private: one exists only while its owner (an existing actor) is between the
    `open` and the `rename` of a save of exactly that file, and no step of another actor touches it. -/
theorem tmp_private {s : Sys SP DV} (h : SysInv hash s) (sched : List Nat) (i : JobId) (k : Kind) (a : Nat)
    (hne : (run hash s sched).fs.get (.tmp i k a) ≠ none) :
    (∃ st, (run hash s sched).actors[a]? = some st ∧ tmpPhase i k st.phase) ∧
    ∀ b, b ≠ a → (sysStep hash (run hash s sched) b).fs.get (.tmp i k a)
                  = (run hash s sched).fs.get (.tmp i k a) :=
  tmp_owner (run_inv h sched) i k a hne

/-- Monotonicity: directories and published files are never removed, by anybody, in any schedule
    (contents of published files may be replaced, by complete contents only). -/
theorem published_monotone {s : Sys SP DV} (h : SysInv hash s) (sched : List Nat) :
    (∀ p, IsDir s.fs p → IsDir (run hash s sched).fs p) ∧
    (∀ i k, IsFile s.fs (.file i k) → IsFile (run hash s sched).fs (.file i k)) :=
  run_monotone h sched

/-- A completed write is seen by every later read: once actor `a` has taken the `rename` that
    completes its save of a file, every read of that file by any actor, after any further
    schedule in which no other save of the same file completes, returns exactly that content. -/
theorem write_visible {s : Sys SP DV} (h : SysInv hash s) {a : Nat} {st : AState SP DV}
    {i : JobId} {k : Kind} {c : Content SP DV}
    (hst : s.actors[a]? = some st) (hph : st.phase = .save .rename i k c)
    (sched : List Nat) (hno : NoRenameTo hash i k (sysStep hash s a) sched) :
    (exec (run hash (sysStep hash s a) sched).fs (.read (.file i k))).2 = .data c := by
  have := rename_publishes h hst hph
  rw [← run_frame sched hno] at this
  exact exec_read_file this ▸ rfl

/-- When all actors are done no temp file is left. -/
theorem final_no_tmp {s : Sys SP DV} (h : SysInv hash s) (sched : List Nat)
    (hd : AllDone (run hash s sched)) (i : JobId) (k : Kind) (a : Nat) :
    (run hash s sched).fs.get (.tmp i k a) = none :=
  done_no_tmp (run_inv h sched) hd i k a

/-- The schedule that runs the processes one after another (actor 0 until it is done, then
    actor 1, …) always completes: every actor terminates, whatever the primitives answer. -/
theorem sequential_schedule_completes (s : Sys SP DV) : AllDone (run hash s (seqSched s)) :=
  seq_completes s

/-- What any completed run leaves behind is a function of the inputs only (`FinalSpec`): the job
    directories are exactly the requested ones (there initially, or named by some script); every
    one of them holds a complete state point file that hashes to its name (what `check()` verifies);
    no state point file lies outside a job directory; the document of every job with at most one
    writing process is the initial document with that process's writes applied in program order
    (`applySets`: `doc[k] = x` sets the key, a whole-document assignment `doc = d` makes the document
    BE `d`); no temp file is left. -/
theorem final_closed_form {fs : FS SP DV} (hv : ValidStart hash fs) (scripts : List (List (Op SP DV)))
    (sched : List Nat) (hd : AllDone (run hash (startSys fs scripts) sched)) :
    FinalSpec hash fs scripts (run hash (startSys fs scripts) sched).fs :=
  final_spec hv scripts sched hd

/-- `check()` passes once all are done (special case of `final_closed_form`, stated on its own). -/
theorem final_check_passes {fs : FS SP DV} (hv : ValidStart hash fs) (scripts : List (List (Op SP DV)))
    (sched : List Nat) (hd : AllDone (run hash (startSys fs scripts) sched)) (i : JobId)
    (hdir : IsDir (run hash (startSys fs scripts) sched).fs (.jobdir i)) :
    ∃ v, (run hash (startSys fs scripts) sched).fs.get (.file i .sp) = some (.file (.spc v)) ∧ hash v = i :=
  (final_spec hv scripts sched hd).check i hdir

/-- When all actors are done, the abstract workspace (which jobs exist, with valid state point
    files; every document; nothing else) equals that of a sequential execution — the one that runs
    the processes one after another, which itself completes — provided every document has at most
    one writing process (the property speaks of documents of different jobs). -/
theorem final_is_sequential {fs : FS SP DV} (hv : ValidStart hash fs) (scripts : List (List (Op SP DV)))
    (hsw : ∀ i, ∃ w, SingleWriter hash i w scripts)
    (sched : List Nat) (hd : AllDone (run hash (startSys fs scripts) sched)) :
    AllDone (run hash (startSys fs scripts) (seqSched (startSys fs scripts))) ∧
    AbsEq (run hash (startSys fs scripts) sched).fs
          (run hash (startSys fs scripts) (seqSched (startSys fs scripts))).fs :=
  ⟨seq_completes _, absEq_of_spec (final_spec hv scripts sched hd)
      (final_spec hv scripts _ (seq_completes _)) hsw⟩

/-! ### readers only see operation boundaries

  `boundaries init ws`: `init`, then the document after the 1st, 2nd, … of the writes `ws`
  (`mem_boundaries_iff`: exactly the values `applySets init (ws.take n)`).  `writesOf hash i w scripts`
  are the writes (`doc[k] = x` → `.set k x`, `doc = d` → `.assign d`) of actor `w` on job `i` in
  program order; `SingleWriter hash i w scripts`: no other actor writes that document. -/

/-- In every state of every schedule, the PUBLISHED document of a job whose document has a single
    writing actor is one of that writer's operation-boundary values: the initial document, or the
    document after the writer's first `n` completed writes.  In particular a whole-document
    assignment is one write: nothing between "before" and "the assigned mapping" (such as the
    emptied document of a `clear()`-then-`reset()` implementation) is ever published. -/
theorem published_is_boundary {fs : FS SP DV} (hfs : FsInv hash fs)
    (hnt : ∀ i k a, fs.get (.tmp i k a) = none) (scripts : List (List (Op SP DV)))
    {i : JobId} {w : Nat} (hsw : SingleWriter hash i w scripts) (sched : List Nat) :
    docNow (run hash (startSys fs scripts) sched).fs i ∈
      boundaries (docNow fs i) (writesOf hash i w scripts) :=
  published_boundary hfs hnt scripts hsw sched

/-- Every READ of such a document, by any actor at any point of any schedule, returns a boundary
    value: an actor about to read the document file of job `i` (program counter `dload v`,
    `hash v = i`: the load of a `doc[k] = x` or of a `doc()`) continues exactly as `resumeDload`
    with a boundary value `d` of the single writer (a missing file reads as the empty document,
    which then IS the initial value). -/
theorem read_returns_boundary {fs : FS SP DV} (hfs : FsInv hash fs)
    (hnt : ∀ i k a, fs.get (.tmp i k a) = none) (scripts : List (List (Op SP DV)))
    {i : JobId} {w : Nat} (hsw : SingleWriter hash i w scripts) (sched : List Nat)
    {a : Nat} {st : AState SP DV} {v : SP}
    (hst : (run hash (startSys fs scripts) sched).actors[a]? = some st)
    (hph : st.phase = .dload v) (hv : hash v = i) :
    next hash a st = some (.read (.file i .doc)) ∧
    ∃ d, d ∈ boundaries (docNow fs i) (writesOf hash i w scripts) ∧
      resume hash st (exec (run hash (startSys fs scripts) sched).fs (.read (.file i .doc))).2
        = resumeDload hash st v d := by
  subst hv
  have hS := run_inv (initial_inv hfs hnt scripts) sched
  refine ⟨by simp only [next, hph], _, published_boundary hfs hnt scripts hsw sched, ?_⟩
  exact (tr_dload hS.fs (hS.actors a st hst) hph).2

/-- **Readers only see operation boundaries.**  In every reachable state of every schedule, for
    every actor: the values handed back so far (`st.out`, newest first) are exactly explained by the
    operations the actor has completed (`pre`, the part of its program `Project(); script` that is
    no longer on `st.script`): one value per `doc()` / `len(project)`, in program order, and the
    document handed back by a `doc()` on a job with id `j` is — for every actor `w` that is the
    single writer of that job's document — one of `w`'s operation-boundary values
    (`IsBoundary`: `∀ w, SingleWriter hash j w scripts → d ∈ boundaries (docNow fs j) (writesOf hash j w scripts)`). -/
theorem reads_see_boundaries {fs : FS SP DV} (hfs : FsInv hash fs)
    (hnt : ∀ i k a, fs.get (.tmp i k a) = none) (scripts : List (List (Op SP DV))) (sched : List Nat)
    {a : Nat} {st : AState SP DV}
    (hst : (run hash (startSys fs scripts) sched).actors[a]? = some st) :
    ∃ sc pre, scripts[a]? = some sc ∧ .project :: sc = pre ++ st.script ∧
      Explains hash (IsBoundary hash fs scripts) pre st.out.reverse :=
  obsInv_reachable hfs hnt scripts sched a st hst

/-- The same in membership form, for a reader all of whose `doc()` calls are on job `i`: every
    document it has been handed back is a boundary value of the single writer `w`. -/
theorem reads_see_boundaries_mem {fs : FS SP DV} (hfs : FsInv hash fs)
    (hnt : ∀ i k a, fs.get (.tmp i k a) = none) (scripts : List (List (Op SP DV))) (sched : List Nat)
    {i : JobId} {w : Nat} (hsw : SingleWriter hash i w scripts)
    {a : Nat} {sc : List (Op SP DV)} {st : AState SP DV} (hsc : scripts[a]? = some sc)
    (hi : ∀ v, .docGet v ∈ sc → hash v = i)
    (hst : (run hash (startSys fs scripts) sched).actors[a]? = some st)
    (d : Doc DV) (hd : .doc d ∈ st.out) :
    d ∈ boundaries (docNow fs i) (writesOf hash i w scripts) := by
  obtain ⟨sc', pre, hsc', hpre, hex⟩ := reads_see_boundaries hfs hnt scripts sched hst
  rw [hsc] at hsc'; cases hsc'
  refine explains_mem hex ?_ d (List.mem_reverse.2 hd) w hsw
  intro v hv
  have : Op.docGet v ∈ (.project :: sc : List (Op SP DV)) := by
    rw [hpre]; exact List.mem_append_left _ hv
  rcases List.mem_cons.1 this with h | h
  · cases h
  · exact hi v h

/-- … and for an actor that is done, all of its program is explained: the `n`-th value it handed
    back belongs to the `n`-th `doc()` / `len(project)` of its script. -/
theorem reads_see_boundaries_done {fs : FS SP DV} (hfs : FsInv hash fs)
    (hnt : ∀ i k a, fs.get (.tmp i k a) = none) (scripts : List (List (Op SP DV))) (sched : List Nat)
    {a : Nat} {st : AState SP DV}
    (hst : (run hash (startSys fs scripts) sched).actors[a]? = some st) (hfin : st.phase = .fin) :
    ∃ sc, scripts[a]? = some sc ∧
      Explains hash (IsBoundary hash fs scripts) (.project :: sc) st.out.reverse := by
  obtain ⟨sc, pre, hsc, hpre, hex⟩ := reads_see_boundaries hfs hnt scripts sched hst
  have hS := run_inv (initial_inv hfs hnt scripts) sched
  have hF : AllFinOk (run hash (startSys fs scripts) sched) := allFinOk_run (allFinOk_start fs scripts) sched
  have hnil := hF a st hst (hS.actors a st hst).noFail hfin
  rw [hnil, List.append_nil] at hpre
  exact ⟨sc, hsc, hpre ▸ hex⟩


/-- The same without the single-writer hypothesis is FALSE of the model (and of signac): two
    processes assigning different keys of the same job document can lose one of the updates.  Kept
    as a `Prop`; its negation is proved from a concrete witness (the harness runs two-writer script
    sets against the real code as well: model and signac agree on the lost update; that case is
    outside the property as stated). -/
def docs_schedule_independent_full : Prop :=
  ∀ (fs : FS String Nat) (scripts : List (List (Op String Nat))) (σ τ : List Nat),
    ValidStart (id : String → JobId) fs →
    AllDone (run id (startSys fs scripts) σ) → AllDone (run id (startSys fs scripts) τ) →
    ∀ i, docNow (run id (startSys fs scripts) σ).fs i = docNow (run id (startSys fs scripts) τ).fs i

def luFs : FS String Nat :=
  ((FS.set [] .ws .dir).set (.jobdir "j") .dir).set (.file "j" .sp) (.file (.spc "j"))
def luScripts : List (List (Op String Nat)) := [[.docSet "j" "k" 1], [.docSet "j" "m" 2]]

theorem luFs_valid : ValidStart (id : String → JobId) luFs := by
  refine ⟨?_, ?_, ?_⟩
  · exact fsinv_set (fsinv_set (fsinv_set fsinv_nil (show NodeOk id Path.ws Node.dir from rfl) rfl)
      (show NodeOk id (Path.jobdir "j") Node.dir from rfl) (by decide))
      (show NodeOk id (Path.file "j" .sp) (Node.file (.spc "j")) from ⟨_, rfl, rfl⟩) (by decide)
  · intro i k a; simp [luFs, get_set, FS.get]
  · intro i hd
    simp only [luFs, IsDir, IsFile, get_set, FS.get] at hd ⊢
    split at hd
    · cases hd
    · split at hd
      · rename_i h; cases h; exact ⟨.spc "j", by simp⟩
      · split at hd
        · rename_i h; cases h
        · cases hd

theorem not_docs_schedule_independent_full : ¬ docs_schedule_independent_full := by
  intro h
  have := h luFs luScripts
    [0,0,0, 1,1,1, 0,0,0,0, 1,1,1,1]            -- both load the (missing) document, then both save
    (List.replicate 7 0 ++ List.replicate 7 1)   -- one after the other
    luFs_valid (allDone_of_B (by decide)) (allDone_of_B (by decide)) "j"
  revert this
  decide

/-! ### non-vacuity: concrete, non-trivial instances of the hypotheses

  Two processes on an empty workspace, both initialise the job "j"; the first then writes its
  document, the second reads it (`hash` = identity on strings). -/

def exFs : FS String Nat := FS.set [] .ws .dir
def exSys : Sys String Nat :=
  { fs := exFs,
    actors := [AState.start [.init "j", .docSet "j" "k" 5], AState.start [.init "j", .docGet "j"]] }

/-- the hypotheses of `sys_inv_initially` / `sys_inv_all_schedules` / `no_actor_fails` / … -/
example : SysInv (id : String → JobId) exSys :=
  initial_inv (fsinv_set fsinv_nil (show NodeOk id Path.ws Node.dir from rfl) rfl)
    (by intro i k a; simp [get_set, FS.get])
    [[.init "j", .docSet "j" "k" 5], [.init "j", .docGet "j"]]

/-- a racy schedule really is racy in the model: both actors find the state point file missing,
    the second `mkdir` hits EEXIST, the second `isfile` finds the file the first one published -/
example : ((runTrace (id : String → JobId) exSys [0,1,0,1,0,1,0,0,1,1,0,0,0,0,0,1,1,1]).1.map
      (fun t => match t.2.2 with | .err .eexist => 1 | _ => 0)).sum = 1 := by decide

/-- the hypotheses of `write_visible`: after 16 steps actor 0 is about to complete the save of
    the document {"k": 5} of job "j" (so `hst`, `hph` hold in that state), and the schedule in which
    actor 1 then runs alone contains no other completing save of that file -/
def atDocRename : Option (AState String Nat) → Bool
  | some st => match st.phase with
    | .save .rename "j" .doc (.docc [("k", 5)]) => true
    | _ => false
  | none => false
example : atDocRename (run (id : String → JobId) exSys (List.replicate 16 0)).actors[0]? = true := by decide
example : NoRenameTo (id : String → JobId) "j" .doc
    (sysStep id (run (id : String → JobId) exSys (List.replicate 16 0)) 0) [1, 1, 1, 1] :=
  noRenameTo_of_B (by decide)

/-- the hypothesis of `final_no_tmp`: a complete schedule exists (here: one after the other) -/
def allFin (s : Sys String Nat) : Bool :=
  s.actors.all (fun st => match st.phase with | .fin => true | _ => false)
example : allFin (run (id : String → JobId) exSys (List.replicate 17 0 ++ List.replicate 6 1)) = true := by
  decide

/-- the hypotheses of `final_closed_form` / `final_is_sequential`: a valid populated start
    (`luFs_valid`), scripts in which every document has one writer, and a complete racy schedule -/
example : ∀ i, ∃ w, SingleWriter (id : String → JobId) i w
    ([[.init "j", .docSet "j" "k" 5], [.init "j", .docGet "j"]] : List (List (Op String Nat))) := by
  intro i
  refine ⟨0, ?_⟩
  intro a sc hsc hne
  match a, hsc with
  | 0, _ => exact absurd rfl hne
  | 1, hsc => simp at hsc; subst hsc; simp [pendingSets, writeOn]
  | n+2, hsc => simp at hsc
example : allDoneB (run (id : String → JobId)
    (startSys luFs [[.init "j", .docSet "j" "k" 5], [.init "j", .docGet "j"]])
    [0,1,0,1,0,1,0,0,1,1,0,0,0,1,1,1,0,0,0,0,0]) = true := by decide

/-! non-vacuity of `published_is_boundary` / `reads_see_boundaries`: the job "j" exists with the
    document {"k": 0, "o": 9}; actor 0 writes `doc["k"] = 5`, then assigns `doc = {"z": 1}`;
    actor 1 reads the document three times. -/

def bFs : FS String Nat := luFs.set (.file "j" .doc) (.file (.docc [("k", 0), ("o", 9)]))
def bScripts : List (List (Op String Nat)) :=
  [[.docSet "j" "k" 5, .docAssign "j" [("z", 1)]], [.docGet "j", .docGet "j", .docGet "j"]]

/-- the hypotheses `hfs`, `hnt`, `hsw` -/
example : FsInv (id : String → JobId) bFs :=
  fsinv_set luFs_valid.inv (show NodeOk id (Path.file "j" .doc) (Node.file (.docc [("k", 0), ("o", 9)]))
    from ⟨_, rfl, trivial⟩) (by decide)
example : ∀ i k a, bFs.get (.tmp i k a) = none := by
  intro i k a; simp [bFs, luFs, get_set, FS.get]
example : SingleWriter (id : String → JobId) "j" 0 bScripts := by
  intro a sc hsc hne
  match a, hsc with
  | 0, _ => exact absurd rfl hne
  | 1, hsc => simp [bScripts] at hsc; subst hsc; simp [pendingSets, writeOn]
  | n+2, hsc => simp [bScripts] at hsc

/-- the three boundary values; the empty document is NOT one of them -/
example : boundaries (docNow bFs "j") (writesOf (id : String → JobId) "j" 0 bScripts)
    = [[("k", 0), ("o", 9)], [("k", 5), ("o", 9)], [("z", 1)]] := by decide
example : ([] : Doc Nat) ∉ boundaries (docNow bFs "j") (writesOf (id : String → JobId) "j" 0 bScripts) := by
  decide

def docsOf : List (Obs String Nat) → List (Doc Nat)
  | [] => []
  | .doc d :: r => d :: docsOf r
  | _ :: r => docsOf r

/-- a schedule in which the reader sees all three of them, one after the other -/
example : ((run (id : String → JobId) (startSys bFs bScripts)
      [1,1,1, 0,0,0,0,0,0,0, 1,1, 0,0,0,0,0, 1,1]).actors[1]?.map (fun st => docsOf st.out.reverse))
    = some [[("k", 0), ("o", 9)], [("k", 5), ("o", 9)], [("z", 1)]] := by decide
/-- the reader reads while the writer is in the middle of the assignment (temp file opened and
    written, not yet renamed): it still gets the value before the assignment, then the mapping -/
example : ((run (id : String → JobId) (startSys bFs bScripts)
      [0,0,0,0,0,0,0, 0,0,0, 1,1,1, 0,0, 1,1,1,1]).actors[1]?.map (fun st => docsOf st.out.reverse))
    = some [[("k", 5), ("o", 9)], [("z", 1)], [("z", 1)]] := by decide
/-- `final_closed_form` on this instance: the final document is the assigned mapping -/
example : docNow (run (id : String → JobId) (startSys bFs bScripts)
      [0,0,0,0,0,0,0, 0,0,0, 1,1,1, 0,0, 1,1,1,1]).fs "j"
    = applySets (docNow bFs "j") (writesOf (id : String → JobId) "j" 0 bScripts) := by decide
/-- the property is not vacuous about the regression it is meant to catch: an assignment
    implemented as TWO writes (`clear()`, then `reset(mapping)`) — in the model: the script
    `doc = {}; doc = {"z": 1}` — does let a reader see the emptied document, which is not a
    boundary value of the one-write script above -/
example : ((run (id : String → JobId)
      (startSys bFs [[.docAssign "j" [], .docAssign "j" [("z", 1)]], [.docGet "j"]])
      [0,0,0,0,0,0, 1,1,1]).actors[1]?.map (fun st => docsOf st.out.reverse)) = some [[]] := by decide
example : allDoneB (run (id : String → JobId) (startSys bFs bScripts)
      [0,0,0,0,0,0,0, 0,0,0, 1,1,1, 0,0, 1,1,1,1]) = true := by decide

end Signac.C12

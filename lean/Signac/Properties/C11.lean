/-
  C11 — crashes and I/O errors in lifecycle operations never lose data or forge a job.
  Property theorems only (model: Signac/Lifecycle.lean; lemmas: Signac/Proofs/Life*.lean).

  An *event schedule* `ev : Nat → Option Ev` says what happens to the n-th file-system step:
  nothing, process death before it, a torn write inside it, or an injected errno.  All theorems
  quantify over ALL pre-states, payloads and schedules (any number of faults, death anywhere,
  also inside the error handling) unless a hypothesis says otherwise; `NoENOENT ev`: ENOENT is
  not injected (signac reads it as "not there" by design — the property excludes it).
-/
import Signac.Proofs.LifeGood
import Signac.Proofs.LifeReset
namespace Signac.C11
open Signac.Life

variable {Sp : Type}

/-- every id-named directory validates against its id or is reported by `check()` -/
theorem check_complete (C : Codec Sp) (w : World Sp) (k : Key) (h : (w k).isSome = true) :
    validAt C w k = true ∨ corruptAt C w k = true := valid_or_corrupt C w k h

/-- every job directory other than the operation's own (for clone: other than the destination —
    so also the source) is identical afterwards, for every operation and schedule -/
theorem others_untouched (C : Codec Sp) (op : Op Sp) (ev : Nat → Option Ev) (w : World Sp) {k : Key}
    (hk : k ∉ op.keys) : (run C ev (op.prog C) w).w k = w k := op_frame C op ev w hk

/-- `Good` holds of every state a process death can leave behind (before any step, inside any write) -/
theorem crash_safe (C : Codec Sp) (op : Op Sp) (hc : op.covered) (w w' : World Sp)
    (h : crashStates C (op.prog C) w w') : Good C op w w' := by
  obtain ⟨ev, hnf, _, rfl⟩ := h
  exact good_of_run C op hc w ev (noENOENT_of_noFault ev hnf)

/-- `Good` holds after ANY schedule (faults, second faults, death inside the error handling) -/
theorem any_schedule_safe (C : Codec Sp) (op : Op Sp) (hc : op.covered) (w : World Sp) (ev : Nat → Option Ev)
    (hne : NoENOENT ev) : Good C op w (run C ev (op.prog C) w).w := good_of_run C op hc w ev hne

/-- a consumed fault propagates as an exception and leaves the old job or a state check() reports -/
theorem fault_safe (C : Codec Sp) (op : Op Sp) (hc : op.covered) (w : World Sp) (ev : Nat → Option Ev)
    (hne : NoENOENT ev) (hf : (run C ev (op.prog C) w).faulted = true)
    (hnc : (run C ev (op.prog C) w).res ≠ .crashed) :
    (∃ n, (run C ev (op.prog C) w).res = .exc n) ∧ FaultGood C w (run C ev (op.prog C) w).w op :=
  fault_good_of_run C op hc w ev hne hf hnc

/-- the single-fault instance: step `k` fails with `e ≠ ENOENT` -/
theorem fault_safe_single (C : Codec Sp) (op : Op Sp) (hc : op.covered) (w : World Sp) (k : Nat) (e : Errno)
    (he : e ≠ .ENOENT) (hf : (run C (faultAt k e) (op.prog C) w).faulted = true)
    (hnc : (run C (faultAt k e) (op.prog C) w).res ≠ .crashed) :
    (∃ n, (run C (faultAt k e) (op.prog C) w).res = .exc n) ∧
      FaultGood C w (run C (faultAt k e) (op.prog C) w).w op :=
  fault_good_of_run C op hc w _ (noENOENT_faultAt k e he) hf hnc

/-- `Job.init()`: payload and backup kept; the directory validates afterwards only if nothing
    changed or no state-point file was there before and the complete requested one is there now
    (an existing non-matching file is never overwritten); normal return ⇒ valid, no fault consumed;
    exception ⇒ unchanged or reported by check() -/
theorem init_safe (C : Codec Sp) (k : Key) (v : Sp) (w : World Sp) (ev : Nat → Option Ev) :
    InitSpec C k v w false (run C ev (initProg C k v false) w) := init_spec C k v w ev

/-- state-point change (re-key protocol with rollback and reload): the data is in exactly one of
    the two directories at every moment, a taken destination is never touched, the new directory
    validates only with the complete new state point; normal return ⇒ moved, valid, no fault
    consumed; exception ⇒ old job intact or a directory reported by check() -/
theorem rekey_safe (C : Codec Sp) (ev : Nat → Option Ev) (x y : Key) (v : Sp) (w : World Sp) (D : JobDir Sp)
    (hxy : x ≠ y) (hne : NoENOENT ev) (hD : w x = some D) (c : Content Sp) (hsp : D.sp = some c) :
    RekeySpec C x y v w D (run C ev (rekeyProg C x y v) w) := rekey_spec C ev x y v w D hxy hne hD c hsp

/-- `Job.move`: all or nothing -/
theorem move_safe (C : Codec Sp) (a b : Key) (hab : a ≠ b) (w : World Sp) (ev : Nat → Option Ev) :
    MoveSpec a b w (run C ev (moveProg a b) w) := move_spec C a b hab w ev

/-- `Job.remove`: the directory is gone or keeps its old state-point file or none (it never
    starts to validate); a consumed fault never ends in a normal return -/
theorem remove_safe (C : Codec Sp) (ev : Nat → Option Ev) (k : Key) (order : List Ref) (D : JobDir Sp)
    (w : World Sp) (hD : w k = some D) : RemovalSpec ev k D (run C ev (removeProg k order) w) :=
  remove_spec C ev k order D w hD

theorem clear_safe (C : Codec Sp) (ev : Nat → Option Ev) (k : Key) (order : List Ref) (D : JobDir Sp)
    (w : World Sp) (hD : w k = some D) : RemovalSpec ev k D (run C ev (clearProg k order) w) :=
  clear_spec C ev k order D w hD

/-- an interrupted / failed `remove` leaves a sub-list of the old payload: nothing appears -/
theorem remove_only_shrinks (C : Codec Sp) (ev : Nat → Option Ev) (k : Key) (order : List Ref) (D : JobDir Sp)
    (w : World Sp) (hD : w k = some D) : RemoveShrinks k D (run C ev (removeProg k order) w) :=
  remove_shrinks C ev k order D w hD

/-- `Project.clone`, the provable part: source untouched; a taken destination untouched and an
    error; a fresh destination is absent or a partial copy whose state-point file is absent, junk
    or the source's; a consumed fault never ends in a normal return; and as long as the
    state-point file is not completely copied (hypothesis = complement of the S-11 class on
    non-returning runs) the destination is absent or reported by check() -/
theorem clone_safe_partial (C : Codec Sp) (ev : Nat → Option Ev) (src dst : Key) (hsd : src ≠ dst)
    (order : List Ref) (w : World Sp) (S : JobDir Sp) (hS : w src = some S) :
    CloneSpec src dst w S (run C ev (cloneProg src dst order) w) ∧
    (w dst = none → (∀ d, (run C ev (cloneProg src dst order) w).w dst = some d → d.sp ≠ S.sp) →
      (run C ev (cloneProg src dst order) w).w dst = none ∨
      corruptAt C (run C ev (cloneProg src dst order) w).w dst = true) :=
  ⟨clone_spec C ev src dst hsd order w S hS,
   fun hd hsp => clone_undetected_only_after_sp C src dst w S _ (clone_spec C ev src dst hsd order w S hS) hd hsp⟩

/-- S-11 in the model (process death): after the state-point file was copied the destination
    passes check() and lacks a file of the source -/
theorem clone_partial_passes_check_crash :
    let o := run cexCodec (crashAt 3) (cloneProg cexSrc cexDst cexOrder) cexW
    o.res = .crashed ∧ validAt cexCodec o.w cexDst = true ∧ corruptAt cexCodec o.w cexDst = false ∧
    ∃ d, o.w cexDst = some d ∧ hasItem d (.file "f") = false := s11_crash

/-- S-11 in the model (I/O error): clone raises, the destination passes check() and lacks the file -/
theorem clone_partial_passes_check_fault :
    let o := run cexCodec (faultAt 3 .EIO) (cloneProg cexSrc cexDst cexOrder) cexW
    o.res = .exc "Error" ∧ o.faulted = true ∧ validAt cexCodec o.w cexDst = true ∧
    corruptAt cexCodec o.w cexDst = false ∧ ∃ d, o.w cexDst = some d ∧ hasItem d (.file "f") = false := s11_fault

/-- hence the full statement for clone is false of the model (and of the code: known finding S-11) -/
theorem clone_safe_full_is_false : ¬ clone_safe_full := clone_safe_full_false

/- ---- non-vacuity: concrete instances of the hypotheses ---- -/
/-- `rekey_safe` / `clone_safe_partial`: a world with an initialised job holding a data file,
    distinct directories, a schedule with a fault and no ENOENT -/
example : cexSrc ≠ cexDst ∧ cexW cexSrc = some cexS ∧ cexS.sp = some (.ok 1) ∧ NoENOENT (faultAt 1 .EIO) ∧
    cexW cexDst = none :=
  ⟨by decide, by simp [cexW, cexSrc], rfl, noENOENT_faultAt 1 .EIO (by decide), by decide⟩

/-- `crash_safe`: a covered operation with a non-trivial crash state (death inside the write of
    the state-point file of a re-key) -/
example : (Op.rekey cexSrc (0, "x") 2 : Op Nat).covered ∧
    crashStates cexCodec ((Op.rekey cexSrc (0, "x") 2 : Op Nat).prog cexCodec) cexW
      (run cexCodec (tornAt 4 1) (rekeyProg cexCodec cexSrc (0, "x") 2) cexW).w :=
  ⟨by simp [Op.covered, cexSrc], tornAt 4 1, by intro n e; simp only [tornAt]; split <;> simp, by decide, rfl⟩

/-- `fault_safe`: a schedule whose fault is consumed and which does not end in a death -/
example : (run cexCodec (faultAt 1 .EIO) ((Op.rekey cexSrc (0, "x") 2 : Op Nat).prog cexCodec) cexW).faulted = true ∧
    (run cexCodec (faultAt 1 .EIO) ((Op.rekey cexSrc (0, "x") 2 : Op Nat).prog cexCodec) cexW).res ≠ .crashed :=
  ⟨by decide, by decide⟩

/-- `remove_safe` / `clear_safe` / `remove_only_shrinks`: an existing directory with payload -/
example : cexW cexSrc = some cexS ∧ cexS.entries ≠ [] := ⟨by simp [cexW, cexSrc], by simp [cexS]⟩

/- ---- `Job.reset()` = `clear(); init()`: sequencing, and "the job itself stays" ---- -/

/-- sequencing (`Prog.seq`: `p`, then — if `p` returned normally — `q`; one program, steps numbered
    through): the run of the composite is the run of `p`; if that returned normally, followed by the
    run of `q` from the world `p` left under the schedule shifted by the number of steps `p`
    announced (`shiftEv m ev = fun n => ev (m + n)`), with `p`'s step count, trace and fault flag
    carried over (`Outcome.after`: counts add, traces concatenate, the fault flag is or-ed; world and
    result are those of `q`).  An exception or a death of `p` is the outcome of the composite. -/
theorem run_seq (C : Codec Sp) (ev : Nat → Option Ev) (p q : Prog Sp) (w : World Sp) :
    run C ev (p.seq q) w =
      if (run C ev p w).res = .ok then
        (run C (shiftEv (run C ev p w).acc.n ev) q (run C ev p w).w).after (run C ev p w).acc
      else run C ev p w := run_seq_eq C ev p q w

/-- `clear()` never removes THE JOB: after EVERY schedule — death anywhere, torn writes, any
    injected errno, ENOENT included — the job directory is still there and its state-point file is
    untouched (same content, or still absent) -/
theorem clear_keeps_job (C : Codec Sp) (ev : Nat → Option Ev) (k : Key) (order : List Ref) (w : World Sp)
    (d : JobDir Sp) (hd : w k = some d) :
    ∃ d', (run C ev (clearProg k order) w).w k = some d' ∧ d'.sp = d.sp :=
  clear_keeps_sp C ev k order {} w d hd

/-- `reset()` never removes THE JOB: if the job validates before, then after EVERY schedule its
    directory is still there, its state-point file is untouched, and it still validates -/
theorem reset_keeps_job (C : Codec Sp) (ev : Nat → Option Ev) (k : Key) (order : List Ref) (v : Sp)
    (w : World Sp) (d : JobDir Sp) (hd : w k = some d) (hv : validAt C w k = true) :
    ∃ d', (run C ev (resetProg C k order v) w).w k = some d' ∧ d'.sp = d.sp ∧
      validAt C (run C ev (resetProg C k order v) w).w k = true :=
  reset_keeps C ev k order v w d hd hv

/-- … on such a job the closing `init()` announces no step: `reset` and `clear` have the same
    outcome (world, result, step trace, fault flag) under every schedule -/
theorem reset_of_valid_job_is_clear (C : Codec Sp) (ev : Nat → Option Ev) (k : Key) (order : List Ref) (v : Sp)
    (w : World Sp) (hv : validAt C w k = true) :
    run C ev (resetProg C k order v) w = run C ev (clearProg k order) w :=
  reset_valid_eq_clear C ev k order v w hv

/-- … and whatever the state-point file looks like (absent, torn, foreign): the directory of an
    existing job is still there after `reset`, under every schedule -/
theorem reset_keeps_dir (C : Codec Sp) (ev : Nat → Option Ev) (k : Key) (order : List Ref) (v : Sp)
    (w : World Sp) (hd : (w k).isSome = true) : ((run C ev (resetProg C k order v) w).w k).isSome = true :=
  reset_keeps_directory C ev k order v w hd

/-- frame: every other job directory is identical after `reset`, under every schedule -/
theorem reset_others_untouched (C : Codec Sp) (ev : Nat → Option Ev) (k : Key) (order : List Ref) (v : Sp)
    (w : World Sp) {k' : Key} (hk : k' ≠ k) : (run C ev (resetProg C k order v) w).w k' = w k' :=
  reset_frame C ev k order v w hk

/-- a consumed fault never ends in a normal return (any pre-state), provided ENOENT is not
    injected — `clear` reads ENOENT as "not there" (`Op.readsENOENT (.clear k order)`); the proviso
    is needed: `reset_enoent_swallowed`.  If the process did not die, an exception propagates. -/
theorem reset_fault_raises (C : Codec Sp) (ev : Nat → Option Ev) (k : Key) (order : List Ref) (v : Sp)
    (w : World Sp) (hne : (Op.clear k order : Op Sp).readsENOENT → NoENOENT ev)
    (hf : (run C ev (resetProg C k order v) w).faulted = true) :
    (run C ev (resetProg C k order v) w).res ≠ .ok ∧
    ((run C ev (resetProg C k order v) w).res ≠ .crashed →
      ∃ n, (run C ev (resetProg C k order v) w).res = .exc n) := by
  have h := reset_fault_not_ok C ev (hne trivial) k order v w hf
  refine ⟨h, fun hnc => ?_⟩
  cases hr : (run C ev (resetProg C k order v) w).res with
  | ok => exact absurd hr h
  | crashed => exact absurd hr hnc
  | exc n => exact ⟨n, rfl⟩

/-- a normal return means done: the whole outcome is that of the event-free run (ENOENT not injected) … -/
theorem reset_ok_means_done (C : Codec Sp) (ev : Nat → Option Ev) (k : Key) (order : List Ref) (v : Sp)
    (w : World Sp) (hne : (Op.clear k order : Op Sp).readsENOENT → NoENOENT ev)
    (hok : (run C ev (resetProg C k order v) w).res = .ok) :
    run C ev (resetProg C k order v) w = run C noEv (resetProg C k order v) w :=
  reset_ok_event_free C ev (hne trivial) k order v w hok

/-- … and for a settled job whose directory the scan order enumerates, that is: payload removed,
    document reset to `{}`, state-point file (and every other directory) as before -/
theorem reset_ok_final_state (C : Codec Sp) (ev : Nat → Option Ev) (k : Key) (order : List Ref) (v : Sp)
    (w : World Sp) (d : JobDir Sp) (hne : (Op.clear k order : Op Sp).readsENOENT → NoENOENT ev)
    (hw : w k = some d) (hd : Settled C k.2 d) (hs : Scans (fun p => getEntry p d.entries) order)
    (hok : (run C ev (resetProg C k order v) w).res = .ok) :
    (run C ev (resetProg C k order v) w).w = upd w k (some { d with entries := [(docName, some "{}")] }) := by
  rw [reset_ok_means_done C ev k order v w hne hok]
  exact (reset_noEv_state C k order v w d hw hd hs).2

/-- the event-free `reset` of such a job does return normally (non-vacuity of the two above) -/
theorem reset_event_free_ok (C : Codec Sp) (k : Key) (order : List Ref) (v : Sp) (w : World Sp) (d : JobDir Sp)
    (hw : w k = some d) (hd : Settled C k.2 d) (hs : Scans (fun p => getEntry p d.entries) order) :
    (run C noEv (resetProg C k order v) w).res = .ok := (reset_noEv_state C k order v w d hw hd hs).1

/-- the ENOENT proviso is needed: the unlink of the data file `f` (step 0) fails with an injected
    ENOENT; `clear` reads it as "not there" and stops, `init` finds a valid job — normal return with
    a consumed fault, `f` still there, no document; the event-free run deletes `f` and writes `{}` -/
theorem reset_enoent_swallowed :
    let o := run cexCodec (faultAt 0 .ENOENT) (resetProg cexCodec cexSrc cexOrder 1) cexW
    let o0 := run cexCodec noEv (resetProg cexCodec cexSrc cexOrder 1) cexW
    o.res = .ok ∧ o.faulted = true ∧ hasFile o.w cexSrc "f" = true ∧ hasFile o.w cexSrc docName = false ∧
      o0.res = .ok ∧ hasFile o0.w cexSrc "f" = false ∧ hasFile o0.w cexSrc docName = true :=
  reset_enoent_swallowed_cex

/-- the regression `reset = remove(); init()` (`removeThenInitProg`) loses the job: the job of
    `cexW` validates; steps 0–2 are the removal (unlink state point, unlink `f`, rmdir), step 3
    would be `init`'s mkdir; the process dies right after the last step of the removal — no
    directory is left.  (`reset_keeps_job` excludes this for `resetProg`, for every schedule.) -/
theorem remove_then_init_loses_job :
    let o := run cexCodec (crashAt 3) (removeThenInitProg cexCodec cexSrc cexOrder 1) cexW
    validAt cexCodec cexW cexSrc = true ∧ o.res = .crashed ∧ o.w cexSrc = none :=
  remove_then_init_loses_cex

/-- the same with a handled I/O error: `init`'s mkdir (step 3) fails with EIO, an exception
    propagates, and the job is gone -/
theorem remove_then_init_loses_job_fault :
    let o := run cexCodec (faultAt 3 .EIO) (removeThenInitProg cexCodec cexSrc cexOrder 1) cexW
    o.res = .exc "OSError(EIO)" ∧ o.w cexSrc = none :=
  remove_then_init_loses_fault_cex

/-- hence "the job stays under every schedule" separates the two implementations: it holds of
    `resetProg` (`reset_keeps_job`) and fails for `removeThenInitProg` -/
theorem remove_then_init_not_keeps_job :
    ¬ ∀ (ev : Nat → Option Ev), ∃ d',
        (run cexCodec ev (removeThenInitProg cexCodec cexSrc cexOrder 1) cexW).w cexSrc = some d' := by
  intro h
  obtain ⟨d', hd'⟩ := h (crashAt 3)
  rw [remove_then_init_loses_job.2.2] at hd'
  cases hd'

/-- non-vacuity of `reset_keeps_job` / `clear_keeps_job` on the same instance and schedule -/
example : cexW cexSrc = some cexS ∧ validAt cexCodec cexW cexSrc = true ∧
    (run cexCodec (crashAt 3) (resetProg cexCodec cexSrc cexOrder 1) cexW).res = .crashed :=
  ⟨by simp [cexW, cexSrc], by decide, by decide⟩

end Signac.C11

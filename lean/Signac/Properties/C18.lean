/-
  C18 — schema detection and job diffs are exact summaries of the state points.
  Property theorems only; definitions of the model are in Signac/Schema.lean, helper lemmas and
  the specification vocabulary (`ConstKey`, `NoBoolIntClash`, `SameSlot`, `WFKVs`) in Signac/Proofs/Schema*.lean.

  `jobs` is the selection `detect_schema` works on (all jobs, or `subset`), in index order;
  `all` is the argument list of `diff_jobs`.  Nothing is bounded: any number of jobs, any depth.
-/
import Signac.Proofs.SchemaSpec
import Signac.Proofs.SchemaGate
import Signac.Proofs.SchemaGatePerm
namespace Signac.C18
open Signac Signac.Schema

/-! ### detect_schema: keys -/

/-- The reported keys are exactly the dotted keys of the selected jobs; with `exclude_const`
    exactly the constant keys are omitted (constant = every selected job holds a value under the
    key and all these values fall into one dict slot, i.e. agree as Python dict keys). -/
theorem schema_keys_exact (excl : Bool) (jobs : List Job) (k : String) :
    k ∈ (detectSchema excl jobs).map Prod.fst ↔
      (∃ j ∈ jobs, ∃ v, (k, v) ∈ flatten j.sp) ∧ ¬ (excl = true ∧ ConstKey k jobs) :=
  mem_schema_keys

/-- No key is reported twice. -/
theorem schema_keys_nodup (excl : Bool) (jobs : List Job) :
    ((detectSchema excl jobs).map Prod.fst).Nodup :=
  schema_keys_nodup' excl jobs

/-- A constant key is one on which every selected job has a value, all in the slot of the first. -/
theorem const_key_spec (k : String) (j0 : Job) (js : List Job) :
    ConstKey k (j0 :: js) ↔
      ∃ v0, valueAt k j0 = some v0 ∧
        ∀ j ∈ js, ∃ v, valueAt k j = some v ∧ IKey.same (keyOf v0) (keyOf v) = true :=
  Iff.rfl

/-- The dotted key of a flattened pair leads, in the nested state point, to that pair's value
    (keys dot-free and distinct, as signac enforces). -/
theorem dotted_key_value (j : Job) (hwf : WFKVs j.sp) (k : String) (v : JVal)
    (h : (k, v) ∈ flatten j.sp) : valueAt k j = some v :=
  getPath_flattenKVs j.sp k v hwf h

/-! ### detect_schema: values grouped by type -/

/-- Soundness: every reported value is filed under its own Python type, is not a mapping, and is
    literally the value some selected job holds under that key. -/
theorem schema_values_sound (excl : Bool) (jobs : List Job) (k t : String) (r : JVal)
    (h : r ∈ reported (detectSchema excl jobs) k t) :
    pyTypeName r = t ∧ isObj r = false ∧ ∃ j ∈ jobs, valueAt k j = some r :=
  reported_sound h

/-- Completeness on the proven domain: if no key holds a bool next to an `==`-equal int, every
    value of every selected job is represented, under its own type, by a reported value of the
    same dict slot (itself, or one that is `==` and of the same float-ness). -/
theorem schema_values_exact_partial (excl : Bool) (jobs : List Job) (hclash : NoBoolIntClash jobs)
    (k : String) (hk : k ∈ (detectSchema excl jobs).map Prod.fst)
    (j : Job) (hj : j ∈ jobs) (v : JVal) (hv : valueAt k j = some v) (hno : isObj v = false) :
    ∃ r ∈ reported (detectSchema excl jobs) k (pyTypeName v), SameSlot r v :=
  reported_complete_typed hclash hk hj hv hno

/-- The same statement without the hypothesis (what C18 literally asks for). -/
def schema_values_exact_full : Prop :=
  ∀ (excl : Bool) (jobs : List Job) (k : String), k ∈ (detectSchema excl jobs).map Prod.fst →
    ∀ j ∈ jobs, ∀ v, valueAt k j = some v → isObj v = false →
      ∃ r ∈ reported (detectSchema excl jobs) k (pyTypeName v), SameSlot r v

/-- the two-job corpus of F-6a -/
def f6aWitness : List Job := [⟨"j1", [("a", .bool true)]⟩, ⟨"j2", [("a", .int 1)]⟩]

/-- F-6a: the unrestricted statement is false of the model (as of the code): for `{a: True}`,
    `{a: 1}` nothing is reported under `int`. -/
theorem schema_values_exact_full_false : ¬ schema_values_exact_full := by
  intro h
  have hk : "a" ∈ (detectSchema false f6aWitness).map Prod.fst := by decide
  obtain ⟨r, hr, _⟩ := h false f6aWitness "a" hk ⟨"j2", [("a", .int 1)]⟩ (by simp [f6aWitness])
    (.int 1) rfl rfl
  have : reported (detectSchema false f6aWitness) "a" (pyTypeName (.int 1)) = [] := by decide
  rw [this] at hr
  cases hr

/-- Without the hypothesis every job value is still represented under the type of its slot's
    stored key. -/
theorem schema_values_represented (excl : Bool) (jobs : List Job)
    (k : String) (hk : k ∈ (detectSchema excl jobs).map Prod.fst)
    (j : Job) (hj : j ∈ jobs) (v : JVal) (hv : valueAt k j = some v) (hno : isObj v = false) :
    ∃ r ∈ reported (detectSchema excl jobs) k (pyTypeName r), SameSlot r v :=
  reported_complete hk hj hv hno

/-- The values reported for a key under one type are pairwise in different dict slots (a set). -/
theorem schema_values_separated (excl : Bool) (jobs : List Job) (k t : String) :
    (reported (detectSchema excl jobs) k t).Pairwise (fun a b => slotEq a b = false) :=
  reported_pairwise excl jobs k t

/-! ### flatten / unflatten -/

/-- `_dotted_dict_to_nested_dicts(dict(_nested_dicts_to_dotted_keys(sp))) == sp` for mappings with
    distinct dot-free keys at every depth (lists are their tuples; entry order is restored too). -/
theorem unflatten_flatten (sp : KVs) (hwf : WFKVs sp) : unflatten (flatten sp) = sp :=
  unflatten_flatten_eq hwf

/-! ### diff_jobs -/

/-- A job's diff and its common part partition its flattened pairs … -/
theorem diff_partition (all : List KVs) (sp : KVs) :
    (diffOf all sp ++ commonOf all sp).Perm (flatten sp) :=
  diff_common_perm all sp

/-- … the diff holds exactly the job's pairs to which no member of the intersection is equal
    (Python `==` on `(key, value)` tuples), the common part exactly those with an equal member … -/
theorem diff_exact (all : List KVs) (sp : KVs) (x : String × JVal) :
    (x ∈ diffOf all sp ↔ x ∈ flatten sp ∧ ∀ y ∈ inter all, pairEq y x = false)
    ∧ (x ∈ commonOf all sp ↔ x ∈ flatten sp ∧ ∃ y ∈ inter all, pairEq y x = true) :=
  ⟨mem_diffOf, mem_commonOf⟩

/-- … so the two are disjoint, also up to Python equality. -/
theorem diff_disjoint (all : List KVs) (sp : KVs) (x y : String × JVal)
    (hx : x ∈ diffOf all sp) (hy : y ∈ commonOf all sp) : x ≠ y := by
  intro e
  subst e
  obtain ⟨_, z, hz, hzx⟩ := mem_commonOf.mp hy
  rw [(mem_diffOf.mp hx).2 z hz] at hzx
  cases hzx

/-- The intersection consists of the pairs of the first job that every other job holds too. -/
theorem common_shared_by_all (sp0 : KVs) (rest : List KVs) (x : String × JVal) :
    x ∈ inter (sp0 :: rest) ↔
      x ∈ flatten sp0 ∧ ∀ o ∈ rest, ∃ y ∈ flatten o, pairEq y x = true :=
  mem_inter_cons

/-- What C18 asks of `diff_jobs`, literally: on state points whose mappings have distinct keys (every
    Python dict) a job's diff holds exactly its pairs NOT shared by all given jobs, and its common part
    exactly the shared ones — "shared" meaning every job holds a pair that is `==` as Python compares
    `(key, value)` tuples (`1 == 1.0 == True`, lists element-wise, mappings key-wise).  Uses that this
    `==` is symmetric and transitive (`pyEq_symm`, `pyEq_trans`). -/
theorem diff_is_unshared (all : List KVs) (hall : ∀ o ∈ all, NodupKeysObj o) (sp : KVs) (hsp : sp ∈ all)
    (x : String × JVal) :
    (x ∈ diffOf all sp ↔ x ∈ flatten sp ∧ ¬ SharedByAll all x)
    ∧ (x ∈ commonOf all sp ↔ x ∈ flatten sp ∧ SharedByAll all x) := by
  have hne : all ≠ [] := List.ne_nil_of_mem hsp
  constructor
  · rw [mem_diffOf]
    constructor
    · rintro ⟨hx, h⟩
      refine ⟨hx, fun hs => ?_⟩
      obtain ⟨y, hy, hyx⟩ :=
        (memPair_inter_iff hall hne (flatten_nodupKeys (hall sp hsp) x hx)).mpr hs
      rw [h y hy] at hyx
      cases hyx
    · rintro ⟨hx, h⟩
      refine ⟨hx, fun y hy => ?_⟩
      cases hyx : pairEq y x with
      | false => rfl
      | true =>
        exact absurd ((memPair_inter_iff hall hne
          (flatten_nodupKeys (hall sp hsp) x hx)).mp ⟨y, hy, hyx⟩) h
  · rw [mem_commonOf]
    constructor
    · rintro ⟨hx, h⟩
      exact ⟨hx, (memPair_inter_iff hall hne (flatten_nodupKeys (hall sp hsp) x hx)).mp h⟩
    · rintro ⟨hx, h⟩
      exact ⟨hx, (memPair_inter_iff hall hne (flatten_nodupKeys (hall sp hsp) x hx)).mpr h⟩

/-- The diff merged with the common part gives back the state point: the two lists together are
    a re-ordering of pairs that unflatten to exactly the job's state point. -/
theorem diff_reconstructs (all : List KVs) (sp : KVs) (hwf : WFKVs sp) :
    ∃ l, l.Perm (diffOf all sp ++ commonOf all sp) ∧ unflatten l = sp :=
  ⟨flatten sp, (diff_common_perm all sp).symm, unflatten_flatten_eq hwf⟩

/-- `diff_jobs` answers one entry per argument, in order, under the job's id. -/
theorem diffJobs_ids (jobs : List Job) : (diffJobs jobs).map Prod.fst = jobs.map Job.id := by
  simp [diffJobs, List.map_map, Function.comp_def]

/-! ### non-vacuity of the hypotheses -/

/-- a nested, mixed-type, well-formed state point (hypothesis of `dotted_key_value`,
    `unflatten_flatten`, `diff_reconstructs`) -/
example : WFKVs [("a", .obj [("b", .int 1), ("", .arr [.flt 1 0 "1.0", .null])]), ("c", .obj []),
                 ("é", .str "x")] := by
  simp [WFKVs, WFVal, DotFreeKey]

/-- two state points with distinct keys at every depth, one of them among the arguments, sharing the
    pair `("a", 1)` / `("a", 1.0)` (hypotheses of `diff_is_unshared`) -/
example :
    let all : List KVs := [[("a", .int 1), ("b", .arr [.obj [("x", .null), ("y", .bool true)]])],
                           [("a", .flt 1 0 "1.0"), ("c", .obj [])]]
    (∀ o ∈ all, NodupKeysObj o) ∧ [("a", .flt 1 0 "1.0"), ("c", .obj [])] ∈ all
      ∧ SharedByAll all ("a", .int 1) := by
  refine ⟨?_, by simp, ?_⟩
  · intro o ho
    simp only [List.mem_cons, List.not_mem_nil, or_false] at ho
    rcases ho with ho | ho <;> subst ho <;> simp [NodupKeysObj, NodupKeysVal, NodupKeysList]
  · intro o ho
    simp only [List.mem_cons, List.not_mem_nil, or_false] at ho
    rcases ho with ho | ho <;> subst ho
    · exact ⟨("a", .int 1), by simp [flatten, flattenKVs, flattenVal, childKey], by decide⟩
    · exact ⟨("a", .flt 1 0 "1.0"), by simp [flatten, flattenKVs, flattenVal, childKey], by decide⟩

/-- a corpus with an int next to the equal float, a list, a nested mapping and a missing key that
    satisfies `NoBoolIntClash`, and on which the key `a` is reported (hypotheses of
    `schema_values_exact_partial`) -/
example :
    let jobs : List Job := [⟨"j1", [("a", .int 1), ("b", .arr [.int 1])]⟩,
                            ⟨"j2", [("a", .flt 1 0 "1.0")]⟩,
                            ⟨"j3", [("a", .obj [("x", .null)])]⟩]
    NoBoolIntClash jobs ∧ "a" ∈ (detectSchema true jobs).map Prod.fst
      ∧ valueAt "a" ⟨"j2", [("a", .flt 1 0 "1.0")]⟩ = some (.flt 1 0 "1.0") := by
  exact ⟨noBoolIntClash_of_noBool (by decide), by decide, rfl⟩

/-! ### schema gate of sync (P19) -/

/- Model: Signac/SchemaGate.lean (`valSetEq`, `typedEq`, `schemaEq`, `schemaDifference`, `syncGate`);
   lemmas: Signac/Proofs/SchemaGate.lean.  `SchemaWF s` = distinct keys, distinct type names per key,
   every value list a set w.r.t. Python `==` (`pyEq`), every mapping inside a value has distinct keys —
   i.e. `s` is something Python can hold.  `NodupKeysObj j.sp` = the state point is a Python dict
   (distinct keys in every mapping, also inside lists). -/

/-- A schema detected from Python-dict state points is well-formed. -/
theorem detectSchema_wellformed (excl : Bool) (jobs : List Job) (hj : ∀ j ∈ jobs, NodupKeysObj j.sp) :
    SchemaWF (detectSchema excl jobs) :=
  Signac.Schema.detectSchema_wf excl hj

/-- Without any hypothesis: distinct keys (`schema_keys_nodup`), distinct type names under each key,
    and every reported value list is a set for Python `==`. -/
theorem detectSchema_keys_nodup (excl : Bool) (jobs : List Job) :
    ((detectSchema excl jobs).map Prod.fst).Nodup ∧
      ∀ kv ∈ detectSchema excl jobs, (kv.2.map Prod.fst).Nodup ∧ ∀ tv ∈ kv.2, PyApart tv.2 :=
  ⟨schema_keys_nodup' excl jobs, Signac.Schema.detectSchema_types_nodup excl jobs⟩

/-- Mapping equality is reflexive on well-formed schemas … -/
theorem schemaEq_refl (a : Schema) (h : SchemaWF a) : schemaEq a a = true :=
  Signac.Schema.schemaEq_refl h

/-- … and symmetric. -/
theorem schemaEq_symm (a b : Schema) (ha : SchemaWF a) (hb : SchemaWF b) :
    schemaEq a b = schemaEq b a :=
  Signac.Schema.schemaEq_symm ha hb

/-- With distinct keys only: both differences are empty iff the schemas are equal BOTH ways … -/
theorem difference_empty_iff_nodup (a b : Schema)
    (ha : (a.map Prod.fst).Nodup) (hb : (b.map Prod.fst).Nodup) :
    (schemaDifference false a b = [] ∧ schemaDifference false b a = []) ↔
      (schemaEq a b = true ∧ schemaEq b a = true) :=
  Signac.Schema.difference_empty_iff' ha hb

/-- … and on well-formed schemas iff they are equal: the inner test of the gate is redundant.
    (One-sided equality needs more than distinct keys: `difference_empty_iff_needs_sets`.) -/
theorem difference_empty_iff (a b : Schema) (ha : SchemaWF a) (hb : SchemaWF b) :
    (schemaDifference false a b = [] ∧ schemaDifference false b a = []) ↔ schemaEq a b = true :=
  Signac.Schema.difference_empty_iff ha hb

/-- `difference` lists no key twice. -/
theorem difference_nodup (ig : Bool) (a b : Schema) (ha : (a.map Prod.fst).Nodup) :
    (schemaDifference ig a b).Nodup :=
  Signac.Schema.schemaDifference_nodup ha

/-- The gate of `sync_projects` fires iff both detected schemas are non-empty and not equal
    (no hypothesis: the direction used needs distinct keys only). -/
theorem syncGate_simple (src dst : List Job) :
    syncGate src dst =
      (!(detectSchema false src).isEmpty && !(detectSchema false dst).isEmpty &&
        !schemaEq (detectSchema false src) (detectSchema false dst)) :=
  Signac.Schema.syncGate_simple src dst

/-- The gate does not depend on the direction of the synchronisation. -/
theorem syncGate_symm (a b : List Job) (ha : ∀ j ∈ a, NodupKeysObj j.sp)
    (hb : ∀ j ∈ b, NodupKeysObj j.sp) : syncGate a b = syncGate b a :=
  Signac.Schema.syncGate_symm ha hb

/-- A project never has a schema conflict with itself. -/
theorem syncGate_same (jobs : List Job) (h : ∀ j ∈ jobs, NodupKeysObj j.sp) :
    syncGate jobs jobs = false :=
  Signac.Schema.syncGate_same h

/-- A project without jobs, or whose jobs all have the empty state point, has the empty schema … -/
theorem detectSchema_empty (excl : Bool) (jobs : List Job) (h : ∀ j ∈ jobs, j.sp = []) :
    detectSchema excl jobs = [] :=
  Signac.Schema.detectSchema_empty excl h

/-- … and never trips the gate, as source … -/
theorem syncGate_empty_left (src dst : List Job) (h : ∀ j ∈ src, j.sp = []) :
    syncGate src dst = false :=
  Signac.Schema.syncGate_empty_left dst h

/-- … or as destination. -/
theorem syncGate_empty_right (src dst : List Job) (h : ∀ j ∈ dst, j.sp = []) :
    syncGate src dst = false :=
  Signac.Schema.syncGate_empty_right src h

/-- `ignore_values=True` reports a subset of what `ignore_values=False` reports … -/
theorem difference_ignore_subset (a b : Schema) :
    ∀ k ∈ schemaDifference true a b, k ∈ schemaDifference false a b :=
  Signac.Schema.difference_ignore_subset

/-- … namely exactly the keys of `a` that are not keys of `b`. -/
theorem difference_ignore_keys (a b : Schema) (k : String) :
    k ∈ schemaDifference true a b ↔ k ∈ a.map Prod.fst ∧ k ∉ b.map Prod.fst :=
  Signac.Schema.difference_ignore_keys

/-- Membership in `difference` in general. -/
theorem difference_mem (ig : Bool) (a b : Schema) (k : String) :
    k ∈ schemaDifference ig a b ↔
      ∃ v, (k, v) ∈ a ∧ (alookup k b = none ∨
        (ig = false ∧ ∃ w, alookup k b = some w ∧ typedEq w v = false)) :=
  Signac.Schema.mem_schemaDifference

/-- F-6a again: the gate is NOT invariant under re-ordering the jobs of a project (`{a: True},{a: 1}`
    against `{a: True}` is silent, `{a: 1},{a: True}` against `{a: True}` fires). -/
theorem syncGate_perm_false :
    ¬ (∀ src src' dst : List Job, src.Perm src' → syncGate src dst = syncGate src' dst) :=
  Signac.Schema.syncGate_perm_false

/-- non-vacuity: the gate fires on `{a: 1}` / `{a: 2}` and on `{a: 1}` / `{a: 1.0}`, is silent on the
    same values in another job order and when one side has no state point keys -/
example : syncGate [⟨"j1", [("a", .int 1)]⟩] [⟨"j2", [("a", .int 2)]⟩] = true
    ∧ syncGate [⟨"j1", [("a", .int 1)]⟩] [⟨"j2", [("a", .flt 1 0 "1.0")]⟩] = true
    ∧ syncGate [⟨"j1", [("a", .int 1)]⟩, ⟨"j2", [("a", .int 2)]⟩]
               [⟨"j3", [("a", .int 2)]⟩, ⟨"j4", [("a", .int 1)]⟩] = false
    ∧ syncGate [⟨"j1", [("a", .int 1)]⟩] [⟨"j0", []⟩] = false := by decide

/-! ### schema gate: order independence (P20) -/

/- Lemmas: Signac/Proofs/SchemaGatePerm.lean.  `NoBoolIntClash jobs` is the hypothesis of
   `schema_values_exact_partial` (no key under which one job holds a bool and another an `==`-equal int:
   the class of F-6a); nothing stronger is needed.  Python `==` on JSON-born values is transitive without
   any hypothesis (`pyEq_trans`: ints and floats are compared exactly, `True == 1 == 1.0`), so Mapping
   equality of schemas is transitive without well-formedness. -/

/-- Mapping equality of schemas is transitive (the well-formedness hypotheses are not used:
    `schemaEq_trans_nohyp`). -/
theorem schemaEq_trans (a b c : Schema) (ha : SchemaWF a) (hb : SchemaWF b) (hc : SchemaWF c)
    (h1 : schemaEq a b = true) (h2 : schemaEq b c = true) : schemaEq a c = true :=
  Signac.Schema.schemaEq_trans ha hb hc h1 h2

/-- … in fact for arbitrary association lists. -/
theorem schemaEq_trans_nohyp (a b c : Schema)
    (h1 : schemaEq a b = true) (h2 : schemaEq b c = true) : schemaEq a c = true :=
  Signac.Schema.schemaEq_trans' h1 h2

/-- The SET of reported keys does not depend on the job order (no hypothesis). -/
theorem detectSchema_perm_keys (jobs jobs' : List Job) (hp : jobs.Perm jobs') (k : String) :
    k ∈ (detectSchema false jobs).map Prod.fst ↔ k ∈ (detectSchema false jobs').map Prod.fst :=
  Signac.Schema.detectSchema_perm_keys hp k

/-- Without the bool/int clash (and with Python-dict state points) the detected schema does not depend
    on the job order, up to Mapping equality. -/
theorem detectSchema_perm_schemaEq_partial (jobs jobs' : List Job) (hclash : NoBoolIntClash jobs)
    (hj : ∀ j ∈ jobs, NodupKeysObj j.sp) (hp : jobs.Perm jobs') :
    schemaEq (detectSchema false jobs) (detectSchema false jobs') = true :=
  Signac.Schema.detectSchema_perm_schemaEq_partial hclash hj hp

/-- The gate does not depend on the order of the source jobs when THESE are clash-free Python dicts
    (nothing is asked of the destination) … -/
theorem syncGate_perm_partial (src src' dst : List Job) (hclash : NoBoolIntClash src)
    (hj : ∀ j ∈ src, NodupKeysObj j.sp) (hp : src.Perm src') :
    syncGate src dst = syncGate src' dst :=
  Signac.Schema.syncGate_perm_partial dst hclash hj hp

/-- … nor on the order of the destination jobs when these are.  With `syncGate_perm_false`: the index
    order matters only through F-6a. -/
theorem syncGate_perm_partial_dst (src dst dst' : List Job) (hclash : NoBoolIntClash dst)
    (hj : ∀ j ∈ dst, NodupKeysObj j.sp) (hp : dst.Perm dst') :
    syncGate src dst = syncGate src dst' :=
  Signac.Schema.syncGate_perm_partial_dst src hclash hj hp

/-- non-vacuity: a clash-free corpus of Python dicts (int next to the equal float, nested mapping,
    list) and a re-ordering of it -/
example :
    let jobs : List Job := [⟨"j1", [("a", .int 1), ("b", .arr [.int 1])]⟩,
                            ⟨"j2", [("a", .flt 1 0 "1.0")]⟩,
                            ⟨"j3", [("a", .obj [("x", .null)])]⟩]
    let jobs' : List Job := [⟨"j2", [("a", .flt 1 0 "1.0")]⟩,
                             ⟨"j3", [("a", .obj [("x", .null)])]⟩,
                             ⟨"j1", [("a", .int 1), ("b", .arr [.int 1])]⟩]
    NoBoolIntClash jobs ∧ (∀ j ∈ jobs, NodupKeysObj j.sp) ∧ jobs.Perm jobs'
      ∧ schemaEq (detectSchema false jobs) (detectSchema false jobs') = true := by
  refine ⟨noBoolIntClash_of_noBool (by decide), ?_,
    List.perm_append_comm (l₁ := [_]) (l₂ := [_, _]), by decide⟩
  intro j hj
  simp only [List.mem_cons, List.not_mem_nil, or_false] at hj
  rcases hj with hj | hj | hj <;> subst hj <;> simp [NodupKeysObj, NodupKeysVal, NodupKeysList]

/-- the hypothesis is what fails on the F-6a corpus -/
example : ¬ NoBoolIntClash f6aWitness := by
  intro h
  have := h "a" ⟨"j1", [("a", .bool true)]⟩ (by simp [f6aWitness]) ⟨"j2", [("a", .int 1)]⟩
    (by simp [f6aWitness]) (.bool true) (.int 1) rfl rfl
  revert this
  decide

end Signac.C18
